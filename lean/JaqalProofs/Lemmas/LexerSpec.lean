import JaqalModel.Model.Lexer
/-! Facts about the lexer model: every rule consumes a non-empty prefix of the input, comments have the
shape of comments, and the token list is a faithful segmentation of the text. -/
namespace Jaqal.Lexer

theorem spanP_append (p : Char → Bool) (cs : List Char) : cs = (spanP p cs).1 ++ (spanP p cs).2 := by
  induction cs with
  | nil => rfl
  | cons c cs ih =>
    simp only [spanP]
    split
    · simp only [List.cons_append]; exact congrArg _ ih
    · rfl

theorem spanP_all (p : Char → Bool) (cs : List Char) : ∀ c ∈ (spanP p cs).1, p c = true := by
  induction cs with
  | nil => simp [spanP]
  | cons c cs ih =>
    simp only [spanP]
    split
    · rename_i hc
      intro d hd
      simp only [List.mem_cons] at hd
      rcases hd with rfl | hd
      · exact hc
      · exact ih d hd
    · simp

theorem spanP_eq {p : Char → Bool} {cs a b : List Char} (h : spanP p cs = (a, b)) : cs = a ++ b := by
  have := spanP_append p cs; rw [h] at this; exact this

theorem identTail_append (cs : List Char) : cs = (identTail cs).1 ++ (identTail cs).2 := by
  fun_induction identTail cs
  · rfl
  · rename_i c cs hc r ih
    show c :: cs = c :: (r.1 ++ r.2)
    exact congrArg _ ih
  · rename_i d ds hd r hdot ih
    show '.' :: d :: ds = '.' :: d :: (r.1 ++ r.2)
    exact congrArg _ (congrArg _ ih)
  · rfl
  · rfl
  · rfl

/-- `cs = m ++ rest` with `m` non-empty. -/
def Consumes (cs rest : List Char) : Prop := ∃ m, m ≠ [] ∧ cs = m ++ rest

theorem Consumes.length {cs rest} (h : Consumes cs rest) : rest.length < cs.length := by
  obtain ⟨m, hm, rfl⟩ := h
  have : 0 < m.length := List.length_pos_iff.2 hm
  simp; omega

theorem mNL_consumes {cs m rest} (h : mNL cs = some (m, rest)) : m ≠ [] ∧ cs = m ++ rest := by
  unfold mNL at h
  split at h
  · cases h
  · rename_i r hne
    simp only [Option.some.injEq] at h
    have := spanP_append (· = '\n') cs
    rw [h] at this
    refine ⟨?_, this⟩
    intro h0
    exact hne rest (by rw [h, h0])

theorem mIdent_consumes {cs m rest} (h : mIdent cs = some (m, rest)) : m ≠ [] ∧ cs = m ++ rest := by
  unfold mIdent at h
  split at h
  · rename_i c cs'
    split at h
    · cases h
      exact ⟨by simp, by simp only [List.cons_append]; exact congrArg _ (identTail_append cs')⟩
    · cases h
  · cases h

theorem mDotIdent_consumes {cs m rest} (h : mDotIdent cs = some (m, rest)) : m ≠ [] ∧ cs = m ++ rest := by
  unfold mDotIdent at h
  split at h
  · rename_i c cs'
    split at h
    · split at h
      · rename_i r hr
        cases h
        obtain ⟨-, h2⟩ := mIdent_consumes (m := r.1) (rest := r.2) hr
        exact ⟨by simp, by simp only [List.cons_append]; exact congrArg _ h2⟩
      · cases h; exact ⟨by simp, rfl⟩
    · cases h
  · cases h

theorem optSign_append (cs : List Char) : cs = (optSign cs).1 ++ (optSign cs).2 := by
  unfold optSign
  split
  · split <;> rfl
  · rfl

theorem mExponent_consumes {cs s d rest} (h : mExponent cs = some (s, d, rest)) : Consumes cs rest := by
  unfold mExponent at h
  split at h
  · rename_i c cs'
    split at h
    · simp only at h
      split at h
      · cases h
      · rename_i ds r hne hsp
        cases h
        refine ⟨c :: ((optSign cs').1 ++ d), by simp, ?_⟩
        have h1 := optSign_append cs'
        have h2 := spanP_eq hsp
        simp only [List.cons_append, List.append_assoc]
        rw [← h2, ← h1]
    · cases h
  · cases h

theorem mNumber_consumes {cs n rest} (h : mNumber cs = some (n, rest)) : Consumes cs rest := by
  unfold mNumber at h
  simp only at h
  split at h
  · rename_i c r hi
    split at h
    · rename_i hc
      split at h
      · cases h
      · rename_i fd rest0 hne hsp
        have h1 := optSign_append cs
        have h2 := spanP_append isDigit (optSign cs).2
        have h3 := spanP_eq hsp
        have hcs : cs = ((optSign cs).1 ++ (spanP isDigit (optSign cs).2).1 ++ c :: fd) ++ rest0 := by
          conv => lhs; rw [h1, h2, hi, h3]
          simp
        split at h
        · rename_i es ed rest' hex
          cases h
          obtain ⟨m, hm, hm2⟩ := mExponent_consumes hex
          exact ⟨((optSign cs).1 ++ (spanP isDigit (optSign cs).2).1 ++ c :: fd) ++ m, by simp,
            by rw [List.append_assoc, ← hm2]; exact hcs⟩
        · cases h
          exact ⟨_, by simp, hcs⟩
    · cases h
  · cases h

theorem mInt_consumes {cs s ds rest} (h : mInt cs = some (s, ds, rest)) : Consumes cs rest := by
  unfold mInt at h
  simp only at h
  split at h
  · cases h
  · rename_i ds' r hne hsp
    cases h
    refine ⟨(optSign cs).1 ++ ds, ?_, ?_⟩
    · intro h0
      have : ds = [] := (List.append_eq_nil_iff.1 h0).2
      exact hne this
    · have h1 := optSign_append cs
      have h2 := spanP_eq hsp
      rw [List.append_assoc, ← h2, ← h1]

theorem mBinInt_consumes {cs ds rest} (h : mBinInt cs = some (ds, rest)) : Consumes cs rest := by
  unfold mBinInt at h
  split at h
  · rename_i c cs'
    split at h
    · split at h
      · cases h
      · rename_i ds' q r hne hsp
        split at h
        · cases h
          have h2 := spanP_eq hsp
          exact ⟨c :: (ds ++ [q]), by simp, by simp only [List.cons_append, List.append_assoc]; rw [h2]; simp⟩
        · cases h
      · cases h
    · cases h
  · cases h

/-- `//` followed by characters other than newline. -/
def IsLineComment (m : List Char) : Prop := ∃ b, m = '/' :: '/' :: b ∧ ∀ c ∈ b, c ≠ '\n'

/-- `/*`, a body, `*/` (the body does not contain `*/` before its end; not needed here). -/
def IsBlockComment (m : List Char) : Prop := ∃ b, m = '/' :: '*' :: (b ++ ['*', '/'])

theorem mComment_spec {cs rest} (h : mComment cs = some rest) : ∃ m, IsLineComment m ∧ cs = m ++ rest := by
  unfold mComment at h
  split at h
  · rename_i a b cs'
    split at h
    · rename_i hab
      cases h
      simp only [Bool.and_eq_true, decide_eq_true_eq] at hab
      obtain ⟨rfl, rfl⟩ := hab
      refine ⟨'/' :: '/' :: (spanP (· ≠ '\n') cs').1, ⟨_, rfl, ?_⟩, ?_⟩
      · intro c hc
        simpa using spanP_all (· ≠ '\n') cs' c hc
      · simp only [List.cons_append]
        exact congrArg _ (congrArg _ (spanP_append _ cs'))
    · cases h
  · cases h

theorem blockBody_spec (cs : List Char) : ∀ {body rest}, blockBody cs = some (body, rest) →
    cs = body ++ rest ∧ ∃ b, body = b ++ ['*', '/'] := by
  fun_induction blockBody cs <;> intro body rest h
  · cases h
  · rename_i c d ds hcd
    cases h
    simp only [Bool.and_eq_true, decide_eq_true_eq] at hcd
    obtain ⟨rfl, rfl⟩ := hcd
    exact ⟨rfl, [], rfl⟩
  · rename_i c d ds hcd r hr ih
    rw [hr] at h
    cases h
    obtain ⟨h1, b, h2⟩ := ih (body := r.1) (rest := r.2) hr
    exact ⟨by simp only [List.cons_append]; exact congrArg _ h1, c :: b, by rw [h2]; rfl⟩
  · rename_i hn ih
    rw [hn] at h; cases h
  · cases h

theorem mBlockComment_spec {cs body rest} (h : mBlockComment cs = some (body, rest)) :
    ∃ m, IsBlockComment m ∧ cs = m ++ rest ∧ m = '/' :: '*' :: body := by
  unfold mBlockComment at h
  split at h
  · rename_i a b cs'
    split at h
    · rename_i hab
      simp only [Bool.and_eq_true, decide_eq_true_eq] at hab
      obtain ⟨rfl, rfl⟩ := hab
      obtain ⟨h1, b, h2⟩ := blockBody_spec cs' h
      exact ⟨'/' :: '*' :: body, ⟨b, by rw [h2]⟩, by simp only [List.cons_append]; rw [h1], rfl⟩
    · cases h
  · cases h

theorem step_token {cs t rest nl} (h : step cs = .token t rest nl) : Consumes cs rest := by
  unfold step at h
  split at h
  · rename_i m r hm
    cases h
    obtain ⟨h1, h2⟩ := mNL_consumes hm
    exact ⟨m, h1, h2⟩
  · split at h
    · rename_i m r hm
      cases h
      obtain ⟨h1, h2⟩ := mIdent_consumes hm
      exact ⟨m, h1, h2⟩
    · split at h
      · rename_i m r hm
        cases h
        obtain ⟨h1, h2⟩ := mDotIdent_consumes hm
        exact ⟨m, h1, h2⟩
      · split at h
        · rename_i n r hm
          simp only at h
          split at h
          · cases h
          · cases h; exact mNumber_consumes hm
        · split at h
          · rename_i s ds r hm
            split at h
            · cases h
            · cases h; exact mInt_consumes hm
          · split at h
            · rename_i ds r hm
              cases h; exact mBinInt_consumes hm
            · split at h
              · cases h
              · split at h
                · cases h
                · split at h
                  · split at h
                    · cases h; exact ⟨[_], by simp, rfl⟩
                    · cases h
                  · cases h

theorem step_skip {cs rest nl} (h : step cs = .skip rest nl) :
    ∃ m, (IsLineComment m ∨ IsBlockComment m) ∧ cs = m ++ rest := by
  unfold step at h
  split at h
  · cases h
  · split at h
    · cases h
    · split at h
      · cases h
      · split at h
        · simp only at h
          split at h <;> cases h
        · split at h
          · split at h <;> cases h
          · split at h
            · cases h
            · split at h
              · rename_i r hm
                cases h
                obtain ⟨m, h1, h2⟩ := mComment_spec hm
                exact ⟨m, Or.inl h1, h2⟩
              · split at h
                · rename_i body r hm
                  cases h
                  obtain ⟨m, h1, h2, -⟩ := mBlockComment_spec hm
                  exact ⟨m, Or.inr h1, h2⟩
                · split at h
                  · split at h <;> cases h
                  · cases h

/-- The text is a sequence of `ignore` characters, comments and token texts, and `ts` lists the tokens of
the token texts in order (`step` = the master regular expression at that position). -/
inductive Covers : List Char → List Tok → Prop
  | nil : Covers [] []
  | ws {c cs ts} : isIgnore c = true → Covers cs ts → Covers (c :: cs) ts
  | comment {m cs ts} : IsLineComment m ∨ IsBlockComment m → Covers cs ts → Covers (m ++ cs) ts
  | tok {m cs t ts nl} : m ≠ [] → step (m ++ cs) = .token t cs nl → Covers cs ts →
      Covers (m ++ cs) (t :: ts)

theorem lexAux_covers (text : List Char) : ∀ (fuel : Nat) (cs : List Char) (line : Nat) (ts : List PTok),
    cs.length < fuel → lexAux text fuel cs line = (ts, none) → Covers cs (ts.map (·.tok)) := by
  intro fuel
  induction fuel with
  | zero => intro cs line ts hf; omega
  | succ fuel ih =>
    intro cs line ts hf h
    cases cs with
    | nil => simp only [lexAux] at h; cases h; exact .nil
    | cons c rest =>
      simp only [lexAux] at h
      split at h
      · rename_i hc
        exact .ws hc (ih rest line ts (by simp at hf; omega) h)
      · split at h
        · rename_i t rest' nl hs
          simp only [Prod.mk.injEq] at h
          obtain ⟨h1, h2⟩ := h
          obtain ⟨m, hm, hcs⟩ := step_token hs
          have hlen := (step_token hs).length
          subst h1
          rw [hcs]
          refine .tok hm (hcs ▸ hs) ?_
          exact ih rest' _ _ (by simp at hf hlen; omega) (Prod.ext rfl h2)
        · rename_i rest' nl hs
          obtain ⟨m, hm, hcs⟩ := step_skip hs
          rw [hcs]
          have hlen : rest'.length < (c :: rest).length := by
            rw [hcs]
            rcases hm with ⟨b, rfl, -⟩ | ⟨b, rfl⟩ <;> simp <;> omega
          exact .comment hm (ih rest' _ ts (by simp at hf hlen; omega) h)
        · cases h
        · cases h


/-- Offset `i` of `text` is where the lexer starts a token (`some t`) or stops with an error (`none`). -/
def StartsAt (text : List Char) (i : Nat) (t : Option Tok) : Prop :=
  ∃ pre suf, text = pre ++ suf ∧ i = pre.length ∧ suf ≠ [] ∧
    match t with
    | some t => ∃ rest nl, step suf = .token t rest nl
    | none => step suf = .illegal ∨ step suf = .overflow

theorem StartsAt.lt {text i t} (h : StartsAt text i t) : i < text.length := by
  obtain ⟨pre, suf, rfl, rfl, hs, -⟩ := h
  have : 0 < suf.length := List.length_pos_iff.2 hs
  simp; omega

theorem lexAux_positions (text : List Char) : ∀ (fuel : Nat) (cs : List Char) (line : Nat),
    cs.length < fuel → (∃ pre, text = pre ++ cs) →
    (∀ p ∈ (lexAux text fuel cs line).1, StartsAt text p.index (some p.tok)) ∧
    (∀ e, (lexAux text fuel cs line).2 = some e → ∃ i, StartsAt text i none ∧ e.col = colOf text i) := by
  intro fuel
  induction fuel with
  | zero => intro cs line hf; omega
  | succ fuel ih =>
    intro cs line hf ⟨pre, hpre⟩
    cases cs with
    | nil => simp [lexAux]
    | cons c rest =>
      have hidx : text.length - (c :: rest).length = pre.length := by rw [hpre]; simp
      simp only [lexAux]
      split
      · exact ih rest line (by simp at hf; omega) ⟨pre ++ [c], by rw [hpre]; simp⟩
      · split
        · rename_i t rest' nl hs
          obtain ⟨m, hm, hcs⟩ := step_token hs
          have hlen := (step_token hs).length
          obtain ⟨ih1, ih2⟩ := ih rest' (line + nl) (by simp at hf hlen; omega)
            ⟨pre ++ m, by rw [hpre, hcs]; simp⟩
          refine ⟨?_, ih2⟩
          intro p hp
          simp only [List.mem_cons] at hp
          rcases hp with rfl | hp
          · exact ⟨pre, c :: rest, hpre, hidx, by simp, rest', nl, hs⟩
          · exact ih1 p hp
        · rename_i rest' nl hs
          obtain ⟨m, hm, hcs⟩ := step_skip hs
          have hlen : rest'.length < (c :: rest).length := by
            rw [hcs]
            rcases hm with ⟨b, rfl, -⟩ | ⟨b, rfl⟩ <;> simp <;> omega
          exact ih rest' (line + nl) (by simp at hf hlen; omega) ⟨pre ++ m, by rw [hpre, hcs]; simp⟩
        · rename_i hs
          refine ⟨by simp, ?_⟩
          intro e he
          cases he
          exact ⟨_, ⟨pre, c :: rest, hpre, hidx, by simp, Or.inr hs⟩, rfl⟩
        · rename_i hs
          refine ⟨by simp, ?_⟩
          intro e he
          cases he
          exact ⟨_, ⟨pre, c :: rest, hpre, hidx, by simp, Or.inl hs⟩, rfl⟩

theorem lexAll_positions (s : String) :
    (∀ p ∈ (lexAll s).1, StartsAt s.toList p.index (some p.tok)) ∧
    (∀ e, (lexAll s).2 = some e → ∃ i, StartsAt s.toList i none ∧ e.col = colOf s.toList i) :=
  lexAux_positions s.toList _ _ 1 (by simp) ⟨[], rfl⟩

theorem lex_covers {s : String} {ts : List PTok} (h : lex s = .ok ts) : Covers s.toList (ts.map (·.tok)) := by
  unfold lex at h
  split at h
  · rename_i ts' hl
    cases h
    exact lexAux_covers s.toList _ _ 1 _ (by simp) hl
  · cases h


end Jaqal.Lexer
