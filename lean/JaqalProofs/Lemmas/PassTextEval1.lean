import JaqalProofs.Lemmas.PassTextSubs
/-!
# Kernel evaluations for `Props/C10Text.lean`, first counterexample (split off to keep each file fast)

`subcircuit { g }; prepare_all 1` without a gate set: accepted, `expand_subcircuits` succeeds, the result is `IntsBounded`,
and the tree of the result's text is refused by the builder (`too-many-parameters`: the inserted `prepare_all` has no
argument, the user's has one).
-/
set_option linter.unusedVariables false
namespace Jaqal.PassText
open Jaqal Jaqal.Builder Jaqal.Pipeline Jaqal.RoundTrip Jaqal.Passes

/-- `subcircuit { g }; prepare_all 1` -/
def cxText : String := "subcircuit{g}\nprepare_all 1\n"

/-- the text is accepted, `expand_subcircuits` succeeds, the tree of the result is refused -/
theorem cxText_refused :
    (match parseProgram {} cxText with
     | .ok c =>
       (match apply .subs c with
        | .ok c' =>
          (match parseBuild {} (unbuild c') with
           | .error (.jaqal r) => r == "too-many-parameters"
           | _ => false)
        | .error _ => false)
     | .error _ => false) = true := by decide +kernel

/-- … and the result is `IntsBounded` -/
theorem cxText_bounded :
    (match parseProgram {} cxText with
     | .ok c =>
       (match apply .subs c with
        | .ok c' => decide (IntsBounded c')
        | .error _ => false)
     | .error _ => false) = true := by decide +kernel

end Jaqal.PassText
