import JaqalProofs.Lemmas.ParsedUnitTiming
import JaqalProofs.Lemmas.BuiltFits
/-!
# `countsOK` of everything the builder makes (lemmas for `Lemmas/PassesCountsOK.lean`, `Props/C19Parsed.lean`)

Every block statement a pass puts out is made by the `BlockStatement` constructor (`mkBlock`, or the builder for the two fill-in
passes), so the blocks of the result outside loops pass the constructor checks again.
-/
set_option linter.unusedSimpArgs false
set_option linter.unusedVariables false
namespace Jaqal.Builder
open Jaqal Jaqal.FillIn Jaqal.UnitTimingCircuit

/-! ## `countsOK` of EVERYTHING `Builder.build` makes (any S-expression, any memo mode): for the rebuilds of `fill_in_let` / `fill_in_map`

The induction is that of `built_fits` (`Lemmas/BuiltFits.lean`) with another predicate. -/

def CS (s : Stmt) : Prop := countsOK s = true

def ObjC : Obj → Prop
  | .stmt s => CS s
  | _ => True

def MemoC (m : Memo) : Prop := ∀ k s, (k, s) ∈ m → CS s

theorem callDef_c {gd : GateDef} {vals : List Val} {s : Stmt} (h : callDef gd vals = .ok s) : CS s := by
  obtain ⟨args, rfl, _⟩ := callDef_full h
  simp [CS, countsOK]

theorem buildGate_c {cfg : Config} {mode : KeyMode} {ctx : Ctx} {recV : BSx → M Val} {args : List BSx} {st st1 : St}
    {s : Stmt} (hi : MemoC st.memo) (h : buildGate cfg mode ctx recV args st = .ok (s, st1)) :
    MemoC st1.memo ∧ CS s := by
  unfold buildGate at h
  split at h
  · simp [throw_eq] at h
  · rename_i name gargs
    obtain ⟨_, _, h⟩ := bind_ok h
    unfold buildGateMemo at h
    by_cases hoff : mode = .off
    · simp only [hoff, if_true] at h
      obtain ⟨p, hb, h1⟩ := bind_ok h
      obtain ⟨s', g'⟩ := p
      cases h1
      obtain ⟨e, _, _, hcall⟩ := buildGateFresh_ok hb
      obtain ⟨vals, _, hc⟩ := bind_ok hcall
      exact ⟨hi, callDef_c hc⟩
    · simp only [hoff, if_false] at h
      cases hfind : Memo.find mode.numByValue st.memo (mkKey mode ctx name gargs) with
      | some g =>
        simp only [hfind, pure, Except.pure] at h
        cases h
        obtain ⟨k, hk, _⟩ := Memo.find_some hfind
        exact ⟨hi, hi k _ hk⟩
      | none =>
        simp only [hfind] at h
        obtain ⟨p, hb, h1⟩ := bind_ok h
        obtain ⟨s', g'⟩ := p
        cases h1
        obtain ⟨e, _, _, hcall⟩ := buildGateFresh_ok hb
        obtain ⟨vals, _, hc⟩ := bind_ok hcall
        have hs := callDef_c hc
        refine ⟨?_, hs⟩
        intro k s0 hk
        rcases List.mem_cons.1 hk with heq | hk
        · cases heq; exact hs
        · exact hi k s0 hk
  · simp [throw_eq] at h

theorem asStmts_c : ∀ {os : List Obj} {ss : List Stmt}, asStmts os = .ok ss →
    (∀ o ∈ os, ObjC o) → countsOKList ss = true := by
  intro os
  induction os with
  | nil => intro ss h _; simp [asStmts, pure, Except.pure] at h; subst h; rfl
  | cons o os ih =>
    intro ss h ho
    cases o with
    | stmt s0 =>
      simp only [asStmts] at h
      obtain ⟨r, hr, h1⟩ := bind_ok h
      cases h1
      have h0 : countsOK s0 = true := ho (.stmt s0) (by simp)
      simp [countsOKList, h0, ih hr (fun o' ho' => ho o' (by simp [ho']))]
    | _ => simp [asStmts, throw_eq] at h

theorem mapMSt_c {fA : BSx → St → M (Obj × St)} : ∀ (l : List BSx) (st st1 : St) (os : List Obj),
    (∀ x ∈ l, ∀ s s1 o, MemoC s.memo → fA x s = .ok (o, s1) → MemoC s1.memo ∧ ObjC o) →
    MemoC st.memo → mapMSt fA l st = .ok (os, st1) → MemoC st1.memo ∧ ∀ o ∈ os, ObjC o := by
  intro l
  induction l with
  | nil =>
    intro st st1 os _ hi h
    simp only [mapMSt, pure, Except.pure] at h
    cases h
    exact ⟨hi, fun o ho => (by cases ho)⟩
  | cons x xs ih =>
    intro st st1 os hf hi h
    simp only [mapMSt] at h
    obtain ⟨p, hp, h1⟩ := bind_ok h
    obtain ⟨o, s1⟩ := p
    obtain ⟨q, hq, h2⟩ := bind_ok h1
    obtain ⟨os', s2⟩ := q
    cases h2
    have hp1 := hf x (by simp) st s1 o hi hp
    obtain ⟨hi2, hos⟩ := ih s1 _ os' (fun y hy => hf y (by simp [hy])) hp1.1 hq
    refine ⟨hi2, ?_⟩
    intro o' ho'
    rcases List.mem_cons.1 ho' with rfl | ho'
    · exact hp1.2
    · exact hos o' ho'

theorem anyStep_c {cfg : Config} {mode : KeyMode} {recA : Ctx → BSx → St → M (Obj × St)} {recV : BSx → M Val}
    {ctx : Ctx} {l : List BSx} {st st1 : St} {o : Obj}
    (hrec : ∀ c x, x ∈ l → ∀ s s1 o, MemoC s.memo → recA c x s = .ok (o, s1) → MemoC s1.memo ∧ ObjC o)
    (hi : MemoC st.memo) (h : anyStep cfg mode recA recV ctx l st = .ok (o, st1)) :
    MemoC st1.memo ∧ ObjC o := by
  unfold anyStep at h
  match l, hrec, h with
  | [], _, h => simp [throw_eq] at h
  | .str cmd :: args, hrec, h =>
    have hrec' : ∀ c x, x ∈ args → ∀ s s1 o, MemoC s.memo → recA c x s = .ok (o, s1) → MemoC s1.memo ∧ ObjC o :=
      fun c x hx => hrec c x (by simp [hx])
    have hblock : ∀ (c : Ctx) (as : List BSx) (par sub : Bool) (it : Val), blockOK sub it = true → (∀ x ∈ as, x ∈ args) →
        ∀ (os : List Obj) (s1 : St) (ss : List Stmt), mapMSt (recA c) as st = .ok (os, s1) → asStmts os = .ok ss →
        MemoC s1.memo ∧ ObjC (.stmt (.block par sub it ss)) := by
      intro c as par sub it hbk has os s1 ss hmap hss
      obtain ⟨hi1, hos⟩ := mapMSt_c as st s1 os (fun x hx => hrec' c x (has x hx)) hi hmap
      exact ⟨hi1, by simp [ObjC, CS, countsOK, hbk, asStmts_c hss hos]⟩
    by_cases h1 : cmd = "gate"
    · simp only [h1, if_true] at h
      obtain ⟨p, hp, h2⟩ := bind_ok h
      cases h2
      exact buildGate_c hi hp
    simp only [h1, if_false] at h
    by_cases h2 : cmd = "sequential_block" ∨ cmd = "block"
    · simp only [h2, if_true] at h
      obtain ⟨p, hp, h3⟩ := bind_ok h
      obtain ⟨ss, hss, h4⟩ := bind_ok h3
      cases h4
      exact hblock { ctx with inSeq := true } args false false (.int 1) blockOK_one (fun _ hx => hx) p.1 p.2 _
        (by cases p; exact hp) hss
    simp only [h2, if_false] at h
    by_cases h3 : cmd = "parallel_block"
    · simp only [h3, if_true] at h
      obtain ⟨p, hp, h3⟩ := bind_ok h
      obtain ⟨ss, hss, h4⟩ := bind_ok h3
      cases h4
      exact hblock { ctx with inPar := true } args true false (.int 1) blockOK_one (fun _ hx => hx) p.1 p.2 _
        (by cases p; exact hp) hss
    simp only [h3, if_false] at h
    by_cases h4 : cmd = "unscheduled_block"
    · simp only [h4, if_true] at h
      obtain ⟨p, hp, h3⟩ := bind_ok h
      obtain ⟨ss, hss, h4⟩ := bind_ok h3
      cases h4
      exact hblock ctx args false false (.int 1) blockOK_one (fun _ hx => hx) p.1 p.2 _ (by cases p; exact hp) hss
    simp only [h4, if_false] at h
    by_cases h5 : cmd = "subcircuit_block"
    · simp only [h5, if_true] at h
      split at h
      · simp [throw_eq] at h
      · obtain ⟨p, hp, h2⟩ := bind_ok h
        split at h2
        · simp [throw_eq] at h2
        · obtain ⟨count, _, h3⟩ := bind_ok h2
          obtain ⟨_, hval, h4⟩ := bind_ok h3
          obtain ⟨ss, hss, h5⟩ := bind_ok h4
          cases h5
          exact hblock { ctx with inSub := true } _ false true count (by simp [blockOK, validateCount_good hval]) (fun x hx => List.mem_of_mem_tail hx) p.1 p.2 _
            (by cases p; exact hp) hss
    simp only [h5, if_false] at h
    by_cases h6 : cmd = "loop"
    · simp only [h6, if_true] at h
      split at h
      · rename_i countE blockE
        obtain ⟨count, _, h2⟩ := bind_ok h
        obtain ⟨p, hp, h3⟩ := bind_ok h2
        have hpost := hrec' ctx blockE (by simp) st p.2 p.1 hi (by cases p; exact hp)
        split at h3
        · rename_i b hb
          obtain ⟨u, hvc, h4⟩ := bind_ok h3
          cases h4
          exact ⟨hpost.1, by simp [ObjC, CS, countsOK]⟩
        · obtain ⟨u, hvc, h4⟩ := bind_ok h3
          cases h4
          exact ⟨hpost.1, by simp [ObjC, CS, countsOK]⟩
        · simp [throw_eq] at h3
      · simp [throw_eq] at h
    simp only [h6, if_false] at h
    by_cases h7 : cmd = "case"
    · simp only [h7, if_true] at h
      split at h
      · rename_i stateE blockE
        obtain ⟨_, _, h2⟩ := bind_ok h
        obtain ⟨p, hp, h3⟩ := bind_ok h2
        cases h3
        have hpost := hrec' ctx blockE (by simp) st p.2 p.1 hi (by cases p; exact hp)
        exact ⟨hpost.1, trivial⟩
      · simp [throw_eq] at h
    simp only [h7, if_false] at h
    by_cases h8 : cmd = "branch"
    · simp only [h8, if_true] at h
      obtain ⟨a, _, h2⟩ := bind_ok h
      simp [throw_eq] at h2
    simp only [h8, if_false] at h
    by_cases h9 : cmd = "macro"
    · simp only [h9, if_true] at h
      split at h
      · simp [throw_eq] at h
      · split at h
        · rename_i nameE rest _
          obtain ⟨a, _, h2⟩ := bind_ok h
          split at h2
          · simp [throw_eq, bind, Except.bind] at h2
          · obtain ⟨params, _, h3⟩ := bind_ok h2
            split at h3
            · simp [throw_eq] at h3
            · rename_i blockE hlast
              obtain ⟨p, hp, h4⟩ := bind_ok h3
              have hmem : blockE ∈ rest := List.mem_of_getLast? hlast
              have hpost := hrec' (ctx.withParams params) blockE (by simp [hmem]) st p.2 p.1 hi (by cases p; exact hp)
              split at h4
              · rename_i par sub it body hb
                cases h4
                exact ⟨hpost.1, trivial⟩
              · simp [throw_eq] at h4
        · simp [throw_eq] at h
    simp only [h9, if_false] at h
    by_cases h10 : cmd = "usepulses"
    · simp only [h10, if_true] at h
      split at h
      · split at h
        · simp [throw_eq, bind, Except.bind] at h
        · split at h
          · cases h; exact ⟨hi, trivial⟩
          · simp [throw_eq] at h
      · simp [throw_eq] at h
    simp only [h10, if_false] at h
    by_cases h11 : cmd = "circuit"
    · simp [h11, throw_eq] at h
    simp only [h11, if_false] at h
    obtain ⟨v, _, h2⟩ := bind_ok h
    cases h2
    exact ⟨hi, trivial⟩
  | .int _ :: _, _, h | .flt _ :: _, _, h | .none :: _, _, h | .list _ :: _, _, h | .val _ :: _, _, h =>
    simp [throw_eq] at h

theorem buildAny_c {cfg : Config} {mode : KeyMode} : ∀ (f : Nat) (ctx : Ctx) (e : BSx) (st st1 : St) (o : Obj),
    MemoC st.memo → buildAny cfg mode f ctx e st = .ok (o, st1) → MemoC st1.memo ∧ ObjC o := by
  intro f
  induction f with
  | zero =>
    intro ctx e st st1 o hi h
    cases e with
    | list l => simp [buildAny, throw_eq] at h
    | _ =>
      rw [buildAny_atom _ _ _ _ _ _ (by intro l; simp)] at h
      obtain ⟨v, _, h2⟩ := bind_ok h
      cases h2
      exact ⟨hi, trivial⟩
  | succ f ih =>
    intro ctx e st st1 o hi h
    cases e with
    | list l =>
      refine anyStep_c ?_ hi (show anyStep cfg mode (buildAny cfg mode f) (buildVal ctx f) ctx l st = _ from h)
      intro c x _ s s1 o' his hr
      exact ih c x s s1 o' his hr
    | _ =>
      rw [buildAny_atom _ _ _ _ _ _ (by intro l; simp)] at h
      obtain ⟨v, _, h2⟩ := bind_ok h
      cases h2
      exact ⟨hi, trivial⟩

/-! ### `rebuild_macro_in_context` -/

/-! ### the loop of `build_circuit` -/

theorem stepTail_memoC {cfg : Config} {mode : KeyMode} {inject : Option (List (String × GateDef))} {acc a1 : Acc}
    {o : Obj} {st : St} (hm : MemoC st.memo) (h : stepTail cfg mode inject acc o st = .ok a1) : MemoC a1.st.memo := by
  cases o with
  | val v =>
    cases v <;> simp only [stepTail, throw_eq] at h <;> first
      | cases h
      | (obtain ⟨c, _, h2⟩ := bind_ok h
         cases h2
         exact hm)
  | usepulses n =>
    simp only [stepTail] at h
    by_cases hauto : cfg.autoload = true
    · simp only [hauto, if_true] at h
      split at h
      · simp [throw_eq] at h
      · split at h
        · cases h
        · simp only [pure, Except.pure] at h
          cases h
          show MemoC (if mode = .noReset then st.memo else [])
          split
          · exact hm
          · intro k s hk; cases hk
    · simp only [hauto, Bool.false_eq_true, if_false, pure, Except.pure] at h
      cases h
      exact hm
  | stmt s =>
    simp only [stepTail, pure, Except.pure] at h
    cases h
    exact hm
  | «macro» m =>
    simp only [stepTail] at h
    obtain ⟨m', hm', h2⟩ := bind_ok h
    by_cases hl : (List.lookup m'.name st.gctx).isSome = true
    · simp [hl, throw_eq, bind, Except.bind] at h2
    · simp [hl, pure, Except.pure] at h2
      rw [← h2]; exact hm
  | case => simp [stepTail, throw_eq] at h

theorem circuitLoop_c {cfg : Config} {mode : KeyMode} {inject : Option (List (String × GateDef))} {fuel : Nat} :
    ∀ (cs : List BSx) (acc a1 : Acc), MemoC acc.st.memo → (∀ s ∈ acc.stmts, CS s) →
      circuitLoop cfg mode inject fuel acc cs = .ok a1 → ∀ s ∈ a1.stmts, CS s := by
  intro cs
  induction cs with
  | nil => intro acc a1 _ ha h; simp only [circuitLoop, pure, Except.pure] at h; cases h; exact ha
  | cons c cs ih =>
    intro acc a1 hm ha h
    simp only [circuitLoop, circuitStep] at h
    obtain ⟨a2, hstep, h2⟩ := bind_ok h
    obtain ⟨p, hp, h3⟩ := bind_ok hstep
    obtain ⟨o, st⟩ := p
    have hc := buildAny_c fuel acc.ctx c acc.st st o hm hp
    refine ih a2 a1 (stepTail_memoC hc.1 h3) ?_ h2
    refine stepTail_stmts ha ?_ h3
    intro s hs; subst hs; exact hc.2

/-- **`built_countsOK`**: whatever `Builder.build` makes — of ANY S-expression, in particular the S-expressions with embedded
objects of the fill-in passes — the blocks of the body outside loops pass the constructor checks -/
theorem built_countsOK (cfg : Config) (e : BSx) (c : Circuit) (hb : build cfg e = .ok c) : countsOK c.body = true := by
  unfold build buildWith at hb
  obtain ⟨inject, hinj, h1⟩ := bind_ok hb
  unfold buildCore at h1
  split at h1
  · rename_i children
    obtain ⟨acc, hloop, h3⟩ := bind_ok h1
    simp only [pure, Except.pure] at h3
    cases h3
    have hS := circuitLoop_c children _ acc (fun k s hk => by cases hk) (fun s hs => by cases hs) hloop
    simp only [Acc.toCircuit, countsOK, blockOK_one, Bool.true_and]
    exact (countsOKList_iff _).2 hS
  · obtain ⟨_, _, h2⟩ := bind_ok h1
    simp [throw_eq] at h2

end Jaqal.Builder
