import JaqalModel.Spec.Grammar
/-! The grammar does not distinguish `;` from a newline, nor `|` from a newline:
replacing any occurrences of `;` or `|` by NL maps a derivation to a derivation of the same tree. -/
namespace Jaqal.Grammar
open Jaqal.Lexer

/-- `t'` is `t`, or `t` is `;` or `|` and `t'` is a newline. -/
def SepExch (t t' : Tok) : Prop := t' = t ∨ ((t = .semi ∨ t = .bar) ∧ t' = .NL)

/-- No `;` and no `|` in the list. -/
def NoSB (ts : List Tok) : Prop := ∀ t ∈ ts, t ≠ .semi ∧ t ≠ .bar

section
variable {α : Type} {f g : α → Tok} (h : ∀ a, SepExch (f a) (g a))
include h

theorem exch_fixed {l : List α} {ts : List Tok} (hfix : NoSB ts) (e : l.map f = ts) : l.map g = ts := by
  induction l generalizing ts with
  | nil => simpa using e
  | cons a l ih =>
    cases ts with
    | nil => simp at e
    | cons t ts =>
      simp only [List.map_cons, List.cons.injEq] at e ⊢
      refine ⟨?_, ih (fun t ht => hfix t (List.mem_cons_of_mem _ ht)) e.2⟩
      rcases h a with h1 | ⟨h1, -⟩
      · rw [h1, e.1]
      · have := hfix t (List.mem_cons_self ..)
        rw [e.1] at h1
        rcases h1 with h1 | h1
        · exact absurd h1 this.1
        · exact absurd h1 this.2

theorem exch_seqPad {l : List α} {ts : List Tok} (hp : SeqPad ts) (e : l.map f = ts) : SeqPad (l.map g) := by
  subst e
  intro t ht
  simp only [List.mem_map] at ht
  obtain ⟨a, ha, rfl⟩ := ht
  have := hp (f a) (List.mem_map_of_mem ha)
  rcases h a with h1 | ⟨-, h1⟩
  · rw [h1]; exact this
  · rw [h1]; exact Or.inl rfl

theorem exch_parPad {l : List α} {ts : List Tok} (hp : ParPad ts) (e : l.map f = ts) : ParPad (l.map g) := by
  subst e
  intro t ht
  simp only [List.mem_map] at ht
  obtain ⟨a, ha, rfl⟩ := ht
  have := hp (f a) (List.mem_map_of_mem ha)
  rcases h a with h1 | ⟨-, h1⟩
  · rw [h1]; exact this
  · rw [h1]; exact Or.inl rfl

theorem exch_seqSep {l : List α} {ts : List Tok} (hp : SeqSep ts) (e : l.map f = ts) : SeqSep (l.map g) := by
  refine ⟨?_, exch_seqPad h hp.2 e⟩
  have := hp.1
  subst e
  simpa using this

theorem exch_parSep {l : List α} {ts : List Tok} (hp : ParSep ts) (e : l.map f = ts) : ParSep (l.map g) := by
  refine ⟨?_, exch_parPad h hp.2 e⟩
  have := hp.1
  subst e
  simpa using this

end

/-! The productions without separators contain neither `;` nor `|`. -/

theorem NoSB.nil : NoSB [] := by intro t ht; cases ht

theorem NoSB.append {a b : List Tok} (ha : NoSB a) (hb : NoSB b) : NoSB (a ++ b) := by
  intro t ht
  rcases List.mem_append.1 ht with h | h
  · exact ha t h
  · exact hb t h

theorem NoSB.cons {t : Tok} {ts : List Tok} (ht : t ≠ .semi ∧ t ≠ .bar) (hts : NoSB ts) : NoSB (t :: ts) := by
  intro u hu
  rcases List.mem_cons.1 hu with rfl | h
  · exact ht
  · exact hts u h

theorem letOrInt_noSB {t x} (h : LetOrInt t x) : t ≠ .semi ∧ t ≠ .bar := by
  cases h <;> simp

theorem gateArg_noSB {ts x} (h : GateArg ts x) : NoSB ts := by
  cases h <;> simp [NoSB]

theorem gateArgs_noSB {ts xs} (h : GateArgs ts xs) : NoSB ts := by
  induction h with
  | nil => exact .nil
  | cons ha _ ih => exact (gateArg_noSB ha).append ih

theorem gate_noSB {ts x} (h : Gate ts x) : NoSB ts := by
  cases h with
  | mk g has => exact .cons (by simp) (gateArgs_noSB has)

theorem optLetOrInt_noSB {ts x} (h : OptLetOrInt ts x) : NoSB ts := by
  cases h with
  | none => exact .nil
  | some ht => exact .cons (letOrInt_noSB ht) .nil

theorem optStep_noSB {ts x} (h : OptStep ts x) : NoSB ts := by
  cases h with
  | none => exact .nil
  | some ht => exact .cons (by simp) (.cons (letOrInt_noSB ht) .nil)

theorem header_noSB {ts x} (h : Header ts x) : NoSB ts := by
  cases h with
  | register n hsz _ =>
    exact .cons (by simp) (.cons (by simp) (.cons (by simp) (.cons (letOrInt_noSB hsz) (.cons (by simp) .nil))))
  | letInt => simp [NoSB]
  | letNumber => simp [NoSB]
  | mapWhole => simp [NoSB]
  | mapIndex n src hi =>
    exact .cons (by simp) (.cons (by simp) (.cons (by simp) (.cons (by simp) (.cons (letOrInt_noSB hi)
      (.cons (by simp) .nil)))))
  | mapSlice n src ha hb hc =>
    exact .cons (by simp) (.cons (by simp) (.cons (by simp) (.cons (by simp)
      ((optLetOrInt_noSB ha).append (.cons (by simp) ((optLetOrInt_noSB hb).append
        ((optStep_noSB hc).append (.cons (by simp) .nil))))))))
  | usepulses => simp [NoSB]
  | usepulsesDot => simp [NoSB]

section
variable {α : Type} {f g : α → Tok} (h : ∀ a, SepExch (f a) (g a))
include h

theorem exch_letOrInt {a : α} {t x} (hl : LetOrInt t x) (e : f a = t) : LetOrInt (g a) x := by
  have := exch_fixed h (l := [a]) (ts := [t]) (.cons (letOrInt_noSB hl) .nil) (by simp [e])
  simp only [List.map_cons, List.map_nil, List.cons.injEq, and_true] at this
  rw [this]; exact hl

theorem exch_block {ph ts x} (hb : Block ph ts x) : ∀ (l : List α), l.map f = ts → Block ph (l.map g) x := by
  induction hb with
  | @seqBlock pad body xs hpad _ ih =>
    intro l e
    obtain ⟨a, l, rfl, ha, hl⟩ := List.map_eq_cons_iff.1 e
    obtain ⟨l1, lq, rfl, h1, hq⟩ := List.map_eq_append_iff.1 hl
    obtain ⟨lpad, lbody, rfl, hlpad, hlbody⟩ := List.map_eq_append_iff.1 h1
    have e1 : [a].map g = [.lbrace] := exch_fixed h (by simp [NoSB]) (by simp [ha])
    have e2 : lq.map g = [.rbrace] := exch_fixed h (by simp [NoSB]) hq
    simp only [List.map_cons, List.map_nil, List.cons.injEq, and_true] at e1
    simp only [List.map_cons, List.map_append, e1, e2]
    exact .seqBlock (exch_seqPad h hpad hlpad) (ih _ hlbody)
  | @parBlock pad body xs hpad _ ih =>
    intro l e
    obtain ⟨a, l, rfl, ha, hl⟩ := List.map_eq_cons_iff.1 e
    obtain ⟨l1, lq, rfl, h1, hq⟩ := List.map_eq_append_iff.1 hl
    obtain ⟨lpad, lbody, rfl, hlpad, hlbody⟩ := List.map_eq_append_iff.1 h1
    have e1 : [a].map g = [.lt] := exch_fixed h (by simp [NoSB]) (by simp [ha])
    have e2 : lq.map g = [.gt] := exch_fixed h (by simp [NoSB]) hq
    simp only [List.map_cons, List.map_nil, List.cons.injEq, and_true] at e1
    simp only [List.map_cons, List.map_append, e1, e2]
    exact .parBlock (exch_parPad h hpad hlpad) (ih _ hlbody)
  | gateBlockSeq _ ih => intro l e; exact .gateBlockSeq (ih l e)
  | gateBlockPar _ ih => intro l e; exact .gateBlockPar (ih l e)
  | seqGate hg => intro l e; rw [exch_fixed h (gate_noSB hg) e]; exact .seqGate hg
  | seqPar _ ih => intro l e; exact .seqPar (ih l e)
  | @seqLoop c cx b bx hc _ ih =>
    intro l e
    obtain ⟨a, l, rfl, ha, hl⟩ := List.map_eq_cons_iff.1 e
    obtain ⟨a2, l, rfl, ha2, hl⟩ := List.map_eq_cons_iff.1 hl
    have e1 : [a].map g = [.LOOP] := exch_fixed h (by simp [NoSB]) (by simp [ha])
    simp only [List.map_cons, List.map_nil, List.cons.injEq, and_true] at e1
    simp only [List.map_cons, e1]
    exact .seqLoop (exch_letOrInt h hc ha2) (ih _ hl)
  | @seqSub pad body xs hpad _ ih =>
    intro l e
    obtain ⟨a0, l, rfl, ha0, hl⟩ := List.map_eq_cons_iff.1 e
    obtain ⟨a, l, rfl, ha, hl⟩ := List.map_eq_cons_iff.1 hl
    obtain ⟨l1, lq, rfl, h1, hq⟩ := List.map_eq_append_iff.1 hl
    obtain ⟨lpad, lbody, rfl, hlpad, hlbody⟩ := List.map_eq_append_iff.1 h1
    have e0 : [a0].map g = [.SUBCIRCUIT] := exch_fixed h (by simp [NoSB]) (by simp [ha0])
    have e1 : [a].map g = [.lbrace] := exch_fixed h (by simp [NoSB]) (by simp [ha])
    have e2 : lq.map g = [.rbrace] := exch_fixed h (by simp [NoSB]) hq
    simp only [List.map_cons, List.map_nil, List.cons.injEq, and_true] at e0 e1
    simp only [List.map_cons, List.map_append, e0, e1, e2]
    exact .seqSub (exch_seqPad h hpad hlpad) (ih _ hlbody)
  | @seqSubN c cx pad body xs hc hpad _ ih =>
    intro l e
    obtain ⟨a0, l, rfl, ha0, hl⟩ := List.map_eq_cons_iff.1 e
    obtain ⟨ac, l, rfl, hac, hl⟩ := List.map_eq_cons_iff.1 hl
    obtain ⟨a, l, rfl, ha, hl⟩ := List.map_eq_cons_iff.1 hl
    obtain ⟨l1, lq, rfl, h1, hq⟩ := List.map_eq_append_iff.1 hl
    obtain ⟨lpad, lbody, rfl, hlpad, hlbody⟩ := List.map_eq_append_iff.1 h1
    have e0 : [a0].map g = [.SUBCIRCUIT] := exch_fixed h (by simp [NoSB]) (by simp [ha0])
    have e1 : [a].map g = [.lbrace] := exch_fixed h (by simp [NoSB]) (by simp [ha])
    have e2 : lq.map g = [.rbrace] := exch_fixed h (by simp [NoSB]) hq
    simp only [List.map_cons, List.map_nil, List.cons.injEq, and_true] at e0 e1
    simp only [List.map_cons, List.map_append, e0, e1, e2]
    exact .seqSubN (exch_letOrInt h hc hac) (exch_seqPad h hpad hlpad) (ih _ hlbody)
  | parGate hg => intro l e; rw [exch_fixed h (gate_noSB hg) e]; exact .parGate hg
  | parSeq _ ih => intro l e; exact .parSeq (ih l e)
  | seqNil => intro l e; rw [List.map_eq_nil_iff.1 e]; exact .seqNil
  | seqOne _ ih => intro l e; exact .seqOne (ih l e)
  | seqCons _ hsep _ ih1 ih2 =>
    intro l e
    obtain ⟨l1, lrest, rfl, h1, hrest⟩ := List.map_eq_append_iff.1 e
    obtain ⟨ls, lsep, rfl, hs, hlsep⟩ := List.map_eq_append_iff.1 h1
    simp only [List.map_append]
    exact .seqCons (ih1 _ hs) (exch_seqSep h hsep hlsep) (ih2 _ hrest)
  | parNil => intro l e; rw [List.map_eq_nil_iff.1 e]; exact .parNil
  | parOne _ ih => intro l e; exact .parOne (ih l e)
  | parCons _ hsep _ ih1 ih2 =>
    intro l e
    obtain ⟨l1, lrest, rfl, h1, hrest⟩ := List.map_eq_append_iff.1 e
    obtain ⟨ls, lsep, rfl, hs, hlsep⟩ := List.map_eq_append_iff.1 h1
    simp only [List.map_append]
    exact .parCons (ih1 _ hs) (exch_parSep h hsep hlsep) (ih2 _ hrest)

theorem exch_case {ts x} (hc : Case ts x) (l : List α) (e : l.map f = ts) : Case (l.map g) x := by
  cases hc with
  | mk v hb =>
    obtain ⟨a, l, rfl, ha, hl⟩ := List.map_eq_cons_iff.1 e
    obtain ⟨a2, l, rfl, ha2, hl⟩ := List.map_eq_cons_iff.1 hl
    have e1 : [a, a2].map g = [.BININT v, .colon] := exch_fixed h (by simp [NoSB]) (by simp [ha, ha2])
    simp only [List.map_cons, List.map_nil, List.cons.injEq, and_true] at e1
    simp only [List.map_cons, e1.1, e1.2]
    exact .mk v (exch_block h hb _ hl)

theorem exch_cases {ts xs} (hc : Cases ts xs) : ∀ (l : List α), l.map f = ts → Cases (l.map g) xs := by
  induction hc with
  | nil => intro l e; rw [List.map_eq_nil_iff.1 e]; exact .nil
  | one hc => intro l e; exact .one (exch_case h hc l e)
  | cons hc hsep _ ih =>
    intro l e
    obtain ⟨l1, lrest, rfl, h1, hrest⟩ := List.map_eq_append_iff.1 e
    obtain ⟨ls, lsep, rfl, hs, hlsep⟩ := List.map_eq_append_iff.1 h1
    simp only [List.map_append]
    exact .cons (exch_case h hc _ hs) (exch_seqSep h hsep hlsep) (ih _ hrest)

theorem exch_body {ts x} (hb : Body ts x) (l : List α) (e : l.map f = ts) : Body (l.map g) x := by
  cases hb with
  | stmt hb => exact .stmt (exch_block h hb l e)
  | seqBlock hb => exact .seqBlock (exch_block h hb l e)
  | macroDef name params hb =>
    obtain ⟨a, l, rfl, ha, hl⟩ := List.map_eq_cons_iff.1 e
    obtain ⟨a2, l, rfl, ha2, hl⟩ := List.map_eq_cons_iff.1 hl
    obtain ⟨lp, lb, rfl, hlp, hlb⟩ := List.map_eq_append_iff.1 hl
    have e1 : [a, a2].map g = [.MACRO, .IDENTIFIER name] := exch_fixed h (by simp [NoSB]) (by simp [ha, ha2])
    have e2 : lp.map g = params.map Tok.IDENTIFIER := exch_fixed h (by
      intro t ht; simp only [List.mem_map] at ht; obtain ⟨s, -, rfl⟩ := ht; simp) hlp
    simp only [List.map_cons, List.map_nil, List.cons.injEq, and_true] at e1
    simp only [List.map_cons, List.map_append, e1.1, e1.2, e2]
    exact .macroDef name params (exch_block h hb _ hlb)
  | branch hpad hcs =>
    obtain ⟨a0, l, rfl, ha0, hl⟩ := List.map_eq_cons_iff.1 e
    obtain ⟨a, l, rfl, ha, hl⟩ := List.map_eq_cons_iff.1 hl
    obtain ⟨l1, lq, rfl, h1, hq⟩ := List.map_eq_append_iff.1 hl
    obtain ⟨lpad, lbody, rfl, hlpad, hlbody⟩ := List.map_eq_append_iff.1 h1
    have e0 : [a0, a].map g = [.BRANCH, .lbrace] := exch_fixed h (by simp [NoSB]) (by simp [ha0, ha])
    have e2 : lq.map g = [.rbrace] := exch_fixed h (by simp [NoSB]) hq
    simp only [List.map_cons, List.map_nil, List.cons.injEq, and_true] at e0
    simp only [List.map_cons, List.map_append, e0.1, e0.2, e2]
    exact .branch (exch_seqPad h hpad hlpad) (exch_cases h hcs _ hlbody)

theorem exch_stmts {ph ts xs} (hs : Stmts ph ts xs) : ∀ (l : List α), l.map f = ts → Stmts ph (l.map g) xs := by
  induction hs with
  | nil => intro l e; rw [List.map_eq_nil_iff.1 e]; exact .nil
  | lastHeader hh => intro l e; rw [exch_fixed h (header_noSB hh) e]; exact .lastHeader hh
  | lastBody hb => intro l e; exact .lastBody (exch_body h hb l e)
  | consHeader hh hsep _ ih =>
    intro l e
    obtain ⟨l1, lrest, rfl, h1, hrest⟩ := List.map_eq_append_iff.1 e
    obtain ⟨ls, lsep, rfl, hs, hlsep⟩ := List.map_eq_append_iff.1 h1
    simp only [List.map_append]
    rw [exch_fixed h (header_noSB hh) hs]
    exact .consHeader hh (exch_seqSep h hsep hlsep) (ih _ hrest)
  | consBody hb hsep _ ih =>
    intro l e
    obtain ⟨l1, lrest, rfl, h1, hrest⟩ := List.map_eq_append_iff.1 e
    obtain ⟨ls, lsep, rfl, hs, hlsep⟩ := List.map_eq_append_iff.1 h1
    simp only [List.map_append]
    exact .consBody (exch_body h hb _ hs) (exch_seqSep h hsep hlsep) (ih _ hrest)

/-- Replacing any `;` or `|` tokens by newlines maps a program to a program with the same tree. -/
theorem derives_exchange {l : List α} {x} (hd : Derives (l.map f) x) : Derives (l.map g) x := by
  generalize e : l.map f = ts at hd
  cases hd with
  | circuit hpad hbody =>
    obtain ⟨lpad, lbody, rfl, hlpad, hlbody⟩ := List.map_eq_append_iff.1 e
    simp only [List.map_append]
    exact .circuit (exch_seqPad h hpad hlpad) (exch_stmts h hbody _ hlbody)

end
end Jaqal.Grammar
