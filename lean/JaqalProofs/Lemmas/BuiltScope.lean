import JaqalProofs.Lemmas.BuiltWellFormed
/-!
# A macro body calls earlier macros only (any S-expression)

`built_scope : build cfg e = .ok c → ScopeAll c.macros` — for every circuit `Builder.build` returns, the definition of every gate
statement in the body of the `i`-th macro is named like one of the macros before it, or like no macro of the circuit at all.

Why: a gate statement is bound to an entry the gate table has AT THAT MOMENT (`StmtKnown`, and the table only grows: `GExt`); a
macro's name enters the table only after its body has been built, and `build_circuit` refuses a macro whose name is already in
the table (`stepTail`: "already-exists-in-context").  So a name used in an earlier body, or in the macro's own body, cannot become
the name of this macro.
-/
namespace Jaqal.Builder
open Jaqal

/-- every definition used in `s` is named like something available, or like nothing in `all` -/
def ScopeOK (avail all : List String) (s : Stmt) : Prop :=
  ∀ gd ∈ gateDefsOf s, gd.name ∈ avail ∨ gd.name ∉ all

/-- every macro calls earlier macros only -/
def ScopeAll (ms : List Macro) : Prop :=
  ∀ pre m post, ms = pre ++ m :: post → ScopeOK (pre.map (·.name)) (ms.map (·.name)) m.body

/-- the names of the definitions of a rebuilt statement are those of the statement -/
theorem rebuild_names (g : GCtx) (hk : GKeys g) : ∀ (s : Stmt) (ch : Bool) (s' : Stmt),
    rebuildStmt g s = .ok (ch, s') → ArgShape s → ∀ gd' ∈ gateDefsOf s', ∃ gd ∈ gateDefsOf s, gd.name = gd'.name := by
  intro s
  induction s using Stmt.rec (motive_2 := fun l => ∀ (ch : Bool) (l' : List Stmt), rebuildList g l = .ok (ch, l') →
      ArgShapeL l → ∀ gd' ∈ gateDefsOfList l', ∃ gd ∈ gateDefsOfList l, gd.name = gd'.name) with
  | gate name gd args =>
    intro ch s' h hs gd' hgd'
    simp only [rebuildStmt] at h
    split at h
    · rename_i m hl
      split at h
      · split at h
        · cases h; exact ⟨gd', hgd', rfl⟩
        · simp [throw_eq] at h
      · obtain ⟨s2, hcall, h2⟩ := bind_ok h
        cases h2
        rw [callDef_shape hcall] at hgd'
        simp only [List.mem_singleton] at hgd'
        subst hgd'
        refine ⟨gd, by simp [gateDefsOf], ?_⟩
        have := hk name _ hl
        rw [this]; exact hs.1.symm
    · cases h; exact ⟨gd', hgd', rfl⟩
  | block par sub it body ih =>
    intro ch s' h hs gd' hgd'
    simp only [rebuildStmt] at h
    obtain ⟨p, hp, h2⟩ := bind_ok h
    obtain ⟨c, body'⟩ := p
    split at h2
    · cases h2
      simp only [gateDefsOf] at hgd' ⊢
      exact ih c body' hp hs gd' hgd'
    · cases h2; exact ⟨gd', hgd', rfl⟩
  | loop c b ih =>
    intro ch s' h hs gd' hgd'
    simp only [rebuildStmt] at h
    obtain ⟨p, hp, h2⟩ := bind_ok h
    obtain ⟨c1, b'⟩ := p
    split at h2
    · cases h2
      simp only [gateDefsOf] at hgd' ⊢
      exact ih c1 b' hp hs gd' hgd'
    · cases h2; exact ⟨gd', hgd', rfl⟩
  | nil =>
    rename_i ch l' h _ gd' hgd'
    simp only [rebuildList, pure, Except.pure] at h
    cases h
    simp [gateDefsOfList] at hgd'
  | cons s ss ihs ihss =>
    rename_i ch l' h hs gd' hgd'
    simp only [rebuildList] at h
    obtain ⟨p, hp, h2⟩ := bind_ok h
    obtain ⟨c1, s'⟩ := p
    obtain ⟨q, hq, h3⟩ := bind_ok h2
    obtain ⟨c2, ss'⟩ := q
    cases h3
    simp only [gateDefsOfList, List.mem_append] at hgd' ⊢
    rcases hgd' with hgd' | hgd'
    · obtain ⟨gd, hgd, hn⟩ := ihs c1 s' hp hs.1 gd' hgd'
      exact ⟨gd, Or.inl hgd, hn⟩
    · obtain ⟨gd, hgd, hn⟩ := ihss c2 ss' hq hs.2 gd' hgd'
      exact ⟨gd, Or.inr hgd, hn⟩

theorem rebuildMacro_names {g : GCtx} (hk : GKeys g) {m m' : Macro} (h : rebuildMacro g m = .ok m') (hs : ArgShape m.body) :
    m'.name = m.name ∧ ∀ gd' ∈ gateDefsOf m'.body, ∃ gd ∈ gateDefsOf m.body, gd.name = gd'.name := by
  unfold rebuildMacro at h
  obtain ⟨p, hp, h2⟩ := bind_ok h
  obtain ⟨ch, b⟩ := p
  have := rebuild_names g hk m.body ch b hp hs
  simp only [pure, Except.pure] at h2
  cases h2
  split
  · exact ⟨rfl, this⟩
  · exact ⟨rfl, fun gd' hgd' => ⟨gd', hgd', rfl⟩⟩

/-- a definition the table knows is filed under its name -/
theorem known_isSome {g : GCtx} {s : Stmt} (hk : StmtKnown g s) : ∀ gd ∈ gateDefsOf s, (g.lookup gd.name).isSome = true := by
  intro gd hgd
  obtain ⟨e, he, _⟩ := hk gd hgd
  simp [he]

theorem stepTail_scope {cfg : Config} {mode : KeyMode} {inject : Option (List (String × GateDef))} {acc a1 : Acc}
    {o : Obj} {st : St} (hg : GInv cfg acc) (hsc : ScopeAll acc.macros)
    (hp : KPost cfg acc.st o st) (hsh : ObjShape o)
    (h : stepTail cfg mode inject acc o st = .ok a1) : ScopeAll a1.macros := by
  cases o with
  | val v =>
    cases v <;> simp only [stepTail, throw_eq] at h <;> first
      | cases h
      | (obtain ⟨c, _, h2⟩ := bind_ok h
         cases h2
         exact hsc)
  | stmt s => simp only [stepTail, pure, Except.pure] at h; cases h; exact hsc
  | case => simp [stepTail, throw_eq] at h
  | usepulses n =>
    simp only [stepTail] at h
    by_cases hauto : cfg.autoload = true
    · simp only [hauto, if_true] at h
      split at h
      · simp [throw_eq] at h
      · split at h
        · cases h
        · simp only [pure, Except.pure] at h
          cases h; exact hsc
    · simp only [hauto, Bool.false_eq_true, if_false, pure, Except.pure] at h
      cases h; exact hsc
  | «macro» m =>
    simp only [stepTail] at h
    obtain ⟨m', hm', h2⟩ := bind_ok h
    by_cases hl : (List.lookup m'.name st.gctx).isSome = true
    · simp [hl, throw_eq, bind, Except.bind] at h2
    · simp [hl, pure, Except.pure] at h2
      rw [← h2]
      show ScopeAll (acc.macros ++ [m'])
      have hfresh : (List.lookup m'.name st.gctx).isSome = false := Bool.eq_false_iff.2 hl
      obtain ⟨hname, hnames⟩ := rebuildMacro_names hp.inv.keys hm' hsh
      -- no definition used so far is named like the new macro
      have hold : ∀ mo ∈ acc.macros, ∀ gd ∈ gateDefsOf mo.body, gd.name ≠ m'.name := by
        intro mo hmo gd hgd hn
        obtain ⟨e, he, _⟩ := hg.b.macros mo hmo gd hgd
        have := hp.ext _ _ he
        rw [hn] at this
        rw [this] at hfresh
        cases hfresh
      have hnew : ∀ gd' ∈ gateDefsOf m'.body, gd'.name ≠ m'.name := by
        intro gd' hgd' hn
        obtain ⟨gd, hgd, hgn⟩ := hnames gd' hgd'
        have := known_isSome hp.obj gd hgd
        rw [hgn, hn] at this
        rw [this] at hfresh
        cases hfresh
      intro pre mm post hsplit
      intro gd hgd
      simp only [List.map_append, List.map_cons, List.map_nil, List.mem_append, List.mem_singleton]
      -- is `mm` an old macro or the new one?
      rcases List.eq_nil_or_concat post with rfl | ⟨post', last, rfl⟩
      · -- the new macro
        have hh : acc.macros = pre ∧ m' = mm := by
          have := List.append_inj' hsplit (by simp)
          exact ⟨this.1, by simpa using this.2⟩
        obtain ⟨rfl, rfl⟩ := hh
        by_cases hin : gd.name ∈ acc.macros.map (·.name)
        · exact Or.inl hin
        · exact Or.inr (fun hc => by
            rcases hc with hc | hc
            · exact hin hc
            · exact hnew gd hgd hc)
      · -- an old macro
        have hh : acc.macros = pre ++ mm :: post' ∧ m' = last := by
          have h' : acc.macros ++ [m'] = (pre ++ mm :: post') ++ [last] := by simpa using hsplit
          have := List.append_inj' h' (by simp)
          exact ⟨this.1, by simpa using this.2⟩
        obtain ⟨hacc, rfl⟩ := hh
        have hmem : mm ∈ acc.macros := by rw [hacc]; simp
        rcases hsc pre mm post' hacc gd hgd with hin | hout
        · exact Or.inl hin
        · exact Or.inr (fun hc => by
            rcases hc with hc | hc
            · exact hout hc
            · exact hold mm hmem gd hgd hc)

theorem circuitLoop_scope {cfg : Config} {mode : KeyMode} (hmode : mode ≠ .noReset)
    {inject : Option (List (String × GateDef))} {fuel : Nat} :
    ∀ (cs : List BSx) (acc a1 : Acc), GInv cfg acc → SInv acc → ScopeAll acc.macros →
      circuitLoop cfg mode inject fuel acc cs = .ok a1 → GInv cfg a1 ∧ SInv a1 ∧ ScopeAll a1.macros := by
  intro cs
  induction cs with
  | nil => intro acc a1 hg ha hs h; simp only [circuitLoop, pure, Except.pure] at h; cases h; exact ⟨hg, ha, hs⟩
  | cons c cs ih =>
    intro acc a1 hg ha hs h
    simp only [circuitLoop, circuitStep] at h
    obtain ⟨a2, hstep, h2⟩ := bind_ok h
    obtain ⟨p, hp, h3⟩ := bind_ok hstep
    obtain ⟨o, st⟩ := p
    have hpost := buildAny_known fuel acc.ctx c acc.st st o hg.b.k hp
    have hsh := buildAny_shape fuel acc.ctx c acc.st st o ha.memo hp
    exact ih a2 a1 (stepTail_general hmode hg hpost (fun ho => buildAny_pure_obj hp ho) h3)
      (stepTail_shape hmode ha hpost.ext hsh.1 hsh.2 h3) (stepTail_scope hg hs hpost hsh.2 h3) h2

/-- **`built_scope`.** In every circuit `build` returns, a macro body uses definitions named like earlier macros, or like no
macro at all.  Any configuration, any S-expression. -/
theorem built_scope (cfg : Config) (e : BSx) (c : Circuit) (hb : build cfg e = .ok c) : ScopeAll c.macros := by
  unfold build buildWith at hb
  obtain ⟨inject, hinj, h1⟩ := bind_ok hb
  unfold buildCore at h1
  split at h1
  · rename_i children
    obtain ⟨acc, hloop, h3⟩ := bind_ok h1
    simp only [pure, Except.pure] at h3
    cases h3
    have hnat : NatOK (inject.getD []) := by
      unfold Config.inject at hinj
      cases hn : cfg.natives with
      | none => simp [hn, pure, Except.pure] at hinj; subst hinj; exact ⟨fun p hp => (by cases hp), by simp⟩
      | some gs =>
        simp only [hn] at hinj
        obtain ⟨d, hd, h4⟩ := bind_ok hinj
        simp only [pure, Except.pure] at h4
        cases h4
        exact normNatives_natOK hd
    refine (circuitLoop_scope (by decide) children _ acc ?_ ?_ ?_ hloop).2.2
    · refine ⟨HInv.toBInv ?_, fun _ _ => ?_⟩ <;> exact ⟨rfl, rfl, rfl, rfl, hnat⟩
    · exact ⟨(fun k s hk => by cases hk), (fun s hs => by cases hs), (fun m hm => by cases hm), (fun m hm => by cases hm)⟩
    · intro pre m post h; cases pre <;> cases h
  · obtain ⟨_, _, h2⟩ := bind_ok h1
    simp [throw_eq] at h2

end Jaqal.Builder

#print axioms Jaqal.Builder.built_scope
