import JaqalProofs.Lemmas.ParserComplete
import JaqalProofs.Lemmas.SepExchange
/-!
The grammar does not count newlines: replacing any run of NL tokens by another (non-empty) run of NL tokens
maps a derivation to a derivation of the same tree.
-/
namespace Jaqal.Grammar
open Jaqal.Lexer Jaqal.Parser

/-- A non-empty run of NL tokens. -/
def IsNLRun (l : List Tok) : Prop := l ≠ [] ∧ ∀ t ∈ l, t = .NL

/-- `f` and `g` expand every element to the same single token, or both to runs of NL tokens. -/
def RunExch {α : Type} (f g : α → List Tok) : Prop :=
  ∀ a, (∃ t, t ≠ .NL ∧ f a = [t] ∧ g a = [t]) ∨ (IsNLRun (f a) ∧ IsNLRun (g a))

/-- `xs` ends with NL and `ys` begins with NL. -/
def Straddle (xs ys : List Tok) : Prop := (∃ xs', xs = xs' ++ [.NL]) ∧ (∃ ys', ys = .NL :: ys')

/-- No NL token in the list. -/
def NoNL (ts : List Tok) : Prop := ∀ t ∈ ts, t ≠ .NL

theorem IsNLRun.head {l} (h : IsNLRun l) : ∃ l', l = .NL :: l' := by
  obtain ⟨h1, h2⟩ := h
  cases l with
  | nil => exact absurd rfl h1
  | cons t l => exact ⟨l, by rw [h2 t (List.mem_cons_self ..)]⟩

theorem IsNLRun.last {l} (h : IsNLRun l) : ∃ l', l = l' ++ [.NL] := by
  obtain ⟨h1, h2⟩ := h
  have := List.dropLast_concat_getLast h1
  refine ⟨l.dropLast, ?_⟩
  rw [← h2 _ (List.getLast_mem h1)]
  exact this.symm

section
variable {α : Type} {f g : α → List Tok} (E : RunExch f g)
include E

theorem exp_ne_nil (a : α) : f a ≠ [] ∧ g a ≠ [] := by
  rcases E a with ⟨t, -, h1, h2⟩ | ⟨h1, h2⟩
  · simp [h1, h2]
  · exact ⟨h1.1, h2.1⟩

/-- Splitting an expansion at a place of its token string: the place is between two elements, unless it is
inside a run of newlines. -/
theorem flatMap_split : ∀ (l : List α) (xs ys : List Tok), l.flatMap f = xs ++ ys →
    (∃ l1 l2, l = l1 ++ l2 ∧ l1.flatMap f = xs ∧ l2.flatMap f = ys) ∨ Straddle xs ys := by
  intro l
  induction l with
  | nil =>
    intro xs ys h
    simp only [List.flatMap_nil] at h
    have := List.append_eq_nil_iff.1 h.symm
    exact Or.inl ⟨[], [], rfl, by simp [this.1], by simp [this.2]⟩
  | cons a l ih =>
    intro xs ys h
    simp only [List.flatMap_cons] at h
    rcases List.append_eq_append_iff.1 h with ⟨m, h1, h2⟩ | ⟨m, h1, h2⟩
    · -- `f a` is a prefix of `xs`
      rcases ih m ys h2 with ⟨l1, l2, rfl, e1, e2⟩ | ⟨⟨m', hm'⟩, hy⟩
      · exact Or.inl ⟨a :: l1, l2, rfl, by simp [h1, e1], e2⟩
      · exact Or.inr ⟨⟨f a ++ m', by rw [h1, hm']; simp⟩, hy⟩
    · -- `xs` is a prefix of `f a`
      cases m with
      | nil =>
        simp only [List.append_nil] at h1
        simp only [List.nil_append] at h2
        exact Or.inl ⟨[a], l, rfl, by simp [h1], h2.symm⟩
      | cons u m =>
        cases xs with
        | nil =>
          exact Or.inl ⟨[], a :: l, rfl, rfl, by simp only [List.flatMap_cons]; simpa using h⟩
        | cons v xs =>
          -- `f a` has at least two tokens: it is a run of newlines
          rcases E a with ⟨t, -, ht, -⟩ | ⟨hrun, -⟩
          · rw [ht] at h1; simp at h1
          · right
            have hall := hrun.2
            rw [h1] at hall
            refine ⟨?_, ?_⟩
            · have hne : (v :: xs) ≠ [] := by simp
              refine ⟨(v :: xs).dropLast, ?_⟩
              have := List.dropLast_concat_getLast hne
              rw [← hall _ (List.mem_append_left _ (List.getLast_mem hne))]
              exact this.symm
            · exact ⟨m ++ l.flatMap f, by
                rw [h2, hall u (List.mem_append_right _ (List.mem_cons_self ..))]; rfl⟩

theorem flatMap_cons_split {l : List α} {t : Tok} {rest : List Tok} (ht : t ≠ .NL)
    (h : l.flatMap f = t :: rest) :
    ∃ a l', l = a :: l' ∧ f a = [t] ∧ g a = [t] ∧ l'.flatMap f = rest := by
  cases l with
  | nil => simp at h
  | cons a l =>
    simp only [List.flatMap_cons] at h
    rcases E a with ⟨u, -, h1, h2⟩ | ⟨hrun, -⟩
    · rw [h1] at h
      simp only [List.cons_append, List.nil_append, List.cons.injEq] at h
      exact ⟨a, l, rfl, by rw [h1, h.1], by rw [h2, h.1], h.2⟩
    · obtain ⟨l', hl'⟩ := hrun.head
      rw [hl'] at h
      simp only [List.cons_append, List.cons.injEq] at h
      exact absurd h.1.symm ht

theorem flatMap_nil_split {l : List α} (h : l.flatMap f = []) : l = [] := by
  cases l with
  | nil => rfl
  | cons a l =>
    simp only [List.flatMap_cons] at h
    exact absurd (List.append_eq_nil_iff.1 h).1 (exp_ne_nil E a).1

theorem exchF_fixed {l : List α} {ts : List Tok} (hfix : NoNL ts) (e : l.flatMap f = ts) :
    l.flatMap g = ts := by
  induction l generalizing ts with
  | nil => simpa using e
  | cons a l ih =>
    simp only [List.flatMap_cons] at e ⊢
    rcases E a with ⟨u, -, h1, h2⟩ | ⟨hrun, -⟩
    · rw [h1] at e; rw [h2]
      subst e
      simp only [List.cons_append, List.nil_append, List.cons.injEq, true_and]
      exact ih (fun t ht => hfix t (List.mem_cons_of_mem _ ht)) rfl
    · obtain ⟨l', hl'⟩ := hrun.head
      exact absurd rfl (hfix .NL (by rw [← e, hl']; simp))

theorem exchF_seqPad {l : List α} {ts : List Tok} (hp : SeqPad ts) (e : l.flatMap f = ts) :
    SeqPad (l.flatMap g) := by
  subst e
  intro t ht
  simp only [List.mem_flatMap] at ht
  obtain ⟨a, ha, hta⟩ := ht
  rcases E a with ⟨u, -, h1, h2⟩ | ⟨-, hrun⟩
  · rw [h2] at hta
    exact hp t (List.mem_flatMap.2 ⟨a, ha, by rw [h1]; exact hta⟩)
  · rw [hrun.2 t hta]; exact Or.inl rfl

theorem exchF_parPad {l : List α} {ts : List Tok} (hp : ParPad ts) (e : l.flatMap f = ts) :
    ParPad (l.flatMap g) := by
  subst e
  intro t ht
  simp only [List.mem_flatMap] at ht
  obtain ⟨a, ha, hta⟩ := ht
  rcases E a with ⟨u, -, h1, h2⟩ | ⟨-, hrun⟩
  · rw [h2] at hta
    exact hp t (List.mem_flatMap.2 ⟨a, ha, by rw [h1]; exact hta⟩)
  · rw [hrun.2 t hta]; exact Or.inl rfl

theorem flatMap_ne_nil {l : List α} (h : l.flatMap f ≠ []) : l.flatMap g ≠ [] := by
  cases l with
  | nil => simp at h
  | cons a l =>
    simp only [List.flatMap_cons]
    intro hc
    exact (exp_ne_nil E a).2 (List.append_eq_nil_iff.1 hc).1

theorem exchF_seqSep {l : List α} {ts : List Tok} (hp : SeqSep ts) (e : l.flatMap f = ts) :
    SeqSep (l.flatMap g) :=
  ⟨flatMap_ne_nil E (by rw [e]; exact hp.1), exchF_seqPad E hp.2 e⟩

theorem exchF_parSep {l : List α} {ts : List Tok} (hp : ParSep ts) (e : l.flatMap f = ts) :
    ParSep (l.flatMap g) :=
  ⟨flatMap_ne_nil E (by rw [e]; exact hp.1), exchF_parPad E hp.2 e⟩

end
def HeadNotNL (ys : List Tok) : Prop := ∀ ys', ys ≠ .NL :: ys'
def LastNotNL (xs : List Tok) : Prop := ∀ xs', xs ≠ xs' ++ [.NL]

theorem headNotNL_nil : HeadNotNL [] := by intro ys' h; cases h
theorem headNotNL_cons {t : Tok} (ht : t ≠ .NL) (r : List Tok) : HeadNotNL (t :: r) := by
  intro ys' h; simp only [List.cons.injEq] at h; exact ht h.1
theorem lastNotNL_concat {t : Tok} (ht : t ≠ .NL) (i : List Tok) : LastNotNL (i ++ [t]) := by
  intro xs' h
  have := List.append_inj_right' h rfl
  simp only [List.cons.injEq, and_true] at this
  exact ht this

theorem lastNotNL_cons {t : Tok} {ts : List Tok} (hne : ts ≠ []) (h : LastNotNL ts) : LastNotNL (t :: ts) := by
  intro xs' e
  cases xs' with
  | nil => simp only [List.nil_append, List.cons.injEq] at e; exact hne e.2
  | cons u xs' =>
    simp only [List.cons_append, List.cons.injEq] at e
    exact h xs' e.2

theorem NoNL.nil : NoNL [] := by intro t ht; cases ht
theorem NoNL.append {a b : List Tok} (ha : NoNL a) (hb : NoNL b) : NoNL (a ++ b) := by
  intro t ht
  rcases List.mem_append.1 ht with h | h
  · exact ha t h
  · exact hb t h
theorem NoNL.cons {t : Tok} {ts : List Tok} (ht : t ≠ .NL) (hts : NoNL ts) : NoNL (t :: ts) := by
  intro u hu
  rcases List.mem_cons.1 hu with rfl | h
  · exact ht
  · exact hts u h

theorem NoNL.last {ts : List Tok} (h : NoNL ts) : LastNotNL ts := by
  intro xs' e
  exact h .NL (by rw [e]; simp) rfl

theorem NoNL.head {ts : List Tok} (h : NoNL ts) : HeadNotNL ts := by
  intro ys' e
  exact h .NL (by rw [e]; simp) rfl

theorem letOrInt_noNL {t x} (h : LetOrInt t x) : t ≠ .NL := by cases h <;> simp
theorem gateArg_noNL {ts x} (h : GateArg ts x) : NoNL ts := by cases h <;> simp [NoNL]
theorem gateArgs_noNL {ts xs} (h : GateArgs ts xs) : NoNL ts := by
  induction h with
  | nil => exact .nil
  | cons ha _ ih => exact (gateArg_noNL ha).append ih
theorem gate_noNL {ts x} (h : Gate ts x) : NoNL ts := by
  cases h with
  | mk g has => exact .cons (by simp) (gateArgs_noNL has)
theorem optLetOrInt_noNL {ts x} (h : OptLetOrInt ts x) : NoNL ts := by
  cases h with
  | none => exact .nil
  | some ht => exact .cons (letOrInt_noNL ht) .nil
theorem optStep_noNL {ts x} (h : OptStep ts x) : NoNL ts := by
  cases h with
  | none => exact .nil
  | some ht => exact .cons (by simp) (.cons (letOrInt_noNL ht) .nil)
theorem header_noNL {ts x} (h : Header ts x) : NoNL ts := by
  cases h with
  | register n hsz _ =>
    exact .cons (by simp) (.cons (by simp) (.cons (by simp) (.cons (letOrInt_noNL hsz) (.cons (by simp) .nil))))
  | letInt => simp [NoNL]
  | letNumber => simp [NoNL]
  | mapWhole => simp [NoNL]
  | mapIndex n src hi =>
    exact .cons (by simp) (.cons (by simp) (.cons (by simp) (.cons (by simp) (.cons (letOrInt_noNL hi)
      (.cons (by simp) .nil)))))
  | mapSlice n src ha hb hc =>
    exact .cons (by simp) (.cons (by simp) (.cons (by simp) (.cons (by simp)
      ((optLetOrInt_noNL ha).append (.cons (by simp) ((optLetOrInt_noNL hb).append
        ((optStep_noNL hc).append (.cons (by simp) .nil))))))))
  | usepulses => simp [NoNL]
  | usepulsesDot => simp [NoNL]

theorem isStart_ne_NL {t : Tok} (h : isStart t = true) : t ≠ .NL := by
  intro e; subst e; simp [isStart] at h

theorem block_headNotNL {ph ts x} (h : Block ph ts x) : HeadNotNL ts := by
  rcases block_head h with ⟨rfl, -⟩ | ⟨t, r, rfl, ht⟩
  · exact headNotNL_nil
  · exact headNotNL_cons (isStart_ne_NL ht) r

/-- Everything but a statement list ends with a token other than NL. -/
theorem block_last {ph ts x} (h : Block ph ts x) : (ph = .seqStmts ∨ ph = .parStmts) ∨ LastNotNL ts := by
  induction h with
  | @seqBlock pad body xs _ _ _ =>
    right
    have : Tok.lbrace :: (pad ++ body ++ [.rbrace]) = (Tok.lbrace :: (pad ++ body)) ++ [.rbrace] := by simp
    rw [this]; exact lastNotNL_concat (by simp) _
  | @parBlock pad body xs _ _ _ =>
    right
    have : Tok.lt :: (pad ++ body ++ [.gt]) = (Tok.lt :: (pad ++ body)) ++ [.gt] := by simp
    rw [this]; exact lastNotNL_concat (by simp) _
  | gateBlockSeq _ ih => rcases ih with (h | h) | h; cases h; cases h; exact Or.inr h
  | gateBlockPar _ ih => rcases ih with (h | h) | h; cases h; cases h; exact Or.inr h
  | seqGate hg => exact Or.inr (gate_noNL hg).last
  | seqPar _ ih => rcases ih with (h | h) | h; cases h; cases h; exact Or.inr h
  | @seqLoop c cx b bx hc hb ih =>
    right
    have hne : b ≠ [] := by
      rcases block_head hb with ⟨-, h | h⟩ | ⟨t, r, rfl, -⟩
      · cases h
      · cases h
      · simp
    rcases ih with (h | h) | h
    · cases h
    · cases h
    · exact lastNotNL_cons (by simp) (lastNotNL_cons hne h)
  | @seqSub pad body xs _ _ _ =>
    right
    have : Tok.SUBCIRCUIT :: .lbrace :: (pad ++ body ++ [.rbrace])
        = (Tok.SUBCIRCUIT :: .lbrace :: (pad ++ body)) ++ [.rbrace] := by simp
    rw [this]; exact lastNotNL_concat (by simp) _
  | @seqSubN c cx pad body xs _ _ _ _ =>
    right
    have : Tok.SUBCIRCUIT :: c :: .lbrace :: (pad ++ body ++ [.rbrace])
        = (Tok.SUBCIRCUIT :: c :: .lbrace :: (pad ++ body)) ++ [.rbrace] := by simp
    rw [this]; exact lastNotNL_concat (by simp) _
  | parGate hg => exact Or.inr (gate_noNL hg).last
  | parSeq _ ih => rcases ih with (h | h) | h; cases h; cases h; exact Or.inr h
  | seqNil => exact Or.inl (Or.inl rfl)
  | seqOne _ _ => exact Or.inl (Or.inl rfl)
  | seqCons _ _ _ _ _ => exact Or.inl (Or.inl rfl)
  | parNil => exact Or.inl (Or.inr rfl)
  | parOne _ _ => exact Or.inl (Or.inr rfl)
  | parCons _ _ _ _ _ => exact Or.inl (Or.inr rfl)

theorem stmt_last {ph ts x} (h : Block ph ts x) (h1 : ph ≠ .seqStmts) (h2 : ph ≠ .parStmts) : LastNotNL ts := by
  rcases block_last h with (h | h) | h
  · exact absurd h h1
  · exact absurd h h2
  · exact h


section
variable {α : Type} {f g : α → List Tok} (E : RunExch f g)
include E

theorem flatMap_split' {l : List α} {xs ys : List Tok} (h : l.flatMap f = xs ++ ys)
    (hn : LastNotNL xs ∨ HeadNotNL ys) :
    ∃ l1 l2, l = l1 ++ l2 ∧ l1.flatMap f = xs ∧ l2.flatMap f = ys := by
  rcases flatMap_split E l xs ys h with h1 | ⟨⟨xs', hx⟩, ⟨ys', hy⟩⟩
  · exact h1
  · rcases hn with hn | hn
    · exact absurd hx (hn xs')
    · exact absurd hy (hn ys')

/-- `open pad body close` -/
theorem bracket_split {l : List α} {o c : Tok} {pad body : List Tok} (ho : o ≠ .NL) (hcl : c ≠ .NL)
    (hbody : HeadNotNL body) (h : l.flatMap f = o :: (pad ++ body ++ [c])) :
    ∃ lpad lbody : List α, l.flatMap g = o :: (lpad.flatMap g ++ lbody.flatMap g ++ [c]) ∧
      lpad.flatMap f = pad ∧ lbody.flatMap f = body := by
  obtain ⟨a, l', rfl, ha, ga, hl'⟩ := flatMap_cons_split E ho h
  obtain ⟨l1, lq, rfl, h1, hq⟩ := flatMap_split' E hl' (Or.inr (headNotNL_cons hcl []))
  obtain ⟨lpad, lbody, rfl, hlpad, hlbody⟩ := flatMap_split' E h1 (Or.inr hbody)
  have e2 : lq.flatMap g = [c] := exchF_fixed E (by intro t ht; simp at ht; rw [ht]; exact hcl) hq
  exact ⟨lpad, lbody, by simp [List.flatMap_append, ga, e2], hlpad, hlbody⟩

theorem exchF_block {ph ts x} (hb : Block ph ts x) : ∀ (l : List α), l.flatMap f = ts → Block ph (l.flatMap g) x := by
  induction hb with
  | @seqBlock pad body xs hpad hbody ih =>
    intro l e
    obtain ⟨lpad, lbody, e1, e2, e3⟩ := bracket_split E (by simp) (by simp) (block_headNotNL hbody) e
    rw [e1]
    exact .seqBlock (exchF_seqPad E hpad e2) (ih _ e3)
  | @parBlock pad body xs hpad hbody ih =>
    intro l e
    obtain ⟨lpad, lbody, e1, e2, e3⟩ := bracket_split E (by simp) (by simp) (block_headNotNL hbody) e
    rw [e1]
    exact .parBlock (exchF_parPad E hpad e2) (ih _ e3)
  | gateBlockSeq _ ih => intro l e; exact .gateBlockSeq (ih l e)
  | gateBlockPar _ ih => intro l e; exact .gateBlockPar (ih l e)
  | seqGate hg => intro l e; rw [exchF_fixed E (gate_noNL hg) e]; exact .seqGate hg
  | seqPar _ ih => intro l e; exact .seqPar (ih l e)
  | @seqLoop c cx b bx hc _ ih =>
    intro l e
    obtain ⟨a, l, rfl, ha, ga, hl⟩ := flatMap_cons_split E (by simp) e
    obtain ⟨a2, l, rfl, ha2, ga2, hl⟩ := flatMap_cons_split E (letOrInt_noNL hc) hl
    simp only [List.flatMap_cons, ga, ga2, List.cons_append, List.nil_append]
    exact .seqLoop hc (ih _ hl)
  | @seqSub pad body xs hpad hbody ih =>
    intro l e
    obtain ⟨a, l, rfl, ha, ga, hl⟩ := flatMap_cons_split E (by simp) e
    obtain ⟨lpad, lbody, e1, e2, e3⟩ := bracket_split E (by simp) (by simp) (block_headNotNL hbody) hl
    simp only [List.flatMap_cons, ga, List.cons_append, List.nil_append, e1]
    exact .seqSub (exchF_seqPad E hpad e2) (ih _ e3)
  | @seqSubN c cx pad body xs hc hpad hbody ih =>
    intro l e
    obtain ⟨a, l, rfl, ha, ga, hl⟩ := flatMap_cons_split E (by simp) e
    obtain ⟨a2, l, rfl, ha2, ga2, hl⟩ := flatMap_cons_split E (letOrInt_noNL hc) hl
    obtain ⟨lpad, lbody, e1, e2, e3⟩ := bracket_split E (by simp) (by simp) (block_headNotNL hbody) hl
    simp only [List.flatMap_cons, ga, ga2, List.cons_append, List.nil_append, e1]
    exact .seqSubN hc (exchF_seqPad E hpad e2) (ih _ e3)
  | parGate hg => intro l e; rw [exchF_fixed E (gate_noNL hg) e]; exact .parGate hg
  | parSeq _ ih => intro l e; exact .parSeq (ih l e)
  | seqNil => intro l e; rw [flatMap_nil_split E e]; exact .seqNil
  | seqOne _ ih => intro l e; exact .seqOne (ih l e)
  | @seqCons s x sep rest xs hs hsep hrest ih1 ih2 =>
    intro l e
    obtain ⟨l1, lrest, rfl, h1, hrest'⟩ := flatMap_split' E e (Or.inr (block_headNotNL hrest))
    obtain ⟨ls, lsep, rfl, hs', hlsep⟩ := flatMap_split' E h1
      (Or.inl (stmt_last hs (by decide) (by decide)))
    simp only [List.flatMap_append]
    exact .seqCons (ih1 _ hs') (exchF_seqSep E hsep hlsep) (ih2 _ hrest')
  | parNil => intro l e; rw [flatMap_nil_split E e]; exact .parNil
  | parOne _ ih => intro l e; exact .parOne (ih l e)
  | @parCons s x sep rest xs hs hsep hrest ih1 ih2 =>
    intro l e
    obtain ⟨l1, lrest, rfl, h1, hrest'⟩ := flatMap_split' E e (Or.inr (block_headNotNL hrest))
    obtain ⟨ls, lsep, rfl, hs', hlsep⟩ := flatMap_split' E h1
      (Or.inl (stmt_last hs (by decide) (by decide)))
    simp only [List.flatMap_append]
    exact .parCons (ih1 _ hs') (exchF_parSep E hsep hlsep) (ih2 _ hrest')

end

theorem lastNotNL_append {xs ys : List Tok} (hne : ys ≠ []) (h : LastNotNL ys) : LastNotNL (xs ++ ys) := by
  induction xs with
  | nil => simpa using h
  | cons t xs ih => exact lastNotNL_cons (by simp [hne]) ih

theorem gateBlock_ne_nil {ts x} (h : Block .gateBlock ts x) : ts ≠ [] := by
  obtain ⟨t, r, rfl, -⟩ := gateBlock_head h; simp

theorem case_last {s x} (h : Case s x) : LastNotNL s := by
  cases h with
  | mk v hb =>
    exact lastNotNL_cons (by simp)
      (lastNotNL_cons (gateBlock_ne_nil hb) (stmt_last hb (by decide) (by decide)))

theorem cases_headNotNL {cs xs} (h : Cases cs xs) : HeadNotNL cs := by
  cases h with
  | nil => exact headNotNL_nil
  | one hc => cases hc; exact headNotNL_cons (by simp) _
  | cons hc _ _ => cases hc; exact headNotNL_cons (by simp) _

theorem body_last {s x} (h : Body s x) : LastNotNL s := by
  cases h with
  | stmt hb => exact stmt_last hb (by decide) (by decide)
  | seqBlock hb => exact stmt_last hb (by decide) (by decide)
  | macroDef name params hb =>
    exact lastNotNL_cons (by simp) (lastNotNL_cons (by simp [gateBlock_ne_nil hb])
      (lastNotNL_append (gateBlock_ne_nil hb) (stmt_last hb (by decide) (by decide))))
  | @branch pad cs xs _ _ =>
    have : Tok.BRANCH :: .lbrace :: (pad ++ cs ++ [.rbrace]) = (Tok.BRANCH :: .lbrace :: (pad ++ cs)) ++ [.rbrace] := by
      simp
    rw [this]; exact lastNotNL_concat (by simp) _

theorem sep_false_ne_NL {t : Tok} (h : isSeqSep t = false) : t ≠ .NL := by
  intro e; subst e; simp [isSeqSep] at h

theorem stmts_headNotNL {ph ts xs} (h : Stmts ph ts xs) : HeadNotNL ts := by
  cases h with
  | nil => exact headNotNL_nil
  | lastHeader hh => obtain ⟨t, r, rfl, ht⟩ := header_head hh; exact headNotNL_cons (sep_false_ne_NL ht) _
  | lastBody hb => obtain ⟨t, r, rfl, ht⟩ := body_head hb; exact headNotNL_cons (sep_false_ne_NL ht) _
  | consHeader hh _ _ =>
    obtain ⟨t, r, rfl, ht⟩ := header_head hh; exact headNotNL_cons (sep_false_ne_NL ht) _
  | consBody hb _ _ =>
    obtain ⟨t, r, rfl, ht⟩ := body_head hb; exact headNotNL_cons (sep_false_ne_NL ht) _

section
variable {α : Type} {f g : α → List Tok} (E : RunExch f g)
include E

theorem exchF_case {ts x} (hc : Case ts x) (l : List α) (e : l.flatMap f = ts) : Case (l.flatMap g) x := by
  cases hc with
  | mk v hb =>
    obtain ⟨a, l, rfl, ha, ga, hl⟩ := flatMap_cons_split E (by simp) e
    obtain ⟨a2, l, rfl, ha2, ga2, hl⟩ := flatMap_cons_split E (by simp) hl
    simp only [List.flatMap_cons, ga, ga2, List.cons_append, List.nil_append]
    exact .mk v (exchF_block E hb _ hl)

theorem exchF_cases {ts xs} (hc : Cases ts xs) : ∀ (l : List α), l.flatMap f = ts → Cases (l.flatMap g) xs := by
  induction hc with
  | nil => intro l e; rw [flatMap_nil_split E e]; exact .nil
  | one hc => intro l e; exact .one (exchF_case E hc l e)
  | @cons s x sep rest xs hc hsep hrest ih =>
    intro l e
    obtain ⟨l1, lrest, rfl, h1, hrest'⟩ := flatMap_split' E e (Or.inr (cases_headNotNL hrest))
    obtain ⟨ls, lsep, rfl, hs', hlsep⟩ := flatMap_split' E h1 (Or.inl (case_last hc))
    simp only [List.flatMap_append]
    exact .cons (exchF_case E hc _ hs') (exchF_seqSep E hsep hlsep) (ih _ hrest')

theorem exchF_body {ts x} (hb : Body ts x) (l : List α) (e : l.flatMap f = ts) : Body (l.flatMap g) x := by
  cases hb with
  | stmt hb => exact .stmt (exchF_block E hb l e)
  | seqBlock hb => exact .seqBlock (exchF_block E hb l e)
  | macroDef name params hb =>
    obtain ⟨a, l, rfl, ha, ga, hl⟩ := flatMap_cons_split E (by simp) e
    obtain ⟨a2, l, rfl, ha2, ga2, hl⟩ := flatMap_cons_split E (by simp) hl
    obtain ⟨lp, lb, rfl, hlp, hlb⟩ := flatMap_split' E hl (Or.inr (block_headNotNL hb))
    have e2 : lp.flatMap g = params.map Tok.IDENTIFIER := exchF_fixed E (by
      intro t ht; simp only [List.mem_map] at ht; obtain ⟨s, -, rfl⟩ := ht; simp) hlp
    simp only [List.flatMap_cons, List.flatMap_append, ga, ga2, List.cons_append, List.nil_append, e2]
    exact .macroDef name params (exchF_block E hb _ hlb)
  | branch hpad hcs =>
    obtain ⟨a, l, rfl, ha, ga, hl⟩ := flatMap_cons_split E (by simp) e
    obtain ⟨lpad, lbody, e1, e2, e3⟩ := bracket_split E (by simp) (by simp) (cases_headNotNL hcs) hl
    simp only [List.flatMap_cons, ga, List.cons_append, List.nil_append, e1]
    exact .branch (exchF_seqPad E hpad e2) (exchF_cases E hcs _ e3)

theorem exchF_stmts {ph ts xs} (hs : Stmts ph ts xs) : ∀ (l : List α), l.flatMap f = ts →
    Stmts ph (l.flatMap g) xs := by
  induction hs with
  | nil => intro l e; rw [flatMap_nil_split E e]; exact .nil
  | lastHeader hh => intro l e; rw [exchF_fixed E (header_noNL hh) e]; exact .lastHeader hh
  | lastBody hb => intro l e; exact .lastBody (exchF_body E hb l e)
  | @consHeader s x sep rest xs hh hsep hrest ih =>
    intro l e
    obtain ⟨l1, lrest, rfl, h1, hrest'⟩ := flatMap_split' E e (Or.inr (stmts_headNotNL hrest))
    obtain ⟨ls, lsep, rfl, hs', hlsep⟩ := flatMap_split' E h1 (Or.inl (header_noNL hh).last)
    simp only [List.flatMap_append]
    rw [exchF_fixed E (header_noNL hh) hs']
    exact .consHeader hh (exchF_seqSep E hsep hlsep) (ih _ hrest')
  | @consBody ph s x sep rest xs hb hsep hrest ih =>
    intro l e
    obtain ⟨l1, lrest, rfl, h1, hrest'⟩ := flatMap_split' E e (Or.inr (stmts_headNotNL hrest))
    obtain ⟨ls, lsep, rfl, hs', hlsep⟩ := flatMap_split' E h1 (Or.inl (body_last hb))
    simp only [List.flatMap_append]
    exact .consBody (exchF_body E hb _ hs') (exchF_seqSep E hsep hlsep) (ih _ hrest')

/-- Replacing runs of newline tokens by other non-empty runs of newline tokens maps a program to a
program with the same tree. -/
theorem derives_nlRuns {l : List α} {x} (hd : Derives (l.flatMap f) x) : Derives (l.flatMap g) x := by
  generalize e : l.flatMap f = ts at hd
  cases hd with
  | circuit hpad hbody =>
    obtain ⟨lpad, lbody, rfl, hlpad, hlbody⟩ := flatMap_split' E e (Or.inr (stmts_headNotNL hbody))
    simp only [List.flatMap_append]
    exact .circuit (exchF_seqPad E hpad hlpad) (exchF_stmts E hbody _ hlbody)

end

/-- One newline token more or less next to a newline token does not matter. -/
theorem derives_dup_nl (a b : List Tok) (x : Sx) :
    Derives (a ++ .NL :: b) x ↔ Derives (a ++ .NL :: .NL :: b) x := by
  -- elements: `some t` is the token `t`, `none` is the run in question
  let l : List (Option Tok) := a.map some ++ none :: b.map some
  let f1 : Option Tok → List Tok := fun o => match o with | some t => [t] | none => [.NL]
  let f2 : Option Tok → List Tok := fun o => match o with | some t => [t] | none => [.NL, .NL]
  have h1 : l.flatMap f1 = a ++ .NL :: b := by
    simp [l, f1, List.flatMap_append, List.flatMap_map, List.flatMap_singleton']
  have h2 : l.flatMap f2 = a ++ .NL :: .NL :: b := by
    simp [l, f2, List.flatMap_append, List.flatMap_map, List.flatMap_singleton']
  have run1 : IsNLRun [Tok.NL] := ⟨by simp, by simp⟩
  have run2 : IsNLRun [Tok.NL, Tok.NL] := ⟨by simp, by simp⟩
  have E12 : RunExch f1 f2 := by
    intro o
    cases o with
    | none => exact Or.inr ⟨run1, run2⟩
    | some t =>
      by_cases ht : t = .NL
      · subst ht; exact Or.inr ⟨run1, run1⟩
      · exact Or.inl ⟨t, ht, rfl, rfl⟩
  have E21 : RunExch f2 f1 := by
    intro o
    cases o with
    | none => exact Or.inr ⟨run2, run1⟩
    | some t =>
      by_cases ht : t = .NL
      · subst ht; exact Or.inr ⟨run1, run1⟩
      · exact Or.inl ⟨t, ht, rfl, rfl⟩
  constructor
  · intro h; rw [← h2]; exact derives_nlRuns E12 (h1 ▸ h)
  · intro h; rw [← h1]; exact derives_nlRuns E21 (h2 ▸ h)


end Jaqal.Grammar
