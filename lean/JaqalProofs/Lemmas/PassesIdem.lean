import JaqalProofs.Lemmas.PassesLegalDeep
/-!
Syntactic idempotence of the two rebuilding passes: a second `fill_in_let` (any overrides) / `fill_in_map` hands the
builder THE SAME S-expression as the first one did (every value of the result is a fixed point of the visitors), under a
configuration that differs from the first only in how the native gates are listed (the normalised list instead of the
original) — and the builder reads its configuration only through the normalised list, "is a gate set given", `autoload` and
`imports`.
-/
namespace Jaqal.Passes
open Jaqal Jaqal.Builder Jaqal.FillIn

/-! ### `build` depends on the configuration only through what it reads of it -/

section congr
variable {cfg cfg' : Config} (ha : cfg.anonymousAllowed = cfg'.anonymousAllowed)
include ha

theorem getGateDef_congr : getGateDef cfg = getGateDef cfg' := by
  funext name argc g
  unfold getGateDef
  rw [ha]

theorem buildGate_congr' (mode : KeyMode) : buildGate cfg mode = buildGate cfg' mode := by
  funext ctx recV args st
  unfold buildGate buildGateMemo buildGateFresh
  rw [getGateDef_congr ha]

theorem anyStep_congr (mode : KeyMode) : anyStep cfg mode = anyStep cfg' mode := by
  funext recA recV ctx l st
  unfold anyStep
  rw [buildGate_congr' ha]

theorem buildAny_congr (mode : KeyMode) : ∀ f, buildAny cfg mode f = buildAny cfg' mode f := by
  intro f
  induction f with
  | zero =>
    funext ctx e st
    cases e <;> rfl
  | succ f ih =>
    funext ctx e st
    cases e with
    | list l => simp only [buildAny]; rw [anyStep_congr ha, ih]
    | _ => rfl

end congr

theorem stepTail_congr {cfg cfg' : Config} (h1 : cfg.autoload = cfg'.autoload) (h2 : cfg.imports = cfg'.imports)
    (mode : KeyMode) : stepTail cfg mode = stepTail cfg' mode := by
  funext inject acc obj st
  unfold stepTail
  rw [h1, h2]

theorem circuitLoop_congr {cfg cfg' : Config} (ha : cfg.anonymousAllowed = cfg'.anonymousAllowed)
    (h1 : cfg.autoload = cfg'.autoload) (h2 : cfg.imports = cfg'.imports) (mode : KeyMode)
    (inject : Option (List (String × GateDef))) (fuel : Nat) :
    ∀ (cs : List BSx) (acc : Acc), circuitLoop cfg mode inject fuel acc cs = circuitLoop cfg' mode inject fuel acc cs
  | [], _ => rfl
  | c :: cs, acc => by
    simp only [circuitLoop, circuitStep, buildAny_congr ha, stepTail_congr h1 h2]
    congr 1
    funext a
    exact circuitLoop_congr ha h1 h2 mode inject fuel cs a

/-- two configurations that agree on the normalised gate set, on whether a gate set is given, on `autoload` and on
`imports` build the same circuits -/
theorem build_congr {cfg cfg' : Config} (hi : cfg.inject = cfg'.inject) (hn : cfg.natives.isNone = cfg'.natives.isNone)
    (h1 : cfg.autoload = cfg'.autoload) (h2 : cfg.imports = cfg'.imports) (e : BSx) : build cfg e = build cfg' e := by
  have ha : cfg.anonymousAllowed = cfg'.anonymousAllowed := by simp [Config.anonymousAllowed, hn, h1]
  unfold build buildWith
  rw [hi]
  congr 1
  funext inject
  unfold buildCore
  simp only [buildAny_congr ha, circuitLoop_congr ha h1 h2]

/-! ### normalising a normalised gate set changes nothing -/

theorem dictSet_append {β : Type} (k : String) (v : β) : ∀ (l : List (String × β)), k ∉ l.map (·.1) →
    dictSet k v l = l ++ [(k, v)]
  | [], _ => rfl
  | (k', v') :: r, h => by
    simp only [List.map_cons, List.mem_cons, not_or] at h
    have hne : (k' == k) = false := by
      cases hq : (k' == k) with
      | false => rfl
      | true => exact absurd (by simpa using hq : k' = k).symm h.1
    simp [dictSet, hne, dictSet_append k v r h.2]

theorem foldl_dictSet_append : ∀ (d2 init : List (String × GateDef)), (∀ p ∈ d2, p.2.name = p.1) →
    ((init ++ d2).map (·.1)).Nodup →
    (d2.map (·.2)).foldl (fun acc g => dictSet g.name g acc) init = init ++ d2
  | [], init, _, _ => by simp
  | p :: d2, init, hk, hn => by
    simp only [List.map_cons, List.foldl_cons]
    have hkp : p.2.name = p.1 := hk p (by simp)
    have hnot : p.1 ∉ init.map (·.1) := by
      intro hin
      simp only [List.map_append, List.map_cons] at hn
      rw [List.nodup_append] at hn
      exact hn.2.2 _ hin _ (by simp) rfl
    rw [hkp, dictSet_append _ _ _ hnot]
    have := foldl_dictSet_append d2 (init ++ [(p.1, p.2)]) (fun q hq => hk q (by simp [hq])) (by simpa using hn)
    simpa using this

theorem normNatives_idem {gs : List GateDef} {d : List (String × GateDef)} (h : normNatives gs = .ok d) :
    normNatives (d.map (·.2)) = .ok d := by
  have hok := normNatives_natOK h
  unfold normNatives at h ⊢
  simp only at h ⊢
  split at h
  · simp [throw_eq] at h
  · rename_i hany
    simp only [pure, Except.pure, Except.ok.injEq] at h
    have hf := foldl_dictSet_append d [] hok.keys (by simpa using hok.nodup)
    simp only [List.nil_append] at hf
    rw [hf]
    rw [h] at hany
    simp [hany, pure, Except.pure]

theorem normNatives_ne_nil {g : GateDef} {gs : List GateDef} {d : List (String × GateDef)}
    (h : normNatives (g :: gs) = .ok d) : d ≠ [] := by
  intro hd
  subst hd
  have hmem : ∀ (l : List GateDef) (init : List (String × GateDef)), init ≠ [] →
      l.foldl (fun acc g => dictSet g.name g acc) init ≠ [] := by
    intro l
    induction l with
    | nil => intro init hi; simpa using hi
    | cons x xs ih =>
      intro init hi
      simp only [List.foldl_cons]
      apply ih
      cases init with
      | nil => exact absurd rfl hi
      | cons p r => obtain ⟨k', v'⟩ := p; simp only [dictSet]; split <;> simp
  unfold normNatives at h
  simp only at h
  split at h
  · simp [throw_eq] at h
  · simp only [pure, Except.pure, Except.ok.injEq, List.foldl_cons] at h
    exact hmem gs _ (by simp [dictSet]) h

/-- the configuration of the second rebuild builds what the configuration of the first builds -/
theorem rebuildCfg_congr {c c' : Circuit}
    (hnat : (c.natives = [] ∧ c'.natives = []) ∨ (c.natives ≠ [] ∧ ∃ d, normNatives c.natives = .ok d ∧ c'.natives = d.map (·.2)))
    (e : BSx) : build (rebuildCfg c') e = build (rebuildCfg c) e := by
  rcases hnat with ⟨h1, h2⟩ | ⟨h1, d, hd, h2⟩
  · simp [rebuildCfg, h1, h2]
  · have hdne : d ≠ [] := by
      cases hc : c.natives with
      | nil => exact absurd hc h1
      | cons g gs => rw [hc] at hd; exact normNatives_ne_nil hd
    have h2ne : c'.natives.isEmpty = false := by
      rw [h2]; cases d with
      | nil => exact absurd rfl hdne
      | cons p r => rfl
    have h1ne : c.natives.isEmpty = false := by
      cases hc : c.natives with
      | nil => exact absurd hc h1
      | cons g gs => rfl
    apply build_congr
    · have h2ne' : (List.map (fun (x : String × GateDef) => x.2) d).isEmpty = false := by rw [← h2]; exact h2ne
      have hidem := normNatives_idem hd
      simp only [Config.inject, rebuildCfg, h1ne, Bool.false_eq_true, if_false, h2, h2ne', hidem, hd]
    · simp [rebuildCfg, h1ne, h2ne]
    · rfl
    · rfl

/-! ### the second visit writes the same S-expression -/

theorem visitArgs_fixed {F F2 : Val → M Val} (hF : ∀ v v', F v = .ok v' → F2 v' = .ok v') :
    ∀ {args args' : List (String × Val)} {es : List BSx}, List.Forall₂ (fun a a' => F a.2 = .ok a'.2) args args' →
      visitArgs F args = .ok es → visitArgs F2 args' = .ok es := by
  intro args args' es h
  induction h generalizing es with
  | nil => intro hv; simpa [visitArgs] using hv
  | @cons a a' r r' hab _ ih =>
    intro hv
    obtain ⟨n, v⟩ := a
    obtain ⟨n', v'⟩ := a'
    simp only [visitArgs] at hv ⊢
    obtain ⟨x, hx, hv⟩ := bind_ok hv
    obtain ⟨xs, hxs, hv⟩ := bind_ok hv
    simp only [pure, Except.pure, Except.ok.injEq] at hv
    simp only at hab
    rw [hab] at hx
    cases hx
    simp [hF _ _ hab, ih hxs, bind, Except.bind, pure, Except.pure, hv]

section fixed
set_option linter.unusedSectionVars false
variable {F G F2 G2 : Val → M Val}
variable (hF : ∀ v v', F v = .ok v' → F2 v' = .ok v')
variable (hG : ∀ v c, v ≠ .none → G v = .ok c → c ≠ .none ∧ G2 c = .ok c)
include hF hG

mutual
theorem visitStmt_fixed : ∀ (s s' : Stmt) (e : BSx), Rel F G s s' → BlocksOK s → visitStmt F G s = .ok e →
    visitStmt F2 G2 s' = .ok e
  | .gate n gd args, .gate n' gd' args', e, h, _, hv => by
    simp only [Rel] at h
    obtain ⟨rfl, hargs⟩ := h
    simp only [visitStmt] at hv ⊢
    obtain ⟨es, hes, hv⟩ := bind_ok hv
    simp [visitArgs_fixed hF hargs hes, bind, Except.bind, hv]
  | .block par sub it body, .block par' sub' it' body', e, h, hB, hv => by
    simp only [Rel] at h
    obtain ⟨rfl, rfl, hit, hbody⟩ := h
    simp only [BlocksOK] at hB
    simp only [visitStmt] at hv ⊢
    obtain ⟨ss, hss, hv⟩ := bind_ok hv
    have ih := visitStmts_fixed body body' ss hbody hB.2.2 hss
    cases sub' with
    | false =>
      simp only [Bool.false_eq_true, if_false] at hv hit ⊢
      subst hit
      simp [ih, bind, Except.bind, hv]
    | true =>
      simp only [if_true] at hv hit ⊢
      obtain ⟨c, hc, rfl⟩ := hit
      obtain ⟨c0, hc0, hv⟩ := bind_ok hv
      rw [hc] at hc0; cases hc0
      obtain ⟨hne, hfix⟩ := hG it c (hB.2.1 rfl).2 hc
      have hnc : normCount c = c := by cases c <;> first | rfl | exact absurd rfl hne
      rw [hnc]
      simp [ih, hfix, bind, Except.bind, hv]
  | .loop c b, .loop c' b', e, h, hB, hv => by
    simp only [Rel] at h
    simp only [BlocksOK] at hB
    simp only [visitStmt] at hv ⊢
    obtain ⟨x, hx, hv⟩ := bind_ok hv
    obtain ⟨y, hy, hv⟩ := bind_ok hv
    rw [h.1] at hx; cases hx
    simp [hF _ _ h.1, visitStmt_fixed b b' y h.2 hB hy, bind, Except.bind, hv]
  | .gate _ _ _, .block _ _ _ _, _, h, _, _ | .gate _ _ _, .loop _ _, _, h, _, _
  | .block _ _ _ _, .gate _ _ _, _, h, _, _ | .block _ _ _ _, .loop _ _, _, h, _, _
  | .loop _ _, .gate _ _ _, _, h, _, _ | .loop _ _, .block _ _ _ _, _, h, _, _ => by simp [Rel] at h
theorem visitStmts_fixed : ∀ (l l' : List Stmt) (es : List BSx), RelList F G l l' → BlocksOKList l →
    visitStmts F G l = .ok es → visitStmts F2 G2 l' = .ok es
  | [], [], es, _, _, hv => by simpa [visitStmts] using hv
  | s :: ss, s' :: ss', es, h, hB, hv => by
    simp only [RelList] at h
    simp only [BlocksOKList] at hB
    simp only [visitStmts] at hv ⊢
    obtain ⟨x, hx, hv⟩ := bind_ok hv
    obtain ⟨xs, hxs, hv⟩ := bind_ok hv
    simp [visitStmt_fixed s s' x h.1 hB.1 hx, visitStmts_fixed ss ss' xs h.2 hB.2 hxs, bind, Except.bind, hv]
  | [], _ :: _, _, h, _, _ | _ :: _, [], _, h, _, _ => by simp [RelList] at h
end

end fixed

theorem visitMacros_fixed {Fm Fm2 : Macro → Val → M Val} {G G2 : Val → M Val}
    (hF : ∀ m m' v v', m'.name = m.name → m'.params.map (·.1) = m.params.map (·.1) → Fm m v = .ok v' → Fm2 m' v' = .ok v')
    (hG : ∀ v c, v ≠ .none → G v = .ok c → c ≠ .none ∧ G2 c = .ok c) :
    ∀ {ms ms' : List Macro} {em : List BSx}, List.Forall₂ (fun m m' => MacroRel (Fm m) G m m') ms ms' →
      (∀ m ∈ ms, BlocksOK m.body) → ms.mapM (fun m => visitMacro (Fm m) G m) = .ok em →
      ms'.mapM (fun m => visitMacro (Fm2 m) G2 m) = .ok em := by
  intro ms ms' em h
  induction h generalizing em with
  | nil => intro _ hv; simpa using hv
  | @cons m m' r r' hm _ ih =>
    intro hB hv
    rw [List.mapM_cons] at hv ⊢
    obtain ⟨x, hx, hv⟩ := bind_ok hv
    obtain ⟨xs, hxs, hv⟩ := bind_ok hv
    obtain ⟨hn, hp, hb⟩ := hm
    have hpn : m'.params.map (·.1) = m.params.map (·.1) := by rw [hp, List.map_map]; rfl
    unfold visitMacro at hx
    obtain ⟨b, hbv, hx⟩ := bind_ok hx
    have := visitStmt_fixed (F2 := Fm2 m') (G2 := G2) (fun v v' hf => hF m m' v v' hn hpn hf) hG m.body m'.body b hb
      (hB m (by simp)) hbv
    have hx2 : visitMacro (Fm2 m') G2 m' = .ok x := by
      unfold visitMacro
      simp only [this, bind, Except.bind]
      simp only [pure, Except.pure, Except.ok.injEq] at hx ⊢
      rw [← hx]
      have hps : m'.params.map (fun p => BSx.str p.1) = m.params.map (fun p => BSx.str p.1) := by
        rw [hp, List.map_map]; rfl
      simp only [macroSx, hn, hps]
    simp [hx2, ih (fun y hy => hB y (by simp [hy])) hxs, bind, Except.bind, hv]

theorem mapM_fixed {f f2 : Val → M Val} (hf : ∀ v v', f v = .ok v' → f2 v' = .ok v') :
    ∀ {l l' : List Val}, l.mapM f = .ok l' → l'.mapM f2 = .ok l'
  | [], l', h => by simp only [List.mapM_nil, pure, Except.pure, Except.ok.injEq] at h; subst h; rfl
  | v :: r, l', h => by
    rw [List.mapM_cons] at h
    obtain ⟨x, hx, h⟩ := bind_ok h
    obtain ⟨xs, hxs, h⟩ := bind_ok h
    simp only [pure, Except.pure, Except.ok.injEq] at h
    subst h
    rw [List.mapM_cons]
    simp [hf _ _ hx, mapM_fixed hf hxs, bind, Except.bind, pure, Except.pure]

/-! ### `fill_in_let` -/

/-- **a second `fill_in_let`, with any overrides, returns the circuit unchanged** (= `C05_idempotent_full`) -/
theorem fillInLet_idempotent (ov ov2 : List (String × Num)) (c c' : Circuit) (hw : FillIn.WellFormed c)
    (h : fillInLet ov c = .ok c') : fillInLet ov2 c' = .ok c' := by
  obtain ⟨bs, regs, hbs, hregs, hr⟩ := fillInLet_rebuilt hw h
  obtain ⟨ss, hc', hrel⟩ := hr.body
  have hB : BlocksOKList bs := by
    have := hw.blocks
    rw [hbs] at this
    simp only [BlocksOK] at this
    exact this.2.2
  unfold fillInLet at h ⊢
  obtain ⟨sx, hsx, hb⟩ := bind_ok h
  -- the S-expression of the first run
  unfold letSx at hsx
  obtain ⟨body, hbody, hsx⟩ := bind_ok hsx
  obtain ⟨stmts, hstmts, hsx⟩ := bind_ok hsx
  obtain ⟨regs0, hregs0, hsx⟩ := bind_ok hsx
  obtain ⟨macros, hmacros, hsx⟩ := bind_ok hsx
  simp only [pure, Except.pure, Except.ok.injEq] at hsx
  rw [hregs] at hregs0; cases hregs0
  rw [hbs] at hbody
  simp only [letStmt, visitStmt, Bool.false_eq_true, if_false] at hbody
  obtain ⟨es, hes, hbody⟩ := bind_ok hbody
  simp only [pure, Except.pure, Except.ok.injEq] at hbody
  subst hbody
  simp only [tailOf, pure, Except.pure, Except.ok.injEq] at hstmts
  subst hstmts
  -- values of the result are fixed points of every later visit
  have hF : ∀ v v', letVal ov false v = .ok v' → letVal ov2 false v' = .ok v' :=
    fun v v' hv => C05_idempotent_val v false v' hv ov2 false
  have hG : ∀ v c0, v ≠ .none → letVal ov false v = .ok c0 → c0 ≠ .none ∧ letVal ov2 false c0 = .ok c0 :=
    fun v c0 hne hv => ⟨fun hn => hne (letVal_none (hn ▸ hv)), hF v c0 hv⟩
  have hes2 := visitStmts_fixed (F2 := letVal ov2 false) (G2 := letVal ov2 false) hF hG bs ss es hrel hB hes
  have hm2 := visitMacros_fixed (Fm2 := fun _ => letVal ov2 false) (G2 := letVal ov2 false)
    (fun _ _ v v' _ _ hv => hF v v' hv) hG hr.macros hw.macros hmacros
  have hr2 : c'.registers.mapM (letVal ov2 true) = .ok c'.registers := by
    rw [hr.registers]
    exact mapM_fixed (fun v v' hv => C05_idempotent_val v true v' hv ov2 true) hregs
  have hsx2 : letSx ov2 c' = .ok sx := by
    unfold letSx
    simp only [hc', letStmt, visitStmt, Bool.false_eq_true, if_false, hes2, bind, Except.bind, pure, Except.pure, tailOf, hr2]
    have hm2' : c'.macros.mapM (letMacro ov2) = .ok macros := hm2
    simp only [hm2']
    rw [← hsx]
    simp only [circuitSx, hr.usepulses, hr.constants, hr.registers]
  simp only [hsx2, bind, Except.bind]
  rw [rebuildCfg_congr hr.natives]
  exact hb

/-! ### `fill_in_map` -/

/-- the resolution ends at a fundamental register, at which the resolved index resolves to itself -/
theorem resolveRegV_base (ctx : Resolve.Ctx) : ∀ (src : Val) (i : Int) (reg : Val) (k : Int),
    resolveRegV ctx src i = .ok (reg, k) → (∃ n sz, reg = .regF n sz) ∧ resolveRegV ctx reg k = .ok (reg, k) := by
  intro src
  induction src with
  | regF n sz _ =>
    intro i reg k h
    have h' := h
    rw [resolveRegV_regF_eq] at h'
    obtain ⟨hq, _⟩ := baseGate_ok h'
    cases hq
    exact ⟨⟨n, sz, rfl⟩, h⟩
  | regA n src ih =>
    intro i reg k h
    rw [resolveRegV_regA_eq] at h
    exact ih i reg k (sizeGate_ok h)
  | regS n src a b s ih _ _ _ =>
    intro i reg k h
    rw [resolveRegV_regS_eq] at h
    have h2 := sizeGate_ok h
    obtain ⟨ia, _, h2⟩ := bind_ok h2
    obtain ⟨is, _, h2⟩ := bind_ok h2
    exact ih _ reg k h2
  | _ => intro i reg k h; simp [resolveRegV] at h

/-- every value `MapFiller` returns is a fixed point of `MapFiller` (same macro parameters) -/
theorem mapVal_fixed {mps : List String} {v v' : Val} (h : mapVal mps v = .ok v') : mapVal mps v' = .ok v' := by
  cases v with
  | qubit n src idx =>
    have h0 := h
    simp only [mapVal] at h
    obtain ⟨p, hp, h⟩ := bind_ok h
    obtain ⟨reg, k⟩ := p
    simp only [] at h
    by_cases hc : mps.contains (reg.name?.getD "") = true
    · have hc' : reg.name?.getD "" ∈ mps := by simpa using hc
      simp [hc', throw_eq, bind, Except.bind] at h
    · simp only [hc, Bool.false_eq_true, if_false, bind, Except.bind] at h
      obtain ⟨nm, hv'⟩ := getItem_eq h
      -- the resolution of the original ends in `resolveRegV [] r i` for a register `r`
      have hbase : (∃ n sz, reg = .regF n sz) ∧ resolveRegV [] reg k = .ok (reg, k) := by
        rw [resolveQubitV] at hp
        obtain ⟨iv, _, hp⟩ := bind_ok hp
        obtain ⟨rv, _, hp⟩ := bind_ok hp
        by_cases hr : Resolve.isRegister rv = true
        · simp only [hr, Bool.not_true, Bool.false_eq_true, if_false, bind, Except.bind] at hp
          cases iv with
          | int i => exact resolveRegV_base [] rv i reg k hp
          | flt d =>
            by_cases hdd : d.isIntegral = true
            · simp only [hdd, if_true] at hp; exact resolveRegV_base [] rv _ reg k hp
            · simp [hdd] at hp
          | _ => simp at hp
        · simp [hr, throw_eq, bind, Except.bind] at hp
      obtain ⟨⟨rn, sz, rfl⟩, hres⟩ := hbase
      subst hv'
      have hq : resolveQubitV [] (.qubit nm (.regF rn sz) (.int k)) = .ok (.regF rn sz, k) := by
        rw [resolveQubitV]
        simp [Resolve.avFuel, Resolve.resolveAV, Resolve.isRegister, bind, Except.bind, hres]
      simp only [mapVal, hq, bind, Except.bind]
      simp only [Val.name?] at hc
      simp only [Val.name?, hc, Bool.false_eq_true, if_false]
      exact h
  | regF n sz => simp only [mapVal, pure, Except.pure] at h; cases h; rfl
  | regA _ _ => simp [mapVal, throw_eq] at h
  | regS _ _ _ _ _ => simp [mapVal, throw_eq] at h
  | int _ => cases h; rfl
  | flt _ => cases h; rfl
  | const _ _ => cases h; rfl
  | param _ _ => cases h; rfl
  | none => cases h; rfl
  | str _ => cases h; rfl

/-- **a second `fill_in_map` returns the circuit unchanged** -/
theorem fillInMap_idempotent (c c' : Circuit) (hw : FillIn.WellFormed c) (h : fillInMap c = .ok c') :
    fillInMap c' = .ok c' := by
  obtain ⟨bs, hbs, hr⟩ := fillInMap_rebuilt hw h
  obtain ⟨ss, hc', hrel⟩ := hr.body
  have hB : BlocksOKList bs := by
    have := hw.blocks
    rw [hbs] at this
    simp only [BlocksOK] at this
    exact this.2.2
  unfold fillInMap at h ⊢
  obtain ⟨sx, hsx, hb⟩ := bind_ok h
  unfold mapSx at hsx
  obtain ⟨body, hbody, hsx⟩ := bind_ok hsx
  obtain ⟨stmts, hstmts, hsx⟩ := bind_ok hsx
  obtain ⟨macros, hmacros, hsx⟩ := bind_ok hsx
  simp only [pure, Except.pure, Except.ok.injEq] at hsx
  rw [hbs] at hbody
  simp only [mapStmt, visitStmt, Bool.false_eq_true, if_false] at hbody
  obtain ⟨es, hes, hbody⟩ := bind_ok hbody
  simp only [pure, Except.pure, Except.ok.injEq] at hbody
  subst hbody
  simp only [tailOf, pure, Except.pure, Except.ok.injEq] at hstmts
  subst hstmts
  have hG : ∀ v c0, v ≠ Val.none → (pure v : M Val) = .ok c0 → c0 ≠ .none ∧ (pure c0 : M Val) = .ok c0 := by
    intro v c0 hne hv; cases hv; exact ⟨hne, rfl⟩
  have hes2 := visitStmts_fixed (F2 := mapVal []) (G2 := pure) (fun _ _ hv => mapVal_fixed hv) hG bs ss es hrel hB hes
  have hm2 := visitMacros_fixed (Fm := fun (m : Macro) => mapVal (m.params.map Prod.fst))
    (Fm2 := fun (m : Macro) => mapVal (m.params.map Prod.fst)) (G2 := pure)
    (fun m m' v v' _ hp hv => by
      have : m'.params.map Prod.fst = m.params.map Prod.fst := hp
      simp only [this]; exact mapVal_fixed hv) hG hr.macros hw.macros hmacros
  have hsx2 : mapSx c' = .ok sx := by
    unfold mapSx
    have hm2' : c'.macros.mapM mapMacro = .ok macros := hm2
    simp only [hc', mapStmt, visitStmt, Bool.false_eq_true, if_false, hes2, hm2']
    simp only [bind, Except.bind, pure, Except.pure, tailOf]
    rw [← hsx]
    simp only [circuitSx, hr.usepulses, hr.constants, hr.registers]
  simp only [hsx2, bind, Except.bind]
  rw [rebuildCfg_congr hr.natives]
  exact hb

end Jaqal.Passes

#print axioms Jaqal.Passes.fillInLet_idempotent
#print axioms Jaqal.Passes.fillInMap_idempotent
