import JaqalModel.Model.NumText
/-!
The two number-token regular expressions under a generic backtracking matcher, and the proof that
the deterministic readers of `Model/NumText.lean` compute exactly what that matcher finds first.

`Re` is the fragment of Python `re` syntax the expressions use (character class, greedy class star,
greedy option, sequence). `Re.run` is a backtracking matcher in continuation-passing style that tries
alternatives in Python's priority order: a star first takes as many characters as possible and gives
them back one at a time; an option first tries to match its body and then to skip it. `r.run k cs` is
the result of the continuation `k` on the remaining input for the first alternative on which `k`
succeeds — with `k = some` this is the remaining input after the match `re.match` reports.
-/
namespace Jaqal.NumText

inductive Re where
  | cls (p : Char → Bool)
  | star (p : Char → Bool)
  | opt (r : Re)
  | seq (r s : Re)

/-- First success (`a` has priority). -/
def first {β} : Option β → Option β → Option β
  | some a, _ => some a
  | none, b => b

def starRun {β} (p : Char → Bool) (k : List Char → Option β) : List Char → Option β
  | [] => k []
  | c :: cs => if p c then first (starRun p k cs) (k (c :: cs)) else k (c :: cs)

def Re.run {β} : Re → (List Char → Option β) → List Char → Option β
  | .cls p, k, cs => match cs with
    | [] => none
    | c :: cs' => if p c then k cs' else none
  | .star p, k, cs => starRun p k cs
  | .opt r, k, cs => first (r.run k cs) (k cs)
  | .seq r s, k, cs => r.run (s.run k) cs

def signC (c : Char) : Bool := c == '-' || c == '+'
def expC (c : Char) : Bool := c == 'e' || c == 'E'
def dotC (c : Char) : Bool := c == '.'

/-- `[0-9]+` -/
def digits1 : Re := .seq (.cls Char.isDigit) (.star Char.isDigit)
/-- `[eE][-+]?[0-9]+` -/
def expRe : Re := .seq (.cls expC) (.seq (.opt (.cls signC)) digits1)
/-- `[-+]?[0-9]*\.[0-9]+([eE][-+]?[0-9]+)?` -/
def numberRe : Re :=
  .seq (.opt (.cls signC)) (.seq (.star Char.isDigit) (.seq (.cls dotC) (.seq digits1 (.opt expRe))))
/-- `[-+]?[0-9]+` -/
def intRe : Re := .seq (.opt (.cls signC)) digits1

/-! ### `span` one step at a time -/

theorem span_loop_eq (p : Char → Bool) (cs acc : List Char) :
    List.span.loop p cs acc = (acc.reverse ++ (cs.span p).1, (cs.span p).2) := by
  induction cs generalizing acc with
  | nil => simp [List.span, List.span.loop]
  | cons c cs ih =>
    cases h : p c
    · simp [List.span, List.span.loop, h]
    · simp only [List.span, List.span.loop, h]
      rw [ih (c :: acc), ih [c]]
      simp

theorem span_cons (p : Char → Bool) (c : Char) (cs : List Char) :
    (c :: cs).span p = if p c then (c :: (cs.span p).1, (cs.span p).2) else ([], c :: cs) := by
  cases h : p c
  · simp [List.span, List.span.loop, h]
  · simp only [List.span, List.span.loop, h, if_true]
    rw [span_loop_eq]; simp [List.span]

@[simp] theorem span_nil (p : Char → Bool) : ([] : List Char).span p = ([], []) := rfl

/-! ### the star -/

theorem first_none_right {β} (a : Option β) : first a none = a := by cases a <;> rfl

/-- A greedy star whose continuation cannot start with a character of the class never gives back. -/
theorem starRun_of_fail {β} (p : Char → Bool) (k : List Char → Option β)
    (hk : ∀ c cs, p c = true → k (c :: cs) = none) (cs : List Char) :
    starRun p k cs = k (cs.span p).2 := by
  induction cs with
  | nil => rfl
  | cons c cs ih =>
    rw [starRun, span_cons]
    cases h : p c
    · simp
    · simp only [if_true, ih, hk c cs h, first_none_right]

/-- A greedy star whose continuation always succeeds never gives back. -/
theorem starRun_of_total {β} (p : Char → Bool) (k : List Char → Option β)
    (hk : ∀ cs, (k cs).isSome = true) (cs : List Char) :
    starRun p k cs = k (cs.span p).2 := by
  induction cs with
  | nil => rfl
  | cons c cs ih =>
    rw [starRun, span_cons]
    cases h : p c
    · simp
    · simp only [if_true, ih]
      have := hk (cs.span p).2
      cases hv : k (cs.span p).2 with
      | none => rw [hv] at this; cases this
      | some v => rfl

/-- An optional sign in front of something that cannot start with a sign. -/
theorem optSign_run {β} (k : List Char → Option β)
    (hk : ∀ c cs, signC c = true → k (c :: cs) = none) (cs : List Char) :
    (Re.opt (.cls signC)).run k cs = k (optSign cs).2 := by
  cases cs with
  | nil => simp [Re.run, first, optSign]
  | cons c cs =>
    cases h : signC c
    · have h' : (c == '-' || c == '+') = false := h
      simp [Re.run, first, optSign, h, h']
    · have h' : (c == '-' || c == '+') = true := h
      simp [Re.run, optSign, h, h', hk c cs h, first_none_right]

theorem digits1_run_sign {β} (k : List Char → Option β) (c : Char) (cs : List Char)
    (h : signC c = true) : digits1.run k (c :: cs) = none := by
  have : c.isDigit = false := by
    unfold signC at h
    simp only [Bool.or_eq_true, beq_iff_eq] at h
    rcases h with h | h <;> subst h <;> decide
  simp [digits1, Re.run, this]

theorem digits1_run_total {β} (k : List Char → Option β) (hk : ∀ cs, (k cs).isSome = true)
    (cs : List Char) :
    digits1.run k cs = if (cs.span Char.isDigit).1.isEmpty then none else k (cs.span Char.isDigit).2 := by
  cases cs with
  | nil => rfl
  | cons c cs =>
    rw [span_cons]
    cases h : c.isDigit
    · simp [digits1, Re.run, h]
    · simp [digits1, Re.run, h, starRun_of_total _ k hk]

/-- `[-+]?[0-9]+` then a continuation that always succeeds. -/
theorem signedDigits_run {β} (k : List Char → Option β) (hk : ∀ cs, (k cs).isSome = true)
    (cs : List Char) :
    (Re.seq (.opt (.cls signC)) digits1).run k cs =
      if ((optSign cs).2.span Char.isDigit).1.isEmpty then none
      else k ((optSign cs).2.span Char.isDigit).2 := by
  rw [Re.run, optSign_run _ (digits1_run_sign k), digits1_run_total k hk]

theorem expRe_run (cs : List Char) : expRe.run some cs = (parseExp cs).map (·.2) := by
  cases cs with
  | nil => rfl
  | cons c cs =>
    have hc : expC c = (c == 'e' || c == 'E') := rfl
    rw [expRe, Re.run, Re.run, parseExp, hc]
    cases h : (c == 'e' || c == 'E')
    · simp
    · simp only [if_true]
      rw [signedDigits_run some (fun _ => rfl)]
      split <;> simp_all

theorem intRe_run (cs : List Char) : intRe.run some cs = (parseInt cs).map (·.2) := by
  rw [intRe, signedDigits_run some (fun _ => rfl), parseInt]
  split <;> simp_all

/-- The part of NUMBER after the integer digits: `\.[0-9]+(exp)?`. -/
theorem fraction_run (cs : List Char) :
    (Re.seq (.cls dotC) (.seq digits1 (.opt expRe))).run some cs =
      match cs with
      | [] => none
      | c :: cs3 =>
        if c == '.' then
          if (cs3.span Char.isDigit).1.isEmpty then none
          else match parseExp (cs3.span Char.isDigit).2 with
            | some (_, cs5) => some cs5
            | none => some (cs3.span Char.isDigit).2
        else none := by
  cases cs with
  | nil => rfl
  | cons c cs3 =>
    have hc : dotC c = (c == '.') := rfl
    rw [Re.run, Re.run, hc]
    cases h : (c == '.')
    · simp only [h, Bool.false_eq_true, if_false]
    · simp only [if_true]
      have htot : ∀ cs, ((Re.opt expRe).run some cs).isSome = true := by
        intro cs; rw [Re.run]; cases expRe.run some cs <;> rfl
      rw [Re.run, digits1_run_total _ htot]
      split
      · rfl
      · rw [Re.run, expRe_run]
        cases parseExp (cs3.span Char.isDigit).2 with
        | none => rfl
        | some t => rfl

theorem fraction_run_digit (c : Char) (cs : List Char) (h : c.isDigit = true) :
    (Re.seq (.cls dotC) (.seq digits1 (.opt expRe))).run some (c :: cs) = none := by
  have : dotC c = false := by
    unfold dotC; simp only [beq_eq_false_iff_ne]; intro h0; subst h0; exact absurd h (by decide)
  simp [Re.run, this]

theorem unsigned_run_sign (c : Char) (cs : List Char) (h : signC c = true) :
    (Re.seq (.star Char.isDigit) (.seq (.cls dotC) (.seq digits1 (.opt expRe)))).run some (c :: cs)
      = none := by
  have h1 : c.isDigit = false := by
    unfold signC at h
    simp only [Bool.or_eq_true, beq_iff_eq] at h
    rcases h with h | h <;> subst h <;> decide
  have h2 : dotC c = false := by
    unfold signC at h
    simp only [Bool.or_eq_true, beq_iff_eq] at h
    rcases h with h | h <;> subst h <;> decide
  simp [Re.run, starRun, h1, h2]

/-- **The NUMBER reader is the regular expression.** The remaining input after the first match the
backtracking matcher finds for `[-+]?[0-9]*\.[0-9]+([eE][-+]?[0-9]+)?` is the one `parseNumber`
(hence `matchNumber`) returns; in particular one matches iff the other does. -/
theorem numberRe_run (cs : List Char) : numberRe.run some cs = (parseNumber cs).map (·.2) := by
  rw [numberRe, Re.run, optSign_run _ unsigned_run_sign, Re.run, Re.run,
    starRun_of_fail _ _ fraction_run_digit, fraction_run, parseNumber]
  simp only []
  generalize (List.span Char.isDigit (optSign cs).snd).snd = cs2
  cases cs2 with
  | nil => rfl
  | cons c cs3 =>
    simp only []
    cases h : (c == '.')
    · simp
    · simp only [if_true]
      cases h2 : (cs3.span Char.isDigit).1.isEmpty
      · simp only [Bool.false_eq_true, if_false]
        cases parseExp (cs3.span Char.isDigit).2 with
        | none => rfl
        | some t => rfl
      · simp

/-! ### the matched text is the consumed prefix -/

theorem span_append_eq (p : Char → Bool) (cs : List Char) : (cs.span p).1 ++ (cs.span p).2 = cs := by
  induction cs with
  | nil => rfl
  | cons c cs ih =>
    rw [span_cons]
    cases h : p c
    · simp
    · simp [ih]

theorem optSign_append_eq (cs : List Char) : (optSign cs).1 ++ (optSign cs).2 = cs := by
  cases cs with
  | nil => rfl
  | cons c cs =>
    cases h : (c == '-' || c == '+') <;> simp [optSign, h]

theorem parseExp_prefix {cs : List Char} {c : Char} {sg ds r : List Char}
    (h : parseExp cs = some ((c, sg, ds), r)) : c :: (sg ++ ds) ++ r = cs := by
  cases cs with
  | nil => simp [parseExp] at h
  | cons c' cs =>
    simp only [parseExp] at h
    split at h
    · split at h
      · simp at h
      · simp only [Option.some.injEq, Prod.mk.injEq] at h
        obtain ⟨⟨h1, h2, h3⟩, h4⟩ := h
        subst h1; subst h2; subst h3; subst h4
        have a := optSign_append_eq cs
        have b := span_append_eq Char.isDigit (optSign cs).2
        simp only [List.cons_append, List.append_assoc, b, a]
    · simp at h

theorem parseNumber_prefix {cs : List Char} {p : Parts} {r : List Char}
    (h : parseNumber cs = some (p, r)) : p.text ++ r = cs := by
  have a := optSign_append_eq cs
  have b := span_append_eq Char.isDigit (optSign cs).2
  simp only [parseNumber] at h
  split at h
  · simp at h
  · rename_i c cs3 hcs2
    have b' := span_append_eq Char.isDigit cs3
    split at h
    · rename_i hdot
      have hdot' : c = '.' := by simpa using hdot
      split at h
      · simp at h
      · split at h
        · rename_i ex cs5 hex
          simp only [Option.some.injEq, Prod.mk.injEq] at h
          obtain ⟨h1, h2⟩ := h
          subst h1; subst h2
          rcases ex with ⟨ec, esg, eds⟩
          have e := parseExp_prefix hex
          simp only [Parts.text, List.append_assoc, List.cons_append]
          simp only [List.cons_append, List.append_assoc] at e
          rw [e, b', ← hdot', ← hcs2, b, a]
        · simp only [Option.some.injEq, Prod.mk.injEq] at h
          obtain ⟨h1, h2⟩ := h
          subst h1; subst h2
          simp only [Parts.text, List.append_assoc, List.cons_append, List.nil_append]
          rw [b', ← hdot', ← hcs2, b, a]
    · simp at h

theorem matchNumber_prefix {cs m r : List Char} (h : matchNumber cs = some (m, r)) : m ++ r = cs := by
  unfold matchNumber at h
  cases hp : parseNumber cs with
  | none => simp [hp] at h
  | some t =>
    rcases t with ⟨p, r'⟩
    simp only [hp, Option.map_some, Option.some.injEq, Prod.mk.injEq] at h
    obtain ⟨h1, h2⟩ := h
    subst h1; subst h2
    exact parseNumber_prefix hp

theorem matchInt_prefix {cs m r : List Char} (h : matchInt cs = some (m, r)) : m ++ r = cs := by
  unfold matchInt parseInt at h
  simp only [] at h
  split at h
  · simp at h
  · simp only [Option.map_some, Option.some.injEq, Prod.mk.injEq] at h
    obtain ⟨h1, h2⟩ := h
    subst h1; subst h2
    rw [List.append_assoc, span_append_eq, optSign_append_eq]

end Jaqal.NumText
