import Mathlib.Algebra.Star.BigOperators
import Mathlib.Algebra.BigOperators.Ring.Finset
import Mathlib.Tactic.Ring
import JaqalProofs.Props.C03
/-!
# Unitarity of the embedded gate matrices

`IsUnitaryOn U d` : the first `d` columns of `U` (rows `< d`) are orthonormal.

* `embed_unitary` : `U` unitary on `2^|qs|` ⟹ `embed U qs n` (`U` on the qubits `qs`, identity elsewhere,
  the matrix the emulator's loop nest multiplies with — `C03_applyGate_eq_embed`) unitary on `2^n`.
  The proof goes through the bijection `r ↦ (gather qs r, clear qs r)`: the rows `r` that agree with a
  column index `c` on the bystander qubits are exactly `scatter qs x (clear qs c)`, `x < 2^|qs|`.
* `matVec_norm` : a matrix with orthonormal columns preserves `Σ star (v i) * v i`.
* `specState_norm`, `foldl_matVec_norm` : hence `U_k … U_1 |0…0⟩` has norm one.

Everything is stated for an arbitrary commutative `StarRing` (specialised to `ℂ` in `Props/C03Unitary.lean`).
-/
namespace Jaqal.Emulator
open Jaqal.Bits Finset

variable {R : Type}

/-! ### `Agree` is an equivalence -/

theorem Agree.refl (qs : List Nat) (n i : Nat) : Agree qs n i i := fun _ _ _ => rfl

theorem Agree.symm {qs : List Nat} {n i j : Nat} (h : Agree qs n i j) : Agree qs n j i :=
  fun b hb hq => (h b hb hq).symm

theorem Agree.trans {qs : List Nat} {n i j k : Nat} (h : Agree qs n i j) (h' : Agree qs n j k) :
    Agree qs n i k :=
  fun b hb hq => (h b hb hq).trans (h' b hb hq)

/-- `scatter qs x (clear qs c)` keeps the bystander bits of `c`. -/
theorem agree_scatter_clear (qs : List Nat) (n x c : Nat) : Agree qs n (scatter qs x (clear qs c)) c := by
  intro b _ hbq
  rw [testBit_scatter _ _ _ _ hbq, testBit_clear]
  simp [hbq]

/-! ### Orthonormal columns -/

/-- The columns `c < d` of `U`, restricted to the rows `r < d`, are orthonormal:
`Σ_{r<d} star (U r c) * U r c' = δ_{c c'}`, i.e. `Uᴴ U = 1` on the `d × d` block. -/
def IsUnitaryOn [CommSemiring R] [StarRing R] (U : Nat → Nat → R) (d : Nat) : Prop :=
  ∀ c < d, ∀ c' < d, ∑ r ∈ range d, star (U r c) * U r c' = if c = c' then 1 else 0

/-- The rows agreeing with `c` on the bystander qubits are parametrised by the gate row index:
`r ↦ gather qs r` is a bijection from `{r < 2^n | Agree r c}` onto `[0, 2^|qs|)` with inverse
`x ↦ scatter qs x (clear qs c)`. -/
theorem sum_agree_eq_sum_gate [AddCommMonoid R] (qs : List Nat) (n c : Nat) (hd : qs.Nodup)
    (hb : ∀ q ∈ qs, q < n) (hc : c < 2 ^ n) (f : Nat → R) :
    ∑ r ∈ (range (2 ^ n)).filter (fun r => Agree qs n r c), f (gather qs r)
      = ∑ x ∈ range (2 ^ qs.length), f x := by
  apply sum_nbij' (fun r => gather qs r) (fun x => scatter qs x (clear qs c))
  · intro r _
    simpa using gather_lt qs r
  · intro x _
    simp only [mem_filter, mem_range]
    exact ⟨scatter_lt qs x _ n (clear_lt qs c n hc) hb, agree_scatter_clear qs n x c⟩
  · intro r hr
    simp only [mem_filter, mem_range] at hr
    show scatter qs (gather qs r) (clear qs c) = r
    rw [← clear_eq_of_agree qs n r c hr.1 hc hr.2, scatter_gather qs hd r]
  · intro x hx
    exact gather_scatter qs hd x _ (by simpa using hx) (clear_cleared qs c)
  · intro r _
    rfl

/-- **Embedding preserves unitarity.** If `U` has orthonormal columns on `2^|qs|`, the qubit arguments
are distinct and inside the register, then `U ⊗ 1` (in the emulator's little-endian bit convention) has
orthonormal columns on `2^n`. -/
theorem embed_unitary [CommSemiring R] [StarRing R] (U : Nat → Nat → R) (qs : List Nat) (n : Nat)
    (hd : qs.Nodup) (hb : ∀ q ∈ qs, q < n) (hU : IsUnitaryOn U (2 ^ qs.length)) :
    IsUnitaryOn (embed U qs n) (2 ^ n) := by
  intro c hc c' hc'
  by_cases ha : Agree qs n c c'
  · have h1 : ∀ r, star (embed U qs n r c) * embed U qs n r c'
        = if Agree qs n r c then star (U (gather qs r) (gather qs c)) * U (gather qs r) (gather qs c')
          else 0 := by
      intro r
      unfold embed
      by_cases hr : Agree qs n r c
      · rw [if_pos hr, if_pos (hr.trans ha), if_pos hr]
      · rw [if_neg hr, if_neg hr, star_zero, zero_mul]
    simp only [h1]
    rw [← sum_filter,
      sum_agree_eq_sum_gate qs n c hd hb hc (fun x => star (U x (gather qs c)) * U x (gather qs c')),
      hU _ (gather_lt qs c) _ (gather_lt qs c')]
    by_cases h : c = c'
    · subst h; rw [if_pos rfl, if_pos rfl]
    · rw [if_neg h, if_neg]
      intro hg
      exact h (eq_of_gather_agree qs n c c' hc hc' hg ha)
  · have hne : c ≠ c' := by
      rintro rfl
      exact ha (Agree.refl qs n c)
    rw [if_neg hne]
    apply sum_eq_zero
    intro r _
    unfold embed
    by_cases hr : Agree qs n r c
    · have hr' : ¬ Agree qs n r c' := fun hr' => ha (hr.symm.trans hr')
      rw [if_neg hr', mul_zero]
    · rw [if_neg hr, star_zero, zero_mul]

/-! ### Norm preservation -/

/-- A matrix with orthonormal columns preserves inner products of a vector with itself (general
dimension `d`; `matVec A n` is the case `d = 2^n`). -/
theorem sum_mul_norm [CommSemiring R] [StarRing R] (A : Nat → Nat → R) (d : Nat) (v : Nat → R)
    (hA : IsUnitaryOn A d) :
    ∑ i ∈ range d, star (∑ j ∈ range d, A i j * v j) * (∑ j ∈ range d, A i j * v j)
      = ∑ j ∈ range d, star (v j) * v j := by
  have h1 : ∀ i, star (∑ j ∈ range d, A i j * v j) * (∑ j ∈ range d, A i j * v j)
      = ∑ j ∈ range d, ∑ j' ∈ range d, (star (v j) * v j') * (star (A i j) * A i j') := by
    intro i
    rw [star_sum, sum_mul_sum]
    apply sum_congr rfl; intro j _
    apply sum_congr rfl; intro j' _
    rw [star_mul']
    ring
  simp only [h1]
  rw [sum_comm]
  apply sum_congr rfl; intro j hj
  rw [sum_comm]
  have hj' : j < d := by simpa using hj
  have h2 : ∀ j' ∈ range d, ∑ i ∈ range d, (star (v j) * v j') * (star (A i j) * A i j')
      = if j = j' then star (v j) * v j' else 0 := by
    intro j' hj'd
    rw [← mul_sum, hA j hj' j' (by simpa using hj'd)]
    split <;> simp
  rw [sum_congr rfl h2, sum_ite_eq, if_pos hj]

/-- **Norm preservation.** `IsUnitaryOn A (2^n)` ⟹ `‖A v‖² = ‖v‖²` (as sums of `star x * x`). -/
theorem matVec_norm [CommSemiring R] [StarRing R] (A : Nat → Nat → R) (n : Nat) (v : Nat → R)
    (hA : IsUnitaryOn A (2 ^ n)) :
    ∑ i ∈ range (2 ^ n), star (matVec A n v i) * matVec A n v i
      = ∑ j ∈ range (2 ^ n), star (v j) * v j :=
  sum_mul_norm A (2 ^ n) v hA

/-- The initial state `|0…0⟩` has norm one. -/
theorem e0_norm [CommSemiring R] [StarRing R] (n : Nat) :
    ∑ i ∈ range (2 ^ n), star ((e0 : Nat → R) i) * (e0 : Nat → R) i = 1 := by
  have h : ∀ i ∈ range (2 ^ n), star ((e0 : Nat → R) i) * (e0 : Nat → R) i = if 0 = i then 1 else 0 := by
    intro i _
    unfold e0
    by_cases hi : i = 0
    · subst hi; simp
    · rw [if_neg hi, if_neg (Ne.symm hi), mul_zero]
  rw [sum_congr rfl h, sum_ite_eq, if_pos (by simp)]

/-- Every matrix that is present is unitary on the dimension given by its number of qubit arguments. -/
def GatesUnitary [CommSemiring R] [StarRing R] (gates : List (Option (Nat → Nat → R) × List Nat)) : Prop :=
  ∀ g ∈ gates, ∀ U, g.1 = some U → IsUnitaryOn U (2 ^ g.2.length)

/-- A product of embedded unitaries preserves the norm of any start vector. -/
theorem foldl_matVec_norm [CommSemiring R] [StarRing R] (n : Nat)
    (gates : List (Option (Nat → Nat → R) × List Nat)) (hok : GatesOK n gates)
    (hU : GatesUnitary gates) (v : Nat → R) :
    ∑ i ∈ range (2 ^ n),
        star ((gates.filterMap (fun g => g.1.map (fun U => (U, g.2)))).foldl
          (fun v g => matVec (embed g.1 g.2 n) n v) v i)
        * (gates.filterMap (fun g => g.1.map (fun U => (U, g.2)))).foldl
          (fun v g => matVec (embed g.1 g.2 n) n v) v i
      = ∑ i ∈ range (2 ^ n), star (v i) * v i := by
  induction gates generalizing v with
  | nil => rfl
  | cons g gs ih =>
    have hgs : GatesOK n gs := fun g' hg' => hok g' (List.mem_cons_of_mem _ hg')
    have hUs : GatesUnitary gs := fun g' hg' => hU g' (List.mem_cons_of_mem _ hg')
    obtain ⟨U?, qs⟩ := g
    cases U? with
    | none => simpa using ih hgs hUs v
    | some U =>
      have hg := hok (some U, qs) List.mem_cons_self rfl
      have hu := hU (some U, qs) List.mem_cons_self U rfl
      simp only [List.filterMap_cons, Option.map_some, List.foldl_cons]
      rw [ih hgs hUs]
      exact matVec_norm _ n v (embed_unitary U qs n hg.1 hg.2 hu)

/-- `U_k … U_1 |0…0⟩` has norm one. -/
theorem specState_norm [CommSemiring R] [StarRing R] (n : Nat)
    (gates : List (Option (Nat → Nat → R) × List Nat)) (hok : GatesOK n gates)
    (hU : GatesUnitary gates) :
    ∑ i ∈ range (2 ^ n), star (specState n gates i) * specState n gates i = 1 := by
  unfold specState
  rw [foldl_matVec_norm n gates hok hU, e0_norm]

end Jaqal.Emulator
