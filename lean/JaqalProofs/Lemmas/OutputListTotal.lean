import JaqalProofs.Lemmas.OutputList
import JaqalProofs.Lemmas.RunModel
import JaqalProofs.Props.C15
/-!
# Error classes of `OutputList.parseOutputs` (C16 for `parse_jaqal_output_list`)

* `ValidOut n o` — the entry `o` of an output list is a measured state of `n` qubits: the Python int `k` with `0 ≤ k < 2^n`, or the
  string `asStr n k` for such a `k` (`validOut_str_iff`: for `n ≥ 1`, exactly `n` characters, all `0` / `1`); decidable;
* `specVisits_lt`, `prepareExpanded_inv` — when `w.visit(circuit)` starts, every visit index has its table and every table has
  `2^n` entries;
* `measuredQubits_of_tooLarge`, `prepareExpanded_class` — everything before the outputs are looked at fails with `JaqalError`
  only on a circuit satisfying `RunModel.ExecClass` (the hypothesis of `RunModel.execute_class`: same stages, same lemmas);
* `consume_valid` — on valid outputs `process_trace` fails with `JaqalError("Not enough outputs…")` only;
* `consume_error` — whatever the outputs, the failures of `process_trace` are that `JaqalError`, `ValueError`, `IndexError` or
  `OverflowError`;
* `consume_other_invalid` — a foreign class means one of the CONSUMED entries is not valid.
-/
namespace Jaqal.OutputList
open Jaqal Jaqal.Builder Jaqal.RunModel

/-! ### Valid outputs -/

/-- an entry of the output list that is a measured state of `n` qubits: a Python int `0 ≤ k < 2^n`, or the string
`Readout.as_str` writes for such a `k` (`n` characters `0` / `1`, qubit 0 first; `"0"` when `n = 0`) -/
def ValidOut (n : Nat) : HwOut → Prop
  | .int k => 0 ≤ k ∧ k < ((2 ^ n : Nat) : Int)
  | .str s => ∃ k, k < 2 ^ n ∧ s = Result.asStr n k

/-- `ValidOut`, evaluated -/
def validOutB (n : Nat) : HwOut → Bool
  | .int k => decide (0 ≤ k) && decide (k < ((2 ^ n : Nat) : Int))
  | .str s =>
    match Result.ofStr s with
    | some k => decide (k < 2 ^ n) && (Result.asStr n k == s)
    | none => false

theorem validOutB_iff (n : Nat) (o : HwOut) : validOutB n o = true ↔ ValidOut n o := by
  cases o with
  | int k => simp [validOutB, ValidOut]
  | str s =>
    simp only [validOutB, ValidOut]
    constructor
    · intro h
      cases hs : Result.ofStr s with
      | none => simp [hs] at h
      | some k =>
        simp only [hs, Bool.and_eq_true, decide_eq_true_eq, beq_iff_eq] at h
        exact ⟨k, h.1, h.2.symm⟩
    · rintro ⟨k, hk, rfl⟩
      simp [Result.C15_roundtrip_all, hk]

instance (n : Nat) (o : HwOut) : Decidable (ValidOut n o) := decidable_of_iff _ (validOutB_iff n o)

/-- for at least one qubit: a valid string is one of exactly `n` characters, all `0` / `1` -/
theorem validOut_str_iff {n : Nat} (hn : 0 < n) (s : String) :
    ValidOut n (.str s) ↔ s.length = n ∧ ∀ c ∈ s.toList, c = '0' ∨ c = '1' := by
  constructor
  · rintro ⟨k, hk, rfl⟩
    refine ⟨Result.C15_as_str_length hn hk, ?_⟩
    intro c hc
    rw [Result.asStr_toList] at hc
    obtain ⟨b, _, rfl⟩ := List.mem_map.1 hc
    cases b
    · exact Or.inl rfl
    · exact Or.inr rfl
  · rintro ⟨hl, hc⟩
    obtain ⟨k, hk, _, hs⟩ := Result.C15_roundtrip_conv hl hc hn
    exact ⟨k, hk, hs.symm⟩

/-- a valid entry stands for an integer `0 ≤ v < 2^n` -/
theorem value_valid {n : Nat} {o : HwOut} (h : ValidOut n o) : ∃ v, o.value = .ok v ∧ 0 ≤ v ∧ v.toNat < 2 ^ n := by
  cases o with
  | int k =>
    obtain ⟨h0, h1⟩ := h
    exact ⟨k, rfl, h0, by omega⟩
  | str s =>
    obtain ⟨k, hk, rfl⟩ := h
    refine ⟨(k : Int), ?_, by omega, by simpa using hk⟩
    simp only [HwOut.value, Result.C15_roundtrip_all]
    rfl

/-- `table[v] += 1` for `0 ≤ v < len(table)` -/
theorem accept_inrange {t : List Nat} {v : Int} (h0 : 0 ≤ v) (h1 : v.toNat < t.length) :
    ∃ t', accept t v = .ok t' ∧ t'.length = t.length := by
  have hn : normIndex t.length v = .ok v.toNat := by
    simp only [normIndex, h0, h1, if_true]
    rfl
  have hb : Result.bump t v.toNat = some (t.modify v.toNat (· + 1)) := by
    rw [Result.bump_eq, if_pos h1]
  refine ⟨t.modify v.toNat (· + 1), ?_, by simp⟩
  simp only [accept, hn, bind, Except.bind, hb]
  rfl

/-! ### `process_trace` on valid outputs -/

theorem set_lengths {tbls : List (List Nat)} {L : Nat} (hL : ∀ t ∈ tbls, t.length = L) {sc : Nat} {t' : List Nat}
    (ht' : t'.length = L) : ∀ u ∈ tbls.set sc t', u.length = L := by
  intro u hu
  rcases List.mem_or_eq_of_mem_set hu with hu | hu
  · exact hL u hu
  · subst hu; exact ht'

/-- every visit has its table, every table has `2^n` entries, every entry of the list is valid: the only failure is
`JaqalError("Not enough outputs…")` -/
theorem consume_valid (n : Nat) : ∀ (vs : List Nat) (outs : List HwOut) (i : Nat) (tbls : List (List Nat)),
    (∀ v ∈ vs, v < tbls.length) → (∀ t ∈ tbls, t.length = 2 ^ n) → (∀ o ∈ outs, ValidOut n o) →
    Cls Good (consume vs outs i tbls)
  | [], _, _, _, _, _, _ => Cls.ok _
  | sc :: vs, outs, i, tbls, hv, hL, ho => by
    have hsc : sc < tbls.length := hv sc (List.mem_cons_self ..)
    have hget : tbls[sc]? = some tbls[sc] := List.getElem?_eq_getElem hsc
    cases outs with
    | nil =>
      rw [consume]
      simp only [hget]
      exact Cls.err (Good.jaqal _)
    | cons o os =>
      obtain ⟨v, hval, h0, h1⟩ := value_valid (ho o (List.mem_cons_self ..))
      have htl : tbls[sc].length = 2 ^ n := hL _ (List.getElem_mem hsc)
      obtain ⟨t', hacc, hlen⟩ := accept_inrange (t := tbls[sc]) h0 (by omega)
      rw [consume_cons_of hget hval hacc]
      have ih := consume_valid n vs os (i + 1) (tbls.set sc t')
        (fun w hw => by rw [List.length_set]; exact hv w (List.mem_cons_of_mem _ hw))
        (set_lengths hL (by rw [hlen, htl]))
        (fun o' ho' => ho o' (List.mem_cons_of_mem _ ho'))
      intro e he
      cases hr : consume vs os (i + 1) (tbls.set sc t') with
      | error e' =>
        rw [hr] at he
        cases he
        exact ih _ hr
      | ok r => rw [hr] at he; cases he

/-- only the entries the visits consume need be valid -/
theorem consume_valid_take (n : Nat) (vs : List Nat) (outs : List HwOut) (i : Nat) (tbls : List (List Nat))
    (hv : ∀ v ∈ vs, v < tbls.length) (hL : ∀ t ∈ tbls, t.length = 2 ^ n)
    (ho : ∀ o ∈ outs.take vs.length, ValidOut n o) : Cls Good (consume vs outs i tbls) := by
  rw [← consume_take]
  exact consume_valid n vs _ i tbls hv hL ho

/-! ### `process_trace` on any outputs: the classes that escape -/

/-- the failures of `process_trace` -/
def ConsumeErr (e : Err) : Prop :=
  e = .jaqal "not-enough-outputs" ∨ e = .other "ValueError" ∨ e = .other "IndexError" ∨ e = .other "OverflowError"

theorem value_error {o : HwOut} {e : Err} (h : o.value = .error e) : e = .other "ValueError" := by
  cases o with
  | int k => cases h
  | str s =>
    simp only [HwOut.value] at h
    split at h
    · cases h
    · cases h; rfl

theorem normIndex_error {len : Nat} {k : Int} {e : Err} (h : normIndex len k = .error e) :
    e = .other "IndexError" ∨ e = .other "OverflowError" := by
  unfold normIndex at h
  split at h
  · split at h
    · cases h
    · split at h
      · cases h; exact Or.inr rfl
      · cases h; exact Or.inl rfl
  · split at h
    · cases h
    · cases h; exact Or.inl rfl

theorem accept_error {t : List Nat} {k : Int} {e : Err} (h : accept t k = .error e) :
    e = .other "IndexError" ∨ e = .other "OverflowError" := by
  unfold accept at h
  cases hn : normIndex t.length k with
  | error e' =>
    rw [hn] at h
    cases h
    exact normIndex_error hn
  | ok i =>
    rw [hn] at h
    simp only [bind, Except.bind] at h
    split at h
    · cases h
    · cases h; exact Or.inl rfl

theorem consume_error : ∀ (vs : List Nat) (outs : List HwOut) (i : Nat) (tbls : List (List Nat)) (e : Err),
    consume vs outs i tbls = .error e → ConsumeErr e
  | [], _, _, _, _, h => by cases h
  | sc :: vs, outs, i, tbls, e, h => by
    rw [consume] at h
    cases ht : tbls[sc]? with
    | none =>
      rw [ht] at h
      cases h
      exact Or.inr (Or.inr (Or.inl rfl))
    | some t =>
      rw [ht] at h
      cases outs with
      | nil => cases h; exact Or.inl rfl
      | cons o os =>
        simp only [bind, Except.bind] at h
        cases hv : o.value with
        | error e' =>
          rw [hv] at h
          cases h
          exact Or.inr (Or.inl (value_error hv))
        | ok v =>
          rw [hv] at h
          simp only [] at h
          cases ha : accept t v with
          | error e' =>
            rw [ha] at h
            cases h
            rcases accept_error ha with rfl | rfl
            · exact Or.inr (Or.inr (Or.inl rfl))
            · exact Or.inr (Or.inr (Or.inr rfl))
          | ok t' =>
            rw [ha] at h
            simp only [] at h
            cases hr : consume vs os (i + 1) (tbls.set sc t') with
            | error e' =>
              rw [hr] at h
              cases h
              exact consume_error vs os (i + 1) _ _ hr
            | ok r => rw [hr] at h; cases h

/-- a foreign class out of `process_trace`: one of the entries the visits consume is not valid -/
theorem consume_other_invalid (n : Nat) (vs : List Nat) (outs : List HwOut) (i : Nat) (tbls : List (List Nat))
    (hv : ∀ v ∈ vs, v < tbls.length) (hL : ∀ t ∈ tbls, t.length = 2 ^ n) (cls : String)
    (h : consume vs outs i tbls = .error (.other cls)) : ∃ o ∈ outs.take vs.length, ¬ ValidOut n o := by
  refine Classical.byContradiction (fun hno => ?_)
  have hall : ∀ o ∈ outs.take vs.length, ValidOut n o := by
    intro o ho
    exact Classical.byContradiction (fun hn => hno ⟨o, ho, hn⟩)
  rcases consume_valid_take n vs outs i tbls hv hL hall _ h with ⟨r, hr⟩ | hr <;> cases hr

/-! ### Before the outputs are looked at -/

mutual
  /-- a visit is the index of a trace -/
  theorem specStmt_lt (starts : List Walk.Addr) : ∀ (s : Walk.Stmt) (a : Walk.Addr) (k : Nat),
      ∀ v ∈ (Walk.specStmt starts s a k).1, v < starts.length
    | .gate _, a, k, v, hv => by
      simp only [Walk.specStmt] at hv
      split at hv
      · rename_i hk
        simp only [List.mem_singleton] at hv
        subst hv
        exact (List.getElem?_eq_some_iff.mp hk).1
      · cases hv
    | .block _ b, a, k, v, hv => by
      simp only [Walk.specStmt] at hv
      exact specList_lt starts b a 0 k v hv
    | .loop n _ b, a, k, v, hv => by
      simp only [Walk.specStmt] at hv
      obtain ⟨l, hl, hvl⟩ := List.mem_flatten.mp hv
      rw [(List.mem_replicate.mp hl).2] at hvl
      exact specList_lt starts b a 0 k v hvl
  theorem specList_lt (starts : List Walk.Addr) : ∀ (l : List Walk.Stmt) (a : Walk.Addr) (i k : Nat),
      ∀ v ∈ (Walk.specList starts l a i k).1, v < starts.length
    | [], _, _, _, v, hv => by simp [Walk.specList] at hv
    | s :: r, a, i, k, v, hv => by
      simp only [Walk.specList, List.mem_append] at hv
      rcases hv with hv | hv
      · exact specStmt_lt starts s (a ++ [i]) k v hv
      · exact specList_lt starts r a (i + 1) _ v hv
end

theorem specVisits_lt (starts : List Walk.Addr) (body : List Walk.Stmt) : ∀ v ∈ Walk.specVisits starts body, v < starts.length :=
  specList_lt starts body [] 0 0

/-- when `w.visit(circuit)` starts: `self.subcircuits[self.index]` exists at every visit, and every table has `2^n` entries -/
theorem prepareExpanded_inv {x : Circuit} {p : Prepared} (h : prepareExpanded x = .ok p) :
    (∀ v ∈ p.visits, v < p.tables.length) ∧ (∀ t ∈ p.tables, t.length = 2 ^ p.qubits) ∧ p.tables.length = p.sections := by
  obtain ⟨body, tbl, traces, _, _, _, hd, _, ha, hv, hsec⟩ := prepareExpanded_ok h
  have htb := allocTables_ok ha
  have hlen : p.tables.length = traces.length := by rw [htb, List.length_replicate]
  have hord := Walk.C08_order body traces hd _ (Nat.le_refl _)
  rw [hv] at hord
  have hsv : p.visits = Walk.specVisits (traces.map (·.1)) body := Except.ok.inj hord
  refine ⟨?_, ?_, by rw [hlen, hsec]⟩
  · intro v hvm
    rw [hsv] at hvm
    have := specVisits_lt _ _ v hvm
    rw [List.length_map] at this
    omega
  · intro t ht
    rw [htb] at ht
    rw [List.eq_of_mem_replicate ht, List.length_replicate]

/-- the register-size limit has called `int(reg.size)` on every fundamental register: listing the qubits cannot fail after it -/
theorem measuredQubits_of_tooLarge : ∀ (regs : List Val), tooLarge regs = .ok () → ∃ n, measuredQubits regs = .ok n
  | [], _ => ⟨0, rfl⟩
  | v :: rest, h => by
    cases v with
    | regF nm size =>
      unfold tooLarge at h
      cases hp : UsedQubits.pyInt size with
      | error e => rw [hp] at h; cases h
      | ok k =>
        rw [hp] at h
        simp only [bind, Except.bind] at h
        split at h
        · cases h
        · obtain ⟨r, hr⟩ := measuredQubits_of_tooLarge rest h
          exact ⟨k.toNat + r, by simp only [measuredQubits, hp, hr, bind, Except.bind]; rfl⟩
    | int _ | flt _ | const _ _ | param _ _ | qubit _ _ _ | regA _ _ | regS _ _ _ _ _ | none | str _ =>
      unfold tooLarge at h
      obtain ⟨r, hr⟩ := measuredQubits_of_tooLarge rest h
      exact ⟨r, by simp only [measuredQubits, hr]⟩

theorem allocTables_class (n k : Nat) : Cls Good (allocTables n k) := by
  intro e h
  unfold allocTables at h
  split at h
  · cases h
  · split at h
    · cases h; exact Good.jaqal _
    · cases h

/-- everything `parse_jaqal_output_list` does after the three passes and before it looks at the outputs fails with `JaqalError`
only, on a circuit satisfying `ExecClass` (the stages of `RunModel.execute_class`, plus the qubit list and the tables) -/
theorem prepareExpanded_class (x : Circuit) (hx : ExecClass x) : Cls Good (prepareExpanded x) := by
  unfold prepareExpanded
  refine Cls.bind hx.skel (fun p hp => ?_)
  obtain ⟨body, tbl⟩ := p
  simp only []
  refine Cls.bind hx.big (fun u hu => ?_)
  cases u
  obtain ⟨n, hn⟩ := measuredQubits_of_tooLarge _ hu
  rw [hn]
  refine Cls.bind (Cls.ok _) (fun n' hn' => ?_)
  cases hd : Walk.discover body with
  | error de =>
    simp only []
    exact Cls.bind (Cls.throw (ofDiscErr_good de)) (fun _ h => by cases h)
  | ok traces =>
    simp only []
    refine Cls.bind (Cls.pure _) (fun traces' ht => ?_)
    cases ht
    refine Cls.bind hx.disj (fun _ _ => ?_)
    refine Cls.bind (allocTables_class _ _) (fun tbls _ => ?_)
    obtain ⟨v, hv⟩ := visit_ok body traces hd
    simp only [hv]
    exact Cls.pure _

/-- `process_trace` at every visit on a prepared parser and valid outputs -/
theorem finish_class {p : Prepared} (hv : ∀ v ∈ p.visits, v < p.tables.length) (hL : ∀ t ∈ p.tables, t.length = 2 ^ p.qubits)
    (outs : List HwOut) (ho : ∀ o ∈ outs.take p.visits.length, ValidOut p.qubits o) : Cls Good (finish p outs) := by
  unfold finish
  exact Cls.bind (consume_valid_take p.qubits p.visits outs 0 p.tables hv hL ho) (fun _ _ => Cls.pure _)

end Jaqal.OutputList
