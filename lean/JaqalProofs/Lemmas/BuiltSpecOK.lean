import JaqalProofs.Lemmas.BuiltWellFormedFull
import JaqalProofs.Lemmas.BuiltTyped
import JaqalProofs.Lemmas.UsedQubitsSpec
/-!
# What `parse_jaqal_string` (no pass) guarantees, as needed by `C13_exact_spec`

* `parsed_wellFormed : ParserSx (ofSx sx) → parseBuild cfg sx = .ok c → ExpandMacros.WellFormed c = true` — the circuit
  built from parser output is well formed in the sense of pass 1 BEFORE any pass runs (`filled_wellFormed` is the same
  after `fill_in_let`): gate shapes (`built_gateShape`), scopes (`built_scope`), body shape (`build_body`), and the typing
  of the values (`built_typed`: `InT` / `CntIn` give `okVal`, `goodVal`, `isIndexLike`, `isParam ∨ noParam`).
* `built_known`: the gate table at the end of `build` — every gate statement's definition is the table's entry of its
  name; every macro of the circuit is the entry of its name; every entry is a native gate, a macro of the circuit or an
  anonymous definition. Hence ONE definition per gate name, and a statement is a macro call iff it names a macro.
-/
namespace Jaqal.Builder
open Jaqal Jaqal.FillIn Jaqal.ExpandMacros

/-! ### typed values are `okVal` / `goodVal` -/

theorem RegT_isReg {v : Val} (h : RegT v = true) : ExpandMacros.isReg v = true := by
  cases v <;> simp [RegT] at h <;> rfl

theorem isIntC_intLike {v : Val} (h : isIntC v = true) : intLike v = true := by
  cases v with
  | int _ => rfl
  | const n x => cases x <;> simp [isIntC] at h; rfl
  | _ => simp [isIntC] at h

theorem RegT_regBuilt : ∀ v : Val, RegT v = true → regBuilt v = true
  | .regF _ size, h => by
    simp only [RegT] at h
    cases size <;> simp [isIntC] at h <;> rfl
  | .regA _ src, h => by
    simp only [RegT] at h
    simp [regBuilt, RegT_isReg h, RegT_regBuilt src h]
  | .regS _ src a b s, h => by
    simp only [RegT, Bool.and_eq_true] at h
    obtain ⟨⟨⟨h1, h2⟩, h3⟩, h4⟩ := h
    simp [regBuilt, RegT_isReg h1, isIntC_intLike h2, isIntC_intLike h3, isIntC_intLike h4]
  | .int _, h | .flt _, h | .const _ _, h | .param _ _, h | .qubit _ _ _, h | .none, h | .str _, h => by simp [RegT] at h

theorem isIntC_noParam {v : Val} (h : isIntC v = true) : noParam v = true := by
  cases v with
  | int _ => rfl
  | const n x => cases x <;> simp [isIntC] at h; rfl
  | _ => simp [isIntC] at h

theorem InT_okVal {v : Val} (h : InT v = true) : okVal v = true := by
  cases v with
  | int _ => rfl
  | flt _ => rfl
  | none => simp [InT, RegT] at h
  | str _ => simp [InT, RegT] at h
  | const n x => cases x <;> simp [InT, RegT] at h <;> rfl
  | param _ _ => rfl
  | qubit n s i =>
    simp only [InT, Bool.and_eq_true, Bool.or_eq_true] at h
    simp only [okVal, Bool.and_eq_true, Bool.or_eq_true]
    refine ⟨?_, ?_⟩
    · rcases h.1 with h1 | h1
      · exact Or.inr (UsedQubits.RegT_noParam s h1)
      · left; cases s <;> simp [Builder.isParam] at h1; rfl
    · rcases h.2 with h1 | h1
      · exact Or.inr (isIntC_noParam h1)
      · left; cases i <;> simp [Builder.isParam] at h1; rfl
  | regF n s => exact UsedQubits.RegT_noParam _ (by simpa [InT] using h)
  | regA n s => exact UsedQubits.RegT_noParam _ (by simpa [InT] using h)
  | regS n s a b c => exact UsedQubits.RegT_noParam _ (by simpa [InT] using h)

theorem InT_goodVal {v : Val} (h : InT v = true) : goodVal v = true := by
  cases v with
  | int _ => rfl
  | flt _ => rfl
  | none => rfl
  | str _ => rfl
  | const _ _ => rfl
  | param _ _ => rfl
  | qubit n s i =>
    simp only [InT, Bool.and_eq_true, Bool.or_eq_true] at h
    simp only [goodVal, Bool.and_eq_true, Bool.or_eq_true, Bool.not_eq_true']
    refine ⟨⟨?_, ?_⟩, ?_⟩
    · rcases h.1 with h1 | h1
      · cases s <;> simp [RegT] at h1 <;> rfl
      · cases s <;> simp [Builder.isParam] at h1; rfl
    · rcases h.1 with h1 | h1
      · exact Or.inr (RegT_regBuilt s h1)
      · left; cases s <;> simp [Builder.isParam] at h1; rfl
    · rcases h.2 with h1 | h1
      · cases i with
        | int _ => rfl
        | const _ _ => rfl
        | _ => simp [isIntC] at h1
      · cases i <;> simp [Builder.isParam] at h1; rfl
  | regF n s => simp [goodVal, RegT_regBuilt _ (by simpa [InT] using h : RegT (.regF n s) = true)]
  | regA n s => simp [goodVal, RegT_regBuilt _ (by simpa [InT] using h : RegT (.regA n s) = true)]
  | regS n s a b c => simp [goodVal, RegT_regBuilt _ (by simpa [InT] using h : RegT (.regS n s a b c) = true)]

theorem CntIn_wf {c : Val} (h : CntIn c = true) :
    (ExpandMacros.isParam c || noParam c) = true ∧ isIndexLike c = true := by
  cases c with
  | int _ => exact ⟨rfl, rfl⟩
  | param _ _ => exact ⟨rfl, rfl⟩
  | const n x => cases x <;> simp [CntIn, isIntC, Builder.isParam] at h; exact ⟨rfl, rfl⟩
  | _ => simp [CntIn, isIntC, Builder.isParam] at h

mutual
  theorem wfStmt_in (ms : List Macro) : ∀ (s : Stmt), gateWF ms s → StmtIn s → wfStmt ms s = true ∧ wfT s = true
    | .gate n gd args, hg, ho => by
      obtain ⟨h1, h2, h3, h4⟩ := hg
      constructor
      · simp only [wfStmt, wfGate, Bool.and_eq_true, beq_iff_eq, decide_eq_true_eq, List.all_eq_true]
        refine ⟨⟨⟨⟨h1, h2⟩, h3⟩, fun a ha => InT_okVal (ho a ha)⟩, ?_⟩
        cases hf : findMacro ms n with
        | none => rfl
        | some m => simpa using h4 m hf
      · simp only [wfT, List.all_eq_true]
        exact fun a ha => InT_goodVal (ho a ha)
    | .block par sub it body, hg, ho => by
      simp only [gateWF] at hg
      simp only [StmtIn] at ho
      obtain ⟨h1, h2⟩ := wfStmtList_in ms body hg ho.2
      obtain ⟨c1, c2⟩ := CntIn_wf ho.1
      exact ⟨by simp only [wfStmt, Bool.and_eq_true]; exact ⟨c1, h1⟩, by simp only [wfT, Bool.and_eq_true]; exact ⟨c2, h2⟩⟩
    | .loop c b, hg, ho => by
      simp only [gateWF] at hg
      simp only [StmtIn] at ho
      obtain ⟨h1, h2⟩ := wfStmt_in ms b hg ho.2
      obtain ⟨c1, c2⟩ := CntIn_wf ho.1
      exact ⟨by simp only [wfStmt, Bool.and_eq_true]; exact ⟨c1, h1⟩, by simp only [wfT, Bool.and_eq_true]; exact ⟨c2, h2⟩⟩
  theorem wfStmtList_in (ms : List Macro) : ∀ (l : List Stmt), gateWFL ms l → StmtsIn l →
      wfStmtList ms l = true ∧ wfTList l = true
    | [], _, _ => ⟨rfl, rfl⟩
    | s :: r, hg, ho => by
      obtain ⟨h1, h2⟩ := wfStmt_in ms s hg.1 ho.1
      obtain ⟨h3, h4⟩ := wfStmtList_in ms r hg.2 ho.2
      exact ⟨by simp only [wfStmtList, Bool.and_eq_true]; exact ⟨h1, h3⟩,
        by simp only [wfTList, Bool.and_eq_true]; exact ⟨h2, h4⟩⟩
end

/-- **A circuit built from parser output is `ExpandMacros.WellFormed`** (before any pass). -/
theorem built_wellFormed (cfg : Config) (e : BSx) (c : Circuit) (hp : ParserSx e) (hb : build cfg e = .ok c) :
    ExpandMacros.WellFormed c = true := by
  have ht := built_typed cfg e c hp hb
  obtain ⟨hgb, hgm⟩ := built_gateShape _ _ _ hb
  have hsc := built_scope _ _ _ hb
  obtain ⟨bs, hbs⟩ := RunModel.build_body hb
  obtain ⟨hw1, hw2⟩ := wfStmt_in c.macros c.body hgb ht.body
  have hwm : ∀ m ∈ c.macros, wfStmt c.macros m.body = true ∧ wfT m.body = true :=
    fun m hm => wfStmt_in c.macros m.body (hgm m hm) (ht.macros m hm)
  have hfrom := wfMacrosFrom_of c.macros (fun m hm => (hwm m hm).1) hgm hsc [] c.macros rfl
  simp only [ExpandMacros.WellFormed, Bool.and_eq_true, List.all_eq_true]
  refine ⟨⟨⟨⟨by simpa using hfrom, hw1⟩, by rw [hbs]⟩, hw2⟩, fun m hm => (hwm m hm).2⟩

theorem parseBuild_build {cfg : Config} {sx : Sx} {c : Circuit} (h : parseBuild cfg sx = .ok c) :
    build cfg (BSx.ofSx sx) = .ok c := by
  unfold parseBuild at h
  obtain ⟨c0, hb, h⟩ := bind_ok h
  unfold tooManyRegisters at h
  split at h
  · cases h
  · cases h; exact hb

theorem parsed_wellFormed (cfg : Config) (sx : Sx) (c : Circuit) (hp : ParserSx (BSx.ofSx sx))
    (h : parseBuild cfg sx = .ok c) : ExpandMacros.WellFormed c = true :=
  built_wellFormed cfg _ c hp (parseBuild_build h)

/-! ### the gate table at the end of `build` -/

/-- the gate table `g` at the end of `build`, against the circuit it returned -/
structure KnownTable (cfg : Config) (c : Circuit) (g : GCtx) : Prop where
  body : StmtKnown g c.body
  macros : ∀ m ∈ c.macros, StmtKnown g m.body
  bound : ∀ m ∈ c.macros, g.lookup m.name = some (.macro m)
  shape : ∀ n e, g.lookup n = some e → (∃ gd, e = .gdef gd ∧ gd ∈ c.natives) ∨ (∃ m ∈ c.macros, e = .macro m) ∨
    (cfg.anonymousAllowed = true ∧ ∃ k, e = .gdef (anonDef n k))

theorem built_known (cfg : Config) (e : BSx) (c : Circuit) (hb : build cfg e = .ok c) : ∃ g, KnownTable cfg c g := by
  unfold build buildWith at hb
  obtain ⟨inject, hinj, h1⟩ := bind_ok hb
  unfold buildCore at h1
  split at h1
  · rename_i children
    obtain ⟨acc, hloop, h3⟩ := bind_ok h1
    simp only [pure, Except.pure] at h3
    cases h3
    have hnat : NatOK (inject.getD []) := by
      unfold Config.inject at hinj
      cases hn : cfg.natives with
      | none => simp [hn, pure, Except.pure] at hinj; subst hinj; exact ⟨fun p hp => (by cases hp), by simp⟩
      | some gs =>
        simp only [hn] at hinj
        obtain ⟨d, hd, h4⟩ := bind_ok hinj
        simp only [pure, Except.pure] at h4
        cases h4
        exact normNatives_natOK hd
    obtain ⟨hG, hS⟩ : GInv cfg acc ∧ SInv acc := by
      refine circuitLoop_shape (by decide) children _ acc ?_ ?_ hloop
      · refine ⟨HInv.toBInv ?_, fun _ _ => ?_⟩ <;> exact ⟨rfl, rfl, rfl, rfl, hnat⟩
      · exact ⟨fun k s hk => (by cases hk), fun s hs => (by cases hs), fun m hm => (by cases hm), fun m hm => (by cases hm)⟩
    refine ⟨acc.st.gctx, ?_, hG.b.macros, hS.bound, ?_⟩
    · intro gd hgd
      simp only [Acc.toCircuit, gateDefsOf] at hgd
      obtain ⟨s, hs, hg⟩ := mem_gateDefsOfList.1 hgd
      exact hG.b.stmts s hs gd hg
    · intro n e hl
      rcases hG.b.shape n e hl with ⟨g, rfl, hm⟩ | h | h
      · exact Or.inl ⟨g, rfl, List.mem_map.2 ⟨_, hm, rfl⟩⟩
      · exact Or.inr (Or.inl h)
      · exact Or.inr (Or.inr h)
  · obtain ⟨_, _, h2⟩ := bind_ok h1
    simp [throw_eq] at h2

/-- one definition per name -/
theorem KnownTable.functional {g : GCtx} {gd gd' : GateDef} (h1 : GKnown g gd) (h2 : GKnown g gd')
    (hn : gd.name = gd'.name) : gd = gd' := by
  obtain ⟨e, he, hd⟩ := h1
  obtain ⟨e', he', hd'⟩ := h2
  rw [hn, he'] at he
  cases he
  rw [← hd, ← hd']

/-- a known definition is a macro's iff its name is a macro's (native gate definitions not being tagged as macros) -/
theorem KnownTable.tag {cfg : Config} {c : Circuit} {g : GCtx} (hk : KnownTable cfg c g)
    (hnat : ∀ gd ∈ c.natives, gd.tag ≠ .macro) {gd : GateDef} (h : GKnown g gd) :
    gd.tag = .macro ↔ (c.macros.find? (fun m => m.name == gd.name)).isSome = true := by
  obtain ⟨e, he, hd⟩ := h
  constructor
  · intro ht
    rcases hk.shape _ e he with ⟨g0, rfl, hm⟩ | ⟨m, hm, rfl⟩ | ⟨_, k, rfl⟩
    · simp only [GEntry.toDef] at hd; subst hd; exact absurd ht (hnat _ hm)
    · rw [List.find?_isSome]
      refine ⟨m, hm, ?_⟩
      rw [← hd]; simp [GEntry.toDef]
    · simp only [GEntry.toDef] at hd; rw [← hd] at ht; simp [anonDef] at ht
  · intro hs
    rw [List.find?_isSome] at hs
    obtain ⟨m, hm, hmn⟩ := hs
    have hmn' : m.name = gd.name := by simpa using hmn
    have hb := hk.bound m hm
    rw [hmn', he] at hb
    cases hb
    rw [← hd]; rfl

end Jaqal.Builder
#print axioms Jaqal.Builder.parsed_wellFormed
#print axioms Jaqal.Builder.built_known
