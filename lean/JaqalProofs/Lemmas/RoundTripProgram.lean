import JaqalProofs.Lemmas.RoundTripRebuild
/-!
# C01, builder layer, top level: header statements, macros, and whole programs in the generator's order
-/
set_option linter.unusedSimpArgs false
set_option linter.unusedVariables false
namespace Jaqal.RoundTrip
open Jaqal Jaqal.Lexer Jaqal.Grammar Jaqal.Builder Jaqal.Pipeline Jaqal.Generator Jaqal.PyEq

/-! ## `rebuild_macro_in_context` changes nothing in a body whose definitions are the table's -/

mutual
theorem rebuildStmt_id (g : GCtx) (hk : GKeys g) : ∀ (s : Stmt), StmtKnown g s → gNamed s = true →
    rebuildStmt g s = .ok (false, s)
  | .gate name gd args, hs, hn => by
    simp only [gNamed, beq_iff_eq] at hn
    subst hn
    obtain ⟨e, he, hd⟩ := hs gd (by simp [gateDefsOf])
    simp only [rebuildStmt, he]
    cases e with
    | gdef g0 => rfl
    | «macro» m =>
      simp only [GEntry.toDef] at hd
      subst hd
      simp
      rfl
  | .block par sub it body, hs, hn => by
    simp only [gNamed] at hn
    have hb : ∀ s ∈ body, StmtKnown g s := by
      intro s hsm gd hgd
      exact hs gd (by simp only [gateDefsOf]; exact mem_gateDefsOfList.2 ⟨s, hsm, hgd⟩)
    simp only [rebuildStmt, rebuildList_id g hk body hb hn, bind, Except.bind]
    rfl
  | .loop c b, hs, hn => by
    simp only [gNamed] at hn
    have hb : StmtKnown g b := fun gd hgd => hs gd (by simpa [gateDefsOf] using hgd)
    simp only [rebuildStmt, rebuildStmt_id g hk b hb hn, bind, Except.bind]
    rfl
theorem rebuildList_id (g : GCtx) (hk : GKeys g) : ∀ (l : List Stmt), (∀ s ∈ l, StmtKnown g s) → gNamedL l = true →
    rebuildList g l = .ok (false, l)
  | [], _, _ => rfl
  | s :: ss, hs, hn => by
    simp only [gNamedL, Bool.and_eq_true] at hn
    simp only [rebuildList, rebuildStmt_id g hk s (hs s (by simp)) hn.1,
      rebuildList_id g hk ss (fun y hy => hs y (by simp [hy])) hn.2, bind, Except.bind]
    rfl
end

theorem rebuildMacro_id {g : GCtx} (hk : GKeys g) {m : Macro} (hs : StmtKnown g m.body) (hn : gNamed m.body = true) :
    rebuildMacro g m = .ok m := by
  simp only [rebuildMacro, rebuildStmt_id g hk m.body hs hn, bind, Except.bind]
  rfl

/-! ## header statements -/

/-- an index / bound / size: an int, or a let / parameter that the context binds under its own name -/
def Bound (ctx : Ctx) (x : Val) : Prop :=
  (∃ i, x = .int i) ∨ (∃ m, ctx.get m = some x ∧ x.name? = some m ∧ isAV x = true ∧ wfVal x = true)

theorem Bound.okRef {ctx : Ctx} {x : Val} (h : Bound ctx x) : okRef x = true := by
  rcases h with ⟨i, rfl⟩ | ⟨m, _, _, hav, _⟩
  · rfl
  · cases x <;> simp [isAV] at hav <;> rfl

theorem Bound.wf {ctx : Ctx} {x : Val} (h : Bound ctx x) : wfVal x = true := by
  rcases h with ⟨i, rfl⟩ | ⟨m, _, _, _, hw⟩
  · rfl
  · exact hw

theorem Bound.rebuild {ctx : Ctx} {x : Val} (h : Bound ctx x) (f2 : Nat) :
    buildVal ctx f2 (BSx.ofSx (refSx x)) = .ok x ∧ asIntegerV x = x ∧ (asIntegerV x == Val.none) = false := by
  rcases h with ⟨i, rfl⟩ | ⟨m, hg, hn, hav, _⟩
  · exact ⟨buildVal_int _ _ _, rfl, rfl⟩
  · cases x <;> simp [isAV] at hav <;> simp [Val.name?] at hn <;> subst hn
    · exact ⟨by simp only [refSx, BSx.ofSx, buildVal_str]; exact lookupId_of hg, rfl, rfl⟩
    · exact ⟨by simp only [refSx, BSx.ofSx, buildVal_str]; exact lookupId_of hg, rfl, rfl⟩

theorem bound_of_ref {ctx : Ctx} (hc : CtxN ctx) {f : Nat} {e : BSx} (he : isIntOrId e = true) {x : Val}
    (h : buildVal ctx f e = .ok x) (hx : (isIntLit x || isAV x) = true) : Bound ctx x := by
  rcases ref_inv hc he h with ⟨i, _, rfl⟩ | ⟨n, _, hg, hn, _, hw⟩
  · exact Or.inl ⟨i, rfl⟩
  · refine Or.inr ⟨n, hg, hn, ?_, hw⟩
    cases x <;> simp [isIntLit, isAV] at hx ⊢
    simp [Val.name?] at hn

/-- the size a defaulted slice stop reads (`src.size`), when it can be a bound, is one the context knows -/
def SizeOK (ctx : Ctx) (v : Val) : Prop :=
  ∀ sz, regSize v = .ok sz → (isIntLit sz || isAV sz) = true → Bound ctx sz

def CtxSized (ctx : Ctx) : Prop := ∀ n v, ctx.get n = some v → SizeOK ctx v

theorem regSize_ok {v sz : Val} (h : regSize v = .ok sz) : Resolve.resolveSize [] v = .ok sz := by
  unfold regSize at h
  split at h
  · cases h
  · exact h

theorem regSize_of {v sz : Val} (h : Resolve.resolveSize [] v = .ok sz) : regSize v = .ok sz := by
  unfold regSize
  rw [h]

/-- the written form of a header value, and whether it has one -/
def valSx : Val → Sx
  | .const n x => letSx (.const n x)
  | .regF n s => regSx (.regF n s)
  | v => mapSx v

def okVal : Val → Bool
  | .const n x => okLet (.const n x)
  | .regF n s => okRegister (.regF n s)
  | v => okMap v

/-- the section of the generated text a header value belongs to: lets 1, the register 2, aliases 3 -/
def valRank : Val → Nat
  | .const _ _ => 1
  | .regF _ _ => 2
  | _ => 3

structure HdrPost (ctx : Ctx) (v : Val) (k : Nat) : Prop where
  rk : valRank v = k
  named : ∃ n, v.name? = some n
  kind : topKind v = true ∧ isParam v = false
  ok : okVal v = true
  sized : SizeOK ctx v
  rebuild : ∀ f2, buildVal ctx (f2 + 1) (BSx.ofSx (valSx v)) = .ok v
  wf : wfVal v = true

theorem buildVal_list (ctx : Ctx) (f : Nat) (l : List BSx) :
    buildVal ctx (f + 1) (.list l) = valStep ctx.get (buildVal ctx f) l := rfl

theorem sizeOK_trivial {ctx : Ctx} {v : Val} (h : ∀ sz, Resolve.resolveSize [] v ≠ .ok sz) : SizeOK ctx v :=
  fun sz hsz _ => absurd (regSize_ok hsz) (h sz)

theorem hdr_let_int (ctx : Ctx) {f : Nat} {n : String} {i : Int} {v : Val}
    (h : buildVal ctx (f + 1) (.list [.str "let", .str n, .int i]) = .ok v) : HdrPost ctx v 1 := by
  rw [buildVal_list] at h
  simp [valStep, strOf, mkConstant, pure, Except.pure, bind, Except.bind] at h
  subst h
  refine ⟨rfl, ⟨n, rfl⟩, ⟨rfl, rfl⟩, rfl, sizeOK_trivial (by intro sz h; simp [Resolve.resolveSize] at h), ?_, rfl⟩
  intro f2
  simp [valSx, letSx, BSx.ofSx, BSx.ofSxList, buildVal_list, valStep, strOf, mkConstant, pure, Except.pure, bind, Except.bind]

theorem hdr_let_flt (ctx : Ctx) {f : Nat} {n : String} {d : Dec} {v : Val}
    (h : buildVal ctx (f + 1) (.list [.str "let", .str n, .flt d]) = .ok v) : HdrPost ctx v 1 := by
  rw [buildVal_list] at h
  simp [valStep, strOf, mkConstant, pure, Except.pure, bind, Except.bind] at h
  subst h
  by_cases hi : d.isIntegral = true
  · have : asIntegerV (.flt d) = .int d.toInt := by simp [asIntegerV, Num.asInteger, Val.ofNum, hi]
    rw [this]
    refine ⟨rfl, ⟨n, rfl⟩, ⟨rfl, rfl⟩, rfl, sizeOK_trivial (by intro sz h; simp [Resolve.resolveSize] at h), ?_, rfl⟩
    intro f2
    simp [valSx, letSx, BSx.ofSx, BSx.ofSxList, buildVal_list, valStep, strOf, mkConstant, pure, Except.pure, bind, Except.bind]
  · have : asIntegerV (.flt d) = .flt d := by simp [asIntegerV, Num.asInteger, Val.ofNum, hi]
    rw [this]
    refine ⟨rfl, ⟨n, rfl⟩, ⟨rfl, rfl⟩, rfl, sizeOK_trivial (by intro sz h; simp [Resolve.resolveSize] at h), ?_, rfl⟩
    intro f2
    simp [valSx, letSx, BSx.ofSx, BSx.ofSxList, buildVal_list, valStep, strOf, mkConstant, pure, Except.pure, bind, Except.bind, this]

theorem hdr_register {ctx : Ctx} (hc : CtxN ctx) {f : Nat} {n : String} {size : BSx} (hs : isIntOrId size = true)
    {v : Val} (h : buildVal ctx (f + 1) (.list [.str "register", .str n, size]) = .ok v) : HdrPost ctx v 2 := by
  have horig := h
  rw [buildVal_list] at h
  simp [valStep, strOf] at h
  obtain ⟨sz, hsz, h1⟩ := bind_ok h
  rw [ref_asInteger hc hs hsz] at h1
  have hv : v = .regF n sz ∧ (isIntLit sz || isAV sz) = true ∧ okRegister (.regF n sz) = true := by
    rcases ref_inv hc hs hsz with ⟨i, _, rfl⟩ | ⟨m, _, _, _, hk, _⟩
    · simp only [mkRegister] at h1
      split at h1
      · simp [throw_eq] at h1
      · simp only [pure, Except.pure, Except.ok.injEq] at h1
        exact ⟨h1.symm, rfl, by simp [okRegister]; omega⟩
    · cases sz <;> simp [topKind] at hk
      case const cn cv =>
        simp only [mkRegister, isAV, Bool.not_true, Bool.false_eq_true, if_false] at h1
        split at h1
        · simp [throw_eq] at h1
        · simp only [pure, Except.pure, Except.ok.injEq] at h1
          exact ⟨h1.symm, rfl, rfl⟩
      case param pn pk =>
        simp only [mkRegister, isAV, Bool.not_true, Bool.false_eq_true, if_false] at h1
        split at h1
        · simp [throw_eq] at h1
        · simp only [pure, Except.pure, Except.ok.injEq] at h1
          exact ⟨h1.symm, rfl, rfl⟩
      all_goals simp [mkRegister, isAV, throw_eq] at h1
  obtain ⟨rfl, hlit, hokr⟩ := hv
  have hb : Bound ctx sz := bound_of_ref hc hs hsz hlit
  refine ⟨rfl, ⟨n, rfl⟩, ⟨rfl, rfl⟩, hokr, ?_, ?_, by simpa [wfVal] using hb.wf⟩
  · intro sz' hsz' _
    have := regSize_ok hsz'
    simp only [Resolve.resolveSize, pure, Except.pure, Except.ok.injEq] at this
    subst this
    exact hb
  · intro f2
    have hsx : BSx.ofSx (valSx (.regF n sz)) = .list [.str "register", .str n, size] := by
      simp only [valSx, regSx, BSx.ofSx, BSx.ofSxList, ref_sx hc hs hsz hb.okRef]
    rw [hsx, ← horig]
    exact buildVal_fuel ctx _ _ _ (by cases size <;> simp [isIntOrId] at hs <;> simp [BSx.depth, BSx.depthList])
      (by cases size <;> simp [isIntOrId] at hs <;> simp [BSx.depth, BSx.depthList])

theorem mapSource_inv {ctx : Ctx} {s : String} {src : Val} (h : mapSource ctx.get (.str s) = .ok src) :
    ctx.get s = some src ∧ (isRegister src = true ∨ isParam src = true) := by
  simp only [mapSource] at h
  cases hg : ctx.get s with
  | none => simp [hg, throw_eq] at h
  | some v =>
    simp only [hg] at h
    split at h
    · rename_i hr
      simp only [pure, Except.pure, Except.ok.injEq] at h
      subst h
      exact ⟨rfl, by simpa using hr⟩
    · simp [throw_eq] at h

theorem mapSource_of {ctx : Ctx} {s : String} {src : Val} (hg : ctx.get s = some src)
    (hr : isRegister src = true ∨ isParam src = true) : mapSource ctx.get (.str s) = .ok src := by
  simp only [mapSource, hg]
  have : (isRegister src || isParam src) = true := by simpa using hr
  simp [this, pure, Except.pure]

theorem sizeOK_regA {ctx : Ctx} (hs : CtxSized ctx) {s n : String} {src : Val} (hg : ctx.get s = some src) :
    SizeOK ctx (.regA n src) := by
  intro sz hsz hlit
  have h := regSize_ok hsz
  cases src <;> simp [Resolve.resolveSize, Resolve.Ctx.find] at h <;>
    exact hs s _ hg sz (regSize_of h) hlit

theorem sizeOK_regS (ctx : Ctx) (n : String) (src a b c : Val) : SizeOK ctx (.regS n src a b c) := by
  intro sz hsz _
  have h := regSize_ok hsz
  have key : ∀ (m : M Val), (∀ x, m = .ok x → ∃ i, x = .int i) → m = .ok sz → Bound ctx sz :=
    fun m hm h => Or.inl (hm sz h)
  have hdo : ∀ x, (do
      let a' ← Resolve.resolveInt [] (Resolve.startOr0 a)
      let s' ← Resolve.resolveInt [] (Resolve.stepOr1 c)
      let b' ← Resolve.resolveInt [] b
      if s' = 0 then (.error (.jaqal "zero-step") : M Val) else
      pure (.int (← Resolve.rangeLen a' b' s'))) = .ok x → ∃ i, x = .int i := by
    intro x hx
    obtain ⟨a', _, h1⟩ := bind_ok hx
    obtain ⟨s', _, h2⟩ := bind_ok h1
    obtain ⟨b', _, h3⟩ := bind_ok h2
    split at h3
    · cases h3
    · obtain ⟨len, _, h4⟩ := bind_ok h3
      simp only [pure, Except.pure, Except.ok.injEq] at h4
      exact ⟨len, h4.symm⟩
  cases src <;> simp only [Resolve.resolveSize] at h <;>
    first
      | exact key _ hdo h
      | (simp [Resolve.Ctx.find] at h)

theorem sliceCheck_ok_lits {src a b c : Val} (h : sliceCheck src a b c = .ok ()) :
    (isIntLit a || isAV a) = true ∧ (isIntLit b || isAV b) = true ∧ (isIntLit c || isAV c) = true ∧ c ≠ .int 0 := by
  unfold sliceCheck at h
  by_cases h1 : ((isIntLit a || isAV a) && (isIntLit b || isAV b) && (isIntLit c || isAV c)) = true
  · simp only [Bool.and_eq_true] at h1
    refine ⟨h1.1.1, h1.1.2, h1.2, ?_⟩
    rintro rfl
    generalize ((isIntLit a || isAV a) && (isIntLit b || isAV b) && (isIntLit (Val.int 0) || isAV (Val.int 0))) = X at h
    cases X <;> cases h
  · have h1' : ((isIntLit a || isAV a) && (isIntLit b || isAV b) && (isIntLit c || isAV c)) = false := by
      simpa using h1
    rw [h1'] at h
    cases h

theorem writesStep_of_ne {c : Val} (h : c ≠ .int 0) : writesStep c = true := by
  cases c <;> simp [writesStep]
  rename_i k
  intro hk; exact h (by rw [hk])

theorem hdr_map_whole {ctx : Ctx} (hc : CtxN ctx) (hs : CtxSized ctx) {f : Nat} {n s : String} {v : Val}
    (h : buildVal ctx (f + 1) (.list [.str "map", .str n, .str s]) = .ok v) : HdrPost ctx v 3 := by
  have horig := h
  rw [buildVal_list, map_reduce] at h
  obtain ⟨src, hsrc, h1⟩ := bind_ok h
  simp only [strOf, pure, Except.pure, bind, Except.bind, Except.ok.injEq] at h1
  subst h1
  obtain ⟨hg, hr⟩ := mapSource_inv hsrc
  obtain ⟨hn, _, hwsrc⟩ := hc s src hg
  refine ⟨rfl, ⟨n, rfl⟩, ⟨rfl, rfl⟩, by simp [okVal, okMap, hn], sizeOK_regA hs hg, ?_, by simpa [wfVal] using hwsrc⟩
  intro f2
  have hsx : BSx.ofSx (valSx (.regA n src)) = .list [.str "map", .str n, .str s] := by
    simp only [valSx, mapSx, BSx.ofSx, BSx.ofSxList, nameOf_eq hn]
  rw [hsx, ← horig]
  exact buildVal_fuel ctx _ _ _ (by simp [BSx.depth, BSx.depthList]) (by simp [BSx.depth, BSx.depthList])

theorem hdr_map_idx {ctx : Ctx} (hc : CtxN ctx) {f : Nat} {n s : String} {idx : BSx} (hi : isIntOrId idx = true)
    {v : Val} (h : buildVal ctx (f + 1) (.list [.str "map", .str n, .str s, idx]) = .ok v) : HdrPost ctx v 3 := by
  have horig := h
  rw [buildVal_list, map_reduce] at h
  obtain ⟨src, hsrc, h1⟩ := bind_ok h
  simp only [strOf, pure_bind] at h1
  obtain ⟨iv, hiv, h2⟩ := bind_ok h1
  rw [ref_asInteger hc hi hiv] at h2
  unfold mkQubit at h2
  obtain ⟨_, hq, h3⟩ := bind_ok h2
  simp only [pure, Except.pure, Except.ok.injEq] at h3
  subst h3
  obtain ⟨hg, hr⟩ := mapSource_inv hsrc
  obtain ⟨hn, _, hwsrc⟩ := hc s src hg
  have hlit : (isIntLit iv || isAV iv) = true := by
    rcases ref_inv hc hi hiv with ⟨i, _, rfl⟩ | ⟨m, _, _, _, hk, _⟩
    · rfl
    · rcases qubitCheck_ok_numOrAV hq with h | h
      · cases iv <;> simp [topKind] at hk <;> simp [Val.isNum] at h
      · simp [h]
  have hb := bound_of_ref hc hi hiv hlit
  refine ⟨rfl, ⟨n, rfl⟩, ⟨rfl, rfl⟩, by simp [okVal, okMap, hn, hb.okRef],
    sizeOK_trivial (by intro sz h; simp [Resolve.resolveSize] at h), ?_, by simp [wfVal, hn, hwsrc, hb.wf]⟩
  intro f2
  have hsx : BSx.ofSx (valSx (.qubit n src iv)) = .list [.str "map", .str n, .str s, idx] := by
    simp only [valSx, mapSx, BSx.ofSx, BSx.ofSxList, nameOf_eq hn, ref_sx hc hi hiv hb.okRef]
  rw [hsx, ← horig]
  exact buildVal_fuel ctx _ _ _ (by cases idx <;> simp [isIntOrId] at hi <;> simp [BSx.depth, BSx.depthList])
    (by cases idx <;> simp [isIntOrId] at hi <;> simp [BSx.depth, BSx.depthList])

/-- a slice bound that may be left out: what it is built to, with its default -/
theorem bound_default {ctx : Ctx} (hc : CtxN ctx) {f : Nat} {a : BSx} (ha : isBound a = true) {x0 : Val} (d : Int)
    (h : buildVal ctx f a = .ok x0)
    (hlit : (isIntLit (if asIntegerV x0 == Val.none then Val.int d else asIntegerV x0) ||
      isAV (if asIntegerV x0 == Val.none then Val.int d else asIntegerV x0)) = true) :
    Bound ctx (if asIntegerV x0 == Val.none then Val.int d else asIntegerV x0) := by
  cases a with
  | none =>
    rw [buildVal_none] at h
    cases h
    exact Or.inl ⟨d, rfl⟩
  | int i =>
    rw [buildVal_int] at h
    cases h
    exact Or.inl ⟨i, rfl⟩
  | str m =>
    have he : isIntOrId (.str m) = true := rfl
    have hx := ref_asInteger hc he h
    rcases ref_inv hc he h with ⟨i, h0, _⟩ | ⟨m', _, hg, hn, hk, _⟩
    · cases h0
    · have hne : (x0 == Val.none) = false := by cases x0 <;> simp [topKind] at hk <;> rfl
      rw [hx, hne] at hlit ⊢
      exact bound_of_ref hc he h hlit
  | _ => simp [isBound, isIntOrId] at ha

theorem hdr_map_slice {ctx : Ctx} (hc : CtxN ctx) (hs : CtxSized ctx) {f : Nat} {n s : String} {a b c : BSx}
    (ha : isBound a = true) (hb : isBound b = true) (hcb : isBound c = true) {v : Val}
    (h : buildVal ctx (f + 1) (.list [.str "map", .str n, .str s, a, b, c]) = .ok v) : HdrPost ctx v 3 := by
  rw [buildVal_list, map_reduce] at h
  obtain ⟨src, hsrc, h1⟩ := bind_ok h
  simp only [strOf, pure_bind] at h1
  obtain ⟨x0, hx0, h2⟩ := bind_ok h1
  obtain ⟨y0, hy0, h3⟩ := bind_ok h2
  obtain ⟨stop, hstop, h4⟩ := bind_ok h3
  obtain ⟨z0, hz0, h5⟩ := bind_ok h4
  unfold mkSlice at h5
  obtain ⟨_, hchk, h6⟩ := bind_ok h5
  simp only [pure, Except.pure, Except.ok.injEq] at h6
  subst h6
  obtain ⟨hg, hr⟩ := mapSource_inv hsrc
  obtain ⟨hn, _, hwsrc⟩ := hc s src hg
  obtain ⟨hl1, hl2, hl3, hne⟩ := sliceCheck_ok_lits hchk
  have hB1 := bound_default hc ha 0 hx0 hl1
  have hB3 := bound_default hc hcb 1 hz0 hl3
  have hB2 : Bound ctx stop := by
    unfold defaultStop at hstop
    cases b with
    | none =>
      rw [buildVal_none] at hy0
      cases hy0
      simp only [asIntegerV, beq_self_eq_true, if_true] at hstop
      cases src <;> first
        | (simp [throw_eq] at hstop; done)
        | exact hs s _ hg stop hstop hl2
    | int i =>
      rw [buildVal_int] at hy0
      cases hy0
      simp only [asIntegerV] at hstop
      cases hstop
      exact Or.inl ⟨i, rfl⟩
    | str m =>
      have he : isIntOrId (.str m) = true := rfl
      have hx := ref_asInteger hc he hy0
      rcases ref_inv hc he hy0 with ⟨i, h0, _⟩ | ⟨m', _, _, _, hk, _⟩
      · cases h0
      · have hne' : (y0 == Val.none) = false := by cases y0 <;> simp [topKind] at hk <;> rfl
        rw [hx, hne'] at hstop
        simp only [Bool.false_eq_true, if_false, pure, Except.pure, Except.ok.injEq] at hstop
        subst hstop
        exact bound_of_ref hc he hy0 hl2
    | _ => simp [isBound, isIntOrId] at hb
  generalize hst : (if asIntegerV x0 == Val.none then Val.int 0 else asIntegerV x0) = start at *
  generalize hsp : (if asIntegerV z0 == Val.none then Val.int 1 else asIntegerV z0) = step at *
  refine ⟨rfl, ⟨n, rfl⟩, ⟨rfl, rfl⟩, by simp [okVal, okMap, hn, hB1.okRef, hB2.okRef, hB3.okRef], sizeOK_regS _ _ _ _ _ _, ?_,
    by simp [wfVal, hwsrc, hB1.wf, hB2.wf, hB3.wf]⟩
  intro f2
  obtain ⟨r1, a1, n1⟩ := hB1.rebuild f2
  obtain ⟨r2, a2, n2⟩ := hB2.rebuild f2
  obtain ⟨r3, a3, n3⟩ := hB3.rebuild f2
  rw [a1] at n1
  rw [a3] at n3
  simp only [valSx, mapSx, stepSx, writesStep_of_ne hne, if_true, BSx.ofSx, BSx.ofSxList, nameOf_eq hn]
  rw [buildVal_list, map_reduce, mapSource_of hg hr]
  simp only [strOf, pure_bind, bind, Except.bind, r1, r2, r3, n1, n3, a1, a2, a3, Bool.false_eq_true, if_false]
  have hds : defaultStop src stop = .ok stop := by
    unfold defaultStop
    rw [a2] at n2
    simp [n2, pure, Except.pure]
  simp only [hds, mkSlice, hchk, bind, Except.bind, pure, Except.pure]

/-! ## the loop of `build_circuit`, one child at a time -/

/-- what is known of the accumulator after any number of children -/
structure TopInv (acc : Acc) : Prop where
  ctxN : CtxN acc.ctx
  sized : CtxSized acc.ctx
  k : KInv acc.st
  okConsts : ∀ v ∈ acc.constants, okLet v = true
  okRegs : ∀ v ∈ acc.registers, (if isFund v then okRegister v else okMap v) = true
  okMacros : ∀ m ∈ acc.macros, okMacro m = true
  okStmts : ∀ s ∈ acc.stmts, okTop s = true
  wfConsts : ∀ v ∈ acc.constants, wfVal v = true
  wfRegs : ∀ v ∈ acc.registers, wfVal v = true
  wfMacros : ∀ m ∈ acc.macros, wfStmt m.body = true ∧ nsk m.body = true
  wfStmts : ∀ s ∈ acc.stmts, wfStmt s = true ∧ nsk s = true

/-- the children of the tree the generator writes for the circuit accumulated so far -/
def W (acc : Acc) : List Sx :=
  acc.usepulses.map (fun n => usepulsesSx (n, "*")) ++ acc.constants.map letSx ++
    (acc.registers.filter isFund).map regSx ++ (acc.registers.filter (fun r => !isFund r)).map mapSx ++
    acc.macros.map macroSx ++ acc.stmts.map stmtSx

theorem unbuild_toCircuit (acc : Acc) : unbuild acc.toCircuit = .list (.str "circuit" :: W acc) := by
  simp [unbuild, Acc.toCircuit, W, List.map_map, Stmt.stmts, Function.comp_def]

/-- the generator's order: usepulses, lets, the register, aliases, macros, statements -/
def rank : BSx → Nat
  | .list (.str cmd :: _) =>
    if cmd = "usepulses" then 0 else if cmd = "let" then 1 else if cmd = "register" then 2
    else if cmd = "map" then 3 else if cmd = "macro" then 4 else 5
  | _ => 5

/-- nothing of a later section has been accumulated yet -/
structure RankInv (acc : Acc) (r : Nat) : Prop where
  cs : r < 1 → acc.constants = []
  rs : r < 2 → acc.registers = []
  ms : r < 3 → acc.registers.filter (fun v => !isFund v) = []
  macs : r < 4 → acc.macros = []
  ss : r < 5 → acc.stmts = []

theorem ctxN_cons {ctx : Ctx} (hc : CtxN ctx) {n : String} {v : Val} (hn : v.name? = some n) (hk : topKind v = true)
    (hw : wfVal v = true) :
    CtxN { ctx with vars := (n, v) :: ctx.vars } := by
  intro m w h
  simp only [Ctx.get, List.lookup] at h
  by_cases hm : (m == n) = true
  · simp only [hm, Option.some.injEq] at h
    subst h
    have : m = n := by simpa using hm
    subst this
    exact ⟨hn, hk, hw⟩
  · simp only [hm] at h
    exact hc m w h

theorem get_cons_of_some {ctx : Ctx} {n m : String} {v w : Val} (hfresh : ctx.get n = none) (h : ctx.get m = some w) :
    Ctx.get { ctx with vars := (n, v) :: ctx.vars } m = some w := by
  simp only [Ctx.get, List.lookup]
  by_cases hm : (m == n) = true
  · have : m = n := by simpa using hm
    subst this
    rw [hfresh] at h; cases h
  · simp only [hm]; exact h

theorem bound_mono {ctx : Ctx} {n : String} {v x : Val} (hfresh : ctx.get n = none) (h : Bound ctx x) :
    Bound { ctx with vars := (n, v) :: ctx.vars } x := by
  rcases h with h | ⟨m, hg, hn, hav, hw⟩
  · exact Or.inl h
  · exact Or.inr ⟨m, get_cons_of_some hfresh hg, hn, hav, hw⟩

theorem ctxSized_cons {ctx : Ctx} (hs : CtxSized ctx) {n : String} {v : Val} (hfresh : ctx.get n = none)
    (hv : SizeOK ctx v) : CtxSized { ctx with vars := (n, v) :: ctx.vars } := by
  intro m w h sz hsz hlit
  simp only [Ctx.get, List.lookup] at h
  by_cases hm : (m == n) = true
  · simp only [hm, Option.some.injEq] at h
    subst h
    exact bound_mono hfresh (hv sz hsz hlit)
  · simp only [hm] at h
    exact bound_mono hfresh (hs m w h sz hsz hlit)

theorem addVar_inv {ctx ctx' : Ctx} {n : String} {v : Val} (h : addVar ctx n v = .ok ctx') :
    ctx.get n = none ∧ ctx' = { ctx with vars := (n, v) :: ctx.vars } := by
  unfold addVar at h
  split at h
  · simp [throw_eq] at h
  · rename_i hs
    simp only [pure, Except.pure, Except.ok.injEq] at h
    refine ⟨?_, h.symm⟩
    cases hg : ctx.get n with
    | none => rfl
    | some w => simp [hg] at hs

theorem circuitStep_val {cfg : Config} {inject : Option (List (String × GateDef))} {acc acc1 : Acc} {F : Nat}
    {cmd : String} {args : List BSx} (hcmd : cmd = "register" ∨ cmd = "map" ∨ cmd = "let")
    (h : circuitStep cfg .off inject F acc (.list (.str cmd :: args)) = .ok acc1) :
    ∃ f v, F = f + 1 ∧ buildVal acc.ctx (f + 1) (.list (.str cmd :: args)) = .ok v ∧
      stepTail cfg .off inject acc (.val v) acc.st = .ok acc1 := by
  unfold circuitStep at h
  obtain ⟨⟨o, st⟩, hb, ht⟩ := bind_ok h
  cases F with
  | zero => simp [buildAny, throw_eq] at hb
  | succ f =>
    rw [buildAny_list, anyStep_value _ _ _ _ _ _ _ _ hcmd] at hb
    obtain ⟨v, hv, h1⟩ := bind_ok hb
    simp only [pure, Except.pure, Except.ok.injEq, Prod.mk.injEq] at h1
    obtain ⟨rfl, rfl⟩ := h1
    exact ⟨f, v, rfl, hv, ht⟩

theorem circuitStep_val_of {cfg : Config} {inject : Option (List (String × GateDef))} {acc acc1 : Acc} {f : Nat}
    {cmd : String} {args : List BSx} (hcmd : cmd = "register" ∨ cmd = "map" ∨ cmd = "let") {v : Val}
    (hv : buildVal acc.ctx (f + 1) (.list (.str cmd :: args)) = .ok v)
    (ht : stepTail cfg .off inject acc (.val v) acc.st = .ok acc1) :
    circuitStep cfg .off inject (f + 1) acc (.list (.str cmd :: args)) = .ok acc1 := by
  unfold circuitStep
  rw [buildAny_list, anyStep_value _ _ _ _ _ _ _ _ hcmd]
  rw [buildVal_list] at hv
  simp only [hv, bind, Except.bind, pure, Except.pure]
  exact ht

/-- the head command of what the generator writes for a header value -/
theorem valSx_cmd {v : Val} (hok : okVal v = true) :
    ∃ cmd args, BSx.ofSx (valSx v) = .list (.str cmd :: args) ∧ (cmd = "register" ∨ cmd = "map" ∨ cmd = "let") := by
  cases v with
  | const n x =>
    cases x <;> simp [okVal, okLet] at hok
    · exact ⟨"let", _, rfl, Or.inr (Or.inr rfl)⟩
    · exact ⟨"let", _, rfl, Or.inr (Or.inr rfl)⟩
  | regF n sz => exact ⟨"register", _, rfl, Or.inl rfl⟩
  | qubit n src idx => exact ⟨"map", _, rfl, Or.inr (Or.inl rfl)⟩
  | regA n src => exact ⟨"map", _, rfl, Or.inr (Or.inl rfl)⟩
  | regS n src a b c => exact ⟨"map", _, rfl, Or.inr (Or.inl rfl)⟩
  | _ => simp [okVal, okMap] at hok

/-- what one step of the loop gives: the invariants, and the child the generator writes for the new object, which
appended to the written children so far is built in one step to the same accumulator -/
structure StepOut (cfg : Config) (inject : Option (List (String × GateDef))) (acc acc1 : Acc) (k : Nat) : Prop where
  /-- whatever the order of the children -/
  inv : TopInv acc1
  /-- when the child comes in the generator's order -/
  ord : ∀ r, RankInv acc r → r ≤ k → RankInv acc1 k ∧ ∃ e', W acc1 = W acc ++ [e'] ∧
    ∀ F, (BSx.ofSx e').depth ≤ F → circuitStep cfg .off inject F acc (BSx.ofSx e') = .ok acc1

def isConstV : Val → Bool
  | .const _ _ => true
  | _ => false

theorem stepTail_val_inv {cfg : Config} {inject : Option (List (String × GateDef))} {acc acc1 : Acc} {v : Val}
    {n : String} (hk : topKind v = true) (hp : isParam v = false) (hn : v.name? = some n)
    (h : stepTail cfg .off inject acc (.val v) acc.st = .ok acc1) :
    acc.ctx.get n = none ∧
    acc1 = (if isConstV v then
      { acc with ctx := { acc.ctx with vars := (n, v) :: acc.ctx.vars }, st := acc.st, constants := acc.constants ++ [v] }
    else
      { acc with ctx := { acc.ctx with vars := (n, v) :: acc.ctx.vars }, st := acc.st, registers := acc.registers ++ [v] }) := by
  cases v <;> simp [topKind, isParam] at hk hp <;> simp only [Val.name?, Option.some.injEq] at hn <;> subst hn <;>
    simp only [stepTail] at h <;> obtain ⟨ctx', hc', h1⟩ := bind_ok h <;>
    obtain ⟨hf, rfl⟩ := addVar_inv hc' <;> simp only [pure, Except.pure, Except.ok.injEq] at h1 <;>
    exact ⟨hf, by rw [← h1]; rfl⟩

theorem step_val_out {cfg : Config} {inject : Option (List (String × GateDef))} {acc acc1 : Acc} {v : Val}
    {k : Nat} (hi : TopInv acc) (hv : HdrPost acc.ctx v k)
    (h : stepTail cfg .off inject acc (.val v) acc.st = .ok acc1) :
    StepOut cfg inject acc acc1 (valRank v) := by
  obtain ⟨n, hn⟩ := hv.named
  obtain ⟨hfresh, hacc1⟩ := stepTail_val_inv hv.kind.1 hv.kind.2 hn h
  have hctxN := ctxN_cons hi.ctxN (v := v) hn hv.kind.1 hv.wf
  have hsz := ctxSized_cons hi.sized (n := n) hfresh hv.sized
  obtain ⟨cmd, args, hcmd, hc3⟩ := valSx_cmd hv.ok
  have hreb : ∀ F, (BSx.ofSx (valSx v)).depth ≤ F → circuitStep cfg .off inject F acc (BSx.ofSx (valSx v)) = .ok acc1 := by
    intro F hd
    rw [hcmd] at hd ⊢
    cases F with
    | zero => simp [BSx.depth] at hd
    | succ f2 =>
      have := hv.rebuild f2
      rw [hcmd] at this
      exact circuitStep_val_of hc3 this h
  have hok := hv.ok
  cases v with
  | const cn cx =>
    simp only [valRank]
    simp only [isConstV, if_true] at hacc1
    subst hacc1
    refine ⟨⟨hctxN, hsz, hi.k, ?_, hi.okRegs, hi.okMacros, hi.okStmts, ?_, hi.wfRegs, hi.wfMacros, hi.wfStmts⟩,
      fun r hr hrk => ?_⟩
    · intro w hw
      rcases List.mem_append.1 hw with hw | hw
      · exact hi.okConsts w hw
      · simp only [List.mem_singleton] at hw; subst hw; exact hok
    · intro w hw
      rcases List.mem_append.1 hw with hw | hw
      · exact hi.wfConsts w hw
      · simp only [List.mem_singleton] at hw; subst hw; exact hv.wf
    · have h2 := hr.rs (by omega)
      have h4 := hr.macs (by omega)
      have h5 := hr.ss (by omega)
      exact ⟨⟨by omega, fun _ => h2, fun _ => by simp [h2], fun _ => h4, fun _ => h5⟩,
        valSx (.const cn cx), by simp [W, h2, h4, h5, valSx], hreb⟩
  | regF rn rsz =>
    simp only [valRank]
    simp only [isConstV, Bool.false_eq_true, if_false] at hacc1
    subst hacc1
    refine ⟨⟨hctxN, hsz, hi.k, hi.okConsts, ?_, hi.okMacros, hi.okStmts, hi.wfConsts, ?_, hi.wfMacros, hi.wfStmts⟩,
      fun r hr hrk => ?_⟩
    · intro w hw
      rcases List.mem_append.1 hw with hw | hw
      · exact hi.okRegs w hw
      · simp only [List.mem_singleton] at hw; subst hw; simpa [isFund, okVal] using hok
    · intro w hw
      rcases List.mem_append.1 hw with hw | hw
      · exact hi.wfRegs w hw
      · simp only [List.mem_singleton] at hw; subst hw; exact hv.wf
    · have h3 := hr.ms (by omega)
      have h4 := hr.macs (by omega)
      have h5 := hr.ss (by omega)
      have e1 : isFund (Val.regF rn rsz) = true := rfl
      exact ⟨⟨by omega, by omega, fun _ => by rw [List.filter_append, h3]; rfl, fun _ => h4, fun _ => h5⟩,
        valSx (.regF rn rsz), by simp [W, List.filter_append, h3, h4, h5, valSx, e1], hreb⟩
  | qubit qn qs qi =>
    simp only [valRank]
    simp only [isConstV, Bool.false_eq_true, if_false] at hacc1
    subst hacc1
    refine ⟨⟨hctxN, hsz, hi.k, hi.okConsts, ?_, hi.okMacros, hi.okStmts, hi.wfConsts, ?_, hi.wfMacros, hi.wfStmts⟩,
      fun r hr hrk => ?_⟩
    · intro w hw
      rcases List.mem_append.1 hw with hw | hw
      · exact hi.okRegs w hw
      · simp only [List.mem_singleton] at hw; subst hw; simpa [isFund, okVal] using hok
    · intro w hw
      rcases List.mem_append.1 hw with hw | hw
      · exact hi.wfRegs w hw
      · simp only [List.mem_singleton] at hw; subst hw; exact hv.wf
    · have h4 := hr.macs (by omega)
      have h5 := hr.ss (by omega)
      have e1 : isFund (Val.qubit qn qs qi) = false := rfl
      exact ⟨⟨by omega, by omega, by omega, fun _ => h4, fun _ => h5⟩,
        valSx (.qubit qn qs qi), by simp [W, List.filter_append, h4, h5, valSx, e1], hreb⟩
  | regA an as' =>
    simp only [valRank]
    simp only [isConstV, Bool.false_eq_true, if_false] at hacc1
    subst hacc1
    refine ⟨⟨hctxN, hsz, hi.k, hi.okConsts, ?_, hi.okMacros, hi.okStmts, hi.wfConsts, ?_, hi.wfMacros, hi.wfStmts⟩,
      fun r hr hrk => ?_⟩
    · intro w hw
      rcases List.mem_append.1 hw with hw | hw
      · exact hi.okRegs w hw
      · simp only [List.mem_singleton] at hw; subst hw; simpa [isFund, okVal] using hok
    · intro w hw
      rcases List.mem_append.1 hw with hw | hw
      · exact hi.wfRegs w hw
      · simp only [List.mem_singleton] at hw; subst hw; exact hv.wf
    · have h4 := hr.macs (by omega)
      have h5 := hr.ss (by omega)
      have e1 : isFund (Val.regA an as') = false := rfl
      exact ⟨⟨by omega, by omega, by omega, fun _ => h4, fun _ => h5⟩,
        valSx (.regA an as'), by simp [W, List.filter_append, h4, h5, valSx, e1], hreb⟩
  | regS sn ss' sa sb sc =>
    simp only [valRank]
    simp only [isConstV, Bool.false_eq_true, if_false] at hacc1
    subst hacc1
    refine ⟨⟨hctxN, hsz, hi.k, hi.okConsts, ?_, hi.okMacros, hi.okStmts, hi.wfConsts, ?_, hi.wfMacros, hi.wfStmts⟩,
      fun r hr hrk => ?_⟩
    · intro w hw
      rcases List.mem_append.1 hw with hw | hw
      · exact hi.okRegs w hw
      · simp only [List.mem_singleton] at hw; subst hw; simpa [isFund, okVal] using hok
    · intro w hw
      rcases List.mem_append.1 hw with hw | hw
      · exact hi.wfRegs w hw
      · simp only [List.mem_singleton] at hw; subst hw; exact hv.wf
    · have h4 := hr.macs (by omega)
      have h5 := hr.ss (by omega)
      have e1 : isFund (Val.regS sn ss' sa sb sc) = false := rfl
      exact ⟨⟨by omega, by omega, by omega, fun _ => h4, fun _ => h5⟩,
        valSx (.regS sn ss' sa sb sc), by simp [W, List.filter_append, h4, h5, valSx, e1], hreb⟩
  | _ => simp [okVal, okMap] at hok

theorem step_header_val {cfg : Config} {inject : Option (List (String × GateDef))} {acc acc1 : Acc} {F : Nat}
    {e : BSx} (hi : TopInv acc) (hg : GHeader e)
    (hnu : ∀ m, e ≠ .list [.str "usepulses", .str m, .str "*"])
    (h : circuitStep cfg .off inject F acc e = .ok acc1) : StepOut cfg inject acc acc1 (rank e) := by
  cases hg with
  | usepulses m => exact absurd rfl (hnu m)
  | letInt n i =>
    obtain ⟨f, v, rfl, hv, ht⟩ := circuitStep_val (Or.inr (Or.inr rfl)) h
    have hp := hdr_let_int acc.ctx hv
    have := step_val_out hi hp ht
    rw [hp.rk] at this; exact this
  | letFlt n d =>
    obtain ⟨f, v, rfl, hv, ht⟩ := circuitStep_val (Or.inr (Or.inr rfl)) h
    have hp := hdr_let_flt acc.ctx hv
    have := step_val_out hi hp ht
    rw [hp.rk] at this; exact this
  | register n hs =>
    obtain ⟨f, v, rfl, hv, ht⟩ := circuitStep_val (Or.inl rfl) h
    have hp := hdr_register hi.ctxN hs hv
    have := step_val_out hi hp ht
    rw [hp.rk] at this; exact this
  | mapWhole n s' =>
    obtain ⟨f, v, rfl, hv, ht⟩ := circuitStep_val (Or.inr (Or.inl rfl)) h
    have hp := hdr_map_whole hi.ctxN hi.sized hv
    have := step_val_out hi hp ht
    rw [hp.rk] at this; exact this
  | mapIndex n s' hidx =>
    obtain ⟨f, v, rfl, hv, ht⟩ := circuitStep_val (Or.inr (Or.inl rfl)) h
    have hp := hdr_map_idx hi.ctxN hidx hv
    have := step_val_out hi hp ht
    rw [hp.rk] at this; exact this
  | mapSlice n s' ha hb hc =>
    obtain ⟨f, v, rfl, hv, ht⟩ := circuitStep_val (Or.inr (Or.inl rfl)) h
    have hp := hdr_map_slice hi.ctxN hi.sized ha hb hc hv
    have := step_val_out hi hp ht
    rw [hp.rk] at this; exact this

theorem buildAny_usepulses_eq (cfg : Config) (mode : KeyMode) (f : Nat) (ctx : Ctx) (m : String) (st : St) :
    buildAny cfg mode (f + 1) ctx (.list [.str "usepulses", .str m, .str "*"]) st = .ok (.usepulses m, st) := by
  rw [buildAny_list]
  simp [anyStep, isStar, pure, Except.pure]

theorem step_usepulses {cfg : Config} (hauto : cfg.autoload = false) {inject : Option (List (String × GateDef))}
    {acc acc1 : Acc} {F : Nat} {m : String} (hi : TopInv acc)
    (h : circuitStep cfg .off inject F acc (.list [.str "usepulses", .str m, .str "*"]) = .ok acc1) :
    StepOut cfg inject acc acc1 0 := by
  have hstep : ∀ f, circuitStep cfg .off inject (f + 1) acc (.list [.str "usepulses", .str m, .str "*"]) =
      .ok { acc with st := acc.st, usepulses := acc.usepulses ++ [m] } := by
    intro f
    unfold circuitStep
    rw [buildAny_usepulses_eq]
    simp [stepTail, hauto, bind, Except.bind, pure, Except.pure]
  cases F with
  | zero => simp [circuitStep, buildAny, throw_eq, bind, Except.bind] at h
  | succ f =>
    rw [hstep f] at h
    simp only [Except.ok.injEq] at h
    subst h
    refine ⟨⟨hi.ctxN, hi.sized, hi.k, hi.okConsts, hi.okRegs, hi.okMacros, hi.okStmts, hi.wfConsts, hi.wfRegs, hi.wfMacros,
      hi.wfStmts⟩, fun r hr hrk => ?_⟩
    have h1 := hr.cs (by omega)
    have h2 := hr.rs (by omega)
    have h4 := hr.macs (by omega)
    have h5 := hr.ss (by omega)
    refine ⟨⟨fun _ => h1, fun _ => h2, fun _ => by simp [h2], fun _ => h4, fun _ => h5⟩,
      usepulsesSx (m, "*"), by simp [W, h1, h2, h4, h5], ?_⟩
    intro F2 hd
    cases F2 with
    | zero => simp [usepulsesSx, BSx.ofSx, BSx.depth] at hd
    | succ f2 => exact hstep f2

theorem okTop_of {s : Stmt} (hok : okStmt false s = true) (hf : splFree false s = true) : okTop s = true := by
  cases s with
  | gate n gd a => exact hok
  | loop c b => exact hok
  | block p sub it b =>
    cases p <;> cases sub
    · simp [splFree] at hf
    · exact hok
    · exact hok
    · exact hok

theorem step_stmt_out {cfg : Config} {inject : Option (List (String × GateDef))} {acc : Acc} {F : Nat} {e : BSx}
    {s : Stmt} {st' : St} (hi : TopInv acc)
    (hb : buildAny cfg .off F acc.ctx e acc.st = .ok (.stmt s, st')) (hok : okTop s = true)
    (hwf : wfStmt s = true ∧ nsk s = true) (hre : Rebuilds cfg acc.ctx s acc.st st') :
    StepOut cfg inject acc { acc with st := st', stmts := acc.stmts ++ [s] } 5 := by
  have hk : KInv st' := (buildAny_known F acc.ctx e acc.st st' _ hi.k hb).inv
  refine ⟨⟨hi.ctxN, hi.sized, hk, hi.okConsts, hi.okRegs, hi.okMacros, ?_, hi.wfConsts, hi.wfRegs, hi.wfMacros, ?_⟩,
    fun r hr hrk => ⟨⟨by omega, by omega, by omega, by omega, by omega⟩, stmtSx s, by simp [W], ?_⟩⟩
  · intro x hx
    rcases List.mem_append.1 hx with hx | hx
    · exact hi.okStmts x hx
    · simp only [List.mem_singleton] at hx; subst hx; exact hok
  · intro x hx
    rcases List.mem_append.1 hx with hx | hx
    · exact hi.wfStmts x hx
    · simp only [List.mem_singleton] at hx; subst hx; exact hwf
  · intro F2 hd
    unfold circuitStep
    rw [hre F2 hd]
    rfl

theorem circuitStep_stmt {cfg : Config} {inject : Option (List (String × GateDef))} {acc acc1 : Acc} {F : Nat}
    {e : BSx} {s : Stmt} {st' : St} (hb : buildAny cfg .off F acc.ctx e acc.st = .ok (.stmt s, st'))
    (h : circuitStep cfg .off inject F acc e = .ok acc1) : acc1 = { acc with st := st', stmts := acc.stmts ++ [s] } := by
  unfold circuitStep at h
  rw [hb] at h
  simp only [bind, Except.bind, stepTail, pure, Except.pure, Except.ok.injEq] at h
  exact h.symm

theorem rank_stmt {e : BSx} (hg : GStmt false e) : rank e = 5 := by
  cases hg <;> rfl

theorem step_stmt {cfg : Config} {inject : Option (List (String × GateDef))} {acc acc1 : Acc} {F : Nat} {e : BSx}
    (hi : TopInv acc) (hg : GStmt false e) (hb : noBr e = true)
    (h : circuitStep cfg .off inject F acc e = .ok acc1) : StepOut cfg inject acc acc1 5 := by
  have h0 := h
  unfold circuitStep at h
  obtain ⟨⟨o, st'⟩, hbuild, _⟩ := bind_ok h
  obtain ⟨s, rfl, hok, hfree, hre, _, _, hwf, hns⟩ :=
    stmt_rebuild cfg F acc.ctx false e acc.st o st' hi.ctxN hi.k hg hb hbuild
  rw [circuitStep_stmt hbuild h0]
  exact step_stmt_out hi hbuild (okTop_of hok hfree) ⟨hwf, hns⟩ hre

theorem step_seqB {cfg : Config} {inject : Option (List (String × GateDef))} {acc acc1 : Acc} {F : Nat}
    {items : List BSx} (hi : TopInv acc) (hg : ∀ x ∈ items, GStmt false x)
    (hb : noBrList items = true)
    (h : circuitStep cfg .off inject F acc (.list (.str "sequential_block" :: items)) = .ok acc1) :
    StepOut cfg inject acc acc1 5 := by
  have h0 := h
  unfold circuitStep at h
  obtain ⟨⟨o, st'⟩, hbuild, _⟩ := bind_ok h
  cases F with
  | zero => simp [buildAny, throw_eq] at hbuild
  | succ f =>
    obtain ⟨ss, rfl, hoks, _, _, hwfs, hnss, hre⟩ :=
      block_post (p := false) (stmt_rebuild cfg f) hi.ctxN hi.k hg hb hbuild
    rw [circuitStep_stmt hbuild h0]
    exact step_stmt_out hi hbuild (by simpa [okTop] using hoks)
      ⟨by simpa [wfStmt, wfVal] using hwfs, by simpa [nsk] using hnss⟩ hre

/-! ### macros -/

theorem mapM_macroParam_str : ∀ (ps : List String),
    (ps.map BSx.str).mapM macroParam = .ok (ps.map (fun p => (p, Kind.none)))
  | [] => rfl
  | p :: ps => by
    simp [List.mapM_cons, macroParam, mapM_macroParam_str ps, bind, Except.bind, pure, Except.pure]

theorem ctxN_withParams {ctx : Ctx} (hc : CtxN ctx) (ps : List (String × Kind)) : CtxN (ctx.withParams ps) := by
  intro n v h
  simp only [Ctx.get, Ctx.withParams] at h
  rcases lookup_append_some h with h | h
  · have : ∀ (l : List (String × Kind)), List.lookup n (l.map (fun p => (p.1, Val.param p.1 p.2))) = some v →
        v.name? = some n ∧ topKind v = true ∧ wfVal v = true := by
      intro l
      induction l with
      | nil => intro h; simp [List.lookup] at h
      | cons q l ih =>
        intro h
        simp only [List.map_cons, List.lookup] at h
        by_cases hq : (n == q.1) = true
        · simp only [hq, Option.some.injEq] at h
          subst h
          have : n = q.1 := by simpa using hq
          subst this
          exact ⟨rfl, rfl, rfl⟩
        · simp only [hq] at h
          exact ih h
    exact this _ h
  · exact hc n v h

theorem kinv_cons_macro {st : St} (hk : KInv st) {m : Macro} (hfresh : st.gctx.lookup m.name = none) :
    KInv { st with gctx := (m.name, .macro m) :: st.gctx } := by
  have hext : GExt st.gctx ((m.name, GEntry.macro m) :: st.gctx) := by
    intro n e h
    simp only [List.lookup]
    by_cases hn : (n == m.name) = true
    · have : n = m.name := by simpa using hn
      subst this
      rw [hfresh] at h; cases h
    · simp only [hn]; exact h
  refine ⟨?_, hk.memo.ext hext⟩
  intro n e h
  simp only [List.lookup] at h
  by_cases hn : (n == m.name) = true
  · simp only [hn, Option.some.injEq] at h
    subst h
    have : n = m.name := by simpa using hn
    subst this
    rfl
  · simp only [hn] at h
    exact hk.keys n e h

theorem step_macro {cfg : Config} {inject : Option (List (String × GateDef))} {acc acc1 : Acc} {F : Nat}
    {name : String} {params : List String} {par : Bool} {items : List BSx}
    (hi : TopInv acc) (hg : ∀ x ∈ items, GStmt par x) (hb : noBrList items = true)
    (h : circuitStep cfg .off inject F acc
      (.list (.str "macro" :: .str name :: (params.map BSx.str ++ [.list (.str (blockCmdB par) :: items)]))) = .ok acc1) :
    StepOut cfg inject acc acc1 4 := by
  have hlen : ¬ ((BSx.str name :: (params.map BSx.str ++ [BSx.list (.str (blockCmdB par) :: items)])).length < 2) := by
    simp
  unfold circuitStep at h
  obtain ⟨⟨o, st'⟩, hbuild, htail⟩ := bind_ok h
  have hpost := buildAny_known F acc.ctx _ acc.st st' o hi.k hbuild
  cases F with
  | zero => simp [buildAny, throw_eq] at hbuild
  | succ f =>
    have hb0 := hbuild
    rw [buildAny_list, anyStep_macro _ _ _ _ _ _ _ _ hlen] at hbuild
    simp only [strOf, pure_bind] at hbuild
    by_cases hl : (acc.st.gctx.lookup name).isSome = true
    · simp [hl, throw_eq, bind, Except.bind] at hbuild
    · simp only [hl, Bool.false_eq_true, if_false, pure_bind, List.dropLast_concat, mapM_macroParam_str,
        List.getLast?_concat] at hbuild
      simp only [bind, Except.bind] at hbuild
      cases f with
      | zero =>
        simp [buildAny, throw_eq] at hbuild
      | succ f' =>
        cases hbody : buildAny cfg .off (f' + 1) (acc.ctx.withParams (params.map (fun p => (p, Kind.none))))
            (.list (.str (blockCmdB par) :: items)) acc.st with
        | error e => rw [hbody] at hbuild; cases hbuild
        | ok pr =>
          obtain ⟨ob, sb⟩ := pr
          obtain ⟨ss, rfl, hoks, hsx, hgns, hwfs, hnss, hre⟩ := block_post (stmt_rebuild cfg f')
            (ctxN_withParams hi.ctxN _) hi.k hg hb hbody
          rw [hbody] at hbuild
          simp only [pure, Except.pure, Except.ok.injEq, Prod.mk.injEq] at hbuild
          obtain ⟨rfl, rfl⟩ := hbuild
          -- the tail: `rebuild_macro_in_context` changes nothing
          have hkn : StmtKnown sb.gctx (Stmt.block par false (Val.int 1) ss) := hpost.obj
          have hid := rebuildMacro_id (m := ⟨name, params.map (fun p => (p, Kind.none)), .block par false (.int 1) ss⟩)
            hpost.inv.keys hkn (by simpa [gNamed] using hgns)
          simp only [stepTail, hid, bind, Except.bind] at htail
          by_cases hl2 : (sb.gctx.lookup name).isSome = true
          · simp [hl2, throw_eq] at htail
          · simp only [hl2, Bool.false_eq_true, if_false, pure, Except.pure, Except.ok.injEq] at htail
            subst htail
            have hfresh : sb.gctx.lookup name = none := by
              cases hx : sb.gctx.lookup name with
              | none => rfl
              | some w => simp [hx] at hl2
            refine ⟨⟨hi.ctxN, hi.sized, kinv_cons_macro (m := ⟨name, params.map (fun p => (p, Kind.none)), .block par false (.int 1) ss⟩) hpost.inv hfresh, hi.okConsts, hi.okRegs, ?_, hi.okStmts, hi.wfConsts, hi.wfRegs, ?_, hi.wfStmts⟩,
              fun r hr hrk => ⟨⟨by omega, by omega, by omega, by omega, fun _ => hr.ss (by omega)⟩, macroSx ⟨name, params.map (fun p => (p, Kind.none)), .block par false (.int 1) ss⟩, by simp [W, hr.ss (by omega)], ?_⟩⟩
            · intro x hx
              rcases List.mem_append.1 hx with hx | hx
              · exact hi.okMacros x hx
              · simp only [List.mem_singleton] at hx; subst hx; simpa [okMacro] using hoks
            · intro x hx
              rcases List.mem_append.1 hx with hx | hx
              · exact hi.wfMacros x hx
              · simp only [List.mem_singleton] at hx; subst hx
                exact ⟨by simpa [wfStmt, wfVal] using hwfs, by simpa [nsk] using hnss⟩
            · intro F2 hd
              have hmsx : BSx.ofSx (macroSx ⟨name, params.map (fun p => (p, Kind.none)), .block par false (.int 1) ss⟩) =
                  .list (.str "macro" :: .str name :: (params.map BSx.str ++
                    [BSx.ofSx (stmtSx (.block par false (.int 1) ss))])) := by
                simp [macroSx, stmtSx, BSx.ofSx, BSx.ofSxList, ofSxList_append, List.map_map, Function.comp_def,
                  ofSxList_map_str]
              rw [hmsx] at hd ⊢
              cases F2 with
              | zero => simp [BSx.depth] at hd
              | succ f2 =>
                have hlen2 : ¬ ((BSx.str name :: (params.map BSx.str ++
                    [BSx.ofSx (stmtSx (.block par false (.int 1) ss))])).length < 2) := by simp
                have hd2 : (BSx.ofSx (stmtSx (.block par false (.int 1) ss))).depth ≤ f2 := by
                  simp only [BSx.depth, BSx.depthList] at hd
                  have : ∀ (l : List BSx) (x : BSx), BSx.depthList (l ++ [x]) ≤ f2 → x.depth ≤ f2 := by
                    intro l
                    induction l with
                    | nil => intro x h; simp [BSx.depthList] at h; exact h
                    | cons y ys ih => intro x h; exact ih x (depthList_cons_le h).2
                  exact this (params.map BSx.str) _ (by omega)
                have hB2 : buildAny cfg .off (f2 + 1) acc.ctx (.list (.str "macro" :: .str name :: (params.map BSx.str ++
                    [BSx.ofSx (stmtSx (.block par false (.int 1) ss))]))) acc.st =
                    .ok (.macro ⟨name, params.map (fun p => (p, Kind.none)), .block par false (.int 1) ss⟩, sb) := by
                  rw [buildAny_list, anyStep_macro _ _ _ _ _ _ _ _ hlen2]
                  simp only [strOf, pure_bind, hl, Bool.false_eq_true, if_false, List.dropLast_concat,
                    mapM_macroParam_str, List.getLast?_concat]
                  simp only [bind, Except.bind, hre f2 hd2]
                  rfl
                unfold circuitStep
                rw [hB2]
                simp only [bind, Except.bind, stepTail, hid, hl2, Bool.false_eq_true, if_false]
                rfl

theorem branch_fails (cfg : Config) (mode : KeyMode) (f : Nat) (ctx : Ctx) (args : List BSx) (st : St) (r : Obj × St) :
    buildAny cfg mode f ctx (.list (.str "branch" :: args)) st ≠ .ok r := by
  cases f with
  | zero => simp [buildAny, throw_eq]
  | succ f =>
    rw [buildAny_list]
    simp only [anyStep, String.reduceEq, if_false, if_true, false_or, or_false, or_self]
    intro h
    cases hm : mapMSt (buildAny cfg mode f ctx) args st with
    | error e => simp [hm, bind, Except.bind] at h
    | ok p => simp [hm, bind, Except.bind, throw_eq] at h

theorem step_top {cfg : Config} {inject : Option (List (String × GateDef))} {acc acc1 : Acc} {F : Nat} {e : BSx}
    (hi : TopInv acc) (hg : GTop e) (hb : noBr e = true)
    (h : circuitStep cfg .off inject F acc e = .ok acc1) : StepOut cfg inject acc acc1 (rank e) := by
  cases hg with
  | stmt hs =>
    rw [rank_stmt hs]
    exact step_stmt hi hs hb h
  | seqB hitems =>
    simp only [noBr, noBrList, Bool.and_eq_true] at hb
    exact step_seqB hi hitems hb.2 h
  | macroDef hitems =>
    rename_i name params par items
    simp only [noBr, noBrList, Bool.and_eq_true] at hb
    obtain ⟨_, hb2⟩ := noBrList_append hb.2.2
    simp only [noBrList, noBr, Bool.and_eq_true] at hb2
    exact step_macro hi hitems hb2.1.2 h
  | branch =>
    unfold circuitStep at h
    obtain ⟨pr, hbuild, _⟩ := bind_ok h
    exact absurd hbuild (branch_fails _ _ _ _ _ _ _)

/-! ## whole programs in the generator's order -/

/-- a child of a program of the grammar -/
def GChild (e : BSx) : Prop := GHeader e ∨ GTop e

theorem rank_header_le {e : BSx} (h : GHeader e) : rank e ≤ 3 := by cases h <;> simp [rank]
theorem rank_top_ge {e : BSx} (h : GTop e) : 4 ≤ rank e := by
  cases h with
  | stmt hs => rw [rank_stmt hs]; decide
  | seqB _ => simp [rank]
  | macroDef _ => simp [rank]
  | branch => simp [rank]

theorem step_child {cfg : Config} (hauto : cfg.autoload = false) {inject : Option (List (String × GateDef))}
    {acc acc1 : Acc} {F : Nat} {e : BSx} (hi : TopInv acc) (hg : GChild e)
    (hb : noBr e = true) (h : circuitStep cfg .off inject F acc e = .ok acc1) :
    StepOut cfg inject acc acc1 (rank e) := by
  rcases hg with hh | ht
  · cases hh with
    | usepulses m => exact step_usepulses hauto hi h
    | letInt n i => exact step_header_val hi (GHeader.letInt n i) (by intro m hm; simp at hm) h
    | letFlt n d => exact step_header_val hi (GHeader.letFlt n d) (by intro m hm; simp at hm) h
    | register n hs => exact step_header_val hi (GHeader.register n hs) (by intro m hm; simp at hm) h
    | mapWhole n s' => exact step_header_val hi (GHeader.mapWhole n s') (by intro m hm; simp at hm) h
    | mapIndex n s' hx => exact step_header_val hi (GHeader.mapIndex n s' hx) (by intro m hm; simp at hm) h
    | mapSlice n s' ha hb' hc =>
      exact step_header_val hi (GHeader.mapSlice n s' ha hb' hc) (by intro m hm; simp at hm) h
  · exact step_top hi ht hb h

theorem loop_rebuild {cfg : Config} (hauto : cfg.autoload = false) {inject : Option (List (String × GateDef))}
    {F : Nat} : ∀ (cs : List BSx) (acc accF : Acc) (r : Nat), TopInv acc → RankInv acc r →
    (∀ e ∈ cs, GChild e ∧ noBr e = true) → List.Pairwise (· ≤ ·) (r :: cs.map rank) →
    circuitLoop cfg .off inject F acc cs = .ok accF →
    TopInv accF ∧ ∃ es, W accF = W acc ++ es ∧
      ∀ F2, BSx.depthList (BSx.ofSxList es) ≤ F2 → circuitLoop cfg .off inject F2 acc (BSx.ofSxList es) = .ok accF
  | [], acc, accF, r, hi, _, _, _, h => by
    simp only [circuitLoop, pure, Except.pure, Except.ok.injEq] at h
    subst h
    exact ⟨hi, [], by simp, fun _ _ => rfl⟩
  | e :: cs, acc, accF, r, hi, hr, hcs, hp, h => by
    simp only [circuitLoop] at h
    obtain ⟨acc1, hstep, hrest⟩ := bind_ok h
    simp only [List.map_cons, List.pairwise_cons] at hp
    obtain ⟨hp1, hp2, hp3⟩ := hp
    have hrk : r ≤ rank e := hp1 _ (by simp)
    obtain ⟨hi1, hord⟩ := step_child hauto hi (hcs e (by simp)).1 (hcs e (by simp)).2 hstep
    obtain ⟨hr1, e', hW, hreb⟩ := hord r hr hrk
    obtain ⟨hiF, es, hWF, hrebF⟩ := loop_rebuild hauto cs acc1 accF (rank e) hi1 hr1
      (fun x hx => hcs x (by simp [hx])) (List.pairwise_cons.2 ⟨hp2, hp3⟩) hrest
    refine ⟨hiF, e' :: es, by rw [hWF, hW]; simp, ?_⟩
    intro F2 hd
    simp only [BSx.ofSxList] at hd ⊢
    obtain ⟨hd1, hd2⟩ := depthList_cons_le hd
    simp only [circuitLoop, hreb F2 hd1, bind, Except.bind]
    exact hrebF F2 hd2

/-- the children of a program are in the generator's order -/
def Canonical (cs : List BSx) : Prop := List.Pairwise (· ≤ ·) (cs.map rank)

/-- the accumulator `build_circuit` starts from -/
def acc0 (inject : Option (List (String × GateDef))) : Acc :=
  { st := { gctx := (inject.getD []).map (fun p => (p.1, GEntry.gdef p.2)) }, natives := inject.getD [] }

theorem topInv_acc0 (cfg : Config) {inject : Option (List (String × GateDef))} (hinj : cfg.inject = .ok inject) :
    TopInv (acc0 inject) := by
  have hnat : NatOK (inject.getD []) := by
    unfold Config.inject at hinj
    cases hn : cfg.natives with
    | none => simp [hn, pure, Except.pure] at hinj; subst hinj; exact ⟨fun p hp => (by cases hp), by simp⟩
    | some gs =>
      simp only [hn] at hinj
      obtain ⟨d, hd, h4⟩ := bind_ok hinj
      simp only [pure, Except.pure] at h4
      cases h4
      exact normNatives_natOK hd
  have hB : BInv cfg (acc0 inject) := HInv.toBInv ⟨rfl, rfl, rfl, rfl, hnat⟩
  refine ⟨?_, ?_, hB.k, ?_, ?_, ?_, ?_, ?_, ?_, ?_, ?_⟩
  · intro n v h; simp [Ctx.get, acc0] at h
  · intro n v h; simp [Ctx.get, acc0] at h
  all_goals (intro v hv; cases hv)

/-- **Layer C for programs in the generator's order** (memo switched off): the tree the generator writes for the
built circuit is built to exactly that circuit, and the circuit is printable. -/
theorem buildNoMemo_rebuild {cfg : Config} (hauto : cfg.autoload = false) {cs : List BSx} {c : Circuit}
    (hcs : ∀ e ∈ cs, GChild e ∧ noBr e = true) (hcan : Canonical cs)
    (h : buildNoMemo cfg (.list (.str "circuit" :: cs)) = .ok c) :
    buildNoMemo cfg (BSx.ofSx (unbuild c)) = .ok c ∧ printable c = true := by
  unfold buildNoMemo buildWith at h ⊢
  obtain ⟨inject, hinj, h1⟩ := bind_ok h
  simp only [buildCore] at h1
  obtain ⟨accF, hloop, h2⟩ := bind_ok h1
  simp only [pure, Except.pure, Except.ok.injEq] at h2
  subst h2
  have hi0 := topInv_acc0 cfg hinj
  have hr0 : RankInv (acc0 inject) 0 := ⟨fun _ => rfl, fun _ => rfl, fun _ => rfl, fun _ => rfl, fun _ => rfl⟩
  obtain ⟨hiF, es, hW, hreb⟩ := loop_rebuild hauto cs (acc0 inject) accF 0 hi0 hr0 hcs
    (List.pairwise_cons.2 ⟨fun _ _ => Nat.zero_le _, hcan⟩) hloop
  have hW0 : W (acc0 inject) = [] := by simp [W, acc0]
  rw [hW0, List.nil_append] at hW
  refine ⟨?_, ?_⟩
  · rw [hinj, unbuild_toCircuit, hW]
    simp only [bind, Except.bind, BSx.ofSx, BSx.ofSxList, buildCore]
    have := hreb ((BSx.list (BSx.str "circuit" :: BSx.ofSxList es)).depth + 1)
      (by simp only [BSx.depth, BSx.depthList]; omega)
    simp only [acc0] at this
    rw [this]
    rfl
  · simp only [printable, Acc.toCircuit, Bool.and_eq_true, List.all_eq_true]
    refine ⟨⟨⟨⟨?_, hiF.okConsts⟩, hiF.okRegs⟩, hiF.okMacros⟩, hiF.okStmts⟩
    intro u hu
    simp only [List.mem_map] at hu
    obtain ⟨n, _, rfl⟩ := hu
    rfl

theorem loop_inv {cfg : Config} (hauto : cfg.autoload = false) {inject : Option (List (String × GateDef))}
    {F : Nat} : ∀ (cs : List BSx) (acc accF : Acc), TopInv acc → (∀ e ∈ cs, GChild e ∧ noBr e = true) →
    circuitLoop cfg .off inject F acc cs = .ok accF → TopInv accF
  | [], acc, accF, hi, _, h => by
    simp only [circuitLoop, pure, Except.pure, Except.ok.injEq] at h
    subst h
    exact hi
  | e :: cs, acc, accF, hi, hcs, h => by
    simp only [circuitLoop] at h
    obtain ⟨acc1, hstep, hrest⟩ := bind_ok h
    have hi1 := (step_child hauto hi (hcs e (by simp)).1 (hcs e (by simp)).2 hstep).inv
    exact loop_inv hauto cs acc1 accF hi1 (fun x hx => hcs x (by simp [hx])) hrest

theorem printable_of_topInv {acc : Acc} (hi : TopInv acc) : printable acc.toCircuit = true := by
  simp only [printable, Acc.toCircuit, Bool.and_eq_true, List.all_eq_true]
  refine ⟨⟨⟨⟨?_, hi.okConsts⟩, hi.okRegs⟩, hi.okMacros⟩, hi.okStmts⟩
  intro u hu
  simp only [List.mem_map] at hu
  obtain ⟨n, _, rfl⟩ := hu
  rfl

/-- no block stands directly in a block of its own kind (subcircuits and the top level apart): nothing for the
generator to splice, so the statement lists of the re-parsed circuit are the original ones -/
def NoSameKindNesting (c : Circuit) : Prop :=
  (∀ s ∈ c.body.stmts, nsk s = true) ∧ ∀ m ∈ c.macros, nsk m.body = true

theorem wfStmts_of_forall : ∀ {l : List Stmt}, (∀ s ∈ l, wfStmt s = true) → wfStmts l = true
  | [], _ => rfl
  | s :: ss, h => by
    simp only [wfStmts, Bool.and_eq_true]
    exact ⟨h s (by simp), wfStmts_of_forall (fun x hx => h x (by simp [hx]))⟩

/-- what is known of every circuit built from a program of the grammar, whatever the order of its statements -/
structure BuiltFacts (c : Circuit) : Prop where
  printable : printable c = true
  noNesting : NoSameKindNesting c
  wfConsts : ∀ v ∈ c.constants, wfVal v = true
  wfRegs : ∀ v ∈ c.registers, wfVal v = true
  wfMacros : ∀ m ∈ c.macros, wfStmt m.body = true
  wfBody : wfStmt c.body = true
  namedConsts : ∀ v ∈ c.constants, ∃ n, v.name? = some n
  namedRegs : ∀ v ∈ c.registers, ∃ n, v.name? = some n

theorem builtFacts_of_topInv {acc : Acc} (hi : TopInv acc) : BuiltFacts acc.toCircuit := by
  refine ⟨printable_of_topInv hi, ⟨fun s hs => (hi.wfStmts s hs).2, fun m hm => (hi.wfMacros m hm).2⟩,
    hi.wfConsts, hi.wfRegs, fun m hm => (hi.wfMacros m hm).1, ?_, ?_, ?_⟩
  · simp only [Acc.toCircuit, wfStmt, wfVal, Bool.true_and]
    exact wfStmts_of_forall (fun s hs => (hi.wfStmts s hs).1)
  · intro v hv
    have := hi.okConsts v hv
    cases v <;> simp [okLet] at this
    exact ⟨_, rfl⟩
  · intro v hv
    have := hi.okRegs v hv
    cases v <;> simp [isFund, okRegister, okMap] at this <;> exact ⟨_, rfl⟩

/-- **Every circuit built from a program of the grammar is printable**, has no same-kind nesting, and is well-formed,
whatever the order of its statements. -/
theorem buildNoMemo_facts {cfg : Config} (hauto : cfg.autoload = false) {cs : List BSx} {c : Circuit}
    (hcs : ∀ e ∈ cs, GChild e ∧ noBr e = true)
    (h : buildNoMemo cfg (.list (.str "circuit" :: cs)) = .ok c) : BuiltFacts c := by
  unfold buildNoMemo buildWith at h
  obtain ⟨inject, hinj, h1⟩ := bind_ok h
  simp only [buildCore] at h1
  obtain ⟨accF, hloop, h2⟩ := bind_ok h1
  simp only [pure, Except.pure, Except.ok.injEq] at h2
  subst h2
  exact builtFacts_of_topInv (loop_inv hauto cs (acc0 inject) accF (topInv_acc0 cfg hinj) hcs hloop)

end Jaqal.RoundTrip
