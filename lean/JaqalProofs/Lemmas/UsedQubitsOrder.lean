import JaqalProofs.Lemmas.UsedQubits
/-! Branch-order independence of the used-qubit analysis and of the disjointness check (C13). -/
namespace Jaqal.UsedQubits
open Jaqal.Resolve

/-- `s'` is `s` with the branches of any number of parallel blocks (at any depth) permuted:
the reflexive-transitive, congruence closure of "permute the branches of one parallel block". -/
inductive PermPar : Stmt → Stmt → Prop
  | refl (s : Stmt) : PermPar s s
  | here {sub : Bool} {it : Val} {body body' : List Stmt} : body.Perm body' →
      PermPar (.block true sub it body) (.block true sub it body')
  | inBlock {par sub : Bool} {it : Val} {pre post : List Stmt} {s s' : Stmt} : PermPar s s' →
      PermPar (.block par sub it (pre ++ s :: post)) (.block par sub it (pre ++ s' :: post))
  | inLoop {c : Val} {b b' : Stmt} : PermPar b b' → PermPar (.loop c b) (.loop c b')
  | trans {a b c : Stmt} : PermPar a b → PermPar b c → PermPar a c

variable (allQ : Used) (macros : List Macro)

theorem acts_block_iff (ctx : Ctx) (par sub : Bool) (it : Val) (body : List Stmt) (r : String) (i : Int) :
    Acts allQ macros ctx (.block par sub it body) r i ↔ ∃ s ∈ body, Acts allQ macros ctx s r i := by
  constructor
  · intro h; cases h with | block hs ha => exact ⟨_, hs, ha⟩
  · rintro ⟨s, hs, ha⟩; exact Acts.block hs ha

theorem acts_loop_iff (ctx : Ctx) (c : Val) (b : Stmt) (r : String) (i : Int) :
    Acts allQ macros ctx (.loop c b) r i ↔ Acts allQ macros ctx b r i := by
  constructor
  · intro h; cases h with | loop ha => exact ha
  · exact Acts.loop

/-- the branches `a`, `b` share no qubit -/
def Apart (ctx : Ctx) (a b : Stmt) : Prop := ¬ ∃ r i, Acts allQ macros ctx a r i ∧ Acts allQ macros ctx b r i

theorem Apart.symm {ctx : Ctx} {a b : Stmt} (h : Apart allQ macros ctx a b) : Apart allQ macros ctx b a :=
  fun ⟨r, i, h1, h2⟩ => h ⟨r, i, h2, h1⟩

theorem conflict_block_iff (ctx : Ctx) (par sub : Bool) (it : Val) (body : List Stmt) :
    Conflict allQ macros ctx (.block par sub it body) ↔
      (∃ s ∈ body, Conflict allQ macros ctx s) ∨ (par = true ∧ ¬ body.Pairwise (Apart allQ macros ctx)) := by
  constructor
  · intro h
    cases h with
    | here hjk h1 h2 a1 a2 =>
      right
      refine ⟨rfl, fun hp => ?_⟩
      exact (pairwise_iff_getElem? _ _).1 hp _ _ _ _ hjk h1 h2 ⟨_, _, a1, a2⟩
    | block hs hc => exact Or.inl ⟨_, hs, hc⟩
  · rintro (⟨s, hs, hc⟩ | ⟨hp, hn⟩)
    · exact Conflict.block hs hc
    · subst hp
      apply Classical.byContradiction
      intro hno
      apply hn
      rw [pairwise_iff_getElem?]
      intro j k a b hjk ha hb ⟨r, i, h1, h2⟩
      exact hno (Conflict.here hjk ha hb h1 h2)

theorem conflict_loop_iff (ctx : Ctx) (c : Val) (b : Stmt) :
    Conflict allQ macros ctx (.loop c b) ↔ Conflict allQ macros ctx b := by
  constructor
  · intro h; cases h with | loop hc => exact hc
  · exact Conflict.loop

theorem acts_perm {s s' : Stmt} (h : PermPar s s') :
    ∀ ctx r i, Acts allQ macros ctx s r i ↔ Acts allQ macros ctx s' r i := by
  induction h with
  | refl s => intros; rfl
  | here hp =>
    intro ctx r i
    simp only [acts_block_iff]
    exact ⟨fun ⟨s, hs, ha⟩ => ⟨s, hp.mem_iff.1 hs, ha⟩, fun ⟨s, hs, ha⟩ => ⟨s, hp.mem_iff.2 hs, ha⟩⟩
  | inBlock _ ih =>
    intro ctx r i
    simp only [acts_block_iff, List.mem_append, List.mem_cons]
    constructor
    · rintro ⟨x, hx | rfl | hx, ha⟩
      · exact ⟨x, Or.inl hx, ha⟩
      · exact ⟨_, Or.inr (Or.inl rfl), (ih ctx r i).1 ha⟩
      · exact ⟨x, Or.inr (Or.inr hx), ha⟩
    · rintro ⟨x, hx | rfl | hx, ha⟩
      · exact ⟨x, Or.inl hx, ha⟩
      · exact ⟨_, Or.inr (Or.inl rfl), (ih ctx r i).2 ha⟩
      · exact ⟨x, Or.inr (Or.inr hx), ha⟩
  | inLoop _ ih => intro ctx r i; simp only [acts_loop_iff]; exact ih ctx r i
  | trans _ _ ih1 ih2 => intro ctx r i; exact (ih1 ctx r i).trans (ih2 ctx r i)

theorem conflict_perm {s s' : Stmt} (h : PermPar s s') :
    ∀ ctx, Conflict allQ macros ctx s ↔ Conflict allQ macros ctx s' := by
  induction h with
  | refl s => intros; rfl
  | here hp =>
    intro ctx
    simp only [conflict_block_iff]
    rw [hp.pairwise_iff (fun h => Apart.symm allQ macros h)]
    constructor
    · rintro (⟨s, hs, hc⟩ | h)
      · exact Or.inl ⟨s, hp.mem_iff.1 hs, hc⟩
      · exact Or.inr h
    · rintro (⟨s, hs, hc⟩ | h)
      · exact Or.inl ⟨s, hp.mem_iff.2 hs, hc⟩
      · exact Or.inr h
  | @inBlock par sub it pre post s s' hss ih =>
    intro ctx
    have hA : ∀ x, Apart allQ macros ctx s x ↔ Apart allQ macros ctx s' x := by
      intro x; simp only [Apart, acts_perm allQ macros hss ctx]
    have hB : ∀ x, Apart allQ macros ctx x s ↔ Apart allQ macros ctx x s' := by
      intro x; simp only [Apart, acts_perm allQ macros hss ctx]
    simp only [conflict_block_iff, List.pairwise_append, List.pairwise_cons, List.mem_append, List.mem_cons,
      forall_eq_or_imp, hA, hB]
    constructor
    · rintro (⟨x, hx | rfl | hx, hc⟩ | h)
      · exact Or.inl ⟨x, Or.inl hx, hc⟩
      · exact Or.inl ⟨_, Or.inr (Or.inl rfl), (ih ctx).1 hc⟩
      · exact Or.inl ⟨x, Or.inr (Or.inr hx), hc⟩
      · exact Or.inr h
    · rintro (⟨x, hx | rfl | hx, hc⟩ | h)
      · exact Or.inl ⟨x, Or.inl hx, hc⟩
      · exact Or.inl ⟨_, Or.inr (Or.inl rfl), (ih ctx).2 hc⟩
      · exact Or.inl ⟨x, Or.inr (Or.inr hx), hc⟩
      · exact Or.inr h
  | inLoop _ ih => intro ctx; simp only [conflict_loop_iff]; exact ih ctx
  | trans _ _ ih1 ih2 => intro ctx; exact (ih1 ctx).trans (ih2 ctx)

theorem repeat_block_iff (ctx : Ctx) (par sub : Bool) (it : Val) (body : List Stmt) :
    Repeat allQ macros ctx (.block par sub it body) ↔ ∃ s ∈ body, Repeat allQ macros ctx s := by
  constructor
  · intro h; cases h with | block hs hr => exact ⟨_, hs, hr⟩
  · rintro ⟨s, hs, hr⟩; exact Repeat.block hs hr

theorem repeat_loop_iff (ctx : Ctx) (c : Val) (b : Stmt) :
    Repeat allQ macros ctx (.loop c b) ↔ Repeat allQ macros ctx b := by
  constructor
  · intro h; cases h with | loop hr => exact hr
  · exact Repeat.loop

theorem repeat_perm {s s' : Stmt} (h : PermPar s s') :
    ∀ ctx, Repeat allQ macros ctx s ↔ Repeat allQ macros ctx s' := by
  induction h with
  | refl s => intros; rfl
  | here hp =>
    intro ctx
    simp only [repeat_block_iff]
    exact ⟨fun ⟨s, hs, ha⟩ => ⟨s, hp.mem_iff.1 hs, ha⟩, fun ⟨s, hs, ha⟩ => ⟨s, hp.mem_iff.2 hs, ha⟩⟩
  | inBlock _ ih =>
    intro ctx
    simp only [repeat_block_iff, List.mem_append, List.mem_cons]
    constructor
    · rintro ⟨x, hx | rfl | hx, ha⟩
      · exact ⟨x, Or.inl hx, ha⟩
      · exact ⟨_, Or.inr (Or.inl rfl), (ih ctx).1 ha⟩
      · exact ⟨x, Or.inr (Or.inr hx), ha⟩
    · rintro ⟨x, hx | rfl | hx, ha⟩
      · exact ⟨x, Or.inl hx, ha⟩
      · exact ⟨_, Or.inr (Or.inl rfl), (ih ctx).2 ha⟩
      · exact ⟨x, Or.inr (Or.inr hx), ha⟩
  | inLoop _ ih => intro ctx; simp only [repeat_loop_iff]; exact ih ctx
  | trans _ _ ih1 ih2 => intro ctx; exact (ih1 ctx).trans (ih2 ctx)

theorem foldBlock_ok_iff (vf : Stmt → M Used) (acc : Used) (body : List Stmt) :
    (∃ u, foldBlock vf false acc body = .ok u) ↔ ∀ s ∈ body, ∃ us, vf s = .ok us := by
  constructor
  · rintro ⟨u, h⟩; exact foldBlock_all_ok _ _ _ _ _ h
  · intro h
    induction body generalizing acc with
    | nil => exact ⟨acc, rfl⟩
    | cons s rest ih =>
      obtain ⟨us, hus⟩ := h s List.mem_cons_self
      obtain ⟨t, ht⟩ := mergeInto_false_ok acc us
      obtain ⟨u, hu⟩ := ih t (fun s' hs' => h s' (List.mem_cons_of_mem _ hs'))
      exact ⟨u, by simp only [foldBlock, bind, Except.bind, hus, ht, hu]⟩

/-- the plain analysis succeeds on the permuted statement if it does on the original -/
theorem ok_perm {s s' : Stmt} (h : PermPar s s') :
    ∀ f ctx, (∃ u, usedStmtF false allQ macros f ctx s = .ok u) → ∃ u', usedStmtF false allQ macros f ctx s' = .ok u' := by
  induction h with
  | refl s => intro f ctx h; exact h
  | here hp =>
    intro f ctx h
    cases f with
    | zero => obtain ⟨u, hu⟩ := h; simp [usedStmtF] at hu
    | succ f =>
      simp only [usedStmtF, Bool.false_and] at h ⊢
      rw [foldBlock_ok_iff] at h ⊢
      exact fun s hs => h s (hp.mem_iff.2 hs)
  | inBlock _ ih =>
    intro f ctx h
    cases f with
    | zero => obtain ⟨u, hu⟩ := h; simp [usedStmtF] at hu
    | succ f =>
      simp only [usedStmtF, Bool.false_and] at h ⊢
      rw [foldBlock_ok_iff] at h ⊢
      intro x hx
      simp only [List.mem_append, List.mem_cons] at hx
      rcases hx with hx | rfl | hx
      · exact h x (by simp [hx])
      · exact ih f ctx (h _ (by simp))
      · exact h x (by simp [hx])
  | inLoop _ ih =>
    intro f ctx h
    cases f with
    | zero => obtain ⟨u, hu⟩ := h; simp [usedStmtF] at hu
    | succ f => simp only [usedStmtF] at h ⊢; exact ih f ctx h
  | trans _ _ ih1 ih2 => intro f ctx h; exact ih2 f ctx (ih1 f ctx h)

/-! fuel: the nesting depth does not change -/

theorem stmtsDepth_append (a b : List Stmt) : stmtsDepth (a ++ b) = max (stmtsDepth a) (stmtsDepth b) := by
  induction a with
  | nil => simp [stmtsDepth]
  | cons x xs ih => simp only [List.cons_append, stmtsDepth, ih]; omega

theorem stmtsDepth_perm {a b : List Stmt} (h : a.Perm b) : stmtsDepth a = stmtsDepth b := by
  induction h with
  | nil => rfl
  | cons x _ ih => simp only [stmtsDepth, ih]
  | swap x y l => simp only [stmtsDepth]; omega
  | trans _ _ ih1 ih2 => exact ih1.trans ih2

theorem stmtDepth_perm {s s' : Stmt} (h : PermPar s s') : stmtDepth s = stmtDepth s' := by
  induction h with
  | refl s => rfl
  | here hp => simp only [stmtDepth, stmtsDepth_perm hp]
  | inBlock _ ih => simp only [stmtDepth, stmtsDepth_append, stmtsDepth, ih]
  | inLoop _ ih => simp only [stmtDepth, ih]
  | trans _ _ ih1 ih2 => exact ih1.trans ih2

end Jaqal.UsedQubits
