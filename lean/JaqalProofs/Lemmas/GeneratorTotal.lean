import JaqalProofs.Lemmas.Generator
/-! `generate_jaqal_program` succeeds on printable circuits. -/
namespace Jaqal.Generator
open Jaqal

def printableVal (v : Val) : Bool := (genValue v).isSome

/-- `f"{iterations}"` is only evaluated for a subcircuit whose count is not `1` -/
def fmtOk (sub : Bool) (it : Val) : Bool :=
  !sub || !itersNe1 it ||
    match it with
    | .int _ => true | .flt _ => true | .const _ _ => true | .param _ _ => true | .none => true | .str _ => true
    | _ => false

mutual
  /-- every value in argument / count position is a number or a named object, loop bodies are blocks -/
  def printable : Stmt → Bool
    | .gate _ _ args => args.all (fun a => printableVal a.2)
    | .block _ sub it body => fmtOk sub it && printableL body
    | .loop c (.block _ sub it body) => printableVal c && fmtOk sub it && printableL body
    | .loop _ _ => false
  def printableL : List Stmt → Bool
    | [] => true
    | s :: r => printable s && printableL r
end

theorem joinValue_ok {v : Val} (h : printableVal v = true) : ∃ s, joinValue v = .ok s := by
  unfold printableVal at h
  obtain ⟨s, hs⟩ := Option.isSome_iff_exists.mp h
  simp [joinValue, hs, pure, Except.pure]

theorem genGate_ok (d : Nat) (name : String) (args : List (String × Val))
    (h : (args.all fun a => printableVal a.2) = true) : ∃ s, genGate d name args = .ok s := by
  have : ∃ vs, args.mapM (fun a => joinValue a.2) = .ok vs := by
    induction args with
    | nil => exact ⟨[], rfl⟩
    | cons a as ih =>
      simp only [List.all_cons, Bool.and_eq_true] at h
      obtain ⟨s, hs⟩ := joinValue_ok h.1
      obtain ⟨vs, hvs⟩ := ih h.2
      simp [List.mapM_cons, hs, hvs, bind, Except.bind, pure, Except.pure]
  obtain ⟨vs, hvs⟩ := this
  simp [genGate, hvs, bind, Except.bind, pure, Except.pure]

theorem blockOpen_ok (ind : Bool) (d : Nat) (par sub : Bool) (it : Val) (h : fmtOk sub it = true) :
    ∃ s, blockOpen ind d par sub it = .ok s := by
  unfold fmtOk at h
  cases sub
  · simp [blockOpen, bind, Except.bind, pure, Except.pure]
  · cases hne : itersNe1 it
    · simp [blockOpen, hne, bind, Except.bind, pure, Except.pure]
    · simp only [Bool.not_true, hne, Bool.or_self, Bool.false_or] at h
      cases it <;> simp at h <;> simp [blockOpen, hne, fmtIters, bind, Except.bind, pure, Except.pure]

mutual
  theorem genStmt_ok : ∀ (d : Nat) (s : Stmt), printable s = true → ∃ t, genStmt d s = .ok t
    | d, .gate n g args, h => by
      simp only [printable] at h
      simpa [genStmt] using genGate_ok d n args h
    | d, .block par sub it body, h => by
      simp only [printable, Bool.and_eq_true] at h
      obtain ⟨o, ho⟩ := blockOpen_ok true d par sub it h.1
      obtain ⟨i, hi⟩ := genItems_ok par (d + 1) body h.2
      simp [genStmt, ho, hi, bind, Except.bind, pure, Except.pure]
    | d, .loop c (.block par sub it body), h => by
      simp only [printable, Bool.and_eq_true] at h
      obtain ⟨o, ho⟩ := blockOpen_ok false d par sub it h.1.2
      obtain ⟨i, hi⟩ := genItems_ok par (d + 1) body h.2
      obtain ⟨cv, hc⟩ := joinValue_ok h.1.1
      simp [genStmt, ho, hi, hc, bind, Except.bind, pure, Except.pure]
    | _, .loop _ (.gate ..), h => by simp [printable] at h
    | _, .loop _ (.loop ..), h => by simp [printable] at h
  theorem genItems_ok : ∀ (par : Bool) (d : Nat) (l : List Stmt), printableL l = true → ∃ t, genItems par d l = .ok t
    | _, _, [], _ => ⟨"", rfl⟩
    | par, d, .block p false it b :: rest, h => by
      simp only [printableL, printable, Bool.and_eq_true] at h
      obtain ⟨y, hy⟩ := genItems_ok par d rest h.2
      by_cases hp : p = par
      · obtain ⟨x, hx⟩ := genItems_ok par d b h.1.2
        simp [genItems, hp, hx, hy, bind, Except.bind, pure, Except.pure]
      · obtain ⟨x, hx⟩ := genStmt_ok d (.block p false it b) (by simp [printable, h.1])
        simp [genItems, hp, hx, hy, bind, Except.bind, pure, Except.pure]
    | par, d, .block p true it b :: rest, h => by
      simp only [printableL, Bool.and_eq_true] at h
      obtain ⟨x, hx⟩ := genStmt_ok d _ h.1
      obtain ⟨y, hy⟩ := genItems_ok par d rest h.2
      simp [genItems, hx, hy, bind, Except.bind, pure, Except.pure]
    | par, d, .gate n g a :: rest, h => by
      simp only [printableL, Bool.and_eq_true] at h
      obtain ⟨x, hx⟩ := genStmt_ok d _ h.1
      obtain ⟨y, hy⟩ := genItems_ok par d rest h.2
      simp [genItems, hx, hy, bind, Except.bind, pure, Except.pure]
    | par, d, .loop c b :: rest, h => by
      simp only [printableL, Bool.and_eq_true] at h
      obtain ⟨x, hx⟩ := genStmt_ok d _ h.1
      obtain ⟨y, hy⟩ := genItems_ok par d rest h.2
      simp [genItems, hx, hy, bind, Except.bind, pure, Except.pure]
end

theorem concatM_ok {α} (f : α → M String) : ∀ l : List α, (∀ x ∈ l, ∃ s, f x = .ok s) → ∃ s, concatM f l = .ok s
  | [], _ => ⟨"", rfl⟩
  | x :: xs, h => by
    obtain ⟨a, ha⟩ := h x (by simp)
    obtain ⟨b, hb⟩ := concatM_ok f xs (fun y hy => h y (by simp [hy]))
    simp [concatM, ha, hb, bind, Except.bind, pure, Except.pure]

/-- a bound of a slice whose truthiness Python can take without looking at a register -/
def plainBound : Val → Bool
  | .regF .. => false | .regA .. => false | .regS .. => false | _ => true

/-- declarations the generator can print -/
def printableReg : Val → Bool
  | .regF _ size => printableVal size
  | .qubit _ src idx => src.name?.isSome && printableVal idx
  | .regA _ src => src.name?.isSome
  | .regS _ src start _ step => src.name?.isSome && plainBound start && plainBound step
  | _ => false

def printableLet : Val → Bool
  | .const _ v => printableVal v
  | _ => false

/-- What `generate_jaqal_program` can print: `from … usepulses *` only; lets with a number or a constant as value;
registers / aliases / named qubits whose size, index, source and bounds are numbers or named objects (the bounds
`start` and `step`, whose truthiness is taken, are not registers); macro bodies and the circuit body are blocks;
every argument and count is a number or a named object; a loop's body is a block; a subcircuit count other than 1
is a number, a let or a parameter. Everything the parser builds is printable. -/
structure Printable (c : Circuit) : Prop where
  usepulses : ∀ u ∈ c.usepulses, u.2 = "*"
  constants : ∀ v ∈ c.constants, printableLet v = true
  registers : ∀ v ∈ c.registers, printableReg v = true
  macros : ∀ m ∈ c.macros, ∃ par sub it body, m.body = .block par sub it body ∧ printable m.body = true
  body : ∃ par sub it stmts, c.body = .block par sub it stmts ∧ printableL stmts = true

theorem truthy_ok {v : Val} (h : plainBound v = true) : ∃ b, truthy v = .ok b := by
  cases v <;> simp [plainBound] at h <;> exact ⟨_, rfl⟩

theorem printable_of_mem : ∀ l : List Stmt, printableL l = true → ∀ s ∈ l, printable s = true := by
  intro l
  induction l with
  | nil => intro _ s hs; simp at hs
  | cons a as ih =>
    intro hl s hs
    simp only [printableL, Bool.and_eq_true] at hl
    rcases List.mem_cons.mp hs with rfl | hs'
    · exact hl.1
    · exact ih hl.2 s hs'

theorem genLet_ok {v : Val} (h : printableLet v = true) : ∃ s, genLet v = .ok s := by
  cases v <;> simp [printableLet] at h
  obtain ⟨s, hs⟩ := joinValue_ok h
  simp [genLet, hs, bind, Except.bind, pure, Except.pure]

theorem genRegLine_ok {v : Val} (h : printableReg v = true) :
    ∃ s, (do if ← fundamentalAttr v then genReg v else pure "" : M String) = .ok s := by
  cases v <;> simp [printableReg] at h
  · simp [fundamentalAttr, bind, Except.bind, pure, Except.pure]
  · obtain ⟨s, hs⟩ := joinValue_ok h
    simp [fundamentalAttr, genReg, hs, bind, Except.bind, pure, Except.pure]
  · simp [fundamentalAttr, bind, Except.bind, pure, Except.pure]
  · simp [fundamentalAttr, bind, Except.bind, pure, Except.pure]

theorem genMapLine_ok {v : Val} (h : printableReg v = true) :
    ∃ s, (do if !(← fundamentalAttr v) then genMap v else pure "" : M String) = .ok s := by
  cases v with
  | qubit n src idx =>
    simp only [printableReg, Bool.and_eq_true] at h
    obtain ⟨n', hn⟩ := Option.isSome_iff_exists.mp h.1
    obtain ⟨s, hs⟩ := joinValue_ok h.2
    simp [fundamentalAttr, genMap, nameAttr, hn, hs, bind, Except.bind, pure, Except.pure]
  | regF n size => simp [fundamentalAttr, bind, Except.bind, pure, Except.pure]
  | regA n src =>
    simp only [printableReg] at h
    obtain ⟨n', hn⟩ := Option.isSome_iff_exists.mp h
    simp [fundamentalAttr, genMap, nameAttr, hn, bind, Except.bind, pure, Except.pure]
  | regS n src st sp se =>
    simp only [printableReg, Bool.and_eq_true] at h
    obtain ⟨n', hn⟩ := Option.isSome_iff_exists.mp h.1.1
    obtain ⟨b1, hb1⟩ := truthy_ok h.1.2
    obtain ⟨b2, hb2⟩ := truthy_ok h.2
    cases b2 <;> simp [fundamentalAttr, genMap, nameAttr, hn, notateSlice, hb1, hb2, bind, Except.bind, pure, Except.pure]
  | _ => simp [printableReg] at h

theorem genMacro_ok {m : Macro} (h : ∃ par sub it body, m.body = .block par sub it body ∧ printable m.body = true) :
    ∃ s, genMacro m = .ok s := by
  obtain ⟨par, sub, it, body, hb, hp⟩ := h
  rw [hb] at hp
  simp only [printable, Bool.and_eq_true] at hp
  obtain ⟨o, ho⟩ := blockOpen_ok false 0 par sub it hp.1
  obtain ⟨i, hi⟩ := genItems_ok par 1 body hp.2
  simp [genMacro, hb, ho, hi, bind, Except.bind, pure, Except.pure]

/-- `generate_jaqal_program` returns a text (raises nothing) on every printable circuit. -/
theorem gen_total (c : Circuit) (h : Printable c) : ∃ s, gen c = .ok s := by
  obtain ⟨ups, hups⟩ := concatM_ok genUsepulses c.usepulses (fun u hu => by
    simp [genUsepulses, h.usepulses u hu, pure, Except.pure])
  obtain ⟨lets, hlets⟩ := concatM_ok genLet c.constants (fun v hv => genLet_ok (h.constants v hv))
  obtain ⟨regs, hregs⟩ := concatM_ok (fun r => do if ← fundamentalAttr r then genReg r else pure "") c.registers
    (fun v hv => genRegLine_ok (h.registers v hv))
  obtain ⟨maps, hmaps⟩ := concatM_ok (fun r => do if !(← fundamentalAttr r) then genMap r else pure "") c.registers
    (fun v hv => genMapLine_ok (h.registers v hv))
  obtain ⟨macros, hmacros⟩ := concatM_ok genMacro c.macros (fun m hm => genMacro_ok (h.macros m hm))
  obtain ⟨par, sub, it, stmts, hb, hp⟩ := h.body
  obtain ⟨body, hbody⟩ := concatM_ok (genStmt 0) stmts (fun s hs => genStmt_ok 0 s (printable_of_mem stmts hp s hs))
  simp only [gen, hups, hlets, hregs, hmaps, hmacros, hb, iterBody]
  simp [bind, Except.bind, pure, Except.pure, hbody]

end Jaqal.Generator
