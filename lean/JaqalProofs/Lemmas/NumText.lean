import JaqalModel.Model.NumText
/-! Lemmas for the literal layer of C01 (`Props/C01Literals.lean`). Core Lean only. -/
namespace Jaqal.NumText
open Jaqal

/-! ### `span` on a list whose shape is known -/

theorem span_loop_append_stop {p : Char → Bool} (l r acc : List Char)
    (hl : ∀ c ∈ l, p c = true) (hr : ∀ c ∈ r.head?, p c = false) :
    List.span.loop p (l ++ r) acc = (acc.reverse ++ l, r) := by
  induction l generalizing acc with
  | nil =>
    cases r with
    | nil => simp [List.span.loop]
    | cons c r' => simp [List.span.loop, hr c (by simp)]
  | cons a l ih =>
    have ha : p a = true := hl a (by simp)
    simp only [List.cons_append, List.span.loop, ha]
    rw [ih _ (fun c hc => hl c (by simp [hc]))]
    simp

theorem span_append_stop {p : Char → Bool} (l r : List Char)
    (hl : ∀ c ∈ l, p c = true) (hr : ∀ c ∈ r.head?, p c = false) :
    (l ++ r).span p = (l, r) := by
  rw [List.span, span_loop_append_stop l r [] hl hr]; simp

/-! ### digits -/

theorem isDigit_natDigits {n : Nat} : ∀ c ∈ natDigits n, c.isDigit = true :=
  fun _ hc => Nat.isDigit_of_mem_toDigits (by decide) (by decide) hc

theorem natDigits_ne_nil {n : Nat} : natDigits n ≠ [] := Nat.toDigits_ne_nil

theorem length_natDigits_pos {n : Nat} : 0 < (natDigits n).length := Nat.length_toDigits_pos

@[simp] theorem digitsVal_natDigits {n : Nat} : digitsVal (natDigits n) = n :=
  Nat.ofDigitChars_ten_toDigits

@[simp] theorem digitsVal_nil : digitsVal [] = 0 := rfl

theorem digitsVal_append (l m : List Char) :
    digitsVal (l ++ m) = digitsVal l * 10 ^ m.length + digitsVal m := by
  unfold digitsVal
  rw [Nat.ofDigitChars_append, Nat.ofDigitChars_eq_ofDigitChars_zero, Nat.mul_comm]

@[simp] theorem digitsVal_zeros (k : Nat) : digitsVal (zeros k) = 0 := by
  simp [digitsVal, zeros]

@[simp] theorem length_zeros (k : Nat) : (zeros k).length = k := by simp [zeros]

theorem isDigit_zeros {k : Nat} : ∀ c ∈ zeros k, c.isDigit = true := by
  intro c hc
  simp only [zeros, List.mem_replicate] at hc
  rw [hc.2]; decide

@[simp] theorem digitsVal_zero_char : digitsVal ['0'] = 0 := by decide

theorem digitsVal_cons_zero (l : List Char) : digitsVal ('0' :: l) = digitsVal l := by
  have := digitsVal_append ['0'] l
  simpa using this

theorem isDigit_pad2 {k : Nat} : ∀ c ∈ pad2 k, c.isDigit = true := by
  intro c hc
  unfold pad2 at hc
  split at hc
  · rcases List.mem_cons.mp hc with h | h
    · rw [h]; decide
    · exact isDigit_natDigits c h
  · exact isDigit_natDigits c hc

theorem pad2_ne_nil {k : Nat} : pad2 k ≠ [] := by
  unfold pad2; split
  · simp
  · exact natDigits_ne_nil

@[simp] theorem digitsVal_pad2 {k : Nat} : digitsVal (pad2 k) = k := by
  unfold pad2; split
  · rw [digitsVal_cons_zero]; simp
  · simp

/-! ### canonical decimals -/

theorem stripZeros_fix (fuel m : Nat) (e : Int) (h : m % 10 ≠ 0) :
    Dec.stripZeros fuel m e = (m, e) := by
  cases fuel with
  | zero => rfl
  | succ f => simp [Dec.stripZeros, h]

theorem stripZeros_scale (k : Nat) : ∀ (fuel m : Nat) (e : Int), m % 10 ≠ 0 → k ≤ fuel →
    Dec.stripZeros fuel (m * 10 ^ k) e = (m, e + k) := by
  induction k with
  | zero => intro fuel m e h _; simpa using stripZeros_fix fuel m e h
  | succ k ih =>
    intro fuel m e h hk
    cases fuel with
    | zero => omega
    | succ f =>
      have hm : m ≠ 0 := by intro h0; simp [h0] at h
      have h1 : m * 10 ^ (k + 1) ≠ 0 := by
        have : 0 < m * 10 ^ (k + 1) := Nat.mul_pos (by omega) (Nat.pow_pos (by decide))
        omega
      have h2 : m * 10 ^ (k + 1) % 10 = 0 := by
        rw [Nat.pow_succ, ← Nat.mul_assoc]; exact Nat.mul_mod_left _ _
      have h3 : m * 10 ^ (k + 1) / 10 = m * 10 ^ k := by
        rw [Nat.pow_succ, ← Nat.mul_assoc]; exact Nat.mul_div_cancel _ (by decide)
      rw [Dec.stripZeros, if_pos ⟨h1, h2⟩, h3, ih f m (e + 1) h (by omega)]
      congr 1
      omega

theorem normalize_of_canonical {d : Dec} (h : d.Canonical) : d.normalize = d := by
  rcases d with ⟨s, m, e⟩
  unfold Dec.Canonical at h
  unfold Dec.normalize
  rcases h with ⟨h1, h2⟩ | h
  · simp only at h1 h2; subst h1; subst h2; simp
  · simp only at h
    have hm : m ≠ 0 := by intro h0; simp [h0] at h
    simp [hm, stripZeros_fix _ _ _ h]

theorem normalize_zero (s : Bool) (e : Int) : Dec.normalize ⟨s, 0, e⟩ = ⟨s, 0, 0⟩ := by
  simp [Dec.normalize]

theorem normalize_scale (s : Bool) (m k : Nat) (e : Int) (h : m % 10 ≠ 0) :
    Dec.normalize ⟨s, m * 10 ^ k, e - k⟩ = ⟨s, m, e⟩ := by
  have hm : m ≠ 0 := by intro h0; simp [h0] at h
  have hpos : 0 < m * 10 ^ k := Nat.mul_pos (by omega) (Nat.pow_pos (by decide))
  have hk : k ≤ m * 10 ^ k := by
    have : k < 10 ^ k := Nat.lt_pow_self (by decide)
    have : 10 ^ k ≤ m * 10 ^ k := Nat.le_mul_of_pos_left _ (by omega)
    omega
  unfold Dec.normalize
  simp only
  rw [if_neg (by omega), stripZeros_scale k _ m _ h hk]
  simp

theorem stripZeros_canonical : ∀ (fuel m : Nat) (e : Int), m ≠ 0 → m ≤ fuel →
    (Dec.stripZeros fuel m e).1 % 10 ≠ 0 := by
  intro fuel
  induction fuel with
  | zero => intro m e h1 h2; omega
  | succ f ih =>
    intro m e h1 h2
    rw [Dec.stripZeros]
    split
    · rename_i hc
      exact ih (m / 10) (e + 1) (by omega) (by omega)
    · rename_i hc
      simp only
      intro h0
      exact hc ⟨h1, h0⟩

theorem normalize_canonical (d : Dec) : d.normalize.Canonical := by
  unfold Dec.normalize
  split
  · left; simp
  · rename_i h
    right
    exact stripZeros_canonical d.mant d.mant d.exp h (Nat.le_refl _)

/-! ### the lexer on a text whose pieces are known -/

def SignOK (sg : List Char) : Prop := sg = [] ∨ sg = ['-'] ∨ sg = ['+']

theorem not_sign_of_isDigit {c : Char} (h : c.isDigit = true) : (c == '-' || c == '+') = false := by
  simp only [Bool.or_eq_false_iff, beq_eq_false_iff_ne]
  constructor <;> (intro h0; subst h0; exact absurd h (by decide))

theorem ne_dot_of_isDigit {c : Char} (h : c.isDigit = true) : (c == '.') = false := by
  simp only [beq_eq_false_iff_ne]
  intro h0; subst h0; exact absurd h (by decide)

theorem optSign_append (sg X : List Char) (h : SignOK sg)
    (hX : ∀ c ∈ X.head?, (c == '-' || c == '+') = false) : optSign (sg ++ X) = (sg, X) := by
  rcases h with h | h | h <;> subst h
  · cases X with
    | nil => rfl
    | cons c X' => simp [optSign, hX c (by simp)]
  · simp [optSign]
  · simp [optSign]

/-- The next character (if any) cannot continue a number token. -/
def Stop (rest : List Char) : Prop := ∀ c ∈ rest.head?, c.isDigit = false ∧ c ≠ 'e' ∧ c ≠ 'E'

theorem Stop.nil : Stop [] := by intro c hc; simp at hc

theorem Stop.cons {c : Char} {r : List Char} (h1 : c.isDigit = false) (h2 : c ≠ 'e') (h3 : c ≠ 'E') :
    Stop (c :: r) := by
  intro c' hc; simp at hc; subst hc; exact ⟨h1, h2, h3⟩

theorem Stop.space (r : List Char) : Stop (' ' :: r) := Stop.cons (by decide) (by decide) (by decide)
theorem Stop.newline (r : List Char) : Stop ('\n' :: r) := Stop.cons (by decide) (by decide) (by decide)

theorem parseExp_stop {rest : List Char} (h : Stop rest) : parseExp rest = none := by
  cases rest with
  | nil => rfl
  | cons c r =>
    have := h c (by simp)
    simp [parseExp, this.2.1, this.2.2]

structure Parts.WF (p : Parts) : Prop where
  sign : SignOK p.sign
  ip : ∀ c ∈ p.ip, c.isDigit = true
  fp : ∀ c ∈ p.fp, c.isDigit = true
  fp_ne : p.fp ≠ []
  ex : ∀ c sg ds, p.ex = some (c, sg, ds) →
    (c = 'e' ∨ c = 'E') ∧ SignOK sg ∧ (∀ x ∈ ds, x.isDigit = true) ∧ ds ≠ []

theorem head?_append_of_ne_nil {l r : List Char} (h : l ≠ []) : (l ++ r).head? = l.head? := by
  cases l with
  | nil => exact absurd rfl h
  | cons a l => rfl

theorem mem_of_mem_head? {l : List Char} {c : Char} (h : c ∈ l.head?) : c ∈ l := by
  cases l with
  | nil => simp at h
  | cons a l => simp at h; simp [h]

theorem parseExp_text (c : Char) (sg ds rest : List Char) (hc : c = 'e' ∨ c = 'E') (hsg : SignOK sg)
    (hds : ∀ x ∈ ds, x.isDigit = true) (hne : ds ≠ []) (hrest : Stop rest) :
    parseExp (c :: (sg ++ ds) ++ rest) = some ((c, sg, ds), rest) := by
  have hc' : (c == 'e' || c == 'E') = true := by rcases hc with h | h <;> subst h <;> decide
  have h1 : optSign (sg ++ (ds ++ rest)) = (sg, ds ++ rest) := by
    apply optSign_append _ _ hsg
    intro x hx
    rw [head?_append_of_ne_nil hne] at hx
    exact not_sign_of_isDigit (hds x (mem_of_mem_head? hx))
  have h2 : (ds ++ rest).span Char.isDigit = (ds, rest) :=
    span_append_stop ds rest hds (fun x hx => (hrest x hx).1)
  have h3 : ds.isEmpty = false := by cases ds with | nil => exact absurd rfl hne | cons => rfl
  simp only [List.cons_append, List.append_assoc, parseExp, hc', if_true, h1, h2, h3]
  simp

theorem parseNumber_text (p : Parts) (hp : p.WF) (rest : List Char) (hrest : Stop rest) :
    parseNumber (p.text ++ rest) = some (p, rest) := by
  rcases p with ⟨sg, ip, fp, ex⟩
  have hfp3 : fp.isEmpty = false := by
    cases fp with | nil => exact absurd rfl hp.fp_ne | cons => rfl
  -- the text after the fraction digits
  obtain ⟨tail, htail, hparse, hstop⟩ : ∃ tail : List Char,
      (Parts.text ⟨sg, ip, fp, ex⟩ ++ rest = sg ++ (ip ++ '.' :: (fp ++ tail))) ∧
      ((parseExp tail = none ∧ ex = none ∧ tail = rest) ∨
        (∃ ex', parseExp tail = some (ex', rest) ∧ ex = some ex')) ∧
      (∀ x ∈ tail.head?, x.isDigit = false) := by
    cases ex with
    | none =>
      exact ⟨rest, by simp [Parts.text], .inl ⟨parseExp_stop hrest, rfl, rfl⟩, fun x hx => (hrest x hx).1⟩
    | some t =>
      rcases t with ⟨c, esg, ds⟩
      obtain ⟨hc, hsg, hds, hne⟩ := hp.ex c esg ds rfl
      refine ⟨c :: (esg ++ ds) ++ rest, by simp [Parts.text],
        .inr ⟨_, parseExp_text c esg ds rest hc hsg hds hne hrest, rfl⟩, ?_⟩
      intro x hx
      simp at hx; subst hx
      rcases hc with h | h <;> subst h <;> decide
  rw [htail]
  have h1 : optSign (sg ++ (ip ++ '.' :: (fp ++ tail))) = (sg, ip ++ '.' :: (fp ++ tail)) := by
    apply optSign_append _ _ hp.sign
    intro x hx
    cases ip with
    | nil => simp at hx; subst hx; decide
    | cons a ip' =>
      simp at hx; subst hx
      exact not_sign_of_isDigit (hp.ip _ (by simp))
  have h2 : (ip ++ '.' :: (fp ++ tail)).span Char.isDigit = (ip, '.' :: (fp ++ tail)) :=
    span_append_stop ip _ hp.ip (by intro x hx; simp at hx; subst hx; decide)
  have h3 : (fp ++ tail).span Char.isDigit = (fp, tail) := span_append_stop fp tail hp.fp hstop
  simp only [parseNumber, h1, h2, h3, hfp3]
  rcases hparse with ⟨h4, h5, h6⟩ | ⟨ex', h4, h5⟩
  · subst h5; subst h6; simp [h4]
  · subst h5; simp [h4]

theorem parseInt_text (sg ds rest : List Char) (hsg : SignOK sg) (hds : ∀ x ∈ ds, x.isDigit = true)
    (hne : ds ≠ []) (hrest : ∀ c ∈ rest.head?, c.isDigit = false) :
    parseInt (sg ++ ds ++ rest) = some ((sg, ds), rest) := by
  have h1 : optSign (sg ++ (ds ++ rest)) = (sg, ds ++ rest) := by
    apply optSign_append _ _ hsg
    intro x hx
    rw [head?_append_of_ne_nil hne] at hx
    exact not_sign_of_isDigit (hds x (mem_of_mem_head? hx))
  have h2 : (ds ++ rest).span Char.isDigit = (ds, rest) := span_append_stop ds rest hds hrest
  have h3 : ds.isEmpty = false := by cases ds with | nil => exact absurd rfl hne | cons => rfl
  simp only [List.append_assoc, parseInt, h1, h2, h3]
  simp

/-- Digits not followed by a dot are not a NUMBER. -/
theorem parseNumber_int_text (sg ds rest : List Char) (hsg : SignOK sg) (hds : ∀ x ∈ ds, x.isDigit = true)
    (hne : ds ≠ []) (hrest : ∀ c ∈ rest.head?, c.isDigit = false ∧ c ≠ '.') :
    parseNumber (sg ++ ds ++ rest) = none := by
  have h1 : optSign (sg ++ (ds ++ rest)) = (sg, ds ++ rest) := by
    apply optSign_append _ _ hsg
    intro x hx
    rw [head?_append_of_ne_nil hne] at hx
    exact not_sign_of_isDigit (hds x (mem_of_mem_head? hx))
  have h2 : (ds ++ rest).span Char.isDigit = (ds, rest) :=
    span_append_stop ds rest hds (fun c hc => (hrest c hc).1)
  simp only [List.append_assoc, parseNumber, h1, h2]
  cases rest with
  | nil => rfl
  | cons c r =>
    have := (hrest c (by simp)).2
    simp [this]

/-! ### what `genFloat` writes, in pieces -/

theorem ne_e_of_isDigit {c : Char} (h : c.isDigit = true) : c ≠ 'e' := by
  intro h0; subst h0; exact absurd h (by decide)

theorem ne_dot_of_isDigit' {c : Char} (h : c.isDigit = true) : c ≠ '.' := by
  intro h0; subst h0; exact absurd h (by decide)

theorem fix_noE (t : List Char) (h : ∀ c ∈ t, c ≠ 'e') : fixExponentForm t = t := by
  have : t.contains 'e' = false := by
    rw [Bool.eq_false_iff]; intro hc
    exact h 'e' (List.contains_iff_mem.mp hc) rfl
  simp only [fixExponentForm, this, Bool.false_eq_true, if_false]

theorem fix_E (pre post : List Char) (h : ∀ c ∈ pre, c ≠ 'e') :
    fixExponentForm (pre ++ 'e' :: post) =
      (if pre.contains '.' then pre else pre ++ ['.', '0']) ++ 'e' :: post := by
  have h1 : (pre ++ 'e' :: post).contains 'e' = true := by simp
  have h2 : (pre ++ 'e' :: post).span (· != 'e') = (pre, 'e' :: post) :=
    span_append_stop pre _ (fun c hc => by simpa using h c hc) (by intro c hc; simp at hc; subst hc; decide)
  simp only [fixExponentForm, h1, if_true, h2, List.drop_succ_cons, List.drop_zero]

/-- The pieces of the text `genFloat` writes for a canonical decimal. -/
def genParts (d : Dec) : Parts :=
  let s := natDigits d.mant
  let n : Int := s.length
  let e : Int := d.exp + n - 1
  let sg := if d.neg then ['-'] else []
  if -4 ≤ e ∧ e < 16 then
    if e < 0 then ⟨sg, ['0'], zeros (-e - 1).toNat ++ s, none⟩
    else if e ≥ n - 1 then ⟨sg, s ++ zeros (e - (n - 1)).toNat, ['0'], none⟩
    else ⟨sg, s.take (e + 1).toNat, s.drop (e + 1).toNat, none⟩
  else
    ⟨sg, s.take 1, if n > 1 then s.drop 1 else ['0'],
      some ('e', [if e < 0 then '-' else '+'], pad2 e.natAbs)⟩

theorem signList_ne_e (neg : Bool) : ∀ c ∈ (if neg then ['-'] else []), c ≠ 'e' := by
  intro c hc; cases neg <;> simp at hc; subst hc; decide

theorem signList_ne_dot (neg : Bool) : ∀ c ∈ (if neg then ['-'] else []), c ≠ '.' := by
  intro c hc; cases neg <;> simp at hc; subst hc; decide

theorem genFloatL_eq (d : Dec) : genFloatL d = (genParts d.normalize).text := by
  unfold genFloatL reprFloatL
  generalize d.normalize = d'
  rcases d' with ⟨neg, m, x⟩
  simp only [genParts, reprBody]
  have hdig : ∀ c ∈ natDigits m, c.isDigit = true := isDigit_natDigits
  generalize natDigits m = s at hdig
  have hsg := signList_ne_e neg
  have hsd := signList_ne_dot neg
  generalize (if neg = true then ['-'] else []) = sg at hsg hsd
  split
  · -- fixed notation: no `e` in the text
    split
    · rw [fix_noE]
      · simp [Parts.text]
      · intro c hc
        simp only [List.mem_append, List.mem_cons] at hc
        rcases hc with hc | hc | hc | hc | hc
        · exact hsg c hc
        · subst hc; decide
        · subst hc; decide
        · exact ne_e_of_isDigit (isDigit_zeros c hc)
        · exact ne_e_of_isDigit (hdig c hc)
    · split
      · rw [fix_noE]
        · simp [Parts.text]
        · intro c hc
          simp only [List.mem_append, List.mem_cons, List.not_mem_nil, or_false] at hc
          rcases hc with hc | hc | hc | hc | hc
          · exact hsg c hc
          · exact ne_e_of_isDigit (hdig c hc)
          · exact ne_e_of_isDigit (isDigit_zeros c hc)
          · subst hc; decide
          · subst hc; decide
      · rw [fix_noE]
        · simp [Parts.text]
        · intro c hc
          simp only [List.mem_append, List.mem_cons] at hc
          rcases hc with hc | hc | hc | hc
          · exact hsg c hc
          · exact ne_e_of_isDigit (hdig c (List.mem_of_mem_take hc))
          · subst hc; decide
          · exact ne_e_of_isDigit (hdig c (List.mem_of_mem_drop hc))
  · -- exponent notation
    rw [← List.append_assoc, ← List.append_assoc, fix_E]
    · split
      · rename_i hn
        simp [Parts.text]
      · rename_i hn
        have h1 : '.' ∉ sg := fun hc => hsd _ hc rfl
        have h2 : '.' ∉ List.take 1 s :=
          fun hc => ne_dot_of_isDigit' (hdig _ (List.mem_of_mem_take hc)) rfl
        simp [Parts.text, h1, h2]
    · intro c hc
      simp only [List.mem_append] at hc
      rcases hc with (hc | hc) | hc
      · exact hsg c hc
      · exact ne_e_of_isDigit (hdig c (List.mem_of_mem_take hc))
      · split at hc
        · simp only [List.mem_cons] at hc
          rcases hc with hc | hc
          · subst hc; decide
          · exact ne_e_of_isDigit (hdig c (List.mem_of_mem_drop hc))
        · simp at hc

theorem signOK_signList (neg : Bool) : SignOK (if neg then ['-'] else []) := by
  cases neg
  · exact .inl rfl
  · exact .inr (.inl rfl)

theorem genParts_wf (d : Dec) : (genParts d).WF := by
  rcases d with ⟨neg, m, x⟩
  have hdig : ∀ c ∈ natDigits m, c.isDigit = true := isDigit_natDigits
  have hne : 0 < (natDigits m).length := length_natDigits_pos
  simp only [genParts]
  generalize natDigits m = s at hdig hne
  split
  · split
    · refine ⟨signOK_signList neg, ?_, ?_, ?_, ?_⟩
      · intro c hc; simp at hc; subst hc; decide
      · intro c hc
        rcases List.mem_append.mp hc with hc | hc
        · exact isDigit_zeros c hc
        · exact hdig c hc
      · cases s with
        | nil => simp at hne
        | cons a s => simp
      · intro c sg ds h; simp at h
    · split
      · refine ⟨signOK_signList neg, ?_, ?_, ?_, ?_⟩
        · intro c hc
          rcases List.mem_append.mp hc with hc | hc
          · exact hdig c hc
          · exact isDigit_zeros c hc
        · intro c hc; simp at hc; subst hc; decide
        · simp
        · intro c sg ds h; simp at h
      · rename_i h1 h2 h3
        refine ⟨signOK_signList neg, ?_, ?_, ?_, ?_⟩
        · intro c hc; exact hdig c (List.mem_of_mem_take hc)
        · intro c hc; exact hdig c (List.mem_of_mem_drop hc)
        · simp only [ne_eq, List.drop_eq_nil_iff]; omega
        · intro c sg ds h; simp at h
  · have hex : ∀ (c : Char) (sg ds : List Char),
        some ('e', [if x + ↑s.length - 1 < 0 then '-' else '+'], pad2 (x + ↑s.length - 1).natAbs)
          = some (c, sg, ds) →
        (c = 'e' ∨ c = 'E') ∧ SignOK sg ∧ (∀ x ∈ ds, x.isDigit = true) ∧ ds ≠ [] := by
      intro c sg ds h
      simp only [Option.some.injEq, Prod.mk.injEq] at h
      obtain ⟨h1, h2, h3⟩ := h
      subst h1; subst h2; subst h3
      refine ⟨.inl rfl, ?_, isDigit_pad2, pad2_ne_nil⟩
      split
      · exact .inr (.inl rfl)
      · exact .inr (.inr rfl)
    by_cases hn : (↑s.length : Int) > 1
    · simp only [hn, if_true]
      refine ⟨signOK_signList neg, ?_, ?_, ?_, hex⟩
      · intro c hc; exact hdig c (List.mem_of_mem_take hc)
      · intro c hc; exact hdig c (List.mem_of_mem_drop hc)
      · simp only [ne_eq, List.drop_eq_nil_iff]; omega
    · simp only [hn, if_false]
      refine ⟨signOK_signList neg, ?_, ?_, ?_, hex⟩
      · intro c hc; exact hdig c (List.mem_of_mem_take hc)
      · intro c hc; simp at hc; subst hc; decide
      · simp

theorem signNeg_signList (neg : Bool) : signNeg (if neg then ['-'] else []) = neg := by
  cases neg <;> decide

theorem applySign_sciSign (e : Int) : applySign [if e < 0 then '-' else '+'] e.natAbs = e := by
  unfold applySign
  split
  · have : signNeg ['-'] = true := by decide
    simp only [this, if_true]; omega
  · have : signNeg ['+'] = false := by decide
    simp only [this, Bool.false_eq_true, if_false]; omega

theorem genParts_value (d : Dec) (hd : d.Canonical) : (genParts d).value = d := by
  rcases d with ⟨neg, m, x⟩
  have hne : 0 < (natDigits m).length := length_natDigits_pos
  have hval : digitsVal (natDigits m) = m := digitsVal_natDigits
  have hzero : m = 0 → (natDigits m).length = 1 := by intro h; subst h; decide
  -- a canonical decimal is zero with exponent 0, or has no trailing zero
  have hcan : (m = 0 ∧ x = 0) ∨ m % 10 ≠ 0 := hd
  have hnorm := normalize_of_canonical hd
  simp only [genParts]
  generalize natDigits m = s at hne hval hzero
  split
  · split
    · -- 0.000ddd
      rename_i h1 h2
      simp only [Parts.value, Parts.expValue, signNeg_signList]
      have e1 : digitsVal (['0'] ++ (zeros (-(x + ↑s.length - 1) - 1).toNat ++ s)) = m := by
        rw [List.singleton_append, digitsVal_cons_zero, digitsVal_append]; simp [hval]
      have e2 : (0 : Int) - ↑(zeros (-(x + ↑s.length - 1) - 1).toNat ++ s).length = x := by
        simp only [List.length_append, length_zeros]; omega
      rw [e1, e2]; exact hnorm
    · split
      · -- ddd000.0
        rename_i h1 h2 h3
        simp only [Parts.value, Parts.expValue, signNeg_signList]
        have hx : 0 ≤ x := by omega
        have e1 : digitsVal (s ++ zeros (x + ↑s.length - 1 - (↑s.length - 1)).toNat ++ ['0'])
            = m * 10 ^ (x.toNat + 1) := by
          rw [digitsVal_append, digitsVal_append]
          have : (x + ↑s.length - 1 - (↑s.length - 1)).toNat = x.toNat := by omega
          simp [hval, this, Nat.pow_succ, Nat.mul_assoc]
        have e2 : (0 : Int) - ↑(['0'] : List Char).length = x - ↑(x.toNat + 1) := by
          simp only [List.length_singleton]; omega
        rw [e1, e2]
        rcases hcan with ⟨hm, hx0⟩ | hm
        · subst hm; subst hx0; simp [normalize_zero]
        · exact normalize_scale neg m _ x hm
      · -- dd.ddd
        rename_i h1 h2 h3
        simp only [Parts.value, Parts.expValue, signNeg_signList]
        have e1 : digitsVal (List.take (x + ↑s.length - 1 + 1).toNat s ++
            List.drop (x + ↑s.length - 1 + 1).toNat s) = m := by
          rw [List.take_append_drop]; exact hval
        have e2 : (0 : Int) - ↑(List.drop (x + ↑s.length - 1 + 1).toNat s).length = x := by
          simp only [List.length_drop]; omega
        rw [e1, e2]; exact hnorm
  · -- exponent notation
    rename_i h1
    have hm : m % 10 ≠ 0 := by
      rcases hcan with ⟨hm, hx0⟩ | hm
      · exfalso
        have := hzero hm
        omega
      · exact hm
    simp only [Parts.value, Parts.expValue, signNeg_signList, applySign_sciSign, digitsVal_pad2]
    by_cases hn : (↑s.length : Int) > 1
    · simp only [hn, if_true]
      have e1 : digitsVal (List.take 1 s ++ List.drop 1 s) = m := by
        rw [List.take_append_drop]; exact hval
      have e2 : x + ↑s.length - 1 - ↑(List.drop 1 s).length = x := by
        simp only [List.length_drop]; omega
      rw [e1, e2]; exact hnorm
    · simp only [hn, if_false]
      have hlen : s.length ≤ 1 := by omega
      have e1 : digitsVal (List.take 1 s ++ ['0']) = m * 10 ^ 1 := by
        rw [List.take_of_length_le hlen, digitsVal_append]; simp [hval]
      have e2 : x + ↑s.length - 1 - ↑(['0'] : List Char).length = x - ↑(1 : Nat) := by
        simp only [List.length_singleton]; omega
      rw [e1, e2]
      exact normalize_scale neg m 1 x hm

/-! ### list-level round trip -/

theorem parseNumber_genFloatL (d : Dec) (rest : List Char) (h : Stop rest) :
    parseNumber (genFloatL d ++ rest) = some (genParts d.normalize, rest) := by
  rw [genFloatL_eq]; exact parseNumber_text _ (genParts_wf _) rest h

theorem matchNumber_genFloatL (d : Dec) (rest : List Char) (h : Stop rest) :
    matchNumber (genFloatL d ++ rest) = some (genFloatL d, rest) := by
  rw [matchNumber, parseNumber_genFloatL d rest h]; simp [genFloatL_eq]

theorem numberValue_genFloatL (d : Dec) : numberValue (genFloatL d) = some d.normalize := by
  have := parseNumber_genFloatL d [] Stop.nil
  rw [List.append_nil] at this
  simp [numberValue, this, genParts_value _ (normalize_canonical d)]

theorem genParts_ip_head (d : Dec) : ∃ c r, (genParts d).ip = c :: r ∧ c.isDigit = true := by
  have hw := genParts_wf d
  suffices h : (genParts d).ip ≠ [] by
    cases hip : (genParts d).ip with
    | nil => exact absurd hip h
    | cons c r => exact ⟨c, r, rfl, hw.ip c (by simp [hip])⟩
  rcases d with ⟨neg, m, x⟩
  have hne : 0 < (natDigits m).length := length_natDigits_pos
  simp only [genParts]
  generalize natDigits m = s at hne
  have hs : s ≠ [] := by intro h; simp [h] at hne
  split
  · split
    · simp
    · split
      · simp [hs]
      · simp only [ne_eq, List.take_eq_nil_iff, hs, or_false]; omega
  · simp [hs]

/-- The text begins with `-` or a digit (never with a dot or a plus sign). -/
theorem genFloatL_head (d : Dec) : ∃ c r, genFloatL d = c :: r ∧ (c = '-' ∨ c.isDigit = true) := by
  rw [genFloatL_eq]
  obtain ⟨c, r, hip, hc⟩ := genParts_ip_head d.normalize
  have hs : (genParts d.normalize).sign = if d.normalize.neg then ['-'] else [] := by
    unfold genParts; simp only []
    repeat' split
    all_goals rfl
  unfold Parts.text
  rw [hs, hip]
  cases d.normalize.neg
  · exact ⟨c, _, rfl, .inr hc⟩
  · exact ⟨'-', _, rfl, .inl rfl⟩

theorem readLiteralL_genFloatL (d : Dec) : readLiteralL (genFloatL d) = some (.flt d.normalize) := by
  obtain ⟨c, r, hcr, hc⟩ := genFloatL_head d
  have hm := matchNumber_genFloatL d [] Stop.nil
  rw [List.append_nil] at hm
  have hdot : (c == '.') = false := by
    rcases hc with hc | hc
    · subst hc; decide
    · exact ne_dot_of_isDigit hc
  unfold readLiteralL
  rw [hcr] at hm ⊢
  simp only [hdot, Bool.false_eq_true, if_false, hm, List.isEmpty_nil, if_true]
  rw [← hcr, numberValue_genFloatL]; rfl

theorem genFloatL_normalize (d : Dec) : genFloatL d.normalize = genFloatL d := by
  unfold genFloatL reprFloatL
  simp only [normalize_of_canonical (normalize_canonical d)]

/-! ### integers -/

theorem genIntL_eq (i : Int) :
    genIntL i = (if i < 0 then ['-'] else []) ++ natDigits i.natAbs := by
  unfold genIntL; split <;> simp

theorem signOK_intSign (i : Int) : SignOK (if i < 0 then ['-'] else []) := by
  split
  · exact .inr (.inl rfl)
  · exact .inl rfl

theorem applySign_intSign (i : Int) :
    applySign (if i < 0 then ['-'] else []) i.natAbs = i := by
  unfold applySign
  split
  · have : signNeg ['-'] = true := by decide
    simp only [this, if_true]; omega
  · have : signNeg [] = false := by decide
    simp only [this, Bool.false_eq_true, if_false]; omega

theorem parseInt_genIntL (i : Int) (rest : List Char) (h : ∀ c ∈ rest.head?, c.isDigit = false) :
    parseInt (genIntL i ++ rest) = some (((if i < 0 then ['-'] else []), natDigits i.natAbs), rest) := by
  rw [genIntL_eq]
  exact parseInt_text _ _ rest (signOK_intSign i) isDigit_natDigits natDigits_ne_nil h

theorem matchInt_genIntL (i : Int) (rest : List Char) (h : ∀ c ∈ rest.head?, c.isDigit = false) :
    matchInt (genIntL i ++ rest) = some (genIntL i, rest) := by
  rw [matchInt, parseInt_genIntL i rest h]; simp [genIntL_eq]

theorem matchNumber_genIntL (i : Int) (rest : List Char)
    (h : ∀ c ∈ rest.head?, c.isDigit = false ∧ c ≠ '.') :
    matchNumber (genIntL i ++ rest) = none := by
  rw [genIntL_eq, matchNumber,
    parseNumber_int_text _ _ rest (signOK_intSign i) isDigit_natDigits natDigits_ne_nil h]
  rfl

theorem intValue_genIntL (i : Int) : intValue (genIntL i) = some i := by
  have := parseInt_genIntL i [] (by simp)
  rw [List.append_nil] at this
  simp [intValue, this, applySign_intSign]

theorem genIntL_head (i : Int) : ∃ c r, genIntL i = c :: r ∧ (c = '-' ∨ c.isDigit = true) := by
  unfold genIntL
  split
  · exact ⟨'-', _, rfl, .inl rfl⟩
  · cases h : natDigits i.natAbs with
    | nil => exact absurd h natDigits_ne_nil
    | cons c r =>
      exact ⟨c, r, rfl, .inr (isDigit_natDigits (n := i.natAbs) c (by rw [h]; exact List.mem_cons_self))⟩

theorem readLiteralL_genIntL (i : Int) : readLiteralL (genIntL i) = some (.int i) := by
  obtain ⟨c, r, hcr, hc⟩ := genIntL_head i
  have hn := matchNumber_genIntL i [] (by simp)
  have hm := matchInt_genIntL i [] (by simp)
  rw [List.append_nil] at hn hm
  have hdot : (c == '.') = false := by
    rcases hc with hc | hc
    · subst hc; decide
    · exact ne_dot_of_isDigit hc
  unfold readLiteralL
  rw [hcr] at hm hn ⊢
  simp only [hdot, Bool.false_eq_true, if_false, hn, hm, List.isEmpty_nil, if_true]
  rw [← hcr, intValue_genIntL]; rfl

/-! ### characters of the generated text -/

theorem Parts.WF.chars {p : Parts} (hp : p.WF) : ∀ c ∈ p.text,
    c.isDigit = true ∨ c = '-' ∨ c = '+' ∨ c = '.' ∨ (∃ sg ds, p.ex = some (c, sg, ds)) := by
  have hsign : ∀ sg, SignOK sg → ∀ c ∈ sg, c = '-' ∨ c = '+' := by
    intro sg h c hc
    rcases h with h | h | h <;> subst h <;> simp at hc
    · exact .inl hc
    · exact .inr hc
  rcases p with ⟨sg, ip, fp, ex⟩
  intro c hc
  simp only [Parts.text, List.mem_append, List.mem_cons] at hc
  rcases hc with hc | hc | hc | hc | hc
  · rcases hsign sg hp.sign c hc with h | h
    · exact .inr (.inl h)
    · exact .inr (.inr (.inl h))
  · exact .inl (hp.ip c hc)
  · exact .inr (.inr (.inr (.inl hc)))
  · exact .inl (hp.fp c hc)
  · cases ex with
    | none => simp at hc
    | some t =>
      rcases t with ⟨ec, esg, ds⟩
      obtain ⟨_, h2, h3, _⟩ := hp.ex ec esg ds rfl
      simp only [List.mem_cons, List.mem_append] at hc
      rcases hc with hc | hc | hc
      · subst hc; exact .inr (.inr (.inr (.inr ⟨esg, ds, rfl⟩)))
      · rcases hsign esg h2 c hc with h | h
        · exact .inr (.inl h)
        · exact .inr (.inr (.inl h))
      · exact .inl (h3 c hc)

theorem Parts.WF.last {p : Parts} (hp : p.WF) : ∃ c, p.text.getLast? = some c ∧ c.isDigit = true := by
  have key : ∀ ds : List Char, ds ≠ [] → (∀ x ∈ ds, x.isDigit = true) →
      ∃ c, ds.getLast? = some c ∧ c.isDigit = true := by
    intro ds hne hds
    cases h : ds.getLast? with
    | none => exact absurd (List.getLast?_eq_none_iff.mp h) hne
    | some c => exact ⟨c, rfl, hds c (List.mem_of_getLast? h)⟩
  rcases p with ⟨sg, ip, fp, ex⟩
  cases ex with
  | none =>
    obtain ⟨c, h1, h2⟩ := key fp hp.fp_ne hp.fp
    refine ⟨c, ?_, h2⟩
    simp [Parts.text, List.getLast?_append, List.getLast?_cons, h1]
  | some t =>
    rcases t with ⟨ec, esg, ds⟩
    obtain ⟨_, _, h3, h4⟩ := hp.ex ec esg ds rfl
    obtain ⟨c, h1, h2⟩ := key ds h4 h3
    refine ⟨c, ?_, h2⟩
    simp [Parts.text, List.getLast?_append, List.getLast?_cons, h1]

theorem genParts_ex_char (d : Dec) {c : Char} {sg ds : List Char}
    (h : (genParts d).ex = some (c, sg, ds)) : c = 'e' := by
  unfold genParts at h
  simp only [] at h
  split at h
  · split at h
    · simp at h
    · split at h <;> simp at h
  · simp only [Option.some.injEq, Prod.mk.injEq] at h
    exact h.1.symm

end Jaqal.NumText
