import JaqalProofs.Lemmas.WalkDisc
/-!
# The code's loop check (at loop exit, by trace identity) vs the C12 rule (at the measure_all)

Simulation between `crun` (code) and `brun` (rule) over any token list whose prepare_all addresses
are pairwise distinct and whose brackets are closed at the end.
-/
namespace Jaqal.Walk

def paddrs : List Tok → List Addr
  | [] => []
  | .g .prep a :: r => a :: paddrs r
  | _ :: r => paddrs r

def CState.closed (σ : CState) : List Addr := σ.subs.map (·.1)

def FrameInv (cur : Option Addr) (closed : List Addr) (fc : CFrame) (ft : BFrame) : Prop :=
  fc.count = ft.count ∧
  (ft.openedBefore = true → fc.entry = cur ∧ cur ≠ none) ∧
  (ft.openedBefore = false → ∀ s, fc.entry = some s → cur ≠ some s ∧ (fc.count > 1 → s ∉ closed))

def StackRel (cur : Option Addr) (closed : List Addr) : List CFrame → List BFrame → Prop
  | [], [] => True
  | fc :: rc, ft :: rt => FrameInv cur closed fc ft ∧ StackRel cur closed rc rt
  | _, _ => False

def Fresh (σ : CState) (fut : List Addr) : Prop :=
  (∀ s, σ.cur = some s → s ∉ σ.closed ∧ s ∉ fut) ∧ (∀ c ∈ σ.closed, c ∉ fut) ∧
  (∀ f ∈ σ.stack, ∀ s, f.entry = some s → s ∉ fut)

def Rel (σC : CState) (σT : BState) (fut : List Addr) : Prop :=
  σT.isOpen = σC.cur.isSome ∧ StackRel σC.cur σC.closed σC.stack σT.stack ∧ Fresh σC fut

def Doomed (σ : CState) : Prop :=
  ∃ f ∈ σ.stack, f.count > 1 ∧ ∃ s, f.entry = some s ∧ s ∈ σ.closed

theorem stackRel_prep {cur : Option Addr} {closed : List Addr} {a : Addr} :
    ∀ {sc : List CFrame} {st : List BFrame}, StackRel cur closed sc st →
      (∀ s, cur = some s → s ∉ closed) → (∀ f ∈ sc, ∀ s, f.entry = some s → s ≠ a) →
      StackRel (some a) closed sc (st.map (fun f => { f with openedBefore := false }))
  | [], [], _, _, _ => by simp [StackRel]
  | [], _ :: _, h, _, _ => by simp [StackRel] at h
  | _ :: _, [], h, _, _ => by simp [StackRel] at h
  | fc :: rc, ft :: rt, h, hc, hf => by
    simp only [StackRel, List.map_cons] at h ⊢
    obtain ⟨⟨h1, h2, h3⟩, h4⟩ := h
    refine ⟨⟨h1, by simp, ?_⟩, stackRel_prep h4 hc (fun f hf' => hf f (List.mem_cons_of_mem _ hf'))⟩
    intro _ s hs
    refine ⟨?_, ?_⟩
    · intro h; injection h with h; exact hf fc (List.mem_cons_self) s hs h.symm
    · intro hgt
      cases hb : ft.openedBefore with
      | true => have := (h2 hb).1; rw [hs] at this; exact hc s this.symm
      | false => exact (h3 hb s hs).2 hgt

theorem stackRel_meas {closed : List Addr} {c : Addr} :
    ∀ {sc : List CFrame} {st : List BFrame}, StackRel (some c) closed sc st →
      st.any (fun f => decide (f.count > 1) && f.openedBefore) = false →
      StackRel none (closed ++ [c]) sc (st.map (fun f => { f with openedBefore := false }))
  | [], [], _, _ => by simp [StackRel]
  | [], _ :: _, h, _ => by simp [StackRel] at h
  | _ :: _, [], h, _ => by simp [StackRel] at h
  | fc :: rc, ft :: rt, h, hany => by
    simp only [StackRel, List.map_cons] at h ⊢
    obtain ⟨⟨h1, h2, h3⟩, h4⟩ := h
    simp only [List.any_cons, Bool.or_eq_false_iff] at hany
    refine ⟨⟨h1, by simp, ?_⟩, stackRel_meas h4 hany.2⟩
    intro _ s hs
    refine ⟨by simp, ?_⟩
    intro hgt
    cases hb : ft.openedBefore with
    | true =>
      have := hany.1; rw [hb, ← h1] at this; simp at this; omega
    | false =>
      have := h3 hb s hs
      simp only [List.mem_append, List.mem_singleton, not_or]
      exact ⟨this.2 hgt, fun h => this.1 (by rw [h])⟩

theorem stackRel_doom {cur : Option Addr} {closed : List Addr} :
    ∀ {sc : List CFrame} {st : List BFrame}, StackRel cur closed sc st →
      st.any (fun f => decide (f.count > 1) && f.openedBefore) = true →
      ∃ f ∈ sc, f.count > 1 ∧ f.entry = cur
  | [], [], _, h => by simp at h
  | [], _ :: _, h, _ => by simp [StackRel] at h
  | _ :: _, [], h, _ => by simp [StackRel] at h
  | fc :: rc, ft :: rt, h, hany => by
    simp only [StackRel] at h
    obtain ⟨⟨h1, h2, _⟩, h4⟩ := h
    simp only [List.any_cons, Bool.or_eq_true] at hany
    rcases hany with hany | hany
    · simp only [Bool.and_eq_true, decide_eq_true_eq] at hany
      exact ⟨fc, List.mem_cons_self, by omega, (h2 hany.2).1⟩
    · obtain ⟨f, hf, h⟩ := stackRel_doom h4 hany
      exact ⟨f, List.mem_cons_of_mem _ hf, h⟩

theorem doomed_not_closed : ∀ (toks : List Tok) {σ σ' : CState}, Doomed σ → crun toks σ = .ok σ' → σ'.stack ≠ []
  | [], σ, σ', hd, h => by
    simp only [crun, Except.ok.injEq] at h; subst h
    obtain ⟨f, hf, _⟩ := hd
    intro h; rw [h] at hf; cases hf
  | t :: r, σ, σ', hd, h => by
    simp only [crun] at h
    cases hs : cstep σ t with
    | error e => simp [hs] at h
    | ok σ₁ =>
      simp only [hs] at h
      refine doomed_not_closed r ?_ h
      obtain ⟨f, hf, hgt, s, hs1, hs2⟩ := hd
      cases t with
      | g k a =>
        cases k with
        | prep => simp only [cstep, Except.ok.injEq] at hs; subst hs; exact ⟨f, hf, hgt, s, hs1, hs2⟩
        | meas =>
          simp only [cstep] at hs
          cases hc : σ.cur with
          | none => simp [hc] at hs
          | some c =>
            simp only [hc, Except.ok.injEq] at hs; subst hs
            exact ⟨f, hf, hgt, s, hs1, by simp only [CState.closed, List.map_append, List.mem_append]; exact Or.inl hs2⟩
        | other id =>
          simp only [cstep] at hs
          cases hc : σ.cur with
          | none => simp [hc] at hs
          | some c => simp only [hc, Except.ok.injEq] at hs; subst hs; exact ⟨f, hf, hgt, s, hs1, hs2⟩
      | lopen n =>
        simp only [cstep, Except.ok.injEq] at hs; subst hs
        exact ⟨f, List.mem_cons_of_mem _ hf, hgt, s, hs1, hs2⟩
      | lclose =>
        simp only [cstep] at hs
        cases hst : σ.stack with
        | nil => rw [hst] at hf; cases hf
        | cons f0 r0 =>
          simp only [hst] at hs
          cases hb : blockExit f0.entry f0.count ⟨σ.cur, σ.subs⟩ with
          | error e => simp [hb] at hs
          | ok st' =>
            simp only [hb, Except.ok.injEq] at hs; subst hs
            rw [hst] at hf
            rcases List.mem_cons.mp hf with rfl | hf'
            · exfalso
              simp only [blockExit, hs1] at hb
              have : (σ.subs.any fun t => t.1 == s) = true := by
                simp only [CState.closed, List.mem_map] at hs2
                obtain ⟨p, hp, rfl⟩ := hs2
                exact List.any_eq_true.mpr ⟨p, hp, by simp⟩
              simp [this, hgt] at hb
            · exact ⟨f, hf', hgt, s, hs1, hs2⟩

theorem paddrs_cons_sub (t : Tok) (r : List Tok) : ∀ a, a ∈ paddrs r → a ∈ paddrs (t :: r) := by
  intro a h
  cases t with
  | g k b => cases k <;> simp [paddrs, h]
  | lopen n => simpa [paddrs] using h
  | lclose => simpa [paddrs] using h

theorem fresh_mono {σ : CState} {t : Tok} {r : List Tok} (h : Fresh σ (paddrs (t :: r))) : Fresh σ (paddrs r) := by
  obtain ⟨h1, h2, h3⟩ := h
  exact ⟨fun s hs => ⟨(h1 s hs).1, fun hm => (h1 s hs).2 (paddrs_cons_sub t r _ hm)⟩,
    fun c hc hm => h2 c hc (paddrs_cons_sub t r _ hm),
    fun f hf s hs hm => h3 f hf s hs (paddrs_cons_sub t r _ hm)⟩

/-- One step, in both directions. -/
theorem step_sim {σC : CState} {σT : BState} {t : Tok} {r : List Tok}
    (hrel : Rel σC σT (paddrs (t :: r))) (hnd : (paddrs (t :: r)).Nodup) :
    (∀ σT', bstep σT t = .ok σT' → ∃ σC', cstep σC t = .ok σC' ∧ Rel σC' σT' (paddrs r)) ∧
    (∀ σC', cstep σC t = .ok σC' → (∃ σT', bstep σT t = .ok σT' ∧ Rel σC' σT' (paddrs r)) ∨ Doomed σC') := by
  obtain ⟨hopen, hstack, hfresh⟩ := hrel
  have hfresh' := fresh_mono hfresh
  obtain ⟨hf1, hf2, hf3⟩ := hfresh
  cases t with
  | g k a =>
    cases k with
    | prep =>
      have hnd' : a ∉ paddrs r ∧ (paddrs r).Nodup := by simpa [paddrs] using hnd
      have key : Rel { σC with cur := some a } { isOpen := true, stack := σT.forget } (paddrs r) := by
        refine ⟨by simp, ?_, ?_⟩
        · exact stackRel_prep hstack (fun s hs => (hf1 s hs).1)
            (fun f hf s hs h => hf3 f hf s hs (by subst h; simp [paddrs]))
        · refine ⟨?_, hfresh'.2.1, hfresh'.2.2⟩
          intro s hs
          simp only [Option.some.injEq] at hs; subst hs
          exact ⟨fun hc => hf2 _ hc (by simp [paddrs]), hnd'.1⟩
      constructor
      · intro σT' h; simp only [bstep, Except.ok.injEq] at h; subst h
        exact ⟨_, rfl, key⟩
      · intro σC' h; simp only [cstep, Except.ok.injEq] at h; subst h
        exact Or.inl ⟨_, rfl, key⟩
    | meas =>
      cases hc : σC.cur with
      | none =>
        constructor
        · intro σT' h; simp [bstep, hopen, hc] at h
        · intro σC' h; simp [cstep, hc] at h
      | some c =>
        have hop : σT.isOpen = true := by rw [hopen, hc]; rfl
        cases hany : σT.stack.any (fun f => decide (f.count > 1) && f.openedBefore) with
        | true =>
          constructor
          · intro σT' h; simp [bstep, hop, hany] at h
          · intro σC' h
            simp only [cstep, hc, Except.ok.injEq] at h; subst h
            right
            obtain ⟨f, hf, hgt, he⟩ := stackRel_doom hstack hany
            exact ⟨f, hf, hgt, c, by rw [he, hc], by simp [CState.closed]⟩
        | false =>
          have key : Rel { σC with cur := none, subs := σC.subs ++ [(c, a)] }
              { isOpen := false, stack := σT.forget } (paddrs r) := by
            refine ⟨by simp, ?_, ?_⟩
            · have := stackRel_meas (c := c) (closed := σC.closed) (by rw [← hc]; exact hstack) hany
              simpa [CState.closed, BState.forget] using this
            · refine ⟨by simp, ?_, hfresh'.2.2⟩
              intro x hx
              simp only [CState.closed, List.map_append, List.mem_append, List.map_cons, List.map_nil,
                List.mem_singleton] at hx
              rcases hx with hx | rfl
              · exact hfresh'.2.1 x hx
              · exact (hfresh'.1 x hc).2
          constructor
          · intro σT' h
            simp only [bstep, hop, hany, Bool.not_true, Bool.false_eq_true, if_false, Except.ok.injEq] at h
            subst h
            exact ⟨_, by simp [cstep, hc], key⟩
          · intro σC' h
            simp only [cstep, hc, Except.ok.injEq] at h; subst h
            exact Or.inl ⟨_, by simp [bstep, hop, hany], key⟩
    | other id =>
      cases hc : σC.cur with
      | none =>
        constructor
        · intro σT' h; simp [bstep, hopen, hc] at h
        · intro σC' h; simp [cstep, hc] at h
      | some c =>
        have hop : σT.isOpen = true := by rw [hopen, hc]; rfl
        have key : Rel σC σT (paddrs r) := ⟨hopen, hstack, hfresh'⟩
        constructor
        · intro σT' h; simp only [bstep, hop, if_true, Except.ok.injEq] at h; subst h
          exact ⟨σC, by simp [cstep, hc], key⟩
        · intro σC' h; simp only [cstep, hc, Except.ok.injEq] at h; subst h
          exact Or.inl ⟨σT, by simp [bstep, hop], key⟩
  | lopen n =>
    have key : Rel { σC with stack := ⟨n, σC.cur⟩ :: σC.stack }
        { σT with stack := { count := n, openedBefore := σT.isOpen } :: σT.stack } (paddrs r) := by
      refine ⟨hopen, ?_, hfresh'.1, hfresh'.2.1, ?_⟩
      · simp only [StackRel]
        refine ⟨⟨rfl, ?_, ?_⟩, hstack⟩
        · intro h; simp only at h; rw [hopen] at h
          refine ⟨rfl, ?_⟩
          intro hn; rw [hn] at h; simp at h
        · intro h s hs; simp only at h hs; rw [hopen, hs] at h; simp at h
      · intro f hf s hs
        rcases List.mem_cons.mp hf with rfl | hf'
        · exact (hfresh'.1 s hs).2
        · exact hfresh'.2.2 f hf' s hs
    constructor
    · intro σT' h; simp only [bstep, Except.ok.injEq] at h; subst h; exact ⟨_, rfl, key⟩
    · intro σC' h; simp only [cstep, Except.ok.injEq] at h; subst h; exact Or.inl ⟨_, rfl, key⟩
  | lclose =>
    cases hsc : σC.stack with
    | nil =>
      have hst : σT.stack = [] := by
        cases h : σT.stack with
        | nil => rfl
        | cons _ _ => rw [hsc, h] at hstack; simp [StackRel] at hstack
      have key : Rel σC { σT with stack := σT.stack.tail } (paddrs r) := by
        refine ⟨hopen, ?_, hfresh'⟩
        rw [hsc, hst]; simp [StackRel]
      constructor
      · intro σT' h; simp only [bstep, Except.ok.injEq] at h; subst h
        exact ⟨σC, by simp [cstep, hsc], key⟩
      · intro σC' h; simp only [cstep, hsc, Except.ok.injEq] at h; subst h
        exact Or.inl ⟨_, rfl, key⟩
    | cons fc rc =>
      cases hst : σT.stack with
      | nil => rw [hsc, hst] at hstack; simp [StackRel] at hstack
      | cons ft rt =>
        rw [hsc, hst] at hstack
        simp only [StackRel] at hstack
        obtain ⟨⟨h1, h2, h3⟩, hrest⟩ := hstack
        have hpass : blockExit fc.entry fc.count ⟨σC.cur, σC.subs⟩ = .ok ⟨σC.cur, σC.subs⟩ := by
          cases he : fc.entry with
          | none => simp [blockExit]
          | some s =>
            simp only [blockExit]
            by_cases hgt : fc.count > 1
            · have hnot : s ∉ σC.closed := by
                cases hb : ft.openedBefore with
                | true =>
                  have := (h2 hb).1; rw [he] at this
                  exact (hf1 s this.symm).1
                | false => exact (h3 hb s he).2 hgt
              have : (σC.subs.any fun t => t.1 == s) = false := by
                apply Bool.eq_false_iff.mpr
                intro h
                obtain ⟨p, hp, hps⟩ := List.any_eq_true.mp h
                exact hnot (by simp only [CState.closed, List.mem_map]; exact ⟨p, hp, by simpa using hps⟩)
              simp [this]
            · simp [hgt]
        have key : Rel { σC with stack := rc } { σT with stack := σT.stack.tail } (paddrs r) := by
          refine ⟨hopen, ?_, hfresh'.1, hfresh'.2.1, ?_⟩
          · rw [hst]; exact hrest
          · intro f hf s hs
            exact hfresh'.2.2 f (by rw [hsc]; exact List.mem_cons_of_mem _ hf) s hs
        constructor
        · intro σT' h; simp only [bstep, Except.ok.injEq] at h; subst h
          exact ⟨_, by simp [cstep, hsc, hpass], key⟩
        · intro σC' h
          simp only [cstep, hsc, hpass, Except.ok.injEq] at h; subst h
          exact Or.inl ⟨_, rfl, key⟩

theorem nodup_tail {t : Tok} {r : List Tok} (h : (paddrs (t :: r)).Nodup) : (paddrs r).Nodup := by
  cases t with
  | g k a => cases k <;> simp_all [paddrs]
  | lopen n => simpa [paddrs] using h
  | lclose => simpa [paddrs] using h

/-- rule accepts ⇒ code accepts -/
theorem brun_crun : ∀ (toks : List Tok) {σC : CState} {σT σT' : BState},
    Rel σC σT (paddrs toks) → (paddrs toks).Nodup → brun toks σT = .ok σT' →
    ∃ σC', crun toks σC = .ok σC'
  | [], σC, _, _, _, _, _ => ⟨σC, rfl⟩
  | t :: r, σC, σT, σT', hrel, hnd, h => by
    simp only [brun] at h
    cases hs : bstep σT t with
    | error e => simp [hs] at h
    | ok σ₁ =>
      simp only [hs] at h
      obtain ⟨σC₁, hc, hrel'⟩ := (step_sim hrel hnd).1 σ₁ hs
      obtain ⟨σC', h'⟩ := brun_crun r hrel' (nodup_tail hnd) h
      exact ⟨σC', by simp [crun, hc, h']⟩

/-- code accepts (all loops closed at the end) ⇒ rule accepts -/
theorem crun_brun : ∀ (toks : List Tok) {σC σC' : CState} {σT : BState},
    Rel σC σT (paddrs toks) → (paddrs toks).Nodup → crun toks σC = .ok σC' → σC'.stack = [] →
    ∃ σT', brun toks σT = .ok σT'
  | [], _, _, σT, _, _, _, _ => ⟨σT, rfl⟩
  | t :: r, σC, σC', σT, hrel, hnd, h, hfin => by
    simp only [crun] at h
    cases hs : cstep σC t with
    | error e => simp [hs] at h
    | ok σ₁ =>
      simp only [hs] at h
      rcases (step_sim hrel hnd).2 σ₁ hs with ⟨σT₁, ht, hrel'⟩ | hd
      · obtain ⟨σT', h'⟩ := crun_brun r hrel' (nodup_tail hnd) h hfin
        exact ⟨σT', by simp [brun, ht, h']⟩
      · exact absurd hfin (doomed_not_closed r hd h)

theorem rel_init (fut : List Addr) : Rel ⟨none, [], []⟩ ⟨false, []⟩ fut := by
  refine ⟨rfl, by simp [StackRel], ?_, ?_, ?_⟩ <;> simp [CState.closed]

end Jaqal.Walk
