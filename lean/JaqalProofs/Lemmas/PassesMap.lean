import JaqalProofs.Props.C06
import JaqalProofs.Lemmas.PassesEnv
/-!
`fill_in_map` under an override environment: the meaning is unchanged for every environment that overrides none of the
lets occurring INSIDE a qubit reference (index, sizes and slice bounds along the alias chain) — those are the values the
pass bakes into the rewritten reference.
-/
namespace Jaqal.Passes
open Jaqal Jaqal.Sem Jaqal.FillIn

/-- names of the let constants inside a value: the value itself, a qubit's index, sizes and bounds along the chain -/
def constNames : Val → List String
  | .const n v => n :: constNames v
  | .qubit _ src idx => constNames src ++ constNames idx
  | .regF _ size => constNames size
  | .regA _ src => constNames src
  | .regS _ src a b s => constNames src ++ constNames a ++ constNames b ++ constNames s
  | _ => []

/-- the environment overrides no let inside `v` -/
def Avoids (ρ : Env) (v : Val) : Prop := ∀ n ∈ constNames v, lookup ρ n = none

/-- … inside `v` if `v` is a qubit reference (the only values alias fill-in rewrites) -/
def QAvoids (ρ : Env) : Val → Prop
  | .qubit n s i => Avoids ρ (.qubit n s i)
  | _ => True

theorem evalNum_avoids (ρ : Env) (b : Bind) : ∀ (v : Val), Avoids ρ v → evalNum ρ b v = evalNum [] b v := by
  intro v
  induction v with
  | const n d ih =>
    intro h
    have h1 : lookup ρ n = none := h n (by simp [constNames])
    have h2 : lookup ([] : Env) n = none := rfl
    simp only [evalNum, h1, h2]
    exact ih (fun m hm => h m (by simp [constNames, hm]))
  | _ => intro _; rfl

theorem optInt_avoids (ρ : Env) (b : Bind) (d : Int) (v : Val) (h : Avoids ρ v) :
    ExpandMacros.optInt ρ b d v = ExpandMacros.optInt [] b d v := by
  cases v <;> first | rfl | (simp only [ExpandMacros.optInt, evalInt, evalNum_avoids ρ b _ h])

theorem evalReg_avoids (ρ : Env) (b : Bind) : ∀ (v : Val), Avoids ρ v → evalReg ρ b v = evalReg [] b v := by
  intro v
  induction v with
  | regF n size _ =>
    intro h
    simp only [evalReg, evalInt, evalNum_avoids ρ b size (fun m hm => h m (by simpa [constNames] using hm))]
  | regA n src ih => intro h; simp only [evalReg]; exact ih (fun m hm => h m (by simpa [constNames] using hm))
  | regS n src a s e ih _ _ _ =>
    intro h
    rw [ExpandMacros.evalReg_regS, ExpandMacros.evalReg_regS, ih (fun m hm => h m (by simp [constNames, hm]))]
    simp only [optInt_avoids ρ b _ a (fun m hm => h m (by simp [constNames, hm])),
      optInt_avoids ρ b _ s (fun m hm => h m (by simp [constNames, hm])),
      optInt_avoids ρ b _ e (fun m hm => h m (by simp [constNames, hm]))]
  | _ => intro _; rfl

theorem evalQubit_avoids (ρ : Env) (b : Bind) (n : String) (src idx : Val) (h : Avoids ρ (.qubit n src idx)) :
    evalQubit ρ b (.qubit n src idx) = evalQubit [] b (.qubit n src idx) := by
  simp only [evalQubit, evalInt, evalNum_avoids ρ b idx (fun m hm => h m (by simp [constNames, hm])),
    evalReg_avoids ρ b src (fun m hm => h m (by simp [constNames, hm]))]

theorem constNames_fundOf : ∀ (src reg : Val), UsedQubits.fundOf src = some reg → ∀ n ∈ constNames reg, n ∈ constNames src := by
  intro src
  induction src with
  | regF r sz _ => intro reg h; simp only [UsedQubits.fundOf, Option.some.injEq] at h; subst h; intro n hn; exact hn
  | regA _ s ih => intro reg h n hn; simpa [constNames] using ih reg (by simpa [UsedQubits.fundOf] using h) n hn
  | regS _ s _ _ _ ih _ _ _ =>
    intro reg h n hn
    have := ih reg (by simpa [UsedQubits.fundOf] using h) n hn
    simp [constNames, this]
  | _ => intro reg h; simp [UsedQubits.fundOf] at h

/-- fill-in of a good reference does not change what it denotes, under any environment that overrides no let inside it -/
theorem mapVal_sem_env (ρ : Env) {mps : List String} {v v' : Val} (hg : GoodRef v) (ha : QAvoids ρ v) (h : mapVal mps v = .ok v')
    (b : Bind) :
    evalArg ρ b v' = evalArg ρ b v ∧ evalNum ρ b v' = evalNum ρ b v := by
  cases v with
  | qubit n src idx =>
    have hs := mapVal_sem hg h b
    obtain ⟨hv, i, hi⟩ := hg
    obtain ⟨nm, reg, k, rfl, hV, hR, _⟩ := C06_mapVal_qubit h
    have hf := resolveQubitV_fund hV hv
    have ha' : Avoids ρ (.qubit nm reg (.int k)) := by
      intro m hm
      simp only [constNames, List.append_nil] at hm
      exact ha m (by simp [constNames, constNames_fundOf src reg hf m hm])
    refine ⟨?_, rfl⟩
    have e1 : evalArg ρ b (.qubit nm reg (.int k)) = evalArg [] b (.qubit nm reg (.int k)) := by
      simp only [evalArg, evalQubit_avoids ρ b _ _ _ ha']
    have e2 : evalArg ρ b (.qubit n src idx) = evalArg [] b (.qubit n src idx) := by
      simp only [evalArg, evalQubit_avoids ρ b _ _ _ ha]
    rw [e1, e2]; exact hs.1
  | regF n sz => simp only [mapVal, pure, Except.pure] at h; cases h; exact ⟨rfl, rfl⟩
  | regA _ _ => simp [mapVal, Builder.throw_eq] at h
  | regS _ _ _ _ _ => simp [mapVal, Builder.throw_eq] at h
  | int _ => cases h; exact ⟨rfl, rfl⟩
  | flt _ => cases h; exact ⟨rfl, rfl⟩
  | const _ _ => cases h; exact ⟨rfl, rfl⟩
  | param _ _ => cases h; exact ⟨rfl, rfl⟩
  | none => cases h; exact ⟨rfl, rfl⟩
  | str _ => cases h; exact ⟨rfl, rfl⟩

/-- the hypothesis of the alias fill-in theorem on a value: a reference through a valid chain with an integer index,
none of whose lets the environment overrides -/
def MapOK (ρ : Env) (v : Val) : Prop := GoodRef v ∧ QAvoids ρ v

/-- **C06_fill_in_map for an override environment.** -/
theorem fillInMap_meaning (ρ : Env) (c c' : Circuit) (hw : FillIn.WellFormed c) (hb : AllVals (MapOK ρ) c.body)
    (hm : ∀ m ∈ c.macros, AllVals (MapOK ρ) m.body) (h : fillInMap c = .ok c') : meaning ρ c' = meaning ρ c := by
  obtain ⟨bs, hbs, hr⟩ := fillInMap_rebuilt hw h
  have hB := hw.blocks
  rw [hbs] at hB hb
  simp only [BlocksOK] at hB
  simp only [AllVals] at hb
  exact Rebuilt_meaning (P := MapOK ρ) (fun v v' b hg hv => mapVal_sem_env ρ hg.1 hg.2 hv b)
    (fun v v' b _ hv => by cases hv; exact ⟨rfl, fun hn => hn⟩)
    (fun _ v v' b hg hv => mapVal_sem_env ρ hg.1 hg.2 hv b) hr hbs hB.2.2 hb.2
    (fun m hmem => ⟨hw.macros m hmem, hm m hmem⟩)

end Jaqal.Passes
