import JaqalModel.Model.Pipeline
import JaqalProofs.Lemmas.RoundTripSpellNum
import JaqalProofs.Props.C01Literals
/-!
# C01, text layer, generator side: the text `gen c` spells the tokens `toks c`

For a printable circuit whose names are identifiers, whose floats are canonical and in range and whose ints have at
most 4300 digits (`LexSafe`), the generator does not raise and its text is, piece by piece, a spelling
(`RoundTripSpell.lean`) of `Pipeline.toks c`; so lexing it gives exactly those tokens (`lex_gen`).
-/
set_option linter.unusedSimpArgs false
set_option linter.unusedVariables false
namespace Jaqal.RoundTrip
open Jaqal Jaqal.Lexer Jaqal.NumText Jaqal.Pipeline Jaqal.Generator

/-! ## continuations that may begin with blank lines -/

/-- `cs` is some newlines (which merge into the newline token before them) followed by a spelling of `ts` -/
def SpellsNL (cs : List Char) (ts : List Tok) : Prop :=
  ∃ k cs', cs = List.replicate k '\n' ++ cs' ∧ cs'.head? ≠ some '\n' ∧ Spells cs' ts

theorem SpellsNL.nil : SpellsNL [] [] := ⟨0, [], rfl, by simp, Spells.nil⟩

theorem SpellsNL.nl {cs : List Char} {ts : List Tok} (h : SpellsNL cs ts) : SpellsNL ('\n' :: cs) ts := by
  obtain ⟨k, cs', rfl, h1, h2⟩ := h
  exact ⟨k + 1, cs', by simp [List.replicate_succ], h1, h2⟩

theorem SpellsNL.of {cs : List Char} {ts : List Tok} (h : Spells cs ts) (hh : cs.head? ≠ some '\n') : SpellsNL cs ts :=
  ⟨0, cs, rfl, hh, h⟩

/-- the newline that ends a line -/
theorem Spells.endline {cs : List Char} {ts : List Tok} (h : SpellsNL cs ts) : Spells ('\n' :: cs) (Tok.NL :: ts) := by
  obtain ⟨k, cs', rfl, h1, h2⟩ := h
  have := Spells.newlines k h1 h2
  simpa [List.replicate_succ] using this

/-! ## what may follow a token in generated text -/

/-- the characters after which a generated token ends: blank, newline, brackets -/
def isDelim (c : Char) : Bool := c = ' ' || c = '\n' || c = '[' || c = ']' || c = ':'

def Delim (cs : List Char) : Prop := ∃ c r, cs = c :: r ∧ isDelim c = true

theorem Delim.stopId {cs : List Char} (h : Delim cs) : StopId cs := by
  obtain ⟨c, r, rfl, hc⟩ := h
  simp only [isDelim, Bool.or_eq_true, decide_eq_true_eq] at hc
  rcases hc with (((rfl | rfl) | rfl) | rfl) | rfl <;> exact StopId.of_head (by decide) (by decide)

theorem Delim.stop {cs : List Char} (h : Delim cs) : Stop cs := by
  obtain ⟨c, r, rfl, hc⟩ := h
  simp only [isDelim, Bool.or_eq_true, decide_eq_true_eq] at hc
  rcases hc with (((rfl | rfl) | rfl) | rfl) | rfl <;> exact Stop.cons (by decide) (by decide) (by decide)

theorem Delim.stopInt {cs : List Char} (h : Delim cs) : ∀ c ∈ cs.head?, c.isDigit = false ∧ c ≠ '.' := by
  obtain ⟨c, r, rfl, hc⟩ := h
  simp only [isDelim, Bool.or_eq_true, decide_eq_true_eq] at hc
  intro d hd
  simp at hd; subst hd
  rcases hc with (((rfl | rfl) | rfl) | rfl) | rfl <;> exact ⟨by decide, by decide⟩

/-! ## names -/

/-- a name the lexer reads back as one IDENTIFIER token -/
def LegalName (n : String) : Prop := IdentShape n.toList ∧ keyword? n = none

theorem identTok_legal {n : String} (h : LegalName n) : identTok n.toList = .IDENTIFIER n := by
  simp only [identTok, String.ofList_toList, h.2]

theorem Spells.name {n : String} (hn : LegalName n) {cs : List Char} {ts : List Tok} (hs : Delim cs)
    (h : Spells cs ts) : Spells (n.toList ++ cs) (.IDENTIFIER n :: ts) := by
  have := Spells.word hn.1 hs.stopId h
  rwa [identTok_legal hn] at this

/-- a fixed word of the language -/
theorem Spells.keyword (w : String) (k : Tok) (hw : IdentShape w.toList) (hk : keyword? w = some k) {cs : List Char}
    {ts : List Tok} (hs : Delim cs) (h : Spells cs ts) : Spells (w.toList ++ cs) (k :: ts) := by
  have := Spells.word hw hs.stopId h
  simpa only [identTok, String.ofList_toList, hk] using this

/-! the fixed words of the language are identifier-shaped -/

theorem shape_let : IdentShape "let".toList := by
  refine ⟨'l', "et".toList, rfl, by decide, ?_⟩
  simp [TailOK, identTail, isAlnum_, isAlpha_, isDigit]

theorem shape_register : IdentShape "register".toList := by
  refine ⟨'r', "egister".toList, rfl, by decide, ?_⟩
  simp [TailOK, identTail, isAlnum_, isAlpha_, isDigit]

theorem shape_map : IdentShape "map".toList := by
  refine ⟨'m', "ap".toList, rfl, by decide, ?_⟩
  simp [TailOK, identTail, isAlnum_, isAlpha_, isDigit]

theorem shape_macro : IdentShape "macro".toList := by
  refine ⟨'m', "acro".toList, rfl, by decide, ?_⟩
  simp [TailOK, identTail, isAlnum_, isAlpha_, isDigit]

theorem shape_loop : IdentShape "loop".toList := by
  refine ⟨'l', "oop".toList, rfl, by decide, ?_⟩
  simp [TailOK, identTail, isAlnum_, isAlpha_, isDigit]

theorem shape_subcircuit : IdentShape "subcircuit".toList := by
  refine ⟨'s', "ubcircuit".toList, rfl, by decide, ?_⟩
  simp [TailOK, identTail, isAlnum_, isAlpha_, isDigit]

theorem shape_from : IdentShape "from".toList := by
  refine ⟨'f', "rom".toList, rfl, by decide, ?_⟩
  simp [TailOK, identTail, isAlnum_, isAlpha_, isDigit]

theorem shape_usepulses : IdentShape "usepulses".toList := by
  refine ⟨'u', "sepulses".toList, rfl, by decide, ?_⟩
  simp [TailOK, identTail, isAlnum_, isAlpha_, isDigit]

theorem delim_space (r : List Char) : Delim (' ' :: r) := ⟨' ', r, rfl, by decide⟩
theorem delim_nl (r : List Char) : Delim ('\n' :: r) := ⟨'\n', r, rfl, by decide⟩
theorem delim_lb (r : List Char) : Delim ('[' :: r) := ⟨'[', r, rfl, by decide⟩
theorem delim_rb (r : List Char) : Delim (']' :: r) := ⟨']', r, rfl, by decide⟩
theorem delim_colon (r : List Char) : Delim (':' :: r) := ⟨':', r, rfl, by decide⟩

/-! ## numbers, names, references, arguments -/

/-- a float the lexer reads back: canonical decimal, not overflowing to `inf` -/
def FloatOK (d : Dec) : Prop := d.Canonical ∧ Dec.overflows d = false

def SafeRef : Val → Prop
  | .int i => IntOK i
  | .const n _ => LegalName n
  | .param n _ => LegalName n
  | _ => True

def SafeArg : Val → Prop
  | .int i => IntOK i
  | .flt d => FloatOK d
  | .qubit n src idx => if isItem n src idx = true then LegalName (Pipeline.nameOf src) ∧ SafeRef idx else LegalName n
  | v => LegalName (Pipeline.nameOf v)

/-- what the generator writes for an int / let / parameter -/
def refStr : Val → String
  | .int i => genInt i
  | .const n _ => n
  | .param n _ => n
  | _ => ""

theorem genValue_ref {v : Val} (h : okRef v = true) : genValue v = some (refStr v) := by
  cases v <;> simp [okRef] at h <;> rfl

theorem genInt_toList (i : Int) : (genInt i).toList = genIntL i := by simp [genInt]
theorem genFloat_toList (d : Dec) : (genFloat d).toList = genFloatL d := by simp [genFloat]

theorem spell_ref {v : Val} (hok : okRef v = true) (hs : SafeRef v) {cs : List Char} {ts : List Tok} (hd : Delim cs)
    (h : Spells cs ts) : Spells ((refStr v).toList ++ cs) (refTok v :: ts) := by
  cases v <;> simp [okRef] at hok
  · simp only [refStr, genInt_toList, refTok]; exact Spells.int hs hd.stopInt h
  · exact Spells.name hs hd h
  · exact Spells.name hs hd h

theorem itemName_toList {an n : String} {idx : Val} (hr : okRef idx = true) (h : Builder.itemName an idx = some n) :
    n.toList = an.toList ++ '[' :: ((refStr idx).toList ++ [']']) := by
  cases idx <;> simp [okRef] at hr <;> simp only [Builder.itemName, Option.some.injEq] at h <;> subst h
  · rename_i i
    simp [toString, String.toList_append, refStr, genInt_eq_toString]
  · simp [toString, String.toList_append, refStr]
  · simp [toString, String.toList_append, refStr]

theorem isItem_inv {n : String} {src idx : Val} (h : isItem n src idx = true) :
    okRef idx = true ∧ Builder.itemName (Pipeline.nameOf src) idx = some n := by
  unfold isItem at h
  split at h
  · rename_i an han
    simp only [Bool.and_eq_true, beq_iff_eq] at h
    exact ⟨h.1, by simp [Pipeline.nameOf, han, h.2]⟩
  · cases h

theorem spell_arg {v : Val} (hok : okArg v = true) (hs : SafeArg v) {cs : List Char} {ts : List Tok} (hd : Delim cs)
    (h : Spells cs ts) : ∃ s, joinValue v = .ok s ∧ Spells (s.toList ++ cs) (argToks v ++ ts) := by
  cases v with
  | int i => exact ⟨genInt i, rfl, by simp only [genInt_toList, argToks]; exact Spells.int hs hd.stopInt h⟩
  | flt d => exact ⟨genFloat d, rfl, by simp only [genFloat_toList, argToks]; exact Spells.float hs.1 hs.2 hd.stop h⟩
  | const n x => exact ⟨n, rfl, Spells.name hs hd h⟩
  | param n k => exact ⟨n, rfl, Spells.name hs hd h⟩
  | regF n x => exact ⟨n, rfl, Spells.name hs hd h⟩
  | regA n x => exact ⟨n, rfl, Spells.name hs hd h⟩
  | regS n x a b c => exact ⟨n, rfl, Spells.name hs hd h⟩
  | none => simp [okArg] at hok
  | str x => simp [okArg] at hok
  | qubit n src idx =>
    refine ⟨n, rfl, ?_⟩
    by_cases hi : isItem n src idx = true
    · simp only [SafeArg, hi, if_true] at hs
      obtain ⟨hr, hname⟩ := isItem_inv hi
      rw [itemName_toList hr hname]
      simp only [argToks, hi, if_true, List.append_assoc, List.cons_append, List.nil_append]
      refine Spells.name hs.1 (delim_lb _) ?_
      refine Spells.punct (c := '[') (by decide) rfl ?_
      refine spell_ref hr hs.2 (delim_rb _) ?_
      exact Spells.punct (c := ']') (by decide) rfl h
    · simp only [SafeArg, hi] at hs
      simp only [argToks, hi]
      exact Spells.name hs hd h

/-! ## gate lines -/

def SafeArgs : List (String × Val) → Prop
  | [] => True
  | a :: as => SafeArg a.2 ∧ SafeArgs as

/-- the text does not begin with a newline (so a newline before it is a token of its own) -/
def NotNL (l : List Char) : Prop := l.head? ≠ some '\n'

theorem delim_args (vs : List String) (cs : List Char) :
    Delim (vs.flatMap (fun s => ' ' :: s.toList) ++ '\n' :: cs) := by
  cases vs with
  | nil => exact delim_nl _
  | cons v vs' => exact delim_space _

theorem spell_args : ∀ (args : List (String × Val)), okArgs args = true → SafeArgs args →
    ∀ {cs : List Char} {ts : List Tok}, Spells ('\n' :: cs) ts →
    ∃ vs, args.mapM (fun a => joinValue a.2) = .ok vs ∧
      Spells (vs.flatMap (fun s => ' ' :: s.toList) ++ '\n' :: cs) (argsToks args ++ ts)
  | [], _, _, cs, ts, h => ⟨[], rfl, by simpa [argsToks] using h⟩
  | a :: as, hok, hs, cs, ts, h => by
    simp only [okArgs, Bool.and_eq_true] at hok
    obtain ⟨vs, hvs, hsp⟩ := spell_args as hok.2 hs.2 h
    obtain ⟨v, hv, hspv⟩ := spell_arg hok.1 hs.1 (delim_args vs cs) hsp
    refine ⟨v :: vs, by simp [List.mapM_cons, hv, hvs, bind, Except.bind, pure, Except.pure], ?_⟩
    simp only [List.flatMap_cons, List.cons_append, List.append_assoc, argsToks]
    exact Spells.space hspv

theorem inter_toList : ∀ (n : String) (vs : List String),
    (" ".intercalate (n :: vs)).toList = n.toList ++ vs.flatMap (fun s => ' ' :: s.toList)
  | n, [] => by simp [String.intercalate_singleton]
  | n, v :: vs => by
    rw [String.intercalate_cons_cons, String.toList_append, String.toList_append, inter_toList v vs]
    simp

theorem tabs_toList (n : Nat) : (tabs n).toList = List.replicate n '\t' := by simp [tabs]

theorem notNL_tabs_word {n : Nat} {c : Char} {r : List Char} (hc : c ≠ '\n') :
    NotNL (List.replicate n '\t' ++ c :: r) := by
  cases n with
  | zero => simpa [NotNL] using hc
  | succ k => simp [NotNL, List.replicate_succ]

theorem legalName_head {n : String} (h : LegalName n) : ∃ c r, n.toList = c :: r ∧ c ≠ '\n' := by
  obtain ⟨c, a, hca, hc, _⟩ := h.1
  exact ⟨c, a, hca, alpha_not_nl hc⟩

theorem spell_gate (depth : Nat) (name : String) (args : List (String × Val)) (hn : LegalName name)
    (hok : okArgs args = true) (hs : SafeArgs args) {cs : List Char} {ts : List Tok} (h : SpellsNL cs ts) :
    ∃ t, genGate depth name args = .ok t ∧
      Spells (t.toList ++ cs) (Tok.IDENTIFIER name :: argsToks args ++ Tok.NL :: ts) ∧ NotNL (t.toList ++ cs) := by
  obtain ⟨vs, hvs, hsp⟩ := spell_args args hok hs (Spells.endline h)
  refine ⟨tabs depth ++ " ".intercalate (name :: vs) ++ "\n", ?_, ?_, ?_⟩
  · simp only [genGate]
    have : args.mapM (fun a => joinValue a.2) = .ok vs := hvs
    simp [this, bind, Except.bind, pure, Except.pure]
  · simp only [String.toList_append, tabs_toList, inter_toList, List.append_assoc]
    refine Spells.tabs depth ?_
    have := Spells.name hn (delim_args vs cs) hsp
    simpa using this
  · obtain ⟨c, r, hcr, hc⟩ := legalName_head hn
    simp only [String.toList_append, tabs_toList, inter_toList, List.append_assoc, hcr, List.cons_append]
    exact notNL_tabs_word hc

/-! ## blocks -/

mutual
def SafeStmt : Stmt → Prop
  | .gate name _ args => LegalName name ∧ SafeArgs args
  | .loop cnt body => SafeRef cnt ∧ SafeStmt body
  | .block _ _ it b => SafeRef it ∧ SafeItems b
def SafeItems : List Stmt → Prop
  | [] => True
  | s :: ss => SafeStmt s ∧ SafeItems ss
end

theorem spell_brace (par : Bool) {X : List Char} {T : List Tok} (h : SpellsNL X T) :
    Spells ((if par then "<\n" else "{\n").toList ++ X) (openTok par :: Tok.NL :: T) := by
  cases par
  · exact Spells.punct (c := '{') (by decide) rfl (Spells.endline h)
  · exact Spells.punct (c := '<') (by decide) rfl (Spells.endline h)

theorem spell_close (depth : Nat) (par : Bool) {cs : List Char} {ts : List Tok} (h : SpellsNL cs ts) :
    Spells ((blockClose depth par).toList ++ cs) (closeTok par :: Tok.NL :: ts) ∧
      NotNL ((blockClose depth par).toList ++ cs) := by
  cases par
  · simp only [blockClose, Bool.false_eq_true, if_false, String.toList_append, tabs_toList, List.append_assoc]
    exact ⟨Spells.tabs depth (Spells.punct (c := '}') (by decide) rfl (Spells.endline h)),
      notNL_tabs_word (c := '}') (by decide)⟩
  · simp only [blockClose, if_true, String.toList_append, tabs_toList, List.append_assoc]
    exact ⟨Spells.tabs depth (Spells.punct (c := '>') (by decide) rfl (Spells.endline h)),
      notNL_tabs_word (c := '>') (by decide)⟩

theorem fmtIters_ref {v : Val} (h : okRef v = true) : fmtIters v = .ok (refStr v) := by
  cases v <;> simp [okRef] at h <;> rfl

theorem refTok_head {v : Val} (hok : okRef v = true) (hs : SafeRef v) :
    ∃ c r, (refStr v).toList = c :: r ∧ c ≠ '\n' := by
  cases v <;> simp [okRef] at hok
  · rename_i i
    obtain ⟨c, r, hcr, hc⟩ := genIntL_head i
    exact ⟨c, r, by simp [refStr, genInt_toList, hcr], (show NumHead c from hc).not_nl⟩
  · exact legalName_head hs
  · exact legalName_head hs

/-- the text of `generate_jaqal_block` before the statements: indentation, `subcircuit [count]`, the bracket -/
theorem spell_open (indent : Bool) (depth : Nat) (par sub : Bool) (it : Val) (hit : sub = true → okRef it = true)
    (hs : SafeRef it) {X : List Char} {T : List Tok} (h : SpellsNL X T) :
    ∃ op, blockOpen indent depth par sub it = .ok op ∧
      Spells (op.toList ++ X) ((if sub then subHead it else []) ++ openTok par :: Tok.NL :: T) ∧
      NotNL (op.toList ++ X) := by
  have hb := spell_brace par h
  have hbn : NotNL ((if par then "<\n" else "{\n").toList ++ X) := by
    cases par <;> simp [NotNL]
  cases sub with
  | false =>
    refine ⟨(if indent then tabs depth else "") ++ "" ++ (if par then "<\n" else "{\n"), by simp [blockOpen, pure, Except.pure, bind, Except.bind], ?_, ?_⟩
    · simp only [String.toList_append, List.append_assoc, Bool.false_eq_true, if_false, List.nil_append]
      cases indent
      · simpa using hb
      · simp only [if_true, tabs_toList]
        simpa using Spells.tabs depth hb
    · simp only [String.toList_append, List.append_assoc]
      cases indent
      · simpa using hbn
      · simp only [if_true, tabs_toList]
        cases par
        · simpa using notNL_tabs_word (n := depth) (c := '{') (r := '\n' :: X) (by decide)
        · simpa using notNL_tabs_word (n := depth) (c := '<') (r := '\n' :: X) (by decide)
  | true =>
    have hok := hit rfl
    have hbrace_delim : ∀ (r : List Char), Delim (' ' :: r) := delim_space
    by_cases hne : itersNe1 it = true
    · refine ⟨(if indent then tabs depth else "") ++ ("subcircuit " ++ refStr it ++ " ") ++ (if par then "<\n" else "{\n"),
        by simp [blockOpen, hne, fmtIters_ref hok, pure, Except.pure, bind, Except.bind], ?_, ?_⟩
      · have h1 := Spells.space hb
        have h2 := spell_ref hok hs (delim_space _) h1
        have h3 := Spells.space h2
        have h4 := Spells.keyword "subcircuit" .SUBCIRCUIT shape_subcircuit rfl (delim_space _) h3
        simp only [String.toList_append, List.append_assoc, if_true, subHead, hne]
        cases indent
        · simpa using h4
        · simp only [if_true, tabs_toList]
          simpa using Spells.tabs depth h4
      · simp only [String.toList_append, List.append_assoc]
        cases indent
        · simp [NotNL]
        · simp only [if_true, tabs_toList]
          simpa using notNL_tabs_word (n := depth) (c := 's') (by decide)
    · refine ⟨(if indent then tabs depth else "") ++ "subcircuit " ++ (if par then "<\n" else "{\n"),
        by simp [blockOpen, hne, pure, Except.pure, bind, Except.bind], ?_, ?_⟩
      · have h3 := Spells.space hb
        have h4 := Spells.keyword "subcircuit" .SUBCIRCUIT shape_subcircuit rfl (delim_space _) h3
        simp only [String.toList_append, List.append_assoc, if_true, subHead, hne]
        cases indent
        · simpa using h4
        · simp only [if_true, tabs_toList]
          simpa using Spells.tabs depth h4
      · simp only [String.toList_append, List.append_assoc]
        cases indent
        · simp [NotNL]
        · simp only [if_true, tabs_toList]
          simpa using notNL_tabs_word (n := depth) (c := 's') (by decide)

theorem joinValue_ref {v : Val} (h : okRef v = true) : joinValue v = .ok (refStr v) := by
  simp [joinValue, genValue_ref h]
  rfl

/-- the part common to block statements, loops and macros: bracket, statements, closing bracket -/
theorem spell_block_core (indent : Bool) (depth : Nat) (par sub : Bool) (it : Val) (b : List Stmt)
    (hit : sub = true → okRef it = true) (hs : SafeRef it)
    (hitems : ∀ {cs : List Char} {ts : List Tok}, SpellsNL cs ts →
      ∃ t, genItems par (depth + 1) b = .ok t ∧ SpellsNL (t.toList ++ cs) (itemsToks par b ++ ts))
    {cs : List Char} {ts : List Tok} (h : SpellsNL cs ts) :
    ∃ op inner, blockOpen indent depth par sub it = .ok op ∧ genItems par (depth + 1) b = .ok inner ∧
      Spells ((op ++ inner ++ blockClose depth par).toList ++ cs)
        ((if sub then subHead it else []) ++ openTok par :: Tok.NL :: (itemsToks par b ++ [closeTok par]) ++ Tok.NL :: ts) ∧
      NotNL ((op ++ inner ++ blockClose depth par).toList ++ cs) := by
  obtain ⟨hc, hcn⟩ := spell_close depth par h
  obtain ⟨inner, hinner, hsi⟩ := hitems (SpellsNL.of hc hcn)
  obtain ⟨op, hop, hso, hon⟩ := spell_open indent depth par sub it hit hs hsi
  refine ⟨op, inner, hop, hinner, ?_, ?_⟩
  · simpa [String.toList_append, List.append_assoc] using hso
  · simpa [String.toList_append, List.append_assoc] using hon

theorem spell_stmt_items : ∀ n : Nat,
    (∀ (s : Stmt) (depth : Nat) (par : Bool), sizeOf s < n → okStmt par s = true → SafeStmt s →
      ∀ {cs : List Char} {ts : List Tok}, SpellsNL cs ts →
      ∃ t, genStmt depth s = .ok t ∧ Spells (t.toList ++ cs) (stmtToks s ++ Tok.NL :: ts) ∧ NotNL (t.toList ++ cs)) ∧
    (∀ (l : List Stmt) (depth : Nat) (par : Bool), sizeOf l < n → okItems par l = true → SafeItems l →
      ∀ {cs : List Char} {ts : List Tok}, SpellsNL cs ts →
      ∃ t, genItems par depth l = .ok t ∧ SpellsNL (t.toList ++ cs) (itemsToks par l ++ ts)) := by
  intro n
  induction n with
  | zero => exact ⟨fun _ _ _ h => absurd h (Nat.not_lt_zero _), fun _ _ _ h => absurd h (Nat.not_lt_zero _)⟩
  | succ n ih =>
    obtain ⟨ihS, ihL⟩ := ih
    have stmtCase : ∀ (s : Stmt) (depth : Nat) (par : Bool), sizeOf s < n + 1 → okStmt par s = true → SafeStmt s →
        ∀ {cs : List Char} {ts : List Tok}, SpellsNL cs ts →
        ∃ t, genStmt depth s = .ok t ∧ Spells (t.toList ++ cs) (stmtToks s ++ Tok.NL :: ts) ∧
          NotNL (t.toList ++ cs) := by
      intro s depth par hsz hok hsafe cs ts K
      cases s with
      | gate name gd args =>
        simp only [okStmt] at hok
        simp only [SafeStmt] at hsafe
        obtain ⟨t, ht, hsp, hn⟩ := spell_gate depth name args hsafe.1 hok hsafe.2 K
        exact ⟨t, by simp only [genStmt]; exact ht, by simpa [stmtToks] using hsp, hn⟩
      | loop cnt body =>
        cases body with
        | gate _ _ _ => simp [okStmt] at hok
        | loop _ _ => simp [okStmt] at hok
        | block p sub it b =>
          simp only [okStmt, Bool.and_eq_true, Bool.not_eq_true'] at hok
          obtain ⟨⟨⟨_, hc⟩, hsub⟩, hb⟩ := hok
          subst hsub
          simp only [SafeStmt] at hsafe
          obtain ⟨op, inner, hop, hinner, hsp, _⟩ := spell_block_core false depth p false it b (by intro h; cases h)
            hsafe.2.1 (fun K' => ihL b (depth + 1) p (by simp at hsz; omega) hb hsafe.2.2 K') K
          refine ⟨tabs depth ++ "loop " ++ refStr cnt ++ " " ++ op ++ inner ++ blockClose depth p, ?_, ?_, ?_⟩
          · simp only [genStmt, hop, hinner, joinValue_ref hc, bind, Except.bind, pure, Except.pure]
          · have h0 : Spells ((op ++ inner ++ blockClose depth p).toList ++ cs)
                (openTok p :: Tok.NL :: (itemsToks p b ++ [closeTok p]) ++ Tok.NL :: ts) := by
              simpa using hsp
            have h1 := Spells.space h0
            have h2 := spell_ref hc hsafe.1 (delim_space _) h1
            have h3 := Spells.space h2
            have h4 := Spells.keyword "loop" .LOOP shape_loop rfl (delim_space _) h3
            have h5 := Spells.tabs depth h4
            simpa [stmtToks, String.toList_append, tabs_toList, List.append_assoc] using h5
          · simp only [String.toList_append, tabs_toList, List.append_assoc]
            simpa using notNL_tabs_word (n := depth) (c := 'l') (by decide)
      | block p sub it b =>
        simp only [SafeStmt] at hsafe
        have hparts : (sub = true → okRef it = true) ∧ okItems p b = true := by
          cases sub
          · simp only [okStmt, Bool.false_eq_true, if_false, Bool.and_eq_true] at hok
            exact ⟨(by intro h; cases h), hok.2⟩
          · simp only [okStmt, if_true, Bool.and_eq_true, Bool.not_eq_true'] at hok
            obtain ⟨⟨⟨_, hp⟩, hc⟩, hb⟩ := hok
            subst hp
            exact ⟨fun _ => hc, hb⟩
        obtain ⟨op, inner, hop, hinner, hsp, hn⟩ := spell_block_core true depth p sub it b hparts.1 hsafe.1
          (fun K' => ihL b (depth + 1) p (by simp at hsz; omega) hparts.2 hsafe.2 K') K
        refine ⟨op ++ inner ++ blockClose depth p, ?_, ?_, hn⟩
        · simp only [genStmt, hop, hinner, bind, Except.bind, pure, Except.pure]
        · simpa [stmtToks] using hsp
    refine ⟨stmtCase, ?_⟩
    intro l depth par hsz hok hsafe cs ts K
    cases l with
    | nil => exact ⟨"", by simp [genItems, pure, Except.pure], by simpa [itemsToks] using K⟩
    | cons s rest =>
      have hrest : sizeOf rest < n := by simp at hsz; omega
      have hs1 : sizeOf s < n + 1 := by simp at hsz; omega
      simp only [SafeItems] at hsafe
      -- the general step: the statement is written, then the rest
      have general : okStmt par s = true → okItems par rest = true →
          (genItems par depth (s :: rest) = (do let x ← genStmt depth s; let y ← genItems par depth rest; pure (x ++ y))) →
          itemsToks par (s :: rest) = stmtToks s ++ Tok.NL :: itemsToks par rest →
          ∃ t, genItems par depth (s :: rest) = .ok t ∧ SpellsNL (t.toList ++ cs) (itemsToks par (s :: rest) ++ ts) := by
        intro hok1 hok2 hgen htoks
        obtain ⟨y, hy, hsy⟩ := ihL rest depth par hrest hok2 hsafe.2 K
        obtain ⟨x, hx, hsx, hnx⟩ := stmtCase s depth par hs1 hok1 hsafe.1 hsy
        refine ⟨x ++ y, by rw [hgen, hx, hy]; rfl, ?_⟩
        rw [htoks]
        have happ : (x ++ y).toList ++ cs = x.toList ++ (y.toList ++ cs) := by
          simp [String.toList_append, List.append_assoc]
        rw [happ]
        refine SpellsNL.of ?_ hnx
        simpa [List.append_assoc] using hsx
      cases s with
      | gate name gd args =>
        simp only [okItems, Bool.and_eq_true] at hok
        exact general hok.1 hok.2 (by simp only [genItems]) (by simp only [itemsToks])
      | loop cnt body =>
        simp only [okItems, Bool.and_eq_true] at hok
        exact general hok.1 hok.2 (by simp only [genItems]) (by simp only [itemsToks])
      | block p sub it b =>
        cases sub with
        | true =>
          simp only [okItems, Bool.and_eq_true] at hok
          exact general hok.1 hok.2 (by simp only [genItems]) (by simp only [itemsToks])
        | false =>
          by_cases hp : p = par
          · simp only [okItems, hp, if_true, Bool.and_eq_true] at hok
            subst hp
            simp only [SafeStmt] at hsafe
            obtain ⟨y, hy, hsy⟩ := ihL rest depth p hrest hok.2 hsafe.2 K
            obtain ⟨x, hx, hsx⟩ := ihL b depth p (by simp at hsz; omega) hok.1 hsafe.1.2 hsy
            refine ⟨x ++ y, by simp only [genItems, if_true, hx, hy, bind, Except.bind, pure, Except.pure], ?_⟩
            simpa [itemsToks, String.toList_append, List.append_assoc] using hsx
          · simp only [okItems, hp, if_false, Bool.and_eq_true] at hok
            exact general hok.1 hok.2 (by simp only [genItems, hp, if_false]) (by simp only [itemsToks, hp, if_false])

theorem spell_stmt {s : Stmt} (depth : Nat) {par : Bool} (hok : okStmt par s = true) (hs : SafeStmt s)
    {cs : List Char} {ts : List Tok} (K : SpellsNL cs ts) :
    ∃ t, genStmt depth s = .ok t ∧ Spells (t.toList ++ cs) (stmtToks s ++ Tok.NL :: ts) ∧ NotNL (t.toList ++ cs) :=
  (spell_stmt_items (sizeOf s + 1)).1 s depth par (Nat.lt_succ_self _) hok hs K

theorem spell_items {l : List Stmt} (depth : Nat) {par : Bool} (hok : okItems par l = true) (hs : SafeItems l)
    {cs : List Char} {ts : List Tok} (K : SpellsNL cs ts) :
    ∃ t, genItems par depth l = .ok t ∧ SpellsNL (t.toList ++ cs) (itemsToks par l ++ ts) :=
  (spell_stmt_items (sizeOf l + 1)).2 l depth par (Nat.lt_succ_self _) hok hs K

/-- a statement at top level (a `{ }` block is allowed there) -/
theorem spell_top {s : Stmt} (hok : okTop s = true) (hs : SafeStmt s) {cs : List Char} {ts : List Tok}
    (K : SpellsNL cs ts) :
    ∃ t, genStmt 0 s = .ok t ∧ Spells (t.toList ++ cs) (stmtToks s ++ Tok.NL :: ts) ∧ NotNL (t.toList ++ cs) := by
  cases s with
  | gate name gd args => exact spell_stmt 0 (par := false) hok hs K
  | loop cnt body => exact spell_stmt 0 (par := false) hok hs K
  | block p sub it b =>
    cases p <;> cases sub
    · simp only [okTop] at hok
      simp only [SafeStmt] at hs
      obtain ⟨op, inner, hop, hinner, hsp, hn⟩ := spell_block_core true 0 false false it b (by intro h; cases h) hs.1
        (fun K' => spell_items 1 hok hs.2 K') K
      exact ⟨op ++ inner ++ blockClose 0 false,
        by simp only [genStmt, hop, hinner, bind, Except.bind, pure, Except.pure], by simpa [stmtToks] using hsp, hn⟩
    · exact spell_stmt 0 (par := false) hok hs K
    · exact spell_stmt 0 (par := false) hok hs K
    · exact spell_stmt 0 (par := false) hok hs K

/-! ## lines of a section -/

theorem spell_concatM {α : Type} (f : α → M String) (tk : α → List Tok) :
    ∀ (l : List α), (∀ x ∈ l, ∀ {cs : List Char} {ts : List Tok}, SpellsNL cs ts →
        ∃ t, f x = .ok t ∧ Spells (t.toList ++ cs) (tk x ++ Tok.NL :: ts) ∧ NotNL (t.toList ++ cs)) →
    ∀ {cs : List Char} {ts : List Tok}, SpellsNL cs ts →
    ∃ t, concatM f l = .ok t ∧ SpellsNL (t.toList ++ cs) (lines tk l ++ ts) ∧
      (l ≠ [] → Spells (t.toList ++ cs) (lines tk l ++ ts) ∧ NotNL (t.toList ++ cs))
  | [], _, cs, ts, K => ⟨"", rfl, by simpa [lines] using K, fun h => absurd rfl h⟩
  | x :: xs, hf, cs, ts, K => by
    obtain ⟨y, hy, hsy, _⟩ := spell_concatM f tk xs (fun z hz => hf z (by simp [hz])) K
    obtain ⟨t, ht, hst, hnt⟩ := hf x (by simp) hsy
    have happ : (t ++ y).toList ++ cs = t.toList ++ (y.toList ++ cs) := by
      simp [String.toList_append, List.append_assoc]
    have hsp : Spells ((t ++ y).toList ++ cs) (lines tk (x :: xs) ++ ts) := by
      rw [happ]; simpa [lines, List.append_assoc] using hst
    have hnn : NotNL ((t ++ y).toList ++ cs) := by rw [happ]; exact hnt
    exact ⟨t ++ y, by simp only [concatM, ht, hy, bind, Except.bind, pure, Except.pure], SpellsNL.of hsp hnn,
      fun _ => ⟨hsp, hnn⟩⟩

end Jaqal.RoundTrip
