import JaqalProofs.Lemmas.LetTextCircuit
import JaqalProofs.Lemmas.GrammarShape
import JaqalProofs.Props.C07
/-!
# `parseBuild` on the tree of a text and on the tree with its lets rewritten

`parseBuild_reval`: for the tree `sx` of an accepted text, under the side condition `NoFrozenStop ov sx`, whenever both
`parseBuild cfg sx` and `parseBuild cfg (rewriteLets ov sx)` succeed the second circuit is `revalC ov` of the first.
-/
set_option linter.unusedVariables false
set_option linter.unusedSimpArgs false
namespace Jaqal.FillIn
open Jaqal Jaqal.Builder Jaqal.RoundTrip

variable (ov : List (String × Num))

/-- **the side condition** (decidable, on the tree of the text): walking the children of the program keep the set `dep` of
header names whose object may depend on an overridden let (`depStep`); fail at `map c a[k:]` / `a[:]` / `a[k::s]` (stop
not written) with `a ∈ dep` (`frozenAt`) -/
def NoFrozenStop (sx : Sx) : Bool :=
  match BSx.ofSx sx with
  | .list (.str "circuit" :: cs) => scan ov [] cs
  | _ => true

/-! ### the shape of the parser's tree -/

theorem parseText_gprogram {txt : String} {sx : Sx} (h : Parser.parseText txt = .ok sx) : GProgram (BSx.ofSx sx) := by
  unfold Parser.parseText at h
  split at h
  · rename_i ts _
    cases hp : Parser.parse ts with
    | ok x => rw [hp] at h; simp only [] at h; cases h; exact derives_gprogram (Jaqal.C02.C02_sound hp)
    | error e => rw [hp] at h; cases h
  · rename_i ts le _
    cases hp : Parser.parse ts with
    | ok x => rw [hp] at h; cases h
    | error e => rw [hp] at h; simp only [] at h; split at h <;> cases h

/-! ### the rewriting on `Sx` and on `BSx` -/

theorem ofSx_ovSx (x : Num) : BSx.ofSx (ovSx x) = ovB x := by cases x <;> rfl

theorem ofSx_eq_str {a : Sx} {s : String} (h : BSx.ofSx a = .str s) : a = .str s := by
  cases a <;> simp [BSx.ofSx] at h
  rw [h]

theorem ofSx_rewriteLet (x : Sx) : BSx.ofSx (rewriteLet ov x) = rewriteLetB ov (BSx.ofSx x) := by
  unfold rewriteLet
  split
  · rename_i n v
    simp only [BSx.ofSx, BSx.ofSxList, rewriteLetB]
    cases lookupOv ov n with
    | some y => simp only [BSx.ofSx, BSx.ofSxList, ofSx_ovSx]
    | none => simp only [BSx.ofSx, BSx.ofSxList]
  · rename_i hne
    unfold rewriteLetB
    split
    · rename_i n v' heq
      exfalso
      cases x with
      | list l =>
        simp only [BSx.ofSx, BSx.list.injEq] at heq
        cases l with
        | nil => simp [BSx.ofSxList] at heq
        | cons a l =>
          cases l with
          | nil => simp [BSx.ofSxList] at heq
          | cons b l =>
            cases l with
            | nil => simp [BSx.ofSxList] at heq
            | cons c l =>
              cases l with
              | nil =>
                simp only [BSx.ofSxList, List.cons.injEq, and_true] at heq
                have ha := ofSx_eq_str heq.1
                have hb := ofSx_eq_str heq.2.1
                subst ha hb
                exact hne n c rfl
              | cons d l => simp [BSx.ofSxList] at heq
      | _ => simp [BSx.ofSx] at heq
    · rfl

theorem ofSxList_map_rewrite : ∀ cs : List Sx,
    BSx.ofSxList (cs.map (rewriteLet ov)) = (BSx.ofSxList cs).map (rewriteLetB ov)
  | [] => rfl
  | c :: cs => by
    simp only [List.map_cons, BSx.ofSxList, ofSx_rewriteLet, ofSxList_map_rewrite cs]

theorem ofSx_rewriteLets {sx : Sx} {cs : List BSx} (h : BSx.ofSx sx = .list (.str "circuit" :: cs)) :
    BSx.ofSx (rewriteLets ov sx) = .list (.str "circuit" :: cs.map (rewriteLetB ov)) := by
  cases sx with
  | list l =>
    cases l with
    | nil => simp [BSx.ofSx, BSx.ofSxList] at h
    | cons a l =>
      simp only [BSx.ofSx, BSx.ofSxList, BSx.list.injEq, List.cons.injEq] at h
      have ha := ofSx_eq_str h.1
      subst ha
      simp only [rewriteLets, BSx.ofSx, BSx.ofSxList, ofSxList_map_rewrite, h.2]
  | _ => simp [BSx.ofSx] at h

/-! ### fuel: the rewritten tree is as deep -/

theorem rewriteLetB_depth {e : BSx} (h : GHeader e ∨ GTop e) : (rewriteLetB ov e).depth = e.depth := by
  rcases h with hh | ht
  · cases hh with
    | letInt n v =>
      simp only [rewriteLetB]
      cases lookupOv ov n with
      | some x => cases x <;> rfl
      | none => rfl
    | letFlt n d =>
      simp only [rewriteLetB]
      cases lookupOv ov n with
      | some x => cases x <;> rfl
      | none => rfl
    | usepulses m => rw [rewriteLetB_of_head ov _ (by decide)]
    | register n _ => rw [rewriteLetB_of_head ov _ (by decide)]
    | mapWhole n s => rw [rewriteLetB_of_head ov _ (by decide)]
    | mapIndex n s _ => rw [rewriteLetB_of_head ov _ (by decide)]
    | mapSlice n s _ _ _ => rw [rewriteLetB_of_head ov _ (by decide)]
  · rw [rewriteLetB_top ov ht]

theorem depthList_map_rewrite : ∀ {cs : List BSx}, (∀ c ∈ cs, GHeader c ∨ GTop c) →
    BSx.depthList (cs.map (rewriteLetB ov)) = BSx.depthList cs
  | [], _ => rfl
  | c :: cs, h => by
    have h1 := rewriteLetB_depth ov (h c (by simp))
    have h2 : BSx.depthList (cs.map (rewriteLetB ov)) = BSx.depthList cs :=
      depthList_map_rewrite (fun x (hx : x ∈ cs) => h x (List.mem_cons_of_mem c hx))
    simp only [List.map_cons, BSx.depthList, h1, h2]

/-! ### `Builder.build` -/

theorem revalAcc_init (g0 : List (String × GateDef)) :
    revalAcc ov { st := { gctx := g0.map (fun p => (p.1, GEntry.gdef p.2)) }, natives := g0 } =
      { st := { gctx := g0.map (fun p => (p.1, GEntry.gdef p.2)) }, natives := g0 } := by
  simp only [revalAcc, revalSt, revalG, revalCtx, List.map_map, List.map_nil, revalStmts]
  rfl

theorem depInv_empty : DepInv ov [] ({} : Ctx) := by
  intro n v h
  simp [Ctx.get] at h

theorem buildOff_rel {cfg : Config} {cs : List BSx} {c c' : Circuit} (hg : ∀ x ∈ cs, GHeader x ∨ GTop x)
    (hs : scan ov [] cs = true) (h : buildWith .off cfg (.list (.str "circuit" :: cs)) = .ok c)
    (h' : buildWith .off cfg (.list (.str "circuit" :: cs.map (rewriteLetB ov))) = .ok c') : c' = revalC ov c := by
  unfold buildWith at h h'
  obtain ⟨inj, hinj, h⟩ := bind_ok h
  obtain ⟨inj', hinj', h'⟩ := bind_ok h'
  rw [hinj] at hinj'
  cases hinj'
  simp only [buildCore, BSx.depth, BSx.depthList, depthList_map_rewrite ov hg] at h h'
  obtain ⟨acc, hloop, h⟩ := bind_ok h
  obtain ⟨acc', hloop', h'⟩ := bind_ok h'
  simp only [pure, Except.pure, Except.ok.injEq] at h h'
  subst h h'
  rw [← revalAcc_init ov] at hloop'
  have := circuitLoop_rel ov cs [] _ acc acc' hg hs (depInv_empty ov) hloop hloop'
  subst this
  simp only [Acc.toCircuit, revalAcc, revalC, revalStmt, reval]

theorem tooMany_ok {c0 c : Circuit} (h : tooManyRegisters c0 = .ok c) : c = c0 := by
  unfold tooManyRegisters at h
  split at h
  · simp [throw_eq] at h
  · simp only [pure, Except.pure, Except.ok.injEq] at h
    exact h.symm

/-- **the builder on the rewritten tree**: under the side condition, the circuit built from the tree with its lets rewritten
is the circuit built from the tree with the declared values of the overridden lets replaced -/
theorem parseBuild_reval (cfg : Config) (txt : String) (sx : Sx) (c c' : Circuit)
    (hp : Parser.parseText txt = .ok sx) (hn : NoFrozenStop ov sx = true) (hb : parseBuild cfg sx = .ok c)
    (hb' : parseBuild cfg (rewriteLets ov sx) = .ok c') : c' = revalC ov c := by
  obtain ⟨hs, bs, he, hhs, hbs⟩ := parseText_gprogram hp
  have hg : ∀ x ∈ hs ++ bs, GHeader x ∨ GTop x := by
    intro x hx
    rcases List.mem_append.1 hx with hx | hx
    · exact Or.inl (hhs x hx)
    · exact Or.inr (hbs x hx)
  have he' := ofSx_rewriteLets ov he
  simp only [NoFrozenStop, he] at hn
  unfold parseBuild at hb hb'
  obtain ⟨c0, hb0, ht⟩ := bind_ok hb
  obtain ⟨c0', hb0', ht'⟩ := bind_ok hb'
  have e1 := tooMany_ok ht
  have e2 := tooMany_ok ht'
  subst e1 e2
  rw [C07_memo_transparent, he] at hb0
  rw [C07_memo_transparent, he'] at hb0'
  exact buildOff_rel ov hg hn hb0 hb0'

end Jaqal.FillIn
