import JaqalProofs.Lemmas.RoundTripSwap
/-!
# C01, text layer: the names and floats of a built circuit are names and floats of the tree it was built from

`P` is a property of names and `R` a property of floats (in the application: "is read back as one IDENTIFIER" and "is a
canonical decimal that does not overflow").  If every name of the statement tree has `P` and every float has `R`
(`SStmt`, `SHeader`, `STop`: the shapes of the grammar with these facts attached), then so has every name and every
float that the generator writes for the circuit the builder makes (`StmtP`, `LetP`, `DeclP`): the builder invents no
names (an element `r[i]` is written as `r` and `i`) and no floats.  Integers are not covered: the builder computes some
(the stop of a defaulted slice, the integer of an integral float).
-/
set_option linter.unusedSimpArgs false
set_option linter.unusedVariables false
namespace Jaqal.RoundTrip
open Jaqal Jaqal.Builder Jaqal.Pipeline

section
variable (P : String → Prop) (R : Dec → Prop)

/-! ## what the generator writes -/

/-- an index / bound / count -/
def RefP : Val → Prop
  | .const n _ => P n
  | .param n _ => P n
  | _ => True

/-- a gate argument -/
def ArgP : Val → Prop
  | .int _ => True
  | .flt d => R d
  | .qubit n src idx => if isItem n src idx = true then P (Pipeline.nameOf src) ∧ RefP P idx else P n
  | v => P (Pipeline.nameOf v)

def ArgsP : List (String × Val) → Prop
  | [] => True
  | a :: as => ArgP P R a.2 ∧ ArgsP as

mutual
def StmtP : Stmt → Prop
  | .gate name _ args => P name ∧ ArgsP P R args
  | .loop cnt body => RefP P cnt ∧ StmtP body
  | .block _ _ it b => RefP P it ∧ ItemsP b
def ItemsP : List Stmt → Prop
  | [] => True
  | s :: ss => StmtP s ∧ ItemsP ss
end

def LetP : Val → Prop
  | .const n (.flt d) => P n ∧ R d
  | .const n _ => P n
  | _ => True

def DeclP : Val → Prop
  | .regF n size => P n ∧ RefP P size
  | .qubit n src idx => P n ∧ P (Pipeline.nameOf src) ∧ RefP P idx
  | .regA n src => P n ∧ P (Pipeline.nameOf src)
  | .regS n src a b c => P n ∧ P (Pipeline.nameOf src) ∧ RefP P a ∧ RefP P b ∧ RefP P c
  | _ => True

/-! ## the statement tree -/

def refT : BSx → Prop
  | .str s => P s
  | _ => True

def argT : BSx → Prop
  | .str s => P s
  | .flt d => R d
  | .list [.str _, .str a, idx] => P a ∧ refT P idx
  | _ => True

/-- `GStmt` with the names and floats of the tree having `P` and `R` -/
inductive SStmt : Bool → BSx → Prop
  | gate {par : Bool} {g : String} {args : List BSx} : args.all isGateArg = true → P g → (∀ a ∈ args, argT P R a) →
      SStmt par (.list (.str "gate" :: .str g :: args))
  | parB {items : List BSx} : (∀ x ∈ items, SStmt true x) → SStmt false (.list (.str "parallel_block" :: items))
  | seqB {items : List BSx} : (∀ x ∈ items, SStmt false x) → SStmt true (.list (.str "sequential_block" :: items))
  | loopSeq {c : BSx} {items : List BSx} : isIntOrId c = true → refT P c → (∀ x ∈ items, SStmt false x) →
      SStmt false (.list [.str "loop", c, .list (.str "sequential_block" :: items)])
  | loopPar {c : BSx} {items : List BSx} : isIntOrId c = true → refT P c → (∀ x ∈ items, SStmt true x) →
      SStmt false (.list [.str "loop", c, .list (.str "parallel_block" :: items)])
  | sub {c : BSx} {items : List BSx} : isIntOrId c = true → (c = .str "" ∨ refT P c) → (∀ x ∈ items, SStmt false x) →
      SStmt false (.list (.str "subcircuit_block" :: c :: items))

theorem SStmt.toG : ∀ {par : Bool} {e : BSx}, SStmt P R par e → GStmt par e
  | _, _, .gate ha _ _ => GStmt.gate ha
  | _, _, .parB h => GStmt.parB (fun x hx => (h x hx).toG)
  | _, _, .seqB h => GStmt.seqB (fun x hx => (h x hx).toG)
  | _, _, .loopSeq hc _ h => GStmt.loopSeq hc (fun x hx => (h x hx).toG)
  | _, _, .loopPar hc _ h => GStmt.loopPar hc (fun x hx => (h x hx).toG)
  | _, _, .sub hc _ h => GStmt.sub hc (fun x hx => (h x hx).toG)

/-- every name the context binds has `P` -/
def CtxP (ctx : Ctx) : Prop := ∀ n v, ctx.get n = some v → P n

variable {P R}

/-! ## references and arguments -/

theorem refP_of {ctx : Ctx} (hc : CtxN ctx) {f : Nat} {e : BSx} (he : isIntOrId e = true) (ht : refT P e) {v : Val}
    (h : buildVal ctx f e = .ok v) : RefP P v := by
  rcases ref_inv hc he h with ⟨i, _, rfl⟩ | ⟨n, rfl, _, hn, _, _⟩
  · trivial
  · cases v <;> simp only [Val.name?, Option.some.injEq, reduceCtorEq] at hn <;> try trivial
    all_goals subst hn; exact ht

theorem refP_of_sx {v : Val} (h : refT P (BSx.ofSx (refSx v))) : RefP P v := by
  cases v <;> first | trivial | exact h

theorem argP_of_sx {v : Val} (h : argT P R (BSx.ofSx (argSx v))) : ArgP P R v := by
  cases v with
  | int i => trivial
  | flt d => exact h
  | qubit n src idx =>
    simp only [ArgP]
    by_cases hi : isItem n src idx = true
    · simp only [hi, if_true]
      simp only [argSx, hi, if_true, BSx.ofSx, BSx.ofSxList] at h
      exact ⟨h.1, refP_of_sx h.2⟩
    · simp only [hi, if_false]
      simp only [argSx, hi, if_false, BSx.ofSx] at h
      exact h
  | _ => exact h

theorem mem_ofSxList {x : Sx} : ∀ {l : List Sx}, x ∈ l → BSx.ofSx x ∈ BSx.ofSxList l
  | [], h => by cases h
  | y :: ys, h => by
    simp only [BSx.ofSxList, List.mem_cons]
    rcases List.mem_cons.1 h with rfl | h
    · exact Or.inl rfl
    · exact Or.inr (mem_ofSxList h)

theorem argsP_of : ∀ {bound : List (String × Val)}, (∀ a ∈ bound, ArgP P R a.2) → ArgsP P R bound
  | [], _ => trivial
  | a :: as, h => ⟨h a (by simp), argsP_of (fun b hb => h b (by simp [hb]))⟩

/-! ## statements -/

/-- the claim for fuel `f` -/
def SafeIH (P : String → Prop) (R : Dec → Prop) (cfg : Config) (f : Nat) : Prop :=
  ∀ (ctx : Ctx) (par : Bool) (e : BSx) (st : St) (o : Obj) (st' : St), CtxN ctx → CtxP P ctx → KInv st →
    SStmt P R par e → noBr e = true → buildAny cfg .off f ctx e st = .ok (o, st') → ∃ s, o = .stmt s ∧ StmtP P R s

theorem gate_safe {cfg : Config} {ctx : Ctx} (hc : CtxN ctx) {f : Nat} {g : String} {args : List BSx} {st st' : St}
    {o : Obj} (hk : KInv st) (ha : args.all isGateArg = true) (hb : noBrList args = true) (hg : P g)
    (hargs : ∀ a ∈ args, argT P R a)
    (h : buildAny cfg .off (f + 1) ctx (.list (.str "gate" :: .str g :: args)) st = .ok (o, st')) :
    ∃ s, o = .stmt s ∧ StmtP P R s := by
  rw [buildAny_list, anyStep_gate] at h
  obtain ⟨⟨s, st1⟩, hbg, h1⟩ := bind_ok h
  simp only [pure, Except.pure, Except.ok.injEq, Prod.mk.injEq] at h1
  obtain ⟨rfl, rfl⟩ := h1
  simp only [buildGate] at hbg
  obtain ⟨_, _, h2⟩ := bind_ok hbg
  simp only [buildGateMemo, if_true] at h2
  obtain ⟨⟨s', g'⟩, hfresh, h3⟩ := bind_ok h2
  simp only [pure, Except.pure, Except.ok.injEq, Prod.mk.injEq] at h3
  obtain ⟨rfl, rfl⟩ := h3
  unfold buildGateFresh at hfresh
  obtain ⟨⟨gd, g''⟩, hgd, h4⟩ := bind_ok hfresh
  obtain ⟨vals, hvals, h5⟩ := bind_ok h4
  obtain ⟨s'', hcall, h6⟩ := bind_ok h5
  simp only [pure, Except.pure, Except.ok.injEq, Prod.mk.injEq] at h6
  obtain ⟨rfl, rfl⟩ := h6
  have hname := getGateDef_name hk.keys hgd
  obtain ⟨bound, rfl, hbv⟩ := callDef_bound hcall
  obtain ⟨_, hsx⟩ := args_inv hc ha hb hvals
  refine ⟨_, rfl, by rw [hname]; exact hg, ?_⟩
  apply argsP_of
  intro a hmem
  apply argP_of_sx
  apply hargs
  rw [← hsx]
  have : a.2 ∈ vals := by rw [← hbv]; exact List.mem_map_of_mem hmem
  exact mem_ofSxList (List.mem_map_of_mem this)

theorem items_safe {cfg : Config} {f : Nat} (IH : SafeIH P R cfg f) {ctx : Ctx} (hc : CtxN ctx) (hp : CtxP P ctx)
    {par : Bool} : ∀ {items : List BSx} {st : St} {os : List Obj} {st' : St}, KInv st → (∀ x ∈ items, SStmt P R par x) →
    noBrList items = true → mapMSt (buildAny cfg .off f ctx) items st = .ok (os, st') →
    ∀ ss, asStmts os = .ok ss → ItemsP P R ss
  | [], st, os, st', _, _, _, h, ss, hss => by
    simp only [mapMSt, pure, Except.pure, Except.ok.injEq, Prod.mk.injEq] at h
    obtain ⟨rfl, rfl⟩ := h
    simp only [asStmts, pure, Except.pure, Except.ok.injEq] at hss
    subst hss
    trivial
  | x :: xs, st, os, st', hk, hg, hb, h, ss, hss => by
    simp only [noBrList, Bool.and_eq_true] at hb
    simp only [mapMSt] at h
    obtain ⟨⟨o, s1⟩, hx, h1⟩ := bind_ok h
    obtain ⟨⟨os', s2⟩, hxs, h2⟩ := bind_ok h1
    simp only [pure, Except.pure, Except.ok.injEq, Prod.mk.injEq] at h2
    obtain ⟨rfl, rfl⟩ := h2
    obtain ⟨s, rfl, hs⟩ := IH ctx par x st o s1 hc hp hk (hg x (by simp)) hb.1 hx
    have hk1 : KInv s1 := (buildAny_known f ctx x st s1 _ hk hx).inv
    simp only [asStmts] at hss
    obtain ⟨ss', hss', h3⟩ := bind_ok hss
    simp only [pure, Except.pure, Except.ok.injEq] at h3
    subst h3
    exact ⟨hs, items_safe IH hc hp hk1 (fun y hy => hg y (by simp [hy])) hb.2 hxs ss' hss'⟩

theorem stmt_safe (cfg : Config) : ∀ f, SafeIH P R cfg f := by
  intro f
  induction f with
  | zero =>
    intro ctx par e st o st' _ _ _ hg _ h
    cases hg <;> simp [buildAny, throw_eq] at h
  | succ f IH =>
    intro ctx par e st o st' hc hp hk hg hb h
    cases hg with
    | gate ha hgn hargs =>
      simp only [noBr, noBrList, Bool.and_eq_true] at hb
      exact gate_safe hc hk ha hb.2.2 hgn hargs h
    | parB hitems =>
      simp only [noBr, noBrList, Bool.and_eq_true] at hb
      rw [buildAny_list, anyStep_par] at h
      obtain ⟨⟨os, s1⟩, hm, h1⟩ := bind_ok h
      obtain ⟨ss, hss, h2⟩ := bind_ok h1
      simp only [pure, Except.pure, Except.ok.injEq, Prod.mk.injEq] at h2
      obtain ⟨rfl, rfl⟩ := h2
      exact ⟨_, rfl, trivial, items_safe (ctx := { ctx with inPar := true }) IH hc hp hk hitems hb.2 hm ss hss⟩
    | seqB hitems =>
      simp only [noBr, noBrList, Bool.and_eq_true] at hb
      rw [buildAny_list, anyStep_seq] at h
      obtain ⟨⟨os, s1⟩, hm, h1⟩ := bind_ok h
      obtain ⟨ss, hss, h2⟩ := bind_ok h1
      simp only [pure, Except.pure, Except.ok.injEq, Prod.mk.injEq] at h2
      obtain ⟨rfl, rfl⟩ := h2
      exact ⟨_, rfl, trivial, items_safe (ctx := { ctx with inSeq := true }) IH hc hp hk hitems hb.2 hm ss hss⟩
    | @loopSeq c items hcnt hct hitems =>
      simp only [noBr, noBrList, Bool.and_eq_true] at hb
      rw [buildAny_list, anyStep_loop] at h
      obtain ⟨count, hcount, h1⟩ := bind_ok h
      obtain ⟨⟨ob, s1⟩, hbody, h2⟩ := bind_ok h1
      have hnb : noBr (.list (.str "sequential_block" :: items)) = true := by
        simp only [noBr, noBrList, Bool.and_eq_true]; exact hb.2.2.1
      obtain ⟨sb, rfl, hsb⟩ := IH ctx true _ st ob s1 hc hp hk (SStmt.seqB hitems) hnb hbody
      simp only at h2
      obtain ⟨_, _, h3⟩ := bind_ok h2
      simp only [pure, Except.pure, Except.ok.injEq, Prod.mk.injEq] at h3
      obtain ⟨rfl, rfl⟩ := h3
      exact ⟨_, rfl, refP_of hc hcnt hct hcount, hsb⟩
    | @loopPar c items hcnt hct hitems =>
      simp only [noBr, noBrList, Bool.and_eq_true] at hb
      rw [buildAny_list, anyStep_loop] at h
      obtain ⟨count, hcount, h1⟩ := bind_ok h
      obtain ⟨⟨ob, s1⟩, hbody, h2⟩ := bind_ok h1
      have hnb : noBr (.list (.str "parallel_block" :: items)) = true := by
        simp only [noBr, noBrList, Bool.and_eq_true]; exact hb.2.2.1
      obtain ⟨sb, rfl, hsb⟩ := IH ctx false _ st ob s1 hc hp hk (SStmt.parB hitems) hnb hbody
      simp only at h2
      obtain ⟨_, _, h3⟩ := bind_ok h2
      simp only [pure, Except.pure, Except.ok.injEq, Prod.mk.injEq] at h3
      obtain ⟨rfl, rfl⟩ := h3
      exact ⟨_, rfl, refP_of hc hcnt hct hcount, hsb⟩
    | @sub c items hcnt hct hitems =>
      simp only [noBr, noBrList, Bool.and_eq_true] at hb
      rw [buildAny_list, anyStep_sub] at h
      by_cases hflag : (ctx.inSub || ctx.inPar) = true
      · simp [hflag, throw_eq] at h
      · simp only [hflag, Bool.false_eq_true, if_false] at h
        obtain ⟨⟨os, s1⟩, hm, h1⟩ := bind_ok h
        obtain ⟨count, hcount, h2⟩ := bind_ok h1
        obtain ⟨_, _, h3⟩ := bind_ok h2
        obtain ⟨ss, hss, h4⟩ := bind_ok h3
        simp only [pure, Except.pure, Except.ok.injEq, Prod.mk.injEq] at h4
        obtain ⟨rfl, rfl⟩ := h4
        have hitemsP := items_safe (ctx := { ctx with inSub := true }) IH hc hp hk hitems hb.2.2 hm ss hss
        refine ⟨_, rfl, ?_, hitemsP⟩
        by_cases hempty : c = .str ""
        · subst hempty
          rw [subCount_empty] at hcount
          cases hcount
          trivial
        · have hct' : refT P c := by
            rcases hct with h0 | h0
            · exact absurd h0 hempty
            · exact h0
          have hsc : subCount (buildVal ctx f) c = buildVal ctx f c := by
            cases c with
            | int i => exact subCount_int _ i
            | str n => exact subCount_str_ne _ (by intro hn; subst hn; exact hempty rfl)
            | _ => simp [isIntOrId] at hcnt
          rw [hsc] at hcount
          exact refP_of hc hcnt hct' hcount

/-! ## header statements -/

theorem refP_of_bound {ctx : Ctx} (hp : CtxP P ctx) {x : Val} (h : Bound ctx x) : RefP P x := by
  rcases h with ⟨i, rfl⟩ | ⟨m, hg, hn, _, _⟩
  · trivial
  · cases x <;> simp only [Val.name?, Option.some.injEq, reduceCtorEq] at hn <;> try trivial
    all_goals subst hn; exact hp _ _ hg

theorem mkRegister_eq {n : String} {sz v : Val} (h : mkRegister n sz = .ok v) : v = .regF n sz := by
  unfold mkRegister at h
  split at h
  · simp [throw_eq] at h
  · split at h
    · simp [throw_eq] at h
    · simp only [pure, Except.pure, Except.ok.injEq] at h; exact h.symm
  · split at h
    · simp [throw_eq] at h
    · simp only [pure, Except.pure, Except.ok.injEq] at h; exact h.symm
  · split at h
    · simp [throw_eq] at h
    · split at h
      · simp [throw_eq] at h
      · simp only [pure, Except.pure, Except.ok.injEq] at h; exact h.symm

/-- a slice bound that may be left out -/
theorem refP_default {ctx : Ctx} (hc : CtxN ctx) {f : Nat} {a : BSx} (ha : isBound a = true) (ht : refT P a) {x0 : Val}
    (d : Int) (h : buildVal ctx f a = .ok x0) :
    RefP P (if asIntegerV x0 == Val.none then Val.int d else asIntegerV x0) := by
  cases a with
  | none =>
    rw [buildVal_none] at h
    cases h
    trivial
  | int i =>
    rw [buildVal_int] at h
    cases h
    trivial
  | str m =>
    have he : isIntOrId (.str m) = true := rfl
    have hx := ref_asInteger hc he h
    rcases ref_inv hc he h with ⟨i, h0, _⟩ | ⟨m', _, hg, hn, hk, _⟩
    · cases h0
    · have hne : (x0 == Val.none) = false := by cases x0 <;> simp [topKind] at hk <;> rfl
      rw [hx, hne]
      exact refP_of hc he ht h
  | _ => simp [isBound, isIntOrId] at ha

/-- `GHeader` with the names and floats having `P` (`Pm` for module names) and `R` -/
inductive SHeader (Pm P : String → Prop) (R : Dec → Prop) : BSx → Prop
  | usepulses (m : String) : Pm m → SHeader Pm P R (.list [.str "usepulses", .str m, .str "*"])
  | letInt (n : String) (v : Int) : P n → SHeader Pm P R (.list [.str "let", .str n, .int v])
  | letFlt (n : String) (d : Dec) : P n → R d → SHeader Pm P R (.list [.str "let", .str n, .flt d])
  | register (n : String) {size : BSx} : isIntOrId size = true → P n → refT P size →
      SHeader Pm P R (.list [.str "register", .str n, size])
  | mapWhole (n s : String) : P n → P s → SHeader Pm P R (.list [.str "map", .str n, .str s])
  | mapIndex (n s : String) {i : BSx} : isIntOrId i = true → P n → P s → refT P i →
      SHeader Pm P R (.list [.str "map", .str n, .str s, i])
  | mapSlice (n s : String) {a b c : BSx} : isBound a = true → isBound b = true → isBound c = true → P n → P s →
      refT P a → refT P b → refT P c → SHeader Pm P R (.list [.str "map", .str n, .str s, a, b, c])

theorem SHeader.toG {Pm : String → Prop} {e : BSx} (h : SHeader Pm P R e) : GHeader e := by
  cases h with
  | usepulses m _ => exact GHeader.usepulses m
  | letInt n v _ => exact GHeader.letInt n v
  | letFlt n d _ _ => exact GHeader.letFlt n d
  | register n hs _ _ => exact GHeader.register n hs
  | mapWhole n s _ _ => exact GHeader.mapWhole n s
  | mapIndex n s hi _ _ _ => exact GHeader.mapIndex n s hi
  | mapSlice n s ha hb hc _ _ _ _ _ => exact GHeader.mapSlice n s ha hb hc

/-- what a header value must satisfy, by the list it goes to -/
def HdrP (P : String → Prop) (R : Dec → Prop) (v : Val) : Prop := LetP P R v ∧ DeclP P v

/-- a header value made from a tree with `P` and `R` -/
theorem hdr_safe {Pm : String → Prop} {ctx : Ctx} (hc : CtxN ctx) (hs : CtxSized ctx) (hp : CtxP P ctx) {f : Nat} {e : BSx}
    (he : SHeader Pm P R e) {v : Val} (h : buildVal ctx (f + 1) e = .ok v) :
    HdrP P R v ∧ ∀ n c, varOf v = some (n, c) → P n := by
  cases he with
  | usepulses m _ =>
    rw [buildVal_list] at h
    simp [valStep, throw_eq, statefulCmds] at h
  | letInt n i hn =>
    rw [buildVal_list] at h
    simp [valStep, strOf, mkConstant, pure, Except.pure, bind, Except.bind] at h
    subst h
    exact ⟨⟨hn, trivial⟩, fun n' c hv => by simp [varOf] at hv; rw [← hv.1]; exact hn⟩
  | letFlt n d hn hd =>
    rw [buildVal_list] at h
    simp [valStep, strOf, mkConstant, pure, Except.pure, bind, Except.bind] at h
    subst h
    refine ⟨⟨?_, trivial⟩, fun n' c hv => by simp [varOf] at hv; rw [← hv.1]; exact hn⟩
    by_cases hi : d.isIntegral = true
    · have : asIntegerV (.flt d) = .int d.toInt := by simp [asIntegerV, Num.asInteger, Val.ofNum, hi]
      rw [this]; exact hn
    · have : asIntegerV (.flt d) = .flt d := by simp [asIntegerV, Num.asInteger, Val.ofNum, hi]
      rw [this]; exact ⟨hn, hd⟩
  | @register n size hsz hn hst =>
    rw [buildVal_list] at h
    simp [valStep, strOf] at h
    obtain ⟨sz, hsz', h1⟩ := bind_ok h
    rw [ref_asInteger hc hsz hsz'] at h1
    have := mkRegister_eq h1
    subst this
    exact ⟨⟨trivial, hn, refP_of hc hsz hst hsz'⟩, fun n' c hv => by simp [varOf] at hv; rw [← hv.1]; exact hn⟩
  | mapWhole n s hn hsn =>
    rw [buildVal_list, map_reduce] at h
    obtain ⟨src, hsrc, h1⟩ := bind_ok h
    simp only [strOf, pure, Except.pure, bind, Except.bind, Except.ok.injEq] at h1
    subst h1
    obtain ⟨hg, _⟩ := mapSource_inv hsrc
    obtain ⟨hname, _, _⟩ := hc s src hg
    exact ⟨⟨trivial, hn, by rw [nameOf_eq hname]; exact hsn⟩,
      fun n' c hv => by simp [varOf] at hv; rw [← hv.1]; exact hn⟩
  | @mapIndex n s idx hi hn hsn hit =>
    rw [buildVal_list, map_reduce] at h
    obtain ⟨src, hsrc, h1⟩ := bind_ok h
    simp only [strOf, pure_bind] at h1
    obtain ⟨iv, hiv, h2⟩ := bind_ok h1
    rw [ref_asInteger hc hi hiv] at h2
    unfold mkQubit at h2
    obtain ⟨_, _, h3⟩ := bind_ok h2
    simp only [pure, Except.pure, Except.ok.injEq] at h3
    subst h3
    obtain ⟨hg, _⟩ := mapSource_inv hsrc
    obtain ⟨hname, _, _⟩ := hc s src hg
    exact ⟨⟨trivial, hn, by rw [nameOf_eq hname]; exact hsn, refP_of hc hi hit hiv⟩,
      fun n' c hv => by simp [varOf] at hv; rw [← hv.1]; exact hn⟩
  | @mapSlice n s a b c ha hb hcb hn hsn hat hbt hct =>
    rw [buildVal_list, map_reduce] at h
    obtain ⟨src, hsrc, h1⟩ := bind_ok h
    simp only [strOf, pure_bind] at h1
    obtain ⟨x0, hx0, h2⟩ := bind_ok h1
    obtain ⟨y0, hy0, h3⟩ := bind_ok h2
    obtain ⟨stop, hstop, h4⟩ := bind_ok h3
    obtain ⟨z0, hz0, h5⟩ := bind_ok h4
    unfold mkSlice at h5
    obtain ⟨_, hchk, h6⟩ := bind_ok h5
    simp only [pure, Except.pure, Except.ok.injEq] at h6
    subst h6
    obtain ⟨hg, _⟩ := mapSource_inv hsrc
    obtain ⟨hname, _, _⟩ := hc s src hg
    obtain ⟨_, hl2, _, _⟩ := sliceCheck_ok_lits hchk
    have hB1 := refP_default hc ha hat 0 hx0
    have hB3 := refP_default hc hcb hct 1 hz0
    have hB2 : RefP P stop := by
      unfold defaultStop at hstop
      cases b with
      | none =>
        rw [buildVal_none] at hy0
        cases hy0
        simp only [asIntegerV, beq_self_eq_true, if_true] at hstop
        cases src <;> first
          | (simp [throw_eq] at hstop; done)
          | exact refP_of_bound hp (hs s _ hg stop hstop hl2)
      | int i =>
        rw [buildVal_int] at hy0
        cases hy0
        simp only [asIntegerV] at hstop
        cases hstop
        trivial
      | str m =>
        have he : isIntOrId (.str m) = true := rfl
        have hx := ref_asInteger hc he hy0
        rcases ref_inv hc he hy0 with ⟨i, h0, _⟩ | ⟨m', _, _, _, hk, _⟩
        · cases h0
        · have hne' : (y0 == Val.none) = false := by cases y0 <;> simp [topKind] at hk <;> rfl
          rw [hx, hne'] at hstop
          simp only [Bool.false_eq_true, if_false, pure, Except.pure, Except.ok.injEq] at hstop
          subst hstop
          exact refP_of hc he hbt hy0
      | _ => simp [isBound, isIntOrId] at hb
    exact ⟨⟨trivial, hn, by rw [nameOf_eq hname]; exact hsn, hB1, hB2, hB3⟩,
      fun n' c hv => by simp [varOf] at hv; rw [← hv.1]; exact hn⟩

/-! ## body statements at top level, macro definitions -/

/-- `GTop` with the names and floats having `P` and `R` -/
inductive STop (P : String → Prop) (R : Dec → Prop) : BSx → Prop
  | stmt {e : BSx} : SStmt P R false e → STop P R e
  | seqB {items : List BSx} : (∀ x ∈ items, SStmt P R false x) → STop P R (.list (.str "sequential_block" :: items))
  | macroDef {name : String} {params : List String} {par : Bool} {items : List BSx} : P name → (∀ p ∈ params, P p) →
      (∀ x ∈ items, SStmt P R par x) →
      STop P R (.list (.str "macro" :: .str name :: (params.map BSx.str ++ [.list (.str (blockCmdB par) :: items)])))
  | branch {args : List BSx} : STop P R (.list (.str "branch" :: args))

theorem STop.toG {e : BSx} (h : STop P R e) : GTop e := by
  cases h with
  | stmt hs => exact GTop.stmt hs.toG
  | seqB hitems => exact GTop.seqB (fun x hx => (hitems x hx).toG)
  | macroDef _ _ hitems => exact GTop.macroDef (fun x hx => (hitems x hx).toG)
  | branch => exact GTop.branch

def MacroP (P : String → Prop) (R : Dec → Prop) (m : Macro) : Prop :=
  P m.name ∧ (∀ p ∈ m.params, P p.1) ∧ StmtP P R m.body

theorem ctxP_withParams {ctx : Ctx} (hp : CtxP P ctx) {ps : List (String × Kind)} (hps : ∀ p ∈ ps, P p.1) :
    CtxP P (ctx.withParams ps) := by
  intro n v hg
  simp only [Ctx.get, Ctx.withParams, List.lookup_append] at hg
  cases hl : List.lookup n (List.map (fun p => (p.1, Val.param p.1 p.2)) ps.reverse) with
  | some w =>
    have hmem := lookup_some_mem hl
    simp only [List.map_map, List.mem_map, Function.comp] at hmem
    obtain ⟨q, hq, rfl⟩ := hmem
    exact hps q (List.mem_reverse.1 hq)
  | none =>
    rw [hl] at hg
    simp only [Option.none_or] at hg
    exact hp n v hg

/-- what an object filed by `build_circuit` must satisfy -/
def ObjP (Pm P : String → Prop) (R : Dec → Prop) : Obj → Prop
  | .val v => HdrP P R v ∧ ∀ n c, varOf v = some (n, c) → P n
  | .macro m => MacroP P R m
  | .stmt s => StmtP P R s
  | .usepulses n => Pm n
  | .case => True

/-- a child of a program with the names and floats having `P`, `Pm`, `R` -/
def SChild (Pm P : String → Prop) (R : Dec → Prop) (e : BSx) : Prop := SHeader Pm P R e ∨ STop P R e

theorem SChild.toG {Pm : String → Prop} {e : BSx} (h : SChild Pm P R e) : GChild e := by
  rcases h with h | h
  · exact Or.inl h.toG
  · exact Or.inr h.toG

/-- the object a child is built to -/
theorem child_safe {cfg : Config} {Pm : String → Prop} {ctx : Ctx} (hc : CtxN ctx) (hs : CtxSized ctx) (hp : CtxP P ctx)
    {F : Nat} {e : BSx} {st st' : St} {o : Obj} (hk : KInv st) (he : SChild Pm P R e) (hb : noBr e = true)
    (h : buildAny cfg .off F ctx e st = .ok (o, st')) : ObjP Pm P R o := by
  rcases he with he | he
  · cases F with
    | zero => cases he <;> simp [buildAny, throw_eq] at h
    | succ f =>
      have hval : ∀ cmd args, e = .list (.str cmd :: args) → (cmd = "register" ∨ cmd = "map" ∨ cmd = "let") →
          ObjP Pm P R o := by
        intro cmd args heq hcmd
        subst heq
        rw [buildAny_value_eq _ _ _ _ _ _ hcmd] at h
        obtain ⟨v, hv, h1⟩ := bind_ok h
        simp only [pure, Except.pure, Except.ok.injEq, Prod.mk.injEq] at h1
        rw [← h1.1]
        exact hdr_safe hc hs hp he hv
      cases he with
      | usepulses m hm =>
        rw [buildAny_usepulses_eq] at h
        cases h
        exact hm
      | letInt n v hn => exact hval _ _ rfl (Or.inr (Or.inr rfl))
      | letFlt n d hn hd => exact hval _ _ rfl (Or.inr (Or.inr rfl))
      | register n _ _ _ => exact hval _ _ rfl (Or.inl rfl)
      | mapWhole n s _ _ => exact hval _ _ rfl (Or.inr (Or.inl rfl))
      | mapIndex n s _ _ _ _ => exact hval _ _ rfl (Or.inr (Or.inl rfl))
      | mapSlice n s _ _ _ _ _ _ _ _ => exact hval _ _ rfl (Or.inr (Or.inl rfl))
  · cases he with
    | stmt hs' =>
      obtain ⟨s, rfl, hsP⟩ := stmt_safe cfg F ctx false e st o st' hc hp hk hs' hb h
      exact hsP
    | seqB hitems =>
      obtain ⟨s, rfl, hsP⟩ := stmt_safe cfg F ctx true _ st o st' hc hp hk (SStmt.seqB hitems) hb h
      exact hsP
    | @macroDef name params par items hn hps hitems =>
      simp only [noBr, noBrList, Bool.and_eq_true] at hb
      obtain ⟨_, hb2⟩ := noBrList_append hb.2.2
      simp only [noBrList, noBr, Bool.and_eq_true] at hb2
      have hlen : ¬ ((BSx.str name :: (params.map BSx.str ++ [BSx.list (.str (blockCmdB par) :: items)])).length < 2) := by
        simp
      cases F with
      | zero => simp [buildAny, throw_eq] at h
      | succ f =>
        rw [buildAny_list, anyStep_macro _ _ _ _ _ _ _ _ hlen] at h
        simp only [strOf, pure_bind] at h
        by_cases hl : (st.gctx.lookup name).isSome = true
        · simp [hl, throw_eq, bind, Except.bind] at h
        · simp only [hl, Bool.false_eq_true, if_false, pure_bind, List.dropLast_concat, mapM_macroParam_str,
            List.getLast?_concat] at h
          simp only [bind, Except.bind] at h
          cases hbody : buildAny cfg .off f (ctx.withParams (params.map (fun p => (p, Kind.none))))
              (.list (.str (blockCmdB par) :: items)) st with
          | error e => rw [hbody] at h; cases h
          | ok pr =>
            obtain ⟨ob, sb⟩ := pr
            have hsblock : SStmt P R (!par) (.list (.str (blockCmdB par) :: items)) := by
              cases par
              · exact SStmt.seqB hitems
              · exact SStmt.parB hitems
            have hnb : noBr (.list (.str (blockCmdB par) :: items)) = true := by
              simp only [noBr, noBrList, Bool.and_eq_true]; exact hb2.1
            have hpp : CtxP P (ctx.withParams (params.map (fun p => (p, Kind.none)))) := by
              apply ctxP_withParams hp
              intro q hq
              simp only [List.mem_map] at hq
              obtain ⟨p', hp', rfl⟩ := hq
              exact hps p' hp'
            obtain ⟨s, rfl, hsP⟩ := stmt_safe cfg f _ (!par) _ st ob sb (ctxN_withParams hc _) hpp hk hsblock hnb hbody
            rw [hbody] at h
            cases s with
            | block p1 p2 it body =>
              simp only [pure, Except.pure, Except.ok.injEq, Prod.mk.injEq] at h
              rw [← h.1]
              refine ⟨hn, ?_, hsP⟩
              intro q hq
              simp only [List.mem_map] at hq
              obtain ⟨p', hp', rfl⟩ := hq
              exact hps p' hp'
            | _ => simp [throw_eq] at h
    | branch => exact absurd h (branch_fails _ _ _ _ _ _ _)

/-! ## the loop of `build_circuit` -/

structure SafeAcc (Pm P : String → Prop) (R : Dec → Prop) (acc : Acc) : Prop where
  ctx : CtxP P acc.ctx
  consts : ∀ v ∈ acc.constants, LetP P R v
  regs : ∀ v ∈ acc.registers, DeclP P v
  macros : ∀ m ∈ acc.macros, MacroP P R m
  stmts : ∀ s ∈ acc.stmts, StmtP P R s
  mods : ∀ u ∈ acc.usepulses, Pm u

theorem mem_snoc {α : Type} {l : List α} {a x : α} (h : x ∈ l ++ [a]) : x ∈ l ∨ x = a := by
  simpa using h

theorem safe_apply {Pm : String → Prop} {a : Acc} {st : St} {o : Obj} (ha : SafeAcc Pm P R a) (ho : ObjP Pm P R o) :
    SafeAcc Pm P R (applyObj a st o) := by
  cases o with
  | val v =>
    cases hv : varOf v with
    | none => simp only [applyObj, hv]; exact ha
    | some p =>
      obtain ⟨n, c⟩ := p
      rw [applyObj_val hv]
      have hn : P n := ho.2 n c hv
      have hctx : CtxP P { a.ctx with vars := (n, v) :: a.ctx.vars } := by
        intro m w hg
        rw [get_cons] at hg
        by_cases hm : m = n
        · subst hm; exact hn
        · simp [hm] at hg; exact ha.ctx m w hg
      cases c
      · refine ⟨hctx, ha.consts, ?_, ha.macros, ha.stmts, ha.mods⟩
        intro w hw
        rcases mem_snoc hw with hw | rfl
        · exact ha.regs w hw
        · exact ho.1.2
      · refine ⟨hctx, ?_, ha.regs, ha.macros, ha.stmts, ha.mods⟩
        intro w hw
        rcases mem_snoc hw with hw | rfl
        · exact ha.consts w hw
        · exact ho.1.1
  | «macro» m =>
    refine ⟨ha.ctx, ha.consts, ha.regs, ?_, ha.stmts, ha.mods⟩
    intro w hw
    rcases mem_snoc hw with hw | rfl
    · exact ha.macros w hw
    · exact ho
  | stmt s =>
    refine ⟨ha.ctx, ha.consts, ha.regs, ha.macros, ?_, ha.mods⟩
    intro w hw
    rcases mem_snoc hw with hw | rfl
    · exact ha.stmts w hw
    · exact ho
  | usepulses n =>
    refine ⟨ha.ctx, ha.consts, ha.regs, ha.macros, ha.stmts, ?_⟩
    intro w hw
    rcases mem_snoc hw with hw | rfl
    · exact ha.mods w hw
    · exact ho
  | case => exact ha

theorem safe_step {cfg : Config} (hauto : cfg.autoload = false) {Pm : String → Prop}
    {inject : Option (List (String × GateDef))} {F : Nat} {a a1 : Acc} {x : BSx} (hi : TopInv a)
    (ha : SafeAcc Pm P R a) (hx : SChild Pm P R x) (hb : noBr x = true)
    (h : circuitStep cfg .off inject F a x = .ok a1) : SafeAcc Pm P R a1 := by
  obtain ⟨o, st1, hf, ht⟩ := step_facts hi hx.toG hb h
  obtain ⟨_, rfl⟩ := step_apply hauto hf hi.k ht
  exact safe_apply ha (child_safe hi.ctxN hi.sized ha.ctx hi.k hx hb hf.build)

theorem safe_loop {cfg : Config} (hauto : cfg.autoload = false) {Pm : String → Prop}
    {inject : Option (List (String × GateDef))} {F : Nat} :
    ∀ (cs : List BSx) (a r : Acc), TopInv a → SafeAcc Pm P R a → (∀ x ∈ cs, SChild Pm P R x ∧ noBr x = true) →
    circuitLoop cfg .off inject F a cs = .ok r → SafeAcc Pm P R r
  | [], a, r, _, ha, _, h => by
    simp only [circuitLoop, pure, Except.pure, Except.ok.injEq] at h
    subst h
    exact ha
  | x :: cs, a, r, hi, ha, hcs, h => by
    simp only [circuitLoop] at h
    obtain ⟨a1, hstep, hrest⟩ := bind_ok h
    have hx := hcs x (by simp)
    have hi1 := (step_child hauto hi hx.1.toG hx.2 hstep).inv
    exact safe_loop hauto cs a1 r hi1 (safe_step hauto hi ha hx.1 hx.2 hstep) (fun y hy => hcs y (by simp [hy])) hrest

/-- what is known of a circuit built from a tree whose names and floats have `P`, `Pm`, `R` -/
structure SafeCircuit (Pm P : String → Prop) (R : Dec → Prop) (c : Circuit) : Prop where
  consts : ∀ v ∈ c.constants, LetP P R v
  regs : ∀ v ∈ c.registers, DeclP P v
  macros : ∀ m ∈ c.macros, MacroP P R m
  stmts : ∀ s ∈ c.body.stmts, StmtP P R s
  mods : ∀ u ∈ c.usepulses, Pm u.1

/-- **The builder invents no names and no floats.** -/
theorem buildNoMemo_safe {cfg : Config} (hauto : cfg.autoload = false) {Pm : String → Prop} {cs : List BSx} {c : Circuit}
    (hcs : ∀ e ∈ cs, SChild Pm P R e ∧ noBr e = true) (h : buildNoMemo cfg (.list (.str "circuit" :: cs)) = .ok c) :
    SafeCircuit Pm P R c := by
  unfold buildNoMemo buildWith at h
  obtain ⟨inject, hinj, h1⟩ := bind_ok h
  simp only [buildCore] at h1
  obtain ⟨accF, hloop, h2⟩ := bind_ok h1
  simp only [pure, Except.pure, Except.ok.injEq] at h2
  subst h2
  have h0 : SafeAcc Pm P R (acc0 inject) := by
    refine ⟨?_, ?_, ?_, ?_, ?_, ?_⟩
    · intro n v hg; simp [Ctx.get, acc0] at hg
    all_goals (intro v hv; simp [acc0] at hv)
  have hF := safe_loop hauto cs (acc0 inject) accF (topInv_acc0 cfg hinj) h0 hcs hloop
  refine ⟨hF.consts, hF.regs, hF.macros, ?_, ?_⟩
  · intro s hs
    exact hF.stmts s (by simpa [Acc.toCircuit, Stmt.stmts] using hs)
  · intro u hu
    simp only [Acc.toCircuit, List.mem_map] at hu
    obtain ⟨n, hn, rfl⟩ := hu
    exact hF.mods n hn

end
end Jaqal.RoundTrip
