import JaqalProofs.Lemmas.RunModelRefs
import JaqalProofs.Lemmas.UsedQubitsSpec
import JaqalProofs.Lemmas.ExpandFlat
import JaqalProofs.Lemmas.PreFlat
import JaqalProofs.Lemmas.ParsedGoodRefs
/-!
Lemmas for C03 over the whole run (`Props/C03Run.lean`): the token lists of `RunModel.RunSummary.traces` ARE the
specification's gate applications (`Spec/Sem.lean`), rendered.

* `renderArg`, `renderApp`, `renderB` — an evaluated argument / gate application written exactly as `RunModel` writes a resolved
  one (`q<index>`, `r<i,j,..>`, `i<int>`, `f<neg>:<mant>:<exp>`; `prepare_all` / `measure_all` by name alone);
* `argToken_spec` — one typed argument (`argT`): whenever the specification evaluates it, the emulator's reading
  (`quantumToken`: `resolve_qubit` through the alias chain; every element of a register) and the summary's reading (`looseToken`)
  write the specification's value (from `UsedQubits.qubit_agree`, `FillIn.chain_spec`, `UsedQubits.validChain_of_eval`);
* `gateToken_spec` — one gate; `RecRel` — a row of the gate table against a gate application;
* `semSkel` — the walker skeleton of a specification tree, a function of the tree alone; `skelStmt_sem` / `skelList_sem` — the
  skeleton and the table `RunModel.skelStmt` computes from a statement are `semSkel` and the (non-bracket) flat gate
  applications of its meaning;
* `semSkel_unroll` — unrolling that skeleton = `Sem.unroll`;
* `traceTokens_spec` — the tokens of one serialised trace;
* `flat_norm`, `unroll_norm` — `Sem.flat` and `Sem.unroll` do not see `Sem.norm`.
* EXISTENCE of the meaning of the expanded circuit (section `Exists`): `VOK` — every register in a value is a `ValidChain`, a
  literal index of a register lies inside it; `vok_of_valOK` (what the constructors checked, `ValOK`, on the typed constant-free
  values `fill_in_let` returns); `substVal_vok` (a qubit reference rebuilt by `expand_macros` passed `NamedQubit.__init__` again:
  `checkQubit_range`); `replStmt_v` … `expand_vok` (the induction of `Lemmas/ExpandFlat.lean` once more, for `VOK`: the expansion
  `x` is `OS` — `VOK` arguments, ordinary blocks with count 1); `evOK_of_vok`, `evalStmt_ok`, `flat_os_meaning` (a flat typed `OS`
  circuit has a meaning); `vs_of`, `allVals_spell`, `hasSub_skel` (the hypotheses for a parsed program).
* EXISTENCE of the meaning of the SOURCE: `substVal_tot` (a value of a macro body whose substitution succeeds evaluates under
  the inner bindings, to what the substituted value evaluates to), `replStmt_tot` … `filled_meaning` (the induction once more: a
  filled circuit whose expansion succeeds has a meaning — the converse direction of `C04_meaning`).
* `ArgAgree`, `argAgree_spec`, `RecRel.args` — the structured form of `argToken_spec` (no strings): the library's reading of an
  argument (`resolveQubit`, `resolveReg` of every element, the number itself) is the specification's value.
-/
namespace Jaqal.RunModel
open Jaqal Jaqal.Builder Jaqal.Resolve Jaqal.FillIn Jaqal.Sem

/-! ### Rendering of the specification's values -/

/-- an evaluated argument, written as `RunModel` writes a resolved one -/
def renderArg : SArg → String
  | .num (.int k) => "i" ++ toString k
  | .num (.flt d) => decToken d
  | .qubit q => "q" ++ toString q.2
  | .reg qs => regToken (qs.map (·.2))

/-- a gate application, written as `RunModel.gateToken` writes a gate -/
def renderApp (g : GateApp) : String := " ".intercalate (g.1 :: g.2.map renderArg)

/-- not `prepare_all` / `measure_all` (`RunModel.gateKind` says `.other`) -/
def notBracket (g : GateApp) : Bool := !(g.1 == "prepare_all") && !(g.1 == "measure_all")

/-- a gate application as the run writes it: `prepare_all` / `measure_all` by name alone -/
def renderB (g : GateApp) : String := if notBracket g then renderApp g else g.1

/-! ### One argument -/

theorem regLoop_spec {v : Val} {qs : List FQ}
    (h : ∀ i : Nat, i < qs.length → ∃ q, qs[i]? = some q ∧ resolveReg [] v (i : Int) = .ok q) :
    ∀ (n i : Nat), i + n = qs.length → regLoop v (i : Int) n = .ok ((qs.drop i).map (·.2))
  | 0, i, hi => by
    have : qs.drop i = [] := List.drop_eq_nil_of_le (by omega)
    simp [regLoop, this, pure, Except.pure]
  | n + 1, i, hi => by
    obtain ⟨q, hq, hr⟩ := h i (by omega)
    have ih := regLoop_spec h n (i + 1) (by omega)
    have hd : qs.drop i = q :: qs.drop (i + 1) := by
      have hlt : i < qs.length := by omega
      rw [List.drop_eq_getElem_cons hlt]
      congr 1
      rw [List.getElem?_eq_getElem hlt] at hq
      exact Option.some.inj hq
    have hc : ((i : Int) + 1) = ((i + 1 : Nat) : Int) := by push_cast; rfl
    simp only [regLoop, hr, hc, ih, bind, Except.bind, pure, Except.pure, hd, List.map_cons]

/-- a register argument whose denotation the specification computes: the emulator reads exactly the indices of that denotation -/
theorem regIndices_spec {v : Val} {qs : List FQ} (ht : RegT v = true) (h : evalReg [] [] v = .ok qs) :
    regIndices v = .ok (qs.map (·.2)) := by
  have hv := UsedQubits.validChain_of_eval v qs ht h
  obtain ⟨K, hK, hK0⟩ := validChain_sizeI hv
  obtain ⟨l, hl, hlen, hin, _⟩ := chain_spec hv hK
  rw [h] at hl; cases hl
  obtain ⟨sz, h1, h2⟩ := UsedQubits.resolveSize_valid' hv hK
  have h3 := UsedQubits.pyInt_intOf h2
  have hall : ∀ i : Nat, i < qs.length → ∃ q, qs[i]? = some q ∧ resolveReg [] v (i : Int) = .ok q := by
    intro i hi
    obtain ⟨q, hq, hr⟩ := hin (i : Int) (by omega) (by omega)
    exact ⟨q, by simpa using hq, hr⟩
  have := regLoop_spec hall K.toNat 0 (by omega)
  simp only [regIndices, h1 [], h3, bind, Except.bind]
  simpa using this

theorem ctxRel_nil : UsedQubits.CtxRel [] [] := by
  intro n sa h
  simp [Sem.lookup] at h

theorem goodSrc_of_RegT {s : Val} (hs : RegT s = true) : UsedQubits.GoodSrc s := by
  cases s <;> first | exact hs | simp [RegT] at hs

theorem goodIdx_of_intC {i : Val} (hi : isIntC i = true) : UsedQubits.GoodIdx i := by
  cases i <;> first | exact UsedQubits.isIntC_intOf hi | simp [isIntC] at hi

/-- a qubit argument the specification evaluates: the emulator's `resolve_qubit` gives the index of that fundamental qubit -/
theorem quantumToken_qubit_spec {nm : String} {s i : Val} {q : FQ} (hs : RegT s = true) (hi : isIntC i = true)
    (h : evalQubit [] [] (.qubit nm s i) = .ok q) : quantumToken (.qubit nm s i) = .ok ("q" ++ toString q.2) := by
  have := (UsedQubits.qubit_agree ctxRel_nil (goodSrc_of_RegT hs) (goodIdx_of_intC hi) h).1
  simp only [quantumToken, this, bind, Except.bind, pure, Except.pure]

/-- **One argument.** For a typed argument the specification evaluates to `sa`: the summary's reading is `renderArg sa`, and so
is the emulator's reading whenever it succeeds (it fails on a number). -/
theorem argToken_spec {v : Val} {sa : SArg} (ht : argT v = true) (h : evalArg [] [] v = .ok sa) :
    looseToken v = renderArg sa ∧ ∀ t, quantumToken v = .ok t → t = renderArg sa := by
  cases v with
  | int k =>
    simp only [evalArg, evalNum, bind, Except.bind, pure, Except.pure, Except.ok.injEq] at h
    subst h
    exact ⟨rfl, fun t ht' => by simp [quantumToken, throw, throwThe, MonadExceptOf.throw] at ht'⟩
  | flt d =>
    simp only [evalArg, evalNum, bind, Except.bind, pure, Except.pure, Except.ok.injEq] at h
    subst h
    exact ⟨rfl, fun t ht' => by simp [quantumToken, throw, throwThe, MonadExceptOf.throw] at ht'⟩
  | qubit nm s i =>
    simp only [argT, Bool.and_eq_true] at ht
    simp only [evalArg] at h
    obtain ⟨q, hq, h⟩ := bind_ok h
    simp only [pure, Except.pure, Except.ok.injEq] at h
    subst h
    have hqt := quantumToken_qubit_spec ht.1 ht.2 hq
    refine ⟨by simp only [looseToken, hqt, renderArg], fun t ht' => ?_⟩
    rw [hqt] at ht'
    exact (Except.ok.inj ht').symm
  | regF n sz =>
    have hT : RegT (.regF n sz) = true := by simpa [argT] using ht
    simp only [evalArg] at h
    obtain ⟨qs, hqs, h⟩ := bind_ok h
    simp only [pure, Except.pure, Except.ok.injEq] at h
    subst h
    have hqt : quantumToken (.regF n sz) = .ok (regToken (qs.map (·.2))) := by
      simp only [quantumToken, regIndices_spec hT hqs, bind, Except.bind, pure, Except.pure]
    refine ⟨by simp only [looseToken, hqt, renderArg], fun t ht' => ?_⟩
    rw [hqt] at ht'
    exact (Except.ok.inj ht').symm
  | regA n src =>
    have hT : RegT (.regA n src) = true := by simpa [argT] using ht
    simp only [evalArg] at h
    obtain ⟨qs, hqs, h⟩ := bind_ok h
    simp only [pure, Except.pure, Except.ok.injEq] at h
    subst h
    have hqt : quantumToken (.regA n src) = .ok (regToken (qs.map (·.2))) := by
      simp only [quantumToken, regIndices_spec hT hqs, bind, Except.bind, pure, Except.pure]
    refine ⟨by simp only [looseToken, hqt, renderArg], fun t ht' => ?_⟩
    rw [hqt] at ht'
    exact (Except.ok.inj ht').symm
  | regS n src a b c =>
    have hT : RegT (.regS n src a b c) = true := by simpa [argT] using ht
    simp only [evalArg] at h
    obtain ⟨qs, hqs, h⟩ := bind_ok h
    simp only [pure, Except.pure, Except.ok.injEq] at h
    subst h
    have hqt : quantumToken (.regS n src a b c) = .ok (regToken (qs.map (·.2))) := by
      simp only [quantumToken, regIndices_spec hT hqs, bind, Except.bind, pure, Except.pure]
    refine ⟨by simp only [looseToken, hqt, renderArg], fun t ht' => ?_⟩
    rw [hqt] at ht'
    exact (Except.ok.inj ht').symm
  | const _ _ => simp [argT, RegT] at ht
  | param _ _ => simp [argT, RegT] at ht
  | none => simp [argT, RegT] at ht
  | str _ => simp [argT, RegT] at ht

/-! ### One gate -/

theorem evalArgs_cons_ok {a : String × Val} {r : List (String × Val)} {vs : List SArg}
    (h : ExpandMacros.evalArgs [] [] (a :: r) = .ok vs) :
    ∃ x xs, evalArg [] [] a.2 = .ok x ∧ ExpandMacros.evalArgs [] [] r = .ok xs ∧ vs = x :: xs := by
  simp only [ExpandMacros.evalArgs] at h
  obtain ⟨x, hx, h⟩ := bind_ok h
  obtain ⟨xs, hxs, h⟩ := bind_ok h
  simp only [pure, Except.pure, Except.ok.injEq] at h
  exact ⟨x, xs, hx, hxs, h.symm⟩

theorem looseTokens_spec : ∀ (args : List (String × Val)) (vs : List SArg), (∀ a ∈ args, argT a.2 = true) →
    ExpandMacros.evalArgs [] [] args = .ok vs → args.map (fun a => looseToken a.2) = vs.map renderArg
  | [], vs, _, h => by
    simp only [ExpandMacros.evalArgs, pure, Except.pure, Except.ok.injEq] at h
    subst h; rfl
  | a :: r, vs, ht, h => by
    obtain ⟨x, xs, hx, hxs, rfl⟩ := evalArgs_cons_ok h
    simp only [List.map_cons]
    rw [(argToken_spec (ht a (List.mem_cons_self ..)) hx).1,
      looseTokens_spec r xs (fun b hb => ht b (List.mem_cons_of_mem _ hb)) hxs]

theorem emuArgs_spec : ∀ (ps : List (String × Kind)) (args : List (String × Val)) (vs : List SArg) (ts : List String),
    (∀ a ∈ args, argT a.2 = true) → ExpandMacros.evalArgs [] [] args = .ok vs → emuArgs ps args = .ok ts →
    ts = vs.map renderArg
  | [], args, vs, ts, ht, hv, h => by
    have : emuArgs [] args = .ok (args.map (fun a => looseToken a.2)) := by cases args <;> rfl
    rw [this] at h
    cases h
    exact looseTokens_spec args vs ht hv
  | _ :: _, [], vs, ts, _, hv, h => by
    simp only [ExpandMacros.evalArgs, pure, Except.pure, Except.ok.injEq] at hv
    subst hv
    simp only [emuArgs, pure, Except.pure, Except.ok.injEq, List.map_nil] at h
    exact h.symm
  | (pn, k) :: ps, (an, v) :: as, vs, ts, ht, hv, h => by
    obtain ⟨x, xs, hx, hxs, rfl⟩ := evalArgs_cons_ok hv
    simp only [emuArgs] at h
    obtain ⟨t, ht1, h⟩ := bind_ok h
    obtain ⟨ts', hts, h⟩ := bind_ok h
    simp only [pure, Except.pure, Except.ok.injEq] at h
    subst h
    have ih := emuArgs_spec ps as xs ts' (fun b hb => ht b (List.mem_cons_of_mem _ hb)) hxs hts
    have ha := argToken_spec (ht (an, v) (List.mem_cons_self ..)) hx
    have h1 : t = renderArg x := by
      cases k with
      | none => simp [emuArg, throw, throwThe, MonadExceptOf.throw] at ht1
      | int => simp only [emuArg, pure, Except.pure, Except.ok.injEq] at ht1; rw [← ht1]; exact ha.1
      | float => simp only [emuArg, pure, Except.pure, Except.ok.injEq] at ht1; rw [← ht1]; exact ha.1
      | qubit => exact ha.2 t (by simpa [emuArg] using ht1)
      | register => exact ha.2 t (by simpa [emuArg] using ht1)
    rw [h1, ih]; rfl

/-- **One gate.** If the specification evaluates the (typed) arguments of a gate to `vs`, whatever `_make_subcircuit` writes for
the gate is the rendering of the gate application `(name, vs)`. -/
theorem gateToken_spec {natives : List GateDef} {name : String} {args : List (String × Val)} {vs : List SArg} {t : String}
    (ht : ∀ a ∈ args, argT a.2 = true) (hv : ExpandMacros.evalArgs [] [] args = .ok vs)
    (h : gateToken natives name args = .ok t) : t = renderApp (name, vs) := by
  unfold gateToken at h
  split at h
  · cases h
  · rename_i gd _
    obtain ⟨ts, hts, h⟩ := bind_ok h
    simp only [pure, Except.pure, Except.ok.injEq] at h
    subst h
    have : ts = vs.map renderArg := by
      unfold gateArgs at hts
      split at hts
      · exact emuArgs_spec _ _ _ _ ht hv hts
      · simp only [pure, Except.pure, Except.ok.injEq] at hts
        rw [← hts]; exact looseTokens_spec args vs ht hv
    rw [this]; rfl

/-- `prepare_all` / `measure_all` are written by their name alone -/
theorem gateToken_nil_spec {natives : List GateDef} {name t : String} (h : gateToken natives name [] = .ok t) : t = name := by
  have := gateToken_spec (vs := []) (fun a ha => by cases ha) rfl h
  rw [this]
  rfl

/-- a row of the gate table against a gate application of the specification: same name, the row's (typed) arguments evaluate
to the application's -/
def RecRel (g : GateRec) (app : GateApp) : Prop :=
  g.1 = app.1 ∧ ExpandMacros.evalArgs [] [] g.2.2 = .ok app.2 ∧ ∀ a ∈ g.2.2, argT a.2 = true

theorem RecRel.token {natives : List GateDef} {g : GateRec} {app : GateApp} (hr : RecRel g app) {t : String}
    (h : gateToken natives g.1 g.2.2 = .ok t) : t = renderApp app := by
  obtain ⟨h1, h2, h3⟩ := hr
  have := gateToken_spec h3 h2 h
  rw [this, h1]

theorem gateKind_cases (name : String) (k : Nat) :
    (gateKind name k = .other k ∧ name ≠ "prepare_all" ∧ name ≠ "measure_all") ∨
    (gateKind name k = .prep ∧ name = "prepare_all") ∨ (gateKind name k = .meas ∧ name = "measure_all") := by
  unfold gateKind
  by_cases h1 : name = "prepare_all"
  · simp [h1]
  · by_cases h2 : name = "measure_all"
    · simp [h2]
    · simp [h1, h2]

theorem notBracket_of_ne {name : String} (vs : List SArg) (h1 : name ≠ "prepare_all") (h2 : name ≠ "measure_all") :
    notBracket (name, vs) = true := by
  simp [notBracket, h1, h2]

/-- the rows of a gate table against a list of gate applications, position by position -/
def Rows : List GateRec → List GateApp → Prop
  | [], [] => True
  | g :: gs, a :: as => RecRel g a ∧ Rows gs as
  | _, _ => False

theorem Rows.append : ∀ {g1 : List GateRec} {a1 : List GateApp} {g2 : List GateRec} {a2 : List GateApp},
    Rows g1 a1 → Rows g2 a2 → Rows (g1 ++ g2) (a1 ++ a2)
  | [], [], _, _, _, h2 => h2
  | [], _ :: _, _, _, h1, _ => by simp [Rows] at h1
  | _ :: _, [], _, _, h1, _ => by simp [Rows] at h1
  | g :: gs, a :: as, _, _, h1, h2 => by
    simp only [Rows] at h1
    simp only [List.cons_append, Rows]
    exact ⟨h1.1, Rows.append h1.2 h2⟩

theorem Rows.length : ∀ {gs : List GateRec} {as : List GateApp}, Rows gs as → gs.length = as.length
  | [], [], _ => rfl
  | [], _ :: _, h => by simp [Rows] at h
  | _ :: _, [], h => by simp [Rows] at h
  | g :: gs, a :: as, h => by
    simp only [Rows] at h
    simp [Rows.length h.2]

theorem Rows.get : ∀ {gs : List GateRec} {as : List GateApp}, Rows gs as → ∀ (i : Nat) (g : GateRec), gs[i]? = some g →
    ∃ app, as[i]? = some app ∧ RecRel g app
  | [], [], _, i, g, hg => by simp at hg
  | [], _ :: _, h, _, _, _ => by simp [Rows] at h
  | _ :: _, [], h, _, _, _ => by simp [Rows] at h
  | g0 :: gs, a :: as, h, i, g, hg => by
    simp only [Rows] at h
    cases i with
    | zero =>
      simp only [List.getElem?_cons_zero, Option.some.injEq] at hg
      subst hg
      exact ⟨a, by simp, h.1⟩
    | succ i =>
      simp only [List.getElem?_cons_succ] at hg
      obtain ⟨app, h1, h2⟩ := Rows.get h.2 i g hg
      exact ⟨app, by simpa using h1, h2⟩

/-- a table all of whose rows render: the renderings are those of the gate applications -/
theorem Rows.tokens {natives : List GateDef} : ∀ {gs : List GateRec} {as : List GateApp}, Rows gs as → ∀ (ts : List String),
    gs.mapM (fun g => gateToken natives g.1 g.2.2) = .ok ts → ts = as.map renderApp
  | [], [], _, ts, h => by
    simp only [List.mapM_nil, pure, Except.pure, Except.ok.injEq] at h
    subst h; rfl
  | [], _ :: _, h, _, _ => by simp [Rows] at h
  | _ :: _, [], h, _, _ => by simp [Rows] at h
  | g :: gs, a :: as, h, ts, hm => by
    simp only [Rows] at h
    simp only [List.mapM_cons] at hm
    obtain ⟨t, ht, hm⟩ := bind_ok hm
    obtain ⟨ts', hts, hm⟩ := bind_ok hm
    simp only [pure, Except.pure, Except.ok.injEq] at hm
    subst hm
    rw [h.1.token ht, Rows.tokens h.2 ts' hts]; rfl

/-! ### The walker skeleton of a specification tree -/

mutual
  /-- the walker skeleton of a specification tree; ordinary gates are numbered in flat order from `k`; a loop whose body is
  not a block has none (`LoopStatement.statements` is a `BlockStatement`) -/
  def semSkel (k : Nat) : Sem → Option (Walk.Stmt × Nat)
    | .gate n _ =>
      match gateKind n k with
      | .other id => some (.gate (.other id), k + 1)
      | g => some (.gate g, k)
    | .blk par _ _ body =>
      match semSkelList k body with
      | some (b, k') => some (.block par b, k')
      | none => none
    | .loop n b =>
      match semSkel k b with
      | some (.block par b', k') => some (.loop n par b', k')
      | _ => none
  def semSkelList (k : Nat) : List Sem → Option (List Walk.Stmt × Nat)
    | [] => some ([], k)
    | s :: r =>
      match semSkel k s with
      | some (s', k1) =>
        match semSkelList k1 r with
        | some (r', k2) => some (s' :: r', k2)
        | none => none
      | none => none
end

/-- the specification's gate applications that are written with their arguments: flat order, brackets removed -/
def specTable (m : Sem) : List GateApp := m.flat.filter notBracket

theorem loopCount_ok {c : Val} {n : Int} (h : loopCount c = .ok n) : c = .int n := by
  cases c <;> simp [loopCount, throw, throwThe, MonadExceptOf.throw, pure, Except.pure] at h
  subst h; rfl

mutual
  /-- **The skeleton and the gate table of a statement are those of its meaning.** -/
  theorem skelStmt_sem : ∀ (s : Stmt) (tbl : List GateRec) (s' : Walk.Stmt) (t : List GateRec) (m : Sem),
      (∀ g ∈ gatesOf s, ∀ a ∈ g.2.2, argT a.2 = true) → skelStmt tbl s = .ok (s', t) → evalStmt [] [] [] s = .ok m →
      semSkel tbl.length m = some (s', t.length) ∧ ∃ new, t = tbl ++ new ∧ Rows new (m.flat.filter notBracket)
    | .gate name gd args, tbl, s', t, m, ht, hs, hm => by
      obtain ⟨vs, hvs, hg⟩ := ExpandMacros.evalStmt_gate_inv hm
      have hmm : m = .gate name vs := by
        simp only [ExpandMacros.gateSem, Sem.lookup, List.find?_nil, Option.map_none, pure, Except.pure,
          Except.ok.injEq] at hg
        exact hg.symm
      subst hmm
      have hargs : ∀ a ∈ args, argT a.2 = true := ht (name, gd, args) (by simp [gatesOf])
      simp only [skelStmt] at hs
      rcases gateKind_cases name tbl.length with ⟨hk, h1, h2⟩ | ⟨hk, h1⟩ | ⟨hk, h1⟩
      · rw [hk] at hs
        simp only [pure, Except.pure, Except.ok.injEq, Prod.mk.injEq] at hs
        obtain ⟨rfl, rfl⟩ := hs
        refine ⟨by simp [semSkel, hk], [(name, gd, args)], rfl, ?_⟩
        have : (Sem.flat (.gate name vs)).filter notBracket = [(name, vs)] := by
          simp [Sem.flat, notBracket_of_ne vs h1 h2]
        rw [this]
        exact ⟨⟨rfl, hvs, hargs⟩, trivial⟩
      · rw [hk] at hs
        simp only [pure, Except.pure, Except.ok.injEq, Prod.mk.injEq] at hs
        obtain ⟨rfl, rfl⟩ := hs
        refine ⟨by simp [semSkel, hk], [], by simp, ?_⟩
        have : (Sem.flat (.gate name vs)).filter notBracket = [] := by
          simp [Sem.flat, notBracket, h1]
        rw [this]
        trivial
      · rw [hk] at hs
        simp only [pure, Except.pure, Except.ok.injEq, Prod.mk.injEq] at hs
        obtain ⟨rfl, rfl⟩ := hs
        refine ⟨by simp [semSkel, hk], [], by simp, ?_⟩
        have : (Sem.flat (.gate name vs)).filter notBracket = [] := by
          simp [Sem.flat, notBracket, h1]
        rw [this]
        trivial
    | .block par sub it body, tbl, s', t, m, ht, hs, hm => by
      simp only [skelStmt] at hs
      obtain ⟨⟨b, t'⟩, hb, hs⟩ := bind_ok hs
      simp only [pure, Except.pure, Except.ok.injEq, Prod.mk.injEq] at hs
      obtain ⟨rfl, rfl⟩ := hs
      simp only [evalStmt] at hm
      obtain ⟨n, _, hm⟩ := bind_ok hm
      obtain ⟨ms, hms, hm⟩ := bind_ok hm
      simp only [pure, Except.pure, Except.ok.injEq] at hm
      subst hm
      obtain ⟨h1, new, h2, h3⟩ := skelList_sem body tbl b t' ms (by simpa only [gatesOf] using ht) hb hms
      exact ⟨by simp only [semSkel, h1], new, h2, by simpa only [Sem.flat] using h3⟩
    | .loop count (.block par sub it b), tbl, s', t, m, ht, hs, hm => by
      simp only [skelStmt] at hs
      obtain ⟨n, hn, hs⟩ := bind_ok hs
      obtain ⟨⟨b', t'⟩, hb, hs⟩ := bind_ok hs
      simp only [pure, Except.pure, Except.ok.injEq, Prod.mk.injEq] at hs
      obtain ⟨rfl, rfl⟩ := hs
      have hc := loopCount_ok hn
      subst hc
      simp only [evalStmt] at hm
      obtain ⟨n', hn', hm1⟩ := bind_ok hm
      clear hm hs
      have hnn : n' = n := by
        simp only [evalInt, evalNum, bind, Except.bind, pure, Except.pure, Except.ok.injEq] at hn'
        exact hn'.symm
      subst hnn
      obtain ⟨m', hm', hm2⟩ := bind_ok hm1
      simp only [pure, Except.pure, Except.ok.injEq] at hm2
      subst hm2
      obtain ⟨n2, _, hm3⟩ := bind_ok hm'
      obtain ⟨ms, hms, hm4⟩ := bind_ok hm3
      simp only [pure, Except.pure, Except.ok.injEq] at hm4
      subst hm4
      obtain ⟨h1, new, h2, h3⟩ := skelList_sem b tbl b' t' ms (by simpa only [gatesOf] using ht) hb hms
      exact ⟨by simp only [semSkel, h1], new, h2, by simpa only [Sem.flat] using h3⟩
    | .loop count (.gate _ _ _), tbl, s', t, m, _, hs, _ => by
      simp only [skelStmt] at hs
      obtain ⟨n, _, hs⟩ := bind_ok hs
      cases hs
    | .loop count (.loop _ _), tbl, s', t, m, _, hs, _ => by
      simp only [skelStmt] at hs
      obtain ⟨n, _, hs⟩ := bind_ok hs
      cases hs
  theorem skelList_sem : ∀ (l : List Stmt) (tbl : List GateRec) (l' : List Walk.Stmt) (t : List GateRec) (ms : List Sem),
      (∀ g ∈ gatesOfList l, ∀ a ∈ g.2.2, argT a.2 = true) → skelList tbl l = .ok (l', t) → evalStmts [] [] [] l = .ok ms →
      semSkelList tbl.length ms = some (l', t.length) ∧ ∃ new, t = tbl ++ new ∧ Rows new ((flatList ms).filter notBracket)
    | [], tbl, l', t, ms, _, hs, hm => by
      simp only [skelList, pure, Except.pure, Except.ok.injEq, Prod.mk.injEq] at hs
      obtain ⟨rfl, rfl⟩ := hs
      simp only [evalStmts, pure, Except.pure, Except.ok.injEq] at hm
      subst hm
      exact ⟨rfl, [], by simp, by simp [flatList, Rows]⟩
    | s :: rest, tbl, l', t, ms, ht, hs, hm => by
      simp only [skelList] at hs
      obtain ⟨⟨s', t1⟩, hs1, hs⟩ := bind_ok hs
      obtain ⟨⟨r', t2⟩, hr, hs⟩ := bind_ok hs
      simp only [pure, Except.pure, Except.ok.injEq, Prod.mk.injEq] at hs
      obtain ⟨rfl, rfl⟩ := hs
      simp only [evalStmts] at hm
      obtain ⟨x, hx, hm⟩ := bind_ok hm
      obtain ⟨xs, hxs, hm⟩ := bind_ok hm
      simp only [pure, Except.pure, Except.ok.injEq] at hm
      subst hm
      obtain ⟨a1, n1, a2, a3⟩ := skelStmt_sem s tbl s' t1 x
        (fun g hg => ht g (by simp only [gatesOfList, List.mem_append]; exact Or.inl hg)) hs1 hx
      obtain ⟨b1, n2, b2, b3⟩ := skelList_sem rest t1 r' t2 xs
        (fun g hg => ht g (by simp only [gatesOfList, List.mem_append]; exact Or.inr hg)) hr hxs
      refine ⟨by simp only [semSkelList, a1, b1], n1 ++ n2, by rw [b2, a2, List.append_assoc], ?_⟩
      simp only [flatList, List.filter_append]
      exact a3.append b3
end

/-! ### Unrolling the skeleton = unrolling the meaning -/

/-- one gate the serialiser yields, written from the specification's table `T` alone -/
def renderGK (T : List GateApp) : Walk.GK → String
  | .prep => "prepare_all"
  | .meas => "measure_all"
  | .other id =>
    match T[id]? with
    | some a => renderApp a
    | none => "?"

mutual
  theorem semSkel_unroll (T : List GateApp) : ∀ (m : Sem) (k : Nat) (s' : Walk.Stmt) (k' : Nat), semSkel k m = some (s', k') →
      k' = k + (m.flat.filter notBracket).length ∧
      ((∀ i app, (m.flat.filter notBracket)[i]? = some app → T[k + i]? = some app) →
        ∀ a, (Walk.unrollStmt s' a).map (fun x => renderGK T x.1) = m.unroll.map renderB)
    | .gate name vs, k, s', k', h => by
      simp only [semSkel] at h
      rcases gateKind_cases name k with ⟨hk, h1, h2⟩ | ⟨hk, h1⟩ | ⟨hk, h1⟩
      · rw [hk] at h
        simp only [Option.some.injEq, Prod.mk.injEq] at h
        obtain ⟨rfl, rfl⟩ := h
        have hnb := notBracket_of_ne vs h1 h2
        have hf : (Sem.flat (.gate name vs)).filter notBracket = [(name, vs)] := by simp [Sem.flat, hnb]
        refine ⟨by simp [hf], fun hT a => ?_⟩
        have h0 := hT 0 (name, vs) (by simp [hf])
        simp only [Nat.add_zero] at h0
        simp [Walk.unrollStmt, Sem.unroll, renderGK, h0, renderB, hnb]
      · rw [hk] at h
        simp only [Option.some.injEq, Prod.mk.injEq] at h
        obtain ⟨rfl, rfl⟩ := h
        have hf : (Sem.flat (.gate name vs)).filter notBracket = [] := by simp [Sem.flat, notBracket, h1]
        refine ⟨by simp [hf], fun _ a => ?_⟩
        simp [Walk.unrollStmt, Sem.unroll, renderGK, renderB, notBracket, h1]
      · rw [hk] at h
        simp only [Option.some.injEq, Prod.mk.injEq] at h
        obtain ⟨rfl, rfl⟩ := h
        have hf : (Sem.flat (.gate name vs)).filter notBracket = [] := by simp [Sem.flat, notBracket, h1]
        refine ⟨by simp [hf], fun _ a => ?_⟩
        simp [Walk.unrollStmt, Sem.unroll, renderGK, renderB, notBracket, h1]
    | .blk par sub it body, k, s', k', h => by
      simp only [semSkel] at h
      cases hb : semSkelList k body with
      | none => simp [hb] at h
      | some p =>
        obtain ⟨b, k1⟩ := p
        simp only [hb, Option.some.injEq, Prod.mk.injEq] at h
        obtain ⟨rfl, rfl⟩ := h
        obtain ⟨h1, h2⟩ := semSkelList_unroll T body k b k1 hb
        exact ⟨by simpa only [Sem.flat] using h1, fun hT a => by
          simpa only [Walk.unrollStmt, Sem.unroll] using h2 (by simpa only [Sem.flat] using hT) a 0⟩
    | .loop n b, k, s', k', h => by
      simp only [semSkel] at h
      cases hb : semSkel k b with
      | none => simp [hb] at h
      | some p =>
        obtain ⟨sb, k1⟩ := p
        cases sb with
        | block par b' =>
          simp only [hb, Option.some.injEq, Prod.mk.injEq] at h
          obtain ⟨rfl, rfl⟩ := h
          obtain ⟨h1, h2⟩ := semSkel_unroll T b k _ _ hb
          refine ⟨by simpa only [Sem.flat] using h1, fun hT a => ?_⟩
          have h3 := h2 (by simpa only [Sem.flat] using hT) a
          simp only [Walk.unrollStmt] at h3
          simp only [Walk.unrollStmt, Sem.unroll, List.map_flatten, List.map_replicate, h3]
        | gate _ => simp [hb] at h
        | loop _ _ _ => simp [hb] at h
  theorem semSkelList_unroll (T : List GateApp) : ∀ (ms : List Sem) (k : Nat) (l' : List Walk.Stmt) (k' : Nat),
      semSkelList k ms = some (l', k') →
      k' = k + ((flatList ms).filter notBracket).length ∧
      ((∀ i app, ((flatList ms).filter notBracket)[i]? = some app → T[k + i]? = some app) →
        ∀ a i, (Walk.unrollList l' a i).map (fun x => renderGK T x.1) = (Sem.unrollList ms).map renderB)
    | [], k, l', k', h => by
      simp only [semSkelList, Option.some.injEq, Prod.mk.injEq] at h
      obtain ⟨rfl, rfl⟩ := h
      simp [flatList, Walk.unrollList, Sem.unrollList]
    | s :: r, k, l', k', h => by
      simp only [semSkelList] at h
      cases hs : semSkel k s with
      | none => simp [hs] at h
      | some p =>
        obtain ⟨s', k1⟩ := p
        simp only [hs] at h
        cases hr : semSkelList k1 r with
        | none => simp [hr] at h
        | some q =>
          obtain ⟨r', k2⟩ := q
          simp only [hr, Option.some.injEq, Prod.mk.injEq] at h
          obtain ⟨rfl, rfl⟩ := h
          obtain ⟨a1, a2⟩ := semSkel_unroll T s k s' k1 hs
          obtain ⟨b1, b2⟩ := semSkelList_unroll T r k1 r' k2 hr
          refine ⟨by simp only [flatList, List.filter_append, List.length_append]; omega, fun hT a i => ?_⟩
          simp only [flatList, List.filter_append] at hT
          have hTa : ∀ i app, (s.flat.filter notBracket)[i]? = some app → T[k + i]? = some app := by
            intro i app hi
            apply hT i app
            rw [List.getElem?_append_left (List.getElem?_eq_some_iff.1 hi).1]
            exact hi
          have hTb : ∀ i app, ((flatList r).filter notBracket)[i]? = some app → T[k1 + i]? = some app := by
            intro i app hi
            have h4 := hT ((s.flat.filter notBracket).length + i) app (by
              rw [List.getElem?_append_right (by omega)]
              simpa using hi)
            rw [a1, Nat.add_assoc]
            exact h4
          simp only [Walk.unrollList, Sem.unrollList, List.map_append, a2 hTa, b2 hTb]
end

/-! ### The tokens of a serialised trace -/

theorem gkToken_spec {natives : List GateDef} {tbl : List GateRec} {T : List GateApp} (hrows : Rows tbl T) {k : Walk.GK}
    {t : String} (h : gkToken natives tbl k = .ok t) : t = renderGK T k := by
  cases k with
  | prep => exact gateToken_nil_spec h
  | meas => exact gateToken_nil_spec h
  | other id =>
    simp only [gkToken] at h
    split at h
    · rename_i name gd args hg
      obtain ⟨app, ha, hr⟩ := hrows.get id _ hg
      simp only [renderGK, ha]
      exact hr.token h
    · cases h

theorem traceTokens_spec {natives : List GateDef} {tbl : List GateRec} {T : List GateApp} (hrows : Rows tbl T) :
    ∀ (gs : List Walk.GK) (ts : List String), traceTokens natives tbl gs = .ok ts → ts = gs.map (renderGK T)
  | [], ts, h => by
    simp only [traceTokens, pure, Except.pure, Except.ok.injEq] at h
    subst h; rfl
  | k :: rest, ts, h => by
    simp only [traceTokens] at h
    obtain ⟨t, ht, h⟩ := bind_ok h
    obtain ⟨ts', hts, h⟩ := bind_ok h
    simp only [pure, Except.pure, Except.ok.injEq] at h
    subst h
    rw [gkToken_spec hrows ht, traceTokens_spec hrows rest ts' hts]; rfl

/-- every subcircuit's token list is the rendering, from the table `T`, of the segment its trace serialises to -/
theorem makeSubcircuits_spec {c : Circuit} {body : List Walk.Stmt} {tbl : List GateRec} {T : List GateApp}
    {traces : List (Walk.Addr × Walk.Addr)} (hd : Walk.discover body = .ok traces) (hrows : Rows tbl T) :
    ∀ (l : List (Walk.Addr × Walk.Addr)) (toks : List (List String)), (∀ tr ∈ l, tr ∈ traces) →
      makeSubcircuits c body tbl l = .ok toks → toks = l.map (fun tr => (Walk.segment tr body).map (renderGK T))
  | [], toks, _, h => by
    simp only [makeSubcircuits, pure, Except.pure, Except.ok.injEq] at h
    subst h; rfl
  | tr :: rest, toks, hl, h => by
    simp only [makeSubcircuits] at h
    obtain ⟨ts, hts, h⟩ := bind_ok h
    obtain ⟨tss, htss, h⟩ := bind_ok h
    simp only [pure, Except.pure, Except.ok.injEq] at h
    subst h
    obtain ⟨gs, hgs, hts⟩ := makeSubcircuit_ok hts
    rw [Walk.C03_serialize body traces hd tr (hl tr (List.mem_cons_self ..))] at hgs
    cases hgs
    rw [traceTokens_spec hrows _ ts hts,
      makeSubcircuits_spec hd hrows rest tss (fun t ht => hl t (List.mem_cons_of_mem _ ht)) htss]
    rfl

/-! ### `Sem.flat` and `Sem.unroll` do not see `Sem.norm` -/

theorem flatList_append : ∀ (a b : List Sem), flatList (a ++ b) = flatList a ++ flatList b
  | [], b => by simp [flatList]
  | x :: r, b => by simp [flatList, flatList_append r b]

theorem unrollList_append : ∀ (a b : List Sem), Sem.unrollList (a ++ b) = Sem.unrollList a ++ Sem.unrollList b
  | [], b => by simp [Sem.unrollList]
  | x :: r, b => by simp [Sem.unrollList, unrollList_append r b]

mutual
  theorem flat_norm : ∀ (s : Sem), s.norm.flat = s.flat
    | .gate n a => by simp [Sem.norm]
    | .loop n b => by simp [Sem.norm, Sem.flat, flat_norm b]
    | .blk par sub it body => by simp [Sem.norm, Sem.flat, flatList_normList par body]
  theorem flatList_normList (par : Bool) : ∀ (l : List Sem), flatList (normList par l) = flatList l
    | [] => by simp [normList]
    | .gate n a :: r => by simp [normList, Sem.norm, flatList, flatList_normList par r]
    | .loop n b :: r => by simp [normList, Sem.norm, flatList, Sem.flat, flat_norm b, flatList_normList par r]
    | .blk p true it body :: r => by
      simp [normList, Sem.norm, flatList, Sem.flat, flatList_normList p body, flatList_normList par r]
    | .blk p false it body :: r => by
      simp only [normList]
      by_cases hp : p = par
      · subst hp
        simp only [if_true, flatList_append, flatList, Sem.flat, flatList_normList p body, flatList_normList p r]
      · simp only [hp, if_false, flatList, Sem.flat, flatList_normList p body, flatList_normList par r]
end

mutual
  theorem unroll_norm : ∀ (s : Sem), s.norm.unroll = s.unroll
    | .gate n a => by simp [Sem.norm]
    | .loop n b => by simp [Sem.norm, Sem.unroll, unroll_norm b]
    | .blk par sub it body => by simp [Sem.norm, Sem.unroll, unrollList_normList par body]
  theorem unrollList_normList (par : Bool) : ∀ (l : List Sem), Sem.unrollList (normList par l) = Sem.unrollList l
    | [] => by simp [normList]
    | .gate n a :: r => by simp [normList, Sem.norm, Sem.unrollList, unrollList_normList par r]
    | .loop n b :: r => by
      simp [normList, Sem.norm, Sem.unrollList, Sem.unroll, unroll_norm b, unrollList_normList par r]
    | .blk p true it body :: r => by
      simp [normList, Sem.norm, Sem.unrollList, Sem.unroll, unrollList_normList p body, unrollList_normList par r]
    | .blk p false it body :: r => by
      simp only [normList]
      by_cases hp : p = par
      · subst hp
        simp only [if_true, unrollList_append, Sem.unrollList, Sem.unroll, unrollList_normList p body,
          unrollList_normList p r]
      · simp only [hp, if_false, Sem.unrollList, Sem.unroll, unrollList_normList p body, unrollList_normList par r]
end

/-! ### The structured form: the library's reading of an argument IS the specification's value -/

/-- every element of a register argument the specification evaluates resolves (`Register.resolve_qubit`) to the qubit at its
place in the denotation -/
theorem reg_elems_spec {v : Val} {qs : List FQ} (ht : RegT v = true) (h : evalReg [] [] v = .ok qs) :
    ∀ i : Nat, i < qs.length → ∃ q, qs[i]? = some q ∧ resolveReg [] v (i : Int) = .ok q := by
  have hv := UsedQubits.validChain_of_eval v qs ht h
  obtain ⟨K, hK, hK0⟩ := validChain_sizeI hv
  obtain ⟨l, hl, hlen, hin, _⟩ := chain_spec hv hK
  rw [h] at hl; cases hl
  intro i hi
  obtain ⟨q, hq, hr⟩ := hin (i : Int) (by omega) (by omega)
  exact ⟨q, by simpa using hq, hr⟩

/-- the library's reading of the argument `v` against an evaluated argument: a number is that number; a qubit reference
resolves (`NamedQubit.resolve_qubit`, through its alias chain) to that fundamental qubit; a register argument has as many
elements as its denotation, and its `i`-th element resolves (`Register.resolve_qubit`) to the `i`-th qubit of the denotation -/
def ArgAgree (v : Val) : SArg → Prop
  | .num x => v = Val.ofNum x
  | .qubit q => resolveQubit [] v = .ok q
  | .reg qs => regIndices v = .ok (qs.map (·.2)) ∧
      ∀ i : Nat, i < qs.length → ∃ q, qs[i]? = some q ∧ resolveReg [] v (i : Int) = .ok q

theorem argAgree_spec {v : Val} {sa : SArg} (ht : argT v = true) (h : evalArg [] [] v = .ok sa) : ArgAgree v sa := by
  cases v with
  | int k =>
    simp only [evalArg, evalNum, bind, Except.bind, pure, Except.pure, Except.ok.injEq] at h
    subst h; rfl
  | flt d =>
    simp only [evalArg, evalNum, bind, Except.bind, pure, Except.pure, Except.ok.injEq] at h
    subst h; rfl
  | qubit nm s i =>
    simp only [argT, Bool.and_eq_true] at ht
    simp only [evalArg] at h
    obtain ⟨q, hq, h⟩ := bind_ok h
    simp only [pure, Except.pure, Except.ok.injEq] at h
    subst h
    exact (UsedQubits.qubit_agree ctxRel_nil (goodSrc_of_RegT ht.1) (goodIdx_of_intC ht.2) hq).1
  | regF n sz =>
    have hT : RegT (.regF n sz) = true := by simpa [argT] using ht
    simp only [evalArg] at h
    obtain ⟨qs, hqs, h⟩ := bind_ok h
    simp only [pure, Except.pure, Except.ok.injEq] at h
    subst h
    exact ⟨regIndices_spec hT hqs, reg_elems_spec hT hqs⟩
  | regA n src =>
    have hT : RegT (.regA n src) = true := by simpa [argT] using ht
    simp only [evalArg] at h
    obtain ⟨qs, hqs, h⟩ := bind_ok h
    simp only [pure, Except.pure, Except.ok.injEq] at h
    subst h
    exact ⟨regIndices_spec hT hqs, reg_elems_spec hT hqs⟩
  | regS n src a b c =>
    have hT : RegT (.regS n src a b c) = true := by simpa [argT] using ht
    simp only [evalArg] at h
    obtain ⟨qs, hqs, h⟩ := bind_ok h
    simp only [pure, Except.pure, Except.ok.injEq] at h
    subst h
    exact ⟨regIndices_spec hT hqs, reg_elems_spec hT hqs⟩
  | const _ _ => simp [argT, RegT] at ht
  | param _ _ => simp [argT, RegT] at ht
  | none => simp [argT, RegT] at ht
  | str _ => simp [argT, RegT] at ht

theorem evalArgs_agree : ∀ (args : List (String × Val)) (vs : List SArg), (∀ a ∈ args, argT a.2 = true) →
    ExpandMacros.evalArgs [] [] args = .ok vs →
    ∀ (j : Nat) (a : String × Val) (sa : SArg), args[j]? = some a → vs[j]? = some sa → ArgAgree a.2 sa
  | [], vs, _, _, j, a, sa, ha, _ => by simp at ha
  | a0 :: r, vs, ht, h, j, a, sa, ha, hsa => by
    obtain ⟨x, xs, hx, hxs, rfl⟩ := evalArgs_cons_ok h
    cases j with
    | zero =>
      simp only [List.getElem?_cons_zero, Option.some.injEq] at ha hsa
      subst ha hsa
      exact argAgree_spec (ht _ (List.mem_cons_self ..)) hx
    | succ j =>
      simp only [List.getElem?_cons_succ] at ha hsa
      exact evalArgs_agree r xs (fun b hb => ht b (List.mem_cons_of_mem _ hb)) hxs j a sa ha hsa

/-- a row of the table against its gate application, argument by argument -/
theorem RecRel.args {g : GateRec} {app : GateApp} (hr : RecRel g app) :
    g.2.2.length = app.2.length ∧
    ∀ (j : Nat) (a : String × Val) (sa : SArg), g.2.2[j]? = some a → app.2[j]? = some sa → ArgAgree a.2 sa :=
  ⟨(ExpandMacros.evalArgs_length hr.2.1).symm, evalArgs_agree _ _ hr.2.2 hr.2.1⟩


section Exists
open Jaqal.ExpandMacros

/-! ### Values whose registers passed the constructors' checks -/

/-- every register in the value is a valid chain; a qubit reference has no constant index, and a literal index of a register lies
inside it -/
def VOK : Val → Prop
  | .qubit _ src idx => (Resolve.isRegister src = true → ValidChain src) ∧ (∀ n c, idx ≠ .const n c) ∧
      (∀ i, idx = .int i → Resolve.isRegister src = true → ∃ K, sizeI src = some K ∧ 0 ≤ i ∧ i < K)
  | .regF n sz => ValidChain (.regF n sz)
  | .regA n src => ValidChain (.regA n src)
  | .regS n src a b c => ValidChain (.regS n src a b c)
  | _ => True

theorem VOK_reg {v : Val} (hr : Resolve.isRegister v = true) (h : VOK v) : ValidChain v := by
  cases v <;> simp [Resolve.isRegister] at hr <;> exact h

theorem RegL_isRegister {v : Val} (h : RegL v = true) : Resolve.isRegister v = true := by
  cases v <;> simp [RegL] at h <;> rfl

/-- what `fill_in_let` returns (`ValP`: typed, constant-free) and the constructors checked (`ValOK`) is `VOK` -/
theorem vok_of_valOK {P : List String} {v : Val} (ht : ValP P v = true) (hok : ValOK v) : VOK v := by
  cases v with
  | qubit nm src idx =>
    simp only [ValP, Bool.and_eq_true, Bool.or_eq_true] at ht
    simp only [ValOK] at hok
    refine ⟨?_, ?_, ?_⟩
    · intro hr
      rcases ht.1 with h1 | h1
      · exact RegL_validChain h1 hok.1
      · cases src <;> simp [inP, Resolve.isRegister] at h1 hr
    · intro n c hc
      subst hc
      rcases ht.2 with h1 | h1 <;> simp [isIntL, inP] at h1
    · intro i hi hr
      subst hi
      have hL : RegL src = true := by
        rcases ht.1 with h1 | h1
        · exact h1
        · cases src <;> simp [inP, Resolve.isRegister] at h1 hr
      obtain ⟨k, hk⟩ := RegL_litSize src hL hok.1
      obtain ⟨_, hs⟩ := C06_valid_of_builder hk hok.1
      exact ⟨k, hs, hok.2.2 i k rfl hk⟩
  | regF n sz => exact RegL_validChain (by simpa [ValP] using ht) hok
  | regA n src => exact RegL_validChain (by simpa [ValP] using ht) hok
  | regS n src a b c => exact RegL_validChain (by simpa [ValP] using ht) hok
  | int _ => trivial
  | flt _ => trivial
  | const _ _ => trivial
  | param _ _ => trivial
  | none => trivial
  | str _ => trivial

/-- a closed typed value that is `VOK` has a meaning -/
theorem evOK_of_vok {v : Val} (ht : argT v = true) (hk : VOK v) : ∃ sa, evalArg [] [] v = .ok sa := by
  have reg : ∀ w : Val, ValidChain w → ∃ l, evalReg [] [] w = .ok l := by
    intro w hw
    obtain ⟨K, hK, _⟩ := validChain_sizeI hw
    obtain ⟨l, hl, _⟩ := chain_spec hw hK
    exact ⟨l, hl⟩
  cases v with
  | int k => exact ⟨_, rfl⟩
  | flt d => exact ⟨_, rfl⟩
  | qubit nm src idx =>
    simp only [argT, Bool.and_eq_true] at ht
    obtain ⟨h1, h2, h3⟩ := hk
    have hr := RegT_isRegister' ht.1
    have hv := h1 hr
    have hidx : ∃ i, idx = .int i := by
      cases idx <;> simp [isIntC] at ht
      · exact ⟨_, rfl⟩
      · exact absurd rfl (h2 _ _)
    obtain ⟨i, rfl⟩ := hidx
    obtain ⟨K, hK, h0, hlt⟩ := h3 i rfl hr
    obtain ⟨l, hl, hlen, hin, _⟩ := chain_spec hv hK
    obtain ⟨q, hq, _⟩ := hin i h0 hlt
    refine ⟨.qubit q, ?_⟩
    simp only [evalArg, evalQubit, evalInt, evalNum, hl, bind, Except.bind, pure, Except.pure, nth?_of_nonneg l h0, hq]
  | regF n sz =>
    obtain ⟨l, hl⟩ := reg _ hk
    exact ⟨.reg l, by simp only [evalArg, hl, bind, Except.bind, pure, Except.pure]⟩
  | regA n src =>
    obtain ⟨l, hl⟩ := reg _ hk
    exact ⟨.reg l, by simp only [evalArg, hl, bind, Except.bind, pure, Except.pure]⟩
  | regS n src a b c =>
    obtain ⟨l, hl⟩ := reg _ hk
    exact ⟨.reg l, by simp only [evalArg, hl, bind, Except.bind, pure, Except.pure]⟩
  | const _ _ => simp [argT, RegT] at ht
  | param _ _ => simp [argT, RegT] at ht
  | none => simp [argT, RegT] at ht
  | str _ => simp [argT, RegT] at ht

/-- `int(alias_from.size)` of a valid chain -/
theorem sizeForCheck_valid {s : Val} {K : Int} (hv : ValidChain s) (hK : sizeI s = some K) : sizeForCheck s = .ok (some K) := by
  obtain ⟨sz, h1', h3⟩ := UsedQubits.resolveSize_valid' hv hK
  have h1 := h1' []
  unfold sizeForCheck
  rw [h1]
  cases sz with
  | int k => simp [intOf] at h3; subst h3; rfl
  | const n x =>
    cases x <;> simp [intOf] at h3
    subst h3; rfl
  | _ => simp [intOf] at h3

/-- `NamedQubit.__init__` on a valid chain and a literal index: the index is in range -/
theorem checkQubit_range {s : Val} {k K : Int} (hr : Resolve.isRegister s = true) (hv : ValidChain s) (hK : sizeI s = some K)
    (h : checkQubit s (.int k) = .ok ()) : 0 ≤ k ∧ k < K := by
  have hsa : avKind? s = none := by cases s <;> simp [Resolve.isRegister] at hr <;> rfl
  have hia : avKind? (Val.int k) = none := rfl
  unfold checkQubit at h
  split at h
  · cases h
  · rw [hia, hsa] at h
    simp only [sizeForCheck_valid hv hK, bind, Except.bind] at h
    by_cases hc : (decide (k < 0) || decide (k ≥ K)) = true
    · simp only [hc, if_true] at h
      cases h
    · simp only [Bool.or_eq_true, decide_eq_true_eq, not_or, Int.not_lt, ge_iff_le, Int.not_le] at hc
      exact hc

theorem substVal_param_vok {P : List String} {args : List (String × Val)} (hvok : ∀ e ∈ args, VOK e.2)
    (hcov : ∀ p ∈ P, ∃ a, lookupArg args p = some a) {v w : Val} (hv : inP P v = true) (h : substVal args v = .ok w) :
    VOK w := by
  cases v <;> simp [inP] at hv
  rename_i n k
  obtain ⟨a, ha⟩ := hcov n hv
  simp only [substVal, ha] at h
  split at h
  · cases h
    obtain ⟨e, he, rfl⟩ := lookupArg_mem ha
    exact hvok e he
  · cases h

/-- **substitution keeps `VOK`**: a rebuilt qubit reference passed `NamedQubit.__init__` again -/
theorem substVal_vok {P : List String} {args : List (String × Val)} (hargs : ∀ e ∈ args, argT e.2 = true)
    (hvok : ∀ e ∈ args, VOK e.2) (hcov : ∀ p ∈ P, ∃ a, lookupArg args p = some a) {v w : Val}
    (hv : ValP P v = true) (hk : VOK v) (h : substVal args v = .ok w) : VOK w := by
  cases v with
  | int _ => simp only [substVal, pure, Except.pure] at h; cases h; trivial
  | flt _ => simp only [substVal, pure, Except.pure] at h; cases h; trivial
  | param n k => exact substVal_param_vok hvok hcov (by simpa [ValP, inP] using hv) h
  | none => simp [ValP, RegL] at hv
  | str _ => simp [ValP, RegL] at hv
  | const _ _ => simp [ValP, RegL] at hv
  | regF n s => simp only [substVal, pure, Except.pure] at h; cases h; exact hk
  | regA n s => simp only [substVal, pure, Except.pure] at h; cases h; exact hk
  | regS n s a b c => simp only [substVal, pure, Except.pure] at h; cases h; exact hk
  | qubit nm src idx =>
    simp only [ValP, Bool.and_eq_true, Bool.or_eq_true] at hv
    simp only [substVal] at h
    obtain ⟨s, hs, h⟩ := bind_ok h
    split at h
    · cases h
    · rename_i harr
      have harr' : isArrayLike s = true := by simpa using harr
      obtain ⟨i, hi, h⟩ := bind_ok h
      have hsT : RegT s = true := by
        rcases hv.1 with h1 | h1
        · rw [substVal_reg (RegL_isReg h1)] at hs
          cases hs; exact RegL_RegT _ h1
        · exact argT_arrayLike (substVal_param_in hargs hcov h1 hs) harr'
      have hsV : ValidChain s := by
        rcases hv.1 with h1 | h1
        · rw [substVal_reg (RegL_isReg h1)] at hs
          cases hs; exact hk.1 (RegL_isRegister h1)
        · exact VOK_reg (RegT_isRegister' hsT) (substVal_param_vok hvok hcov h1 hs)
      have hiT : argT i = true := by
        rcases hv.2 with h1 | h1
        · cases idx <;> simp [isIntL] at h1
          simp only [substVal, pure, Except.pure] at hi; cases hi; rfl
        · exact substVal_param_in hargs hcov h1 hi
      have key : ∀ nm' : String, (do
          checkQubit s (filterFloat i)
          let t ← strIndex (filterFloat i)
          pure (Val.qubit (nm' ++ "[" ++ t ++ "]") s (filterFloat i)) : M Val) = .ok w → VOK w := by
        intro nm' hh
        obtain ⟨u, hu, hh⟩ := bind_ok hh
        obtain ⟨t, _, hh⟩ := bind_ok hh
        simp only [pure, Except.pure, Except.ok.injEq] at hh
        subst hh
        have hL := checkQubit_closed hsT hiT (by cases u; exact hu)
        cases hff : filterFloat i <;> rw [hff] at hL <;> simp [isIntL] at hL
        rename_i k
        rw [hff] at hu
        refine ⟨fun _ => hsV, fun n c hc => (by cases hc), ?_⟩
        intro k' hk' _
        cases hk'
        obtain ⟨K, hK, _⟩ := validChain_sizeI hsV
        exact ⟨K, hK, checkQubit_range (RegT_isRegister' hsT) hsV hK (by cases u; exact hu)⟩
      unfold ExpandMacros.getItem at h
      cases s <;> simp [RegT] at hsT <;> simp only [Val.name?] at h <;> exact key _ h

theorem substArgs_vok {P : List String} {args : List (String × Val)} (hargs : ∀ e ∈ args, argT e.2 = true)
    (hvok : ∀ e ∈ args, VOK e.2) (hcov : ∀ p ∈ P, ∃ a, lookupArg args p = some a) :
    ∀ (gargs new : List (String × Val)), (∀ a ∈ gargs, ValP P a.2 = true) → (∀ a ∈ gargs, VOK a.2) →
      substArgs args gargs = .ok new → ∀ a ∈ new, VOK a.2
  | [], new, _, _, h => by simp only [substArgs, pure, Except.pure] at h; cases h; intro a ha; cases ha
  | (n, v) :: rest, new, hv, hk, h => by
    simp only [substArgs] at h
    obtain ⟨v', hv', h⟩ := bind_ok h
    obtain ⟨rest', hr, h⟩ := bind_ok h
    cases h
    intro a ha
    rcases List.mem_cons.1 ha with rfl | ha
    · exact substVal_vok hargs hvok hcov (hv (n, v) (List.mem_cons_self ..)) (hk (n, v) (List.mem_cons_self ..)) hv'
    · exact substArgs_vok hargs hvok hcov rest rest' (fun a ha => hv a (List.mem_cons_of_mem _ ha))
        (fun a ha => hk a (List.mem_cons_of_mem _ ha)) hr a ha

/-! ### Statements -/

mutual
  /-- input: gate arguments are `VOK`, no subcircuit block -/
  def VS : Stmt → Prop
    | .gate _ _ args => ∀ a ∈ args, VOK a.2
    | .block _ sub _ body => sub = false ∧ VSL body
    | .loop _ b => VS b
  def VSL : List Stmt → Prop
    | [] => True
    | s :: r => VS s ∧ VSL r
end

mutual
  /-- output: gate arguments are `VOK`, every block is an ordinary block with the iteration count 1 -/
  def OS : Stmt → Prop
    | .gate _ _ args => ∀ a ∈ args, VOK a.2
    | .block _ sub it body => sub = false ∧ neq1 it = false ∧ OSL body
    | .loop _ b => OS b
  def OSL : List Stmt → Prop
    | [] => True
    | s :: r => OS s ∧ OSL r
end

theorem OSL_append : ∀ (a b : List Stmt), OSL a → OSL b → OSL (a ++ b)
  | [], _, _, hb => hb
  | _ :: r, b, ha, hb => ⟨ha.1, OSL_append r b ha.2 hb⟩

theorem OS_spliceInto (par : Bool) (s : Stmt) (r : List Stmt) (hs : OS s) (hr : OSL r) : OSL (spliceInto par s r) := by
  unfold spliceInto
  split
  · split
    · simp only [OS] at hs
      exact OSL_append _ _ hs.2.2 hr
    · exact ⟨hs, hr⟩
  · exact ⟨hs, hr⟩

theorem mkBlock_os {par : Bool} {it : Val} {body : List Stmt} {s : Stmt} (h : mkBlock par false it body = .ok s)
    (hb : OSL body) : OS s := by
  have hit : neq1 it = false := by
    unfold mkBlock at h
    split at h
    · cases h
    · next hc => simpa using hc
  rw [mkBlock_ok h]
  exact ⟨rfl, hit, hb⟩

/-- the property of `call` the induction needs -/
def CallV (nat : List GateDef) (ms : List Macro) (call : Stmt → M Stmt) : Prop :=
  ∀ (n : String) (gd : GateDef) (a : List (String × Val)) (g' : Stmt), GateStatic nat ms n gd →
    a.map (·.1) = gd.params.map (·.1) → (∀ e ∈ a, argT e.2 = true) → (∀ e ∈ a, VOK e.2) →
    GateDef.validateAll gd.params a = .ok () → call (.gate n gd a) = .ok g' → OS g'

section vok
variable (nat : List GateDef) (ms : List Macro)

mutual
  theorem replStmt_v (call : Stmt → M Stmt) (hc : CallV nat ms call) (P : List String)
      (args : List (String × Val)) (hargs : ∀ e ∈ args, argT e.2 = true) (hvok : ∀ e ∈ args, VOK e.2)
      (hcov : ∀ p ∈ P, ∃ a, lookupArg args p = some a) :
      ∀ (s s' : Stmt), PreS nat ms P s → VS s → replStmt call args s = .ok s' → OS s'
    | .gate n gd gargs, s', hp, hvs, h => by
      obtain ⟨hst, hn, hv, _⟩ := hp
      simp only [replStmt] at h
      obtain ⟨new, hnew, h⟩ := bind_ok h
      obtain ⟨g, hg, h⟩ := bind_ok h
      obtain ⟨hnn, hna⟩ := substArgs_typed hargs hcov gargs new hv hnew
      have hnv := substArgs_vok hargs hvok hcov gargs new hv hvs hnew
      have hnames : new.map (·.1) = gd.params.map (·.1) := by rw [hnn, hn]
      rw [callKw_eq_finish hnames hst.nodup] at hg
      unfold GateDef.finish at hg
      split at hg
      · simp [throw, throwThe, MonadExceptOf.throw, bind, Except.bind] at hg
      · obtain ⟨u, hu, hg⟩ := bind_ok hg
        cases hg
        refine hc gd.name gd new s' ?_ hnames hna hnv (by cases u; exact hu) h
        have := hst.name
        subst this
        exact hst
    | .loop c body, s', hp, hvs, h => by
      obtain ⟨_, _, hb⟩ := hp
      simp only [replStmt] at h
      obtain ⟨c', _, h⟩ := bind_ok h
      obtain ⟨b', hb', h⟩ := bind_ok h
      obtain ⟨rfl, _⟩ := mkLoop_ok h
      exact replStmt_v call hc P args hargs hvok hcov body b' hb hvs hb'
    | .block par sub it body, s', hp, hvs, h => by
      simp only [PreS] at hp
      obtain ⟨rfl, hvb⟩ := hvs
      simp only [replStmt] at h
      obtain ⟨stmts, hs, h⟩ := bind_ok h
      obtain ⟨it', _, h⟩ := bind_ok h
      exact mkBlock_os h (replList_v call hc P args hargs hvok hcov par body stmts hp hvb hs)
  theorem replList_v (call : Stmt → M Stmt) (hc : CallV nat ms call) (P : List String)
      (args : List (String × Val)) (hargs : ∀ e ∈ args, argT e.2 = true) (hvok : ∀ e ∈ args, VOK e.2)
      (hcov : ∀ p ∈ P, ∃ a, lookupArg args p = some a) (par : Bool) :
      ∀ (l l' : List Stmt), PreSL nat ms P l → VSL l → replList call args par l = .ok l' → OSL l'
    | [], l', _, _, h => by simp only [replList, pure, Except.pure] at h; cases h; trivial
    | s :: r, l', hp, hvs, h => by
      simp only [replList] at h
      obtain ⟨s', hs', h⟩ := bind_ok h
      obtain ⟨r', hr', h⟩ := bind_ok h
      cases h
      exact OS_spliceInto par s' r' (replStmt_v call hc P args hargs hvok hcov s s' hp.1 hvs.1 hs')
        (replList_v call hc P args hargs hvok hcov par r r' hp.2 hvs.2 hr')
end

theorem replaceGate_v (hms : ∀ m ∈ ms, PreS nat ms (m.params.map (·.1)) m.body) (hvm : ∀ m ∈ ms, VS m.body) :
    ∀ (fuel : Nat), CallV nat ms (replaceGate ms fuel) := by
  intro fuel
  induction fuel with
  | zero =>
    intro n gd a g' hst hn ha hk hval h
    simp only [replaceGate] at h
    cases hf : findMacro ms n with
    | none => rw [hf] at h; simp only [pure, Except.pure] at h; cases h; exact hk
    | some m => rw [hf] at h; simp only at h; split at h <;> cases h
  | succ f ih =>
    intro n gd a g' hst hn ha hk hval h
    simp only [replaceGate] at h
    cases hf : findMacro ms n with
    | none => rw [hf] at h; simp only [pure, Except.pure] at h; cases h; exact hk
    | some m =>
      rw [hf] at h; simp only at h
      split at h
      · cases h
      · have hmem : m ∈ ms := List.mem_of_find?_eq_some hf
        refine replStmt_v nat ms (replaceGate ms f) ih (m.params.map (·.1)) a ha hk ?_ m.body g' (hms m hmem)
          (hvm m hmem) h
        intro p hp
        apply lookupArg_of_names
        rw [hn, hst.mac m hf]
        exact hp

mutual
  theorem expStmt_v (call : Stmt → M Stmt) (hc : CallV nat ms call) :
      ∀ (s s' : Stmt), PreS nat ms [] s → VS s → expStmt call s = .ok s' → OS s'
    | .gate n gd gargs, s', hp, hvs, h => by
      obtain ⟨hst, hn, hv, hval⟩ := hp
      simp only [expStmt] at h
      exact hc n gd gargs s' hst hn (fun e he => ValP_nil_argT (hv e he)) hvs hval h
    | .loop c body, s', hp, hvs, h => by
      obtain ⟨_, _, hb⟩ := hp
      simp only [expStmt] at h
      obtain ⟨b', hb', h⟩ := bind_ok h
      obtain ⟨rfl, _⟩ := mkLoop_ok h
      exact expStmt_v call hc body b' hb hvs hb'
    | .block par sub it body, s', hp, hvs, h => by
      simp only [PreS] at hp
      obtain ⟨rfl, hvb⟩ := hvs
      simp only [expStmt] at h
      obtain ⟨stmts, hs, h⟩ := bind_ok h
      exact mkBlock_os h (expList_v call hc par body stmts hp hvb hs)
  theorem expList_v (call : Stmt → M Stmt) (hc : CallV nat ms call) (par : Bool) :
      ∀ (l l' : List Stmt), PreSL nat ms [] l → VSL l → expList call par l = .ok l' → OSL l'
    | [], l', _, _, h => by simp only [expList, pure, Except.pure] at h; cases h; trivial
    | s :: r, l', hp, hvs, h => by
      simp only [expList] at h
      obtain ⟨s', hs', h⟩ := bind_ok h
      obtain ⟨r', hr', h⟩ := bind_ok h
      cases h
      exact OS_spliceInto par s' r' (expStmt_v call hc s s' hp.1 hvs.1 hs') (expList_v call hc par r r' hp.2 hvs.2 hr')
end

end vok

/-! ### The expansion of a filled circuit -/

theorem expand_vok {c x : Circuit} (hp : PreC c) (hvb : VS c.body) (hvm : ∀ m ∈ c.macros, VS m.body)
    (h : expandMacros false c = .ok x) : OS x.body := by
  unfold expandMacros at h
  obtain ⟨body, hbody, h⟩ := bind_ok h
  obtain ⟨stmts, hstmts, h⟩ := bind_ok h
  simp only [pure, Except.pure] at h
  cases h
  have hcall := replaceGate_v c.natives c.macros hp.macros hvm c.macros.length
  have hos := expStmt_v c.natives c.macros _ hcall c.body body hp.body hvb hbody
  have hiter : ∀ (s : Stmt) (l : List Stmt), OS s → iterStmts s = .ok l → OSL l := by
    intro s
    induction s using Stmt.rec (motive_2 := fun _ => True) with
    | gate _ _ _ => intro l _ hl; cases hl
    | block _ _ _ b _ => intro l hb' hl; simp only [iterStmts, pure, Except.pure] at hl; cases hl; exact hb'.2.2
    | loop _ b ih => intro l hb' hl; simp only [iterStmts] at hl; exact ih l hb' hl
    | nil => trivial
    | cons _ _ _ _ => trivial
  have hl : OSL stmts := by
    cases body with
    | block par sub it b => simp only [statementsOf, pure, Except.pure] at hstmts; cases hstmts; exact hos.2.2
    | gate _ _ _ => cases hstmts
    | loop cnt b => simp only [statementsOf] at hstmts; exact hiter b stmts hos hstmts
  exact ⟨rfl, rfl, hl⟩

/-! ### A flat typed statement with `VOK` arguments has a meaning -/

theorem evalArgs_ok : ∀ (args : List (String × Val)), (∀ a ∈ args, ∃ sa, evalArg [] [] a.2 = .ok sa) →
    ∃ vs, evalArgs [] [] args = .ok vs
  | [], _ => ⟨[], rfl⟩
  | a :: r, h => by
    obtain ⟨x, hx⟩ := h a (List.mem_cons_self ..)
    obtain ⟨xs, hxs⟩ := evalArgs_ok r (fun b hb => h b (List.mem_cons_of_mem _ hb))
    exact ⟨x :: xs, by simp only [evalArgs, hx, hxs, bind, Except.bind, pure, Except.pure]⟩

mutual
  theorem evalStmt_ok : ∀ (s : Stmt), (∀ g ∈ gatesOf s, ∀ a ∈ g.2.2, argT a.2 = true) → skelT s = true → OS s →
      ∃ m, evalStmt [] [] [] s = .ok m
    | .gate n gd args, ht, _, ho => by
      obtain ⟨vs, hvs⟩ := evalArgs_ok args (fun a ha =>
        evOK_of_vok (ht (n, gd, args) (by simp [gatesOf]) a ha) (ho a ha))
      refine ⟨.gate n vs, ?_⟩
      rw [evalStmt_gate, hvs]
      rfl
    | .block par sub it body, ht, hs, ho => by
      obtain ⟨_, hit, hb⟩ := ho
      obtain ⟨ms, hms⟩ := evalStmts_ok body (by simpa only [gatesOf] using ht) (by simpa only [skelT] using hs) hb
      exact ⟨.blk par sub 1 ms, by
        simp only [evalStmt, neq1_false_evalInt hit, hms, bind, Except.bind, pure, Except.pure]⟩
    | .loop (.int k) (.block par sub it b), ht, hs, ho => by
      obtain ⟨m, hm⟩ := evalStmt_ok (.block par sub it b) (by simpa only [gatesOf] using ht)
        (by simpa only [skelT] using hs) (by simpa only [OS] using ho)
      refine ⟨.loop k m, ?_⟩
      have e : evalStmt [] [] [] (.loop (.int k) (.block par sub it b)) =
          (do let n ← evalInt [] [] (.int k); pure (.loop n (← evalStmt [] [] [] (.block par sub it b)))) := by
        simp only [evalStmt]
      rw [e, hm]
      rfl
    | .loop (.int _) (.gate _ _ _), _, h, _ | .loop (.int _) (.loop _ _), _, h, _ => by simp [skelT] at h
    | .loop (.flt _) _, _, h, _ | .loop (.const _ _) _, _, h, _ | .loop (.param _ _) _, _, h, _
    | .loop (.qubit _ _ _) _, _, h, _ | .loop (.regF _ _) _, _, h, _ | .loop (.regA _ _) _, _, h, _
    | .loop (.regS _ _ _ _ _) _, _, h, _ | .loop .none _, _, h, _ | .loop (.str _) _, _, h, _ => by simp [skelT] at h
  theorem evalStmts_ok : ∀ (l : List Stmt), (∀ g ∈ gatesOfList l, ∀ a ∈ g.2.2, argT a.2 = true) → skelTList l = true →
      OSL l → ∃ ms, evalStmts [] [] [] l = .ok ms
    | [], _, _, _ => ⟨[], rfl⟩
    | s :: r, ht, hs, ho => by
      simp only [skelTList, Bool.and_eq_true] at hs
      obtain ⟨x, hx⟩ := evalStmt_ok s (fun g hg => ht g (by simp only [gatesOfList, List.mem_append]; exact Or.inl hg))
        hs.1 ho.1
      obtain ⟨xs, hxs⟩ := evalStmts_ok r (fun g hg => ht g (by simp only [gatesOfList, List.mem_append]; exact Or.inr hg))
        hs.2 ho.2
      exact ⟨x :: xs, by simp only [evalStmts, hx, hxs, bind, Except.bind, pure, Except.pure]⟩
end

/-- a flat typed circuit whose statements are `OS` has a meaning -/
theorem flat_os_meaning {x : Circuit} (hf : FlatT x = true) (ho : OS x.body) : ∃ m, evalStmt [] [] [] x.body = .ok m := by
  have hargs : ∀ g ∈ gatesOf x.body, ∀ a ∈ g.2.2, argT a.2 = true := by
    simp only [FlatT, Bool.and_eq_true] at hf
    exact usedT_gates x.body hf.1.1.2
  simp only [FlatT, Bool.and_eq_true] at hf
  exact evalStmt_ok x.body hargs hf.1.1.1.2 ho

/-! ### What `fill_in_let` returns of a parsed program is `VS` -/

theorem allValsList_append {Q : Val → Prop} : ∀ (a b : List Stmt), AllValsList Q a → AllValsList Q b → AllValsList Q (a ++ b)
  | [], _, _, hb => hb
  | _ :: r, b, ha, hb => ⟨ha.1, allValsList_append r b ha.2 hb⟩

mutual
  theorem allVals_spell {Q : Val → Prop} (p m : Stmt) (hp : AllVals Q p) (hm : AllVals Q m) :
      ∀ (s : Stmt), AllVals Q s → AllVals Q (ExpandSubcircuits.spell p m s)
    | .gate n gd a, h => by simpa only [ExpandSubcircuits.spell] using h
    | .loop c b, h => by
      simp only [ExpandSubcircuits.spell, AllVals] at h ⊢
      exact ⟨h.1, allVals_spell p m hp hm b h.2⟩
    | .block par sub it body, h => by
      simp only [AllVals] at h
      have hb := allValsList_spell p m hp hm body h.2
      simp only [ExpandSubcircuits.spell]
      split
      · simp only [AllVals]
        refine ⟨fun hh => (by cases hh), hp, ?_⟩
        exact allValsList_append _ _ hb ⟨hm, trivial⟩
      · simp only [AllVals]
        exact ⟨fun hh => (by cases hh), hb⟩
  theorem allValsList_spell {Q : Val → Prop} (p m : Stmt) (hp : AllVals Q p) (hm : AllVals Q m) :
      ∀ (l : List Stmt), AllValsList Q l → AllValsList Q (ExpandSubcircuits.spellList p m l)
    | [], _ => by simp only [ExpandSubcircuits.spellList, AllValsList]
    | s :: r, h => by
      simp only [ExpandSubcircuits.spellList, AllValsList] at h ⊢
      exact ⟨allVals_spell p m hp hm s h.1, allValsList_spell p m hp hm r h.2⟩
end

mutual
  theorem vs_of (nat : List GateDef) (ms : List Macro) (P : List String) : ∀ (s : Stmt), PreS nat ms P s →
      AllVals ValOK s → ExpandSubcircuits.hasSub s = false → VS s
    | .gate n gd args, hp, hv, _ => by
      obtain ⟨_, _, hvp, _⟩ := hp
      intro a ha
      exact vok_of_valOK (hvp a ha) (hv a ha)
    | .block par sub it body, hp, hv, hs => by
      simp only [ExpandSubcircuits.hasSub, Bool.or_eq_false_iff] at hs
      simp only [PreS] at hp
      simp only [AllVals] at hv
      exact ⟨hs.1, vsl_of nat ms P body hp hv.2 hs.2⟩
    | .loop c b, hp, hv, hs => by
      simp only [ExpandSubcircuits.hasSub] at hs
      simp only [AllVals] at hv
      exact vs_of nat ms P b hp.2.2 hv.2 hs
  theorem vsl_of (nat : List GateDef) (ms : List Macro) (P : List String) : ∀ (l : List Stmt), PreSL nat ms P l →
      AllValsList ValOK l → ExpandSubcircuits.hasSubList l = false → VSL l
    | [], _, _, _ => trivial
    | s :: r, hp, hv, hs => by
      simp only [ExpandSubcircuits.hasSubList, Bool.or_eq_false_iff] at hs
      exact ⟨vs_of nat ms P s hp.1 hv.1 hs.1, vsl_of nat ms P r hp.2 hv.2 hs.2⟩
end

mutual
  /-- does the skeleton hold a subcircuit block? -/
  def skelSub : Skel → Bool
    | .gate _ _ => false
    | .block _ sub l => sub || skelSubList l
    | .loop b => skelSub b
  def skelSubList : List Skel → Bool
    | [] => false
    | s :: r => skelSub s || skelSubList r
end

mutual
  theorem hasSub_skel : ∀ (s : Stmt), ExpandSubcircuits.hasSub s = skelSub (skel s)
    | .gate _ _ _ => rfl
    | .block par sub it body => by
      simp only [ExpandSubcircuits.hasSub, skel, skelSub, hasSubList_skel body]
    | .loop c b => by simp only [ExpandSubcircuits.hasSub, skel, skelSub, hasSub_skel b]
  theorem hasSubList_skel : ∀ (l : List Stmt), ExpandSubcircuits.hasSubList l = skelSubList (skels l)
    | [] => rfl
    | s :: r => by simp only [ExpandSubcircuits.hasSubList, skels, skelSubList, hasSub_skel s, hasSubList_skel r]
end

/-! ### Totality of the SOURCE's meaning: a filled circuit whose expansion succeeds evaluates -/

theorem valP_okVal {P : List String} {v : Val} (h : ValP P v = true) : okVal v = true := by
  have regNP : ∀ w : Val, RegL w = true → ExpandMacros.noParam w = true :=
    fun w hw => UsedQubits.RegT_noParam w (RegL_RegT w hw)
  cases v with
  | int _ => rfl
  | flt _ => rfl
  | param _ _ => rfl
  | qubit n s i =>
    simp only [ValP, Bool.and_eq_true, Bool.or_eq_true] at h
    simp only [okVal, Bool.and_eq_true, Bool.or_eq_true]
    refine ⟨?_, ?_⟩
    · rcases h.1 with h1 | h1
      · exact Or.inr (regNP s h1)
      · left; cases s <;> simp [inP] at h1; rfl
    · rcases h.2 with h1 | h1
      · right; cases i <;> simp [isIntL] at h1; rfl
      · left; cases i <;> simp [inP] at h1; rfl
  | regF n s => exact regNP _ (by simpa [ValP] using h)
  | regA n s => exact regNP _ (by simpa [ValP] using h)
  | regS n s a b c => exact regNP _ (by simpa [ValP] using h)
  | const _ _ => simp [ValP, RegL] at h
  | none => simp [ValP, RegL] at h
  | str _ => simp [ValP, RegL] at h

/-- a covered parameter: what is substituted for it, and what the inner bindings hold for it -/
theorem param_bound {P : List String} {args : List (String × Val)} {vs : List SArg}
    (hcov : ∀ p ∈ P, ∃ a, lookupArg args p = some a) (hvs : evalArgs [] [] args = .ok vs) {v w : Val}
    (hv : inP P v = true) (h : substVal args v = .ok w) :
    ∃ n k, v = .param n k ∧ ∃ sa, evalArg [] [] w = .ok sa ∧ lookup (bindOf args vs) n = some sa := by
  cases v <;> simp [inP] at hv
  rename_i n k
  obtain ⟨a, ha⟩ := hcov n hv
  have hl := lookup_bindOf hvs n
  rw [ha] at hl
  simp only [substVal, ha] at h
  split at h
  · cases h
    exact ⟨n, k, rfl, hl⟩
  · cases h

/-- **value-level totality**: a value of a macro body whose substitution succeeds evaluates under the inner bindings -/
theorem substVal_tot {P : List String} {args : List (String × Val)} {vs : List SArg}
    (hargs : ∀ e ∈ args, argT e.2 = true) (hvok : ∀ e ∈ args, VOK e.2)
    (hcov : ∀ p ∈ P, ∃ a, lookupArg args p = some a) (hvs : evalArgs [] [] args = .ok vs) {v w : Val}
    (hv : ValP P v = true) (hk : VOK v) (h : substVal args v = .ok w) :
    ∃ sa, evalArg [] (bindOf args vs) v = .ok sa := by
  have closed : ∀ u : Val, argT u = true → VOK u → ExpandMacros.noParam u = true →
      ∃ sa, evalArg [] (bindOf args vs) u = .ok sa := by
    intro u h1 h2 h3
    obtain ⟨sa, hsa⟩ := evOK_of_vok h1 h2
    exact ⟨sa, by rw [evalArg_noParam [] (bindOf args vs) [] u h3]; exact hsa⟩
  cases v with
  | int _ => exact closed _ rfl trivial rfl
  | flt _ => exact closed _ rfl trivial rfl
  | param n k =>
    obtain ⟨n', k', he, sa, _, hl⟩ := param_bound hcov hvs (by simpa [ValP, inP] using hv) h
    cases he
    exact ⟨sa, by simp only [evalArg, hl]; rfl⟩
  | none => simp [ValP, RegL] at hv
  | str _ => simp [ValP, RegL] at hv
  | const _ _ => simp [ValP, RegL] at hv
  | regF n s =>
    have hL : RegL (.regF n s) = true := by simpa [ValP] using hv
    exact closed _ (RegL_argT hL) hk (UsedQubits.RegT_noParam _ (RegL_RegT _ hL))
  | regA n s =>
    have hL : RegL (.regA n s) = true := by simpa [ValP] using hv
    exact closed _ (RegL_argT hL) hk (UsedQubits.RegT_noParam _ (RegL_RegT _ hL))
  | regS n s a b c =>
    have hL : RegL (.regS n s a b c) = true := by simpa [ValP] using hv
    exact closed _ (RegL_argT hL) hk (UsedQubits.RegT_noParam _ (RegL_RegT _ hL))
  | qubit nm src idx =>
    have hw := substVal_vok hargs hvok hcov hv hk h
    simp only [ValP, Bool.and_eq_true, Bool.or_eq_true] at hv
    simp only [substVal] at h
    obtain ⟨s, hs, h⟩ := bind_ok h
    split at h
    · cases h
    · rename_i harr
      have harr' : isArrayLike s = true := by simpa using harr
      obtain ⟨i0, hi, h⟩ := bind_ok h
      have hsT : RegT s = true := by
        rcases hv.1 with h1 | h1
        · rw [substVal_reg (RegL_isReg h1)] at hs
          cases hs; exact RegL_RegT _ h1
        · exact argT_arrayLike (substVal_param_in hargs hcov h1 hs) harr'
      have hiT : argT i0 = true := by
        rcases hv.2 with h1 | h1
        · cases idx <;> simp [isIntL] at h1
          simp only [substVal, pure, Except.pure] at hi; cases hi; rfl
        · exact substVal_param_in hargs hcov h1 hi
      obtain ⟨nm', hwq⟩ := getItem_ok h
      subst hwq
      obtain ⟨hV, _, hrange⟩ := hw
      have hr := RegT_isRegister' hsT
      have hsV := hV hr
      -- the index is a literal int after `filter_float`
      have hchk : checkQubit s (filterFloat i0) = .ok () := by
        unfold ExpandMacros.getItem at h
        cases s <;> simp [RegT] at hsT <;> simp only [Val.name?] at h <;>
          (obtain ⟨u, hu, _⟩ := bind_ok h; cases u; exact hu)
      have hL := checkQubit_closed hsT hiT hchk
      obtain ⟨k, hk'⟩ : ∃ k, filterFloat i0 = .int k := by
        cases hff : filterFloat i0 <;> rw [hff] at hL <;> simp [isIntL] at hL
        exact ⟨_, rfl⟩
      obtain ⟨K, hK, h0, hlt⟩ := hrange k hk' hr
      obtain ⟨l, hl, hlen, hin, _⟩ := chain_spec hsV hK
      obtain ⟨q, hq, _⟩ := hin k h0 hlt
      -- the source evaluates to the same list under the inner bindings
      have hreg : evalReg [] (bindOf args vs) src = .ok l := by
        rcases hv.1 with h1 | h1
        · rw [substVal_reg (RegL_isReg h1)] at hs
          cases hs
          rw [evalReg_noParam [] (bindOf args vs) [] _ (UsedQubits.RegT_noParam _ hsT)]
          exact hl
        · obtain ⟨n, kd, rfl, sa, hsa, hlk⟩ := param_bound hcov hvs h1 hs
          have : sa = .reg l := by
            cases s <;> simp [RegT] at hsT <;>
              (simp only [evalArg, hl, bind, Except.bind, pure, Except.pure, Except.ok.injEq] at hsa; exact hsa.symm)
          subst this
          simp only [evalReg, hlk]
          rfl
      -- the index evaluates to the same int
      have hint : evalInt [] (bindOf args vs) idx = .ok k := by
        have e0 : evalInt [] [] i0 = .ok k := by
          rw [← filterFloat_evalNum_int [] [] i0, hk']
          rfl
        rcases hv.2 with h1 | h1
        · cases idx <;> simp [isIntL] at h1
          simp only [substVal, pure, Except.pure, Except.ok.injEq] at hi
          subst hi
          exact e0
        · obtain ⟨n, kd, rfl, sa, hsa, hlk⟩ := param_bound hcov hvs h1 hi
          cases i0 with
          | int j =>
            simp only [evalArg, evalNum, bind, Except.bind, pure, Except.pure, Except.ok.injEq] at hsa
            subst hsa
            simp only [evalInt, evalNum, hlk, bind, Except.bind, pure, Except.pure] at e0 ⊢
            exact e0
          | flt d =>
            simp only [evalArg, evalNum, bind, Except.bind, pure, Except.pure, Except.ok.injEq] at hsa
            subst hsa
            simp only [evalInt, evalNum, hlk, bind, Except.bind, pure, Except.pure] at e0 ⊢
            exact e0
          | _ => simp [filterFloat] at hk'
      refine ⟨.qubit q, ?_⟩
      simp only [evalArg, evalQubit, hint, hreg, bind, Except.bind, pure, Except.pure, nth?_of_nonneg l h0, hq]

theorem substArgs_tot {P : List String} {args : List (String × Val)} {vs : List SArg}
    (hargs : ∀ e ∈ args, argT e.2 = true) (hvok : ∀ e ∈ args, VOK e.2)
    (hcov : ∀ p ∈ P, ∃ a, lookupArg args p = some a) (hvs : evalArgs [] [] args = .ok vs) :
    ∀ (gargs new : List (String × Val)), (∀ a ∈ gargs, ValP P a.2 = true) → (∀ a ∈ gargs, VOK a.2) →
      substArgs args gargs = .ok new → ∃ ws, evalArgs [] (bindOf args vs) gargs = .ok ws
  | [], _, _, _, _ => ⟨[], rfl⟩
  | (n, v) :: rest, new, hv, hk, h => by
    simp only [substArgs] at h
    obtain ⟨v', hv', h⟩ := bind_ok h
    obtain ⟨rest', hr, _⟩ := bind_ok h
    obtain ⟨x, hx⟩ := substVal_tot hargs hvok hcov hvs (hv (n, v) (List.mem_cons_self ..)) (hk (n, v) (List.mem_cons_self ..)) hv'
    obtain ⟨xs, hxs⟩ := substArgs_tot hargs hvok hcov hvs rest rest' (fun a ha => hv a (List.mem_cons_of_mem _ ha))
      (fun a ha => hk a (List.mem_cons_of_mem _ ha)) hr
    exact ⟨x :: xs, by simp only [evalArgs, hx, hxs, bind, Except.bind, pure, Except.pure]⟩

mutual
  /-- every block has the iteration count `1` -/
  def It1 : Stmt → Prop
    | .gate _ _ _ => True
    | .block _ _ it body => it = .int 1 ∧ It1L body
    | .loop _ b => It1 b
  def It1L : List Stmt → Prop
    | [] => True
    | s :: r => It1 s ∧ It1L r
end

mutual
  theorem it1_of : ∀ (s : Stmt), BlocksOK s → ExpandSubcircuits.hasSub s = false → It1 s
    | .gate _ _ _, _, _ => trivial
    | .block par sub it body, hb, hs => by
      simp only [ExpandSubcircuits.hasSub, Bool.or_eq_false_iff] at hs
      simp only [BlocksOK] at hb
      exact ⟨hb.1 hs.1, it1L_of body hb.2.2 hs.2⟩
    | .loop c b, hb, hs => by
      simp only [ExpandSubcircuits.hasSub] at hs
      simp only [BlocksOK] at hb
      exact it1_of b hb hs
  theorem it1L_of : ∀ (l : List Stmt), BlocksOKList l → ExpandSubcircuits.hasSubList l = false → It1L l
    | [], _, _ => trivial
    | s :: r, hb, hs => by
      simp only [ExpandSubcircuits.hasSubList, Bool.or_eq_false_iff] at hs
      exact ⟨it1_of s hb.1 hs.1, it1L_of r hb.2 hs.2⟩
end

/-- the property of `call` the induction needs: a validated call with closed typed `VOK` arguments that expands has a meaning -/
def CallTot (nat : List GateDef) (ms : List Macro) (call : Stmt → M Stmt) : Prop :=
  ∀ (n : String) (gd : GateDef) (a : List (String × Val)) (g' : Stmt), GateStatic nat ms n gd →
    a.map (·.1) = gd.params.map (·.1) → (∀ e ∈ a, argT e.2 = true) → (∀ e ∈ a, VOK e.2) →
    GateDef.validateAll gd.params a = .ok () → call (.gate n gd a) = .ok g' →
    ∃ y, evalStmt [] (denoteMacros [] ms) [] (.gate n gd a) = .ok y

theorem closedArgs_eval {a : List (String × Val)} (ha : ∀ e ∈ a, argT e.2 = true) (hk : ∀ e ∈ a, VOK e.2) :
    ∃ vs, evalArgs [] [] a = .ok vs :=
  evalArgs_ok a (fun e he => evOK_of_vok (ha e he) (hk e he))

section tot
variable (nat : List GateDef) (ms : List Macro)

mutual
  theorem replStmt_tot (call : Stmt → M Stmt) (hc : CallTot nat ms call) (P : List String)
      (args : List (String × Val)) (vs : List SArg) (hargs : ∀ e ∈ args, argT e.2 = true) (hvok : ∀ e ∈ args, VOK e.2)
      (hcov : ∀ p ∈ P, ∃ a, lookupArg args p = some a) (hvs : evalArgs [] [] args = .ok vs) :
      ∀ (s s' : Stmt), PreS nat ms P s → VS s → It1 s → replStmt call args s = .ok s' →
        ∃ y, evalStmt [] (denoteMacros [] ms) (bindOf args vs) s = .ok y
    | .gate n gd gargs, s', hp, hvs', _, h => by
      obtain ⟨hst, hn, hv, _⟩ := hp
      simp only [replStmt] at h
      obtain ⟨new, hnew, h⟩ := bind_ok h
      obtain ⟨g, hg, h⟩ := bind_ok h
      obtain ⟨hnn, hna⟩ := substArgs_typed hargs hcov gargs new hv hnew
      have hnv := substArgs_vok hargs hvok hcov gargs new hv hvs' hnew
      have hnames : new.map (·.1) = gd.params.map (·.1) := by rw [hnn, hn]
      rw [callKw_eq_finish hnames hst.nodup] at hg
      unfold GateDef.finish at hg
      split at hg
      · simp [throw, throwThe, MonadExceptOf.throw, bind, Except.bind] at hg
      · obtain ⟨u, hu, hg⟩ := bind_ok hg
        cases hg
        have hname := hst.name
        subst hname
        obtain ⟨y, hy⟩ := hc gd.name gd new s' hst hnames hna hnv (by cases u; exact hu) h
        obtain ⟨ws, hws, hgs⟩ := evalStmt_gate_inv hy
        obtain ⟨ws', hws'⟩ := substArgs_tot hargs hvok hcov hvs gargs new hv hvs' hnew
        have e := (subst_args hvs hnew (fun a ha => valP_okVal (hv a ha)) hws').1
        rw [hws] at e
        cases e
        refine ⟨y, ?_⟩
        rw [evalStmt_gate, hws']
        exact hgs
    | .loop c body, s', hp, hvs', hi, h => by
      obtain ⟨hcnt, _, hb⟩ := hp
      simp only [replStmt] at h
      obtain ⟨c', hc', h⟩ := bind_ok h
      obtain ⟨b', hb', h⟩ := bind_ok h
      obtain ⟨_, hbc⟩ := mkLoop_ok h
      obtain ⟨y, hy⟩ := replStmt_tot call hc P args vs hargs hvok hcov hvs body b' hb hvs' hi hb'
      have hcount : ∃ k, evalInt [] (bindOf args vs) c = .ok k := by
        cases c <;> simp [CntP] at hcnt
        · exact ⟨_, rfl⟩
        · rename_i n kd
          have hin : inP P (.param n kd) = true := by simpa [inP] using hcnt
          have hcT : argT c' = true := substVal_param_in hargs hcov hin hc'
          obtain ⟨n', kd', he, sa, hsa, hlk⟩ := param_bound hcov hvs hin hc'
          cases he
          have hint : ∃ k, c' = .int k := by
            cases c' <;> simp [badCount] at hbc <;> first | exact ⟨_, rfl⟩ | (simp [argT, RegT] at hcT)
          obtain ⟨k, rfl⟩ := hint
          simp only [evalArg, evalNum, bind, Except.bind, pure, Except.pure, Except.ok.injEq] at hsa
          subst hsa
          exact ⟨k, by simp only [evalInt, evalNum, hlk, bind, Except.bind, pure, Except.pure]⟩
      obtain ⟨k, hk⟩ := hcount
      exact ⟨.loop k y, by simp only [evalStmt, hk, hy, bind, Except.bind, pure, Except.pure]⟩
    | .block par sub it body, s', hp, hvs', hi, h => by
      simp only [PreS] at hp
      obtain ⟨_, hvb⟩ := hvs'
      obtain ⟨rfl, hib⟩ := hi
      simp only [replStmt] at h
      obtain ⟨stmts, hs, _⟩ := bind_ok h
      obtain ⟨ys, hys⟩ := replList_tot call hc P args vs hargs hvok hcov hvs par body stmts hp hvb hib hs
      exact ⟨.blk par sub 1 ys, by
        simp only [evalStmt, evalInt, evalNum, hys, bind, Except.bind, pure, Except.pure]⟩
  theorem replList_tot (call : Stmt → M Stmt) (hc : CallTot nat ms call) (P : List String)
      (args : List (String × Val)) (vs : List SArg) (hargs : ∀ e ∈ args, argT e.2 = true) (hvok : ∀ e ∈ args, VOK e.2)
      (hcov : ∀ p ∈ P, ∃ a, lookupArg args p = some a) (hvs : evalArgs [] [] args = .ok vs) (par : Bool) :
      ∀ (l l' : List Stmt), PreSL nat ms P l → VSL l → It1L l → replList call args par l = .ok l' →
        ∃ ys, evalStmts [] (denoteMacros [] ms) (bindOf args vs) l = .ok ys
    | [], _, _, _, _, _ => ⟨[], rfl⟩
    | s :: r, l', hp, hvs', hi, h => by
      simp only [replList] at h
      obtain ⟨s', hs', h⟩ := bind_ok h
      obtain ⟨r', hr', _⟩ := bind_ok h
      obtain ⟨y, hy⟩ := replStmt_tot call hc P args vs hargs hvok hcov hvs s s' hp.1 hvs'.1 hi.1 hs'
      obtain ⟨ys, hys⟩ := replList_tot call hc P args vs hargs hvok hcov hvs par r r' hp.2 hvs'.2 hi.2 hr'
      exact ⟨y :: ys, by simp only [evalStmts, hy, hys, bind, Except.bind, pure, Except.pure]⟩
end

theorem gate_plain_tot {n : String} {gd : GateDef} {a : List (String × Val)} (ha : ∀ e ∈ a, argT e.2 = true)
    (hk : ∀ e ∈ a, VOK e.2) (hf : findMacro ms n = none) :
    ∃ y, evalStmt [] (denoteMacros [] ms) [] (.gate n gd a) = .ok y := by
  obtain ⟨vs, hvs⟩ := closedArgs_eval ha hk
  refine ⟨.gate n vs, ?_⟩
  rw [evalStmt_gate, hvs]
  simp only [bind, Except.bind, gateSem, findMacro_none_lookup [] ms n hf]
  rfl

theorem replaceGate_tot (hwf : wfMacrosFrom ms [] ms = true) (hms : ∀ m ∈ ms, PreS nat ms (m.params.map (·.1)) m.body)
    (hvm : ∀ m ∈ ms, VS m.body) (him : ∀ m ∈ ms, It1 m.body) : ∀ (fuel : Nat), CallTot nat ms (replaceGate ms fuel) := by
  intro fuel
  induction fuel with
  | zero =>
    intro n gd a g' hst hn ha hk hval h
    simp only [replaceGate] at h
    cases hf : findMacro ms n with
    | none => exact gate_plain_tot ms ha hk hf
    | some m => rw [hf] at h; simp only at h; split at h <;> cases h
  | succ f ih =>
    intro n gd a g' hst hn ha hk hval h
    simp only [replaceGate] at h
    cases hf : findMacro ms n with
    | none => exact gate_plain_tot ms ha hk hf
    | some m =>
      rw [hf] at h; simp only at h
      split at h
      · cases h
      · rename_i hlen
        have hmem : m ∈ ms := List.mem_of_find?_eq_some hf
        obtain ⟨vs, hvs⟩ := closedArgs_eval ha hk
        have hcov : ∀ p ∈ m.params.map (·.1), ∃ x, lookupArg a p = some x := by
          intro p hp
          apply lookupArg_of_names
          rw [hn, hst.mac m hf]
          exact hp
        obtain ⟨y, hy⟩ := replStmt_tot nat ms (replaceGate ms f) ih (m.params.map (·.1)) a vs ha hk hcov hvs m.body g'
          (hms m hmem) (hvm m hmem) (him m hmem) h
        obtain ⟨_, fn, hl, hfn⟩ := lookup_denote [] ms hwf n m hf
        refine ⟨y, ?_⟩
        rw [evalStmt_gate, hvs]
        have hlen' : vs.length = m.params.length := by
          rw [evalArgs_length hvs]
          exact Decidable.of_not_not hlen
        have hb : (m.params.map (·.1)).zip vs = bindOf a vs := by
          unfold bindOf
          rw [hn, hst.mac m hf]
        simp only [bind, Except.bind, gateSem, hl, hlen', if_true, hfn, hb]
        exact hy

mutual
  theorem expStmt_tot (call : Stmt → M Stmt) (hc : CallTot nat ms call) :
      ∀ (s s' : Stmt), PreS nat ms [] s → VS s → It1 s → expStmt call s = .ok s' →
        ∃ y, evalStmt [] (denoteMacros [] ms) [] s = .ok y
    | .gate n gd gargs, s', hp, hvs, _, h => by
      obtain ⟨hst, hn, hv, hval⟩ := hp
      simp only [expStmt] at h
      exact hc n gd gargs s' hst hn (fun e he => ValP_nil_argT (hv e he)) hvs hval h
    | .loop c body, s', hp, hvs, hi, h => by
      obtain ⟨hcnt, _, hb⟩ := hp
      simp only [expStmt] at h
      obtain ⟨b', hb', _⟩ := bind_ok h
      obtain ⟨y, hy⟩ := expStmt_tot call hc body b' hb hvs hi hb'
      have hint : ∃ k, c = .int k := by cases c <;> simp [CntP] at hcnt; exact ⟨_, rfl⟩
      obtain ⟨k, rfl⟩ := hint
      exact ⟨.loop k y, by simp only [evalStmt, evalInt, evalNum, hy, bind, Except.bind, pure, Except.pure]⟩
    | .block par sub it body, s', hp, hvs, hi, h => by
      simp only [PreS] at hp
      obtain ⟨_, hvb⟩ := hvs
      obtain ⟨rfl, hib⟩ := hi
      simp only [expStmt] at h
      obtain ⟨stmts, hs, _⟩ := bind_ok h
      obtain ⟨ys, hys⟩ := expList_tot call hc par body stmts hp hvb hib hs
      exact ⟨.blk par sub 1 ys, by
        simp only [evalStmt, evalInt, evalNum, hys, bind, Except.bind, pure, Except.pure]⟩
  theorem expList_tot (call : Stmt → M Stmt) (hc : CallTot nat ms call) (par : Bool) :
      ∀ (l l' : List Stmt), PreSL nat ms [] l → VSL l → It1L l → expList call par l = .ok l' →
        ∃ ys, evalStmts [] (denoteMacros [] ms) [] l = .ok ys
    | [], _, _, _, _, _ => ⟨[], rfl⟩
    | s :: r, l', hp, hvs, hi, h => by
      simp only [expList] at h
      obtain ⟨s', hs', h⟩ := bind_ok h
      obtain ⟨r', hr', _⟩ := bind_ok h
      obtain ⟨y, hy⟩ := expStmt_tot call hc s s' hp.1 hvs.1 hi.1 hs'
      obtain ⟨ys, hys⟩ := expList_tot call hc par r r' hp.2 hvs.2 hi.2 hr'
      exact ⟨y :: ys, by simp only [evalStmts, hy, hys, bind, Except.bind, pure, Except.pure]⟩
end

end tot

/-- **a filled circuit whose expansion succeeds has a meaning** (the converse direction of `C04_meaning`, for what
`fill_in_let` returns of a parsed program) -/
theorem filled_meaning {c x : Circuit} (hp : PreC c) (hwf : wfMacrosFrom c.macros [] c.macros = true) (hvb : VS c.body)
    (hvm : ∀ m ∈ c.macros, VS m.body) (hib : It1 c.body) (him : ∀ m ∈ c.macros, It1 m.body)
    (h : expandMacros false c = .ok x) : ∃ y, evalStmt [] (denoteMacros [] c.macros) [] c.body = .ok y := by
  unfold expandMacros at h
  obtain ⟨body, hbody, _⟩ := bind_ok h
  have hcall := replaceGate_tot c.natives c.macros hwf hp.macros hvm him c.macros.length
  exact expStmt_tot c.natives c.macros _ hcall c.body body hp.body hvb hib hbody


end Exists

end Jaqal.RunModel
