import JaqalProofs.Props.C01Autoload
/-!
# C01 for the builder API: a decidable legality predicate on builder S-expressions

`SxLegal e` (a `Bool`) says of an S-expression handed to `circuitbuilder.build` what the parenthesis of C01 says —
"built from legal identifiers and finite numbers within Jaqal's legal block nesting" — and nothing more:

* `e` is `("circuit", child …)`, every child a header statement (`usepulses`, `let`, `register`, `map`), a macro
  definition, or a statement (gate, `{ }`, `< >`, loop, subcircuit), IN ANY ORDER, all made of strings, ints, floats,
  `None` and lists only (no embedded pre-built object `BSx.val`);
* every identifier is read back by the lexer as one IDENTIFIER (`LegalName`; module names `SafeMod`);
* every float is one the generator can write and the lexer read back (`FloatOK`: a canonical decimal that does not
  overflow, i.e. a finite number); integers stand where Jaqal wants integers (sizes, indices, bounds, counts);
* Jaqal's block nesting: a `{ }` holds gates, `< >`, loops and subcircuits; a `< >` holds gates and `{ }`; a loop or macro
  body is a block; a subcircuit holds what a `{ }` holds; a `{ }` may stand at top level.

It is the Boolean form of `SChild SafeMod LegalName FloatOK` (`Lemmas/RoundTripSafe.lean`) without the `branch` statement
(which `build` always refuses): `sxLegal_children` (soundness) and `childB_of` (completeness); and it implies `noBr`
(`schild_noBr`: a legal identifier holds no `[`).  Hence every lemma of the C01 chain that is stated for programs with
`GChild e ∧ noBr e` / `SChild … e ∧ noBr e` applies to `SxLegal` programs.
-/
set_option linter.unusedSimpArgs false
set_option linter.unusedVariables false
namespace Jaqal.RoundTrip
open Jaqal Jaqal.Lexer Jaqal.Grammar Jaqal.Builder Jaqal.Pipeline

/-! ## decidability of the name / number conditions -/

instance (a : List Char) : Decidable (TailOK a) := by unfold TailOK; exact inferInstance

instance : (w : List Char) → Decidable (IdentShape w)
  | [] => isFalse (by rintro ⟨c, a, h, _⟩; cases h)
  | c :: a =>
    if h : isAlpha_ c = true ∧ TailOK a then isTrue ⟨c, a, rfl, h.1, h.2⟩
    else isFalse (by rintro ⟨c', a', he, h1, h2⟩; cases he; exact h ⟨h1, h2⟩)

instance (n : String) : Decidable (LegalName n) := by unfold LegalName; exact inferInstance

/-- `SafeMod` without the existential -/
def safeModB (m : String) : Bool :=
  (match m.toList with
   | '.' :: w => decide (IdentShape w)
   | _ => false) || (decide (m.toList.head? ≠ some '.') && decide (LegalName m)) || decide (m = ".")

theorem safeModB_iff (m : String) : safeModB m = true ↔ SafeMod m := by
  unfold safeModB SafeMod
  simp only [Bool.or_eq_true, Bool.and_eq_true, decide_eq_true_eq]
  constructor
  · rintro ((h | h) | h)
    · split at h
      · rename_i w hw
        exact Or.inl ⟨w, hw, by simpa using h⟩
      · cases h
    · exact Or.inr (Or.inl h)
    · exact Or.inr (Or.inr h)
  · rintro (⟨w, hw, hs⟩ | h | h)
    · left; left
      rw [hw]
      simpa using hs
    · exact Or.inl (Or.inr h)
    · exact Or.inr h

instance (m : String) : Decidable (SafeMod m) := decidable_of_iff _ (safeModB_iff m)

instance (d : Dec) : Decidable (FloatOK d) := by unfold FloatOK; exact inferInstance

/-! ## the Boolean shapes -/

/-- an index / bound / count position: an identifier there is legal -/
def refB : BSx → Bool
  | .str s => decide (LegalName s)
  | _ => true

/-- a gate argument: identifier, number, `("array_item", name, index)` -/
def argB : BSx → Bool
  | .str s => decide (LegalName s)
  | .flt d => decide (FloatOK d)
  | .list [.str _, .str a, idx] => decide (LegalName a) && refB idx
  | _ => true

theorem refB_iff (e : BSx) : refB e = true ↔ refT LegalName e := by
  cases e <;> simp [refB, refT]

theorem argB_iff (e : BSx) : argB e = true ↔ argT LegalName FloatOK e := by
  unfold argB argT
  split <;> simp [refB_iff]

/-- the absent count of a subcircuit -/
def isEmptyStr : BSx → Bool
  | .str s => decide (s = "")
  | _ => false

theorem isEmptyStr_iff (c : BSx) : isEmptyStr c = true ↔ c = .str "" := by
  cases c <;> simp [isEmptyStr]

mutual
/-- `stmtB par e`: `e` is a statement that may stand directly in a block of kind `par` (`true` = `< >`), all its
identifiers and floats legal -/
def stmtB (par : Bool) : BSx → Bool
  | .list (.str cmd :: rest) =>
    if cmd = "gate" then
      match rest with
      | .str g :: args => decide (LegalName g) && args.all isGateArg && args.all argB
      | _ => false
    else if cmd = "parallel_block" then !par && itemsB true rest
    else if cmd = "sequential_block" then par && itemsB false rest
    else if cmd = "loop" then
      !par && match rest with
        | [c, .list (.str k :: items)] =>
          isIntOrId c && refB c &&
            (if k = "sequential_block" then itemsB false items
             else if k = "parallel_block" then itemsB true items else false)
        | _ => false
    else if cmd = "subcircuit_block" then
      !par && match rest with
        | c :: items => isIntOrId c && (isEmptyStr c || refB c) && itemsB false items
        | _ => false
    else false
  | _ => false
def itemsB (par : Bool) : List BSx → Bool
  | [] => true
  | x :: xs => stmtB par x && itemsB par xs
end

mutual
theorem stmtB_sound : ∀ (par : Bool) (e : BSx), stmtB par e = true → SStmtL par e
  | par, .list (.str cmd :: rest), h => by
    unfold stmtB at h
    split_ifs at h with h1 h2 h3 h4 h5
    · subst h1
      split at h
      · rename_i g args
        simp only [Bool.and_eq_true, decide_eq_true_eq] at h
        refine SStmt.gate h.1.2 h.1.1 ?_
        intro a ha
        exact (argB_iff a).1 (List.all_eq_true.1 h.2 a ha)
      · cases h
    · subst h2
      simp only [Bool.and_eq_true, Bool.not_eq_true'] at h
      obtain ⟨hp, hi⟩ := h
      subst hp
      exact SStmt.parB (itemsB_sound true rest hi)
    · subst h3
      simp only [Bool.and_eq_true] at h
      obtain ⟨hp, hi⟩ := h
      subst hp
      exact SStmt.seqB (itemsB_sound false rest hi)
    · subst h4
      simp only [Bool.and_eq_true, Bool.not_eq_true'] at h
      obtain ⟨hp, hi⟩ := h
      subst hp
      split at hi
      · rename_i c k items
        simp only [Bool.and_eq_true] at hi
        obtain ⟨⟨hc, hr⟩, hb⟩ := hi
        split_ifs at hb with k1 k2
        · subst k1
          exact SStmt.loopSeq hc ((refB_iff c).1 hr) (itemsB_sound false items hb)
        · subst k2
          exact SStmt.loopPar hc ((refB_iff c).1 hr) (itemsB_sound true items hb)
      · cases hi
    · subst h5
      simp only [Bool.and_eq_true, Bool.not_eq_true'] at h
      obtain ⟨hp, hi⟩ := h
      subst hp
      split at hi
      · rename_i c items
        simp only [Bool.and_eq_true, Bool.or_eq_true] at hi
        obtain ⟨⟨hc, hr⟩, hb⟩ := hi
        refine SStmt.sub hc ?_ (itemsB_sound false items hb)
        rcases hr with hr | hr
        · exact Or.inl ((isEmptyStr_iff c).1 hr)
        · exact Or.inr ((refB_iff c).1 hr)
      · cases hi
  | _, .str _, h => by simp [stmtB] at h
  | _, .int _, h => by simp [stmtB] at h
  | _, .flt _, h => by simp [stmtB] at h
  | _, .none, h => by simp [stmtB] at h
  | _, .val _, h => by simp [stmtB] at h
  | _, .list [], h => by simp [stmtB] at h
  | _, .list (.int _ :: _), h => by simp [stmtB] at h
  | _, .list (.flt _ :: _), h => by simp [stmtB] at h
  | _, .list (.none :: _), h => by simp [stmtB] at h
  | _, .list (.val _ :: _), h => by simp [stmtB] at h
  | _, .list (.list _ :: _), h => by simp [stmtB] at h
theorem itemsB_sound : ∀ (par : Bool) (l : List BSx), itemsB par l = true → ∀ x ∈ l, SStmtL par x
  | _, [], _ => fun x hx => by cases hx
  | par, y :: ys, h => by
    simp only [itemsB, Bool.and_eq_true] at h
    intro x hx
    rcases List.mem_cons.1 hx with hxy | hx
    · rw [hxy]; exact stmtB_sound par y h.1
    · exact itemsB_sound par ys h.2 x hx
end

theorem itemsB_of {par : Bool} : ∀ {l : List BSx}, (∀ x ∈ l, stmtB par x = true) → itemsB par l = true
  | [], _ => by simp [itemsB]
  | y :: ys, h => by
    simp only [itemsB, Bool.and_eq_true]
    exact ⟨h y (by simp), itemsB_of (fun x hx => h x (by simp [hx]))⟩

theorem stmtB_complete : ∀ {par : Bool} {e : BSx}, SStmtL par e → stmtB par e = true
  | _, _, .gate ha hg hargs => by
    simp only [stmtB, if_true, Bool.and_eq_true, decide_eq_true_eq, List.all_eq_true]
    exact ⟨⟨hg, List.all_eq_true.1 ha⟩, fun a h => (argB_iff a).2 (hargs a h)⟩
  | _, _, .parB h => by
    have := itemsB_of (fun x hx => stmtB_complete (h x hx))
    simp [stmtB, this]
  | _, _, .seqB h => by
    have := itemsB_of (fun x hx => stmtB_complete (h x hx))
    simp [stmtB, this]
  | _, _, .loopSeq hc hr h => by
    have := itemsB_of (fun x hx => stmtB_complete (h x hx))
    simp [stmtB, this, hc, (refB_iff _).2 hr]
  | _, _, .loopPar hc hr h => by
    have := itemsB_of (fun x hx => stmtB_complete (h x hx))
    simp [stmtB, this, hc, (refB_iff _).2 hr]
  | _, .list (_ :: c :: _), .sub hc hr h => by
    have := itemsB_of (fun x hx => stmtB_complete (h x hx))
    have hr' : (isEmptyStr c || refB c) = true := by
      rcases hr with hr | hr
      · simp [(isEmptyStr_iff c).2 hr]
      · simp [(refB_iff c).2 hr]
    simp [stmtB, this, hc, hr']

/-! ## header statements, macros, top level -/

/-- a header statement with legal names and numbers -/
def headerB : BSx → Bool
  | .list (.str cmd :: rest) =>
    if cmd = "usepulses" then
      match rest with
      | [.str m, .str s] => decide (s = "*") && decide (SafeMod m)
      | _ => false
    else if cmd = "let" then
      match rest with
      | [.str n, .int _] => decide (LegalName n)
      | [.str n, .flt d] => decide (LegalName n) && decide (FloatOK d)
      | _ => false
    else if cmd = "register" then
      match rest with
      | [.str n, size] => decide (LegalName n) && isIntOrId size && refB size
      | _ => false
    else if cmd = "map" then
      match rest with
      | [.str n, .str s] => decide (LegalName n) && decide (LegalName s)
      | [.str n, .str s, i] => decide (LegalName n) && decide (LegalName s) && isIntOrId i && refB i
      | [.str n, .str s, a, b, c] =>
        decide (LegalName n) && decide (LegalName s) && isBound a && isBound b && isBound c && refB a && refB b && refB c
      | _ => false
    else false
  | _ => false

theorem headerB_sound (e : BSx) (h : headerB e = true) : SHeaderL e := by
  unfold headerB at h
  split at h
  · rename_i cmd rest
    split_ifs at h with h1 h2 h3 h4
    · subst h1
      split at h
      · simp only [Bool.and_eq_true, decide_eq_true_eq] at h
        obtain ⟨rfl, hm⟩ := h
        exact SHeader.usepulses _ hm
      · cases h
    · subst h2
      split at h
      · simp only [decide_eq_true_eq] at h
        exact SHeader.letInt _ _ h
      · simp only [Bool.and_eq_true, decide_eq_true_eq] at h
        exact SHeader.letFlt _ _ h.1 h.2
      · cases h
    · subst h3
      split at h
      · simp only [Bool.and_eq_true, decide_eq_true_eq] at h
        exact SHeader.register _ h.1.2 h.1.1 ((refB_iff _).1 h.2)
      · cases h
    · subst h4
      split at h
      · simp only [Bool.and_eq_true, decide_eq_true_eq] at h
        exact SHeader.mapWhole _ _ h.1 h.2
      · simp only [Bool.and_eq_true, decide_eq_true_eq] at h
        exact SHeader.mapIndex _ _ h.1.2 h.1.1.1 h.1.1.2 ((refB_iff _).1 h.2)
      · simp only [Bool.and_eq_true, decide_eq_true_eq] at h
        obtain ⟨⟨⟨⟨⟨⟨⟨hn, hs⟩, ha⟩, hb⟩, hc⟩, ra⟩, rb⟩, rc⟩ := h
        exact SHeader.mapSlice _ _ ha hb hc hn hs ((refB_iff _).1 ra) ((refB_iff _).1 rb) ((refB_iff _).1 rc)
      · cases h
  · cases h

theorem headerB_complete {e : BSx} (h : SHeaderL e) : headerB e = true := by
  cases h with
  | usepulses m hm => simp [headerB, hm]
  | letInt n v hn => simp [headerB, hn]
  | letFlt n d hn hd => simp [headerB, hn, hd]
  | register n hs hn hr => simp [headerB, hn, hs, (refB_iff _).2 hr]
  | mapWhole n s hn hs => simp [headerB, hn, hs]
  | mapIndex n s hi hn hs hr => simp [headerB, hn, hs, hi, (refB_iff _).2 hr]
  | mapSlice n s ha hb hc hn hs ra rb rc =>
    simp [headerB, hn, hs, ha, hb, hc, (refB_iff _).2 ra, (refB_iff _).2 rb, (refB_iff _).2 rc]

/-- what follows the name of a macro: parameters (legal identifiers), then the body, a block -/
def macroTailB : List BSx → Bool
  | [.list (.str k :: items)] =>
    if k = "sequential_block" then itemsB false items else if k = "parallel_block" then itemsB true items else false
  | .str p :: more => decide (LegalName p) && macroTailB more
  | _ => false

theorem macroTailB_sound : ∀ (l : List BSx), macroTailB l = true →
    ∃ (params : List String) (par : Bool) (items : List BSx),
      l = params.map BSx.str ++ [.list (.str (blockCmdB par) :: items)] ∧ (∀ p ∈ params, LegalName p) ∧
      ∀ x ∈ items, SStmtL par x := by
  intro l
  induction l with
  | nil => intro h; simp [macroTailB] at h
  | cons y ys ih =>
    intro h
    unfold macroTailB at h
    split at h
    · rename_i k items heq
      cases heq
      split_ifs at h with k1 k2
      · subst k1
        exact ⟨[], false, items, rfl, (fun p hp => by simp at hp), itemsB_sound false items h⟩
      · subst k2
        exact ⟨[], true, items, rfl, (fun p hp => by simp at hp), itemsB_sound true items h⟩
    · rename_i p more heq
      cases heq
      simp only [Bool.and_eq_true, decide_eq_true_eq] at h
      obtain ⟨params, par, items, rfl, hp, hi⟩ := ih h.2
      refine ⟨p :: params, par, items, rfl, ?_, hi⟩
      intro q hq
      rcases List.mem_cons.1 hq with rfl | hq
      · exact h.1
      · exact hp q hq
    · cases h

theorem macroTailB_complete {par : Bool} {items : List BSx} (hi : ∀ x ∈ items, SStmtL par x) :
    ∀ (params : List String), (∀ p ∈ params, LegalName p) →
      macroTailB (params.map BSx.str ++ [.list (.str (blockCmdB par) :: items)]) = true
  | [], _ => by
    have := itemsB_of (fun x hx => stmtB_complete (hi x hx))
    cases par <;> simp [macroTailB, blockCmdB, this]
  | p :: ps, hp => by
    have ih := macroTailB_complete hi ps (fun q hq => hp q (by simp [hq]))
    have hp1 : LegalName p := hp p (by simp)
    cases ps with
    | nil =>
      simp only [List.map_cons, List.map_nil, List.cons_append, List.nil_append] at ih ⊢
      unfold macroTailB
      simp [hp1, ih]
    | cons q qs =>
      simp only [List.map_cons, List.cons_append] at ih ⊢
      unfold macroTailB
      simp [hp1, ih]

/-- a macro definition, a `{ }` at top level, or a statement -/
def topB : BSx → Bool
  | .list (.str cmd :: rest) =>
    if cmd = "macro" then
      match rest with
      | .str name :: more => decide (LegalName name) && macroTailB more
      | _ => false
    else if cmd = "sequential_block" then itemsB false rest
    else stmtB false (.list (.str cmd :: rest))
  | _ => false

theorem topB_sound (e : BSx) (h : topB e = true) : STopL e := by
  unfold topB at h
  split at h
  · rename_i cmd rest
    split_ifs at h with h1 h2
    · subst h1
      split at h
      · rename_i name more
        simp only [Bool.and_eq_true, decide_eq_true_eq] at h
        obtain ⟨params, par, items, rfl, hp, hi⟩ := macroTailB_sound more h.2
        exact STop.macroDef h.1 hp hi
      · cases h
    · subst h2
      exact STop.seqB (itemsB_sound false rest h)
    · exact STop.stmt (stmtB_sound false _ h)
  · cases h

/-- the statement `branch`, which the grammar has and `build` always refuses -/
def isBranch : BSx → Bool
  | .list (.str cmd :: _) => decide (cmd = "branch")
  | _ => false

theorem topB_complete {e : BSx} (h : STopL e) (hb : isBranch e = false) : topB e = true := by
  cases h with
  | stmt hs =>
    have h1 := stmtB_complete hs
    cases hs with
    | gate _ _ _ => simpa [topB] using h1
    | parB _ => simpa [topB] using h1
    | loopSeq _ _ _ => simpa [topB] using h1
    | loopPar _ _ _ => simpa [topB] using h1
    | sub _ _ _ => simpa [topB] using h1
  | seqB hi =>
    have := itemsB_of (fun x hx => stmtB_complete (hi x hx))
    simp [topB, this]
  | macroDef hn hp hi =>
    have := macroTailB_complete hi _ hp
    simp [topB, hn, this]
  | branch => simp [isBranch] at hb

/-- a child of a program -/
def childB (e : BSx) : Bool := headerB e || topB e

theorem childB_sound (e : BSx) (h : childB e = true) : SChildL e := by
  unfold childB at h
  rcases Bool.or_eq_true _ _ ▸ h with h | h
  · exact Or.inl (headerB_sound e h)
  · exact Or.inr (topB_sound e h)

theorem childB_of {e : BSx} (h : SChildL e) (hb : isBranch e = false) : childB e = true := by
  unfold childB
  rcases h with h | h
  · simp [headerB_complete h]
  · simp [topB_complete h hb]

/-- **`SxLegal e`**: `e` is a program `("circuit", child …)` of pure S-expressions — header statements, macro
definitions and statements in any order — with legal identifiers, finite canonical floats and Jaqal's block nesting. -/
def SxLegal : BSx → Bool
  | .list (.str cmd :: cs) => decide (cmd = "circuit") && cs.all childB
  | _ => false

theorem sxLegal_children {e : BSx} (h : SxLegal e = true) :
    ∃ cs, e = .list (.str "circuit" :: cs) ∧ ∀ x ∈ cs, SChildL x := by
  unfold SxLegal at h
  split at h
  · rename_i cmd cs
    simp only [Bool.and_eq_true, decide_eq_true_eq, List.all_eq_true] at h
    obtain ⟨rfl, hc⟩ := h
    exact ⟨cs, rfl, fun x hx => childB_sound x (hc x hx)⟩
  · cases h

theorem sxLegal_of {cs : List BSx} (h : ∀ x ∈ cs, SChildL x ∧ isBranch x = false) :
    SxLegal (.list (.str "circuit" :: cs)) = true := by
  simp only [SxLegal, decide_true, Bool.true_and, List.all_eq_true]
  exact fun x hx => childB_of (h x hx).1 (h x hx).2

/-! ## a legal program holds no `[` -/

theorem identShape_chars {w : List Char} (h : IdentShape w) : ∀ x ∈ w, x ≠ '[' := by
  obtain ⟨c, a, rfl, hc, ha⟩ := h
  intro x hx
  rcases List.mem_cons.1 hx with rfl | hx
  · intro he; rw [he] at hc; revert hc; decide
  · exact tailOK_chars a ha x hx

theorem nameOK_of_chars {m : String} (h : ∀ x ∈ m.toList, x ≠ '[') : nameOK m = true := by
  simp only [nameOK, Bool.not_eq_true', List.contains_eq_mem, decide_eq_false_iff_not]
  exact fun hm => h _ hm rfl

theorem safeMod_nameOK {m : String} (h : SafeMod m) : nameOK m = true := by
  rcases h with ⟨w, hw, hs⟩ | ⟨_, hl⟩ | rfl
  · apply nameOK_of_chars
    rw [hw]
    intro x hx
    rcases List.mem_cons.1 hx with rfl | hx
    · decide
    · exact identShape_chars hs x hx
  · exact legalName_nameOK hl
  · decide

theorem ref_noBr {e : BSx} (hi : isIntOrId e = true) (hr : refT LegalName e) : noBr e = true := by
  cases e <;> simp [isIntOrId] at hi <;> simp [noBr]
  exact legalName_nameOK hr

theorem bound_noBr {e : BSx} (hi : isBound e = true) (hr : refT LegalName e) : noBr e = true := by
  cases e with
  | none => simp [noBr]
  | str s => simp only [noBr]; exact legalName_nameOK hr
  | int _ => simp [noBr]
  | flt _ => simp [isBound, isIntOrId] at hi
  | list _ => simp [isBound, isIntOrId] at hi
  | val _ => simp [isBound, isIntOrId] at hi

theorem arg_noBr {a : BSx} (hg : isGateArg a = true) (ht : argT LegalName FloatOK a) : noBr a = true := by
  unfold isGateArg at hg
  split at hg
  · simp only [noBr]; exact legalName_nameOK ht
  · simp [noBr]
  · simp [noBr]
  · rename_i s idx
    have h1 : nameOK s = true := legalName_nameOK ht.1
    have h2 := ref_noBr hg ht.2
    simp only [noBr, noBrList, h1, h2, Bool.and_true]
    decide
  · cases hg

theorem args_noBr : ∀ {args : List BSx}, args.all isGateArg = true → (∀ a ∈ args, argT LegalName FloatOK a) →
    noBrList args = true
  | [], _, _ => rfl
  | a :: as, hg, ht => by
    simp only [List.all_cons, Bool.and_eq_true] at hg
    simp only [noBrList, Bool.and_eq_true]
    exact ⟨arg_noBr hg.1 (ht a (by simp)), args_noBr hg.2 (fun b hb => ht b (by simp [hb]))⟩

theorem sstmt_noBr : ∀ {par : Bool} {e : BSx}, SStmtL par e → noBr e = true
  | _, _, .gate ha hg hargs => by
    have h1 : nameOK _ = true := legalName_nameOK hg
    have h2 := args_noBr ha hargs
    simp only [noBr, noBrList, h1, h2, Bool.and_true]
    decide
  | _, _, .parB h => noBrList_cons_cmd (by decide) (noBrList_of_mem (fun x hx => sstmt_noBr (h x hx)))
  | _, _, .seqB h => noBrList_cons_cmd (by decide) (noBrList_of_mem (fun x hx => sstmt_noBr (h x hx)))
  | _, _, .loopSeq hc hr h => by
    have h1 := ref_noBr hc hr
    have h2 : noBr (.list (.str "sequential_block" :: _)) = true :=
      noBrList_cons_cmd (by decide) (noBrList_of_mem (fun x hx => sstmt_noBr (h x hx)))
    simp only [noBr, noBrList, Bool.and_eq_true] at h2 ⊢
    exact ⟨by decide, h1, h2, trivial⟩
  | _, _, .loopPar hc hr h => by
    have h1 := ref_noBr hc hr
    have h2 : noBr (.list (.str "parallel_block" :: _)) = true :=
      noBrList_cons_cmd (by decide) (noBrList_of_mem (fun x hx => sstmt_noBr (h x hx)))
    simp only [noBr, noBrList, Bool.and_eq_true] at h2 ⊢
    exact ⟨by decide, h1, h2, trivial⟩
  | _, .list (_ :: c :: _), .sub hc hr h => by
    have h1 : noBr c = true := by
      rcases hr with rfl | hr
      · decide
      · exact ref_noBr hc hr
    have h2 := noBrList_of_mem (fun x hx => sstmt_noBr (h x hx))
    simp only [noBr, noBrList, Bool.and_eq_true]
    exact ⟨by decide, h1, h2⟩

theorem sheader_noBr {e : BSx} (h : SHeaderL e) : noBr e = true := by
  cases h with
  | usepulses m hm =>
    have := safeMod_nameOK hm
    simp only [noBr, noBrList, this, Bool.and_true]; decide
  | letInt n v hn =>
    have := legalName_nameOK hn
    simp only [noBr, noBrList, this, Bool.and_true]; decide
  | letFlt n d hn hd =>
    have := legalName_nameOK hn
    simp only [noBr, noBrList, this, Bool.and_true]; decide
  | register n hs hn hr =>
    have h1 := legalName_nameOK hn
    have h2 := ref_noBr hs hr
    simp only [noBr, noBrList, h1, h2, Bool.and_true]; decide
  | mapWhole n s hn hs =>
    have h1 := legalName_nameOK hn
    have h2 := legalName_nameOK hs
    simp only [noBr, noBrList, h1, h2, Bool.and_true]; decide
  | mapIndex n s hi hn hs hr =>
    have h1 := legalName_nameOK hn
    have h2 := legalName_nameOK hs
    have h3 := ref_noBr hi hr
    simp only [noBr, noBrList, h1, h2, h3, Bool.and_true]; decide
  | mapSlice n s ha hb hc hn hs ra rb rc =>
    have h1 := legalName_nameOK hn
    have h2 := legalName_nameOK hs
    have h3 := bound_noBr ha ra
    have h4 := bound_noBr hb rb
    have h5 := bound_noBr hc rc
    simp only [noBr, noBrList, h1, h2, h3, h4, h5, Bool.and_true]; decide

theorem noBrList_strs : ∀ {ps : List String}, (∀ p ∈ ps, LegalName p) → noBrList (ps.map BSx.str) = true
  | [], _ => rfl
  | p :: ps, h => by
    simp only [List.map_cons, noBrList, noBr, Bool.and_eq_true]
    exact ⟨legalName_nameOK (h p (by simp)), noBrList_strs (fun q hq => h q (by simp [hq]))⟩

theorem stop_noBr {e : BSx} (h : STopL e) (hb : isBranch e = false) : noBr e = true := by
  cases h with
  | stmt hs => exact sstmt_noBr hs
  | seqB hi => exact noBrList_cons_cmd (by decide) (noBrList_of_mem (fun x hx => sstmt_noBr (hi x hx)))
  | macroDef hn hp hi =>
    rename_i name params par items
    have h1 := legalName_nameOK hn
    have h2 : noBr (.list (.str (blockCmdB par) :: items)) = true :=
      noBrList_cons_cmd (by cases par <;> decide) (noBrList_of_mem (fun x hx => sstmt_noBr (hi x hx)))
    have h3 : noBrList (params.map BSx.str ++ [.list (.str (blockCmdB par) :: items)]) = true :=
      noBrList_append_of (noBrList_strs hp) (by simp only [noBrList, h2, Bool.and_true])
    simp only [noBr, noBrList, h1, Bool.and_eq_true]
    exact ⟨by decide, trivial, h3⟩
  | branch => simp [isBranch] at hb

theorem headerB_not_branch {e : BSx} (h : headerB e = true) : isBranch e = false := by
  unfold headerB at h
  split at h
  · rename_i cmd rest
    simp only [isBranch, decide_eq_false_iff_not]
    rintro rfl
    simp at h
  · cases h

theorem topB_not_branch {e : BSx} (h : topB e = true) : isBranch e = false := by
  unfold topB at h
  split at h
  · rename_i cmd rest
    simp only [isBranch, decide_eq_false_iff_not]
    rintro rfl
    simp [stmtB] at h
  · cases h

theorem childB_noBr {e : BSx} (h : childB e = true) : noBr e = true := by
  unfold childB at h
  rcases Bool.or_eq_true _ _ ▸ h with h | h
  · exact sheader_noBr (headerB_sound e h)
  · exact stop_noBr (topB_sound e h) (topB_not_branch h)

/-- **What `SxLegal` gives the C01 chain**: the children of the program have the shapes of the grammar with legal names
and numbers attached, and hold no `[`. -/
theorem sxLegal_inv {e : BSx} (h : SxLegal e = true) :
    ∃ cs, e = .list (.str "circuit" :: cs) ∧ (∀ x ∈ cs, SChildL x ∧ noBr x = true) ∧
      ∀ x ∈ cs, GChild x ∧ noBr x = true := by
  unfold SxLegal at h
  split at h
  · rename_i cmd cs
    simp only [Bool.and_eq_true, decide_eq_true_eq, List.all_eq_true] at h
    obtain ⟨rfl, hc⟩ := h
    exact ⟨cs, rfl, fun x hx => ⟨childB_sound x (hc x hx), childB_noBr (hc x hx)⟩,
      fun x hx => ⟨(childB_sound x (hc x hx)).toG, childB_noBr (hc x hx)⟩⟩
  · cases h

/-! ## `build` never accepts a `branch` statement -/

theorem isBranch_shape {e : BSx} (h : isBranch e = true) : ∃ args, e = .list (.str "branch" :: args) := by
  unfold isBranch at h
  split at h
  · rename_i cmd rest
    simp only [decide_eq_true_eq] at h
    subst h
    exact ⟨rest, rfl⟩
  · cases h

theorem loop_no_branch {cfg : Config} {mode : KeyMode} {inject : Option (List (String × GateDef))} {F : Nat} :
    ∀ (cs : List BSx) (acc accF : Acc), circuitLoop cfg mode inject F acc cs = .ok accF → ∀ x ∈ cs, isBranch x = false
  | [], _, _, _ => fun x hx => by cases hx
  | e :: cs, acc, accF, h => by
    simp only [circuitLoop] at h
    obtain ⟨acc1, hstep, hrest⟩ := bind_ok h
    intro x hx
    rcases List.mem_cons.1 hx with rfl | hx
    · cases hb : isBranch x with
      | false => rfl
      | true =>
        obtain ⟨args, rfl⟩ := isBranch_shape hb
        unfold circuitStep at hstep
        obtain ⟨pr, hbuild, _⟩ := bind_ok hstep
        exact absurd hbuild (branch_fails _ _ _ _ _ _ _)
    · exact loop_no_branch cs acc1 accF hrest x hx

theorem buildNoMemo_no_branch {cfg : Config} {cs : List BSx} {c : Circuit}
    (h : buildNoMemo cfg (.list (.str "circuit" :: cs)) = .ok c) : ∀ x ∈ cs, isBranch x = false := by
  unfold buildNoMemo buildWith at h
  obtain ⟨inject, _, h1⟩ := bind_ok h
  simp only [buildCore] at h1
  obtain ⟨accF, hloop, _⟩ := bind_ok h1
  exact loop_no_branch cs _ accF hloop

/-! ## header statements first -/

/-- the header statements of the program come before its macros and statements (as in every Jaqal text) -/
def headersFirst : BSx → Bool
  | .list (_ :: cs) => (cs.dropWhile headerB).all topB
  | _ => false

theorem mem_takeWhile_p {α} {p : α → Bool} : ∀ {l : List α} {x : α}, x ∈ l.takeWhile p → p x = true
  | [], _, h => by simp at h
  | y :: ys, x, h => by
    simp only [List.takeWhile_cons] at h
    split at h
    · rename_i hy
      rcases List.mem_cons.1 h with rfl | h
      · exact hy
      · exact mem_takeWhile_p h
    · simp at h

theorem mem_of_dropWhile {α} {p : α → Bool} : ∀ {l : List α} {x : α}, x ∈ l.dropWhile p → x ∈ l
  | [], _, h => by simp at h
  | y :: ys, x, h => by
    simp only [List.dropWhile_cons] at h
    split at h
    · exact List.mem_cons_of_mem _ (mem_of_dropWhile h)
    · exact h

theorem headersFirst_split {cs : List BSx} {x : BSx} (h : headersFirst (.list (x :: cs)) = true) :
    ∃ hs bs, cs = hs ++ bs ∧ (∀ e ∈ hs, SHeaderL e) ∧ (∀ e ∈ bs, STopL e) := by
  simp only [headersFirst, List.all_eq_true] at h
  refine ⟨cs.takeWhile headerB, cs.dropWhile headerB, (List.takeWhile_append_dropWhile).symm, ?_, ?_⟩
  · intro e he
    exact headerB_sound e (mem_takeWhile_p he)
  · intro e he
    exact topB_sound e (h e he)

theorem headersFirst_of {hs bs : List BSx} {x : BSx} (hh : ∀ e ∈ hs, SHeaderL e)
    (hb : ∀ e ∈ bs, STopL e ∧ isBranch e = false) : headersFirst (.list (x :: (hs ++ bs))) = true := by
  simp only [headersFirst, List.all_eq_true]
  induction hs with
  | nil =>
    intro e he
    simp only [List.nil_append] at he
    exact topB_complete (hb e (mem_of_dropWhile he)).1 (hb e (mem_of_dropWhile he)).2
  | cons y ys ih =>
    intro e he
    have hy : headerB y = true := headerB_complete (hh y (by simp))
    simp only [List.cons_append, List.dropWhile_cons, hy, if_true] at he
    exact ih (fun z hz => hh z (by simp [hz])) e he

/-! ## `autoload_pulses=True`, header statements anywhere the builder accepts them

`auto_to_plain` (`Lemmas/RoundTripAutoload.lean`) is stated for children `hs ++ bs`, header statements first.  A builder
program may have a `let` / `register` / `map` after a statement or a macro.  With autoload on a `usepulses` there is
refused ("pulses-after-first-gate-or-macro"), so a successful run still splits into header statements `hs` followed by
children none of which is a `usepulses` — and that is all `auto_to_plain` uses. -/

open Jaqal.Autoload

/-- a child that is built to a value is none of the statement / macro forms -/
theorem anyStep_val_cmd {cfg : Config} {mode : KeyMode} {recA : Ctx → BSx → St → M (Obj × St)} {recV : BSx → M Val}
    {ctx : Ctx} {l : List BSx} {st s1 : St} {v : Val}
    (h : anyStep cfg mode recA recV ctx l st = .ok (.val v, s1)) :
    ∃ cmd args, l = .str cmd :: args ∧ cmd ≠ "gate" ∧ cmd ≠ "sequential_block" ∧ cmd ≠ "parallel_block" ∧
      cmd ≠ "subcircuit_block" ∧ cmd ≠ "loop" ∧ cmd ≠ "macro" := by
  unfold anyStep at h
  match l, h with
  | [], h => simp [throw_eq] at h
  | .str cmd :: args, h =>
    by_cases h1 : cmd = "gate"
    · exfalso
      simp only [h1, if_true] at h
      obtain ⟨a, _, h2⟩ := bind_ok h
      cases h2
    simp only [h1, if_false] at h
    by_cases h2 : cmd = "sequential_block" ∨ cmd = "block"
    · exfalso
      simp only [h2, if_true] at h
      obtain ⟨a, _, h2⟩ := bind_ok h
      obtain ⟨b, _, h3⟩ := bind_ok h2
      cases h3
    simp only [h2, if_false] at h
    by_cases h3 : cmd = "parallel_block"
    · exfalso
      simp only [h3, if_true] at h
      obtain ⟨a, _, h2⟩ := bind_ok h
      obtain ⟨b, _, h3⟩ := bind_ok h2
      cases h3
    simp only [h3, if_false] at h
    by_cases h4 : cmd = "unscheduled_block"
    · exfalso
      simp only [h4, if_true] at h
      obtain ⟨a, _, h2⟩ := bind_ok h
      obtain ⟨b, _, h3⟩ := bind_ok h2
      cases h3
    simp only [h4, if_false] at h
    by_cases h5 : cmd = "subcircuit_block"
    · exfalso
      simp only [h5, if_true] at h
      split at h
      · simp [throw_eq] at h
      · obtain ⟨a, _, h2⟩ := bind_ok h
        split at h2
        · simp [throw_eq] at h2
        · obtain ⟨b, _, h3⟩ := bind_ok h2
          obtain ⟨c, _, h4⟩ := bind_ok h3
          obtain ⟨d, _, h5⟩ := bind_ok h4
          cases h5
    simp only [h5, if_false] at h
    by_cases h6 : cmd = "loop"
    · exfalso
      simp only [h6, if_true] at h
      split at h
      · obtain ⟨a, _, h2⟩ := bind_ok h
        obtain ⟨b, _, h3⟩ := bind_ok h2
        split at h3
        · obtain ⟨c, _, h4⟩ := bind_ok h3
          cases h4
        · obtain ⟨c, _, h4⟩ := bind_ok h3
          cases h4
        · simp [throw_eq] at h3
      · simp [throw_eq] at h
    simp only [h6, if_false] at h
    by_cases h7 : cmd = "case"
    · exfalso
      simp only [h7, if_true] at h
      split at h
      · obtain ⟨a, _, h2⟩ := bind_ok h
        obtain ⟨b, _, h3⟩ := bind_ok h2
        cases h3
      · simp [throw_eq] at h
    simp only [h7, if_false] at h
    by_cases h8 : cmd = "branch"
    · exfalso
      simp only [h8, if_true] at h
      obtain ⟨a, _, h2⟩ := bind_ok h
      simp [throw_eq] at h2
    simp only [h8, if_false] at h
    by_cases h9 : cmd = "macro"
    · exfalso
      simp only [h9, if_true] at h
      split at h
      · simp [throw_eq] at h
      · split at h
        · obtain ⟨a, _, h2⟩ := bind_ok h
          split at h2
          · simp [throw_eq, bind, Except.bind] at h2
          · obtain ⟨b, _, h3⟩ := bind_ok h2
            split at h3
            · simp [throw_eq] at h3
            · obtain ⟨c, _, h4⟩ := bind_ok h3
              split at h4
              · cases h4
              · simp [throw_eq] at h4
        · simp [throw_eq] at h
    exact ⟨cmd, args, rfl, h1, fun hc => h2 (Or.inl hc), h3, h5, h6, h9⟩
  | .int _ :: _, h | .flt _ :: _, h | .none :: _, h | .list _ :: _, h | .val _ :: _, h => simp [throw_eq] at h

/-- a statement or a macro has been recorded -/
def busy (acc : Acc) : Prop := acc.stmts ≠ [] ∨ acc.macros ≠ []

/-- `stepTail` only appends -/
theorem stepTail_busy {cfg : Config} {mode : KeyMode} {inject : Option (List (String × GateDef))}
    {acc a1 : Acc} {o : Obj} {st : St} (h : stepTail cfg mode inject acc o st = .ok a1) (hb : busy acc) : busy a1 := by
  have key : a1.stmts = acc.stmts ∧ a1.macros = acc.macros ∨ (∃ s, a1.stmts = acc.stmts ++ [s] ∧ a1.macros = acc.macros) ∨
      (∃ m, a1.macros = acc.macros ++ [m] ∧ a1.stmts = acc.stmts) := by
    cases o with
    | usepulses n =>
      rcases stepTail_usepulses_ok h with ⟨_, rfl⟩ | ⟨_, _, gs, _, rfl⟩
      · exact Or.inl ⟨rfl, rfl⟩
      · exact Or.inl ⟨rfl, rfl⟩
    | val v =>
      cases v <;> simp only [stepTail, throw_eq] at h <;> first
        | cases h
        | (obtain ⟨c, _, h2⟩ := bind_ok h
           cases h2
           exact Or.inl ⟨rfl, rfl⟩)
    | «macro» m =>
      simp only [stepTail] at h
      obtain ⟨m', _, h2⟩ := bind_ok h
      split at h2
      · simp [throw_eq, bind, Except.bind] at h2
      · simp only [bind, Except.bind, pure, Except.pure] at h2
        cases h2
        exact Or.inr (Or.inr ⟨m', rfl, rfl⟩)
    | stmt s =>
      simp only [stepTail, pure, Except.pure] at h
      cases h
      exact Or.inr (Or.inl ⟨s, rfl, rfl⟩)
    | case => simp [stepTail, throw_eq] at h
  unfold busy at hb ⊢
  rcases key with ⟨h1, h2⟩ | ⟨s, h1, h2⟩ | ⟨m, h1, h2⟩
  · rw [h1, h2]; exact hb
  · rw [h1, h2]; rcases hb with hb | hb
    · exact Or.inl (by simp)
    · exact Or.inr hb
  · rw [h1, h2]; rcases hb with hb | hb
    · exact Or.inl hb
    · exact Or.inr (by simp)

theorem gtop_cmd {e : BSx} (h : GTop e) : ∃ cmd args, e = .list (.str cmd :: args) ∧
    (cmd = "gate" ∨ cmd = "sequential_block" ∨ cmd = "parallel_block" ∨ cmd = "subcircuit_block" ∨ cmd = "loop" ∨
      cmd = "macro" ∨ cmd = "branch") := by
  cases h with
  | stmt hs =>
    cases hs with
    | gate _ => exact ⟨_, _, rfl, Or.inl rfl⟩
    | parB _ => exact ⟨_, _, rfl, Or.inr (Or.inr (Or.inl rfl))⟩
    | loopSeq _ _ => exact ⟨_, _, rfl, Or.inr (Or.inr (Or.inr (Or.inr (Or.inl rfl))))⟩
    | loopPar _ _ => exact ⟨_, _, rfl, Or.inr (Or.inr (Or.inr (Or.inr (Or.inl rfl))))⟩
    | sub _ _ => exact ⟨_, _, rfl, Or.inr (Or.inr (Or.inr (Or.inl rfl)))⟩
  | seqB _ => exact ⟨_, _, rfl, Or.inr (Or.inl rfl)⟩
  | macroDef _ => exact ⟨_, _, rfl, Or.inr (Or.inr (Or.inr (Or.inr (Or.inr (Or.inl rfl)))))⟩
  | branch => exact ⟨_, _, rfl, Or.inr (Or.inr (Or.inr (Or.inr (Or.inr (Or.inr rfl)))))⟩

/-- a successful step on a macro definition or a statement records it -/
theorem step_top_busy {cfg : Config} {mode : KeyMode} {inject : Option (List (String × GateDef))} {F : Nat}
    {acc a1 : Acc} {e : BSx} (hg : GTop e) (h : circuitStep cfg mode inject F acc e = .ok a1) : busy a1 := by
  unfold circuitStep at h
  obtain ⟨⟨o, st⟩, hb, ht⟩ := bind_ok h
  obtain ⟨cmd, args, rfl, hcmd⟩ := gtop_cmd hg
  cases o with
  | usepulses n =>
    have h1 := buildAny_usepulses hb
    have h2 := gtop_notUse hg
    simp [notUse, h1] at h2
  | val v =>
    exfalso
    cases F with
    | zero => simp [buildAny, throw_eq] at hb
    | succ f =>
      rw [buildAny_list] at hb
      obtain ⟨cmd', args', hl, c1, c2, c3, c4, c5, c6⟩ := anyStep_val_cmd hb
      cases hl
      rcases hcmd with rfl | rfl | rfl | rfl | rfl | rfl | rfl
      · exact c1 rfl
      · exact c2 rfl
      · exact c3 rfl
      · exact c4 rfl
      · exact c5 rfl
      · exact c6 rfl
      · rw [← buildAny_list] at hb
        exact branch_fails _ _ _ _ _ _ _ hb
  | «macro» m =>
    simp only [stepTail] at ht
    obtain ⟨m', _, h2⟩ := bind_ok ht
    split at h2
    · simp [throw_eq, bind, Except.bind] at h2
    · simp only [bind, Except.bind, pure, Except.pure] at h2
      cases h2
      exact Or.inr (by simp)
  | stmt s =>
    simp only [stepTail, pure, Except.pure] at ht
    cases ht
    exact Or.inl (by simp)
  | case => simp [stepTail, throw_eq] at ht

/-- a child headed `usepulses` is built to a `usepulses` statement -/
theorem buildAny_usepulses_obj {cfg : Config} {mode : KeyMode} {F : Nat} {ctx : Ctx} {x : BSx} {st s1 : St} {o : Obj}
    (hc : headCmd x = some "usepulses") (h : buildAny cfg mode F ctx x st = .ok (o, s1)) : ∃ n, o = .usepulses n := by
  cases x with
  | list l =>
    cases F with
    | zero => simp [buildAny, throw_eq] at h
    | succ f =>
      rw [buildAny_list] at h
      cases l with
      | nil => simp [headCmd] at hc
      | cons y ys =>
        cases y <;> simp [headCmd] at hc
        subst hc
        simp only [anyStep, show ("usepulses" = "gate") = False from by decide, if_false,
          show ("usepulses" = "sequential_block" ∨ "usepulses" = "block") = False from by decide,
          show ("usepulses" = "parallel_block") = False from by decide,
          show ("usepulses" = "unscheduled_block") = False from by decide,
          show ("usepulses" = "subcircuit_block") = False from by decide,
          show ("usepulses" = "loop") = False from by decide,
          show ("usepulses" = "case") = False from by decide,
          show ("usepulses" = "branch") = False from by decide,
          show ("usepulses" = "macro") = False from by decide, if_true] at h
        split at h
        · split at h
          · simp [throw_eq, bind, Except.bind] at h
          · split at h
            · cases h; exact ⟨_, rfl⟩
            · simp [throw_eq] at h
        · simp [throw_eq] at h
  | _ => simp [headCmd] at hc

/-- with autoload on, once a statement or a macro has been recorded no `usepulses` is accepted any more -/
theorem busy_rest_notUse {cfg : Config} (ha : cfg.autoload = true) {inject : Option (List (String × GateDef))} {F : Nat} :
    ∀ (cs : List BSx) (acc accF : Acc), busy acc → circuitLoop cfg .off inject F acc cs = .ok accF →
      ∀ e ∈ cs, notUse e = true
  | [], _, _, _, _ => fun e he => by cases he
  | x :: cs, acc, accF, hb, hl => by
    simp only [circuitLoop] at hl
    obtain ⟨a1, hstep, hrest⟩ := bind_ok hl
    unfold circuitStep at hstep
    obtain ⟨⟨o, st⟩, hbuild, ht⟩ := bind_ok hstep
    have hb1 : busy a1 := stepTail_busy ht hb
    have hx : notUse x = true := by
      cases hu : notUse x with
      | true => rfl
      | false =>
        exfalso
        have hc : headCmd x = some "usepulses" := by simpa [notUse] using hu
        obtain ⟨n, rfl⟩ := buildAny_usepulses_obj hc hbuild
        rcases stepTail_usepulses_ok ht with ⟨hf, _⟩ | ⟨_, hem, _⟩
        · rw [ha] at hf; cases hf
        · obtain ⟨h1, h2⟩ := hem (by decide)
          rcases hb with hb | hb
          · exact hb h1
          · exact hb h2
    intro e he
    rcases List.mem_cons.1 he with rfl | he
    · exact hx
    · exact busy_rest_notUse ha cs a1 accF hb1 hrest e he

/-- `auto_to_plain` needs of the children after the header statements only that none is a `usepulses` -/
theorem auto_to_plain_notUse {cfg : Config} (ha : cfg.autoload = true) {inject : Option (List (String × GateDef))}
    (hnat : NatOK (inject.getD [])) {F : Nat} {hs bs : List BSx} {accF : Acc}
    (hh : ∀ e ∈ hs, GHeader e) (hb : ∀ e ∈ bs, notUse e = true)
    (hl : circuitLoop cfg .off inject F (acc0 inject) (hs ++ bs) = .ok accF) :
    circuitLoop (plain cfg) .off (some accF.natives) F (acc0 (some accF.natives)) (hs ++ bs) = .ok accF ∧
      NatOK accF.natives ∧ importAll cfg inject accF.usepulses (inject.getD []) = some accF.natives := by
  rw [circuitLoop_append] at hl
  obtain ⟨accH, hH, hB⟩ := bind_ok hl
  have hinvH : HInv accH :=
    circuitLoop_header hs (acc0 inject) accH (hinv_acc0 hnat) (fun c hc => gheader_headerChild (hh c hc)) hH
  obtain ⟨hB', hu, hn⟩ := loop_congr (cfg' := plain cfg) (inject' := some accF.natives) (plain_anon ha) bs accH accF hb hB
  obtain ⟨hH', ms, hms, himp⟩ := header_fwd (inj' := some accF.natives) ha accF.natives hs (acc0 inject) accH hh hH
  have htw : twin accH accF.natives = accH := by rw [hn]; exact twin_self hinvH
  rw [htw] at hH'
  refine ⟨?_, by rw [hn]; exact hinvH.nat, ?_⟩
  · rw [circuitLoop_append]
    have : twin (acc0 inject) accF.natives = acc0 (some accF.natives) := rfl
    rw [← this, hH']
    exact hB'
  · rw [hu, hn, hms]
    exact himp

theorem dropWhile_head_false {α} {p : α → Bool} : ∀ {l : List α} {x : α} {rest : List α},
    l.dropWhile p = x :: rest → p x = false
  | [], _, _, h => by simp at h
  | y :: ys, x, rest, h => by
    simp only [List.dropWhile_cons] at h
    split at h
    · exact dropWhile_head_false h
    · rename_i hy
      cases h
      simpa using hy

theorem gtop_not_headerChild {e : BSx} (h : GTop e) : headerChild e = false := by
  obtain ⟨cmd, args, rfl, hcmd⟩ := gtop_cmd h
  rcases hcmd with rfl | rfl | rfl | rfl | rfl | rfl | rfl <;> rfl

/-- **`auto_to_plain` for children in any order.**  If the autoload builder accepts the children `cs` of a program — header
statements, macro definitions and statements in ANY order — then the header statements before the first macro or
statement are followed by no `usepulses`, and the plain builder started from the final native table accepts the same
children and accumulates the same result. -/
theorem auto_to_plain_any {cfg : Config} (ha : cfg.autoload = true) {inject : Option (List (String × GateDef))}
    (hnat : NatOK (inject.getD [])) {F : Nat} {cs : List BSx} {accF : Acc}
    (hcs : ∀ e ∈ cs, RoundTrip.GChild e)
    (hl : circuitLoop cfg .off inject F (acc0 inject) cs = .ok accF) :
    circuitLoop (plain cfg) .off (some accF.natives) F (acc0 (some accF.natives)) cs = .ok accF ∧
      NatOK accF.natives ∧ importAll cfg inject accF.usepulses (inject.getD []) = some accF.natives := by
  have hsplit : cs = cs.takeWhile headerChild ++ cs.dropWhile headerChild := (List.takeWhile_append_dropWhile).symm
  have hh : ∀ e ∈ cs.takeWhile headerChild, GHeader e := by
    intro e he
    have h1 : headerChild e = true := mem_takeWhile_p he
    have hm : e ∈ cs := by rw [hsplit]; exact List.mem_append_left _ he
    rcases hcs e hm with hg | hg
    · exact hg
    · rw [gtop_not_headerChild hg] at h1; cases h1
  have hb : ∀ e ∈ cs.dropWhile headerChild, notUse e = true := by
    cases hd : cs.dropWhile headerChild with
    | nil => intro e he; cases he
    | cons x rest =>
      have hxm : x ∈ cs := mem_of_dropWhile (p := headerChild) (by rw [hd]; simp)
      have hxh : headerChild x = false := dropWhile_head_false hd
      have hxt : GTop x := by
        rcases hcs x hxm with hg | hg
        · rw [gheader_headerChild hg] at hxh; cases hxh
        · exact hg
      rw [hsplit, hd, circuitLoop_append] at hl
      obtain ⟨accH, _, hB⟩ := bind_ok hl
      simp only [circuitLoop] at hB
      obtain ⟨a1, hstep, hrest⟩ := bind_ok hB
      have hbusy := step_top_busy hxt hstep
      intro e he
      rcases List.mem_cons.1 he with rfl | he
      · exact gtop_notUse hxt
      · exact busy_rest_notUse ha rest a1 accF hbusy hrest e he
  rw [hsplit] at hl ⊢
  exact auto_to_plain_notUse ha hnat hh hb hl

/-! ### the `buildNoMemo_…_any` theorems for children in any order -/

/-- `built_plain` for children in any order -/
theorem built_plain_sx (cfg : Config) {cs : List BSx} {c : Circuit} (hcs : ∀ e ∈ cs, RoundTrip.GChild e)
    (h : buildNoMemo cfg (.list (.str "circuit" :: cs)) = .ok c) :
    ∃ (cfg' : Config) (inj' : Option (List (String × GateDef))) (accF : Acc), cfg'.autoload = false ∧
      NatOK (inj'.getD []) ∧
      circuitLoop cfg' .off inj' ((BSx.list (.str "circuit" :: cs)).depth + 1) (acc0 inj') cs = .ok accF ∧
      accF.toCircuit = c := by
  unfold buildNoMemo buildWith at h
  obtain ⟨inject, hinj, h1⟩ := bind_ok h
  simp only [buildCore] at h1
  obtain ⟨accF, hloop, h2⟩ := bind_ok h1
  simp only [pure, Except.pure, Except.ok.injEq] at h2
  have hnat := inject_natOK hinj
  cases ha : cfg.autoload with
  | false => exact ⟨cfg, inject, accF, ha, hnat, hloop, h2⟩
  | true =>
    obtain ⟨hP, hN, _⟩ := auto_to_plain_any ha hnat hcs hloop
    exact ⟨plain cfg, some accF.natives, accF, rfl, hN, hP, h2⟩

theorem buildNoMemo_facts_sx (cfg : Config) {cs : List BSx} {c : Circuit}
    (hcs : ∀ e ∈ cs, RoundTrip.GChild e ∧ noBr e = true)
    (h : buildNoMemo cfg (.list (.str "circuit" :: cs)) = .ok c) : BuiltFacts c := by
  obtain ⟨cfg', inj', accF, ha', hnat, hloop, rfl⟩ := built_plain_sx cfg (fun e he => (hcs e he).1) h
  exact builtFacts_of_topInv (loop_inv ha' _ (acc0 inj') accF (topInv_acc0_nat cfg' hnat) hcs hloop)

theorem buildNoMemo_safe_sx (cfg : Config) {Pm P : String → Prop} {R : Dec → Prop} {cs : List BSx} {c : Circuit}
    (hcs : ∀ e ∈ cs, SChild Pm P R e ∧ noBr e = true)
    (h : buildNoMemo cfg (.list (.str "circuit" :: cs)) = .ok c) : SafeCircuit Pm P R c := by
  obtain ⟨cfg', inj', accF, ha', hnat, hloop, rfl⟩ := built_plain_sx cfg (fun e he => (hcs e he).1.toG) h
  have h0 : SafeAcc Pm P R (acc0 inj') := by
    refine ⟨?_, ?_, ?_, ?_, ?_, ?_⟩
    · intro n v hg; simp [Ctx.get, acc0] at hg
    all_goals (intro v hv; simp [acc0] at hv)
  have hF := safe_loop ha' _ (acc0 inj') accF (topInv_acc0_nat cfg' hnat) h0 hcs hloop
  refine ⟨hF.consts, hF.regs, hF.macros, ?_, ?_⟩
  · intro s hs
    exact hF.stmts s (by simpa [Acc.toCircuit, Stmt.stmts] using hs)
  · intro u hu
    simp only [Acc.toCircuit, List.mem_map] at hu
    obtain ⟨n, hn, rfl⟩ := hu
    exact hF.mods n hn

theorem canonical_of_built_sx (cfg : Config) {cs : List BSx} {c : Circuit}
    (hcs : ∀ e ∈ cs, RoundTrip.GChild e ∧ noBr e = true)
    (h : buildNoMemo cfg (.list (.str "circuit" :: cs)) = .ok c)
    (h1 : (c.registers.filter isFundamental).length ≤ 1) : Canonical (canon cs) := by
  obtain ⟨cfg', inj', accF, ha', hnat, hloop, rfl⟩ := built_plain_sx cfg (fun e he => (hcs e he).1) h
  have hR := regInv_loop ha' cs [] (acc0 inj') accF (topInv_acc0_nat cfg' hnat) (regInv_acc0 inj') hcs hloop
  simp only [List.nil_append] at hR
  exact canon_canonical (ranks2_sorted_of hR h1)

/-- **Layer C for every configuration and children in any order** -/
theorem buildNoMemo_rebuild_sx (cfg : Config) {cs : List BSx} {c : Circuit}
    (hcs : ∀ e ∈ cs, RoundTrip.GChild e ∧ noBr e = true)
    (h : buildNoMemo cfg (.list (.str "circuit" :: cs)) = .ok c)
    (h1 : (c.registers.filter isFundamental).length ≤ 1) : buildNoMemo cfg (BSx.ofSx (unbuild c)) = .ok c := by
  have hcs' : ∀ e ∈ canon cs, RoundTrip.GChild e ∧ noBr e = true := fun e hm => hcs e ((canon_perm _).mem_iff.1 hm)
  cases ha : cfg.autoload with
  | false =>
    exact (buildNoMemo_rebuild ha hcs' (canonical_of_built ha hcs h h1) (buildNoMemo_reorder ha hcs h)).1
  | true =>
    have hcan := canonical_of_built_sx cfg hcs h h1
    unfold buildNoMemo buildWith at h ⊢
    obtain ⟨inject, hinj, h2⟩ := bind_ok h
    simp only [buildCore] at h2
    obtain ⟨accF, hloop, h3⟩ := bind_ok h2
    simp only [pure, Except.pure, Except.ok.injEq] at h3
    subst h3
    have hnat := inject_natOK hinj
    obtain ⟨hP, hN, hI⟩ := auto_to_plain_any ha hnat (fun e he => (hcs e he).1) hloop
    have hi0 := topInv_acc0_nat (plain cfg) (inject := some accF.natives) hN
    have hp := plain_autoload cfg
    obtain ⟨r', hloop', he, _⟩ :=
      reorder_loop hp (acc0 (some accF.natives)) hi0 (rinv_acc0 _) cs accF hcs hP
    have hr0 : RankInv (acc0 (some accF.natives)) 0 :=
      ⟨fun _ => rfl, fun _ => rfl, fun _ => rfl, fun _ => rfl, fun _ => rfl⟩
    obtain ⟨hiF, es, hW, hreb⟩ := loop_rebuild hp (canon cs) (acc0 (some accF.natives)) r' 0 hi0 hr0 hcs'
      (List.pairwise_cons.2 ⟨fun _ _ => Nat.zero_le _, hcan⟩) hloop'
    have hW0 : W (acc0 (some accF.natives)) = [] := by simp [W, acc0]
    rw [hW0, List.nil_append] at hW
    subst hW
    have hplain := hreb ((BSx.list (BSx.str "circuit" :: BSx.ofSxList (W r'))).depth + 1)
      (by simp only [BSx.depth, BSx.depthList]; omega)
    rw [ofSxList_W] at hplain
    have hI' : importAll cfg inject r'.usepulses (inject.getD []) = some accF.natives := by
      rw [← he.usepulses]; exact hI
    have hauto := plain_to_auto ha hnat (notUse_restW r') hI' hplain
    rw [← ofSxList_W] at hauto
    rw [hinj, he.toCircuit, unbuild_toCircuit]
    simp only [bind, Except.bind, BSx.ofSx, BSx.ofSxList, buildCore]
    simp only [acc0] at hauto
    rw [hauto]
    rfl
