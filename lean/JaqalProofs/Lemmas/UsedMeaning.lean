import JaqalProofs.Props.C13Exact
import JaqalProofs.Lemmas.RunMeaning
/-!
# The disjointness check read off the MEANING of a program (C13, end to end)

Specification side (no reference to the library's visitor):

* `argQubits`, `usedArgQubits`, `defQubits`, `appQubits` — the fundamental qubits ONE gate application `(name, evaluated arguments)`
  acts on, read off the gate definition(s) of that name in a table `defs`: busy → every qubit of the registers (`allQ`),
  native → the qubit / register arguments at the positions whose parameter has kind qubit / register / untyped (`usedKind`),
  idle (and macro) → none.  `mem_appQubits`: this is `ActsOn` of `Props/C13.lean`.
* `semQubits defs allQ : Sem → List FQ` — all of them over a meaning tree.
* `SemPar` — some parallel block of the tree has two distinct branches whose `semQubits` intersect;
  `SemRepeat` — some gate application of the tree names one qubit at two different used positions (`CX q q`: what
  `checkDisjoint` refuses with the other JaqalError); `SemConflict` — either.

Library side, for a FLAT circuit (no macro call, typed closed arguments: what `expand_macros` returns of a parsed program) that has
a meaning:

* `flat_used_ok` — the plain used-qubit walk succeeds (every qubit reference the specification can evaluate resolves);
* `flat_acts_iff` — `Acts` (what the walk collects) is `semQubits` of the statement's meaning;
* `flat_conflict_iff`, `flat_repeat_iff` — `Conflict` / `Repeat` (`Lemmas/UsedQubits.lean`, over the library's resolution) are
  `SemPar` / `SemRepeat` of the meaning;
* `flat_checkDisjoint` — `C13_reject` restated on the meaning.

And the one syntactic fact about `expand_macros` missing so far: it invents no gate definition (`expandMacros_defs`).
-/
namespace Jaqal.UsedQubits
open Jaqal Jaqal.Resolve Jaqal.Sem

/-! ### Specification side -/

/-- the fundamental qubits an evaluated argument names -/
def argQubits : SArg → List FQ
  | .num _ => []
  | .qubit q => [q]
  | .reg qs => qs

/-- the qubits named at the used positions (parameter kind qubit / register / untyped) of an argument list -/
def usedArgQubits : List (String × Kind) → List SArg → List FQ
  | (_, k) :: ps, a :: as => (if usedKind k then argQubits a else []) ++ usedArgQubits ps as
  | _, _ => []

/-- what an application with the definition `gd` acts on: busy → all qubits, native → the used positions, idle → nothing -/
def defQubits (allQ : List FQ) (gd : GateDef) (args : List SArg) : List FQ :=
  match gd.tag with
  | .busy => allQ
  | .native => usedArgQubits gd.params args
  | _ => []

/-- what a gate application acts on, read off the definition(s) of its name in `defs` -/
def appQubits (defs : List GateDef) (allQ : List FQ) (app : GateApp) : List FQ :=
  (defs.filter (fun gd => gd.name == app.1)).flatMap (fun gd => defQubits allQ gd app.2)

mutual
  /-- **all fundamental qubits of the gate applications of a meaning tree** -/
  def semQubits (defs : List GateDef) (allQ : List FQ) : Sem → List FQ
    | .gate n a => appQubits defs allQ (n, a)
    | .blk _ _ _ body => semQubitsList defs allQ body
    | .loop _ b => semQubits defs allQ b
  def semQubitsList (defs : List GateDef) (allQ : List FQ) : List Sem → List FQ
    | [] => []
    | x :: r => semQubits defs allQ x ++ semQubitsList defs allQ r
end

/-- **some parallel block of the tree has two distinct branches acting on a common qubit** -/
inductive SemPar (defs : List GateDef) (allQ : List FQ) : Sem → Prop
  | here {sub it body} {j k : Nat} {x y q} : j < k → body[j]? = some x → body[k]? = some y →
      q ∈ semQubits defs allQ x → q ∈ semQubits defs allQ y → SemPar defs allQ (.blk true sub it body)
  | blk {par sub it body x} : x ∈ body → SemPar defs allQ x → SemPar defs allQ (.blk par sub it body)
  | loop {n b} : SemPar defs allQ b → SemPar defs allQ (.loop n b)

/-- one gate application names one qubit at two different used positions of its (native) definition -/
def AppRepeat (defs : List GateDef) (app : GateApp) : Prop :=
  ∃ gd ∈ defs, gd.name = app.1 ∧ gd.tag = .native ∧
    ∃ (j k : Nat) (p1 p2 : String × Kind) (a1 a2 : SArg) (q : FQ), j ≠ k ∧
      gd.params[j]? = some p1 ∧ gd.params[k]? = some p2 ∧ usedKind p1.2 = true ∧ usedKind p2.2 = true ∧
      app.2[j]? = some a1 ∧ app.2[k]? = some a2 ∧ q ∈ argQubits a1 ∧ q ∈ argQubits a2

/-- **some gate application of the tree names one qubit twice** -/
inductive SemRepeat (defs : List GateDef) : Sem → Prop
  | gate {n a} : AppRepeat defs (n, a) → SemRepeat defs (.gate n a)
  | blk {par sub it body x} : x ∈ body → SemRepeat defs x → SemRepeat defs (.blk par sub it body)
  | loop {n b} : SemRepeat defs b → SemRepeat defs (.loop n b)

/-- **what the disjointness check refuses, said of the meaning** -/
def SemConflict (defs : List GateDef) (allQ : List FQ) (m : Sem) : Prop := SemPar defs allQ m ∨ SemRepeat defs m

/-- a used-qubit dictionary as a list of fundamental qubits -/
def fqOf (u : Used) : List FQ := u.flatMap (fun kv => kv.2.map (fun i => (kv.1, i)))

theorem mem_fqOf (u : Used) (h : KeysNodup u) (r : String) (i : Int) : (r, i) ∈ fqOf u ↔ Mem u r i := by
  rw [Mem_iff_entry u h]
  simp only [fqOf, List.mem_flatMap, List.mem_map, Prod.mk.injEq]
  constructor
  · rintro ⟨⟨k, l⟩, hkl, i', hi', rfl, rfl⟩
    exact ⟨l, hkl, hi'⟩
  · rintro ⟨l, hl, hi⟩
    exact ⟨(r, l), hl, i, hi, rfl, rfl⟩

theorem mem_argQubits (sa : SArg) (r : String) (i : Int) : (r, i) ∈ argQubits sa ↔ Has sa r i := by
  cases sa with
  | num x => simp [argQubits, Has]
  | qubit q => simp only [argQubits, Has, List.mem_singleton]
  | reg qs => simp only [argQubits, Has]

theorem mem_usedArgQubits : ∀ (ps : List (String × Kind)) (as : List SArg) (q : FQ),
    q ∈ usedArgQubits ps as ↔ ∃ (j : Nat) (p : String × Kind) (sa : SArg), ps[j]? = some p ∧ usedKind p.2 = true ∧
      as[j]? = some sa ∧ q ∈ argQubits sa
  | [], as, q => by simp [usedArgQubits]
  | (_, _) :: _, [], q => by simp [usedArgQubits]
  | (n, k) :: ps, a :: as, q => by
    simp only [usedArgQubits, List.mem_append, mem_usedArgQubits ps as q]
    constructor
    · rintro (h | ⟨j, p, sa, h1, h2, h3, h4⟩)
      · by_cases hk : usedKind k = true
        · simp only [hk, if_true] at h
          exact ⟨0, (n, k), a, rfl, hk, rfl, h⟩
        · simp [hk] at h
      · exact ⟨j + 1, p, sa, by simpa using h1, h2, by simpa using h3, h4⟩
    · rintro ⟨j, p, sa, h1, h2, h3, h4⟩
      cases j with
      | zero =>
        simp only [List.getElem?_cons_zero, Option.some.injEq] at h1 h3
        subst h1 h3
        left
        simp only at h2
        simp [h2, h4]
      | succ j =>
        right
        exact ⟨j, p, sa, by simpa using h1, h2, by simpa using h3, h4⟩

/-- `appQubits` is `ActsOn` (`Props/C13.lean`) -/
theorem mem_appQubits (defs : List GateDef) (allQ : Used) (hq : KeysNodup allQ) (app : GateApp) (r : String) (i : Int) :
    (r, i) ∈ appQubits defs (fqOf allQ) app ↔ ActsOn defs allQ app r i := by
  simp only [appQubits, List.mem_flatMap, List.mem_filter, beq_iff_eq, ActsOn]
  constructor
  · rintro ⟨gd, ⟨hgd, hn⟩, hm⟩
    refine ⟨gd, hgd, hn, ?_⟩
    unfold defQubits at hm
    cases ht : gd.tag with
    | busy => rw [ht] at hm; exact Or.inl ⟨rfl, (mem_fqOf allQ hq r i).1 hm⟩
    | native =>
      rw [ht] at hm
      obtain ⟨j, p, sa, h1, h2, h3, h4⟩ := (mem_usedArgQubits _ _ _).1 hm
      refine Or.inr ⟨rfl, j, p, h1, h2, ?_⟩
      rcases (has_iff sa r i).1 ((mem_argQubits sa r i).1 h4) with rfl | ⟨qs, rfl, hqs⟩
      · exact Or.inl h3
      · exact Or.inr ⟨qs, h3, hqs⟩
    | idle => rw [ht] at hm; cases hm
    | «macro» => rw [ht] at hm; cases hm
  · rintro ⟨gd, hgd, hn, hc⟩
    refine ⟨gd, ⟨hgd, hn⟩, ?_⟩
    unfold defQubits
    rcases hc with ⟨ht, hm⟩ | ⟨ht, j, p, h1, h2, h3⟩
    · rw [ht]; exact (mem_fqOf allQ hq r i).2 hm
    · rw [ht]
      refine (mem_usedArgQubits _ _ _).2 ?_
      rcases h3 with h3 | ⟨qs, h3, hqs⟩
      · exact ⟨j, p, _, h1, h2, h3, by simp [argQubits]⟩
      · exact ⟨j, p, _, h1, h2, h3, by simpa [argQubits] using hqs⟩

mutual
  theorem mem_semQubits (defs : List GateDef) (allQ : List FQ) (q : FQ) : ∀ (m : Sem),
      q ∈ semQubits defs allQ m ↔ ∃ app ∈ m.flat, q ∈ appQubits defs allQ app
    | .gate n a => by simp [semQubits, Sem.flat]
    | .blk _ _ _ body => by simp only [semQubits, Sem.flat]; exact mem_semQubitsList defs allQ q body
    | .loop _ b => by simp only [semQubits, Sem.flat]; exact mem_semQubits defs allQ q b
  theorem mem_semQubitsList (defs : List GateDef) (allQ : List FQ) (q : FQ) : ∀ (l : List Sem),
      q ∈ semQubitsList defs allQ l ↔ ∃ app ∈ flatList l, q ∈ appQubits defs allQ app
    | [] => by simp [semQubitsList, flatList]
    | x :: r => by
      simp only [semQubitsList, flatList, List.mem_append, mem_semQubits defs allQ q x, mem_semQubitsList defs allQ q r]
      constructor
      · rintro (⟨a, h1, h2⟩ | ⟨a, h1, h2⟩)
        · exact ⟨a, Or.inl h1, h2⟩
        · exact ⟨a, Or.inr h1, h2⟩
      · rintro ⟨a, h1 | h1, h2⟩
        · exact Or.inl ⟨a, h1, h2⟩
        · exact Or.inr ⟨a, h1, h2⟩
end


/-! ### Library side: flat circuits with a meaning -/

open Jaqal.Builder Jaqal.FillIn in
theorem stmt_ind {P : Stmt → Prop} (hg : ∀ n gd a, P (.gate n gd a))
    (hb : ∀ par sub it body, (∀ s ∈ body, P s) → P (.block par sub it body))
    (hl : ∀ c b, P b → P (.loop c b)) : ∀ s, P s := by
  intro s
  induction s using Stmt.rec (motive_2 := fun l => ∀ s ∈ l, P s) with
  | gate n gd a => exact hg n gd a
  | block par sub it body ih => exact hb par sub it body ih
  | loop c b ih => exact hl c b ih
  | nil => rename_i hs; cases hs
  | cons x xs ihx ihxs =>
    rename_i s hs
    rcases List.mem_cons.1 hs with rfl | hs
    · exact ihx
    · exact ihxs s hs

/-- `evalStmts` is position by position -/
theorem evalStmts_idx {ρ : Env} {md : MacroDen} {b : Bind} : ∀ {l : List Stmt} {xs : List Sem},
    evalStmts ρ md b l = .ok xs → ∀ (j : Nat),
      (∀ s, l[j]? = some s → ∃ x, xs[j]? = some x ∧ evalStmt ρ md b s = .ok x) ∧
      (∀ x, xs[j]? = some x → ∃ s, l[j]? = some s ∧ evalStmt ρ md b s = .ok x) := by
  intro l
  induction l with
  | nil =>
    intro xs h j
    simp only [evalStmts, pure, Except.pure, Except.ok.injEq] at h; subst h
    simp
  | cons s r ih =>
    intro xs h j
    simp only [evalStmts] at h
    obtain ⟨y, hy, h⟩ := Builder.bind_ok h
    obtain ⟨ys, hys, h⟩ := Builder.bind_ok h
    simp only [pure, Except.pure, Except.ok.injEq] at h; subst h
    cases j with
    | zero =>
      simp only [List.getElem?_cons_zero, Option.some.injEq]
      exact ⟨fun s' hs' => ⟨y, rfl, hs' ▸ hy⟩, fun x hx => ⟨s, rfl, hx ▸ hy⟩⟩
    | succ j =>
      simp only [List.getElem?_cons_succ]
      exact ih hys j

/-- a gate statement of a circuit without macros means the application of its name to its evaluated arguments -/
theorem flat_gate_sem {n : String} {gd : GateDef} {a : List (String × Val)} {sem : Sem}
    (he : evalStmt [] [] [] (.gate n gd a) = .ok sem) : ∃ vs, ExpandMacros.evalArgs [] [] a = .ok vs ∧ sem = .gate n vs := by
  obtain ⟨vs, hvs, hg⟩ := ExpandMacros.evalStmt_gate_inv he
  refine ⟨vs, hvs, ?_⟩
  have hl : Sem.lookup ([] : MacroDen) n = none := by simp [Sem.lookup]
  simp only [ExpandMacros.gateSem, hl, pure, Except.pure, Except.ok.injEq] at hg
  exact hg.symm

theorem evalArgs_mem {args : List (String × Val)} {vs : List SArg} (h : ExpandMacros.evalArgs [] [] args = .ok vs) :
    ∀ a ∈ args, ∃ sa, evalArg [] [] a.2 = .ok sa := by
  intro a ha
  obtain ⟨j, hj, hja⟩ := List.getElem_of_mem ha
  obtain ⟨sa, _, hsa⟩ := evalArgs_getElem h j a (by rw [List.getElem?_eq_getElem hj, hja])
  exact ⟨sa, hsa⟩

/-! #### the plain walk succeeds -/

theorem lookup_mem' {args : List (String × Val)} {p : String} {a : Val} (h : args.lookup p = some a) : (p, a) ∈ args := by
  induction args with
  | nil => cases h
  | cons x xs ih =>
    obtain ⟨k, w⟩ := x
    simp only [List.lookup] at h
    split at h
    · rename_i heq
      cases h
      have : p = k := by simpa using heq
      subst this; exact List.mem_cons_self
    · exact List.mem_cons_of_mem _ (ih h)

theorem visitRegLoop_ok (r : Val) : ∀ (n : Nat) (acc : Used) (i : Nat),
    (∀ j : Nat, i ≤ j → j < i + n → ∃ q, resolveReg [] r (j : Int) = .ok q) → ∃ u, visitRegLoop [] r acc (i : Int) n = .ok u
  | 0, acc, i, _ => ⟨acc, rfl⟩
  | n + 1, acc, i, h => by
    obtain ⟨q, hq⟩ := h i (Nat.le_refl _) (by omega)
    have hc : ((i : Int) + 1) = ((i + 1 : Nat) : Int) := by push_cast; rfl
    obtain ⟨u, hu⟩ := visitRegLoop_ok r n (addIdx acc q) (i + 1) (fun j h1 h2 => h j (by omega) (by omega))
    exact ⟨u, by simp only [visitRegLoop, hq, bind, Except.bind, hc, hu]⟩

open Jaqal.Builder Jaqal.FillIn in
theorem visitRegister_ok {v : Val} {qs : List FQ} (ht : RegT v = true) (h : evalReg [] [] v = .ok qs) :
    ∃ u, visitRegister [] v = .ok u := by
  have hv := validChain_of_eval v qs ht h
  obtain ⟨K, hK, hK0⟩ := validChain_sizeI hv
  obtain ⟨l, hl, hlen, hin, _⟩ := chain_spec hv hK
  obtain ⟨sz, h1, h2⟩ := resolveSize_valid' hv hK
  have h3 := pyInt_intOf h2
  obtain ⟨u, hu⟩ := visitRegLoop_ok v K.toNat [] 0 (fun j _ hj => by
    obtain ⟨q, _, hr⟩ := hin (j : Int) (by omega) (by omega)
    exact ⟨q, hr⟩)
  refine ⟨u, ?_⟩
  simp only [visitRegister, h1 [], h3, bind, Except.bind]
  simpa using hu

open Jaqal.Builder Jaqal.FillIn in
/-- a typed closed argument the specification evaluates is visited without error -/
theorem visitVal_ok_of_eval {a : Val} {sa : SArg} (ht : RunModel.argT a = true) (he : evalArg [] [] a = .ok sa) :
    ∃ ua, visitVal [] (valFuel []) a = .ok ua := by
  cases a with
  | int k => exact ⟨[], rfl⟩
  | flt d => exact ⟨[], rfl⟩
  | qubit nm s i =>
    simp only [RunModel.argT, Bool.and_eq_true] at ht
    simp only [evalArg] at he
    obtain ⟨q, hq, _⟩ := Builder.bind_ok he
    have := (qubit_agree ctxRel_nil (RunModel.goodSrc_of_RegT ht.1) (RunModel.goodIdx_of_intC ht.2) hq).1
    refine ⟨[(q.1, [q.2])], ?_⟩
    show visitVal [] 1 (.qubit nm s i) = _
    simp only [visitVal, this, bind, Except.bind, pure, Except.pure]
  | regF n sz =>
    have hT : RegT (.regF n sz) = true := by simpa [RunModel.argT] using ht
    simp only [evalArg] at he
    obtain ⟨qs, hqs, _⟩ := Builder.bind_ok he
    exact visitRegister_ok hT hqs
  | regA n src =>
    have hT : RegT (.regA n src) = true := by simpa [RunModel.argT] using ht
    simp only [evalArg] at he
    obtain ⟨qs, hqs, _⟩ := Builder.bind_ok he
    exact visitRegister_ok hT hqs
  | regS n src x y z =>
    have hT : RegT (.regS n src x y z) = true := by simpa [RunModel.argT] using ht
    simp only [evalArg] at he
    obtain ⟨qs, hqs, _⟩ := Builder.bind_ok he
    exact visitRegister_ok hT hqs
  | const _ _ => simp [RunModel.argT, RegT] at ht
  | param _ _ => simp [RunModel.argT, RegT] at ht
  | none => simp [RunModel.argT, RegT] at ht
  | str _ => simp [RunModel.argT, RegT] at ht

theorem visitUsedParams_false_ok (args : List (String × Val)) : ∀ (ps : List String) (acc : Used),
    (∀ p ∈ ps, ∃ a ua, args.lookup p = some a ∧ visitVal [] (valFuel []) a = .ok ua) →
    ∃ u, visitUsedParams false [] args acc ps = .ok u
  | [], acc, _ => ⟨acc, rfl⟩
  | p :: rest, acc, h => by
    obtain ⟨a, ua, ha, hua⟩ := h p List.mem_cons_self
    obtain ⟨acc', hacc'⟩ := mergeInto_false_ok acc ua
    obtain ⟨u, hu⟩ := visitUsedParams_false_ok args rest acc' (fun q hq => h q (List.mem_cons_of_mem _ hq))
    refine ⟨u, ?_⟩
    simp only [visitUsedParams, ha, hua, bind, Except.bind, Bool.false_and, Bool.false_eq_true, if_false, hacc', hu]

theorem foldBlock_false_ok (visit : Stmt → M Used) : ∀ (body : List Stmt) (acc : Used),
    (∀ s ∈ body, ∃ u, visit s = .ok u) → ∃ u, foldBlock visit false acc body = .ok u
  | [], acc, _ => ⟨acc, rfl⟩
  | s :: rest, acc, h => by
    obtain ⟨us, hus⟩ := h s List.mem_cons_self
    obtain ⟨acc', hacc'⟩ := mergeInto_false_ok acc us
    obtain ⟨u, hu⟩ := foldBlock_false_ok visit rest acc' (fun t ht => h t (List.mem_cons_of_mem _ ht))
    exact ⟨u, by simp only [foldBlock, hus, hacc', hu, bind, Except.bind]⟩

/-- **the plain used-qubit walk of a flat typed statement that has a meaning succeeds** -/
theorem flat_used_ok (allQ : Used) (ms : List Macro) : ∀ (s : Stmt), RunModel.usedT s = true →
    ∀ sem, evalStmt [] [] [] s = .ok sem → ∀ fuel, stmtDepth s ≤ fuel → ∃ u, usedStmtF false allQ ms fuel [] s = .ok u := by
  intro s
  induction s using stmt_ind with
  | hg n gd args =>
    intro ht sem he fuel hf
    obtain ⟨vs, hvs, _⟩ := flat_gate_sem he
    simp only [RunModel.usedT, Bool.and_eq_true, List.all_eq_true, bne_iff_ne, ne_eq] at ht
    obtain ⟨⟨htag, hps⟩, hargs⟩ := ht
    cases fuel with
    | zero => simp [stmtDepth] at hf
    | succ f =>
      unfold usedStmtF
      cases htg : gd.tag with
      | «macro» => exact absurd htg htag
      | busy => exact mergeInto_false_ok [] allQ
      | idle => exact ⟨[], rfl⟩
      | native =>
        refine visitUsedParams_false_ok args _ [] (fun p hp => ?_)
        have h1 := hps p hp
        cases hl : args.lookup p with
        | none => rw [hl] at h1; cases h1
        | some a =>
          have hm := lookup_mem' hl
          obtain ⟨sa, hsa⟩ := evalArgs_mem hvs _ hm
          obtain ⟨ua, hua⟩ := visitVal_ok_of_eval (hargs _ hm) hsa
          exact ⟨a, ua, rfl, hua⟩
  | hb par sub it body ih =>
    intro ht sem he fuel hf
    simp only [RunModel.usedT] at ht
    simp only [Sem.evalStmt] at he
    obtain ⟨k, _, he⟩ := Builder.bind_ok he
    obtain ⟨xs, hxs, he⟩ := Builder.bind_ok he
    obtain ⟨e1, _⟩ := evalStmts_ok hxs
    cases fuel with
    | zero => simp [stmtDepth] at hf
    | succ f =>
      simp only [stmtDepth] at hf
      simp only [usedStmtF, Bool.false_and]
      refine foldBlock_false_ok _ body [] (fun s hs => ?_)
      obtain ⟨x, _, hx⟩ := e1 s hs
      exact ih s hs (RunModel.usedTList_mem ht s hs) x hx f (by have := RunModel.stmtsDepth_mem hs; omega)
  | hl c b ih =>
    intro ht sem he fuel hf
    simp only [RunModel.usedT] at ht
    simp only [Sem.evalStmt] at he
    obtain ⟨k, _, he⟩ := Builder.bind_ok he
    obtain ⟨x, hx, he⟩ := Builder.bind_ok he
    cases fuel with
    | zero => simp [stmtDepth] at hf
    | succ f =>
      simp only [stmtDepth] at hf
      simp only [usedStmtF]
      exact ih ht x hx f (by omega)


/-! #### what a flat statement must satisfy -/

/-- a statement of a flat circuit: no macro call and typed closed arguments (`usedT`), shaped after its definition (`wfStmt`),
its definitions in the table `D` -/
structure FlatS (D : List GateDef) (s : Stmt) : Prop where
  used : RunModel.usedT s = true
  wf : ExpandMacros.wfStmt [] s = true
  defs : ∀ g ∈ stmtGates s, g.2.1 ∈ D

theorem FlatS.mem {D : List GateDef} {par sub : Bool} {it : Val} {body : List Stmt} (h : FlatS D (.block par sub it body))
    {s : Stmt} (hs : s ∈ body) : FlatS D s := by
  obtain ⟨h1, h2, h3⟩ := h
  simp only [RunModel.usedT] at h1
  simp only [ExpandMacros.wfStmt, Bool.and_eq_true] at h2
  exact ⟨RunModel.usedTList_mem h1 s hs, wfStmtList_mem [] body h2.2 s hs,
    fun g hg => h3 g (by simp only [stmtGates]; exact (mem_stmtsGates body g).2 ⟨s, hs, hg⟩)⟩

theorem FlatS.loop {D : List GateDef} {c : Val} {b : Stmt} (h : FlatS D (.loop c b)) : FlatS D b := by
  obtain ⟨h1, h2, h3⟩ := h
  simp only [RunModel.usedT] at h1
  simp only [ExpandMacros.wfStmt, Bool.and_eq_true] at h2
  exact ⟨h1, h2.2, fun g hg => h3 g (by simpa only [stmtGates] using hg)⟩

theorem usedT_stmtGates : ∀ (s : Stmt), RunModel.usedT s = true → ∀ x ∈ stmtGates s,
    x.2.1.tag ≠ .macro ∧ ∀ a ∈ x.2.2, RunModel.argT a.2 = true := by
  intro s
  induction s using stmt_ind with
  | hg n gd args =>
    intro ht x hx
    simp only [stmtGates, List.mem_singleton] at hx
    subst hx
    simp only [RunModel.usedT, Bool.and_eq_true, List.all_eq_true, bne_iff_ne, ne_eq] at ht
    exact ⟨ht.1.1, ht.2⟩
  | hb par sub it body ih =>
    intro ht x hx
    simp only [RunModel.usedT] at ht
    simp only [stmtGates] at hx
    obtain ⟨s, hs, hxs⟩ := (mem_stmtsGates body x).1 hx
    exact ih s hs (RunModel.usedTList_mem ht s hs) x hxs
  | hl c b ih =>
    intro ht x hx
    simp only [RunModel.usedT] at ht
    simp only [stmtGates] at hx
    exact ih ht x hx

open Jaqal.Builder in
theorem goodArg_of_argT {v : Val} (h : RunModel.argT v = true) : GoodArg v := by
  cases v with
  | int _ => trivial
  | flt _ => trivial
  | qubit n s i =>
    simp only [RunModel.argT, Bool.and_eq_true] at h
    exact ⟨RunModel.goodSrc_of_RegT h.1, RunModel.goodIdx_of_intC h.2⟩
  | regF n sz => exact (by simpa [RunModel.argT] using h : RegT (.regF n sz) = true)
  | regA n src => exact (by simpa [RunModel.argT] using h : RegT (.regA n src) = true)
  | regS n src a b c => exact (by simpa [RunModel.argT] using h : RegT (.regS n src a b c) = true)
  | const _ _ => simp [RunModel.argT, RegT] at h
  | param _ _ => trivial
  | none => simp [RunModel.argT, RegT] at h
  | str _ => simp [RunModel.argT, RegT] at h

theorem FlatS.stmtOK {D : List GateDef} {s : Stmt} (h : FlatS D s) : StmtOK [] D s := by
  intro x hx
  obtain ⟨h1, h2⟩ := usedT_stmtGates s h.used x hx
  refine ⟨h.defs x hx, ⟨fun ht => absurd ht h1, fun hm => ?_⟩, fun a ha => goodArg_of_argT (h2 a ha)⟩
  simp [ExpandMacros.isMacro, ExpandMacros.findMacro] at hm

theorem usedParams_nodup {gd : GateDef} (h : (gd.params.map (·.1)).Nodup) : (usedParams gd).Nodup := by
  unfold usedParams
  exact List.Nodup.sublist (List.Sublist.map _ List.filter_sublist) h

theorem mem_usedParams {gd : GateDef} {p : String} : p ∈ usedParams gd ↔ ∃ pk ∈ gd.params, usedKind pk.2 = true ∧ pk.1 = p := by
  simp only [usedParams, List.mem_map, List.mem_filter]
  constructor
  · rintro ⟨pk, ⟨h1, h2⟩, h3⟩; exact ⟨pk, h1, h2, h3⟩
  · rintro ⟨pk, h1, h2, h3⟩; exact ⟨pk, ⟨h1, h2⟩, h3⟩

/-! #### `Acts` is `semQubits` of the meaning -/

section Flat
variable (D : List GateDef) (hfun : Functional D) (allQ : Used) (hq : KeysNodup allQ)
include hfun hq

/-- **what the walk collects from a flat statement is `semQubits` of its meaning** -/
theorem flat_acts_iff (s : Stmt) (sem : Sem) (hf : FlatS D s) (he : evalStmt [] [] [] s = .ok sem) (r : String) (i : Int) :
    Acts allQ [] [] s r i ↔ (r, i) ∈ semQubits D (fqOf allQ) sem := by
  obtain ⟨u, hu⟩ := flat_used_ok allQ [] s hf.used sem he (stmtDepth s) (Nat.le_refl _)
  rw [← usedStmtF_mem_iff false allQ hq [] _ [] s u hu r i,
    used_spec [] rfl D hfun allQ hq (fun m hm => by cases hm) false _ [] [] s u sem ctxRel_nil hf.wf hf.stmtOK hu he r i,
    mem_semQubits]
  constructor
  · rintro ⟨app, h1, h2⟩; exact ⟨app, h1, (mem_appQubits D allQ hq app r i).2 h2⟩
  · rintro ⟨app, h1, h2⟩; exact ⟨app, h1, (mem_appQubits D allQ hq app r i).1 h2⟩

/-- **`Conflict` (over the library's resolution) is `SemPar` of the meaning** -/
theorem flat_conflict_iff : ∀ (s : Stmt) (sem : Sem), FlatS D s → evalStmt [] [] [] s = .ok sem →
    (Conflict allQ [] [] s ↔ SemPar D (fqOf allQ) sem) := by
  intro s
  induction s using stmt_ind with
  | hg n gd a =>
    intro sem hf he
    obtain ⟨vs, _, rfl⟩ := flat_gate_sem he
    have htag := (usedT_stmtGates _ hf.used (n, gd, a) (by simp [stmtGates])).1
    constructor
    · intro hc; cases hc with | call ht => exact absurd ht htag
    · intro hc; cases hc
  | hb par sub it body ih =>
    intro sem hf he
    simp only [Sem.evalStmt] at he
    obtain ⟨k, _, he1⟩ := Builder.bind_ok he
    obtain ⟨xs, hxs, he2⟩ := Builder.bind_ok he1
    clear he he1
    simp only [pure, Except.pure, Except.ok.injEq] at he2; subst he2
    obtain ⟨e1, e2⟩ := evalStmts_ok hxs
    have idx := evalStmts_idx hxs
    constructor
    · intro hc
      cases hc with
      | here hjk g1 g2 a1 a2 =>
        obtain ⟨x1, hx1, he1⟩ := (idx _).1 _ g1
        obtain ⟨x2, hx2, he2⟩ := (idx _).1 _ g2
        exact SemPar.here hjk hx1 hx2
          ((flat_acts_iff D hfun allQ hq _ x1 (hf.mem (List.mem_of_getElem? g1)) he1 _ _).1 a1)
          ((flat_acts_iff D hfun allQ hq _ x2 (hf.mem (List.mem_of_getElem? g2)) he2 _ _).1 a2)
      | block hs hc' =>
        obtain ⟨x, hx, hex⟩ := e1 _ hs
        exact SemPar.blk hx ((ih _ hs x (hf.mem hs) hex).1 hc')
    · intro hc
      cases hc with
      | here hjk g1 g2 q1 q2 =>
        rename_i q
        obtain ⟨r, i⟩ := q
        obtain ⟨s1, hs1, he1⟩ := (idx _).2 _ g1
        obtain ⟨s2, hs2, he2⟩ := (idx _).2 _ g2
        exact Conflict.here hjk hs1 hs2
          ((flat_acts_iff D hfun allQ hq s1 _ (hf.mem (List.mem_of_getElem? hs1)) he1 r i).2 q1)
          ((flat_acts_iff D hfun allQ hq s2 _ (hf.mem (List.mem_of_getElem? hs2)) he2 r i).2 q2)
      | blk hx hc' =>
        obtain ⟨s', hs', hex⟩ := e2 _ hx
        exact Conflict.block hs' ((ih _ hs' _ (hf.mem hs') hex).2 hc')
  | hl c b ih =>
    intro sem hf he
    simp only [Sem.evalStmt] at he
    obtain ⟨k, _, he⟩ := Builder.bind_ok he
    obtain ⟨x, hx, he⟩ := Builder.bind_ok he
    simp only [pure, Except.pure, Except.ok.injEq] at he; subst he
    constructor
    · intro hc; cases hc with | loop hc' => exact SemPar.loop ((ih x hf.loop hx).1 hc')
    · intro hc; cases hc with | loop hc' => exact Conflict.loop ((ih x hf.loop hx).2 hc')


omit hq in
/-- **`Repeat` (over the library's resolution) is `SemRepeat` of the meaning** -/
theorem flat_repeat_iff : ∀ (s : Stmt) (sem : Sem), FlatS D s → evalStmt [] [] [] s = .ok sem →
    (Repeat allQ [] [] s ↔ SemRepeat D sem) := by
  intro s
  induction s using stmt_ind with
  | hg n gd args =>
    intro sem hf he
    obtain ⟨vs, hvs, rfl⟩ := flat_gate_sem he
    obtain ⟨htag, hargT⟩ := usedT_stmtGates _ hf.used (n, gd, args) (by simp [stmtGates])
    have hgd : gd ∈ D := hf.defs (n, gd, args) (by simp [stmtGates])
    have hw := hf.wf
    simp only [ExpandMacros.wfStmt, ExpandMacros.wfGate, Bool.and_eq_true] at hw
    obtain ⟨⟨⟨⟨hn, hal⟩, hnd⟩, _⟩, _⟩ := hw
    have hn' : n = gd.name := by simpa using hn
    have hal' : args.map (·.1) = gd.params.map (·.1) := by simpa using hal
    have hnd' : (gd.params.map (·.1)).Nodup := by simpa using hnd
    have hnda : (args.map (·.1)).Nodup := hal' ▸ hnd'
    have argAt : ∀ (j : Nat) (p : String × Kind), gd.params[j]? = some p →
        ∃ a, args[j]? = some (p.1, a) ∧ args.lookup p.1 = some a := by
      intro j p hp
      have h1 : (args.map (·.1))[j]? = some p.1 := by rw [hal']; simp [hp]
      simp only [List.getElem?_map, Option.map_eq_some_iff] at h1
      obtain ⟨⟨n', a⟩, ha, hn''⟩ := h1
      simp only at hn''; subst hn''
      exact ⟨a, ha, lookup_of_getElem hnda ha⟩
    have nameInj : ∀ (j k : Nat) (p q : String × Kind), gd.params[j]? = some p → gd.params[k]? = some q → p.1 = q.1 → j = k := by
      intro j k p q hp hq hpq
      have hj : j < (gd.params.map (·.1)).length := by
        have := (List.getElem?_eq_some_iff.1 hp).1; simpa using this
      exact (List.getElem?_inj hj hnd').1 (by simp [hp, hq, hpq])
    constructor
    · intro hr
      cases hr with
      | call ht => exact absurd ht htag
      | here ht hjk h1 h2 l1 l2 v1 v2 m1 m2 =>
        rename_i j k p1 p2 a1 a2 u1 u2 r i
        obtain ⟨pk1, hpk1, hk1, rfl⟩ := mem_usedParams.1 (List.mem_of_getElem? h1)
        obtain ⟨pk2, hpk2, hk2, rfl⟩ := mem_usedParams.1 (List.mem_of_getElem? h2)
        obtain ⟨j1, hj1, hj1e⟩ := List.getElem_of_mem hpk1
        obtain ⟨j2, hj2, hj2e⟩ := List.getElem_of_mem hpk2
        have hp1 : gd.params[j1]? = some pk1 := by rw [List.getElem?_eq_getElem hj1, hj1e]
        have hp2 : gd.params[j2]? = some pk2 := by rw [List.getElem?_eq_getElem hj2, hj2e]
        obtain ⟨a1', ha1, hl1⟩ := argAt j1 pk1 hp1
        obtain ⟨a2', ha2, hl2⟩ := argAt j2 pk2 hp2
        rw [l1] at hl1; cases hl1
        rw [l2] at hl2; cases hl2
        obtain ⟨sa1, hsa1, hev1⟩ := evalArgs_getElem hvs j1 _ ha1
        obtain ⟨sa2, hsa2, hev2⟩ := evalArgs_getElem hvs j2 _ ha2
        have hm1 := (visit_arg ctxRel_nil (goodArg_of_argT (hargT _ (List.mem_of_getElem? ha1))) v1 hev1 r i).1 m1
        have hm2 := (visit_arg ctxRel_nil (goodArg_of_argT (hargT _ (List.mem_of_getElem? ha2))) v2 hev2 r i).1 m2
        have hne : j1 ≠ j2 := by
          intro e
          subst e
          rw [hp1] at hp2; cases hp2
          have hj : j < (usedParams gd).length := (List.getElem?_eq_some_iff.1 h1).1
          have := (List.getElem?_inj hj (usedParams_nodup hnd')).1 (h1.trans h2.symm)
          omega
        exact SemRepeat.gate ⟨gd, hgd, hn'.symm, ht, j1, j2, pk1, pk2, sa1, sa2, (r, i), hne, hp1, hp2, hk1, hk2, hsa1, hsa2,
          (mem_argQubits sa1 r i).2 hm1, (mem_argQubits sa2 r i).2 hm2⟩
    · intro hr
      cases hr with
      | gate hr =>
        obtain ⟨gd', hgd', hname, ht, j1, j2, pk1, pk2, sa1, sa2, q, hne, hp1, hp2, hk1, hk2, hsa1, hsa2, hq1, hq2⟩ := hr
        obtain ⟨r, i⟩ := q
        have : gd' = gd := hfun gd' hgd' gd hgd (hname.trans hn')
        subst this
        obtain ⟨a1, ha1, hl1⟩ := argAt j1 pk1 hp1
        obtain ⟨a2, ha2, hl2⟩ := argAt j2 pk2 hp2
        obtain ⟨sa1', hsa1', hev1⟩ := evalArgs_getElem hvs j1 _ ha1
        obtain ⟨sa2', hsa2', hev2⟩ := evalArgs_getElem hvs j2 _ ha2
        simp only at hsa1 hsa2
        rw [hsa1] at hsa1'; cases hsa1'
        rw [hsa2] at hsa2'; cases hsa2'
        have ht1 := hargT _ (List.mem_of_getElem? ha1)
        have ht2 := hargT _ (List.mem_of_getElem? ha2)
        obtain ⟨u1, v1⟩ := visitVal_ok_of_eval ht1 hev1
        obtain ⟨u2, v2⟩ := visitVal_ok_of_eval ht2 hev2
        have m1 := (visit_arg ctxRel_nil (goodArg_of_argT ht1) v1 hev1 r i).2 ((mem_argQubits sa1 r i).1 hq1)
        have m2 := (visit_arg ctxRel_nil (goodArg_of_argT ht2) v2 hev2 r i).2 ((mem_argQubits sa2 r i).1 hq2)
        have hu1 : pk1.1 ∈ usedParams gd' := mem_usedParams.2 ⟨pk1, List.mem_of_getElem? hp1, hk1, rfl⟩
        have hu2 : pk2.1 ∈ usedParams gd' := mem_usedParams.2 ⟨pk2, List.mem_of_getElem? hp2, hk2, rfl⟩
        obtain ⟨j, hj, hje⟩ := List.getElem_of_mem hu1
        obtain ⟨k, hk, hke⟩ := List.getElem_of_mem hu2
        have h1 : (usedParams gd')[j]? = some pk1.1 := by rw [List.getElem?_eq_getElem hj, hje]
        have h2 : (usedParams gd')[k]? = some pk2.1 := by rw [List.getElem?_eq_getElem hk, hke]
        have hjk : j ≠ k := by
          intro e
          subst e
          rw [h1] at h2
          exact hne (nameInj j1 j2 pk1 pk2 hp1 hp2 (by simpa using h2))
        rcases Nat.lt_or_gt_of_ne hjk with hlt | hgt
        · exact Repeat.here ht hlt h1 h2 hl1 hl2 v1 v2 m1 m2
        · exact Repeat.here ht hgt h2 h1 hl2 hl1 v2 v1 m2 m1
  | hb par sub it body ih =>
    intro sem hf he
    simp only [Sem.evalStmt] at he
    obtain ⟨k, _, he1⟩ := Builder.bind_ok he
    obtain ⟨xs, hxs, he2⟩ := Builder.bind_ok he1
    clear he he1
    simp only [pure, Except.pure, Except.ok.injEq] at he2; subst he2
    obtain ⟨e1, e2⟩ := evalStmts_ok hxs
    constructor
    · intro hc
      cases hc with
      | block hs hc' =>
        obtain ⟨x, hx, hex⟩ := e1 _ hs
        exact SemRepeat.blk hx ((ih _ hs x (hf.mem hs) hex).1 hc')
    · intro hc
      cases hc with
      | blk hx hc' =>
        obtain ⟨s', hs', hex⟩ := e2 _ hx
        exact Repeat.block hs' ((ih _ hs' _ (hf.mem hs') hex).2 hc')
  | hl c b ih =>
    intro sem hf he
    simp only [Sem.evalStmt] at he
    obtain ⟨k, _, he⟩ := Builder.bind_ok he
    obtain ⟨x, hx, he⟩ := Builder.bind_ok he
    simp only [pure, Except.pure, Except.ok.injEq] at he; subst he
    constructor
    · intro hc; cases hc with | loop hc' => exact SemRepeat.loop ((ih x hf.loop hx).1 hc')
    · intro hc; cases hc with | loop hc' => exact Repeat.loop ((ih x hf.loop hx).2 hc')

end Flat

/-! #### the check itself -/

theorem allQubits_ok : ∀ (regs : List Val) (acc : Used), RunModel.regsT regs = true → ∃ u, allQubits regs acc = .ok u
  | [], acc, _ => ⟨acc, rfl⟩
  | v :: rest, acc, h => by
    simp only [RunModel.regsT, List.all_cons, Bool.and_eq_true] at h
    have hr : RunModel.regsT rest = true := h.2
    cases v with
    | regF n size =>
      cases size <;> simp at h
      unfold allQubits
      simp only [pyInt, bind, Except.bind, pure, Except.pure]
      exact allQubits_ok rest _ hr
    | int _ | flt _ | const _ _ | param _ _ | qubit _ _ _ | regA _ _ | regS _ _ _ _ _ | none | str _ =>
      unfold allQubits
      exact allQubits_ok rest acc hr

/-- **`C13_reject` on the meaning.** For a flat circuit (no macro left, typed closed arguments, one definition per gate name in
the table `D`) that has the meaning `m`: the plain analysis succeeds, and the walk under `validate_parallel` is refused exactly when
`SemConflict D all_qubits m`; the JaqalError says which half (`SemPar` / `SemRepeat`). -/
theorem flat_checkDisjoint (x : Circuit) (D : List GateDef) (hfun : Functional D) (hmac : x.macros = [])
    (hf : FlatS D x.body) (hr : RunModel.regsT x.registers = true) (m : Sem) (hm : evalStmt [] [] [] x.body = .ok m) :
    ∃ allQ u, allQubits x.registers = .ok allQ ∧ KeysNodup allQ ∧ usedCircuit x = .ok u ∧
      (checkDisjoint x = .ok () ↔ ¬ SemConflict D (fqOf allQ) m) ∧
      ((checkDisjoint x = .error parErr ∨ checkDisjoint x = .error gateErr) ↔ SemConflict D (fqOf allQ) m) ∧
      (∀ e, checkDisjoint x = .error e → e = parErr ∨ e = gateErr) ∧
      (checkDisjoint x = .error parErr → SemPar D (fqOf allQ) m) ∧
      (checkDisjoint x = .error gateErr → SemRepeat D m) ∧
      (SemPar D (fqOf allQ) m → ¬ SemRepeat D m → checkDisjoint x = .error parErr) ∧
      (SemRepeat D m → ¬ SemPar D (fqOf allQ) m → checkDisjoint x = .error gateErr) := by
  obtain ⟨allQ, ha⟩ := allQubits_ok x.registers [] hr
  have hq : KeysNodup allQ := allQubits_keysNodup _ _ _ ha keysNodup_nil
  obtain ⟨u, hu⟩ := flat_used_ok allQ x.macros x.body hf.used m hm (defaultFuel x.macros x.body)
    (by unfold defaultFuel; omega)
  have huc : usedCircuit x = .ok u := by
    simp only [usedCircuit, usedCircuitV, ha, bind, Except.bind]
    exact hu
  obtain ⟨allQ', ha', h1, h2, h3, h4, h5, h6, h7⟩ := C13_reject x u huc
  rw [ha] at ha'; cases ha'
  rw [hmac] at h1 h2 h4 h5 h6 h7
  have hc := flat_conflict_iff D hfun allQ hq x.body m hf hm
  have hp := flat_repeat_iff D hfun allQ x.body m hf hm
  rw [hc, hp] at h1 h2 h6 h7
  rw [hc] at h4
  rw [hp] at h5
  refine ⟨allQ, u, ha, hq, huc, ?_, ?_, h3, h4, h5, h6, h7⟩
  · rw [h1, SemConflict, not_or]
  · show _ ↔ (SemPar D (fqOf allQ) m ∨ SemRepeat D m)
    rw [← h2]
    constructor
    · rintro (h | h) <;> exact ⟨_, h⟩
    · rintro ⟨e, he⟩
      rcases h3 e he with rfl | rfl
      · exact Or.inl he
      · exact Or.inr he

/-! ### `expand_macros` invents no gate definition -/

section Defs
open Jaqal.ExpandMacros
variable (D : List GateDef)

/-- every gate statement of `s` points to a definition of `D` -/
def DefsIn (s : Stmt) : Prop := ∀ g ∈ stmtGates s, g.2.1 ∈ D
def DefsInL (l : List Stmt) : Prop := ∀ g ∈ stmtsGates l, g.2.1 ∈ D

theorem stmtsGates_append : ∀ (a b : List Stmt), stmtsGates (a ++ b) = stmtsGates a ++ stmtsGates b
  | [], b => rfl
  | s :: r, b => by simp [stmtsGates, stmtsGates_append r b]

theorem defsIn_spliceInto {par : Bool} {s : Stmt} {r : List Stmt} (hs : DefsIn D s) (hr : DefsInL D r) :
    DefsInL D (spliceInto par s r) := by
  have hcons : DefsInL D (s :: r) := by
    intro g hg
    simp only [stmtsGates, List.mem_append] at hg
    rcases hg with hg | hg
    · exact hs g hg
    · exact hr g hg
  unfold spliceInto
  split
  · split
    · intro g hg
      rw [stmtsGates_append, List.mem_append] at hg
      rcases hg with hg | hg
      · exact hs g (by simpa only [stmtGates] using hg)
      · exact hr g hg
    · exact hcons
  · exact hcons

/-- what is needed of `call` (= `replace_gate`) -/
def CallD (call : Stmt → M Stmt) : Prop :=
  ∀ (n : String) (gd : GateDef) (a : List (String × Val)) (g' : Stmt), gd ∈ D → call (.gate n gd a) = .ok g' → DefsIn D g'

mutual
  theorem replStmt_defs (call : Stmt → M Stmt) (hc : CallD D call) (args : List (String × Val)) :
      ∀ (s s' : Stmt), DefsIn D s → replStmt call args s = .ok s' → DefsIn D s'
    | .gate n gd gargs, s', hd, h => by
      simp only [replStmt] at h
      obtain ⟨new, _, h⟩ := Builder.bind_ok h
      obtain ⟨g, h2, h⟩ := Builder.bind_ok h
      obtain ⟨a, rfl⟩ := callKw_isGate h2
      exact hc _ _ _ _ (hd (n, gd, gargs) (by simp [stmtGates])) h
    | .loop c body, s', hd, h => by
      simp only [replStmt] at h
      obtain ⟨c', _, h⟩ := Builder.bind_ok h
      obtain ⟨b', h2, h⟩ := Builder.bind_ok h
      obtain ⟨rfl, _⟩ := mkLoop_ok h
      have := replStmt_defs call hc args body b' (fun g hg => hd g (by simpa only [stmtGates] using hg)) h2
      intro g hg
      exact this g (by simpa only [stmtGates] using hg)
    | .block par sub it body, s', hd, h => by
      simp only [replStmt] at h
      obtain ⟨stmts, h1, h⟩ := Builder.bind_ok h
      obtain ⟨it', _, h⟩ := Builder.bind_ok h
      rw [mkBlock_ok h]
      have := replList_defs call hc args par body stmts (fun g hg => hd g (by simpa only [stmtGates] using hg)) h1
      intro g hg
      exact this g (by simpa only [stmtGates] using hg)
  theorem replList_defs (call : Stmt → M Stmt) (hc : CallD D call) (args : List (String × Val)) (par : Bool) :
      ∀ (l l' : List Stmt), DefsInL D l → replList call args par l = .ok l' → DefsInL D l'
    | [], l', _, h => by
      simp only [replList, pure, Except.pure, Except.ok.injEq] at h; subst h
      intro g hg; simp [stmtsGates] at hg
    | s :: r, l', hd, h => by
      simp only [replList] at h
      obtain ⟨s', h1, h⟩ := Builder.bind_ok h
      obtain ⟨r', h2, h⟩ := Builder.bind_ok h
      simp only [pure, Except.pure, Except.ok.injEq] at h; subst h
      have i1 := replStmt_defs call hc args s s' (fun g hg => hd g (by simp [stmtsGates, hg])) h1
      have i2 := replList_defs call hc args par r r' (fun g hg => hd g (by simp [stmtsGates, hg])) h2
      exact defsIn_spliceInto D i1 i2
end

theorem replaceGate_defs (ms : List Macro) (hms : ∀ m ∈ ms, DefsIn D m.body) : ∀ (fuel : Nat), CallD D (replaceGate ms fuel) := by
  intro fuel
  induction fuel with
  | zero =>
    intro n gd a g' hgd h
    simp only [replaceGate] at h
    cases hf : findMacro ms n with
    | none =>
      rw [hf] at h; simp only [pure, Except.pure, Except.ok.injEq] at h; subst h
      intro g hg; simp only [stmtGates, List.mem_singleton] at hg; subst hg; exact hgd
    | some m => rw [hf] at h; simp only at h; split at h <;> cases h
  | succ f ih =>
    intro n gd a g' hgd h
    simp only [replaceGate] at h
    cases hf : findMacro ms n with
    | none =>
      rw [hf] at h; simp only [pure, Except.pure, Except.ok.injEq] at h; subst h
      intro g hg; simp only [stmtGates, List.mem_singleton] at hg; subst hg; exact hgd
    | some m =>
      rw [hf] at h; simp only at h
      split at h
      · cases h
      · exact replStmt_defs D (replaceGate ms f) ih a m.body g' (hms m (List.mem_of_find?_eq_some hf)) h

mutual
  theorem expStmt_defs (call : Stmt → M Stmt) (hc : CallD D call) :
      ∀ (s s' : Stmt), DefsIn D s → expStmt call s = .ok s' → DefsIn D s'
    | .gate n gd gargs, s', hd, h => by
      simp only [expStmt] at h
      exact hc _ _ _ _ (hd (n, gd, gargs) (by simp [stmtGates])) h
    | .loop c body, s', hd, h => by
      simp only [expStmt] at h
      obtain ⟨b', h2, h⟩ := Builder.bind_ok h
      obtain ⟨rfl, _⟩ := mkLoop_ok h
      have := expStmt_defs call hc body b' (fun g hg => hd g (by simpa only [stmtGates] using hg)) h2
      intro g hg
      exact this g (by simpa only [stmtGates] using hg)
    | .block par sub it body, s', hd, h => by
      simp only [expStmt] at h
      obtain ⟨stmts, h1, h⟩ := Builder.bind_ok h
      rw [mkBlock_ok h]
      have := expList_defs call hc par body stmts (fun g hg => hd g (by simpa only [stmtGates] using hg)) h1
      intro g hg
      exact this g (by simpa only [stmtGates] using hg)
  theorem expList_defs (call : Stmt → M Stmt) (hc : CallD D call) (par : Bool) :
      ∀ (l l' : List Stmt), DefsInL D l → expList call par l = .ok l' → DefsInL D l'
    | [], l', _, h => by
      simp only [expList, pure, Except.pure, Except.ok.injEq] at h; subst h
      intro g hg; simp [stmtsGates] at hg
    | s :: r, l', hd, h => by
      simp only [expList] at h
      obtain ⟨s', h1, h⟩ := Builder.bind_ok h
      obtain ⟨r', h2, h⟩ := Builder.bind_ok h
      simp only [pure, Except.pure, Except.ok.injEq] at h; subst h
      have i1 := expStmt_defs call hc s s' (fun g hg => hd g (by simp [stmtsGates, hg])) h1
      have i2 := expList_defs call hc par r r' (fun g hg => hd g (by simp [stmtsGates, hg])) h2
      exact defsIn_spliceInto D i1 i2
end

theorem iterStmts_defs : ∀ (s : Stmt) (l : List Stmt), DefsIn D s → iterStmts s = .ok l → DefsInL D l := by
  intro s
  induction s using stmt_ind with
  | hg n gd a => intro l _ h; cases h
  | hb par sub it body _ =>
    intro l hd h
    simp only [iterStmts, pure, Except.pure, Except.ok.injEq] at h; subst h
    intro g hg; exact hd g (by simpa only [stmtGates] using hg)
  | hl c b ih =>
    intro l hd h
    simp only [iterStmts] at h
    exact ih l (fun g hg => hd g (by simpa only [stmtGates] using hg)) h

/-- **`expand_macros` invents no gate definition**: every gate statement of the result points to a definition some gate
statement of the body or of a macro body pointed to -/
theorem expandMacros_defs (p : Bool) (c x : Circuit) (h : expandMacros p c = .ok x) (hb : DefsIn D c.body)
    (hms : ∀ m ∈ c.macros, DefsIn D m.body) : DefsIn D x.body := by
  unfold expandMacros at h
  obtain ⟨body, hbody, h⟩ := Builder.bind_ok h
  obtain ⟨stmts, hstmts, h⟩ := Builder.bind_ok h
  simp only [pure, Except.pure, Except.ok.injEq] at h
  subst h
  have hd := expStmt_defs D _ (replaceGate_defs D c.macros hms c.macros.length) c.body body hb hbody
  have hl : DefsInL D stmts := by
    cases body with
    | block par sub it b =>
      simp only [statementsOf, pure, Except.pure, Except.ok.injEq] at hstmts; subst hstmts
      intro g hg; exact hd g (by simpa only [stmtGates] using hg)
    | gate _ _ _ => cases hstmts
    | loop cnt b =>
      simp only [statementsOf] at hstmts
      exact iterStmts_defs D b stmts (fun g hg => hd g (by simpa only [stmtGates] using hg)) hstmts
  intro g hg
  exact hl g (by simpa only [stmtGates] using hg)

end Defs


/-! ### Branch order, on meaning trees -/

/-- `m'` is `m` with the branches of any number of parallel blocks (at any depth) permuted -/
inductive SemPerm : Sem → Sem → Prop
  | refl (m : Sem) : SemPerm m m
  | here {sub : Bool} {it : Int} {body body' : List Sem} : body.Perm body' →
      SemPerm (.blk true sub it body) (.blk true sub it body')
  | inBlk {par sub : Bool} {it : Int} {pre post : List Sem} {x x' : Sem} : SemPerm x x' →
      SemPerm (.blk par sub it (pre ++ x :: post)) (.blk par sub it (pre ++ x' :: post))
  | inLoop {n : Int} {b b' : Sem} : SemPerm b b' → SemPerm (.loop n b) (.loop n b')
  | trans {a b c : Sem} : SemPerm a b → SemPerm b c → SemPerm a c

section Order
variable (defs : List GateDef) (allQ : List FQ)

theorem mem_semQubitsList_iff (q : FQ) : ∀ (l : List Sem), q ∈ semQubitsList defs allQ l ↔ ∃ x ∈ l, q ∈ semQubits defs allQ x
  | [] => by simp [semQubitsList]
  | x :: r => by simp [semQubitsList, mem_semQubitsList_iff q r]

theorem semQubits_blk_iff (par sub : Bool) (it : Int) (body : List Sem) (q : FQ) :
    q ∈ semQubits defs allQ (.blk par sub it body) ↔ ∃ x ∈ body, q ∈ semQubits defs allQ x := by
  simp only [semQubits, mem_semQubitsList_iff]

/-- the branches `a`, `b` share no qubit -/
def SemApart (a b : Sem) : Prop := ¬ ∃ q, q ∈ semQubits defs allQ a ∧ q ∈ semQubits defs allQ b

theorem SemApart.symm {a b : Sem} (h : SemApart defs allQ a b) : SemApart defs allQ b a :=
  fun ⟨q, h1, h2⟩ => h ⟨q, h2, h1⟩

theorem semPar_blk_iff (par sub : Bool) (it : Int) (body : List Sem) :
    SemPar defs allQ (.blk par sub it body) ↔
      (∃ x ∈ body, SemPar defs allQ x) ∨ (par = true ∧ ¬ body.Pairwise (SemApart defs allQ)) := by
  constructor
  · intro h
    cases h with
    | here hjk h1 h2 a1 a2 =>
      right
      refine ⟨rfl, fun hp => ?_⟩
      exact (pairwise_iff_getElem? _ _).1 hp _ _ _ _ hjk h1 h2 ⟨_, a1, a2⟩
    | blk hs hc => exact Or.inl ⟨_, hs, hc⟩
  · rintro (⟨s, hs, hc⟩ | ⟨hp, hn⟩)
    · exact SemPar.blk hs hc
    · subst hp
      apply Classical.byContradiction
      intro hno
      apply hn
      rw [pairwise_iff_getElem?]
      intro j k a b hjk ha hb ⟨q, h1, h2⟩
      exact hno (SemPar.here hjk ha hb h1 h2)

theorem semPar_loop_iff (n : Int) (b : Sem) : SemPar defs allQ (.loop n b) ↔ SemPar defs allQ b := by
  constructor
  · intro h; cases h with | loop hc => exact hc
  · exact SemPar.loop

theorem semQubits_perm {m m' : Sem} (h : SemPerm m m') : ∀ q, q ∈ semQubits defs allQ m ↔ q ∈ semQubits defs allQ m' := by
  induction h with
  | refl s => intros; rfl
  | here hp =>
    intro q
    simp only [semQubits_blk_iff]
    exact ⟨fun ⟨s, hs, ha⟩ => ⟨s, hp.mem_iff.1 hs, ha⟩, fun ⟨s, hs, ha⟩ => ⟨s, hp.mem_iff.2 hs, ha⟩⟩
  | inBlk _ ih =>
    intro q
    simp only [semQubits_blk_iff, List.mem_append, List.mem_cons]
    constructor
    · rintro ⟨x, hx | rfl | hx, ha⟩
      · exact ⟨x, Or.inl hx, ha⟩
      · exact ⟨_, Or.inr (Or.inl rfl), (ih q).1 ha⟩
      · exact ⟨x, Or.inr (Or.inr hx), ha⟩
    · rintro ⟨x, hx | rfl | hx, ha⟩
      · exact ⟨x, Or.inl hx, ha⟩
      · exact ⟨_, Or.inr (Or.inl rfl), (ih q).2 ha⟩
      · exact ⟨x, Or.inr (Or.inr hx), ha⟩
  | inLoop _ ih => intro q; simp only [semQubits]; exact ih q
  | trans _ _ ih1 ih2 => intro q; exact (ih1 q).trans (ih2 q)

/-- **`SemPar` does not depend on the order in which the branches of parallel blocks are written** -/
theorem semPar_perm {m m' : Sem} (h : SemPerm m m') : SemPar defs allQ m ↔ SemPar defs allQ m' := by
  induction h with
  | refl s => rfl
  | here hp =>
    simp only [semPar_blk_iff]
    rw [hp.pairwise_iff (fun h => SemApart.symm defs allQ h)]
    constructor
    · rintro (⟨s, hs, hc⟩ | h)
      · exact Or.inl ⟨s, hp.mem_iff.1 hs, hc⟩
      · exact Or.inr h
    · rintro (⟨s, hs, hc⟩ | h)
      · exact Or.inl ⟨s, hp.mem_iff.2 hs, hc⟩
      · exact Or.inr h
  | @inBlk par sub it pre post s s' hss ih =>
    have hA : ∀ x, SemApart defs allQ s x ↔ SemApart defs allQ s' x := by
      intro x; simp only [SemApart, semQubits_perm defs allQ hss]
    have hB : ∀ x, SemApart defs allQ x s ↔ SemApart defs allQ x s' := by
      intro x; simp only [SemApart, semQubits_perm defs allQ hss]
    simp only [semPar_blk_iff, List.pairwise_append, List.pairwise_cons, List.mem_append, List.mem_cons,
      forall_eq_or_imp, hA, hB]
    constructor
    · rintro (⟨x, hx | rfl | hx, hc⟩ | h)
      · exact Or.inl ⟨x, Or.inl hx, hc⟩
      · exact Or.inl ⟨_, Or.inr (Or.inl rfl), ih.1 hc⟩
      · exact Or.inl ⟨x, Or.inr (Or.inr hx), hc⟩
      · exact Or.inr h
    · rintro (⟨x, hx | rfl | hx, hc⟩ | h)
      · exact Or.inl ⟨x, Or.inl hx, hc⟩
      · exact Or.inl ⟨_, Or.inr (Or.inl rfl), ih.2 hc⟩
      · exact Or.inl ⟨x, Or.inr (Or.inr hx), hc⟩
      · exact Or.inr h
  | inLoop _ ih => simp only [semPar_loop_iff]; exact ih
  | trans _ _ ih1 ih2 => exact ih1.trans ih2

theorem semRepeat_blk_iff (par sub : Bool) (it : Int) (body : List Sem) :
    SemRepeat defs (.blk par sub it body) ↔ ∃ x ∈ body, SemRepeat defs x := by
  constructor
  · intro h; cases h with | blk hs hr => exact ⟨_, hs, hr⟩
  · rintro ⟨s, hs, hr⟩; exact SemRepeat.blk hs hr

theorem semRepeat_loop_iff (n : Int) (b : Sem) : SemRepeat defs (.loop n b) ↔ SemRepeat defs b := by
  constructor
  · intro h; cases h with | loop hr => exact hr
  · exact SemRepeat.loop

theorem semRepeat_perm {m m' : Sem} (h : SemPerm m m') : SemRepeat defs m ↔ SemRepeat defs m' := by
  induction h with
  | refl s => rfl
  | here hp =>
    simp only [semRepeat_blk_iff]
    exact ⟨fun ⟨s, hs, ha⟩ => ⟨s, hp.mem_iff.1 hs, ha⟩, fun ⟨s, hs, ha⟩ => ⟨s, hp.mem_iff.2 hs, ha⟩⟩
  | inBlk _ ih =>
    simp only [semRepeat_blk_iff, List.mem_append, List.mem_cons]
    constructor
    · rintro ⟨x, hx | rfl | hx, ha⟩
      · exact ⟨x, Or.inl hx, ha⟩
      · exact ⟨_, Or.inr (Or.inl rfl), ih.1 ha⟩
      · exact ⟨x, Or.inr (Or.inr hx), ha⟩
    · rintro ⟨x, hx | rfl | hx, ha⟩
      · exact ⟨x, Or.inl hx, ha⟩
      · exact ⟨_, Or.inr (Or.inl rfl), ih.2 ha⟩
      · exact ⟨x, Or.inr (Or.inr hx), ha⟩
  | inLoop _ ih => simp only [semRepeat_loop_iff]; exact ih
  | trans _ _ ih1 ih2 => exact ih1.trans ih2

/-- **`SemConflict` does not depend on the order in which the branches of parallel blocks are written** -/
theorem semConflict_perm {m m' : Sem} (h : SemPerm m m') : SemConflict defs allQ m ↔ SemConflict defs allQ m' :=
  or_congr (semPar_perm defs allQ h) (semRepeat_perm defs h)

end Order

end Jaqal.UsedQubits
