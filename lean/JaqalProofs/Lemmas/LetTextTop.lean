import JaqalProofs.Lemmas.LetTextBuild
import JaqalProofs.Lemmas.RoundTripProgram
/-!
# The header statements, `build_circuit`, and the side condition `NoFrozenStop`

`scan ov dep cs` walks the children of the program keeping the set `dep` of header names whose built object may depend on
an overridden let (the overridden lets, and every register / alias one of whose components is in `dep`); it fails on
`map c a[k:]` / `a[:]` / `a[k::s]` (stop not written) with `a ∈ dep`.  Under it the two runs of the builder — on the program
and on the program with the lets rewritten — stay related by `reval`.
-/
set_option linter.unusedVariables false
set_option linter.unusedSimpArgs false
namespace Jaqal.FillIn
open Jaqal Jaqal.Builder Jaqal.RoundTrip

variable (ov : List (String × Num))

/-! ### the rewriting on the builder's input type -/

def ovB : Num → BSx
  | .int v => .int v
  | .flt d => .flt d

def rewriteLetB : BSx → BSx
  | .list [.str "let", .str n, v] =>
    match lookupOv ov n with
    | some x => .list [.str "let", .str n, ovB x]
    | none => .list [.str "let", .str n, v]
  | e => e

/-! ### the side condition -/

def usesDep (dep : List String) : BSx → Bool
  | .str m => dep.contains m
  | _ => false

def isNoneE : BSx → Bool
  | .none => true
  | _ => false

/-- `map c a[k:]` (stop not written) over a source in `dep` -/
def frozenAt (dep : List String) : BSx → Bool
  | .list [.str "map", .str _, .str s, _, b, _] => isNoneE b && dep.contains s
  | _ => false

/-- the names whose object may depend on an overridden let, after one more header statement -/
def depStep (dep : List String) : BSx → List String
  | .list (.str cmd :: .str name :: args) =>
    if (cmd = "register" ∨ cmd = "map" ∨ cmd = "let") ∧
        (args.any (usesDep dep) = true ∨ (cmd = "let" ∧ (lookupOv ov name).isSome = true)) then name :: dep else dep
  | _ => dep

def scan (dep : List String) : List BSx → Bool
  | [] => true
  | e :: es => !frozenAt dep e && scan (depStep ov dep e) es

/-- every name outside `dep` is bound to an object `reval` leaves alone; no name is bound to `None` -/
def DepInv (dep : List String) (ctx : Ctx) : Prop :=
  ∀ n v, ctx.get n = some v → v ≠ .none ∧ (dep.contains n = false → reval ov v = v)

/-! ### the value commands, one equation each -/

section equations
variable (get : String → Option Val) (rec : BSx → M Val) (n s : String)

theorem valStep_reg (size : BSx) : valStep get rec [.str "register", .str n, size] =
    (rec size >>= fun sz => mkRegister n (asIntegerV sz)) := by
  simp only [valStep, if_true, strOf, pure_bind]

theorem valStep_letE (value : BSx) : valStep get rec [.str "let", .str n, value] = mkConstant n value := by
  simp only [valStep, String.reduceEq, if_false, if_true, strOf, pure_bind]

theorem valStep_mapWhole : valStep get rec [.str "map", .str n, .str s] =
    (mapSource get (.str s) >>= fun src => pure (.regA n src)) := by
  simp only [valStep, String.reduceEq, if_false, if_true, strOf, pure_bind]

theorem valStep_mapIndex (i : BSx) : valStep get rec [.str "map", .str n, .str s, i] =
    (mapSource get (.str s) >>= fun src => rec i >>= fun idx => mkQubit n src (asIntegerV idx)) := by
  simp only [valStep, String.reduceEq, if_false, if_true, strOf, pure_bind]

theorem valStep_mapSlice (a b c : BSx) : valStep get rec [.str "map", .str n, .str s, a, b, c] =
    (mapSource get (.str s) >>= fun src => rec a >>= fun start0 => rec b >>= fun stop0 =>
      defaultStop src (asIntegerV stop0) >>= fun stop => rec c >>= fun step0 =>
      mkSlice n src (if asIntegerV start0 == .none then .int 0 else asIntegerV start0) stop
        (if asIntegerV step0 == .none then .int 1 else asIntegerV step0)) := by
  simp only [valStep, String.reduceEq, if_false, if_true, strOf, pure_bind]

end equations

/-! ### sizes -/

theorem resolveSize_regA' (c : Resolve.Ctx) (n : String) (src : Val) (h1 : ∀ m k, src ≠ .param m k)
    (h2 : ∀ m d, src ≠ .const m d) : Resolve.resolveSize c (.regA n src) = Resolve.resolveSize [] src := by
  cases src <;> first | rfl | exact absurd rfl (h1 _ _) | exact absurd rfl (h2 _ _)

theorem resolveSize_regS_int {c : Resolve.Ctx} {n : String} {src a b s y : Val}
    (h : Resolve.resolveSize c (.regS n src a b s) = .ok y) : ∃ k, y = .int k := by
  have key : ∀ (r : M Val), (do
        let a' ← Resolve.resolveInt c (Resolve.startOr0 a)
        let s' ← Resolve.resolveInt c (Resolve.stepOr1 s)
        let b' ← Resolve.resolveInt c b
        if s' = 0 then .error (.jaqal "zero-step") else
        pure (.int (← Resolve.rangeLen a' b' s'))) = r → r = .ok y → ∃ k, y = .int k := by
    intro r hr hy
    subst hr
    obtain ⟨a', _, h⟩ := bind_ok hy
    obtain ⟨s', _, h⟩ := bind_ok h
    obtain ⟨b', _, h⟩ := bind_ok h
    split at h
    · cases h
    · obtain ⟨k, _, h⟩ := bind_ok h
      cases h
      exact ⟨k, rfl⟩
  cases src with
  | param m k => simp only [Resolve.resolveSize] at h; split at h <;> cases h
  | const m d => simp only [Resolve.resolveSize] at h; cases h
  | _ => exact key _ rfl h

theorem resolveSize_fixed (v : Val) : ∀ (c : Resolve.Ctx) (y : Val), reval ov v = v →
    Resolve.resolveSize c v = .ok y → reval ov y = y := by
  induction v with
  | regF n size _ =>
    intro c y hf h
    simp only [Resolve.resolveSize, pure, Except.pure, Except.ok.injEq] at h
    subst h
    simp only [reval, Val.regF.injEq, true_and] at hf
    exact hf
  | regA n src ih =>
    intro c y hf h
    simp only [reval, Val.regA.injEq, true_and] at hf
    by_cases h1 : ∃ m k, src = .param m k
    · obtain ⟨m, k, rfl⟩ := h1
      simp only [Resolve.resolveSize] at h
      split at h <;> cases h
    by_cases h2 : ∃ m d, src = .const m d
    · obtain ⟨m, d, rfl⟩ := h2
      simp only [Resolve.resolveSize] at h
      cases h
    rw [resolveSize_regA' c n src (fun m k hh => h1 ⟨m, k, hh⟩) (fun m d hh => h2 ⟨m, d, hh⟩)] at h
    exact ih [] y hf h
  | regS n src a b s _ _ _ _ =>
    intro c y _ h
    obtain ⟨k, rfl⟩ := resolveSize_regS_int h
    rfl
  | const _ _ _ => intro c y _ h; simp [Resolve.resolveSize] at h
  | qubit _ _ _ _ _ => intro c y _ h; simp [Resolve.resolveSize] at h
  | int _ => intro c y _ h; simp [Resolve.resolveSize] at h
  | flt _ => intro c y _ h; simp [Resolve.resolveSize] at h
  | param _ _ => intro c y _ h; simp [Resolve.resolveSize] at h
  | none => intro c y _ h; simp [Resolve.resolveSize] at h
  | str _ => intro c y _ h; simp [Resolve.resolveSize] at h

theorem regSize_ok {src y : Val} (h : regSize src = .ok y) : Resolve.resolveSize [] src = .ok y := by
  unfold regSize at h
  split at h
  · cases h
  · exact h

theorem defaultStop_none_ok {src y : Val} (h : defaultStop src .none = .ok y) : regSize src = .ok y := by
  cases src <;> exact h

theorem asIntegerV_eq_none {v : Val} (h : asIntegerV v = .none) : v = .none := by
  cases v with
  | flt d =>
    simp only [asIntegerV] at h
    cases hx : Num.asInteger (.flt d) <;> rw [hx] at h <;> cases h
  | none => rfl
  | _ => cases h

theorem defaultStop_rel {src x stop stop' : Val} (hx : x = .none → reval ov src = src)
    (h : defaultStop src x = .ok stop) (h' : defaultStop (reval ov src) (reval ov x) = .ok stop') :
    stop' = reval ov stop ∧ (reval ov src = src → reval ov x = x → reval ov stop = stop) := by
  by_cases hx0 : x = .none
  · subst hx0
    have hs := hx rfl
    simp only [reval] at h'
    rw [hs] at h'
    have e : stop' = stop := by rw [h] at h'; cases h'; rfl
    subst e
    have hfix := resolveSize_fixed ov src [] _ hs (regSize_ok (defaultStop_none_ok h))
    exact ⟨hfix.symm, fun _ _ => hfix⟩
  · have hx1 : reval ov x ≠ .none := fun hh => hx0 (reval_eq_none.1 hh)
    have e1 : (x == Val.none) = false := by simp [hx0]
    have e2 : (reval ov x == Val.none) = false := by simp [hx1]
    simp only [defaultStop, e1, e2, Bool.false_eq_true, if_false, pure, Except.pure, Except.ok.injEq] at h h'
    subst h h'
    exact ⟨rfl, fun _ hfx => hfx⟩

theorem dflt_reval (v d : Val) (hd : reval ov d = d) :
    (if asIntegerV (reval ov v) == Val.none then d else asIntegerV (reval ov v)) =
      reval ov (if asIntegerV v == Val.none then d else asIntegerV v) := by
  rw [asIntegerV_reval, reval_beq_none]
  split
  · exact hd.symm
  · rfl

/-! ### header statements -/

theorem mapSource_rel {ctx : Ctx} {s : String} {src src' : Val} (h : mapSource ctx.get (.str s) = .ok src)
    (h' : mapSource (revalCtx ov ctx).get (.str s) = .ok src') : src' = reval ov src ∧ ctx.get s = some src := by
  simp only [mapSource] at h h'
  rw [ctx_get_reval] at h'
  cases hg : ctx.get s with
  | none => simp [hg, throw_eq] at h
  | some v =>
    simp only [hg, Option.map_some, isRegister_reval, isParam_reval] at h h'
    by_cases hc : (Builder.isRegister v || isParam v) = true
    · simp only [hc, if_true, pure, Except.pure, Except.ok.injEq] at h h'
      subst h h'
      exact ⟨rfl, rfl⟩
    · simp [hc, throw_eq] at h

/-- an atom that does not name a member of `dep` builds to an object `reval` leaves alone -/
theorem atom_fixed {dep : List String} {ctx : Ctx} (hinv : DepInv ov dep ctx) {f : Nat} {e : BSx} {v : Val}
    (h1 : ∀ l, e ≠ .list l) (h2 : ∀ v, e ≠ .val v) (hu : usesDep dep e = false) (h : buildVal ctx f e = .ok v) :
    reval ov v = v := by
  cases e with
  | str s =>
    rw [buildVal_str] at h
    exact (hinv s v (lookupId_ok h)).2 hu
  | int i => rw [buildVal_int] at h; cases h; rfl
  | flt d => rw [buildVal_flt] at h; cases h; rfl
  | none => rw [buildVal_none] at h; cases h; rfl
  | list l => exact absurd rfl (h1 l)
  | val v => exact absurd rfl (h2 v)

theorem bound_atom {e : BSx} (he : isBound e = true) : (∀ l, e ≠ .list l) ∧ (∀ v, e ≠ .val v) := by
  constructor <;> intro x hx <;> subst hx <;> simp [isBound, isIntOrId] at he

theorem intOrId_bound {e : BSx} (he : isIntOrId e = true) : isBound e = true := by
  cases e <;> simp [isIntOrId] at he <;> rfl

theorem bound_not_none {dep : List String} {ctx : Ctx} (hinv : DepInv ov dep ctx) {f : Nat} {e : BSx} {v : Val}
    (he : isBound e = true) (hn : isNoneE e = false) (h : buildVal ctx f e = .ok v) : v ≠ .none := by
  cases e with
  | str s =>
    rw [buildVal_str] at h
    exact (hinv s v (lookupId_ok h)).1
  | int i => rw [buildVal_int] at h; cases h; exact fun hh => by cases hh
  | none => cases hn
  | _ => simp [isBound, isIntOrId] at he

theorem depStep_mono (dep : List String) (e : BSx) (m : String) (h : (depStep ov dep e).contains m = false) :
    dep.contains m = false := by
  unfold depStep at h
  split at h
  · split at h
    · simp only [List.contains_cons, Bool.or_eq_false_iff] at h
      exact h.2
    · exact h
  · exact h

/-- what a header statement is built to, in both runs -/
def HeaderPost (dep : List String) (e : BSx) (st : St) (o o' : Obj) (st1 st1' : St) : Prop :=
  o' = revalObj ov o ∧ st1' = revalSt ov st1 ∧ st1 = st ∧
    ((∃ m, o = .usepulses m) ∨
     ∃ v n, o = .val v ∧ v.name? = some n ∧ (Builder.isRegister v = true ∨ (∃ a b, v = .qubit n a b) ∨ ∃ d, v = .const n d) ∧
       ((depStep ov dep e).contains n = false → reval ov v = v))

theorem val_post {dep : List String} {e : BSx} {st : St} {v v' : Val} {n : String} (hr : v' = reval ov v)
    (hn : v.name? = some n)
    (hk : Builder.isRegister v = true ∨ (∃ a b, v = .qubit n a b) ∨ ∃ d, v = .const n d)
    (hfix : (depStep ov dep e).contains n = false → reval ov v = v) :
    HeaderPost ov dep e st (.val v) (.val v') st (revalSt ov st) :=
  ⟨by rw [hr]; rfl, rfl, rfl, Or.inr ⟨v, n, rfl, hn, hk, hfix⟩⟩

theorem value_step {cfg : Config} {f : Nat} {ctx : Ctx} {cmd : String} {args : List BSx} {st st1 : St} {o : Obj}
    (hcmd : cmd = "register" ∨ cmd = "map" ∨ cmd = "let")
    (h : buildAny cfg .off (f + 1) ctx (.list (.str cmd :: args)) st = .ok (o, st1)) :
    ∃ v, valStep ctx.get (buildVal ctx f) (.str cmd :: args) = .ok v ∧ o = .val v ∧ st1 = st := by
  rw [buildAny_list, anyStep_value _ _ _ _ _ _ _ _ hcmd] at h
  obtain ⟨v, hv, h⟩ := bind_ok h
  simp only [pure, Except.pure, Except.ok.injEq, Prod.mk.injEq] at h
  exact ⟨v, hv, h.1.symm, h.2.symm⟩

theorem usesDep_of_step {dep : List String} {cmd name : String} {args : List BSx}
    (hcmd : cmd = "register" ∨ cmd = "map" ∨ cmd = "let")
    (h : (depStep ov dep (.list (.str cmd :: .str name :: args))).contains name = false) :
    (∀ a ∈ args, usesDep dep a = false) ∧ (cmd = "let" → lookupOv ov name = none) := by
  simp only [depStep] at h
  split at h
  · simp at h
  · rename_i hc
    have hB : ¬ (args.any (usesDep dep) = true ∨ (cmd = "let" ∧ (lookupOv ov name).isSome = true)) :=
      fun hb => hc ⟨hcmd, hb⟩
    refine ⟨fun a ha => ?_, fun hl => ?_⟩
    · cases hu : usesDep dep a with
      | false => rfl
      | true => exact absurd (Or.inl (List.any_eq_true.2 ⟨a, ha, hu⟩)) hB
    · cases hl2 : lookupOv ov name with
      | none => rfl
      | some x => exact absurd (Or.inr ⟨hl, by simp [hl2]⟩) hB

/-- **a header statement in the two runs** (the second run reads the statement with its let rewritten) -/
theorem header_rel {cfg : Config} {f : Nat} {ctx : Ctx} {dep : List String} {e : BSx} {st st1 st1' : St} {o o' : Obj}
    (hh : GHeader e) (hinv : DepInv ov dep ctx) (hfz : frozenAt dep e = false)
    (h : buildAny cfg .off f ctx e st = .ok (o, st1))
    (h' : buildAny cfg .off f (revalCtx ov ctx) (rewriteLetB ov e) (revalSt ov st) = .ok (o', st1')) :
    HeaderPost ov dep e st o o' st1 st1' := by
  cases f with
  | zero => cases hh <;> simp [buildAny, throw_eq] at h
  | succ f =>
    cases hh with
    | usepulses m =>
      have e1 : rewriteLetB ov (.list [.str "usepulses", .str m, .str "*"]) = .list [.str "usepulses", .str m, .str "*"] := rfl
      rw [e1, buildAny_usepulses_eq] at h'
      rw [buildAny_usepulses_eq] at h
      simp only [Except.ok.injEq, Prod.mk.injEq] at h h'
      obtain ⟨rfl, rfl⟩ := h
      obtain ⟨rfl, rfl⟩ := h'
      exact ⟨rfl, rfl, rfl, Or.inl ⟨m, rfl⟩⟩
    | letInt n i =>
      obtain ⟨v, hv, rfl, rfl⟩ := value_step (Or.inr (Or.inr rfl)) h
      rw [valStep_letE] at hv
      simp only [mkConstant, pure, Except.pure, Except.ok.injEq] at hv
      subst hv
      have hstep := usesDep_of_step ov (dep := dep) (cmd := "let") (name := n) (args := [.int i]) (Or.inr (Or.inr rfl))
      cases hl : lookupOv ov n with
      | some x =>
        have e1 : rewriteLetB ov (.list [.str "let", .str n, .int i]) = .list [.str "let", .str n, ovB x] := by
          simp only [rewriteLetB, hl]
        rw [e1] at h'
        obtain ⟨v', hv', rfl, rfl⟩ := value_step (Or.inr (Or.inr rfl)) h'
        rw [valStep_letE] at hv'
        have : v' = reval ov (.const n (.int i)) := by
          simp only [reval, hl]
          cases x <;> simp only [ovB, mkConstant, pure, Except.pure, Except.ok.injEq] at hv' <;> subst hv' <;> rfl
        exact val_post ov this rfl (Or.inr (Or.inr ⟨_, rfl⟩)) (fun hc => by
          have := (hstep hc).2 rfl; rw [hl] at this; cases this)
      | none =>
        have e1 : rewriteLetB ov (.list [.str "let", .str n, .int i]) = .list [.str "let", .str n, .int i] := by
          simp only [rewriteLetB, hl]
        rw [e1] at h'
        obtain ⟨v', hv', rfl, rfl⟩ := value_step (Or.inr (Or.inr rfl)) h'
        rw [valStep_letE] at hv'
        simp only [mkConstant, pure, Except.pure, Except.ok.injEq] at hv'
        subst hv'
        have hfix : reval ov (.const n (.int i)) = .const n (.int i) := by simp only [reval, hl]
        exact val_post ov hfix.symm rfl (Or.inr (Or.inr ⟨_, rfl⟩)) (fun _ => hfix)
    | letFlt n d =>
      obtain ⟨v, hv, rfl, rfl⟩ := value_step (Or.inr (Or.inr rfl)) h
      rw [valStep_letE] at hv
      simp only [mkConstant, pure, Except.pure, Except.ok.injEq] at hv
      subst hv
      have hstep := usesDep_of_step ov (dep := dep) (cmd := "let") (name := n) (args := [.flt d]) (Or.inr (Or.inr rfl))
      cases hl : lookupOv ov n with
      | some x =>
        have e1 : rewriteLetB ov (.list [.str "let", .str n, .flt d]) = .list [.str "let", .str n, ovB x] := by
          simp only [rewriteLetB, hl]
        rw [e1] at h'
        obtain ⟨v', hv', rfl, rfl⟩ := value_step (Or.inr (Or.inr rfl)) h'
        rw [valStep_letE] at hv'
        have : v' = reval ov (.const n (asIntegerV (.flt d))) := by
          simp only [reval, hl]
          cases x <;> simp only [ovB, mkConstant, pure, Except.pure, Except.ok.injEq] at hv' <;> subst hv' <;> rfl
        exact val_post ov this rfl (Or.inr (Or.inr ⟨_, rfl⟩)) (fun hc => by
          have := (hstep hc).2 rfl; rw [hl] at this; cases this)
      | none =>
        have e1 : rewriteLetB ov (.list [.str "let", .str n, .flt d]) = .list [.str "let", .str n, .flt d] := by
          simp only [rewriteLetB, hl]
        rw [e1] at h'
        obtain ⟨v', hv', rfl, rfl⟩ := value_step (Or.inr (Or.inr rfl)) h'
        rw [valStep_letE] at hv'
        simp only [mkConstant, pure, Except.pure, Except.ok.injEq] at hv'
        subst hv'
        have hfix : reval ov (.const n (asIntegerV (.flt d))) = .const n (asIntegerV (.flt d)) := by
          simp only [reval, hl, asIntegerV, reval_ofNum]
        exact val_post ov hfix.symm rfl (Or.inr (Or.inr ⟨_, rfl⟩)) (fun _ => hfix)
    | @register n size hs =>
      have e1 : rewriteLetB ov (.list [.str "register", .str n, size]) = .list [.str "register", .str n, size] := rfl
      rw [e1] at h'
      obtain ⟨v, hv, rfl, rfl⟩ := value_step (Or.inl rfl) h
      obtain ⟨v', hv', rfl, rfl⟩ := value_step (Or.inl rfl) h'
      rw [valStep_reg] at hv hv'
      obtain ⟨sz, hsz, hv⟩ := bind_ok hv
      obtain ⟨sz', hsz', hv'⟩ := bind_ok hv'
      have := intOrId_rel ov hs hsz hsz'
      subst this
      rw [mkRegister_eq hv, mkRegister_eq hv', asIntegerV_reval]
      have hstep := usesDep_of_step ov (dep := dep) (cmd := "register") (name := n) (args := [size]) (Or.inl rfl)
      refine val_post ov rfl rfl (Or.inl rfl) (fun hc => ?_)
      have hb := bound_atom (intOrId_bound hs)
      have hf := atom_fixed ov hinv hb.1 hb.2 ((hstep hc).1 size (by simp)) hsz
      simp only [reval, ← asIntegerV_reval, hf]
    | mapWhole n s =>
      have e1 : rewriteLetB ov (.list [.str "map", .str n, .str s]) = .list [.str "map", .str n, .str s] := rfl
      rw [e1] at h'
      obtain ⟨v, hv, rfl, rfl⟩ := value_step (Or.inr (Or.inl rfl)) h
      obtain ⟨v', hv', rfl, rfl⟩ := value_step (Or.inr (Or.inl rfl)) h'
      rw [valStep_mapWhole] at hv hv'
      obtain ⟨src, hsrc, hv⟩ := bind_ok hv
      obtain ⟨src', hsrc', hv'⟩ := bind_ok hv'
      obtain ⟨rfl, hget⟩ := mapSource_rel ov hsrc hsrc'
      simp only [pure, Except.pure, Except.ok.injEq] at hv hv'
      subst hv hv'
      have hstep := usesDep_of_step ov (dep := dep) (cmd := "map") (name := n) (args := [.str s]) (Or.inr (Or.inl rfl))
      refine val_post ov rfl rfl (Or.inl rfl) (fun hc => ?_)
      have hf := (hinv s src hget).2 ((hstep hc).1 (.str s) (by simp))
      simp only [reval, hf]
    | @mapIndex n s i hi =>
      have e1 : rewriteLetB ov (.list [.str "map", .str n, .str s, i]) = .list [.str "map", .str n, .str s, i] := rfl
      rw [e1] at h'
      obtain ⟨v, hv, rfl, rfl⟩ := value_step (Or.inr (Or.inl rfl)) h
      obtain ⟨v', hv', rfl, rfl⟩ := value_step (Or.inr (Or.inl rfl)) h'
      rw [valStep_mapIndex] at hv hv'
      obtain ⟨src, hsrc, hv⟩ := bind_ok hv
      obtain ⟨idx, hidx, hv⟩ := bind_ok hv
      obtain ⟨src', hsrc', hv'⟩ := bind_ok hv'
      obtain ⟨idx', hidx', hv'⟩ := bind_ok hv'
      obtain ⟨rfl, hget⟩ := mapSource_rel ov hsrc hsrc'
      have := intOrId_rel ov hi hidx hidx'
      subst this
      rw [mkQubit_eq hv, mkQubit_eq hv', asIntegerV_reval]
      have hstep := usesDep_of_step ov (dep := dep) (cmd := "map") (name := n) (args := [.str s, i]) (Or.inr (Or.inl rfl))
      refine val_post ov rfl rfl (Or.inr (Or.inl ⟨_, _, rfl⟩)) (fun hc => ?_)
      have hf := (hinv s src hget).2 ((hstep hc).1 (.str s) (by simp))
      have hb := bound_atom (intOrId_bound hi)
      have hfi := atom_fixed ov hinv hb.1 hb.2 ((hstep hc).1 i (by simp)) hidx
      simp only [reval, ← asIntegerV_reval, hf, hfi]
    | @mapSlice n s a b c ha hb hc =>
      have e1 : rewriteLetB ov (.list [.str "map", .str n, .str s, a, b, c]) = .list [.str "map", .str n, .str s, a, b, c] := rfl
      rw [e1] at h'
      obtain ⟨v, hv, rfl, rfl⟩ := value_step (Or.inr (Or.inl rfl)) h
      obtain ⟨v', hv', rfl, rfl⟩ := value_step (Or.inr (Or.inl rfl)) h'
      rw [valStep_mapSlice] at hv hv'
      obtain ⟨src, hsrc, hv⟩ := bind_ok hv
      obtain ⟨start0, hstart, hv⟩ := bind_ok hv
      obtain ⟨stop0, hstop0, hv⟩ := bind_ok hv
      obtain ⟨stop, hstop, hv⟩ := bind_ok hv
      obtain ⟨step0, hstep0, hv⟩ := bind_ok hv
      obtain ⟨src', hsrc', hv'⟩ := bind_ok hv'
      obtain ⟨start0', hstart', hv'⟩ := bind_ok hv'
      obtain ⟨stop0', hstop0', hv'⟩ := bind_ok hv'
      obtain ⟨stop', hstop', hv'⟩ := bind_ok hv'
      obtain ⟨step0', hstep0', hv'⟩ := bind_ok hv'
      obtain ⟨rfl, hget⟩ := mapSource_rel ov hsrc hsrc'
      have := bound_rel ov ha hstart hstart'
      subst this
      have := bound_rel ov hb hstop0 hstop0'
      subst this
      have := bound_rel ov hc hstep0 hstep0'
      subst this
      rw [asIntegerV_reval] at hstop'
      simp only [frozenAt, Bool.and_eq_false_iff] at hfz
      have hx : asIntegerV stop0 = .none → reval ov src = src := by
        intro hx
        have h0 := asIntegerV_eq_none hx
        rcases hfz with hnb | hds
        · exact absurd h0 (bound_not_none ov hinv hb hnb hstop0)
        · exact (hinv s src hget).2 hds
      obtain ⟨rfl, hstopfix⟩ := defaultStop_rel ov hx hstop hstop'
      simp only [mkSlice] at hv hv'
      obtain ⟨_, _, hv⟩ := bind_ok hv
      obtain ⟨_, _, hv'⟩ := bind_ok hv'
      simp only [pure, Except.pure, Except.ok.injEq] at hv hv'
      subst hv hv'
      rw [dflt_reval ov start0 (.int 0) rfl, dflt_reval ov step0 (.int 1) rfl]
      have hstep := usesDep_of_step ov (dep := dep) (cmd := "map") (name := n) (args := [.str s, a, b, c]) (Or.inr (Or.inl rfl))
      refine val_post ov rfl rfl (Or.inl rfl) (fun hcn => ?_)
      have hf := (hinv s src hget).2 ((hstep hcn).1 (.str s) (by simp))
      have hfa := atom_fixed ov hinv (bound_atom ha).1 (bound_atom ha).2 ((hstep hcn).1 a (by simp)) hstart
      have hfb := atom_fixed ov hinv (bound_atom hb).1 (bound_atom hb).2 ((hstep hcn).1 b (by simp)) hstop0
      have hfc := atom_fixed ov hinv (bound_atom hc).1 (bound_atom hc).2 ((hstep hcn).1 c (by simp)) hstep0
      have hfs := hstopfix hf (by rw [← asIntegerV_reval, hfb])
      simp only [reval, hf, hfs, ← dflt_reval ov start0 (.int 0) rfl, ← dflt_reval ov step0 (.int 1) rfl, hfa, hfc]

end Jaqal.FillIn
