import JaqalProofs.Lemmas.PassTextSubs
/-!
# Kernel evaluations for `Props/C10Text.lean`: non-vacuity (split off to keep each file fast)

The example of C01 (`C01.exSx` / `C01.exC`: lets of both kinds, a let-sized register, the three alias forms — a slice among
them —, a macro whose parameter shadows a let, nested blocks, a loop, subcircuits with and without a count) pushed through
passes; of the result `c'`: `printable`, `IntsBounded`, the tree `unbuild c'` of its text builds (no gate set) to a circuit
`c2`, `c'` has a meaning, and `c2` has the same gate applications in the same order (`Sem.flat` of the meanings;
`Sem` has no decidable equality).
-/
set_option linter.unusedVariables false
namespace Jaqal.PassText
open Jaqal Jaqal.Sem Jaqal.Builder Jaqal.Pipeline Jaqal.RoundTrip Jaqal.Passes

/-- layers A (printable), B's integer half and C (up to `Sem.flat`) evaluated on the result of a pass sequence -/
def textCheck (π : List Pass) (c : Circuit) : Bool :=
  match applySeq π c with
  | .ok c' =>
    printable c' && decide (IntsBounded c') &&
      (match parseBuild {} (unbuild c') with
       | .ok c2 =>
         ((meaning [] c2).toOption.map Sem.flat == (meaning [] c').toOption.map Sem.flat) && (meaning [] c').toOption.isSome
       | .error _ => false)
  | .error _ => false

/-- the preprocessing of `run_jaqal_circuit`: `expand_subcircuits`, `fill_in_let`, `expand_macros` -/
theorem exC_text_run : textCheck [.subs, .let_ [], .macros false] C01.exC = true := by decide +kernel

/-- `fill_in_let` with an override, then `fill_in_map` -/
theorem exC_text_let_map : textCheck [.let_ [("n", .int 6)], .map] C01.exC = true := by decide +kernel

/-- `expand_macros(preserve_definitions=True)` -/
theorem exC_text_macros : textCheck [.macros true] C01.exC = true := by decide +kernel

end Jaqal.PassText
