import JaqalProofs.Lemmas.WalkSpecL
/-!
# `TraceVisitor` (fuel-indexed state machine) refines the tree-recursive specification
-/
namespace Jaqal.Walk

/-- the inlined dispatch `self.visit(nxt)` of `visitBlock` -/
def childVisit (starts : List Addr) (fuel : Nat) (nxt : Stmt) (a : Addr) (st : VState) : Except VErr VState :=
  match nxt with
  | .gate _ => .error .raised
  | .block _ b => visitBlock starts fuel b a true st
  | .loop k _ b =>
    match iterate (fun cur => visitBlock starts fuel b a true
            { cur with index := st.index, objective := st.objective }) k.toNat st with
    | .error e => .error e
    | .ok st2 => if k ≤ 0 then skipLoop starts a fuel st2 else .ok st2

section unfold
variable (starts : List Addr) (f : Nat) (body : List Stmt) (addr : Addr) (first : Bool) (st : VState)

theorem visitBlock_none (h : st.objective = none) : visitBlock starts (f + 1) body addr first st = .ok st := by
  simp [visitBlock, h]

theorem visitBlock_nil (h : st.objective = some []) : visitBlock starts (f + 1) body addr first st = .ok st := by
  simp [visitBlock, h]

theorem visitBlock_mismatch {y : Nat} {ys : List Nat} (h : st.objective = some (y :: ys))
    (hne : addr ≠ (y :: ys).take addr.length) :
    visitBlock starts (f + 1) body addr first st =
      if first then .error .raised
      else if lexLt addr ((y :: ys).take addr.length) then .ok st else .error .raised := by
  simp only [visitBlock, h]
  rw [if_pos hne]

theorem visitBlock_direct {y : Nat} {ys : List Nat} {n : Nat} {nxt : Stmt} (h : st.objective = some (y :: ys))
    (heq : addr = (y :: ys).take addr.length) (hn : (y :: ys)[addr.length]? = some n)
    (hb : body[n]? = some nxt) (hlen : addr.length + 1 = (y :: ys).length) :
    visitBlock starts (f + 1) body addr first st =
      match advance starts { st with out := st.out ++ [st.index] } with
      | .error e => .error e
      | .ok st1 =>
        match st1.objective with
        | none => .ok st1
        | some _ => visitBlock starts f body addr false st1 := by
  simp only [visitBlock, h]
  rw [if_neg (by intro hne; exact hne heq)]
  simp only [hn, hb]
  rw [if_pos hlen]
  rfl

theorem visitBlock_descend {y : Nat} {ys : List Nat} {n : Nat} {nxt : Stmt} (h : st.objective = some (y :: ys))
    (heq : addr = (y :: ys).take addr.length) (hn : (y :: ys)[addr.length]? = some n)
    (hb : body[n]? = some nxt) (hlen : addr.length + 1 ≠ (y :: ys).length) :
    visitBlock starts (f + 1) body addr first st =
      match childVisit starts f nxt (addr ++ [n]) st with
      | .error e => .error e
      | .ok st2 => visitBlock starts f body addr false st2 := by
  simp only [visitBlock, h]
  rw [if_neg (by intro hne; exact hne heq)]
  simp only [hn, hb]
  rw [if_neg hlen]
  cases nxt <;> simp only [childVisit, h] <;> rfl
end unfold

/-! ### Spec-side helpers -/

/-- the start with index `k` (if any) is not inside the subtree at `a` -/
def NoHit (starts : List Addr) (a : Addr) (k : Nat) : Prop := ∀ x, starts[k]? = some x → ¬ a <+: x

mutual
  theorem noHit_stmt (starts : List Addr) : ∀ (s : Stmt) (a : Addr) (k : Nat), NoHit starts a k →
      specStmt starts s a k = ([], k)
    | .gate g, a, k, h => by
      have : starts[k]? ≠ some a := fun he => h a he (List.prefix_refl a)
      simp [specStmt, this]
    | .block p b, a, k, h => by
      simp only [specStmt]
      exact noHit_list starts b a 0 k (fun j _ _ x hx hp => h x hx (List.IsPrefix.trans (List.prefix_append a [j]) hp))
    | .loop c p b, a, k, h => by
      simp only [specStmt]
      rw [noHit_list starts b a 0 k (fun j _ _ x hx hp => h x hx (List.IsPrefix.trans (List.prefix_append a [j]) hp))]
      simp
  theorem noHit_list (starts : List Addr) : ∀ (l : List Stmt) (a : Addr) (i k : Nat),
      (∀ j, i ≤ j → j < i + l.length → NoHit starts (a ++ [j]) k) → specList starts l a i k = ([], k)
    | [], a, i, k, _ => rfl
    | s :: l, a, i, k, h => by
      simp only [specList]
      rw [noHit_stmt starts s (a ++ [i]) k (h i (Nat.le_refl _) (by simp))]
      simp only
      rw [noHit_list starts l a (i + 1) k (fun j h1 h2 => h j (by omega) (by simp at h2 ⊢; omega))]
      rfl
end

theorem specList_append (starts : List Addr) : ∀ (l₁ l₂ : List Stmt) (a : Addr) (i k : Nat),
    specList starts (l₁ ++ l₂) a i k =
      ((specList starts l₁ a i k).1 ++ (specList starts l₂ a (i + l₁.length) (specList starts l₁ a i k).2).1,
       (specList starts l₂ a (i + l₁.length) (specList starts l₁ a i k).2).2)
  | [], l₂, a, i, k => by simp [specList]
  | s :: l₁, l₂, a, i, k => by
    simp only [List.cons_append, specList, specList_append starts l₁ l₂ a (i + 1), List.length_cons,
      List.append_assoc]
    rw [show i + (l₁.length + 1) = i + 1 + l₁.length by omega]

mutual
  /-- the spec's counter never runs past the number of starts -/
  theorem specStmt_le (starts : List Addr) : ∀ (s : Stmt) (a : Addr) (k : Nat), k ≤ starts.length →
      (specStmt starts s a k).2 ≤ starts.length
    | .gate g, a, k, h => by
      simp only [specStmt]
      split
      · rename_i hk; have := (List.getElem?_eq_some_iff.mp hk).1; simp; omega
      · exact h
    | .block p b, a, k, h => by simpa [specStmt] using specList_le starts b a 0 k h
    | .loop c p b, a, k, h => by simpa [specStmt] using specList_le starts b a 0 k h
  theorem specList_le (starts : List Addr) : ∀ (l : List Stmt) (a : Addr) (i k : Nat), k ≤ starts.length →
      (specList starts l a i k).2 ≤ starts.length
    | [], a, i, k, h => by simpa [specList] using h
    | s :: l, a, i, k, h => by
      simp only [specList]
      exact specList_le starts l a (i + 1) _ (specStmt_le starts s (a ++ [i]) k h)
end

theorem listFuel_pos : ∀ l : List Stmt, 1 ≤ listFuel l
  | [] => by simp [listFuel]
  | s :: l => by simp [listFuel]; omega

theorem listFuel_append : ∀ (l₁ : List Stmt) (s : Stmt) (l₂ : List Stmt),
    1 + stmtFuel s + listFuel l₂ ≤ listFuel (l₁ ++ s :: l₂)
  | [], s, l₂ => by simp [listFuel]
  | t :: l₁, s, l₂ => by
    have := listFuel_append l₁ s l₂
    simp only [List.cons_append, listFuel]; omega

theorem validAt_append_left (pre rest : List Stmt) (j : Nat) (r : List Nat) :
    ValidAt (pre ++ rest) ((pre.length + j) :: r) ↔ ValidAt rest (j :: r) := by
  induction pre with
  | nil => simp
  | cons s pre ih =>
    rw [show (s :: pre).length + j = (pre.length + j) + 1 by simp; omega, List.cons_append,
      validAt_cons_succ]
    exact ih

theorem Vs_of_get {starts : List Addr} {body : List Stmt} {addr : Addr} (hv : Vl starts body addr 0)
    {n : Nat} {nxt : Stmt} (hb : body[n]? = some nxt) : Vs starts nxt (addr ++ [n]) := by
  intro x hx r hr
  have hval := hv x hx n r (by simp [hr])
  cases r with
  | nil =>
    obtain ⟨g, hg⟩ := hval
    rw [hb] at hg; cases hg; rfl
  | cons m r' =>
    rcases hval with ⟨p, b, hk, hval⟩ | ⟨c, p, b, hk, hval⟩
    · rw [hb] at hk; cases hk; exact hval
    · rw [hb] at hk; cases hk; exact hval

/-! ### Walker-side helpers -/

theorem advance_eq (starts : List Addr) (k : Nat) (x : Addr) (out : List Nat) (o : Option Addr)
    (hk : starts[k]? = some x) :
    advance starts ⟨k, o, out⟩ = .ok ⟨k + 1, starts[k + 1]?, out⟩ := by
  have hlt := (List.getElem?_eq_some_iff.mp hk).1
  simp only [advance]
  by_cases h : k + 1 = starts.length
  · rw [if_pos h]; simp [h]
  · rw [if_neg h]
    have : k + 1 < starts.length := by omega
    rw [List.getElem?_eq_getElem this]

/-- the skipping loop of a zero-count `LoopStatement` stops at the first start not inside the loop -/
theorem skip_lemma (starts : List Addr) (a : Addr) (ha : a ≠ []) : ∀ (d k k' f : Nat) (out : List Nat),
    k' = k + d → d + 1 ≤ f →
    (∀ j, k ≤ j → j < k' → ∃ x, starts[j]? = some x ∧ a <+: x) →
    (∀ x, starts[k']? = some x → ¬ a <+: x) →
    skipLoop starts a f ⟨k, starts[k]?, out⟩ = .ok ⟨k', starts[k']?, out⟩
  | 0, k, k', f, out, hk, hf, _, hpost => by
    obtain ⟨f, rfl⟩ : ∃ g, f = g + 1 := ⟨f - 1, by omega⟩
    have : k' = k := by omega
    subst this
    cases hx : starts[k']? with
    | none => simp [skipLoop]
    | some x =>
      cases x with
      | nil => simp [skipLoop]
      | cons y ys =>
        have := hpost _ hx
        rw [← take_eq_iff_prefix] at this
        simp only [skipLoop]
        rw [if_neg this]
  | d + 1, k, k', f, out, hk, hf, hmid, hpost => by
    obtain ⟨f, rfl⟩ : ∃ g, f = g + 1 := ⟨f - 1, by omega⟩
    obtain ⟨x, hx, hpx⟩ := hmid k (Nat.le_refl _) (by omega)
    cases x with
    | nil => obtain ⟨t, ht⟩ := hpx; simp at ht; exact absurd ht.1 ha
    | cons y ys =>
      have htake := (take_eq_iff_prefix a (y :: ys)).mpr hpx
      simp only [skipLoop, hx]
      rw [if_pos htake, advance_eq starts k _ out _ hx]
      simp only
      exact skip_lemma starts a ha d (k + 1) k' f out (by omega) (by omega)
        (fun j h1 h2 => hmid j (by omega) h2) hpost

theorem iterate_lemma (g : VState → Except VErr VState) (k k' : Nat) (o o' : Option Addr) (res : List Nat)
    (hg : ∀ cur : VState, g cur = .ok ⟨k', o', cur.out ++ res⟩) :
    ∀ (n : Nat) (st : VState), 0 < n →
      iterate g n st = .ok ⟨k', o', st.out ++ (List.replicate n res).flatten⟩
  | 0, _, h => by omega
  | 1, st, _ => by simp [iterate, hg]
  | n + 2, st, _ => by
    rw [iterate, hg]
    simp only
    rw [iterate_lemma g k k' o o' res hg (n + 1) _ (by omega)]
    simp [List.replicate_succ]

/-! ### The refinement -/

abbrev Sorted (starts : List Addr) : Prop := starts.Pairwise (fun x y => lexLt x y = true)

/-- What `visitBlock` needs from `self.visit(nxt)` on a block or loop child. -/
def ChildOK (starts : List Addr) (s : Stmt) : Prop :=
  ∀ (a : Addr) (n fuel k : Nat) (out : List Nat) (x : Addr),
    Vs starts s (a ++ [n]) → Passed starts k (a ++ [n]) → NotPassed starts k (a ++ [n]) →
    starts[k]? = some x → (a ++ [n]) <+: x → (∀ g, s ≠ .gate g) →
    stmtFuel s + starts.length + 1 ≤ fuel →
    childVisit starts fuel s (a ++ [n]) ⟨k, some x, out⟩ =
      .ok ⟨(specStmt starts s (a ++ [n]) k).2, starts[(specStmt starts s (a ++ [n]) k).2]?,
           out ++ (specStmt starts s (a ++ [n]) k).1⟩

theorem passed_le {starts : List Addr} {k : Nat} {addr : Addr} {i n : Nat} (hp : Passed starts k (addr ++ [i]))
    (h : i ≤ n) : Passed starts k (addr ++ [n]) := by
  by_cases he : i = n
  · subst he; exact hp
  · refine passed_mono starts hp ?_
    have := lexLt_sibling addr i [] n
    simp only [this, decide_eq_true_eq]; omega

theorem block_lemma {starts : List Addr} (hs : Sorted starts) (body : List Stmt) (addr : Addr)
    (hv : Vl starts body addr 0) (hch : ∀ c ∈ body, ChildOK starts c)
    (pre rest : List Stmt) (hbody : body = pre ++ rest)
    (fuel k : Nat) (out : List Nat) (first : Bool)
    (hfuel : listFuel rest + starts.length + 1 ≤ fuel)
    (hp : Passed starts k (addr ++ [pre.length])) (hn : NotPassed starts k (addr ++ [pre.length]))
    (hfirst : first = true → ∀ x, starts[k]? = some x → addr <+: x) :
    visitBlock starts fuel body addr first ⟨k, starts[k]?, out⟩ =
      .ok ⟨(specList starts rest addr pre.length k).2, starts[(specList starts rest addr pre.length k).2]?,
           out ++ (specList starts rest addr pre.length k).1⟩ := by
  obtain ⟨f, rfl⟩ : ∃ f, fuel = f + 1 := ⟨fuel - 1, by have := listFuel_pos rest; omega⟩
  cases hk : starts[k]? with
  | none =>
    rw [noHit_list starts rest addr pre.length k (fun j _ _ x hx => by rw [hk] at hx; cases hx)]
    rw [visitBlock_none _ _ _ _ _ _ rfl]
    simp [hk]
  | some x =>
    cases x with
    | nil =>
      rw [noHit_list starts rest addr pre.length k (fun j _ _ x hx hpx => by
        rw [hk] at hx; cases hx; obtain ⟨t, ht⟩ := hpx; simp at ht)]
      rw [visitBlock_nil _ _ _ _ _ _ rfl]
      simp [hk]
    | cons y ys =>
      have hmem : (y :: ys) ∈ starts := List.mem_of_getElem? hk
      have hnk := hn k _ (Nat.le_refl _) hk
      by_cases hpre : addr <+: (y :: ys)
      · obtain ⟨r, hr⟩ := hpre
        cases r with
        | nil =>
          exfalso
          simp only [List.append_nil] at hr
          rw [← hr, lexLt_prefix] at hnk; cases hnk
        | cons n r' =>
          have hx : y :: ys = addr ++ n :: r' := hr.symm
          have hin : pre.length ≤ n := by
            rw [hx, lexLt_sibling] at hnk; simpa using hnk
          have hval : ValidAt body (n :: r') := hv _ hmem n r' (by simp [hx])
          have hnlt := validAt_lt hval
          have hnxt : body[n]? = some body[n] := List.getElem?_eq_getElem hnlt
          generalize body[n] = nxt at hnxt
          -- split `rest` around the child
          have hd : n - pre.length < rest.length := by
            rw [hbody, List.length_append] at hnlt; omega
          have hrest_get : rest[n - pre.length]? = some nxt := by
            rw [hbody, List.getElem?_append_right hin] at hnxt; exact hnxt
          have hsplit : rest = rest.take (n - pre.length) ++ nxt :: rest.drop (n - pre.length + 1) := by
            have h1 : rest[n - pre.length] = nxt := by
              have := List.getElem?_eq_getElem hd; rw [this] at hrest_get; exact Option.some.inj hrest_get
            rw [← h1, List.getElem_cons_drop, List.take_append_drop]
          generalize hl1 : rest.take (n - pre.length) = l₁ at hsplit
          generalize rest.drop (n - pre.length + 1) = l₂ at hsplit
          have hl1len : l₁.length = n - pre.length := by rw [← hl1, List.length_take]; omega
          have hidx : pre.length + l₁.length = n := by omega
          -- the spec skips the statements before the child
          have hskip : specList starts l₁ addr pre.length k = ([], k) := by
            apply noHit_list
            intro j h1 h2 z hz hpz
            rw [hk] at hz; cases hz
            obtain ⟨t, ht⟩ := hpz
            rw [hx] at ht
            simp only [List.append_assoc, List.singleton_append, List.append_cancel_left_eq, List.cons.injEq] at ht
            omega
          have hspec : specList starts rest addr pre.length k =
              ((specStmt starts nxt (addr ++ [n]) k).1 ++
                (specList starts l₂ addr (n + 1) (specStmt starts nxt (addr ++ [n]) k).2).1,
               (specList starts l₂ addr (n + 1) (specStmt starts nxt (addr ++ [n]) k).2).2) := by
            rw [hsplit, specList_append, hskip]
            simp only [specList, hidx, List.nil_append]
          -- invariants at the child
          have hp' : Passed starts k (addr ++ [n]) := passed_le hp hin
          have hn' : NotPassed starts k (addr ++ [n]) := by
            intro j z hj hz
            by_cases hjk : j = k
            · subst hjk; rw [hk] at hz; cases hz; rw [hx, lexLt_sibling]; simp
            · have hlt := List.pairwise_iff_getElem.mp hs k j (List.getElem?_eq_some_iff.mp hk).1
                (List.getElem?_eq_some_iff.mp hz).1 (by omega)
              rw [(List.getElem?_eq_some_iff.mp hk).2, (List.getElem?_eq_some_iff.mp hz).2] at hlt
              cases h : lexLt z (addr ++ [n]) with
              | false => rfl
              | true =>
                have := lexLt_trans hlt h
                rw [hx, lexLt_sibling] at this; simp at this
          have hvs : Vs starts nxt (addr ++ [n]) := Vs_of_get hv hnxt
          obtain ⟨_, _, hp1, hn1⟩ := spec_stmt hs nxt addr n k hvs hp' hn'
          -- facts for unfolding
          have htake : addr = (y :: ys).take addr.length := by rw [hx]; simp
          have hget : (y :: ys)[addr.length]? = some n := by rw [hx]; simp
          -- the continuation after the child
          have hfuel2 : listFuel l₂ + starts.length + 1 ≤ f ∧ stmtFuel nxt + starts.length + 1 ≤ f := by
            have := listFuel_append l₁ nxt l₂; rw [← hsplit] at this; omega
          have hcont : ∀ (out' : List Nat),
              visitBlock starts f body addr false
                ⟨(specStmt starts nxt (addr ++ [n]) k).2, starts[(specStmt starts nxt (addr ++ [n]) k).2]?, out'⟩ =
              .ok ⟨(specList starts l₂ addr (n + 1) (specStmt starts nxt (addr ++ [n]) k).2).2,
                   starts[(specList starts l₂ addr (n + 1) (specStmt starts nxt (addr ++ [n]) k).2).2]?,
                   out' ++ (specList starts l₂ addr (n + 1) (specStmt starts nxt (addr ++ [n]) k).2).1⟩ := by
            intro out'
            have hlen : (pre ++ l₁ ++ [nxt]).length = n + 1 := by simp; omega
            have := block_lemma hs body addr hv hch (pre ++ l₁ ++ [nxt]) l₂
              (by rw [hbody, hsplit]; simp) f (specStmt starts nxt (addr ++ [n]) k).2 out' false hfuel2.1
              (by rw [hlen]; exact hp1) (by rw [hlen]; exact hn1) (by intro h; cases h)
            rw [hlen] at this
            exact this
          rw [hspec]
          cases r' with
          | nil =>
            -- the objective is this very statement: process_trace
            obtain ⟨g, hg⟩ := hval
            rw [hnxt] at hg; cases hg
            have hlen : addr.length + 1 = (y :: ys).length := by rw [hx]; simp
            rw [visitBlock_direct starts f body addr first _ rfl htake hget hnxt hlen]
            have hkx : starts[k]? = some (addr ++ [n]) := by rw [hk, hx]
            have hsp : specStmt starts (.gate g) (addr ++ [n]) k = ([k], k + 1) := by simp [specStmt, hkx]
            simp only [advance_eq starts k _ _ _ hk]
            rw [hsp] at hcont ⊢
            simp only at hcont ⊢
            cases hk1 : starts[k + 1]? with
            | none =>
              simp only
              rw [noHit_list starts l₂ addr (n + 1) (k + 1) (fun j _ _ z hz => by rw [hk1] at hz; cases hz)]
              simp [hk1]
            | some o =>
              simp only
              have := hcont (out ++ [k])
              rw [hk1] at this
              rw [this]; simp [List.append_assoc]
          | cons m r'' =>
            have hlen : addr.length + 1 ≠ (y :: ys).length := by rw [hx]; simp
            rw [visitBlock_descend starts f body addr first _ rfl htake hget hnxt hlen]
            have hnotgate : ∀ g, nxt ≠ .gate g := by
              intro g hg; subst hg
              rcases hval with ⟨p, b, hb, _⟩ | ⟨c, p, b, hb, _⟩ <;> (rw [hnxt] at hb; cases hb)
            have hmemc : nxt ∈ body := List.mem_of_getElem? hnxt
            have hc := hch nxt hmemc addr n f k out (y :: ys) hvs hp' hn' hk ⟨m :: r'', by rw [hx]; simp⟩
              hnotgate hfuel2.2
            rw [hc]
            simp only
            rw [hcont]; simp [List.append_assoc]
      · -- the objective is not inside this block: return
        have hnh : specList starts rest addr pre.length k = ([], k) := by
          apply noHit_list
          intro j _ _ z hz hpz
          rw [hk] at hz; cases hz
          exact hpre (List.IsPrefix.trans (List.prefix_append addr [j]) hpz)
        have hne : addr ≠ (y :: ys).take addr.length := by
          intro h; exact hpre ((take_eq_iff_prefix addr (y :: ys)).mp h.symm)
        rw [visitBlock_mismatch starts f body addr first _ rfl hne, hnh]
        cases first with
        | true => exact absurd (hfirst rfl _ hk) hpre
        | false =>
          have hge : lexLt (y :: ys) addr = false := by
            cases h : lexLt (y :: ys) addr with
            | false => rfl
            | true =>
              have := lexLt_trans h (lexLt_prefix addr pre.length [])
              rw [hnk] at this; cases this
          simp [lexLt_take_of_ge addr (y :: ys) hge hpre, hk]
termination_by rest.length
decreasing_by
  rw [hsplit]; simp; omega

/-- body of a block or loop child: one walk of `visitBlock … true` -/
theorem body_walk {starts : List Addr} (hs : Sorted starts) (b : List Stmt) (hch : ∀ c ∈ b, ChildOK starts c)
    (a : Addr) (n fuel k : Nat) (out : List Nat) (x : Addr)
    (hv : ∀ z ∈ starts, ∀ r, z = (a ++ [n]) ++ r → ValidAt b r)
    (hp : Passed starts k (a ++ [n])) (hn : NotPassed starts k (a ++ [n]))
    (hk : starts[k]? = some x) (hpx : (a ++ [n]) <+: x)
    (hfuel : listFuel b + starts.length + 1 ≤ fuel) :
    visitBlock starts fuel b (a ++ [n]) true ⟨k, some x, out⟩ =
      .ok ⟨(specList starts b (a ++ [n]) 0 k).2, starts[(specList starts b (a ++ [n]) 0 k).2]?,
           out ++ (specList starts b (a ++ [n]) 0 k).1⟩ := by
  have hne : ∀ z ∈ starts, z ≠ a ++ [n] := by
    intro z hz he
    have := hv z hz [] (by simp [he])
    simp [ValidAt] at this
  obtain ⟨hp0, hn0⟩ := enter_block hp hn hne
  have := block_lemma hs b (a ++ [n]) (Vl_of_Vs_block starts hv) hch [] b rfl fuel k out true hfuel
    (by simpa using hp0) (by simpa using hn0) (by intro _ z hz; rw [hk] at hz; cases hz; exact hpx)
  rw [hk] at this
  simpa using this

mutual
  theorem childOK_stmt {starts : List Addr} (hs : Sorted starts) : ∀ s : Stmt, ChildOK starts s
    | .gate g => by
      intro a n fuel k out x _ _ _ _ _ hng _
      exact absurd rfl (hng g)
    | .block p b => by
      intro a n fuel k out x hv hp hn hk hpx _ hfuel
      simp only [childVisit, specStmt]
      exact body_walk hs b (childOK_list hs b) a n fuel k out x hv hp hn hk hpx (by simpa [stmtFuel] using hfuel)
    | .loop c p b => by
      intro a n fuel k out x hv hp hn hk hpx _ hfuel
      have hfuel' : listFuel b + starts.length + 1 ≤ fuel := by simpa [stmtFuel] using hfuel
      have hwalk := fun out' => body_walk hs b (childOK_list hs b) a n fuel k out' x hv hp hn hk hpx hfuel'
      simp only [childVisit, specStmt]
      by_cases hc : c ≤ 0
      · -- zero iterations: skip every trace that starts inside the loop
        have h0 : c.toNat = 0 := by omega
        rw [h0]
        simp only [iterate, List.replicate_zero, List.flatten_nil, List.append_nil]
        rw [if_pos hc]
        obtain ⟨_, hle, hp1, hn1⟩ := spec_stmt hs (.loop c p b) a n k hv hp hn
        simp only [specStmt] at hle hp1 hn1
        have := skip_lemma starts (a ++ [n]) (by simp) ((specList starts b (a ++ [n]) 0 k).2 - k) k
          (specList starts b (a ++ [n]) 0 k).2 fuel out (by omega)
          (by have := (List.getElem?_eq_some_iff.mp hk).1
              have hk'le : (specList starts b (a ++ [n]) 0 k).2 ≤ starts.length := by
                -- an index that is Passed must be < length … use NotPassed/Passed on a start ≥ length is vacuous;
                -- bound instead via Passed: every index below k' has a start
                refine Nat.le_of_not_lt (fun hgt => ?_)
                -- k' > length ≥ k+1 : index `length` < k' has no start; derive contradiction from the spec counter bound below
                exact absurd hgt (Nat.not_lt.mpr (specList_le starts b (a ++ [n]) 0 k (by omega)))
              omega)
          ?_ ?_
        · rw [hk] at this; exact this
        · intro j h1 h2
          have hjlt : j < starts.length := by
            have := specList_le starts b (a ++ [n]) 0 k (by have := (List.getElem?_eq_some_iff.mp hk).1; omega)
            omega
          refine ⟨starts[j], List.getElem?_eq_getElem hjlt, ?_⟩
          have hz := List.getElem?_eq_getElem hjlt
          obtain ⟨r, hr⟩ := between_siblings a n _ (hn j _ h1 hz) (hp1 j _ h2 hz)
          exact ⟨r, by rw [hr]; simp⟩
        · intro z hz hpz
          obtain ⟨t, ht⟩ := hpz
          have := hn1 _ z (Nat.le_refl _) hz
          rw [← ht, List.append_assoc, List.singleton_append, lexLt_sibling] at this
          simp at this
      · have hpos : 0 < c.toNat := by omega
        rw [iterate_lemma _ k _ (some x) _ _ (fun cur => hwalk cur.out) c.toNat _ hpos]
        simp only
        rw [if_neg hc]
  theorem childOK_list {starts : List Addr} (hs : Sorted starts) : ∀ (l : List Stmt), ∀ c ∈ l, ChildOK starts c
    | [], c, h => by cases h
    | s :: l, c, h => by
      rcases List.mem_cons.mp h with h | h
      · rw [h]; exact childOK_stmt hs s
      · exact childOK_list hs l c h
end

end Jaqal.Walk
