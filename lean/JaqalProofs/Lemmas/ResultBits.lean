import JaqalModel.Model.Result
/-! Bit-level lemmas about `asBits` / `intBase2` (core Lean only). -/
namespace Jaqal.Result

/-- number of binary digits of `n` (0 for 0). -/
def bitLen (n : Nat) : Nat := if n = 0 then 0 else n.log2 + 1

/-- number of characters `as_str` produces: `max k (len(f"{n:b}"))`. -/
def width (k n : Nat) : Nat := max k (max 1 (bitLen n))

/-- the first `m` bits of `n`, least significant first. -/
def lowBits (m n : Nat) : List Bool := (List.range m).map n.testBit

theorem lowBits_succ (m n : Nat) : lowBits (m+1) n = (n % 2 == 1) :: lowBits m (n / 2) := by
  unfold lowBits
  rw [List.range_succ_eq_map]
  simp only [List.map_cons, List.map_map, Nat.testBit_zero]
  congr 1
  apply List.map_congr_left
  intro i _
  simp [Nat.testBit_succ]

theorem bitLen_succ {n : Nat} (h : n ≠ 0) : bitLen n = bitLen (n / 2) + 1 := by
  unfold bitLen
  rw [if_neg h]
  by_cases h2 : n / 2 = 0
  · rw [if_pos h2]
    have : n = 1 := by omega
    subst this
    simp [Nat.log2_def]
  · rw [if_neg h2, Nat.log2_def n, if_pos (by omega)]

theorem lt_two_pow_bitLen (n : Nat) : n < 2 ^ bitLen n := by
  unfold bitLen
  split
  · omega
  · rename_i h
    exact (Nat.log2_lt h).mp (Nat.lt_succ_self _)

theorem bitLen_le_iff {n k : Nat} : bitLen n ≤ k ↔ n < 2 ^ k := by
  unfold bitLen
  split
  · rename_i h; subst h; simp [Nat.two_pow_pos]
  · rename_i h
    rw [← Nat.log2_lt h]; omega

theorem binMSBAux_eq (fuel : Nat) : ∀ (n : Nat) (acc : List Bool), n ≤ fuel →
    binMSBAux fuel n acc = (lowBits (bitLen n) n).reverse ++ acc := by
  induction fuel with
  | zero =>
    intro n acc h
    have : n = 0 := by omega
    subst this
    simp [binMSBAux, bitLen, lowBits]
  | succ fuel ih =>
    intro n acc h
    unfold binMSBAux
    by_cases hn : n = 0
    · subst hn; simp [bitLen, lowBits]
    · rw [if_neg hn, ih (n / 2) _ (by omega), bitLen_succ hn, lowBits_succ]
      simp

theorem binMSB_eq (n : Nat) : binMSB n = (lowBits (max 1 (bitLen n)) n).reverse := by
  unfold binMSB
  split
  · rename_i h; subst h; simp [bitLen, lowBits]
  · rename_i h
    rw [binMSBAux_eq n n [] (Nat.le_refl _)]
    have : 1 ≤ bitLen n := by unfold bitLen; rw [if_neg h]; omega
    rw [Nat.max_eq_right this]; simp

theorem lowBits_length (m n : Nat) : (lowBits m n).length = m := by simp [lowBits]

theorem lowBits_pad {n m w : Nat} (h : n < 2 ^ m) (hw : m ≤ w) :
    lowBits m n ++ List.replicate (w - m) false = lowBits w n := by
  apply List.ext_getElem
  · simp [lowBits]; omega
  · intro i h1 h2
    simp only [lowBits, List.getElem_append, List.length_map, List.length_range, List.getElem_map,
      List.getElem_range, List.getElem_replicate]
    split
    · rfl
    · rename_i hi
      have : n < 2 ^ i := Nat.lt_of_lt_of_le h (Nat.pow_le_pow_right (by omega) (by omega))
      exact (Nat.testBit_lt_two_pow this).symm

theorem asBits_eq (k n : Nat) : asBits k n = lowBits (width k n) n := by
  unfold asBits zfill width
  rw [binMSB_eq]
  simp only [List.reverse_append, List.reverse_reverse, List.reverse_replicate, List.length_reverse,
    lowBits_length]
  have hlt : n < 2 ^ (max 1 (bitLen n)) :=
    Nat.lt_of_lt_of_le (lt_two_pow_bitLen n) (Nat.pow_le_pow_right (by omega) (Nat.le_max_right _ _))
  by_cases hk : max 1 (bitLen n) ≤ k
  · rw [Nat.max_eq_left hk]
    exact lowBits_pad hlt hk
  · have : k - max 1 (bitLen n) = 0 := by omega
    have h2 : max k (max 1 (bitLen n)) = max 1 (bitLen n) := by omega
    rw [this, h2]
    simp

theorem width_of_lt {k n : Nat} (hk : 0 < k) (h : n < 2 ^ k) : width k n = k := by
  have := bitLen_le_iff.mpr h
  unfold width; omega

theorem width_of_ge {k n : Nat} (h : 2 ^ k ≤ n) : width k n = n.log2 + 1 ∧ k < n.log2 + 1 := by
  have hn : n ≠ 0 := by have := Nat.two_pow_pos k; omega
  have h1 : ¬ bitLen n ≤ k := by rw [bitLen_le_iff]; omega
  have h2 : bitLen n = n.log2 + 1 := by unfold bitLen; rw [if_neg hn]
  unfold width; omega

/-! ### value of a bit list -/

/-- value of a bit list, least significant first. -/
def valLSB : List Bool → Nat
  | [] => 0
  | b :: bs => b.toNat + 2 * valLSB bs

theorem valLSB_lowBits (m : Nat) : ∀ n, valLSB (lowBits m n) = n % 2 ^ m := by
  induction m with
  | zero => intro n; simp [lowBits, valLSB, Nat.mod_one]
  | succ m ih =>
    intro n
    rw [lowBits_succ, valLSB, ih, Nat.pow_succ', Nat.mod_mul]
    congr 1
    have := Nat.mod_two_eq_zero_or_one n
    rcases this with h | h <;> simp [h]

theorem valLSB_lt (l : List Bool) : valLSB l < 2 ^ l.length := by
  induction l with
  | nil => simp [valLSB]
  | cons b bs ih =>
    simp only [valLSB, List.length_cons, Nat.pow_succ']
    cases b <;> simp <;> omega

theorem lowBits_valLSB (l : List Bool) : lowBits l.length (valLSB l) = l := by
  induction l with
  | nil => simp [lowBits]
  | cons b bs ih =>
    rw [List.length_cons, lowBits_succ, valLSB]
    have h1 : (b.toNat + 2 * valLSB bs) / 2 = valLSB bs := by cases b <;> simp <;> omega
    have h2 : ((b.toNat + 2 * valLSB bs) % 2 == 1) = b := by cases b <;> simp <;> omega
    rw [h1, h2, ih]

/-! ### `int(s, 2)` -/

theorem intBase2_of_ne_nil {cs : List Char} (h : cs ≠ []) :
    intBase2 cs = cs.foldlM (fun acc c => if c = '0' then some (2 * acc) else if c = '1' then some (2 * acc + 1) else none) 0 := by
  cases cs with
  | nil => exact absurd rfl h
  | cons c cs => rfl

theorem intBase2_bits (l : List Bool) (h : l ≠ []) :
    intBase2 ((l.map bitChar).reverse) = some (valLSB l) := by
  rw [intBase2_of_ne_nil (by simpa using h), List.foldlM_reverse]
  clear h
  induction l with
  | nil => simp [valLSB]
  | cons b bs ih =>
    simp only [List.map_cons, List.foldrM_cons, ih, valLSB]
    cases b <;> simp [bitChar] <;> omega

/-- a 0/1 character list is the image of its bit list -/
theorem chars_eq_map_bitChar (cs : List Char) (h : ∀ c ∈ cs, c = '0' ∨ c = '1') :
    (cs.map (fun c => c == '1')).map bitChar = cs := by
  induction cs with
  | nil => rfl
  | cons c cs ih =>
    simp only [List.map_cons]
    rw [ih (fun c hc => h c (List.mem_cons_of_mem _ hc))]
    rcases h c (List.mem_cons_self ..) with hc | hc <;> subst hc <;> simp [bitChar]

theorem bitChar_injective : ∀ a b, bitChar a = bitChar b → a = b := by
  intro a b; cases a <;> cases b <;> simp [bitChar]

end Jaqal.Result
