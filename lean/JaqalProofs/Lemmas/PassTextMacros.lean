import JaqalProofs.Lemmas.PassTextSubs
/-!
# Text of a pass result, layers A and B — `expand_macros`

* `macros_printable` (layer A): `expand_macros` keeps a legal printable circuit printable.  The splice of the two visitors is
  the splice of the generator (`okItems_spliceInto`), a substituted argument is never `None`, a count that passed
  `_validate_count` is an int, a let or a parameter (`okRef_of_badCount`), and what a macro call expands to is a plain block,
  which may stand anywhere.
* `macros_namesOK` (layer B): … and keeps the names / floats half of `LexSafe`, GIVEN `QualC c`: every qubit reference in a
  macro body names its source and its index legally, the parameters of a macro body are the macro's own, no parameter occurs
  in the body.  That is needed: `GateReplacer.visit_NamedQubit` RE-INDEXES every qubit of a macro body
  (`alias_from[alias_index]`), so a declared alias `q` (`map q r[k]`) comes out as the element `r[k]`, and an element `a[i]` of
  an unbound parameter `a` indexed by a substituted float would be called `a[0.5]`.  `NamesOK` says nothing about the source
  of a qubit that is written by its own name.  `QualC` is kept by the pass.
* `parsed_qualC`: every parsed circuit (any configuration) is `QualC` — from `parsed_namesOK`, `ScopedC`
  (`parseProgram_facts`) and a new induction over the builder's loop (`buildNoMemo_it_any`: every qubit reference is written
  as an element, so its name has a bracket, or is a declared alias, so `DeclP` speaks about its source and index).
-/
set_option linter.unusedVariables false
set_option linter.unusedSimpArgs false
namespace Jaqal.PassText
open Jaqal Jaqal.Pipeline Jaqal.RoundTrip Jaqal.ExpandMacros

theorem bnd {α β : Type} {m : M α} {k : α → M β} {b : β} (h : (m >>= k) = .ok b) : ∃ a, m = .ok a ∧ k a = .ok b := by
  cases m with
  | error e => simp [bind, Except.bind] at h
  | ok a => exact ⟨a, rfl, h⟩

/-! ## layer A -/

theorem okItems_spliceInto (par : Bool) (s : Stmt) (r : List Stmt) :
    okItems par (spliceInto par s r) = (okIn par s && okItems par r) := by
  unfold spliceInto
  split
  · next p it b =>
    split
    · next hp => subst hp; rw [okItems_append, okIn_block_plain]
    · rw [okItems_cons]
  · rw [okItems_cons]

theorem okRef_of_badCount {c : Val} (h : badCount c = false) : okRef c = true := by
  cases c <;> simp [badCount] at h <;> rfl

theorem mkBlock_inv {par sub : Bool} {it : Val} {l : List Stmt} {s : Stmt} (h : mkBlock par sub it l = .ok s) :
    s = .block par sub it l ∧ badCount it = false := by
  refine ⟨mkBlock_ok h, ?_⟩
  unfold mkBlock at h
  split at h
  · cases h
  · split at h
    · cases h
    · rename_i hc; simpa using hc

theorem substVal_okArg {args : List (String × Val)} (hargs : ∀ a ∈ args, okArg a.2 = true) {v v' : Val}
    (hv : okArg v = true) (h : substVal args v = .ok v') : okArg v' = true := by
  cases v with
  | param n k =>
    rcases substVal_param h with hl | ⟨_, rfl⟩
    · obtain ⟨e, he, rfl⟩ := lookupArg_mem hl; exact hargs e he
    · rfl
  | qubit n s i =>
    obtain ⟨s', i', nm, _, _, _, _, rfl⟩ := substVal_qubit_inv h
    rfl
  | _ => simp only [substVal, pure, Except.pure, Except.ok.injEq] at h; subst h; exact hv

theorem substArgs_okArgs {args : List (String × Val)} (hargs : ∀ a ∈ args, okArg a.2 = true) :
    ∀ (gargs new : List (String × Val)), okArgs gargs = true → substArgs args gargs = .ok new →
      new.map (·.1) = gargs.map (·.1) ∧ okArgs new = true
  | [], new, _, h => by simp only [substArgs, pure, Except.pure, Except.ok.injEq] at h; subst h; simp [okArgs]
  | (n, v) :: rest, new, hg, h => by
    simp only [substArgs] at h
    obtain ⟨v', h1, h⟩ := bnd h
    obtain ⟨rest', h2, h⟩ := bnd h
    simp only [pure, Except.pure, Except.ok.injEq] at h; subst h
    simp only [okArgs, Bool.and_eq_true] at hg
    obtain ⟨i1, i2⟩ := substArgs_okArgs hargs rest rest' hg.2 h2
    exact ⟨by simp [i1], by simp [okArgs, substVal_okArg hargs hg.1 h1, i2]⟩

theorem okArgs_mem : ∀ {l : List (String × Val)}, okArgs l = true → ∀ a ∈ l, okArg a.2 = true
  | [], _, a, ha => by cases ha
  | x :: r, h, a, ha => by
    simp only [okArgs, Bool.and_eq_true] at h
    rcases List.mem_cons.1 ha with rfl | ha
    · exact h.1
    · exact okArgs_mem h.2 a ha

section layerA
variable (ms : List Macro)

/-- what `call` (= `replace_gate`) returns may stand anywhere -/
def CallA (call : Stmt → M Stmt) : Prop :=
  ∀ (n : String) (gd : GateDef) (a : List (String × Val)) (g' : Stmt), okArgs a = true →
    call (.gate n gd a) = .ok g' → ∀ par, okIn par g' = true

mutual
  theorem replStmt_okIn (call : Stmt → M Stmt) (hc : CallA call) (args : List (String × Val))
      (hargs : ∀ a ∈ args, okArg a.2 = true) :
      ∀ (s s' : Stmt) (par : Bool), wfStmt ms s = true → okIn par s = true → replStmt call args s = .ok s' →
        okIn par s' = true
    | .gate n gd gargs, s', par, hw, ho, h => by
      simp only [replStmt] at h
      obtain ⟨new, h1, h⟩ := bnd h
      obtain ⟨g, h2, h⟩ := bnd h
      rw [okIn_gate] at ho
      obtain ⟨hn, hnew⟩ := substArgs_okArgs hargs gargs new ho h1
      simp only [wfStmt, wfGate, Bool.and_eq_true, beq_iff_eq, decide_eq_true_eq] at hw
      obtain ⟨⟨⟨⟨hname, hnames⟩, hnd⟩, _⟩, hfm⟩ := hw
      have hg := callKw_ok h2 (by rw [hn]; exact hnames) hnd
      subst hg
      exact hc _ _ _ _ hnew h par
    | .loop c (.block q sub it bb), s', par, hw, ho, h => by
      simp only [replStmt] at h
      obtain ⟨c', h1, h⟩ := bnd h
      obtain ⟨b', h2, h⟩ := bnd h
      obtain ⟨rfl, hbc⟩ := mkLoop_ok h
      obtain ⟨stmts, h3, h2⟩ := bnd h2
      obtain ⟨it', h4, h2⟩ := bnd h2
      obtain ⟨rfl, _⟩ := mkBlock_inv h2
      rw [okIn_loop] at ho ⊢
      simp only [Bool.and_eq_true, Bool.not_eq_true'] at ho
      obtain ⟨⟨⟨p1, p2⟩, p3⟩, p4⟩ := ho
      simp only [wfStmt, Bool.and_eq_true] at hw
      have := replList_okItems call hc args hargs q bb stmts hw.2.2 p4 h3
      simp [p1, p3, this, okRef_of_badCount hbc]
    | .loop c (.gate _ _ _), s', par, hw, ho, h => by simp [okIn_loop] at ho
    | .loop c (.loop _ _), s', par, hw, ho, h => by simp [okIn_loop] at ho
    | .block q true it bb, s', par, hw, ho, h => by
      simp only [replStmt] at h
      obtain ⟨stmts, h1, h⟩ := bnd h
      obtain ⟨it', h2, h⟩ := bnd h
      obtain ⟨rfl, hbc⟩ := mkBlock_inv h
      rw [okIn_block_sub] at ho ⊢
      simp only [Bool.and_eq_true, Bool.not_eq_true'] at ho
      obtain ⟨⟨⟨p1, p2⟩, p3⟩, p4⟩ := ho
      subst p2
      simp only [wfStmt, Bool.and_eq_true] at hw
      have := replList_okItems call hc args hargs false bb stmts hw.2 p4 h1
      simp [p1, this, okRef_of_badCount hbc]
    | .block q false it bb, s', par, hw, ho, h => by
      simp only [replStmt] at h
      obtain ⟨stmts, h1, h⟩ := bnd h
      obtain ⟨it', h2, h⟩ := bnd h
      obtain ⟨rfl, hbc⟩ := mkBlock_inv h
      rw [okIn_block_plain] at ho ⊢
      simp only [wfStmt, Bool.and_eq_true] at hw
      exact replList_okItems call hc args hargs q bb stmts hw.2 ho h1
  theorem replList_okItems (call : Stmt → M Stmt) (hc : CallA call) (args : List (String × Val))
      (hargs : ∀ a ∈ args, okArg a.2 = true) (par : Bool) :
      ∀ (l l' : List Stmt), wfStmtList ms l = true → okItems par l = true → replList call args par l = .ok l' →
        okItems par l' = true
    | [], l', _, _, h => by
      simp only [replList, pure, Except.pure, Except.ok.injEq] at h; subst h; exact okItems_nil par
    | s :: r, l', hw, ho, h => by
      simp only [replList] at h
      obtain ⟨s', h1, h⟩ := bnd h
      obtain ⟨r', h2, h⟩ := bnd h
      simp only [pure, Except.pure, Except.ok.injEq] at h; subst h
      simp only [wfStmtList, Bool.and_eq_true] at hw
      rw [okItems_cons, Bool.and_eq_true] at ho
      rw [okItems_spliceInto, replStmt_okIn call hc args hargs s s' par hw.1 ho.1 h1,
        replList_okItems call hc args hargs par r r' hw.2 ho.2 h2]
      rfl
end

theorem replaceGate_okIn (hwf : wfMacrosFrom ms [] ms = true) (hok : ∀ m ∈ ms, okMacro m = true) :
    ∀ (fuel : Nat), CallA (replaceGate ms fuel) := by
  intro fuel
  induction fuel with
  | zero =>
    intro n gd a g' ha h par
    simp only [replaceGate] at h
    cases hf : findMacro ms n with
    | none =>
      rw [hf] at h; simp only [pure, Except.pure, Except.ok.injEq] at h; subst h
      rw [okIn_gate]; exact ha
    | some m => rw [hf] at h; simp only at h; split at h <;> cases h
  | succ f ih =>
    intro n gd a g' ha h par
    simp only [replaceGate] at h
    cases hf : findMacro ms n with
    | none =>
      rw [hf] at h; simp only [pure, Except.pure, Except.ok.injEq] at h; subst h
      rw [okIn_gate]; exact ha
    | some m =>
      rw [hf] at h; simp only at h
      split at h
      · cases h
      · have hmem : m ∈ ms := by
          obtain ⟨_, pre, post, hsp, _⟩ := findMacro_some_split hf
          rw [hsp]; simp
        have hm := hok m hmem
        have hwm := Passes.wfMacrosFrom_mem ms [] ms hwf m hmem
        unfold okMacro at hm
        cases hb : m.body with
        | gate _ _ _ => simp [hb] at hm
        | loop _ _ => simp [hb] at hm
        | block q sub it b =>
          simp only [hb, Bool.and_eq_true, Bool.not_eq_true'] at hm
          obtain ⟨hsub, hitems⟩ := hm
          subst hsub
          rw [hb] at h hwm
          have h0 : okIn par (.block q false it b) = true := by rw [okIn_block_plain]; exact hitems
          exact replStmt_okIn ms (replaceGate ms f) ih a (okArgs_mem ha) _ g' par hwm h0 h

mutual
  theorem expStmt_okIn (call : Stmt → M Stmt) (hc : CallA call) :
      ∀ (s s' : Stmt) (par : Bool), okIn par s = true → expStmt call s = .ok s' → okIn par s' = true
    | .gate n gd gargs, s', par, ho, h => by
      simp only [expStmt] at h
      rw [okIn_gate] at ho
      exact hc _ _ _ _ ho h par
    | .loop c (.block q sub it bb), s', par, ho, h => by
      simp only [expStmt] at h
      obtain ⟨b', h2, h⟩ := bnd h
      obtain ⟨rfl, hbc⟩ := mkLoop_ok h
      obtain ⟨stmts, h3, h2⟩ := bnd h2
      obtain ⟨rfl, _⟩ := mkBlock_inv h2
      rw [okIn_loop] at ho ⊢
      simp only [Bool.and_eq_true, Bool.not_eq_true'] at ho
      obtain ⟨⟨⟨p1, p2⟩, p3⟩, p4⟩ := ho
      have := expList_okItems call hc q bb stmts p4 h3
      simp [p1, p2, p3, this]
    | .loop c (.gate _ _ _), s', par, ho, h => by simp [okIn_loop] at ho
    | .loop c (.loop _ _), s', par, ho, h => by simp [okIn_loop] at ho
    | .block q true it bb, s', par, ho, h => by
      simp only [expStmt] at h
      obtain ⟨stmts, h1, h⟩ := bnd h
      obtain ⟨rfl, hbc⟩ := mkBlock_inv h
      rw [okIn_block_sub] at ho ⊢
      simp only [Bool.and_eq_true, Bool.not_eq_true'] at ho
      obtain ⟨⟨⟨p1, p2⟩, p3⟩, p4⟩ := ho
      subst p2
      have := expList_okItems call hc false bb stmts p4 h1
      simp [p1, p3, this]
    | .block q false it bb, s', par, ho, h => by
      simp only [expStmt] at h
      obtain ⟨stmts, h1, h⟩ := bnd h
      obtain ⟨rfl, hbc⟩ := mkBlock_inv h
      rw [okIn_block_plain] at ho ⊢
      exact expList_okItems call hc q bb stmts ho h1
  theorem expList_okItems (call : Stmt → M Stmt) (hc : CallA call) (par : Bool) :
      ∀ (l l' : List Stmt), okItems par l = true → expList call par l = .ok l' → okItems par l' = true
    | [], l', _, h => by
      simp only [expList, pure, Except.pure, Except.ok.injEq] at h; subst h; exact okItems_nil par
    | s :: r, l', ho, h => by
      simp only [expList] at h
      obtain ⟨s', h1, h⟩ := bnd h
      obtain ⟨r', h2, h⟩ := bnd h
      simp only [pure, Except.pure, Except.ok.injEq] at h; subst h
      rw [okItems_cons, Bool.and_eq_true] at ho
      rw [okItems_spliceInto, expStmt_okIn call hc s s' par ho.1 h1, expList_okItems call hc par r r' ho.2 h2]
      rfl
end

end layerA

/-- **layer A for `expand_macros`**: a legal printable circuit stays printable -/
theorem macros_printable {p : Bool} {c c' : Circuit} (hL : Passes.Legal c) (hp : printable c = true)
    (h : Passes.apply (.macros p) c = .ok c') : printable c' = true := by
  have h' : expandMacros p c = .ok c' := h
  obtain ⟨bs, hb⟩ := hL.wf2.body
  obtain ⟨body, stmts, hexp, hs, rfl⟩ := Jaqal.ExpandMacros.expand_ok h'
  have hw := hL.wf1
  simp only [WellFormed, Bool.and_eq_true] at hw
  obtain ⟨⟨⟨⟨hwm, hwb⟩, _⟩, hTb⟩, hTm⟩ := hw
  simp only [Pipeline.printable, Bool.and_eq_true] at hp ⊢
  obtain ⟨⟨⟨⟨h1, h2⟩, h3⟩, h4⟩, h5⟩ := hp
  have hok : ∀ m ∈ c.macros, okMacro m = true := by simpa [List.all_eq_true] using h4
  have hcall := replaceGate_okIn c.macros hwm hok c.macros.length
  rw [hb] at hexp h5
  simp only [expStmt] at hexp
  obtain ⟨l, hl, hexp⟩ := bnd hexp
  obtain ⟨rfl, _⟩ := mkBlock_inv hexp
  simp only [statementsOf, pure, Except.pure, Except.ok.injEq] at hs; subst hs
  simp only [] at h5
  rw [all_okTop] at h5
  refine ⟨⟨⟨⟨h1, h2⟩, h3⟩, ?_⟩, ?_⟩
  · cases p
    · rfl
    · exact h4
  · show l.all okTop = true
    rw [all_okTop]
    exact expList_okItems _ hcall false bs l h5 hl


theorem itemName_strIndex {an str : String} {i : Val} (hr : okRef i = true) (h : strIndex i = .ok str) :
    Builder.itemName an i = some (an ++ "[" ++ str ++ "]") := by
  cases i <;> simp [okRef] at hr <;> simp only [strIndex, pure, Except.pure, Except.ok.injEq] at h <;> subst h
  · simp [Builder.itemName, toString, NumText.genInt_eq_toString]
  · simp [Builder.itemName, toString]
  · simp [Builder.itemName, toString]

theorem checkQubit_okRef {s i : Val} (hs : isReg s = true) (h : checkQubit s (filterFloat i) = .ok ()) :
    okRef (filterFloat i) = true := by
  have hsa : avKind? s = none := by cases s <;> simp [isReg] at hs <;> rfl
  cases hi : filterFloat i with
  | int k => rfl
  | const _ _ => rfl
  | param _ _ => rfl
  | flt d =>
    exfalso
    have hd : d.isIntegral = false := by
      cases i <;> simp [filterFloat] at hi
      rename_i d'
      split at hi
      · cases hi
      · cases hi; rename_i hn; simpa using hn
    rw [hi] at h
    simp [checkQubit, hsa, avKind?, hd] at h
    cases s <;> simp [isReg] at hs <;> simp at h
  | _ =>
    exfalso
    rw [hi] at h
    simp [checkQubit, hsa, avKind?] at h
    try (cases s <;> simp [isReg] at hs <;> simp at h)

/-! ## layer B -/

section layerB
variable {P : String → Prop} {R : Dec → Prop}

/-- a gate argument inside a macro body whose parameters are `S`: a parameter is one of `S`; a qubit reference names its
source and its index legally, and a source that is a parameter is one of `S` -/
def ArgQ (P : String → Prop) (S : List String) : Val → Prop
  | .param n _ => n ∈ S
  | .qubit _ src idx => P (Pipeline.nameOf src) ∧ RefP P idx ∧ ∀ s k, src = .param s k → s ∈ S
  | _ => True

/-- a closed call argument: its names and floats are fine, it is not `None`, it is no parameter, and if it is a qubit
reference its source is no parameter and is named legally -/
def ArgC (P : String → Prop) (R : Dec → Prop) (v : Val) : Prop :=
  ArgP P R v ∧ okArg v = true ∧ ArgQ P [] v

theorem ArgC.notParam {P : String → Prop} {R : Dec → Prop} {v : Val} (h : ArgC P R v) : ExpandMacros.isParam v = false := by
  cases v <;> first | rfl | (exact absurd h.2.2 (by simp [ArgQ]))

mutual
  def QS (P : String → Prop) (S : List String) : Stmt → Prop
    | .gate _ _ args => ∀ a ∈ args, ArgQ P S a.2 ∧ okArg a.2 = true
    | .block _ _ _ b => QSL P S b
    | .loop _ b => QS P S b
  def QSL (P : String → Prop) (S : List String) : List Stmt → Prop
    | [] => True
    | s :: r => QS P S s ∧ QSL P S r
end

theorem refP_filterFloat {v : Val} (h : RefP P v) : RefP P (filterFloat v) := by
  cases v <;> try exact h
  simp only [filterFloat]; split <;> trivial

theorem refP_of_argP {v : Val} (h : ArgP P R v) : RefP P v := by
  cases v <;> trivial

/-- a substituted index / bound / count keeps legal names -/
theorem substVal_refP {args : List (String × Val)} (hargs : ∀ a ∈ args, ArgP P R a.2) {v v' : Val} (hv : RefP P v)
    (h : substVal args v = .ok v') : RefP P v' := by
  cases v with
  | param n k =>
    rcases substVal_param h with hl | ⟨_, rfl⟩
    · obtain ⟨e, he, rfl⟩ := lookupArg_mem hl; exact refP_of_argP (hargs e he)
    · exact hv
  | qubit n s i =>
    obtain ⟨s', i', nm, _, _, _, _, rfl⟩ := substVal_qubit_inv h
    trivial
  | _ => simp only [substVal, pure, Except.pure, Except.ok.injEq] at h; subst h; exact hv

theorem isReg_of_arrayLike {v : Val} (ha : isArrayLike v = true) (hp : ExpandMacros.isParam v = false) : isReg v = true := by
  cases v <;> simp [isArrayLike, ExpandMacros.isParam] at ha hp <;> rfl

theorem argP_reg {v : Val} (hr : isReg v = true) (h : ArgP P R v) : P (Pipeline.nameOf v) := by
  cases v <;> simp [isReg] at hr <;> exact h

/-- **the substitution**: a value of a macro body with the closed arguments of the call written in is a closed argument -/
theorem substVal_argC {S : List String} {args : List (String × Val)} (hargs : ∀ a ∈ args, ArgC P R a.2)
    (hcov : ∀ p ∈ S, ∃ a, lookupArg args p = some a) {v v' : Val} (hP : ArgP P R v) (hok : okArg v = true)
    (hq : ArgQ P S v) (h : substVal args v = .ok v') : ArgC P R v' := by
  cases v with
  | param n k =>
    obtain ⟨a, ha⟩ := hcov n hq
    rcases substVal_param h with hl | ⟨hl, _⟩
    · obtain ⟨e, he, rfl⟩ := lookupArg_mem hl; exact hargs e he
    · rw [ha] at hl; cases hl
  | qubit n s i =>
    obtain ⟨hPs, hRi, hsc⟩ := hq
    obtain ⟨s', i', nm, hs, ha, hi, hg, rfl⟩ := substVal_qubit_inv h
    -- the source is a register with a legal name
    have hS : isReg s' = true ∧ P (Pipeline.nameOf s') := by
      cases s with
      | param sn sk =>
        obtain ⟨a, ha'⟩ := hcov sn (hsc sn sk rfl)
        rcases substVal_param hs with hl | ⟨hl, _⟩
        · obtain ⟨e, he, rfl⟩ := lookupArg_mem hl
          have hr := isReg_of_arrayLike ha (hargs e he).notParam
          exact ⟨hr, argP_reg hr (hargs e he).1⟩
        · rw [ha'] at hl; cases hl
      | qubit _ _ _ =>
        obtain ⟨_, _, _, _, _, _, _, rfl⟩ := substVal_qubit_inv hs
        simp [isArrayLike] at ha
      | _ =>
        simp only [substVal, pure, Except.pure, Except.ok.injEq] at hs; subst hs
        exact ⟨isReg_of_arrayLike ha rfl, hPs⟩
    -- the index
    have hRi' : RefP P (filterFloat i') := refP_filterFloat (substVal_refP (fun a ha => (hargs a ha).1) hRi hi)
    -- the name is the item name
    have hn : ∃ an, s'.name? = some an := by
      cases s' <;> simp [isReg] at hS <;> exact ⟨_, rfl⟩
    obtain ⟨an, han⟩ := hn
    have hg' : (do
        checkQubit s' (filterFloat i')
        let t ← strIndex (filterFloat i')
        pure (Val.qubit (an ++ "[" ++ t ++ "]") s' (filterFloat i')) : M Val) = .ok (.qubit nm s' (filterFloat i')) := by
      unfold ExpandMacros.getItem at hg
      cases s' <;> simp [isReg] at hS <;> simp only [Val.name?, Option.some.injEq] at han hg <;> subst han <;> exact hg
    obtain ⟨u, hu, hg'⟩ := bnd hg'
    obtain ⟨t, ht, hg'⟩ := bnd hg'
    simp only [pure, Except.pure, Except.ok.injEq, Val.qubit.injEq, and_true] at hg'
    have hor := checkQubit_okRef hS.1 (by cases u; exact hu)
    have hitem : isItem nm s' (filterFloat i') = true := by
      simp only [isItem, han, hor, Bool.true_and, beq_iff_eq]
      rw [itemName_strIndex hor ht, hg']
    refine ⟨?_, rfl, hS.2, hRi', ?_⟩
    · simp only [ArgP, hitem, if_true]
      exact ⟨hS.2, hRi'⟩
    · intro sn sk hsn
      have := hS.1
      rw [hsn] at this
      simp [isReg] at this
  | _ =>
    simp only [substVal, pure, Except.pure, Except.ok.injEq] at h; subst h
    exact ⟨hP, hok, trivial⟩

theorem substArgs_argC {S : List String} {args : List (String × Val)} (hargs : ∀ a ∈ args, ArgC P R a.2)
    (hcov : ∀ p ∈ S, ∃ a, lookupArg args p = some a) :
    ∀ (gargs new : List (String × Val)), ArgsP P R gargs → (∀ a ∈ gargs, ArgQ P S a.2 ∧ okArg a.2 = true) →
      substArgs args gargs = .ok new → new.map (·.1) = gargs.map (·.1) ∧ ∀ a ∈ new, ArgC P R a.2
  | [], new, _, _, h => by simp only [substArgs, pure, Except.pure, Except.ok.injEq] at h; subst h; simp
  | (n, v) :: rest, new, hg, hq, h => by
    simp only [substArgs] at h
    obtain ⟨v', h1, h⟩ := bnd h
    obtain ⟨rest', h2, h⟩ := bnd h
    simp only [pure, Except.pure, Except.ok.injEq] at h; subst h
    simp only [ArgsP] at hg
    obtain ⟨i1, i2⟩ := substArgs_argC hargs hcov rest rest' hg.2 (fun a ha => hq a (by simp [ha])) h2
    refine ⟨by simp [i1], ?_⟩
    intro a ha
    rcases List.mem_cons.1 ha with rfl | ha
    · have := hq (n, v) (by simp)
      exact substVal_argC hargs hcov hg.1 this.2 this.1 h1
    · exact i2 a ha

theorem argsP_of_forall : ∀ {l : List (String × Val)}, (∀ a ∈ l, ArgP P R a.2) → ArgsP P R l
  | [], _ => trivial
  | x :: r, h => ⟨h x (by simp), argsP_of_forall (fun a ha => h a (by simp [ha]))⟩

theorem argsP_mem : ∀ {l : List (String × Val)}, ArgsP P R l → ∀ a ∈ l, ArgP P R a.2
  | [], _, a, ha => by cases ha
  | x :: r, h, a, ha => by
    rcases List.mem_cons.1 ha with rfl | ha
    · exact h.1
    · exact argsP_mem h.2 a ha

theorem QSL_append {S : List String} : ∀ (a b : List Stmt), QSL P S a → QSL P S b → QSL P S (a ++ b)
  | [], _, _, hb => hb
  | s :: r, b, ha, hb => ⟨ha.1, QSL_append r b ha.2 hb⟩

/-- the output predicate: legal names and floats, closed arguments -/
def OutS (P : String → Prop) (R : Dec → Prop) (s : Stmt) : Prop := StmtP P R s ∧ QS P [] s
def OutL (P : String → Prop) (R : Dec → Prop) (l : List Stmt) : Prop := ItemsP P R l ∧ QSL P [] l

theorem outL_spliceInto (par : Bool) (s : Stmt) (r : List Stmt) (hs : OutS P R s) (hr : OutL P R r) :
    OutL P R (spliceInto par s r) := by
  unfold spliceInto
  split
  · next p it b =>
    split
    · obtain ⟨h1, h2⟩ := hs
      simp only [StmtP] at h1
      simp only [QS] at h2
      exact ⟨itemsP_append _ _ h1.2 hr.1, QSL_append _ _ h2 hr.2⟩
    · exact ⟨⟨hs.1, hr.1⟩, ⟨hs.2, hr.2⟩⟩
  · exact ⟨⟨hs.1, hr.1⟩, ⟨hs.2, hr.2⟩⟩

section stm
variable (ms : List Macro)

/-- what the induction needs of a gate statement: it binds the parameters of its definition, and carries the parameters of
the macro it names -/
def GSh (n : String) (gd : GateDef) (a : List (String × Val)) : Prop :=
  a.map (·.1) = gd.params.map (·.1) ∧ ∀ m, findMacro ms n = some m → gd.params = m.params

def CallN (P : String → Prop) (R : Dec → Prop) (call : Stmt → M Stmt) : Prop :=
  ∀ (n : String) (gd : GateDef) (a : List (String × Val)) (g' : Stmt), P n → GSh ms n gd a →
    (∀ e ∈ a, ArgC P R e.2) → call (.gate n gd a) = .ok g' → OutS P R g'

theorem wfGate_inv {n : String} {gd : GateDef} {a : List (String × Val)} (h : wfGate ms n gd a = true) :
    n = gd.name ∧ a.map (·.1) = gd.params.map (·.1) ∧ (gd.params.map (·.1)).Nodup ∧
      ∀ m, findMacro ms n = some m → gd.params = m.params := by
  simp only [wfGate, Bool.and_eq_true, beq_iff_eq, decide_eq_true_eq] at h
  obtain ⟨⟨⟨⟨hname, hnames⟩, hnd⟩, _⟩, hfm⟩ := h
  refine ⟨hname, hnames, hnd, ?_⟩
  intro m hm
  rw [hm] at hfm
  simpa using hfm

mutual
  theorem replStmt_names (call : Stmt → M Stmt) (hc : CallN ms P R call) (S : List String) (args : List (String × Val))
      (hargs : ∀ a ∈ args, ArgC P R a.2) (hcov : ∀ p ∈ S, ∃ a, lookupArg args p = some a) :
      ∀ (s s' : Stmt), wfStmt ms s = true → StmtP P R s → QS P S s → replStmt call args s = .ok s' → OutS P R s'
    | .gate n gd gargs, s', hw, hp, hq, h => by
      simp only [replStmt] at h
      obtain ⟨new, h1, h⟩ := bnd h
      obtain ⟨g, h2, h⟩ := bnd h
      simp only [StmtP] at hp
      simp only [QS] at hq
      simp only [wfStmt] at hw
      obtain ⟨hname, hnames, hnd, hfm⟩ := wfGate_inv ms hw
      obtain ⟨hn, hnew⟩ := substArgs_argC hargs hcov gargs new hp.2 hq h1
      have hg := callKw_ok h2 (by rw [hn]; exact hnames) hnd
      subst hg
      exact hc _ _ _ _ (hname ▸ hp.1) ⟨by rw [hn]; exact hnames, hname ▸ hfm⟩ hnew h
    | .loop c body, s', hw, hp, hq, h => by
      simp only [replStmt] at h
      obtain ⟨c', h1, h⟩ := bnd h
      obtain ⟨b', h2, h⟩ := bnd h
      obtain ⟨rfl, _⟩ := mkLoop_ok h
      simp only [StmtP] at hp
      simp only [QS] at hq
      simp only [wfStmt, Bool.and_eq_true] at hw
      have ih := replStmt_names call hc S args hargs hcov body b' hw.2 hp.2 hq h2
      exact ⟨⟨substVal_refP (fun a ha => (hargs a ha).1) hp.1 h1, ih.1⟩, ih.2⟩
    | .block par sub it body, s', hw, hp, hq, h => by
      simp only [replStmt] at h
      obtain ⟨stmts, h1, h⟩ := bnd h
      obtain ⟨it', h2, h⟩ := bnd h
      obtain ⟨rfl, _⟩ := mkBlock_inv h
      simp only [StmtP] at hp
      simp only [QS] at hq
      simp only [wfStmt, Bool.and_eq_true] at hw
      have ih := replList_names call hc S args hargs hcov par body stmts hw.2 hp.2 hq h1
      exact ⟨⟨substVal_refP (fun a ha => (hargs a ha).1) hp.1 h2, ih.1⟩, ih.2⟩
  theorem replList_names (call : Stmt → M Stmt) (hc : CallN ms P R call) (S : List String) (args : List (String × Val))
      (hargs : ∀ a ∈ args, ArgC P R a.2) (hcov : ∀ p ∈ S, ∃ a, lookupArg args p = some a) (par : Bool) :
      ∀ (l l' : List Stmt), wfStmtList ms l = true → ItemsP P R l → QSL P S l → replList call args par l = .ok l' →
        OutL P R l'
    | [], l', _, _, _, h => by
      simp only [replList, pure, Except.pure, Except.ok.injEq] at h; subst h; exact ⟨trivial, trivial⟩
    | s :: r, l', hw, hp, hq, h => by
      simp only [replList] at h
      obtain ⟨s', h1, h⟩ := bnd h
      obtain ⟨r', h2, h⟩ := bnd h
      simp only [pure, Except.pure, Except.ok.injEq] at h; subst h
      simp only [wfStmtList, Bool.and_eq_true] at hw
      exact outL_spliceInto par s' r' (replStmt_names call hc S args hargs hcov s s' hw.1 hp.1 hq.1 h1)
        (replList_names call hc S args hargs hcov par r r' hw.2 hp.2 hq.2 h2)
end

theorem gate_out {n : String} {gd : GateDef} {a : List (String × Val)} (hn : P n) (ha : ∀ e ∈ a, ArgC P R e.2) :
    OutS P R (.gate n gd a) :=
  ⟨⟨hn, argsP_of_forall (fun e he => (ha e he).1)⟩, fun e he => ⟨(ha e he).2.2, (ha e he).2.1⟩⟩

theorem replaceGate_names (hwf : wfMacrosFrom ms [] ms = true) (hP : ∀ m ∈ ms, StmtP P R m.body)
    (hQ : ∀ m ∈ ms, QS P (m.params.map (·.1)) m.body) : ∀ (fuel : Nat), CallN ms P R (replaceGate ms fuel) := by
  intro fuel
  induction fuel with
  | zero =>
    intro n gd a g' hn hsh ha h
    simp only [replaceGate] at h
    cases hf : findMacro ms n with
    | none => rw [hf] at h; simp only [pure, Except.pure, Except.ok.injEq] at h; subst h; exact gate_out hn ha
    | some m => rw [hf] at h; simp only at h; split at h <;> cases h
  | succ f ih =>
    intro n gd a g' hn hsh ha h
    simp only [replaceGate] at h
    cases hf : findMacro ms n with
    | none => rw [hf] at h; simp only [pure, Except.pure, Except.ok.injEq] at h; subst h; exact gate_out hn ha
    | some m =>
      rw [hf] at h; simp only at h
      split at h
      · cases h
      · have hmem : m ∈ ms := by
          obtain ⟨_, pre, post, hsp, _⟩ := findMacro_some_split hf
          rw [hsp]; simp
        refine replStmt_names ms (replaceGate ms f) ih (m.params.map (·.1)) a ha ?_ m.body g'
          (Passes.wfMacrosFrom_mem ms [] ms hwf m hmem) (hP m hmem) (hQ m hmem) h
        intro p hp
        have hp' : p ∈ a.map (·.1) := by rw [hsh.1, hsh.2 m hf]; exact hp
        unfold lookupArg
        cases hfd : a.find? (fun x => x.1 == p) with
        | some e => exact ⟨e.2, rfl⟩
        | none =>
          exfalso
          obtain ⟨e, he, rfl⟩ := List.mem_map.1 hp'
          have := List.find?_eq_none.1 hfd e he
          simp at this

mutual
  theorem expStmt_names (call : Stmt → M Stmt) (hc : CallN ms P R call) :
      ∀ (s s' : Stmt), wfStmt ms s = true → StmtP P R s → QS P [] s → expStmt call s = .ok s' → OutS P R s'
    | .gate n gd gargs, s', hw, hp, hq, h => by
      simp only [expStmt] at h
      simp only [StmtP] at hp
      simp only [QS] at hq
      simp only [wfStmt] at hw
      obtain ⟨hname, hnames, hnd, hfm⟩ := wfGate_inv ms hw
      exact hc _ _ _ _ hp.1 ⟨hnames, hfm⟩ (fun e he => ⟨argsP_mem hp.2 e he, (hq e he).2, (hq e he).1⟩) h
    | .loop c body, s', hw, hp, hq, h => by
      simp only [expStmt] at h
      obtain ⟨b', h2, h⟩ := bnd h
      obtain ⟨rfl, _⟩ := mkLoop_ok h
      simp only [StmtP] at hp
      simp only [QS] at hq
      simp only [wfStmt, Bool.and_eq_true] at hw
      have ih := expStmt_names call hc body b' hw.2 hp.2 hq h2
      exact ⟨⟨hp.1, ih.1⟩, ih.2⟩
    | .block par sub it body, s', hw, hp, hq, h => by
      simp only [expStmt] at h
      obtain ⟨stmts, h1, h⟩ := bnd h
      obtain ⟨rfl, _⟩ := mkBlock_inv h
      simp only [StmtP] at hp
      simp only [QS] at hq
      simp only [wfStmt, Bool.and_eq_true] at hw
      have ih := expList_names call hc par body stmts hw.2 hp.2 hq h1
      exact ⟨⟨hp.1, ih.1⟩, ih.2⟩
  theorem expList_names (call : Stmt → M Stmt) (hc : CallN ms P R call) (par : Bool) :
      ∀ (l l' : List Stmt), wfStmtList ms l = true → ItemsP P R l → QSL P [] l → expList call par l = .ok l' → OutL P R l'
    | [], l', _, _, _, h => by
      simp only [expList, pure, Except.pure, Except.ok.injEq] at h; subst h; exact ⟨trivial, trivial⟩
    | s :: r, l', hw, hp, hq, h => by
      simp only [expList] at h
      obtain ⟨s', h1, h⟩ := bnd h
      obtain ⟨r', h2, h⟩ := bnd h
      simp only [pure, Except.pure, Except.ok.injEq] at h; subst h
      simp only [wfStmtList, Bool.and_eq_true] at hw
      exact outL_spliceInto par s' r' (expStmt_names call hc s s' hw.1 hp.1 hq.1 h1)
        (expList_names call hc par r r' hw.2 hp.2 hq.2 h2)
end

end stm
end layerB

/-- what layer B of `expand_macros` needs beyond `NamesOK`: no parameter in the body, only its own in a macro body; every
qubit reference names its source and its index legally (`NamesOK` says so only of the references written as elements) -/
structure QualC (P : String → Prop) (c : Circuit) : Prop where
  body : QS P [] c.body
  macros : ∀ m ∈ c.macros, QS P (m.params.map (·.1)) m.body

/-- **layer B for `expand_macros`**: the result of a legal, `NamesOK`, `QualC` circuit is `NamesOK` and `QualC` -/
theorem macros_namesOK {p : Bool} {c c' : Circuit} (hL : Passes.Legal c) (hn : NamesOK c) (hq : QualC LegalName c)
    (h : Passes.apply (.macros p) c = .ok c') : NamesOK c' ∧ QualC LegalName c' := by
  have h' : expandMacros p c = .ok c' := h
  obtain ⟨bs, hb⟩ := hL.wf2.body
  obtain ⟨body, stmts, hexp, hs, rfl⟩ := Jaqal.ExpandMacros.expand_ok h'
  have hw := hL.wf1
  simp only [WellFormed, Bool.and_eq_true] at hw
  obtain ⟨⟨⟨⟨hwm, hwb⟩, _⟩, hTb⟩, hTm⟩ := hw
  have hcall := replaceGate_names (P := LegalName) (R := FloatOK) c.macros hwm (fun m hm => (hn.macros m hm).2.2)
    hq.macros c.macros.length
  have hqb := hq.body
  rw [hb] at hexp hwb hqb
  simp only [expStmt] at hexp
  obtain ⟨l, hl, hexp⟩ := bnd hexp
  obtain ⟨rfl, _⟩ := mkBlock_inv hexp
  simp only [statementsOf, pure, Except.pure, Except.ok.injEq] at hs; subst hs
  simp only [wfStmt, Bool.and_eq_true] at hwb
  simp only [QS] at hqb
  have hitems : ItemsP LegalName FloatOK bs := itemsP_of_mem (by
    intro s hs; exact hn.stmts s (by rw [hb]; exact hs))
  have hout := expList_names c.macros _ hcall false bs l hwb.2 hitems hqb hl
  refine ⟨⟨hn.consts, hn.regs, ?_, ?_, hn.mods⟩, ⟨hout.2, ?_⟩⟩
  · intro m hm
    cases p
    · cases hm
    · exact hn.macros m hm
  · intro s hs
    exact itemsP_mem hout.1 s hs
  · intro m hm
    cases p
    · cases hm
    · exact hq.macros m hm

end Jaqal.PassText
namespace Jaqal.PassText
open Jaqal Jaqal.Builder Jaqal.Pipeline Jaqal.RoundTrip Jaqal.PyEq

/-! ## `QualC` of a parsed circuit -/

/-- a qubit reference is written as an element (its name has a bracket) or is a declared alias -/
def ArgIt (regs : List Val) : Val → Prop
  | .qubit n src idx => nameOK n = false ∨ Val.qubit n src idx ∈ regs
  | _ => True

theorem ArgIt.mono {regs regs' : List Val} (h : ∀ x ∈ regs, x ∈ regs') {v : Val} (hv : ArgIt regs v) : ArgIt regs' v := by
  cases v <;> try exact hv
  rcases hv with hv | hv
  · exact Or.inl hv
  · exact Or.inr (h _ hv)

theorem it_of_from {acc : Acc} (ha : RefAcc acc) (ps : List (String × Kind)) {v : Val}
    (h : QFrom (acc.ctx.withParams ps).get v) : ArgIt acc.registers v := by
  cases v <;> try trivial
  rename_i n src idx
  rcases h with ⟨hg, hn⟩ | ⟨an, hg, han, hin, hr⟩
  · rcases withParams_get hg with ⟨k, hk, _⟩ | ⟨_, hg'⟩
    · cases hk
    · obtain ⟨_, hin⟩ := ha.ctxIn n _ hg'
      rcases hin with hin | ⟨m, x, hx⟩
      · exact Or.inr hin
      · cases hx
  · exact Or.inl (itemName_bracket hin)

structure ItAcc (acc : Acc) : Prop where
  stmts : ∀ s ∈ acc.stmts, StmtAll (ArgIt acc.registers) s
  macros : ∀ m ∈ acc.macros, StmtAll (ArgIt acc.registers) m.body

theorem it_apply {a : Acc} {st : St} {o : Obj} (ha : RefAcc a) (hi : ItAcc a) (ho : ObjF a.ctx o) (hg : Guard a st o) :
    ItAcc (applyObj a st o) := by
  cases o with
  | val v =>
    obtain ⟨n, c, hv, hfresh⟩ := hg
    rw [applyObj_val hv]
    have hsub := pushVar_regs_sub a st n v c
    refine ⟨fun s hs => ?_, fun m hm => ?_⟩
    · have hs' : s ∈ a.stmts := by cases c <;> simpa [pushVar] using hs
      exact StmtAll.mono (fun w hw => ArgIt.mono hsub hw) s (hi.stmts s hs')
    · have hm' : m ∈ a.macros := by cases c <;> simpa [pushVar] using hm
      exact StmtAll.mono (fun w hw => ArgIt.mono hsub hw) m.body (hi.macros m hm')
  | «macro» m =>
    refine ⟨hi.stmts, ?_⟩
    intro w hw
    rcases mem_snoc hw with hw | rfl
    · exact hi.macros w hw
    · exact StmtAll.mono (fun v hv => it_of_from ha _ hv) _ ho
  | stmt s =>
    refine ⟨?_, hi.macros⟩
    intro w hw
    rcases mem_snoc hw with hw | rfl
    · exact hi.stmts w hw
    · have ho' : StmtAll (QFrom (a.ctx.withParams []).get) w := by rw [withParams_nil]; exact ho
      exact StmtAll.mono (fun v hv => it_of_from ha [] hv) _ ho'
  | usepulses n => exact ⟨hi.stmts, hi.macros⟩
  | case => exact hi

theorem it_loop {cfg : Config} (hauto : cfg.autoload = false)
    {inject : Option (List (String × GateDef))} {F : Nat} :
    ∀ (cs : List BSx) (a r : Acc), TopInv a → RefAcc a → ItAcc a → (∀ x ∈ cs, RoundTrip.GChild x ∧ noBr x = true) →
    circuitLoop cfg .off inject F a cs = .ok r → ItAcc r
  | [], a, r, _, _, hi, _, h => by
    simp only [circuitLoop, pure, Except.pure, Except.ok.injEq] at h
    subst h
    exact hi
  | x :: cs, a, r, ht, ha, hi, hcs, h => by
    simp only [circuitLoop] at h
    obtain ⟨a1, hstep, hrest⟩ := bind_ok h
    have hx := hcs x (by simp)
    have ht1 := (step_child hauto ht hx.1 hx.2 hstep).inv
    have ha1 := ref_step hauto ht ha hx.1 hx.2 hstep
    have hi1 : ItAcc a1 := by
      obtain ⟨o, st1, hf, htl⟩ := step_facts ht hx.1 hx.2 hstep
      obtain ⟨hg, rfl⟩ := step_apply hauto hf ht.k htl
      exact it_apply ha hi (child_from ht.ctxN ht.k hx.1 hx.2 hf.build) hg
    exact it_loop hauto cs a1 r ht1 ha1 hi1 (fun y hy => hcs y (by simp [hy])) hrest

/-- every qubit reference of a circuit built from a program of the grammar (any configuration) is written as an element
or is a declared alias -/
theorem buildNoMemo_it_any (cfg : Config) {hs bs : List BSx} {c : Circuit} (hh : ∀ e ∈ hs, GHeader e)
    (hb : ∀ e ∈ bs, GTop e) (hnb : ∀ e ∈ hs ++ bs, noBr e = true)
    (h : buildNoMemo cfg (.list (.str "circuit" :: (hs ++ bs))) = .ok c) :
    StmtAll (ArgIt c.registers) c.body ∧ ∀ m ∈ c.macros, StmtAll (ArgIt c.registers) m.body := by
  obtain ⟨cfg', inj', accF, ha', hnat, hloop, rfl⟩ := Autoload.built_plain cfg hh hb h
  have h0 : RefAcc (acc0 inj') := by
    refine ⟨?_, ?_, ?_, ?_⟩
    · intro n v hg; simp [Ctx.get, acc0] at hg
    · intro n src idx hq; simp [acc0] at hq
    · intro s hs; simp [acc0] at hs
    · intro m hm; simp [acc0] at hm
  have h1 : ItAcc (acc0 inj') := ⟨fun s hs => by simp [acc0] at hs, fun m hm => by simp [acc0] at hm⟩
  have hF := it_loop ha' _ (acc0 inj') accF (Autoload.topInv_acc0_nat cfg' hnat) h0 h1
    (fun e he => ⟨Autoload.gchild_of hh hb e he, hnb e he⟩) hloop
  refine ⟨?_, hF.macros⟩
  simp only [Acc.toCircuit, StmtAll]
  exact stmtsAll_of_forall hF.stmts


theorem legalName_ne_empty : ¬ LegalName "" := by
  rintro ⟨⟨c, a, hw, _, _⟩, _⟩
  simp at hw

theorem argQ_of {regs : List Val} (hregs : ∀ v ∈ regs, DeclP LegalName v) {S : List String} {Sb : String → Bool}
    (hSb : ∀ n, Sb n = true → n ∈ S) {v : Val} (hP : ArgP LegalName FloatOK v) (hI : ArgIt regs v)
    (hS : ParIn Sb v = true) : ArgQ LegalName S v ∧ okArg v = true := by
  cases v with
  | param n k => exact ⟨hSb n (by simpa [ParIn, parOK] using hS), rfl⟩
  | qubit n src idx =>
    refine ⟨?_, rfl⟩
    have hsc : ∀ s k, src = Val.param s k → s ∈ S := by
      intro s k hs
      subst hs
      simp only [ParIn, parOK, Bool.and_eq_true] at hS
      exact hSb s hS.1
    by_cases hit : isItem n src idx = true
    · simp only [ArgP, hit, if_true] at hP
      exact ⟨hP.1, hP.2, hsc⟩
    · simp only [ArgP, hit, Bool.false_eq_true, if_false] at hP
      have hok := legalName_nameOK hP
      rcases hI with hI | hI
      · rw [hok] at hI; cases hI
      · have := hregs _ hI
        simp only [DeclP] at this
        exact ⟨this.2.1, this.2.2, hsc⟩
  | none => exact absurd hP legalName_ne_empty
  | str _ => exact absurd hP legalName_ne_empty
  | _ => exact ⟨trivial, rfl⟩

mutual
  theorem qs_of {regs : List Val} (hregs : ∀ v ∈ regs, DeclP LegalName v) {S : List String} {Sb : String → Bool}
      (hSb : ∀ n, Sb n = true → n ∈ S) :
      ∀ (s : Stmt), StmtP LegalName FloatOK s → StmtAll (ArgIt regs) s → ScS Sb s → QS LegalName S s
    | .gate n gd args, hp, hi, hs => by
      simp only [StmtP] at hp
      simp only [StmtAll] at hi
      simp only [ScS] at hs
      simp only [QS]
      intro a ha
      exact argQ_of hregs hSb (argsP_mem hp.2 a ha) (hi a ha) (hs a ha)
    | .loop c b, hp, hi, hs => by
      simp only [StmtP] at hp
      simp only [StmtAll] at hi
      simp only [ScS] at hs
      simp only [QS]
      exact qs_of hregs hSb b hp.2 hi hs.2.2
    | .block _ _ _ body, hp, hi, hs => by
      simp only [StmtP] at hp
      simp only [StmtAll] at hi
      simp only [ScS] at hs
      simp only [QS]
      exact qsl_of hregs hSb body hp.2 hi hs
  theorem qsl_of {regs : List Val} (hregs : ∀ v ∈ regs, DeclP LegalName v) {S : List String} {Sb : String → Bool}
      (hSb : ∀ n, Sb n = true → n ∈ S) :
      ∀ (l : List Stmt), ItemsP LegalName FloatOK l → StmtsAll (ArgIt regs) l → ScSL Sb l → QSL LegalName S l
    | [], _, _, _ => trivial
    | s :: r, hp, hi, hs => by
      simp only [ItemsP] at hp
      simp only [StmtsAll] at hi
      simp only [ScSL] at hs
      exact ⟨qs_of hregs hSb s hp.1 hi.1 hs.1, qsl_of hregs hSb r hp.2 hi.2 hs.2⟩
end

/-- **every parsed circuit is `QualC`**, whatever the configuration -/
theorem parsed_qualC {cfg : Config} {txt : String} {c : Circuit} (h : parseProgram cfg txt = .ok c) :
    QualC LegalName c := by
  have hn := parsed_namesOK h
  obtain ⟨sx, hs, bs, _, _, hh, hb, hnb, _, hnm, _, _, _⟩ := Autoload.parseProgram_shape h
  obtain ⟨hib, him⟩ := buildNoMemo_it_any cfg hh hb hnb hnm
  obtain ⟨_, _, _, hsc⟩ := Passes.parseProgram_facts h
  obtain ⟨bs', hbody⟩ := (Passes.parsed_legal cfg txt c h).wf2.body
  refine ⟨?_, ?_⟩
  · have hscb := hsc.body
    rw [hbody] at hib hscb ⊢
    simp only [StmtAll] at hib
    simp only [ScS] at hscb
    simp only [QS]
    refine qsl_of hn.regs (S := []) (Sb := noPar) (by intro n hn'; simp [noPar] at hn') bs' ?_ hib hscb
    exact itemsP_of_mem (fun s hs' => hn.stmts s (by rw [hbody]; exact hs'))
  · intro m hm
    exact qs_of hn.regs (Sb := inNames m.params) (by intro n hn'; simpa [inNames] using hn') m.body
      (hn.macros m hm).2.2 (him m hm) (hsc.macros m hm)

end Jaqal.PassText

/-! ## `expand_subcircuits` keeps `QualC` -/

namespace Jaqal.PassText
open Jaqal Jaqal.Pipeline Jaqal.RoundTrip Jaqal.ExpandSubcircuits

section
variable {P : String → Prop} {S : List String} (p m : Stmt)

mutual
theorem spell_QS (hp : QS P S p) (hm : QS P S m) : ∀ (s : Stmt), QS P S s → QS P S (spell p m s)
  | .gate n gd a, h => by simpa [spell] using h
  | .loop c b, h => by
    simp only [QS, spell] at h ⊢
    exact spell_QS hp hm b h
  | .block q true it bb, h => by
    simp only [QS, spell, if_true] at h ⊢
    rw [List.cons_append]
    exact ⟨hp, QSL_append _ _ (spellList_QSL hp hm bb h) ⟨hm, trivial⟩⟩
  | .block q false it bb, h => by
    simp only [QS, spell, Bool.false_eq_true, if_false] at h ⊢
    exact spellList_QSL hp hm bb h
theorem spellList_QSL (hp : QS P S p) (hm : QS P S m) : ∀ (l : List Stmt), QSL P S l → QSL P S (spellList p m l)
  | [], h => by simp only [spellList, QSL]
  | s :: r, h => by
    simp only [QSL, spellList] at h ⊢
    exact ⟨spell_QS hp hm s h.1, spellList_QSL hp hm r h.2⟩
end
end

theorem subs_qualC {c c' : Circuit} (hL : Passes.Legal c) (hq : QualC LegalName c)
    (h : Passes.apply .subs c = .ok c') : QualC LegalName c' := by
  have h' : expandSubcircuits none none c = .ok c' := h
  obtain ⟨bs, hb⟩ := hL.wf2.body
  have hbody := C09_shape_body hb h'
  obtain ⟨hmac, _⟩ := C09_shape h'
  have hP : ∀ S, QS LegalName S (prepStmt none c) := by
    intro S; simp only [prepStmt, boundGate, QS]; intro a ha; cases ha
  have hM : ∀ S, QS LegalName S (measStmt none c) := by
    intro S; simp only [measStmt, boundGate, QS]; intro a ha; cases ha
  refine ⟨?_, ?_⟩
  · have := hq.body
    rw [hb] at this
    rw [hbody, hb]
    exact spell_QS _ _ (hP _) (hM _) _ this
  · rw [hmac]
    intro x hx
    simp only [List.mem_map] at hx
    obtain ⟨mc, hmc, rfl⟩ := hx
    have := hq.macros mc hmc
    have hpar : (spellMacro (prepStmt none c) (measStmt none c) mc).params = mc.params := by
      simp [spellMacro]
    have hbd : (spellMacro (prepStmt none c) (measStmt none c) mc).body = spell (prepStmt none c) (measStmt none c) mc.body := by
      simp [spellMacro]
    rw [hpar, hbd]
    exact spell_QS _ _ (hP _) (hM _) _ this

end Jaqal.PassText
