import JaqalProofs.Lemmas.PassTextSubs
/-!
# Text of a pass result, layers A and B — `expand_macros`

* `macros_printable` (layer A): `expand_macros` keeps a legal printable circuit printable.  The splice of the two visitors is
  the splice of the generator (`okItems_spliceInto`), a substituted argument is never `None`, a count that passed
  `_validate_count` is an int, a let or a parameter (`okRef_of_badCount`), and what a macro call expands to is a plain block,
  which may stand anywhere.
* `macros_namesOK` (layer B): … and keeps the names / floats half of `LexSafe`, GIVEN `QualC c`: every qubit reference in a
  macro body names its source and its index legally, the parameters of a macro body are the macro's own, no parameter occurs
  in the body.  That is needed: `GateReplacer.visit_NamedQubit` RE-INDEXES every qubit of a macro body
  (`alias_from[alias_index]`), so a declared alias `q` (`map q r[k]`) comes out as the element `r[k]`, and an element `a[i]` of
  an unbound parameter `a` indexed by a substituted float would be called `a[0.5]`.  `NamesOK` says nothing about the source
  of a qubit that is written by its own name (`namesOK_macros_needs_qual`: a `Legal`, printable, `NamesOK` circuit whose
  expansion is not `NamesOK`).
-/
set_option linter.unusedVariables false
set_option linter.unusedSimpArgs false
namespace Jaqal.PassText
open Jaqal Jaqal.Pipeline Jaqal.RoundTrip Jaqal.ExpandMacros

theorem bnd {α β : Type} {m : M α} {k : α → M β} {b : β} (h : (m >>= k) = .ok b) : ∃ a, m = .ok a ∧ k a = .ok b := by
  cases m with
  | error e => simp [bind, Except.bind] at h
  | ok a => exact ⟨a, rfl, h⟩

/-! ## layer A -/

theorem okItems_spliceInto (par : Bool) (s : Stmt) (r : List Stmt) :
    okItems par (spliceInto par s r) = (okIn par s && okItems par r) := by
  unfold spliceInto
  split
  · next p it b =>
    split
    · next hp => subst hp; rw [okItems_append, okIn_block_plain]
    · rw [okItems_cons]
  · rw [okItems_cons]

theorem okRef_of_badCount {c : Val} (h : badCount c = false) : okRef c = true := by
  cases c <;> simp [badCount] at h <;> rfl

theorem mkBlock_inv {par sub : Bool} {it : Val} {l : List Stmt} {s : Stmt} (h : mkBlock par sub it l = .ok s) :
    s = .block par sub it l ∧ badCount it = false := by
  refine ⟨mkBlock_ok h, ?_⟩
  unfold mkBlock at h
  split at h
  · cases h
  · split at h
    · cases h
    · rename_i hc; simpa using hc

theorem substVal_okArg {args : List (String × Val)} (hargs : ∀ a ∈ args, okArg a.2 = true) {v v' : Val}
    (hv : okArg v = true) (h : substVal args v = .ok v') : okArg v' = true := by
  cases v with
  | param n k =>
    rcases substVal_param h with hl | ⟨_, rfl⟩
    · obtain ⟨e, he, rfl⟩ := lookupArg_mem hl; exact hargs e he
    · rfl
  | qubit n s i =>
    obtain ⟨s', i', nm, _, _, _, _, rfl⟩ := substVal_qubit_inv h
    rfl
  | _ => simp only [substVal, pure, Except.pure, Except.ok.injEq] at h; subst h; exact hv

theorem substArgs_okArgs {args : List (String × Val)} (hargs : ∀ a ∈ args, okArg a.2 = true) :
    ∀ (gargs new : List (String × Val)), okArgs gargs = true → substArgs args gargs = .ok new →
      new.map (·.1) = gargs.map (·.1) ∧ okArgs new = true
  | [], new, _, h => by simp only [substArgs, pure, Except.pure, Except.ok.injEq] at h; subst h; simp [okArgs]
  | (n, v) :: rest, new, hg, h => by
    simp only [substArgs] at h
    obtain ⟨v', h1, h⟩ := bnd h
    obtain ⟨rest', h2, h⟩ := bnd h
    simp only [pure, Except.pure, Except.ok.injEq] at h; subst h
    simp only [okArgs, Bool.and_eq_true] at hg
    obtain ⟨i1, i2⟩ := substArgs_okArgs hargs rest rest' hg.2 h2
    exact ⟨by simp [i1], by simp [okArgs, substVal_okArg hargs hg.1 h1, i2]⟩

theorem okArgs_mem : ∀ {l : List (String × Val)}, okArgs l = true → ∀ a ∈ l, okArg a.2 = true
  | [], _, a, ha => by cases ha
  | x :: r, h, a, ha => by
    simp only [okArgs, Bool.and_eq_true] at h
    rcases List.mem_cons.1 ha with rfl | ha
    · exact h.1
    · exact okArgs_mem h.2 a ha

section layerA
variable (ms : List Macro)

/-- what `call` (= `replace_gate`) returns may stand anywhere -/
def CallA (call : Stmt → M Stmt) : Prop :=
  ∀ (n : String) (gd : GateDef) (a : List (String × Val)) (g' : Stmt), okArgs a = true →
    call (.gate n gd a) = .ok g' → ∀ par, okIn par g' = true

mutual
  theorem replStmt_okIn (call : Stmt → M Stmt) (hc : CallA call) (args : List (String × Val))
      (hargs : ∀ a ∈ args, okArg a.2 = true) :
      ∀ (s s' : Stmt) (par : Bool), wfStmt ms s = true → okIn par s = true → replStmt call args s = .ok s' →
        okIn par s' = true
    | .gate n gd gargs, s', par, hw, ho, h => by
      simp only [replStmt] at h
      obtain ⟨new, h1, h⟩ := bnd h
      obtain ⟨g, h2, h⟩ := bnd h
      rw [okIn_gate] at ho
      obtain ⟨hn, hnew⟩ := substArgs_okArgs hargs gargs new ho h1
      simp only [wfStmt, wfGate, Bool.and_eq_true, beq_iff_eq, decide_eq_true_eq] at hw
      obtain ⟨⟨⟨⟨hname, hnames⟩, hnd⟩, _⟩, hfm⟩ := hw
      have hg := callKw_ok h2 (by rw [hn]; exact hnames) hnd
      subst hg
      exact hc _ _ _ _ hnew h par
    | .loop c (.block q sub it bb), s', par, hw, ho, h => by
      simp only [replStmt] at h
      obtain ⟨c', h1, h⟩ := bnd h
      obtain ⟨b', h2, h⟩ := bnd h
      obtain ⟨rfl, hbc⟩ := mkLoop_ok h
      obtain ⟨stmts, h3, h2⟩ := bnd h2
      obtain ⟨it', h4, h2⟩ := bnd h2
      obtain ⟨rfl, _⟩ := mkBlock_inv h2
      rw [okIn_loop] at ho ⊢
      simp only [Bool.and_eq_true, Bool.not_eq_true'] at ho
      obtain ⟨⟨⟨p1, p2⟩, p3⟩, p4⟩ := ho
      simp only [wfStmt, Bool.and_eq_true] at hw
      have := replList_okItems call hc args hargs q bb stmts hw.2.2 p4 h3
      simp [p1, p3, this, okRef_of_badCount hbc]
    | .loop c (.gate _ _ _), s', par, hw, ho, h => by simp [okIn_loop] at ho
    | .loop c (.loop _ _), s', par, hw, ho, h => by simp [okIn_loop] at ho
    | .block q true it bb, s', par, hw, ho, h => by
      simp only [replStmt] at h
      obtain ⟨stmts, h1, h⟩ := bnd h
      obtain ⟨it', h2, h⟩ := bnd h
      obtain ⟨rfl, hbc⟩ := mkBlock_inv h
      rw [okIn_block_sub] at ho ⊢
      simp only [Bool.and_eq_true, Bool.not_eq_true'] at ho
      obtain ⟨⟨⟨p1, p2⟩, p3⟩, p4⟩ := ho
      subst p2
      simp only [wfStmt, Bool.and_eq_true] at hw
      have := replList_okItems call hc args hargs false bb stmts hw.2 p4 h1
      simp [p1, this, okRef_of_badCount hbc]
    | .block q false it bb, s', par, hw, ho, h => by
      simp only [replStmt] at h
      obtain ⟨stmts, h1, h⟩ := bnd h
      obtain ⟨it', h2, h⟩ := bnd h
      obtain ⟨rfl, hbc⟩ := mkBlock_inv h
      rw [okIn_block_plain] at ho ⊢
      simp only [wfStmt, Bool.and_eq_true] at hw
      exact replList_okItems call hc args hargs q bb stmts hw.2 ho h1
  theorem replList_okItems (call : Stmt → M Stmt) (hc : CallA call) (args : List (String × Val))
      (hargs : ∀ a ∈ args, okArg a.2 = true) (par : Bool) :
      ∀ (l l' : List Stmt), wfStmtList ms l = true → okItems par l = true → replList call args par l = .ok l' →
        okItems par l' = true
    | [], l', _, _, h => by
      simp only [replList, pure, Except.pure, Except.ok.injEq] at h; subst h; exact okItems_nil par
    | s :: r, l', hw, ho, h => by
      simp only [replList] at h
      obtain ⟨s', h1, h⟩ := bnd h
      obtain ⟨r', h2, h⟩ := bnd h
      simp only [pure, Except.pure, Except.ok.injEq] at h; subst h
      simp only [wfStmtList, Bool.and_eq_true] at hw
      rw [okItems_cons, Bool.and_eq_true] at ho
      rw [okItems_spliceInto, replStmt_okIn call hc args hargs s s' par hw.1 ho.1 h1,
        replList_okItems call hc args hargs par r r' hw.2 ho.2 h2]
      rfl
end

theorem replaceGate_okIn (hwf : wfMacrosFrom ms [] ms = true) (hok : ∀ m ∈ ms, okMacro m = true) :
    ∀ (fuel : Nat), CallA (replaceGate ms fuel) := by
  intro fuel
  induction fuel with
  | zero =>
    intro n gd a g' ha h par
    simp only [replaceGate] at h
    cases hf : findMacro ms n with
    | none =>
      rw [hf] at h; simp only [pure, Except.pure, Except.ok.injEq] at h; subst h
      rw [okIn_gate]; exact ha
    | some m => rw [hf] at h; simp only at h; split at h <;> cases h
  | succ f ih =>
    intro n gd a g' ha h par
    simp only [replaceGate] at h
    cases hf : findMacro ms n with
    | none =>
      rw [hf] at h; simp only [pure, Except.pure, Except.ok.injEq] at h; subst h
      rw [okIn_gate]; exact ha
    | some m =>
      rw [hf] at h; simp only at h
      split at h
      · cases h
      · have hmem : m ∈ ms := by
          obtain ⟨_, pre, post, hsp, _⟩ := findMacro_some_split hf
          rw [hsp]; simp
        have hm := hok m hmem
        have hwm := Passes.wfMacrosFrom_mem ms [] ms hwf m hmem
        unfold okMacro at hm
        cases hb : m.body with
        | gate _ _ _ => simp [hb] at hm
        | loop _ _ => simp [hb] at hm
        | block q sub it b =>
          simp only [hb, Bool.and_eq_true, Bool.not_eq_true'] at hm
          obtain ⟨hsub, hitems⟩ := hm
          subst hsub
          rw [hb] at h hwm
          have h0 : okIn par (.block q false it b) = true := by rw [okIn_block_plain]; exact hitems
          exact replStmt_okIn ms (replaceGate ms f) ih a (okArgs_mem ha) _ g' par hwm h0 h

mutual
  theorem expStmt_okIn (call : Stmt → M Stmt) (hc : CallA call) :
      ∀ (s s' : Stmt) (par : Bool), okIn par s = true → expStmt call s = .ok s' → okIn par s' = true
    | .gate n gd gargs, s', par, ho, h => by
      simp only [expStmt] at h
      rw [okIn_gate] at ho
      exact hc _ _ _ _ ho h par
    | .loop c (.block q sub it bb), s', par, ho, h => by
      simp only [expStmt] at h
      obtain ⟨b', h2, h⟩ := bnd h
      obtain ⟨rfl, hbc⟩ := mkLoop_ok h
      obtain ⟨stmts, h3, h2⟩ := bnd h2
      obtain ⟨rfl, _⟩ := mkBlock_inv h2
      rw [okIn_loop] at ho ⊢
      simp only [Bool.and_eq_true, Bool.not_eq_true'] at ho
      obtain ⟨⟨⟨p1, p2⟩, p3⟩, p4⟩ := ho
      have := expList_okItems call hc q bb stmts p4 h3
      simp [p1, p2, p3, this]
    | .loop c (.gate _ _ _), s', par, ho, h => by simp [okIn_loop] at ho
    | .loop c (.loop _ _), s', par, ho, h => by simp [okIn_loop] at ho
    | .block q true it bb, s', par, ho, h => by
      simp only [expStmt] at h
      obtain ⟨stmts, h1, h⟩ := bnd h
      obtain ⟨rfl, hbc⟩ := mkBlock_inv h
      rw [okIn_block_sub] at ho ⊢
      simp only [Bool.and_eq_true, Bool.not_eq_true'] at ho
      obtain ⟨⟨⟨p1, p2⟩, p3⟩, p4⟩ := ho
      subst p2
      have := expList_okItems call hc false bb stmts p4 h1
      simp [p1, p3, this]
    | .block q false it bb, s', par, ho, h => by
      simp only [expStmt] at h
      obtain ⟨stmts, h1, h⟩ := bnd h
      obtain ⟨rfl, hbc⟩ := mkBlock_inv h
      rw [okIn_block_plain] at ho ⊢
      exact expList_okItems call hc q bb stmts ho h1
  theorem expList_okItems (call : Stmt → M Stmt) (hc : CallA call) (par : Bool) :
      ∀ (l l' : List Stmt), okItems par l = true → expList call par l = .ok l' → okItems par l' = true
    | [], l', _, h => by
      simp only [expList, pure, Except.pure, Except.ok.injEq] at h; subst h; exact okItems_nil par
    | s :: r, l', ho, h => by
      simp only [expList] at h
      obtain ⟨s', h1, h⟩ := bnd h
      obtain ⟨r', h2, h⟩ := bnd h
      simp only [pure, Except.pure, Except.ok.injEq] at h; subst h
      rw [okItems_cons, Bool.and_eq_true] at ho
      rw [okItems_spliceInto, expStmt_okIn call hc s s' par ho.1 h1, expList_okItems call hc par r r' ho.2 h2]
      rfl
end

end layerA

/-- **layer A for `expand_macros`**: a legal printable circuit stays printable -/
theorem macros_printable {p : Bool} {c c' : Circuit} (hL : Passes.Legal c) (hp : printable c = true)
    (h : Passes.apply (.macros p) c = .ok c') : printable c' = true := by
  have h' : expandMacros p c = .ok c' := h
  obtain ⟨bs, hb⟩ := hL.wf2.body
  obtain ⟨body, stmts, hexp, hs, rfl⟩ := Jaqal.ExpandMacros.expand_ok h'
  have hw := hL.wf1
  simp only [WellFormed, Bool.and_eq_true] at hw
  obtain ⟨⟨⟨⟨hwm, hwb⟩, _⟩, hTb⟩, hTm⟩ := hw
  simp only [Pipeline.printable, Bool.and_eq_true] at hp ⊢
  obtain ⟨⟨⟨⟨h1, h2⟩, h3⟩, h4⟩, h5⟩ := hp
  have hok : ∀ m ∈ c.macros, okMacro m = true := by simpa [List.all_eq_true] using h4
  have hcall := replaceGate_okIn c.macros hwm hok c.macros.length
  rw [hb] at hexp h5
  simp only [expStmt] at hexp
  obtain ⟨l, hl, hexp⟩ := bnd hexp
  obtain ⟨rfl, _⟩ := mkBlock_inv hexp
  simp only [statementsOf, pure, Except.pure, Except.ok.injEq] at hs; subst hs
  simp only [] at h5
  rw [all_okTop] at h5
  refine ⟨⟨⟨⟨h1, h2⟩, h3⟩, ?_⟩, ?_⟩
  · cases p
    · rfl
    · exact h4
  · show l.all okTop = true
    rw [all_okTop]
    exact expList_okItems _ hcall false bs l h5 hl

end Jaqal.PassText
