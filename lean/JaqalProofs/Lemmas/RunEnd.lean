import JaqalProofs.Props.C03Run
import JaqalProofs.Props.C03Unitary
/-!
Lemmas for `Props/C03End.lean` (end-to-end corollaries of `C03_run_total`).

* `rel_spell` … `fillInLet_spelled` — `expand_subcircuits` keeps the relation `FillIn.Rel` between a circuit and what
  `fill_in_let` made of it, hence (`Lemmas/PassesIdem.lean`: the second visit writes the same S-expression, and the builder
  cannot tell the two configurations apart) `fill_in_let ov2 (expand_subcircuits (fill_in_let ov c))` IS
  `fill_in_let ov (expand_subcircuits c)`, whatever `ov2`.
* `kindsOf`, `pairCount`, `nameKind` … `semSkel_kinds` — the gate kinds of the flat tokens of the skeleton of a meaning tree
  are the kinds of the names of its flat gate applications; the number of prepare/measure pairs depends on them alone.
* `qubitsOf`, `appGate`, `gkGate`, `AppOK` … — the gate list the emulator multiplies for a segment, from the
  specification's table.
-/
namespace Jaqal.RunModel
open Jaqal Jaqal.Builder Jaqal.Sem

/-! ### `expand_subcircuits` after `fill_in_let` -/

section RelSpell
open Jaqal.FillIn Jaqal.ExpandSubcircuits
variable {F G : Val → M Val}

theorem relList_append : ∀ {a a' b b' : List Stmt}, RelList F G a a' → RelList F G b b' → RelList F G (a ++ b) (a' ++ b')
  | [], [], _, _, _, hb => hb
  | s :: r, s' :: r', _, _, ha, hb => by
    simp only [RelList] at ha
    simp only [List.cons_append, RelList]
    exact ⟨ha.1, relList_append ha.2 hb⟩
  | [], _ :: _, _, _, ha, _ | _ :: _, [], _, _, ha, _ => by simp [RelList] at ha

mutual
/-- `spell` (what `expand_subcircuits` does to a statement) keeps the relation between a statement and its rebuild -/
theorem rel_spell (p m p' m' : Stmt) (hp : Rel F G p p') (hm : Rel F G m m') :
    ∀ (s s' : Stmt), Rel F G s s' → BlocksOK s → Rel F G (spell p m s) (spell p' m' s')
  | .gate n gd args, .gate n' gd' args', h, _ => by simpa only [spell] using h
  | .block par sub it body, .block par' sub' it' body', h, hB => by
    simp only [FillIn.Rel] at h
    obtain ⟨rfl, rfl, _, hbody⟩ := h
    simp only [BlocksOK] at hB
    have ih := relList_spell p m p' m' hp hm body body' hbody hB.2.2
    cases sub' with
    | false =>
      simp only [spell, Bool.false_eq_true, if_false, FillIn.Rel, Bool.not_false, Bool.and_true]
      exact ⟨trivial, trivial, trivial, ih⟩
    | true =>
      obtain ⟨hpar, _⟩ := hB.2.1 rfl
      subst hpar
      simp only [spell, if_true, FillIn.Rel, Bool.false_eq_true, if_false, Bool.not_false, Bool.and_true, Bool.not_true,
        Bool.and_false]
      refine ⟨trivial, trivial, trivial, ?_⟩
      have : RelList F G (p :: (spellList p m body ++ [m])) (p' :: (spellList p' m' body' ++ [m'])) := by
        simp only [RelList]
        exact ⟨hp, relList_append ih (by simp only [RelList]; exact ⟨hm, trivial⟩)⟩
      simpa only [List.cons_append] using this
  | .loop c b, .loop c' b', h, hB => by
    simp only [FillIn.Rel] at h
    simp only [BlocksOK] at hB
    simp only [spell, FillIn.Rel]
    exact ⟨h.1, rel_spell p m p' m' hp hm b b' h.2 hB⟩
  | .gate _ _ _, .block _ _ _ _, h, _ | .gate _ _ _, .loop _ _, h, _
  | .block _ _ _ _, .gate _ _ _, h, _ | .block _ _ _ _, .loop _ _, h, _
  | .loop _ _, .gate _ _ _, h, _ | .loop _ _, .block _ _ _ _, h, _ => by simp [FillIn.Rel] at h
theorem relList_spell (p m p' m' : Stmt) (hp : Rel F G p p') (hm : Rel F G m m') :
    ∀ (l l' : List Stmt), RelList F G l l' → BlocksOKList l → RelList F G (spellList p m l) (spellList p' m' l')
  | [], [], _, _ => by simp only [spellList, RelList]
  | s :: r, s' :: r', h, hB => by
    simp only [RelList] at h
    simp only [BlocksOKList] at hB
    simp only [spellList, RelList]
    exact ⟨rel_spell p m p' m' hp hm s s' h.1 hB.1, relList_spell p m p' m' hp hm r r' h.2 hB.2⟩
  | [], _ :: _, h, _ | _ :: _, [], h, _ => by simp [RelList] at h
end

theorem macroRel_spell (p m p' m' : Stmt) (hp : Rel F G p p') (hm : Rel F G m m') :
    ∀ {ms ms' : List Macro}, List.Forall₂ (fun mc mc' => MacroRel F G mc mc') ms ms' → (∀ mc ∈ ms, BlocksOK mc.body) →
      List.Forall₂ (fun mc mc' => MacroRel F G mc mc') (ms.map (spellMacro p m)) (ms'.map (spellMacro p' m')) := by
  intro ms ms' h
  induction h with
  | nil => intro _; exact List.Forall₂.nil
  | @cons a a' r r' ha _ ih =>
    intro hB
    simp only [List.map_cons]
    refine List.Forall₂.cons ?_ (ih (fun x hx => hB x (by simp [hx])))
    obtain ⟨hn, hpar, hb⟩ := ha
    exact ⟨hn, hpar, rel_spell p m p' m' hp hm a.body a'.body hb (hB a (by simp))⟩

end RelSpell

/-- the bounding statements `expand_subcircuits` inserts are related to those it inserts into any other circuit: same name, no
argument -/
theorem rel_bound (F G : Val → M Val) (d : String) (c c' : Circuit) :
    FillIn.Rel F G (ExpandSubcircuits.boundGate (ExpandSubcircuits.chooseBounding none d c))
      (ExpandSubcircuits.boundGate (ExpandSubcircuits.chooseBounding none d c')) := by
  simp only [ExpandSubcircuits.boundGate, FillIn.Rel, Passes.chooseBounding_none_name]
  exact ⟨trivial, List.Forall₂.nil⟩

open Jaqal.FillIn Jaqal.ExpandSubcircuits in
/-- **`fill_in_let` of the spelled-out filled circuit is `fill_in_let` of the spelled-out circuit.**  `c' = fill_in_let(c, ov)`;
both have their subcircuit blocks spelled out (`c₁`, `c'₁`); `fill_in_let(c₁, ov) = c2`.  Then `fill_in_let(c'₁, ov2) = c2` for
EVERY `ov2`: the second visit writes the S-expression the first one wrote (`visitStmts_fixed`: no let is left in `c'₁`, and
`spell` keeps the relation between `c` and `c'`), and the builder cannot tell the two configurations apart
(`rebuildCfg_congr`). -/
theorem fillInLet_spelled {ov ov2 : List (String × Num)} {c c' c₁ c'₁ c2 : Circuit} (hL : Passes.Legal c)
    (hfl : fillInLet ov c = .ok c') (h1 : expandSubcircuits none none c = .ok c₁)
    (h1' : expandSubcircuits none none c' = .ok c'₁) (h2 : fillInLet ov c₁ = .ok c2) : fillInLet ov2 c'₁ = .ok c2 := by
  obtain ⟨bs, regs, hbs, hregs, hr⟩ := fillInLet_rebuilt hL.wf2 hfl
  obtain ⟨ss, hc', hrel⟩ := hr.body
  have hB : BlocksOKList bs := by
    have := hL.wf2.blocks
    rw [hbs] at this
    simp only [BlocksOK] at this
    exact this.2.2
  have hL1 : Passes.Legal c₁ := Passes.C10_legal_preserved_subs c c₁ hL h1
  -- the two spelled-out circuits
  have hb1 : c₁.body = .block false false (.int 1) (spellList (prepStmt none c) (measStmt none c) bs) := by
    rw [C09_shape_body hbs h1, hbs]; simp [spell]
  have hb1' : c'₁.body = .block false false (.int 1) (spellList (prepStmt none c') (measStmt none c') ss) := by
    rw [C09_shape_body hc' h1', hc']; simp [spell]
  have hm1 := (C09_shape h1).1
  have hm1' := (C09_shape h1').1
  obtain ⟨hk1, hr1, hn1, hu1, _, _⟩ := C09_header h1
  obtain ⟨hk1', hr1', hn1', hu1', _, _⟩ := C09_header h1'
  have hB1 : BlocksOKList (spellList (prepStmt none c) (measStmt none c) bs) := by
    have := hL1.wf2.blocks
    rw [hb1] at this
    simp only [BlocksOK] at this
    exact this.2.2
  have hrel1 : RelList (letVal ov false) (letVal ov false) (spellList (prepStmt none c) (measStmt none c) bs)
      (spellList (prepStmt none c') (measStmt none c') ss) :=
    relList_spell _ _ _ _ (rel_bound _ _ _ c c') (rel_bound _ _ _ c c') bs ss hrel hB
  have hmrel1 : List.Forall₂ (fun mc mc' => MacroRel (letVal ov false) (letVal ov false) mc mc') c₁.macros c'₁.macros := by
    rw [hm1, hm1']
    exact macroRel_spell _ _ _ _ (rel_bound _ _ _ c c') (rel_bound _ _ _ c c') hr.macros hL.wf2.macros
  -- the S-expression of the first run
  unfold fillInLet at h2 ⊢
  obtain ⟨sx, hsx, hb⟩ := bind_ok h2
  unfold letSx at hsx
  obtain ⟨body, hbody, hsx⟩ := bind_ok hsx
  obtain ⟨stmts, hstmts, hsx⟩ := bind_ok hsx
  obtain ⟨regs0, hregs0, hsx⟩ := bind_ok hsx
  obtain ⟨macros, hmacros, hsx⟩ := bind_ok hsx
  simp only [pure, Except.pure, Except.ok.injEq] at hsx
  rw [hr1, hregs] at hregs0; cases hregs0
  rw [hb1] at hbody
  simp only [letStmt, FillIn.visitStmt, Bool.false_eq_true, if_false] at hbody
  obtain ⟨es, hes, hbody⟩ := bind_ok hbody
  simp only [pure, Except.pure, Except.ok.injEq] at hbody
  subst hbody
  simp only [tailOf, pure, Except.pure, Except.ok.injEq] at hstmts
  subst hstmts
  have hF : ∀ v v', letVal ov false v = .ok v' → letVal ov2 false v' = .ok v' :=
    fun v v' hv => C05_idempotent_val v false v' hv ov2 false
  have hG : ∀ v c0, v ≠ .none → letVal ov false v = .ok c0 → c0 ≠ .none ∧ letVal ov2 false c0 = .ok c0 :=
    fun v c0 hne hv => ⟨fun hn => hne (letVal_none (hn ▸ hv)), hF v c0 hv⟩
  have hes2 := Passes.visitStmts_fixed (F2 := letVal ov2 false) (G2 := letVal ov2 false) hF hG _ _ es hrel1 hB1 hes
  have hm2 := Passes.visitMacros_fixed (Fm2 := fun _ => letVal ov2 false) (G2 := letVal ov2 false)
    (fun _ _ v v' _ _ hv => hF v v' hv) hG hmrel1 hL1.wf2.macros hmacros
  have hr2 : c'₁.registers.mapM (letVal ov2 true) = .ok c'₁.registers := by
    rw [hr1', hr.registers]
    exact Passes.mapM_fixed (fun v v' hv => C05_idempotent_val v true v' hv ov2 true) hregs
  have hsx2 : letSx ov2 c'₁ = .ok sx := by
    unfold letSx
    simp only [hb1', letStmt, FillIn.visitStmt, Bool.false_eq_true, if_false, hes2, bind, Except.bind, pure, Except.pure, tailOf, hr2]
    have hm2' : c'₁.macros.mapM (letMacro ov2) = .ok macros := hm2
    simp only [hm2']
    rw [← hsx]
    simp only [circuitSx, hu1, hu1', hk1, hk1', hr1', hr.usepulses, hr.constants, hr.registers]
  simp only [hsx2, bind, Except.bind]
  rw [Passes.rebuildCfg_congr (c := c₁) (c' := c'₁) (by rw [hn1, hn1']; exact hr.natives)]
  exact hb

open Jaqal.Walk

/-! ### What `specSummary` says -/

theorem specSummary_inv {m : Sem} {s : RunSummary} (h : specSummary m = some s) :
    ∃ body n traces, skelOf m = some (body, n) ∧ Walk.discover body = .ok traces ∧ s.subcircuits = traces.length ∧
      s.visits = Walk.specVisits (traces.map (·.1)) body ∧
      s.traces = traces.map (fun tr => (Walk.segment tr body).map (renderGK (specTable m))) := by
  unfold specSummary at h
  cases hsk : skelOf m with
  | none => simp [hsk] at h
  | some p =>
    obtain ⟨body, n⟩ := p
    simp only [hsk] at h
    cases hd : Walk.discover body with
    | error e => simp [hd] at h
    | ok traces =>
      simp only [hd, Option.some.injEq] at h
      subst h
      exact ⟨body, n, traces, rfl, hd, rfl, rfl, rfl⟩

/-! ### The brackets of the skeleton are the brackets of the flat gate applications -/

/-- what the bracket rule sees of a gate kind: `prepare_all` (`some true`), `measure_all` (`some false`), anything else -/
def skind : Walk.GK → Option Bool
  | .prep => some true
  | .meas => some false
  | .other _ => none

/-- … of a gate name -/
def nkind (n : String) : Option Bool :=
  if n == "prepare_all" then some true else if n == "measure_all" then some false else none

theorem skind_gateKind (n : String) (k : Nat) : skind (gateKind n k) = nkind n := by
  unfold gateKind nkind
  by_cases h1 : n = "prepare_all"
  · simp [h1, skind]
  · by_cases h2 : n = "measure_all"
    · simp [h2, skind]
    · simp [h1, h2, skind]

/-- the gate occurrences of a flat token list, by bracket kind (loop brackets and addresses dropped) -/
def tkinds : List Walk.Tok → List (Option Bool)
  | [] => []
  | .g k _ :: r => skind k :: tkinds r
  | _ :: r => tkinds r

theorem tkinds_append (a b : List Walk.Tok) : tkinds (a ++ b) = tkinds a ++ tkinds b := by
  induction a with
  | nil => rfl
  | cons t r ih => cases t <;> simp [tkinds, ih]

/-- number of prepare/measure pairs of a sequence of gate occurrences read in flat order: a `prepare_all` (re)opens, a
`measure_all` closes the open one (`o`: is one open?) -/
def pairCountFrom : List (Option Bool) → Bool → Nat
  | [], _ => 0
  | some true :: r, _ => pairCountFrom r true
  | some false :: r, true => pairCountFrom r false + 1
  | some false :: r, false => pairCountFrom r false
  | none :: r, o => pairCountFrom r o

/-- **the number of prepare/measure pairs of the flat gate applications of a program** -/
def pairCount (apps : List GateApp) : Nat := pairCountFrom (apps.map (fun g => nkind g.1)) false

theorem pairsFrom_length : ∀ (toks : List Walk.Tok) (c : Option Walk.Addr),
    (Walk.pairsFrom toks c).length = pairCountFrom (tkinds toks) c.isSome
  | [], c => by simp [Walk.pairsFrom, tkinds, pairCountFrom]
  | .g .prep a :: r, c => by simp [Walk.pairsFrom, tkinds, skind, pairCountFrom, pairsFrom_length r]
  | .g .meas a :: r, some s => by simp [Walk.pairsFrom, tkinds, skind, pairCountFrom, pairsFrom_length r]
  | .g .meas a :: r, none => by simp [Walk.pairsFrom, tkinds, skind, pairCountFrom, pairsFrom_length r]
  | .g (.other _) a :: r, c => by simp [Walk.pairsFrom, tkinds, skind, pairCountFrom, pairsFrom_length r]
  | .lopen _ :: r, c => by simp [Walk.pairsFrom, tkinds, pairsFrom_length r]
  | .lclose :: r, c => by simp [Walk.pairsFrom, tkinds, pairsFrom_length r]

mutual
  /-- the gate occurrences of the skeleton of a meaning tree, in flat order, are its flat gate applications (by bracket kind) -/
  theorem semSkel_kinds : ∀ (m : Sem) (k : Nat) (s' : Walk.Stmt) (k' : Nat), semSkel k m = some (s', k') →
      ∀ a, tkinds (Walk.flatStmt s' a) = m.flat.map (fun g => nkind g.1)
    | .gate name vs, k, s', k', h, a => by
      simp only [semSkel] at h
      have hk := skind_gateKind name k
      have : s' = .gate (gateKind name k) := by
        split at h
        · rename_i id heq
          simp only [Option.some.injEq, Prod.mk.injEq] at h
          rw [← h.1, heq]
        · simp only [Option.some.injEq, Prod.mk.injEq] at h
          exact h.1.symm
      subst this
      simp [Walk.flatStmt, tkinds, Sem.flat, hk]
    | .blk par sub it body, k, s', k', h, a => by
      simp only [semSkel] at h
      cases hb : semSkelList k body with
      | none => simp [hb] at h
      | some p =>
        obtain ⟨b, k1⟩ := p
        simp only [hb, Option.some.injEq, Prod.mk.injEq] at h
        obtain ⟨rfl, rfl⟩ := h
        simpa only [Walk.flatStmt, Sem.flat] using semSkelList_kinds body k b k1 hb a 0
    | .loop n b, k, s', k', h, a => by
      simp only [semSkel] at h
      cases hb : semSkel k b with
      | none => simp [hb] at h
      | some p =>
        obtain ⟨sb, k1⟩ := p
        cases sb with
        | block par b' =>
          simp only [hb, Option.some.injEq, Prod.mk.injEq] at h
          obtain ⟨rfl, rfl⟩ := h
          have := semSkel_kinds b k _ _ hb a
          simp only [Walk.flatStmt] at this
          simp only [Walk.flatStmt, tkinds, tkinds_append, List.append_nil, Sem.flat, this]
        | gate _ => simp [hb] at h
        | loop _ _ _ => simp [hb] at h
  theorem semSkelList_kinds : ∀ (ms : List Sem) (k : Nat) (l' : List Walk.Stmt) (k' : Nat), semSkelList k ms = some (l', k') →
      ∀ a i, tkinds (Walk.flatList l' a i) = (Sem.flatList ms).map (fun g => nkind g.1)
    | [], k, l', k', h, a, i => by
      simp only [semSkelList, Option.some.injEq, Prod.mk.injEq] at h
      obtain ⟨rfl, rfl⟩ := h
      simp [Walk.flatList, tkinds, Sem.flatList]
    | s :: r, k, l', k', h, a, i => by
      simp only [semSkelList] at h
      cases hs : semSkel k s with
      | none => simp [hs] at h
      | some p =>
        obtain ⟨s', k1⟩ := p
        simp only [hs] at h
        cases hr : semSkelList k1 r with
        | none => simp [hr] at h
        | some q =>
          obtain ⟨r', k2⟩ := q
          simp only [hr, Option.some.injEq, Prod.mk.injEq] at h
          obtain ⟨rfl, rfl⟩ := h
          simp only [Walk.flatList, tkinds_append, Sem.flatList, List.map_append,
            semSkel_kinds s k s' k1 hs (a ++ [i]), semSkelList_kinds r k1 r' k2 hr a (i + 1)]
end

/-- the number of prepare/measure pairs of the skeleton is `pairCount` of the flat gate applications -/
theorem skelOf_pairs {m : Sem} {body : List Walk.Stmt} {n : Nat} (h : skelOf m = some (body, n)) :
    (Walk.pairs (Walk.flatToks body)).length = pairCount m.flat := by
  cases m with
  | blk par sub it ms =>
    simp only [skelOf] at h
    rw [Walk.pairs, pairsFrom_length, Walk.flatToks, semSkelList_kinds ms 0 body n h [] 0]
    rfl
  | gate _ _ => simp [skelOf] at h
  | loop _ _ => simp [skelOf] at h

/-- unrolling the skeleton of a meaning tree and reading the ids in its table gives its unrolled gate applications -/
theorem skelOf_unroll {m : Sem} {body : List Walk.Stmt} {n : Nat} (h : skelOf m = some (body, n)) :
    (Walk.unroll body).map (fun g => renderGK (specTable m) g.1) = m.unroll.map renderB := by
  cases m with
  | blk par sub it ms =>
    simp only [skelOf] at h
    obtain ⟨_, h2⟩ := semSkelList_unroll (specTable (.blk par sub it ms)) ms 0 body n h
    have := h2 (by
      intro i app hi
      simpa only [Nat.zero_add, specTable, Sem.flat] using hi) [] 0
    simpa only [Walk.unroll, Sem.unroll] using this
  | gate _ _ => simp [skelOf] at h
  | loop _ _ => simp [skelOf] at h

/-- the splices of the expanded macro calls change neither the flat nor the unrolled gate applications -/
theorem flat_spl (x : Sem) : (ExpandMacros.spl x).flat = x.flat := by
  rw [← flat_norm (ExpandMacros.spl x), ExpandMacros.norm_spl, flat_norm]

theorem unroll_spl (x : Sem) : (ExpandMacros.spl x).unroll = x.unroll := by
  rw [← unroll_norm (ExpandMacros.spl x), ExpandMacros.norm_spl, unroll_norm]

theorem specTable_spl (x : Sem) : specTable (ExpandMacros.spl x) = specTable x := by
  rw [specTable, specTable, flat_spl]

/-! ### The gates the emulator multiplies, from the specification's table -/

/-- the indices (in the fundamental register) of the qubit and register arguments of a gate application, in order -/
def appQubitsZ (g : GateApp) : List Int :=
  g.2.flatMap (fun a => match a with
    | .qubit q => [q.2]
    | .reg qs => qs.map (·.2)
    | .num _ => [])

/-- … as the bit positions the loop nest uses -/
def qubitsOf (g : GateApp) : List Nat := (appQubitsZ g).map Int.toNat

/-- the classical (numeric) arguments of a gate application, in order -/
def classicalOf (g : GateApp) : List SArg :=
  g.2.filter (fun a => match a with
    | .num _ => true
    | _ => false)

/-- a gate application as the emulator's loop nest takes it: the matrix the interpretation `U` gives its name and classical
arguments (`none`: no ideal unitary — the gate is skipped), and its qubits -/
def appGate {R : Type} (U : String → List SArg → Option (Nat → Nat → R)) (g : GateApp) : Option (Nat → Nat → R) × List Nat :=
  (U g.1 (classicalOf g), qubitsOf g)

/-- a gate the serialiser yields, looked up in the table `T`; `prepare_all` / `measure_all` have no matrix -/
def gkGate {R : Type} (U : String → List SArg → Option (Nat → Nat → R)) (T : List GateApp) :
    Walk.GK → Option (Nat → Nat → R) × List Nat
  | .other id =>
    match T[id]? with
    | some a => appGate U a
    | none => (none, [])
  | _ => (none, [])

/-- the qubits of a gate application are distinct qubits of an `n`-qubit register (decidable) -/
def AppOK (n : Nat) (g : GateApp) : Prop := (appQubitsZ g).Nodup ∧ ∀ z ∈ appQubitsZ g, 0 ≤ z ∧ z < (n : Int)

instance (n : Nat) (g : GateApp) : Decidable (AppOK n g) := by unfold AppOK; infer_instance

theorem AppOK.qubits {n : Nat} {g : GateApp} (h : AppOK n g) : (qubitsOf g).Nodup ∧ ∀ q ∈ qubitsOf g, q < n := by
  obtain ⟨hd, hr⟩ := h
  constructor
  · unfold qubitsOf
    refine (List.nodup_map_iff_inj_on hd).2 ?_
    intro a ha b hb hab
    have := (hr a ha).1
    have := (hr b hb).1
    omega
  · intro q hq
    obtain ⟨z, hz, rfl⟩ := List.mem_map.1 hq
    have := hr z hz
    omega

/-- every gate of a segment read in a table whose applications are `AppOK` is well formed for the loop nest (`GatesOK`) -/
theorem gatesOK_of_table {R : Type} (U : String → List SArg → Option (Nat → Nat → R)) (T : List GateApp) (n : Nat)
    (hT : ∀ a ∈ T, AppOK n a) (gs : List Walk.GK) : Emulator.GatesOK n (gs.map (gkGate U T)) := by
  intro g hg _
  obtain ⟨k, _, rfl⟩ := List.mem_map.1 hg
  cases k with
  | prep => simp [gkGate]
  | meas => simp [gkGate]
  | other id =>
    simp only [gkGate]
    cases hid : T[id]? with
    | none => simp
    | some a => exact (hT a (List.mem_of_getElem? hid)).qubits

/-- … and unitary when the interpretation gives every application of the table a unitary of its dimension -/
theorem gatesUnitary_of_table {R : Type} [CommSemiring R] [StarRing R] (U : String → List SArg → Option (Nat → Nat → R))
    (T : List GateApp)
    (hU : ∀ a ∈ T, ∀ M, U a.1 (classicalOf a) = some M → Emulator.IsUnitaryOn M (2 ^ (qubitsOf a).length))
    (gs : List Walk.GK) : Emulator.GatesUnitary (gs.map (gkGate U T)) := by
  intro g hg M hM
  obtain ⟨k, _, rfl⟩ := List.mem_map.1 hg
  cases k with
  | prep => simp [gkGate] at hM
  | meas => simp [gkGate] at hM
  | other id =>
    simp only [gkGate] at hM ⊢
    cases hid : T[id]? with
    | none => simp [hid] at hM
    | some a =>
      simp only [hid, appGate] at hM ⊢
      exact hU a (List.mem_of_getElem? hid) M hM

/-! ### A decision procedure for equality of meaning trees (`Sem` derives no `DecidableEq`) -/

mutual
  def semEq : Sem → Sem → Bool
    | .gate n a, .gate n' a' => n == n' && a == a'
    | .blk p s i b, .blk p' s' i' b' => p == p' && s == s' && i == i' && semEqList b b'
    | .loop n b, .loop n' b' => n == n' && semEq b b'
    | _, _ => false
  def semEqList : List Sem → List Sem → Bool
    | [], [] => true
    | x :: r, y :: r' => semEq x y && semEqList r r'
    | _, _ => false
end

mutual
  theorem semEq_sound : ∀ (x y : Sem), semEq x y = true → x = y
    | .gate n a, .gate n' a', h => by
      simp only [semEq, Bool.and_eq_true, beq_iff_eq] at h
      rw [h.1, h.2]
    | .blk p s i b, .blk p' s' i' b', h => by
      simp only [semEq, Bool.and_eq_true, beq_iff_eq] at h
      obtain ⟨⟨⟨rfl, rfl⟩, rfl⟩, hb⟩ := h
      rw [semEqList_sound b b' hb]
    | .loop n b, .loop n' b', h => by
      simp only [semEq, Bool.and_eq_true, beq_iff_eq] at h
      rw [h.1, semEq_sound b b' h.2]
    | .gate _ _, .blk _ _ _ _, h | .gate _ _, .loop _ _, h | .blk _ _ _ _, .gate _ _, h
    | .blk _ _ _ _, .loop _ _, h | .loop _ _, .gate _ _, h | .loop _ _, .blk _ _ _ _, h => by simp [semEq] at h
  theorem semEqList_sound : ∀ (l l' : List Sem), semEqList l l' = true → l = l'
    | [], [], _ => rfl
    | x :: r, y :: r', h => by
      simp only [semEqList, Bool.and_eq_true] at h
      rw [semEq_sound x y h.1, semEqList_sound r r' h.2]
    | [], _ :: _, h | _ :: _, [], h => by simp [semEqList] at h
end

/-! ### The visit sequence on the meaning tree itself (positions in flat order instead of the walkers' addresses) -/

mutual
  /-- gate applications in execution order (`Sem.unroll`), each with its position in the flat (textual) order, counted from `p` -/
  def unrollP : Sem → Nat → List (GateApp × Nat)
    | .gate n a, p => [((n, a), p)]
    | .blk _ _ _ body, p => unrollPList body p
    | .loop n b, p => (List.replicate n.toNat (unrollP b p)).flatten
  def unrollPList : List Sem → Nat → List (GateApp × Nat)
    | [], _ => []
    | s :: r, p => unrollP s p ++ unrollPList r (p + s.flat.length)
end

mutual
  theorem unrollP_fst : ∀ (m : Sem) (p : Nat), (unrollP m p).map (·.1) = m.unroll
    | .gate n a, p => by simp [unrollP, Sem.unroll]
    | .blk _ _ _ body, p => by simpa only [unrollP, Sem.unroll] using unrollPList_fst body p
    | .loop n b, p => by
      simp only [unrollP, Sem.unroll, List.map_flatten, List.map_replicate, unrollP_fst b p]
  theorem unrollPList_fst : ∀ (l : List Sem) (p : Nat), (unrollPList l p).map (·.1) = Sem.unrollList l
    | [], p => by simp [unrollPList, Sem.unrollList]
    | s :: r, p => by
      simp only [unrollPList, Sem.unrollList, List.map_append, unrollP_fst s p, unrollPList_fst r _]
end

/-- the positions (from `p`) of the `prepare_all`s that open a prepare/measure pair, in flat order -/
def startsPFrom : List (Option Bool) → Nat → Option Nat → List Nat
  | [], _, _ => []
  | some true :: r, p, _ => startsPFrom r (p + 1) (some p)
  | some false :: r, p, some s => s :: startsPFrom r (p + 1) none
  | some false :: r, p, none => startsPFrom r (p + 1) none
  | none :: r, p, c => startsPFrom r (p + 1) c

def semStarts (m : Sem) : List Nat := startsPFrom (m.flat.map (fun g => nkind g.1)) 0 none

def posOf? : List Nat → Nat → Option Nat
  | [], _ => none
  | s :: r, a => if s = a then some 0 else (posOf? r a).map (· + 1)

/-- **the visit sequence of a meaning tree**: execute its gate applications in order (loops repeated) and emit `k` whenever the
executed application is the `prepare_all` that opens the `k`-th prepare/measure pair of the textual order -/
def semVisits (m : Sem) : List Nat := (unrollP m 0).filterMap (fun x => posOf? (semStarts m) x.2)

end Jaqal.RunModel
