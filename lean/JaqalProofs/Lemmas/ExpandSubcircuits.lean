import JaqalModel.Model.ExpandSubcircuits
import JaqalProofs.Lemmas.GateDefCall
import JaqalModel.Spec.Sem
/-!
Lemmas about the model of `expand_subcircuits`: the pass is the tree map `spell`.
-/
namespace Jaqal.ExpandSubcircuits
open Jaqal

/-- the statement `gd()` -/
def boundGate (gd : GateDef) : Stmt := .gate gd.name gd []

mutual
  /-- write every subcircuit block out as a sequential (same `parallel` flag) block bracketed by `p` … `m` -/
  def spell (p m : Stmt) : Stmt → Stmt
    | .gate n gd a => .gate n gd a
    | .loop c b => .loop c (spell p m b)
    | .block par sub _ body =>
      if sub then .block par false (.int 1) (p :: spellList p m body ++ [m])
      else .block par false (.int 1) (spellList p m body)
  def spellList (p m : Stmt) : List Stmt → List Stmt
    | [] => []
    | s :: r => spell p m s :: spellList p m r
end

mutual
  /-- does a subcircuit block occur? -/
  def hasSub : Stmt → Bool
    | .gate _ _ _ => false
    | .loop _ b => hasSub b
    | .block _ sub _ body => sub || hasSubList body
  def hasSubList : List Stmt → Bool
    | [] => false
    | s :: r => hasSub s || hasSubList r
end

mutual
  /-- the gate statements in textual order -/
  def flatG : Stmt → List Stmt
    | .gate n gd a => [.gate n gd a]
    | .loop _ b => flatG b
    | .block _ _ _ body => flatGList body
  def flatGList : List Stmt → List Stmt
    | [] => []
    | s :: r => flatG s ++ flatGList r
end

mutual
  /-- the gate statements in textual order, those of each subcircuit block bracketed by `p` … `m` -/
  def flatB (p m : Stmt) : Stmt → List Stmt
    | .gate n gd a => [.gate n gd a]
    | .loop _ b => flatB p m b
    | .block _ sub _ body => if sub then p :: flatBList p m body ++ [m] else flatBList p m body
  def flatBList (p m : Stmt) : List Stmt → List Stmt
    | [] => []
    | s :: r => flatB p m s ++ flatBList p m r
end

mutual
  /-- every loop count passes `_validate_count` -/
  def loopsOk : Stmt → Bool
    | .gate _ _ _ => true
    | .loop c b => !badCount c && loopsOk b
    | .block _ _ _ body => loopsOkList body
  def loopsOkList : List Stmt → Bool
    | [] => true
    | s :: r => loopsOk s && loopsOkList r
end

theorem mkLoop_ok {c : Val} {b s : Stmt} (h : mkLoop c b = .ok s) : s = .loop c b ∧ badCount c = false := by
  unfold mkLoop at h
  split at h
  · cases h
  · next hc => simp only [pure, Except.pure, Except.ok.injEq] at h; exact ⟨h.symm, by simpa using hc⟩

theorem mkLoop_good {c : Val} (b : Stmt) (h : badCount c = false) : mkLoop c b = .ok (.loop c b) := by
  simp [mkLoop, h, pure, Except.pure]

theorem callPos_nil (gd : GateDef) :
    GateDef.callPos gd [] = if gd.params = [] then .ok (boundGate gd) else .error (.jaqal "bad-argument-count") :=
  GateDef.callPos_nil gd

theorem callPos_nil_ok {gd : GateDef} {s : Stmt} (h : GateDef.callPos gd [] = .ok s) : s = boundGate gd ∧ gd.params = [] := by
  rw [callPos_nil] at h
  split at h
  · next hp => simp only [Except.ok.injEq] at h; exact ⟨h.symm, hp⟩
  · cases h

mutual
  theorem visitStmt_spell (pd md : GateDef) : ∀ (s s' : Stmt), visitStmt pd md s = .ok s' →
      s' = spell (boundGate pd) (boundGate md) s
    | .gate n gd a, s', h => by
      simp only [visitStmt, pure, Except.pure, Except.ok.injEq] at h; simp [spell, h]
    | .loop c b, s', h => by
      simp only [visitStmt, bind, Except.bind] at h
      cases hb : visitStmt pd md b with
      | error e => rw [hb] at h; cases h
      | ok b' =>
        rw [hb] at h; simp only at h
        rw [(mkLoop_ok h).1, spell, visitStmt_spell pd md b b' hb]
    | .block par sub it body, s', h => by
      cases sub with
      | true =>
        simp only [visitStmt, if_true, bind, Except.bind] at h
        cases hp : GateDef.callPos pd [] with
        | error e => rw [hp] at h; cases h
        | ok p =>
          rw [hp] at h; simp only at h
          cases hl : visitList pd md body with
          | error e => rw [hl] at h; cases h
          | ok l =>
            rw [hl] at h; simp only at h
            cases hm : GateDef.callPos md [] with
            | error e => rw [hm] at h; cases h
            | ok m =>
              rw [hm] at h; simp only [pure, Except.pure, Except.ok.injEq] at h
              rw [← h, spell, (callPos_nil_ok hp).1, (callPos_nil_ok hm).1, visitList_spell pd md body l hl]
              simp
      | false =>
        simp only [visitStmt, Bool.false_eq_true, if_false, bind, Except.bind] at h
        cases hl : visitList pd md body with
        | error e => rw [hl] at h; cases h
        | ok l =>
          rw [hl] at h; simp only [pure, Except.pure, Except.ok.injEq] at h
          rw [← h, spell, visitList_spell pd md body l hl]; simp
  theorem visitList_spell (pd md : GateDef) : ∀ (l l' : List Stmt), visitList pd md l = .ok l' →
      l' = spellList (boundGate pd) (boundGate md) l
    | [], l', h => by simp only [visitList, pure, Except.pure, Except.ok.injEq] at h; simp [spellList, h]
    | s :: r, l', h => by
      simp only [visitList, bind, Except.bind] at h
      cases hs : visitStmt pd md s with
      | error e => rw [hs] at h; cases h
      | ok s' =>
        rw [hs] at h; simp only at h
        cases hr : visitList pd md r with
        | error e => rw [hr] at h; cases h
        | ok r' =>
          rw [hr] at h; simp only [pure, Except.pure, Except.ok.injEq] at h
          rw [← h, spellList, visitStmt_spell pd md s s' hs, visitList_spell pd md r r' hr]
end

mutual
  /-- the pass succeeds when both bounding definitions take no parameters, or no subcircuit block occurs -/
  theorem visitStmt_ok (pd md : GateDef) : ∀ (s : Stmt), (pd.params = [] ∧ md.params = []) ∨ hasSub s = false →
      loopsOk s = true → visitStmt pd md s = .ok (spell (boundGate pd) (boundGate md) s)
    | .gate n gd a, _, _ => by simp [visitStmt, spell, pure, Except.pure]
    | .loop c b, h, hl => by
      simp only [loopsOk, Bool.and_eq_true, Bool.not_eq_true'] at hl
      have hb := visitStmt_ok pd md b (by simpa [hasSub] using h) hl.2
      simp [visitStmt, spell, hb, bind, Except.bind, mkLoop_good _ hl.1]
    | .block par sub it body, h, hlo => by
      have hl := visitList_ok pd md body (by
        rcases h with h | h
        · exact Or.inl h
        · right; simp only [hasSub, Bool.or_eq_false_iff] at h; exact h.2) (by simpa [loopsOk] using hlo)
      cases sub with
      | true =>
        rcases h with ⟨hp, hm⟩ | h
        · simp [visitStmt, spell, hl, callPos_nil, hp, hm, bind, Except.bind, pure, Except.pure]
        · simp [hasSub] at h
      | false => simp [visitStmt, spell, hl, bind, Except.bind, pure, Except.pure]
  theorem visitList_ok (pd md : GateDef) : ∀ (l : List Stmt), (pd.params = [] ∧ md.params = []) ∨ hasSubList l = false →
      loopsOkList l = true → visitList pd md l = .ok (spellList (boundGate pd) (boundGate md) l)
    | [], _, _ => by simp [visitList, spellList, pure, Except.pure]
    | s :: r, h, hlo => by
      simp only [loopsOkList, Bool.and_eq_true] at hlo
      have hs := visitStmt_ok pd md s (by
        rcases h with h | h
        · exact Or.inl h
        · right; simp only [hasSubList, Bool.or_eq_false_iff] at h; exact h.1) hlo.1
      have hr := visitList_ok pd md r (by
        rcases h with h | h
        · exact Or.inl h
        · right; simp only [hasSubList, Bool.or_eq_false_iff] at h; exact h.2) hlo.2
      simp [visitList, spellList, hs, hr, bind, Except.bind, pure, Except.pure]
end

mutual
  theorem hasSub_spell (p m : Stmt) (hp : hasSub p = false) (hm : hasSub m = false) : ∀ s, hasSub (spell p m s) = false
    | .gate _ _ _ => by simp [spell, hasSub]
    | .loop c b => by simp [spell, hasSub, hasSub_spell p m hp hm b]
    | .block par sub it body => by
      have := hasSubList_spell p m hp hm body
      cases sub with
      | true =>
        simp only [spell, if_true, hasSub, Bool.false_or]
        rw [hasSubList_append]; simp [hasSubList, hp, hm, this]
      | false => simp [spell, hasSub, this]
  theorem hasSubList_spell (p m : Stmt) (hp : hasSub p = false) (hm : hasSub m = false) : ∀ l, hasSubList (spellList p m l) = false
    | [] => by simp [spellList, hasSubList]
    | s :: r => by simp [spellList, hasSubList, hasSub_spell p m hp hm s, hasSubList_spell p m hp hm r]
  theorem hasSubList_append : ∀ (a b : List Stmt), hasSubList (a ++ b) = (hasSubList a || hasSubList b)
    | [], b => by simp [hasSubList]
    | s :: r, b => by simp [hasSubList, hasSubList_append r b, Bool.or_assoc]
end

theorem flatGList_append : ∀ (a b : List Stmt), flatGList (a ++ b) = flatGList a ++ flatGList b
  | [], b => by simp [flatGList]
  | s :: r, b => by simp [flatGList, flatGList_append r b]

mutual
  theorem flatG_spell (p m : Stmt) (hp : flatG p = [p]) (hm : flatG m = [m]) : ∀ s, flatG (spell p m s) = flatB p m s
    | .gate _ _ _ => by simp [spell, flatG, flatB]
    | .loop c b => by simp [spell, flatG, flatB, flatG_spell p m hp hm b]
    | .block par sub it body => by
      have := flatGList_spell p m hp hm body
      cases sub with
      | true => simp [spell, flatG, flatB, flatGList, flatGList_append, this, hp, hm]
      | false => simp [spell, flatG, flatB, this]
  theorem flatGList_spell (p m : Stmt) (hp : flatG p = [p]) (hm : flatG m = [m]) : ∀ l, flatGList (spellList p m l) = flatBList p m l
    | [] => by simp [spellList, flatGList, flatBList]
    | s :: r => by simp [spellList, flatGList, flatBList, flatG_spell p m hp hm s, flatGList_spell p m hp hm r]
end

mutual
  /-- spelling out is the identity (up to the iteration counts of non-subcircuit blocks, which are 1) when nothing is left to spell -/
  theorem spell_spell (p m : Stmt) (hp : hasSub p = false) (hm : hasSub m = false) (hpp : spell p m p = p) (hmm : spell p m m = m) :
      ∀ s, spell p m (spell p m s) = spell p m s
    | .gate _ _ _ => by simp [spell]
    | .loop c b => by simp [spell, spell_spell p m hp hm hpp hmm b]
    | .block par sub it body => by
      have := spellList_spellList p m hp hm hpp hmm body
      cases sub with
      | true => simp [spell, spellList, spellList_append, this, hpp, hmm]
      | false => simp [spell, this]
  theorem spellList_spellList (p m : Stmt) (hp : hasSub p = false) (hm : hasSub m = false) (hpp : spell p m p = p) (hmm : spell p m m = m) :
      ∀ l, spellList p m (spellList p m l) = spellList p m l
    | [] => by simp [spellList]
    | s :: r => by simp [spellList, spell_spell p m hp hm hpp hmm s, spellList_spellList p m hp hm hpp hmm r]
  theorem spellList_append (p m : Stmt) : ∀ (a b : List Stmt), spellList p m (a ++ b) = spellList p m a ++ spellList p m b
    | [], b => by simp [spellList]
    | s :: r, b => by simp [spellList, spellList_append p m r b]
end

theorem visitMacros_eq (pd md : GateDef) : ∀ (ms ms' : List Macro), visitMacros pd md ms = .ok ms' →
    ms' = ms.map (fun m => { name := m.name, params := m.params, body := spell (boundGate pd) (boundGate md) m.body })
  | [], ms', h => by simp only [visitMacros, pure, Except.pure, Except.ok.injEq] at h; simp [← h]
  | m :: r, ms', h => by
    simp only [visitMacros, bind, Except.bind] at h
    cases hb : visitStmt pd md m.body with
    | error e => rw [hb] at h; cases h
    | ok b =>
      rw [hb] at h; simp only at h
      cases hr : visitMacros pd md r with
      | error e => rw [hr] at h; cases h
      | ok r' =>
        rw [hr] at h; simp only [pure, Except.pure, Except.ok.injEq] at h
        rw [← h, visitStmt_spell pd md _ _ hb, visitMacros_eq pd md r r' hr]; simp

theorem visitMacros_ok (pd md : GateDef) : ∀ (ms : List Macro),
    (pd.params = [] ∧ md.params = []) ∨ (∀ m ∈ ms, hasSub m.body = false) → (∀ m ∈ ms, loopsOk m.body = true) →
    visitMacros pd md ms = .ok (ms.map (fun m => { name := m.name, params := m.params, body := spell (boundGate pd) (boundGate md) m.body }))
  | [], _, _ => by simp [visitMacros, pure, Except.pure]
  | m :: r, h, hlo => by
    have hb := visitStmt_ok pd md m.body (by
      rcases h with h | h
      · exact Or.inl h
      · exact Or.inr (h m (by simp))) (hlo m (by simp))
    have hr := visitMacros_ok pd md r (by
      rcases h with h | h
      · exact Or.inl h
      · exact Or.inr (fun x hx => h x (by simp [hx]))) (fun x hx => hlo x (by simp [hx]))
    simp [visitMacros, hb, hr, bind, Except.bind, pure, Except.pure]

/-- `statementsOf` / `iterStmts` only peel loops and one block off -/
theorem hasSubList_of_iter : ∀ (t : Stmt) (l : List Stmt), hasSub t = false → iterStmts t = .ok l → hasSubList l = false
  | .gate _ _ _, l, _, h => by simp [iterStmts] at h
  | .block par sub it body, l, h1, h => by
    simp only [iterStmts, pure, Except.pure, Except.ok.injEq] at h; subst h
    simp only [hasSub, Bool.or_eq_false_iff] at h1; exact h1.2
  | .loop n b, l, h1, h => hasSubList_of_iter b l (by simpa [hasSub] using h1) (by simpa [iterStmts] using h)

theorem hasSubList_of_statements : ∀ (t : Stmt) (l : List Stmt), hasSub t = false → statementsOf t = .ok l → hasSubList l = false
  | .gate _ _ _, l, _, h => by simp [statementsOf] at h
  | .block par sub it body, l, h1, h => by
    simp only [statementsOf, pure, Except.pure, Except.ok.injEq] at h; subst h
    simp only [hasSub, Bool.or_eq_false_iff] at h1; exact h1.2
  | .loop n b, l, h1, h => hasSubList_of_iter b l (by simpa [hasSub] using h1) (by simpa [statementsOf] using h)

theorem spellList_of_iter (p m : Stmt) (hp : hasSub p = false) (hm : hasSub m = false) (hpp : spell p m p = p) (hmm : spell p m m = m) :
    ∀ (t : Stmt) (l : List Stmt), iterStmts (spell p m t) = .ok l → spellList p m l = l
  | .gate _ _ _, l, h => by simp [spell, iterStmts] at h
  | .block par sub it body, l, h => by
    cases sub with
    | true =>
      simp only [spell, if_true, iterStmts, pure, Except.pure, Except.ok.injEq] at h; subst h
      simp [spellList, spellList_append, hpp, hmm, spellList_spellList _ _ hp hm hpp hmm]
    | false =>
      simp only [spell, Bool.false_eq_true, if_false, iterStmts, pure, Except.pure, Except.ok.injEq] at h; subst h
      exact spellList_spellList _ _ hp hm hpp hmm body
  | .loop n b, l, h => spellList_of_iter p m hp hm hpp hmm b l (by simpa [spell, iterStmts] using h)

theorem spellList_of_statements (p m : Stmt) (hp : hasSub p = false) (hm : hasSub m = false) (hpp : spell p m p = p) (hmm : spell p m m = m) :
    ∀ (t : Stmt) (l : List Stmt), statementsOf (spell p m t) = .ok l → spellList p m l = l
  | .gate _ _ _, l, h => by simp [spell, statementsOf] at h
  | .block par sub it body, l, h =>
    spellList_of_iter p m hp hm hpp hmm (.block par sub it body) l (by cases sub <;> simpa [spell, statementsOf, iterStmts] using h)
  | .loop n b, l, h => spellList_of_iter p m hp hm hpp hmm b l (by simpa [spell, statementsOf] using h)

/-! ### loop counts: a successful run has checked them all, and spelling out does not touch them -/

theorem loopsOkList_append : ∀ (a b : List Stmt), loopsOkList (a ++ b) = (loopsOkList a && loopsOkList b)
  | [], b => by simp [loopsOkList]
  | s :: r, b => by simp [loopsOkList, loopsOkList_append r b, Bool.and_assoc]

mutual
  theorem loopsOk_spell (p m : Stmt) (hp : loopsOk p = true) (hm : loopsOk m = true) : ∀ s, loopsOk (spell p m s) = loopsOk s
    | .gate _ _ _ => by simp [spell]
    | .loop c b => by simp [spell, loopsOk, loopsOk_spell p m hp hm b]
    | .block par sub it body => by
      have := loopsOkList_spell p m hp hm body
      cases sub with
      | true => simp [spell, loopsOk, loopsOkList, loopsOkList_append, this, hp, hm]
      | false => simp [spell, loopsOk, this]
  theorem loopsOkList_spell (p m : Stmt) (hp : loopsOk p = true) (hm : loopsOk m = true) : ∀ l, loopsOkList (spellList p m l) = loopsOkList l
    | [] => by simp [spellList]
    | s :: r => by simp [spellList, loopsOkList, loopsOk_spell p m hp hm s, loopsOkList_spell p m hp hm r]
end

mutual
  theorem visitStmt_loopsOk (pd md : GateDef) : ∀ (s s' : Stmt), visitStmt pd md s = .ok s' → loopsOk s = true
    | .gate _ _ _, _, _ => rfl
    | .loop c b, s', h => by
      simp only [visitStmt, bind, Except.bind] at h
      cases hb : visitStmt pd md b with
      | error e => rw [hb] at h; cases h
      | ok b' =>
        rw [hb] at h; simp only at h
        simp [loopsOk, (mkLoop_ok h).2, visitStmt_loopsOk pd md b b' hb]
    | .block par sub it body, s', h => by
      cases sub with
      | true =>
        simp only [visitStmt, if_true, bind, Except.bind] at h
        cases hp : GateDef.callPos pd [] with
        | error e => rw [hp] at h; cases h
        | ok p =>
          rw [hp] at h; simp only at h
          cases hl : visitList pd md body with
          | error e => rw [hl] at h; cases h
          | ok l => simpa [loopsOk] using visitList_loopsOk pd md body l hl
      | false =>
        simp only [visitStmt, Bool.false_eq_true, if_false, bind, Except.bind] at h
        cases hl : visitList pd md body with
        | error e => rw [hl] at h; cases h
        | ok l => simpa [loopsOk] using visitList_loopsOk pd md body l hl
  theorem visitList_loopsOk (pd md : GateDef) : ∀ (l l' : List Stmt), visitList pd md l = .ok l' → loopsOkList l = true
    | [], _, _ => rfl
    | s :: r, l', h => by
      simp only [visitList, bind, Except.bind] at h
      cases hs : visitStmt pd md s with
      | error e => rw [hs] at h; cases h
      | ok s' =>
        rw [hs] at h; simp only at h
        cases hr : visitList pd md r with
        | error e => rw [hr] at h; cases h
        | ok r' => simp [loopsOkList, visitStmt_loopsOk pd md s s' hs, visitList_loopsOk pd md r r' hr]
end

theorem visitMacros_loopsOk (pd md : GateDef) : ∀ (ms ms' : List Macro), visitMacros pd md ms = .ok ms' →
    ∀ m ∈ ms, loopsOk m.body = true
  | [], _, _, m, hm => by simp at hm
  | x :: r, ms', h, m, hm => by
    simp only [visitMacros, bind, Except.bind] at h
    cases hb : visitStmt pd md x.body with
    | error e => rw [hb] at h; cases h
    | ok b =>
      rw [hb] at h; simp only at h
      cases hr : visitMacros pd md r with
      | error e => rw [hr] at h; cases h
      | ok r' =>
        simp only [List.mem_cons] at hm
        rcases hm with rfl | hm
        · exact visitStmt_loopsOk pd md _ _ hb
        · exact visitMacros_loopsOk pd md r r' hr m hm

theorem loopsOkList_of_iter : ∀ (t : Stmt) (l : List Stmt), loopsOk t = true → iterStmts t = .ok l → loopsOkList l = true
  | .gate _ _ _, l, _, h => by simp [iterStmts] at h
  | .block par sub it body, l, h1, h => by
    simp only [iterStmts, pure, Except.pure, Except.ok.injEq] at h; subst h; simpa [loopsOk] using h1
  | .loop n b, l, h1, h => loopsOkList_of_iter b l (by simp only [loopsOk, Bool.and_eq_true] at h1; exact h1.2) (by simpa [iterStmts] using h)

theorem loopsOkList_of_statements : ∀ (t : Stmt) (l : List Stmt), loopsOk t = true → statementsOf t = .ok l → loopsOkList l = true
  | .gate _ _ _, l, _, h => by simp [statementsOf] at h
  | .block par sub it body, l, h1, h => by
    simp only [statementsOf, pure, Except.pure, Except.ok.injEq] at h; subst h; simpa [loopsOk] using h1
  | .loop n b, l, h1, h => loopsOkList_of_iter b l (by simp only [loopsOk, Bool.and_eq_true] at h1; exact h1.2) (by simpa [statementsOf] using h)

/-! ### the name check of `_choose_bounding_gate`, factored out -/

/-- the pass once the bounding definitions are chosen -/
def expandCore (p m : GateDef) (c : Circuit) : M Circuit := do
  let macros ← visitMacros p m c.macros
  let body ← visitStmt p m c.body
  let stmts ← statementsOf body
  pure { usepulses := c.usepulses, constants := c.constants, registers := c.registers,
         macros := macros, natives := c.natives, body := .block false false (.int 1) stmts }

theorem expandSubcircuits_eq (prep meas : Option GateDefChoice) (c : Circuit) :
    expandSubcircuits prep meas c =
      if boundingClash prep "prepare_all" c then .error (.jaqal "bounding-name-is-a-macro")
      else if boundingClash meas "measure_all" c then .error (.jaqal "bounding-name-is-a-macro")
      else expandCore (chooseBounding prep "prepare_all" c) (chooseBounding meas "measure_all" c) c := by
  unfold expandSubcircuits chooseBoundingM expandCore
  cases boundingClash prep "prepare_all" c <;> cases boundingClash meas "measure_all" c <;> rfl

theorem expandSubcircuits_noclash {prep meas : Option GateDefChoice} {c : Circuit}
    (hp : boundingClash prep "prepare_all" c = false) (hm : boundingClash meas "measure_all" c = false) :
    expandSubcircuits prep meas c =
      expandCore (chooseBounding prep "prepare_all" c) (chooseBounding meas "measure_all" c) c := by
  rw [expandSubcircuits_eq]; simp [hp, hm]

theorem expandSubcircuits_ok_noclash {prep meas : Option GateDefChoice} {c c' : Circuit}
    (h : expandSubcircuits prep meas c = .ok c') :
    boundingClash prep "prepare_all" c = false ∧ boundingClash meas "measure_all" c = false := by
  rw [expandSubcircuits_eq] at h
  cases hp : boundingClash prep "prepare_all" c <;> cases hm : boundingClash meas "measure_all" c <;>
    simp [hp, hm] at h <;> exact ⟨rfl, rfl⟩

/-! ### error classes: every rejection is a `JaqalError` -/

theorem mkLoop_class (c : Val) (b : Stmt) : JaqalOnly (mkLoop c b) := by
  unfold mkLoop
  exact JaqalOnly.ite (JaqalOnly.jaqal _) (JaqalOnly.pure _)

theorem callPos_class (gd : GateDef) : JaqalOnly (GateDef.callPos gd []) := by
  rw [callPos_nil]
  exact JaqalOnly.ite (JaqalOnly.ok _) (JaqalOnly.jaqal _)

mutual
  theorem visitStmt_class (pd md : GateDef) : ∀ (s : Stmt), JaqalOnly (visitStmt pd md s)
    | .gate _ _ _ => JaqalOnly.pure _
    | .loop c b => by
      simp only [visitStmt]
      apply JaqalOnly.bind (visitStmt_class pd md b)
      intro b' _
      exact mkLoop_class _ _
    | .block par sub it body => by
      simp only [visitStmt]
      apply JaqalOnly.ite
      · apply JaqalOnly.bind (callPos_class pd)
        intro p _
        apply JaqalOnly.bind (visitList_class pd md body)
        intro l _
        apply JaqalOnly.bind (callPos_class md)
        intro m _
        exact JaqalOnly.pure _
      · apply JaqalOnly.bind (visitList_class pd md body)
        intro l _
        exact JaqalOnly.pure _
  theorem visitList_class (pd md : GateDef) : ∀ (l : List Stmt), JaqalOnly (visitList pd md l)
    | [] => JaqalOnly.pure _
    | s :: r => by
      simp only [visitList]
      apply JaqalOnly.bind (visitStmt_class pd md s)
      intro s' _
      apply JaqalOnly.bind (visitList_class pd md r)
      intro r' _
      exact JaqalOnly.pure _
end

theorem visitMacros_class (pd md : GateDef) : ∀ (ms : List Macro), JaqalOnly (visitMacros pd md ms)
  | [] => JaqalOnly.pure _
  | m :: r => by
    simp only [visitMacros]
    apply JaqalOnly.bind (visitStmt_class pd md m.body)
    intro b _
    apply JaqalOnly.bind (visitMacros_class pd md r)
    intro r' _
    exact JaqalOnly.pure _

end Jaqal.ExpandSubcircuits
