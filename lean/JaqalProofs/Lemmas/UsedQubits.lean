import JaqalModel.Model.UsedQubits
/-! Dictionary / set lemmas for the used-qubit model (C13). -/
namespace Jaqal.UsedQubits
open Jaqal.Resolve

/-- `i ∈ u[r]` -/
def Mem (u : Used) (r : String) (i : Int) : Prop := i ∈ get u r

/-- every key at most once -/
def KeysNodup (u : Used) : Prop := (u.map (·.1)).Nodup

theorem get_upsert (d : Used) (k : String) (v : List Int) (r : String) :
    get (upsert d k v) r = if k = r then v else get d r := by
  induction d with
  | nil => simp [upsert, get]
  | cons h t ih =>
    obtain ⟨k', v'⟩ := h
    simp only [upsert]
    split <;> simp only [get] <;> grind

theorem keys_upsert (d : Used) (k : String) (v : List Int) (r : String) :
    r ∈ (upsert d k v).map (·.1) ↔ r = k ∨ r ∈ d.map (·.1) := by
  induction d with
  | nil => simp [upsert]
  | cons h t ih =>
    obtain ⟨k', v'⟩ := h
    simp only [upsert]
    split <;> simp_all <;> grind

theorem keysNodup_upsert (d : Used) (k : String) (v : List Int) (h : KeysNodup d) : KeysNodup (upsert d k v) := by
  induction d with
  | nil => simp [upsert, KeysNodup]
  | cons hd t ih =>
    obtain ⟨k', v'⟩ := hd
    simp only [KeysNodup, List.map_cons, List.nodup_cons] at h
    simp only [upsert]
    split
    · simpa [KeysNodup] using h
    · rename_i hne
      simp only [KeysNodup, List.map_cons, List.nodup_cons]
      refine ⟨?_, ih h.2⟩
      intro hm
      rcases (keys_upsert t k v k').1 hm with h1 | h1
      · exact hne h1
      · exact h.1 h1

theorem mem_setUnion (a b : List Int) (x : Int) : x ∈ setUnion a b ↔ x ∈ a ∨ x ∈ b := by
  simp only [setUnion, List.mem_append, List.mem_filter]
  by_cases h : x ∈ a <;> simp [h]

theorem intersects_iff (a b : List Int) : intersects a b = true ↔ ∃ x, x ∈ a ∧ x ∈ b := by
  simp [intersects]

/-- if keys are unique, membership through `get` is membership in the entry -/
theorem mem_get_of_mem (u : Used) (h : KeysNodup u) (r : String) (l : List Int) (hm : (r, l) ∈ u) : get u r = l := by
  induction u with
  | nil => cases hm
  | cons hd t ih =>
    obtain ⟨k', v'⟩ := hd
    simp only [KeysNodup, List.map_cons, List.nodup_cons] at h
    simp only [get]
    rcases List.mem_cons.1 hm with h1 | h1
    · cases h1; simp
    · have : k' ≠ r := by
        intro e; subst e
        exact h.1 (List.mem_map.2 ⟨(k', l), h1, rfl⟩)
      simp only [this, if_false]
      exact ih h.2 h1

theorem Mem_iff_entry (u : Used) (h : KeysNodup u) (r : String) (i : Int) :
    Mem u r i ↔ ∃ l, (r, l) ∈ u ∧ i ∈ l := by
  constructor
  · intro hm
    induction u with
    | nil => simp [Mem, get] at hm
    | cons hd t ih =>
      obtain ⟨k', v'⟩ := hd
      simp only [Mem, get] at hm
      simp only [KeysNodup, List.map_cons, List.nodup_cons] at h
      split at hm
      · rename_i e; subst e; exact ⟨v', List.mem_cons_self, hm⟩
      · obtain ⟨l, hl, hi⟩ := ih h.2 hm
        exact ⟨l, List.mem_cons_of_mem _ hl, hi⟩
  · rintro ⟨l, hl, hi⟩
    simp only [Mem, mem_get_of_mem u h r l hl]; exact hi

/-- the result of `merge_into`: union; it fails exactly when `disjoint` and some key's sets intersect. -/
theorem mergeInto_ok (d : Bool) (tgt src t : Used) (h : mergeInto d tgt src = .ok t) (r : String) (i : Int) :
    Mem t r i ↔ Mem tgt r i ∨ ∃ l, (r, l) ∈ src ∧ i ∈ l := by
  induction src generalizing tgt with
  | nil => simp only [mergeInto, pure, Except.pure, Except.ok.injEq] at h; subst h; simp
  | cons kv rest ih =>
    simp only [mergeInto, bind, Except.bind] at h
    split at h
    · cases h
    · rename_i t1 h1
      rw [ih _ h]
      simp only [mergeKey] at h1
      split at h1
      · cases h1
      · simp only [pure, Except.pure, Except.ok.injEq] at h1; subst h1
        simp only [Mem, get_upsert, List.mem_cons]
        obtain ⟨k, v⟩ := kv
        by_cases hk : k = r
        · subst hk
          simp only [if_true, mem_setUnion]
          constructor
          · rintro (h | ⟨l, hl, hi⟩)
            · rcases h with h | h
              · exact Or.inl h
              · exact Or.inr ⟨v, Or.inl rfl, h⟩
            · exact Or.inr ⟨l, Or.inr hl, hi⟩
          · rintro (h | ⟨l, hl | hl, hi⟩)
            · exact Or.inl (Or.inl h)
            · cases hl; exact Or.inl (Or.inr hi)
            · exact Or.inr ⟨l, hl, hi⟩
        · simp only [hk, if_false]
          constructor
          · rintro (h | ⟨l, hl, hi⟩)
            · exact Or.inl h
            · exact Or.inr ⟨l, Or.inr hl, hi⟩
          · rintro (h | ⟨l, hl | hl, hi⟩)
            · exact Or.inl h
            · cases hl; exact absurd rfl hk
            · exact Or.inr ⟨l, hl, hi⟩

theorem mergeInto_keysNodup (d : Bool) (tgt src t : Used) (h : mergeInto d tgt src = .ok t) (hk : KeysNodup tgt) :
    KeysNodup t := by
  induction src generalizing tgt with
  | nil => simp only [mergeInto, pure, Except.pure, Except.ok.injEq] at h; subst h; exact hk
  | cons kv rest ih =>
    simp only [mergeInto, bind, Except.bind] at h
    split at h
    · cases h
    · rename_i t1 h1
      refine ih _ h ?_
      simp only [mergeKey] at h1
      split at h1
      · cases h1
      · simp only [pure, Except.pure, Except.ok.injEq] at h1; subst h1
        exact keysNodup_upsert _ _ _ hk

/-- the message of the one `JaqalError` the disjoint merge raises -/
abbrev parErr : Err := .jaqal "parallel-branches-same-qubit"

theorem get_of_not_key (u : Used) (r : String) (h : r ∉ u.map (·.1)) : get u r = [] := by
  induction u with
  | nil => rfl
  | cons hd t ih =>
    obtain ⟨k', v'⟩ := hd
    simp only [List.map_cons, List.mem_cons, not_or] at h
    simp only [get]
    rw [if_neg (fun e => h.1 e.symm)]
    exact ih h.2

theorem mergeInto_false_ok (tgt src : Used) : ∃ t, mergeInto false tgt src = .ok t := by
  induction src generalizing tgt with
  | nil => exact ⟨tgt, rfl⟩
  | cons kv rest ih =>
    simp only [mergeInto, mergeKey, Bool.false_and, bind, Except.bind, pure, Except.pure]
    exact ih _

/-- `merge_into(..., disjoint=True)` raises exactly when the two dictionaries share a (register, index);
otherwise it returns what the plain merge returns. -/
theorem mergeInto_true (tgt src : Used) (hs : KeysNodup src) :
    ((∃ r i, Mem tgt r i ∧ Mem src r i) ∧ mergeInto true tgt src = .error parErr) ∨
    ((¬ ∃ r i, Mem tgt r i ∧ Mem src r i) ∧ mergeInto true tgt src = mergeInto false tgt src) := by
  induction src generalizing tgt with
  | nil => right; simp [Mem, get, mergeInto]
  | cons kv rest ih =>
    obtain ⟨k, v⟩ := kv
    simp only [KeysNodup, List.map_cons, List.nodup_cons] at hs
    have hk : get rest k = [] := get_of_not_key rest k hs.1
    simp only [mergeInto, mergeKey, Bool.true_and, Bool.false_and, bind, Except.bind, pure, Except.pure]
    by_cases hi : intersects (get tgt k) v = true
    · left
      simp only [hi, if_true]
      obtain ⟨x, hx1, hx2⟩ := (intersects_iff _ _).1 hi
      exact ⟨⟨k, x, hx1, by simp [Mem, get, hx2]⟩, trivial⟩
    · simp only [hi]
      have hni : ¬ ∃ x, x ∈ get tgt k ∧ x ∈ v := fun h => hi ((intersects_iff _ _).2 h)
      have key : (∃ r i, Mem (upsert tgt k (setUnion (get tgt k) v)) r i ∧ Mem rest r i) ↔
          (∃ r i, Mem tgt r i ∧ Mem ((k, v) :: rest) r i) := by
        constructor
        · rintro ⟨r, i, h1, h2⟩
          refine ⟨r, i, ?_, ?_⟩
          · simp only [Mem, get_upsert] at h1
            by_cases e : k = r
            · subst e; simp [Mem, hk] at h2
            · simpa [Mem, e] using h1
          · by_cases e : k = r
            · subst e; simp [Mem, hk] at h2
            · simpa [Mem, get, e] using h2
        · rintro ⟨r, i, h1, h2⟩
          by_cases e : k = r
          · subst e
            simp only [Mem, get, if_true] at h2
            exact absurd ⟨i, h1, h2⟩ hni
          · refine ⟨r, i, ?_, ?_⟩
            · simpa [Mem, get_upsert, e] using h1
            · simpa [Mem, get, e] using h2
      rcases ih (upsert tgt k (setUnion (get tgt k) v)) hs.2 with ⟨h1, h2⟩ | ⟨h1, h2⟩
      · left; exact ⟨key.1 h1, by simpa using h2⟩
      · right; exact ⟨fun h => h1 (key.2 h), by simpa using h2⟩

/-- under unique keys the union characterisation reads on `Mem` -/
theorem mergeInto_mem (d : Bool) (tgt src t : Used) (h : mergeInto d tgt src = .ok t) (hs : KeysNodup src)
    (r : String) (i : Int) : Mem t r i ↔ Mem tgt r i ∨ Mem src r i := by
  rw [mergeInto_ok d tgt src t h, Mem_iff_entry src hs]

theorem keysNodup_nil : KeysNodup [] := by simp [KeysNodup]

theorem Mem_nil (r : String) (i : Int) : ¬ Mem [] r i := by simp [Mem, get]

/-! ### unique keys of everything the model returns -/

theorem addIdx_keysNodup (d : Used) (q : String × Int) (h : KeysNodup d) : KeysNodup (addIdx d q) :=
  keysNodup_upsert _ _ _ h

theorem visitRegLoop_keysNodup (ctx : Ctx) (r : Val) (acc : Used) (i : Int) (n : Nat) (u : Used)
    (h : visitRegLoop ctx r acc i n = .ok u) (ha : KeysNodup acc) : KeysNodup u := by
  induction n generalizing acc i with
  | zero => simp only [visitRegLoop, pure, Except.pure, Except.ok.injEq] at h; subst h; exact ha
  | succ n ih =>
    simp only [visitRegLoop, bind, Except.bind] at h
    split at h
    · cases h
    · exact ih _ _ h (addIdx_keysNodup _ _ ha)

theorem visitRegister_keysNodup (ctx : Ctx) (r : Val) (u : Used) (h : visitRegister ctx r = .ok u) : KeysNodup u := by
  simp only [visitRegister, bind, Except.bind] at h
  split at h
  · cases h
  · split at h
    · cases h
    · exact visitRegLoop_keysNodup _ _ _ _ _ _ h keysNodup_nil

theorem visitVal_keysNodup (ctx : Ctx) (f : Nat) (v : Val) (u : Used) (h : visitVal ctx f v = .ok u) : KeysNodup u := by
  induction f generalizing v with
  | zero =>
    cases v <;> simp only [visitVal] at h
    all_goals first
      | exact visitRegister_keysNodup _ _ _ h
      | (cases h <;> exact keysNodup_nil)
      | (simp only [bind, Except.bind] at h; split at h
         · cases h
         · simp only [pure, Except.pure, Except.ok.injEq] at h; subst h; simp [KeysNodup])
  | succ f ih =>
    cases v <;> simp only [visitVal] at h
    all_goals first
      | exact visitRegister_keysNodup _ _ _ h
      | (cases h <;> exact keysNodup_nil)
      | (simp only [bind, Except.bind] at h; split at h
         · cases h
         · simp only [pure, Except.pure, Except.ok.injEq] at h; subst h; simp [KeysNodup])
      | (split at h
         · exact ih _ h
         · cases h)

theorem visitUsedParams_keysNodup (vp : Bool) (ctx : Ctx) (args : List (String × Val)) (acc : Used) (ps : List String) (u : Used)
    (h : visitUsedParams vp ctx args acc ps = .ok u) (ha : KeysNodup acc) : KeysNodup u := by
  induction ps generalizing acc with
  | nil => simp only [visitUsedParams, pure, Except.pure, Except.ok.injEq] at h; subst h; exact ha
  | cons p rest ih =>
    simp only [visitUsedParams] at h
    split at h
    · cases h
    · simp only [bind, Except.bind] at h
      split at h
      · cases h
      · split at h
        · cases h
        · split at h
          · cases h
          · rename_i hm
            exact ih _ h (mergeInto_keysNodup _ _ _ _ hm ha)

theorem foldBlock_keysNodup (visit : Stmt → M Used) (d : Bool) (acc : Used) (body : List Stmt) (u : Used)
    (h : foldBlock visit d acc body = .ok u) (ha : KeysNodup acc) : KeysNodup u := by
  induction body generalizing acc with
  | nil => simp only [foldBlock, pure, Except.pure, Except.ok.injEq] at h; subst h; exact ha
  | cons s rest ih =>
    simp only [foldBlock, bind, Except.bind] at h
    split at h
    · cases h
    · split at h
      · cases h
      · rename_i hm
        exact ih _ h (mergeInto_keysNodup _ _ _ _ hm ha)

theorem usedStmtF_keysNodup (vp : Bool) (allQ : Used) (macros : List Macro) (fuel : Nat) (ctx : Ctx) (s : Stmt) (u : Used)
    (h : usedStmtF vp allQ macros fuel ctx s = .ok u) : KeysNodup u := by
  induction fuel generalizing ctx s u with
  | zero => simp [usedStmtF] at h
  | succ f ih =>
    cases s with
    | gate name gd args =>
      simp only [usedStmtF] at h
      split at h
      · split at h
        · cases h
        · simp only [bind, Except.bind] at h
          split at h
          · cases h
          · exact ih _ _ _ h
      · exact mergeInto_keysNodup _ _ _ _ h keysNodup_nil
      · simp only [pure, Except.pure, Except.ok.injEq] at h; subst h; exact keysNodup_nil
      · exact visitUsedParams_keysNodup _ _ _ _ _ _ h keysNodup_nil
    | block par sub it body =>
      simp only [usedStmtF] at h
      exact foldBlock_keysNodup _ _ _ _ _ h keysNodup_nil
    | loop c body =>
      simp only [usedStmtF] at h
      exact ih _ _ _ h

/-! ### What the analysis computes: the qubits some reachable gate application acts on -/

/-- `Acts allQ macros ctx s r i`: some gate statement reachable from `s` — through blocks, loops and macro calls,
the macro's parameters being bound as `bind_argument` binds them — acts on qubit `i` of the fundamental register `r`:
it is the resolution (`visitVal`: `resolve_qubit` of a qubit, every member of a register) of an argument in a
used-qubit position of a native gate, or any qubit (`allQ`) for a busy gate; idle gates act on nothing. -/
inductive Acts (allQ : Used) (macros : List Macro) : Ctx → Stmt → String → Int → Prop
  | native {ctx name gd args p a ua r i} : gd.tag = .native → p ∈ usedParams gd → args.lookup p = some a →
      visitVal ctx (valFuel ctx) a = .ok ua → Mem ua r i → Acts allQ macros ctx (.gate name gd args) r i
  | busy {ctx name gd args r i} : gd.tag = .busy → Mem allQ r i → Acts allQ macros ctx (.gate name gd args) r i
  | call {ctx name gd args m bs r i} : gd.tag = .macro → macros.find? (fun m => m.name == name) = some m →
      bindArguments ctx args = .ok bs → Acts allQ macros (bs ++ ctx) m.body r i →
      Acts allQ macros ctx (.gate name gd args) r i
  | block {ctx par sub it body s r i} : s ∈ body → Acts allQ macros ctx s r i →
      Acts allQ macros ctx (.block par sub it body) r i
  | loop {ctx c body r i} : Acts allQ macros ctx body r i → Acts allQ macros ctx (.loop c body) r i

theorem visitUsedParams_mem (vp : Bool) (ctx : Ctx) (args : List (String × Val)) (acc : Used) (ps : List String) (u : Used)
    (h : visitUsedParams vp ctx args acc ps = .ok u) (r : String) (i : Int) :
    Mem u r i ↔ Mem acc r i ∨ ∃ p ∈ ps, ∃ a ua, args.lookup p = some a ∧ visitVal ctx (valFuel ctx) a = .ok ua ∧ Mem ua r i := by
  induction ps generalizing acc with
  | nil => simp only [visitUsedParams, pure, Except.pure, Except.ok.injEq] at h; subst h; simp
  | cons p rest ih =>
    simp only [visitUsedParams] at h
    split at h
    · cases h
    · rename_i a ha
      simp only [bind, Except.bind] at h
      split at h
      · cases h
      · rename_i ua hua
        split at h
        · cases h
        · split at h
          · cases h
          · rename_i acc' hm
            rw [ih _ h, mergeInto_mem _ _ _ _ hm (visitVal_keysNodup _ _ _ _ hua)]
            constructor
            · rintro ((h1 | h1) | ⟨q, hq, a', ua', h2, h3, h4⟩)
              · exact Or.inl h1
              · exact Or.inr ⟨p, List.mem_cons_self, a, ua, ha, hua, h1⟩
              · exact Or.inr ⟨q, List.mem_cons_of_mem _ hq, a', ua', h2, h3, h4⟩
            · rintro (h1 | ⟨q, hq, a', ua', h2, h3, h4⟩)
              · exact Or.inl (Or.inl h1)
              · rcases List.mem_cons.1 hq with e | hq
                · subst e
                  rw [ha] at h2; cases h2
                  rw [hua] at h3; cases h3
                  exact Or.inl (Or.inr h4)
                · exact Or.inr ⟨q, hq, a', ua', h2, h3, h4⟩

theorem foldBlock_all_ok (visit : Stmt → M Used) (d : Bool) (acc : Used) (body : List Stmt) (u : Used)
    (h : foldBlock visit d acc body = .ok u) : ∀ s ∈ body, ∃ us, visit s = .ok us := by
  induction body generalizing acc with
  | nil => simp
  | cons s rest ih =>
    simp only [foldBlock, bind, Except.bind] at h
    split at h
    · cases h
    · rename_i us hus
      split at h
      · cases h
      · intro s' hs'
        rcases List.mem_cons.1 hs' with e | hs'
        · subst e; exact ⟨us, hus⟩
        · exact ih _ h s' hs'

theorem foldBlock_mem (visit : Stmt → M Used) (hv : ∀ s us, visit s = .ok us → KeysNodup us)
    (d : Bool) (acc : Used) (body : List Stmt) (u : Used)
    (h : foldBlock visit d acc body = .ok u) (r : String) (i : Int) :
    Mem u r i ↔ Mem acc r i ∨ ∃ s ∈ body, ∃ us, visit s = .ok us ∧ Mem us r i := by
  induction body generalizing acc with
  | nil => simp only [foldBlock, pure, Except.pure, Except.ok.injEq] at h; subst h; simp
  | cons s rest ih =>
    simp only [foldBlock, bind, Except.bind] at h
    split at h
    · cases h
    · rename_i us hus
      split at h
      · cases h
      · rename_i acc' hm
        rw [ih _ h, mergeInto_mem _ _ _ _ hm (hv _ _ hus)]
        constructor
        · rintro ((h1 | h1) | ⟨s', hs', us', h2, h3⟩)
          · exact Or.inl h1
          · exact Or.inr ⟨s, List.mem_cons_self, us, hus, h1⟩
          · exact Or.inr ⟨s', List.mem_cons_of_mem _ hs', us', h2, h3⟩
        · rintro (h1 | ⟨s', hs', us', h2, h3⟩)
          · exact Or.inl (Or.inl h1)
          · rcases List.mem_cons.1 hs' with e | hs'
            · subst e
              rw [hus] at h2; cases h2
              exact Or.inl (Or.inr h3)
            · exact Or.inr ⟨s', hs', us', h2, h3⟩

/-- **Exactness of the walk.** Whenever the analysis returns, it returns exactly the qubits some reachable
gate application acts on (for the plain visitor and for the one with the disjoint merge alike). -/
theorem usedStmtF_mem_iff (vp : Bool) (allQ : Used) (hq : KeysNodup allQ) (macros : List Macro) (fuel : Nat) (ctx : Ctx)
    (s : Stmt) (u : Used) (h : usedStmtF vp allQ macros fuel ctx s = .ok u) (r : String) (i : Int) :
    Mem u r i ↔ Acts allQ macros ctx s r i := by
  induction fuel generalizing ctx s u with
  | zero => simp [usedStmtF] at h
  | succ f ih =>
    cases s with
    | gate name gd args =>
      simp only [usedStmtF] at h
      split at h
      · rename_i htag
        split at h
        · cases h
        · rename_i m hm
          simp only [bind, Except.bind] at h
          split at h
          · cases h
          · rename_i bs hbs
            rw [ih _ _ _ h]
            constructor
            · exact fun ha => Acts.call htag hm hbs ha
            · intro ha
              cases ha with
              | native ht => rw [htag] at ht; cases ht
              | busy ht => rw [htag] at ht; cases ht
              | call _ hm' hbs' ha' =>
                rw [hm] at hm'; cases hm'
                rw [hbs] at hbs'; cases hbs'
                exact ha'
      · rename_i htag
        rw [mergeInto_mem _ _ _ _ h hq]
        constructor
        · rintro (h1 | h1)
          · exact absurd h1 (Mem_nil _ _)
          · exact Acts.busy htag h1
        · intro ha
          cases ha with
          | native ht => rw [htag] at ht; cases ht
          | busy _ hm => exact Or.inr hm
          | call ht => rw [htag] at ht; cases ht
      · rename_i htag
        simp only [pure, Except.pure, Except.ok.injEq] at h; subst h
        constructor
        · intro h1; exact absurd h1 (Mem_nil _ _)
        · intro ha
          cases ha with
          | native ht => rw [htag] at ht; cases ht
          | busy ht => rw [htag] at ht; cases ht
          | call ht => rw [htag] at ht; cases ht
      · rename_i htag
        rw [visitUsedParams_mem _ _ _ _ _ _ h]
        constructor
        · rintro (h1 | ⟨p, hp, a, ua, h2, h3, h4⟩)
          · exact absurd h1 (Mem_nil _ _)
          · exact Acts.native htag hp h2 h3 h4
        · intro ha
          cases ha with
          | native _ hp h2 h3 h4 => exact Or.inr ⟨_, hp, _, _, h2, h3, h4⟩
          | busy ht => rw [htag] at ht; cases ht
          | call ht => rw [htag] at ht; cases ht
    | block par sub it body =>
      simp only [usedStmtF] at h
      rw [foldBlock_mem _ (fun s us => usedStmtF_keysNodup _ _ _ _ _ s us) _ _ _ _ h]
      constructor
      · rintro (h1 | ⟨s, hs, us, h2, h3⟩)
        · exact absurd h1 (Mem_nil _ _)
        · exact Acts.block hs ((ih _ _ _ h2).1 h3)
      · intro ha
        cases ha with
        | block hs ha' =>
          obtain ⟨us, hus⟩ := foldBlock_all_ok _ _ _ _ _ h _ hs
          exact Or.inr ⟨_, hs, us, hus, (ih _ _ _ hus).2 ha'⟩
    | loop c body =>
      simp only [usedStmtF] at h
      rw [ih _ _ _ h]
      constructor
      · exact fun ha => Acts.loop ha
      · intro ha
        cases ha with
        | loop ha' => exact ha'

/-! ### The disjoint merge: which programs are rejected -/

/-- Some parallel block reachable from `s` (through blocks, loops and macro expansion, as the visitor walks) has two
distinct branches (positions `j < k`) that both act on some qubit `(r, i)`. -/
inductive Conflict (allQ : Used) (macros : List Macro) : Ctx → Stmt → Prop
  | here {ctx sub it body} {j k : Nat} {s1 s2 r i} : j < k → body[j]? = some s1 → body[k]? = some s2 →
      Acts allQ macros ctx s1 r i → Acts allQ macros ctx s2 r i → Conflict allQ macros ctx (.block true sub it body)
  | block {ctx par sub it body s} : s ∈ body → Conflict allQ macros ctx s → Conflict allQ macros ctx (.block par sub it body)
  | loop {ctx c body} : Conflict allQ macros ctx body → Conflict allQ macros ctx (.loop c body)
  | call {ctx name gd args m bs} : gd.tag = .macro → macros.find? (fun m => m.name == name) = some m →
      bindArguments ctx args = .ok bs → Conflict allQ macros (bs ++ ctx) m.body →
      Conflict allQ macros ctx (.gate name gd args)

/-- the message of the `JaqalError` for one gate given the same qubit twice -/
abbrev gateErr : Err := .jaqal "gate-same-qubit-twice"

/-- Some native gate statement reachable from `s` has two used-qubit parameters (positions `j < k` of
`GateDefinition.used_qubits`) whose arguments both act on some qubit `(r, i)`. -/
inductive Repeat (allQ : Used) (macros : List Macro) : Ctx → Stmt → Prop
  | here {ctx name gd args} {j k : Nat} {p1 p2 a1 a2 u1 u2 r i} : gd.tag = .native → j < k →
      (usedParams gd)[j]? = some p1 → (usedParams gd)[k]? = some p2 →
      args.lookup p1 = some a1 → args.lookup p2 = some a2 →
      visitVal ctx (valFuel ctx) a1 = .ok u1 → visitVal ctx (valFuel ctx) a2 = .ok u2 →
      Mem u1 r i → Mem u2 r i → Repeat allQ macros ctx (.gate name gd args)
  | block {ctx par sub it body s} : s ∈ body → Repeat allQ macros ctx s → Repeat allQ macros ctx (.block par sub it body)
  | loop {ctx c body} : Repeat allQ macros ctx body → Repeat allQ macros ctx (.loop c body)
  | call {ctx name gd args m bs} : gd.tag = .macro → macros.find? (fun m => m.name == name) = some m →
      bindArguments ctx args = .ok bs → Repeat allQ macros (bs ++ ctx) m.body →
      Repeat allQ macros ctx (.gate name gd args)

theorem overlaps_iff (acc u : Used) (hu : KeysNodup u) :
    overlaps acc u = true ↔ ∃ r i, Mem acc r i ∧ Mem u r i := by
  simp only [overlaps, List.any_eq_true, intersects_iff]
  constructor
  · rintro ⟨⟨k, v⟩, hkv, x, h1, h2⟩
    exact ⟨k, x, h1, (Mem_iff_entry u hu k x).2 ⟨v, hkv, h2⟩⟩
  · rintro ⟨r, i, h1, h2⟩
    obtain ⟨l, hl, hi⟩ := (Mem_iff_entry u hu r i).1 h2
    exact ⟨(r, l), hl, i, h1, hi⟩

/-- the items of a list pairwise share no qubit, and none shares one with what was merged before -/
def Disj {α : Type} (A : α → String → Int → Prop) (acc : Used) (l : List α) : Prop :=
  l.Pairwise (fun a b => ¬ ∃ r i, A a r i ∧ A b r i) ∧ ∀ s ∈ l, ¬ ∃ r i, Mem acc r i ∧ A s r i

theorem disj_cons {α : Type} (A : α → String → Int → Prop) (acc acc' : Used) (s : α) (rest : List α)
    (hacc' : ∀ r i, Mem acc' r i ↔ Mem acc r i ∨ A s r i) (hx : ¬ ∃ r i, Mem acc r i ∧ A s r i) :
    Disj A acc (s :: rest) ↔ Disj A acc' rest := by
  simp only [Disj, List.mem_cons, forall_eq_or_imp, List.pairwise_cons]
  constructor
  · rintro ⟨⟨h2, h3⟩, _, h5⟩
    refine ⟨h3, ?_⟩
    intro s' hs' ⟨r, i, h6, h7⟩
    rcases (hacc' r i).1 h6 with h6 | h6
    · exact h5 s' hs' ⟨r, i, h6, h7⟩
    · exact h2 s' hs' ⟨r, i, h6, h7⟩
  · rintro ⟨h3, h5⟩
    refine ⟨⟨?_, h3⟩, hx, ?_⟩
    · intro s' hs' ⟨r, i, h6, h7⟩
      exact h5 s' hs' ⟨r, i, (hacc' r i).2 (Or.inr h6), h7⟩
    · intro s' hs' ⟨r, i, h6, h7⟩
      exact h5 s' hs' ⟨r, i, (hacc' r i).2 (Or.inl h6), h7⟩

/-- The loop of `visit_BlockStatement` under `validate_parallel`, abstractly. `F s e`: visiting `s` fails with `e`.
It succeeds (with the result of the plain loop) iff no statement fails and — when `d` — the statements are `Disj`;
otherwise it fails with the error of a failing statement, or with `parErr` when `d` and they are not `Disj`. -/
theorem foldBlock_true (vf vt : Stmt → M Used) (A : Stmt → String → Int → Prop) (F : Stmt → Err → Prop) (d : Bool)
    (acc : Used) (body : List Stmt) (u : Used)
    (hyp : ∀ s ∈ body, ∀ us, vf s = .ok us → KeysNodup us ∧ (∀ r i, Mem us r i ↔ A s r i) ∧
      (((¬ ∃ e, F s e) ∧ vt s = .ok us) ∨ (∃ e, F s e ∧ vt s = .error e)))
    (h : foldBlock vf false acc body = .ok u) :
    (((∀ s ∈ body, ¬ ∃ e, F s e) ∧ (d = true → Disj A acc body)) ∧ foldBlock vt d acc body = .ok u) ∨
    (∃ e, ((∃ s ∈ body, F s e) ∨ (e = parErr ∧ d = true ∧ ¬ Disj A acc body)) ∧ foldBlock vt d acc body = .error e) := by
  induction body generalizing acc with
  | nil =>
    left
    simp only [foldBlock] at h ⊢
    exact ⟨⟨by simp, fun _ => ⟨List.Pairwise.nil, by simp⟩⟩, h⟩
  | cons s rest ih =>
    simp only [foldBlock, bind, Except.bind] at h
    split at h
    · cases h
    · rename_i us hus
      split at h
      · cases h
      · rename_i acc' hm
        obtain ⟨hk, hA, hC⟩ := hyp s List.mem_cons_self us hus
        have ih' := ih acc' (fun s' hs' => hyp s' (List.mem_cons_of_mem _ hs')) h
        have hacc' : ∀ r i, Mem acc' r i ↔ Mem acc r i ∨ A s r i := by
          intro r i; rw [mergeInto_mem _ _ _ _ hm hk, hA]
        rcases hC with ⟨hnc, hvt⟩ | ⟨e, hc, hvt⟩
        · -- the statement itself is accepted
          have step : (foldBlock vt d acc' rest = foldBlock vt d acc (s :: rest)) →
              (d = true → (Disj A acc (s :: rest) ↔ Disj A acc' rest)) →
              (((∀ s' ∈ s :: rest, ¬ ∃ e, F s' e) ∧ (d = true → Disj A acc (s :: rest))) ∧
                  foldBlock vt d acc (s :: rest) = .ok u) ∨
              (∃ e, ((∃ s' ∈ s :: rest, F s' e) ∨ (e = parErr ∧ d = true ∧ ¬ Disj A acc (s :: rest))) ∧
                  foldBlock vt d acc (s :: rest) = .error e) := by
            intro hf hd
            rcases ih' with ⟨⟨h1, h2⟩, h3⟩ | ⟨e, h1, h3⟩
            · left
              refine ⟨⟨?_, fun hdt => (hd hdt).2 (h2 hdt)⟩, hf ▸ h3⟩
              intro s' hs'
              rcases List.mem_cons.1 hs' with rfl | hs'
              · exact hnc
              · exact h1 s' hs'
            · right
              refine ⟨e, ?_, hf ▸ h3⟩
              rcases h1 with ⟨s', hs', hF⟩ | ⟨he, hdt, hnd⟩
              · exact Or.inl ⟨s', List.mem_cons_of_mem _ hs', hF⟩
              · exact Or.inr ⟨he, hdt, fun hh => hnd ((hd hdt).1 hh)⟩
          cases d with
          | false =>
            refine step ?_ (fun hh => by cases hh)
            simp only [foldBlock, bind, Except.bind, hvt, hm]
          | true =>
            rcases mergeInto_true acc us hk with ⟨hx, hmt⟩ | ⟨hx, hmt⟩
            · right
              refine ⟨parErr, Or.inr ⟨rfl, rfl, ?_⟩, ?_⟩
              · intro hno
                obtain ⟨r, i, h1, h2⟩ := hx
                exact hno.2 s List.mem_cons_self ⟨r, i, h1, (hA r i).1 h2⟩
              · simp only [foldBlock, bind, Except.bind, hvt, hmt]
            · refine step ?_ (fun _ => disj_cons A acc acc' s rest hacc' ?_)
              · simp only [foldBlock, bind, Except.bind, hvt, hmt, hm]
              · rintro ⟨r, i, h6, h7⟩
                exact hx ⟨r, i, h6, (hA r i).2 h7⟩
        · right
          refine ⟨e, Or.inl ⟨s, List.mem_cons_self, hc⟩, ?_⟩
          simp only [foldBlock, bind, Except.bind, hvt]

theorem pairwise_iff_getElem? {α} (R : α → α → Prop) (l : List α) :
    l.Pairwise R ↔ ∀ (j k : Nat) a b, j < k → l[j]? = some a → l[k]? = some b → R a b := by
  rw [List.pairwise_iff_getElem]
  constructor
  · intro h j k a b hjk ha hb
    obtain ⟨hj, rfl⟩ := List.getElem?_eq_some_iff.1 ha
    obtain ⟨hk, rfl⟩ := List.getElem?_eq_some_iff.1 hb
    exact h j k hj hk hjk
  · intro h j k hj hk hjk
    exact h j k _ _ hjk (List.getElem?_eq_getElem hj) (List.getElem?_eq_getElem hk)

/-- what the argument bound to the used-qubit parameter `p` acts on -/
def ParamActs (ctx : Ctx) (args : List (String × Val)) (p : String) (r : String) (i : Int) : Prop :=
  ∃ a ua, args.lookup p = some a ∧ visitVal ctx (valFuel ctx) a = .ok ua ∧ Mem ua r i

/-- the loop over the used-qubit parameters under `validate_parallel`: it fails (with `gateErr`) iff two of the
arguments, or an argument and what was merged before, share a qubit -/
theorem visitUsedParams_true (ctx : Ctx) (args : List (String × Val)) (acc : Used) (ps : List String) (u : Used)
    (h : visitUsedParams false ctx args acc ps = .ok u) :
    (Disj (ParamActs ctx args) acc ps ∧ visitUsedParams true ctx args acc ps = .ok u) ∨
    (¬ Disj (ParamActs ctx args) acc ps ∧ visitUsedParams true ctx args acc ps = .error gateErr) := by
  induction ps generalizing acc with
  | nil =>
    left
    simp only [visitUsedParams] at h ⊢
    exact ⟨⟨List.Pairwise.nil, by simp⟩, h⟩
  | cons p rest ih =>
    simp only [visitUsedParams] at h ⊢
    split at h
    · cases h
    · rename_i a ha
      simp only [bind, Except.bind, Bool.false_and, Bool.true_and] at h ⊢
      split at h
      · cases h
      · rename_i ua hua
        simp only [Bool.false_eq_true, if_false] at h
        split at h
        · cases h
        · rename_i acc' hm
          have hk := visitVal_keysNodup _ _ _ _ hua
          have hA : ∀ r i, Mem ua r i ↔ ParamActs ctx args p r i := by
            intro r i
            constructor
            · exact fun hmem => ⟨a, ua, ha, hua, hmem⟩
            · rintro ⟨a', ua', h1, h2, h3⟩
              rw [ha] at h1; cases h1
              rw [hua] at h2; cases h2
              exact h3
          have hacc' : ∀ r i, Mem acc' r i ↔ Mem acc r i ∨ ParamActs ctx args p r i := by
            intro r i; rw [mergeInto_mem _ _ _ _ hm hk, hA]
          by_cases ho : overlaps acc ua = true
          · right
            simp only [ho, if_true]
            refine ⟨?_, trivial⟩
            intro hno
            obtain ⟨r, i, h1, h2⟩ := (overlaps_iff acc ua hk).1 ho
            exact hno.2 p List.mem_cons_self ⟨r, i, h1, (hA r i).1 h2⟩
          · have hx : ¬ ∃ r i, Mem acc r i ∧ ParamActs ctx args p r i := by
              rintro ⟨r, i, h1, h2⟩
              exact ho ((overlaps_iff acc ua hk).2 ⟨r, i, h1, (hA r i).2 h2⟩)
            simp only [ho]
            rw [disj_cons (ParamActs ctx args) acc acc' p rest hacc' hx]
            exact ih acc' h

theorem disj_params_iff (allQ : Used) (macros : List Macro) (ctx : Ctx) (name : String) (gd : GateDef)
    (args : List (String × Val)) (htag : gd.tag = .native) :
    Disj (ParamActs ctx args) [] (usedParams gd) ↔ ¬ Repeat allQ macros ctx (.gate name gd args) := by
  constructor
  · intro hd hr
    cases hr with
    | here _ hjk h1 h2 l1 l2 v1 v2 m1 m2 =>
      exact (pairwise_iff_getElem? _ _).1 hd.1 _ _ _ _ hjk h1 h2 ⟨_, _, ⟨_, _, l1, v1, m1⟩, ⟨_, _, l2, v2, m2⟩⟩
    | call ht => rw [htag] at ht; cases ht
  · intro hnr
    refine ⟨?_, fun s _ ⟨r, i, h1, _⟩ => Mem_nil r i h1⟩
    rw [pairwise_iff_getElem?]
    rintro j k p1 p2 hjk h1 h2 ⟨r, i, ⟨a1, u1, l1, v1, m1⟩, ⟨a2, u2, l2, v2, m2⟩⟩
    exact hnr (Repeat.here htag hjk h1 h2 l1 l2 v1 v2 m1 m2)

/-- how the walk under `validate_parallel` can fail on `s` -/
def Fails (allQ : Used) (macros : List Macro) (ctx : Ctx) (s : Stmt) (e : Err) : Prop :=
  (e = parErr ∧ Conflict allQ macros ctx s) ∨ (e = gateErr ∧ Repeat allQ macros ctx s)

theorem not_fails_iff (allQ : Used) (macros : List Macro) (ctx : Ctx) (s : Stmt) :
    (¬ ∃ e, Fails allQ macros ctx s e) ↔ ¬ Conflict allQ macros ctx s ∧ ¬ Repeat allQ macros ctx s := by
  constructor
  · intro h
    exact ⟨fun hc => h ⟨parErr, Or.inl ⟨rfl, hc⟩⟩, fun hr => h ⟨gateErr, Or.inr ⟨rfl, hr⟩⟩⟩
  · rintro ⟨h1, h2⟩ ⟨e, ⟨_, hc⟩ | ⟨_, hr⟩⟩
    · exact h1 hc
    · exact h2 hr

/-- **The walk under `validate_parallel` rejects exactly the programs with a conflict between parallel branches or a
gate given the same qubit twice** (given that the plain analysis returns); the error says which (the first in visit order). -/
theorem usedStmtF_true (allQ : Used) (hq : KeysNodup allQ) (macros : List Macro) (fuel : Nat) (ctx : Ctx) (s : Stmt) (u : Used)
    (h : usedStmtF false allQ macros fuel ctx s = .ok u) :
    ((¬ ∃ e, Fails allQ macros ctx s e) ∧ usedStmtF true allQ macros fuel ctx s = .ok u) ∨
    (∃ e, Fails allQ macros ctx s e ∧ usedStmtF true allQ macros fuel ctx s = .error e) := by
  induction fuel generalizing ctx s u with
  | zero => simp [usedStmtF] at h
  | succ f ih =>
    cases s with
    | gate name gd args =>
      simp only [usedStmtF] at h ⊢
      split at h
      · rename_i htag
        split at h
        · cases h
        · rename_i m hm
          simp only [bind, Except.bind] at h ⊢
          split at h
          · cases h
          · rename_i bs hbs
            rcases ih _ _ _ h with ⟨h1, h2⟩ | ⟨e, h1, h2⟩
            · left
              refine ⟨?_, h2⟩
              rw [not_fails_iff] at h1 ⊢
              constructor
              · intro hc
                cases hc with
                | call _ hm' hbs' hc' =>
                  rw [hm] at hm'; cases hm'
                  rw [hbs] at hbs'; cases hbs'
                  exact h1.1 hc'
              · intro hc
                cases hc with
                | here ht => rw [htag] at ht; cases ht
                | call _ hm' hbs' hc' =>
                  rw [hm] at hm'; cases hm'
                  rw [hbs] at hbs'; cases hbs'
                  exact h1.2 hc'
            · right
              refine ⟨e, ?_, h2⟩
              rcases h1 with ⟨he, hc⟩ | ⟨he, hr⟩
              · exact Or.inl ⟨he, Conflict.call htag hm hbs hc⟩
              · exact Or.inr ⟨he, Repeat.call htag hm hbs hr⟩
      · rename_i htag
        left
        refine ⟨?_, h⟩
        rw [not_fails_iff]
        constructor
        · intro hc; cases hc with | call ht => rw [htag] at ht; cases ht
        · intro hc
          cases hc with
          | here ht => rw [htag] at ht; cases ht
          | call ht => rw [htag] at ht; cases ht
      · rename_i htag
        left
        refine ⟨?_, h⟩
        rw [not_fails_iff]
        constructor
        · intro hc; cases hc with | call ht => rw [htag] at ht; cases ht
        · intro hc
          cases hc with
          | here ht => rw [htag] at ht; cases ht
          | call ht => rw [htag] at ht; cases ht
      · rename_i htag
        have hnc : ¬ Conflict allQ macros ctx (.gate name gd args) := by
          intro hc; cases hc with | call ht => rw [htag] at ht; cases ht
        rcases visitUsedParams_true ctx args [] _ u h with ⟨h1, h2⟩ | ⟨h1, h2⟩
        · left
          refine ⟨?_, h2⟩
          rw [not_fails_iff]
          exact ⟨hnc, (disj_params_iff allQ macros ctx name gd args htag).1 h1⟩
        · right
          refine ⟨gateErr, Or.inr ⟨rfl, ?_⟩, h2⟩
          exact Classical.not_not.1 (fun hn => h1 ((disj_params_iff allQ macros ctx name gd args htag).2 hn))
    | block par sub it body =>
      simp only [usedStmtF, Bool.false_and, Bool.true_and] at h ⊢
      have hyp : ∀ s ∈ body, ∀ us, usedStmtF false allQ macros f ctx s = .ok us → KeysNodup us ∧
          (∀ r i, Mem us r i ↔ Acts allQ macros ctx s r i) ∧
          (((¬ ∃ e, Fails allQ macros ctx s e) ∧ usedStmtF true allQ macros f ctx s = .ok us) ∨
           (∃ e, Fails allQ macros ctx s e ∧ usedStmtF true allQ macros f ctx s = .error e)) :=
        fun s _ us hus => ⟨usedStmtF_keysNodup _ _ _ _ _ _ _ hus,
          fun r i => usedStmtF_mem_iff _ _ hq _ _ _ _ _ hus r i, ih _ _ _ hus⟩
      have hdisj : par = true → (Disj (Acts allQ macros ctx) [] body ↔
          ¬ ∃ (j k : Nat) (s1 s2 : Stmt) (r : String) (i : Int), j < k ∧ body[j]? = some s1 ∧ body[k]? = some s2 ∧
            Acts allQ macros ctx s1 r i ∧ Acts allQ macros ctx s2 r i) := by
        intro _
        constructor
        · rintro hd ⟨j, k, s1, s2, r, i, hjk, h1, h2, a1, a2⟩
          exact (pairwise_iff_getElem? _ _).1 hd.1 _ _ _ _ hjk h1 h2 ⟨_, _, a1, a2⟩
        · intro hn
          refine ⟨?_, fun s _ ⟨r, i, h1, _⟩ => Mem_nil r i h1⟩
          rw [pairwise_iff_getElem?]
          intro j k a b hjk ha hb ⟨r, i, h1, h2⟩
          exact hn ⟨j, k, a, b, r, i, hjk, ha, hb, h1, h2⟩
      rcases foldBlock_true _ _ _ (Fails allQ macros ctx) par [] body u hyp h with ⟨⟨h1, h2⟩, h3⟩ | ⟨e, h1, h3⟩
      · left
        refine ⟨?_, h3⟩
        rw [not_fails_iff]
        constructor
        · intro hc
          cases hc with
          | here hjk g1 g2 a1 a2 =>
            exact ((hdisj rfl).1 (h2 rfl)) ⟨_, _, _, _, _, _, hjk, g1, g2, a1, a2⟩
          | block hs hc' => exact h1 _ hs ⟨parErr, Or.inl ⟨rfl, hc'⟩⟩
        · intro hc
          cases hc with
          | block hs hc' => exact h1 _ hs ⟨gateErr, Or.inr ⟨rfl, hc'⟩⟩
      · right
        refine ⟨e, ?_, h3⟩
        rcases h1 with ⟨s, hs, ⟨he, hc⟩ | ⟨he, hr⟩⟩ | ⟨he, hp, hnd⟩
        · exact Or.inl ⟨he, Conflict.block hs hc⟩
        · exact Or.inr ⟨he, Repeat.block hs hr⟩
        · subst hp
          refine Or.inl ⟨he, ?_⟩
          have := Classical.not_not.1 (fun hn => hnd ((hdisj rfl).2 hn))
          obtain ⟨j, k, s1, s2, r, i, hjk, g1, g2, a1, a2⟩ := this
          exact Conflict.here hjk g1 g2 a1 a2
    | loop c body =>
      simp only [usedStmtF] at h ⊢
      rcases ih _ _ _ h with ⟨h1, h2⟩ | ⟨e, h1, h2⟩
      · left
        refine ⟨?_, h2⟩
        rw [not_fails_iff] at h1 ⊢
        constructor
        · intro hc; cases hc with | loop hc' => exact h1.1 hc'
        · intro hc; cases hc with | loop hc' => exact h1.2 hc'
      · right
        refine ⟨e, ?_, h2⟩
        rcases h1 with ⟨he, hc⟩ | ⟨he, hr⟩
        · exact Or.inl ⟨he, Conflict.loop hc⟩
        · exact Or.inr ⟨he, Repeat.loop hr⟩

theorem allQubits_keysNodup (regs : List Val) (acc : Used) (u : Used) (h : allQubits regs acc = .ok u)
    (ha : KeysNodup acc) : KeysNodup u := by
  induction regs generalizing acc with
  | nil => simp only [allQubits, pure, Except.pure, Except.ok.injEq] at h; subst h; exact ha
  | cons r rest ih =>
    cases r <;> simp only [allQubits] at h
    case regF n size =>
      simp only [bind, Except.bind] at h
      split at h
      · cases h
      · exact ih _ h (keysNodup_upsert _ _ _ ha)
    all_goals exact ih _ h ha

end Jaqal.UsedQubits
