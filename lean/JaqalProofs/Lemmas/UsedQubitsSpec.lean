import JaqalProofs.Props.C13
import JaqalProofs.Props.C06
import JaqalProofs.Lemmas.ExpandMacrosSem
import JaqalProofs.Lemmas.BuilderTotal
/-!
The used-qubit visitor against the specification (`Spec/Sem.lean`): leaves.

* registers: `visit_Register` of a valid chain returns the members of its denotation (`Sem.evalReg`);
* the logical relation `CtxRel ctx b` between the visitor's context (parameter ↦ value bound by `bind_argument`) and the
  specification's bindings (parameter ↦ evaluated argument), `Den v sa`: the closed value `v` denotes `sa`;
* `bind_argument` / `visit` of an argument agree with `Sem.evalArg` under `CtxRel`.
-/
namespace Jaqal.UsedQubits
open Jaqal Jaqal.Builder Jaqal.Resolve Jaqal.FillIn

/-! ### registers -/

theorem resolveSize_valid' {v : Val} : ∀ {k : Int}, ValidChain v → sizeI v = some k →
    ∃ sz, (∀ ctx, resolveSize ctx v = .ok sz) ∧ intOf sz = some k := by
  induction v with
  | regF _ sz _ => intro k _ hk; exact ⟨sz, fun _ => rfl, by simpa [sizeI] using hk⟩
  | regA _ src ih =>
    intro k h hk
    have hv : ValidChain src := by simpa [ValidChain, validChain] using h
    obtain ⟨sz, h1, h2⟩ := ih hv (by simpa [sizeI] using hk)
    obtain ⟨hp, hc⟩ := validChain_not_av hv
    exact ⟨sz, fun ctx => by rw [resolveSize_regA hp hc]; exact h1 [], h2⟩
  | regS _ src a b s _ _ _ _ =>
    intro k h hk
    obtain ⟨hv, ks, ia, ib, is, h1, h2, h3, h4, hs, _⟩ := validChain_regS h
    rw [sizeI_regS h1 h2 h3 h4 hs] at hk
    cases hk
    obtain ⟨hp, hc⟩ := validChain_not_av hv
    refine ⟨.int (rangeLenI ia ib is), fun ctx => ?_, rfl⟩
    rw [resolveSize_regS hp hc, resolveInt_intOf (startOr0_intOf h2), resolveInt_intOf (stepOr1_intOf h4),
      resolveInt_intOf h3]
    simp [bind, Except.bind, hs, rangeLen_eq hs, pure, Except.pure]
  | _ => intro k h; simp [ValidChain, validChain] at h

/-- the resolution of an index of a valid chain does not look at the context -/
theorem resolveReg_ctx {v : Val} (hv : ValidChain v) (ctx : Resolve.Ctx) : ∀ i, resolveReg ctx v i = resolveReg [] v i := by
  induction v with
  | regF n sz _ =>
    intro i
    obtain ⟨k, hk, _⟩ := validChain_sizeI hv
    have hk' : intOf sz = some k := by simpa [sizeI] using hk
    rw [resolveReg_regF_eq, resolveReg_regF_eq, resolveAV_intOf hk' ctx, resolveAV_intOf hk' []]
  | regA n src ih =>
    intro i
    obtain ⟨k, hk, _⟩ := validChain_sizeI hv
    obtain ⟨sz, h1, h2⟩ := resolveSize_valid' hv hk
    have hs : ValidChain src := by simpa [ValidChain, validChain] using hv
    rw [resolveReg_regA_eq, resolveReg_regA_eq, h1 ctx, h1 [], ih hs i]
    simp only [bind, Except.bind, resolveAV_intOf h2 ctx, resolveAV_intOf h2 []]
  | regS n src a b s ih _ _ _ =>
    intro i
    obtain ⟨k, hk, _⟩ := validChain_sizeI hv
    obtain ⟨sz, h1, h2⟩ := resolveSize_valid' hv hk
    obtain ⟨hs, ks, ia, ib, is, _, h2a, _, h4, _, _⟩ := validChain_regS hv
    rw [resolveReg_regS_eq, resolveReg_regS_eq, h1 ctx, h1 []]
    simp only [bind, Except.bind, resolveAV_intOf h2 ctx, resolveAV_intOf h2 [],
      resolveInt_intOf (startOr0_intOf h2a), resolveInt_intOf (stepOr1_intOf h4), ih hs]
  | _ => simp [ValidChain, validChain] at hv

theorem pyInt_intOf {v : Val} {k : Int} (h : intOf v = some k) : pyInt v = .ok k := by
  cases v with
  | int i => simp [intOf] at h; subst h; rfl
  | const n x => cases x <;> simp [intOf] at h; subst h; rfl
  | _ => simp [intOf] at h

theorem Mem_addIdx (d : Used) (q : String × Int) (r : String) (i : Int) :
    Mem (addIdx d q) r i ↔ Mem d r i ∨ (r, i) = q := by
  obtain ⟨a, b⟩ := q
  simp only [Mem, addIdx, get_upsert]
  by_cases e : a = r
  · subst e; simp [mem_setUnion]
  · simp only [e, if_false, Prod.mk.injEq]
    constructor
    · exact Or.inl
    · rintro (h | ⟨h, _⟩)
      · exact h
      · exact absurd h.symm e

theorem visitRegLoop_mem (ctx : Resolve.Ctx) (r : Val) (acc : Used) (i : Int) (n : Nat) (u : Used)
    (h : visitRegLoop ctx r acc i n = .ok u) (x : String) (y : Int) :
    Mem u x y ↔ Mem acc x y ∨ ∃ j : Nat, j < n ∧ resolveReg ctx r (i + j) = .ok (x, y) := by
  induction n generalizing acc i with
  | zero => simp only [visitRegLoop, pure, Except.pure, Except.ok.injEq] at h; subst h; simp
  | succ n ih =>
    simp only [visitRegLoop, bind, Except.bind] at h
    split at h
    · cases h
    · rename_i q hq
      rw [ih _ _ h, Mem_addIdx]
      constructor
      · rintro ((h1 | h1) | ⟨j, hj, hr⟩)
        · exact Or.inl h1
        · exact Or.inr ⟨0, by omega, by simpa [h1] using hq⟩
        · exact Or.inr ⟨j + 1, by omega, by rw [← hr]; congr 1; push_cast; omega⟩
      · rintro (h1 | ⟨j, hj, hr⟩)
        · exact Or.inl (Or.inl h1)
        · cases j with
          | zero =>
            simp only [Int.natCast_zero, Int.add_zero] at hr
            rw [hq] at hr; cases hr
            exact Or.inl (Or.inr rfl)
          | succ j =>
            refine Or.inr ⟨j, by omega, ?_⟩
            rw [← hr]; congr 1; push_cast; omega

/-- `visit_Register` of a valid chain: exactly the members of the register's denotation -/
theorem visitRegister_valid (ctx : Resolve.Ctx) (v : Val) (hv : ValidChain v) (l : List Sem.FQ)
    (hl : Sem.evalReg [] [] v = .ok l) (ua : Used) (h : visitRegister ctx v = .ok ua) (r : String) (i : Int) :
    Mem ua r i ↔ (r, i) ∈ l := by
  obtain ⟨K, hK, hK0⟩ := validChain_sizeI hv
  obtain ⟨l', hl', hlen, hin, _⟩ := chain_spec hv hK
  rw [hl] at hl'; cases hl'
  obtain ⟨sz, h1, h2⟩ := resolveSize_valid' hv hK
  simp only [visitRegister, h1 [], bind, Except.bind, pyInt_intOf h2] at h
  rw [visitRegLoop_mem _ _ _ _ _ _ h]
  constructor
  · rintro (h0 | ⟨j, hj, hr⟩)
    · exact absurd h0 (Mem_nil _ _)
    · rw [resolveReg_ctx hv] at hr
      obtain ⟨q, hq, hr'⟩ := hin (0 + (j : Int)) (by omega) (by omega)
      rw [hr] at hr'; cases hr'
      exact List.mem_of_getElem? hq
  · intro hm
    obtain ⟨j, hj, hjl⟩ := List.getElem_of_mem hm
    refine Or.inr ⟨j, by omega, ?_⟩
    rw [resolveReg_ctx hv]
    obtain ⟨q, hq, hr'⟩ := hin (0 + (j : Int)) (by omega) (by omega)
    have : (0 + (j : Int)).toNat = j := by omega
    rw [this, List.getElem?_eq_getElem hj, hjl] at hq
    cases hq
    exact hr'

/-! ### a typed register on which the specification's evaluation succeeds is a valid chain -/

theorem isIntC_intOf {v : Val} (h : isIntC v = true) : ∃ k, intOf v = some k := by
  cases v with
  | int k => exact ⟨k, rfl⟩
  | const n x => cases x <;> simp [isIntC] at h; exact ⟨_, rfl⟩
  | _ => simp [isIntC] at h

theorem RegT_noParam : ∀ v : Val, RegT v = true → ExpandMacros.noParam v = true
  | .regF _ size, h => by
    simp only [RegT] at h
    obtain ⟨k, hk⟩ := isIntC_intOf h
    simpa [ExpandMacros.noParam] using intOf_noParam hk
  | .regA _ src, h => by simp only [RegT] at h; simpa [ExpandMacros.noParam] using RegT_noParam src h
  | .regS _ src a b s, h => by
    simp only [RegT, Bool.and_eq_true] at h
    obtain ⟨⟨⟨h1, h2⟩, h3⟩, h4⟩ := h
    obtain ⟨_, k2⟩ := isIntC_intOf h2
    obtain ⟨_, k3⟩ := isIntC_intOf h3
    obtain ⟨_, k4⟩ := isIntC_intOf h4
    simp [ExpandMacros.noParam, RegT_noParam src h1, intOf_noParam k2, intOf_noParam k3, intOf_noParam k4]
  | .int _, h | .flt _, h | .const _ _, h | .param _ _, h | .qubit _ _ _, h | .none, h | .str _, h => by simp [RegT] at h

theorem mapM_all_ok {α β : Type} {f : α → M β} : ∀ {l : List α} {ys : List β}, l.mapM f = .ok ys →
    ∀ x ∈ l, ∃ y, f x = .ok y := by
  intro l
  induction l with
  | nil => intro ys _ x hx; cases hx
  | cons a r ih =>
    intro ys h x hx
    simp only [List.mapM_cons] at h
    obtain ⟨y, hy, h⟩ := bind_ok h
    obtain ⟨ys', hys, _⟩ := bind_ok h
    rcases List.mem_cons.1 hx with rfl | hx
    · exact ⟨y, hy⟩
    · exact ih hys x hx

/-- **A register sized and sliced by ints / integer lets (`RegT`, what the builder makes of text) whose denotation the
specification can compute is a valid chain**: the constructors' checks that the builder skips for let-valued sizes and
bounds are implied by the success of `Sem.evalReg` (size ≥ 1, non-zero step, every element of a slice inside its source). -/
theorem validChain_of_eval : ∀ (v : Val) (l : List Sem.FQ), RegT v = true → Sem.evalReg [] [] v = .ok l → ValidChain v
  | .regF n sz, l, ht, h => by
    simp only [RegT] at ht
    obtain ⟨k, hk⟩ := isIntC_intOf ht
    simp only [Sem.evalReg, evalInt_intOf hk, bind, Except.bind] at h
    by_cases h1 : k < 1
    · simp [h1] at h
    · simp only [ValidChain, validChain, hk, decide_eq_true_eq]; omega
  | .regA n src, l, ht, h => by
    simp only [RegT] at ht
    simp only [Sem.evalReg] at h
    simpa [ValidChain, validChain] using validChain_of_eval src l ht h
  | .regS n src a b s, l, ht, h => by
    simp only [RegT, Bool.and_eq_true] at ht
    obtain ⟨⟨⟨h1, h2⟩, h3⟩, h4⟩ := ht
    obtain ⟨ia, k2⟩ := isIntC_intOf h2
    obtain ⟨ib, k3⟩ := isIntC_intOf h3
    obtain ⟨is, k4⟩ := isIntC_intOf h4
    have h' := h
    rw [ExpandMacros.evalReg_regS] at h'
    obtain ⟨l0, hl0, _⟩ := bind_ok h'
    have hvs : ValidChain src := validChain_of_eval src l0 h1 hl0
    obtain ⟨K, hK, hK0⟩ := validChain_sizeI hvs
    obtain ⟨l1, hl1, hlen, _, _⟩ := chain_spec hvs hK
    rw [hl0] at hl1; cases hl1
    have hs : is ≠ 0 := by
      intro hz
      have opt : ∀ (d : Int) (v : Val) (k : Int), intOf v = some k → ExpandMacros.optInt [] [] d v = .ok k := by
        intro d v k hk
        have := intOf_ne_none hk
        cases v <;> first | exact evalInt_intOf hk | exact absurd rfl this
      rw [ExpandMacros.evalReg_regS] at h
      simp [hl0, opt _ _ _ k2, opt _ _ _ k3, opt _ _ _ k4, bind, Except.bind, hz] at h
    rw [evalReg_regS_eq n src a b s k2 k3 k4 hl0 hs] at h
    have hall := mapM_all_ok h
    have inside : ∀ x ∈ Sem.rangeList ia ib is, 0 ≤ x ∧ x < K := by
      intro x hx
      obtain ⟨q, hq⟩ := hall x hx
      cases hn : Sem.nth? l0 x with
      | none => simp [hn] at hq
      | some q' =>
        have hx0 : 0 ≤ x := by
          by_contra hneg
          simp [Sem.nth?, show x < 0 by omega] at hn
        rw [nth?_of_nonneg l0 hx0] at hn
        have := (List.getElem?_eq_some_iff.1 hn).1
        exact ⟨hx0, by omega⟩
    simp only [ValidChain, validChain, hvs, hK, k2, k3, k4, Bool.true_and, Bool.and_eq_true, Bool.or_eq_true,
      decide_eq_true_eq]
    refine ⟨hs, ?_⟩
    by_cases hle : rangeLenI ia ib is ≤ 0
    · exact Or.inl hle
    · right
      have g0 := rangeList_get (a := ia) (e := ib) hs 0
      simp only [Int.natCast_zero, show (0 : Int) < rangeLenI ia ib is by omega, if_true] at g0
      have m0 := inside _ (List.mem_of_getElem? g0)
      have gl := rangeList_get (a := ia) (e := ib) hs (rangeLenI ia ib is - 1).toNat
      have hc : (((rangeLenI ia ib is - 1).toNat : Nat) : Int) = rangeLenI ia ib is - 1 := by omega
      simp only [hc, show rangeLenI ia ib is - 1 < rangeLenI ia ib is by omega, if_true] at gl
      have ml := inside _ (List.mem_of_getElem? gl)
      simp only [Int.zero_mul, Int.add_zero] at m0
      exact ⟨⟨⟨m0.1, m0.2⟩, ml.1⟩, ml.2⟩
  | .int _, _, ht, _ | .flt _, _, ht, _ | .const _ _, _, ht, _ | .param _ _, _, ht, _ | .qubit _ _ _, _, ht, _
  | .none, _, ht, _ | .str _, _, ht, _ => by simp [RegT] at ht

/-! ### the logical relation between the visitor's context and the specification's bindings -/

/-- the fundamental qubits an evaluated argument contains -/
def Has : Sem.SArg → String → Int → Prop
  | .num _, _, _ => False
  | .qubit q, r, i => (r, i) = q
  | .reg qs, r, i => (r, i) ∈ qs

/-- a number as the builder makes it: a literal or a let constant with a literal value -/
def NumShape : Val → Prop
  | .int _ => True
  | .flt _ => True
  | .const _ (.int _) => True
  | .const _ (.flt _) => True
  | _ => False

/-- `Den v sa`: the CLOSED value `v` (what `bind_argument` puts into the context) denotes the evaluated argument `sa`:
a number of the same value; the qubit `fundamental[k]` (`0 ≤ k < size`) for the fundamental qubit `(fundamental, k)`;
a valid register chain whose denotation is the list. -/
def Den (v : Val) : Sem.SArg → Prop
  | .num x => NumShape v ∧ Sem.evalNum [] [] v = .ok x
  | .qubit q => ∃ nm n sz k K, v = .qubit nm (.regF n sz) (.int k) ∧ intOf sz = some K ∧ 0 ≤ k ∧ k < K ∧ q = (n, k)
  | .reg qs => ValidChain v ∧ Sem.evalReg [] [] v = .ok qs

/-- every parameter the specification binds is bound by the visitor to a value denoting the same thing
(the visitor may bind more: the caller's bindings stay visible in the callee) -/
def CtxRel (ctx : Resolve.Ctx) (b : Sem.Bind) : Prop :=
  ∀ n sa, Sem.lookup b n = some sa → ∃ v, Resolve.Ctx.find ctx n = some v ∧ Den v sa

def GoodIdx : Val → Prop
  | .param _ _ => True
  | v => ∃ k, intOf v = some k

def GoodSrc : Val → Prop
  | .param _ _ => True
  | v => RegT v = true

/-- a gate argument as the builder makes it of text (`FillIn.InT`, `built_typed`): a parameter; a qubit `src[idx]` with `src` a
parameter or a register sized and sliced by ints / integer lets (`RegT`) and `idx` a parameter, an integer or an integer
let constant; such a register; a number or a numeric let constant. (That a `RegT` register is a VALID chain is not
demanded: it follows wherever the specification's evaluation succeeds, `validChain_of_eval`.) -/
def GoodArg : Val → Prop
  | .param _ _ => True
  | .qubit _ s i => GoodSrc s ∧ GoodIdx i
  | .regF n sz => RegT (.regF n sz) = true
  | .regA n s => RegT (.regA n s) = true
  | .regS n s a b c => RegT (.regS n s a b c) = true
  | v => NumShape v

theorem resolveAV_lit (ctx : Resolve.Ctx) (v : Val) (h : (∀ n k, v ≠ .param n k) ∧ (∀ n x, v ≠ .const n x)) :
    resolveAV ctx (avFuel ctx) v = .ok v := by
  cases v with
  | param n k => exact absurd rfl (h.1 n k)
  | const n x => exact absurd rfl (h.2 n x)
  | _ => simp [avFuel, resolveAV]

theorem validChain_isRegister {v : Val} (hv : ValidChain v) : Resolve.isRegister v = true := by
  cases v <;> first | rfl | simp [ValidChain, validChain] at hv

theorem den_qubit_resolves {v : Val} {q : Sem.FQ} (h : Den v (.qubit q)) (ctx : Resolve.Ctx) :
    resolveQubit ctx v = .ok q := by
  obtain ⟨nm, n, sz, k, K, rfl, hK, h0, h1, rfl⟩ := h
  have e1 : resolveAV ctx (avFuel ctx) (.int k) = .ok (.int k) := resolveAV_lit ctx _ ⟨by simp, by simp⟩
  have e2 : resolveAV ctx (avFuel ctx) (.regF n sz) = .ok (.regF n sz) := resolveAV_lit ctx _ ⟨by simp, by simp⟩
  simp only [resolveQubit, e1, e2, bind, Except.bind, Resolve.isRegister, Bool.not_true, Bool.false_eq_true, if_false]
  show resolveReg ctx (.regF n sz) k = _
  rw [resolveReg_regF_eq, resolveAV_intOf hK ctx]
  simp [baseGate, show ¬ (k < 0 ∨ k ≥ K) by omega]

theorem visitVal_register (ctx : Resolve.Ctx) (f : Nat) (v : Val) (hv : ValidChain v) :
    visitVal ctx f v = visitRegister ctx v := by
  cases v <;> first | (cases f <;> rfl) | simp [ValidChain, validChain] at hv

/-- visiting a closed value returns exactly the qubits of what it denotes -/
theorem visit_den {v : Val} {sa : Sem.SArg} (h : Den v sa) (ctx : Resolve.Ctx) (f : Nat) (ua : Used)
    (hu : visitVal ctx f v = .ok ua) (r : String) (i : Int) : Mem ua r i ↔ Has sa r i := by
  cases sa with
  | num x =>
    have : visitVal ctx f v = .ok [] := by
      obtain ⟨hs, _⟩ := h
      cases v with
      | int _ => cases f <;> rfl
      | flt _ => cases f <;> rfl
      | const _ _ => cases f <;> rfl
      | _ => exact absurd hs (by simp [NumShape])
    rw [this] at hu; cases hu
    simp [Has, Mem, get]
  | qubit q =>
    have hr := den_qubit_resolves h ctx
    obtain ⟨nm, n, sz, k, K, rfl, _⟩ := h
    obtain ⟨q', hq', hm⟩ := C13_leaf_qubit ctx f _ _ _ ua hu
    rw [hr] at hq'; cases hq'
    simpa [Has] using hm r i
  | reg qs =>
    obtain ⟨hv, hl⟩ := h
    rw [visitVal_register ctx f v hv] at hu
    simpa [Has] using visitRegister_valid ctx v hv qs hl ua hu r i

theorem reg_closed {b : Sem.Bind} {v : Val} (ht : RegT v = true) {l : List Sem.FQ} (h : Sem.evalReg [] b v = .ok l) :
    ValidChain v ∧ Sem.evalReg [] [] v = .ok l := by
  have h0 : Sem.evalReg [] [] v = .ok l := by
    rw [ExpandMacros.evalReg_noParam [] [] b _ (RegT_noParam v ht)]; exact h
  exact ⟨validChain_of_eval v l ht h0, h0⟩

/-- the value an index denotes, as the library resolves it: an int, or an integral float -/
def IdxVal : Val → Int → Prop
  | .int j, k => j = k
  | .flt d, k => d.isIntegral = true ∧ d.toInt = k
  | _, _ => False

theorem idx_agree {ctx : Resolve.Ctx} {b : Sem.Bind} (hrel : CtxRel ctx b) {i : Val} (hg : GoodIdx i) {k : Int}
    (h : Sem.evalInt [] b i = .ok k) : ∃ iv, resolveAV ctx (avFuel ctx) i = .ok iv ∧ IdxVal iv k := by
  cases i with
  | param p kd =>
    simp only [Sem.evalInt, Sem.evalNum, bind, Except.bind] at h
    cases hb : Sem.lookup b p with
    | none => simp [hb] at h
    | some sa =>
      cases sa with
      | num x =>
        obtain ⟨v, hf, hs, hx⟩ := hrel p _ hb
        have e : resolveAV ctx (avFuel ctx) (.param p kd) = resolveAV ctx (ctx.length + 63) v := by
          show resolveAV ctx (ctx.length + 63 + 1) _ = _
          simp [resolveAV, hf]
        rw [e]
        simp only [hb] at h
        cases v with
        | int j =>
          simp only [Sem.evalNum, pure, Except.pure, Except.ok.injEq] at hx; subst hx
          simp only [pure, Except.pure, Except.ok.injEq] at h
          exact ⟨.int j, by simp [resolveAV], h⟩
        | flt d =>
          simp only [Sem.evalNum, pure, Except.pure, Except.ok.injEq] at hx; subst hx
          refine ⟨.flt d, by simp [resolveAV], ?_⟩
          by_cases hd : d.isIntegral = true
          · simp [hd, pure, Except.pure] at h; exact ⟨hd, h⟩
          · simp [hd, pure, Except.pure] at h
        | const nm y =>
          cases y with
          | int j =>
            simp only [Sem.evalNum, Sem.lookup, List.find?, Option.map, pure, Except.pure, Except.ok.injEq] at hx; subst hx
            simp only [pure, Except.pure, Except.ok.injEq] at h
            refine ⟨.int j, ?_, h⟩
            show resolveAV ctx (ctx.length + 61 + 1 + 1) _ = _
            simp [resolveAV]
          | flt d =>
            simp only [Sem.evalNum, Sem.lookup, List.find?, Option.map, pure, Except.pure, Except.ok.injEq] at hx; subst hx
            refine ⟨.flt d, ?_, ?_⟩
            · show resolveAV ctx (ctx.length + 61 + 1 + 1) _ = _
              simp [resolveAV]
            · by_cases hd : d.isIntegral = true
              · simp [hd, pure, Except.pure] at h; exact ⟨hd, h⟩
              · simp [hd, pure, Except.pure] at h
          | _ => exact absurd hs (by simp [NumShape])
        | _ => exact absurd hs (by simp [NumShape])
      | qubit q => simp [hb] at h
      | reg qs => simp [hb] at h
  | int j =>
    simp only [Sem.evalInt, Sem.evalNum, bind, Except.bind, pure, Except.pure, Except.ok.injEq] at h
    exact ⟨.int j, resolveAV_lit ctx _ ⟨by simp, by simp⟩, h⟩
  | const nm y =>
    obtain ⟨k', hk'⟩ := hg
    have e := evalInt_intOf hk'
    rw [ExpandMacros.evalInt_noParam [] [] b _ (intOf_noParam hk')] at e
    rw [h] at e; cases e
    exact ⟨.int k, resolveAV_intOf hk' ctx, rfl⟩
  | _ => obtain ⟨k', hk'⟩ := hg; simp [intOf] at hk'

theorem src_agree {ctx : Resolve.Ctx} {b : Sem.Bind} (hrel : CtxRel ctx b) {s : Val} (hg : GoodSrc s) {l : List Sem.FQ}
    (h : Sem.evalReg [] b s = .ok l) :
    ∃ rv, resolveAV ctx (avFuel ctx) s = .ok rv ∧ ValidChain rv ∧ Sem.evalReg [] [] rv = .ok l := by
  cases s with
  | param p kd =>
    simp only [Sem.evalReg] at h
    cases hb : Sem.lookup b p with
    | none => simp [hb] at h
    | some sa =>
      cases sa with
      | reg qs =>
        simp only [hb, pure, Except.pure, Except.ok.injEq] at h; subst h
        obtain ⟨v, hf, hv, hl⟩ := hrel p _ hb
        refine ⟨v, ?_, hv, hl⟩
        show resolveAV ctx (ctx.length + 63 + 1) _ = _
        simp only [resolveAV, hf]
        cases v with
        | regF _ _ => simp
        | regA _ _ => simp
        | regS _ _ _ _ _ => simp
        | _ => simp [ValidChain, validChain] at hv
      | num x => simp [hb] at h
      | qubit q => simp [hb] at h
  | regF n sz =>
    obtain ⟨hv, h0⟩ := reg_closed (show RegT (.regF n sz) = true from hg) h
    exact ⟨_, resolveAV_lit ctx _ (validChain_not_av hv), hv, h0⟩
  | regA n src =>
    obtain ⟨hv, h0⟩ := reg_closed (show RegT (.regA n src) = true from hg) h
    exact ⟨_, resolveAV_lit ctx _ (validChain_not_av hv), hv, h0⟩
  | regS n src x y z =>
    obtain ⟨hv, h0⟩ := reg_closed (show RegT (.regS n src x y z) = true from hg) h
    exact ⟨_, resolveAV_lit ctx _ (validChain_not_av hv), hv, h0⟩
  | _ => simp [GoodSrc, RegT] at hg

/-- **A qubit reference: whenever the specification evaluates it, the library resolves it, to the same fundamental
qubit** — through macro parameters (register and index), alias chains and let constants. -/
theorem qubit_agree {ctx : Resolve.Ctx} {b : Sem.Bind} (hrel : CtxRel ctx b) {nm : String} {s i : Val}
    (hs : GoodSrc s) (hi : GoodIdx i) {q : Sem.FQ} (h : Sem.evalQubit [] b (.qubit nm s i) = .ok q) :
    resolveQubit ctx (.qubit nm s i) = .ok q ∧
    ∃ rv k, resolveAV ctx (avFuel ctx) s = .ok rv ∧ ValidChain rv ∧ resolveReg [] rv k = .ok q := by
  simp only [Sem.evalQubit] at h
  obtain ⟨k, hk, h⟩ := bind_ok h
  obtain ⟨l, hl, h⟩ := bind_ok h
  obtain ⟨iv, hiv, hidx⟩ := idx_agree hrel hi hk
  obtain ⟨rv, hrv, hv, hl'⟩ := src_agree hrel hs hl
  obtain ⟨K, hK, _⟩ := validChain_sizeI hv
  obtain ⟨l2, hl2, hlen, hin, _⟩ := chain_spec hv hK
  rw [hl'] at hl2; cases hl2
  have hq : Sem.nth? l k = some q := by
    cases hn : Sem.nth? l k with
    | none => simp [hn] at h
    | some q' => simp only [hn, pure, Except.pure, Except.ok.injEq] at h; rw [h]
  have hk0 : 0 ≤ k := by
    by_contra hneg
    simp [Sem.nth?, show k < 0 by omega] at hq
  rw [nth?_of_nonneg l hk0] at hq
  have hkK : k < K := by
    have := (List.getElem?_eq_some_iff.1 hq).1
    omega
  obtain ⟨q0, hq0, hr0⟩ := hin k hk0 hkK
  rw [hq] at hq0; cases hq0
  refine ⟨?_, rv, k, hrv, hv, hr0⟩
  simp only [resolveQubit, hiv, hrv, bind, Except.bind, validChain_isRegister hv, Bool.not_true, Bool.false_eq_true,
    if_false]
  cases iv with
  | int j =>
    simp only [IdxVal] at hidx; subst hidx
    show resolveReg ctx rv j = _
    rw [resolveReg_ctx hv]; exact hr0
  | flt d =>
    obtain ⟨hd, hdk⟩ := hidx
    subst hdk
    simp only [hd, if_true]
    rw [resolveReg_ctx hv]; exact hr0
  | _ => exact absurd hidx (by simp [IdxVal])

/-- **Leaf: visiting an argument** returns exactly the qubits of its evaluation. -/
theorem visit_arg {ctx : Resolve.Ctx} {b : Sem.Bind} (hrel : CtxRel ctx b) {a : Val} (hg : GoodArg a)
    {ua : Used} (hu : visitVal ctx (valFuel ctx) a = .ok ua) {sa : Sem.SArg} (he : Sem.evalArg [] b a = .ok sa)
    (r : String) (i : Int) : Mem ua r i ↔ Has sa r i := by
  cases a with
  | param p kd =>
    simp only [Sem.evalArg] at he
    cases hb : Sem.lookup b p with
    | none => simp [hb] at he
    | some sa' =>
      simp only [hb, pure, Except.pure, Except.ok.injEq] at he; subst he
      obtain ⟨v, hf, hden⟩ := hrel p _ hb
      have e : visitVal ctx (valFuel ctx) (.param p kd) = visitVal ctx ctx.length v := by
        show visitVal ctx (ctx.length + 1) _ = _
        simp only [visitVal, hf]
      rw [e] at hu
      exact visit_den hden ctx _ ua hu r i
  | qubit nm s ix =>
    simp only [Sem.evalArg, bind, Except.bind] at he
    cases hq : Sem.evalQubit [] b (.qubit nm s ix) with
    | error e => simp [hq] at he
    | ok q =>
      simp only [hq, pure, Except.pure, Except.ok.injEq] at he; subst he
      obtain ⟨hr, _⟩ := qubit_agree hrel hg.1 hg.2 hq
      obtain ⟨q', hq', hm⟩ := C13_leaf_qubit ctx _ _ _ _ ua hu
      rw [hr] at hq'; cases hq'
      simpa [Has] using hm r i
  | regF n sz =>
    simp only [Sem.evalArg, bind, Except.bind] at he
    cases hl : Sem.evalReg [] b (.regF n sz) with
    | error e => simp [hl] at he
    | ok l =>
      simp only [hl, pure, Except.pure, Except.ok.injEq] at he; subst he
      obtain ⟨hv, hl0⟩ := reg_closed (show RegT (.regF n sz) = true from hg) hl
      rw [visitVal_register ctx _ _ hv] at hu
      simpa [Has] using visitRegister_valid ctx _ hv l hl0 ua hu r i
  | regA n src =>
    simp only [Sem.evalArg, bind, Except.bind] at he
    cases hl : Sem.evalReg [] b (.regA n src) with
    | error e => simp [hl] at he
    | ok l =>
      simp only [hl, pure, Except.pure, Except.ok.injEq] at he; subst he
      obtain ⟨hv, hl0⟩ := reg_closed (show RegT (.regA n src) = true from hg) hl
      rw [visitVal_register ctx _ _ hv] at hu
      simpa [Has] using visitRegister_valid ctx _ hv l hl0 ua hu r i
  | regS n src x y z =>
    simp only [Sem.evalArg, bind, Except.bind] at he
    cases hl : Sem.evalReg [] b (.regS n src x y z) with
    | error e => simp [hl] at he
    | ok l =>
      simp only [hl, pure, Except.pure, Except.ok.injEq] at he; subst he
      obtain ⟨hv, hl0⟩ := reg_closed (show RegT (.regS n src x y z) = true from hg) hl
      rw [visitVal_register ctx _ _ hv] at hu
      simpa [Has] using visitRegister_valid ctx _ hv l hl0 ua hu r i
  | int k =>
    simp only [Sem.evalArg, Sem.evalNum, bind, Except.bind, pure, Except.pure, Except.ok.injEq] at he; subst he
    rw [C13_leaf_classical ctx _ _ (Or.inl ⟨k, rfl⟩)] at hu; cases hu
    simp [Has, Mem, get]
  | flt d =>
    simp only [Sem.evalArg, Sem.evalNum, bind, Except.bind, pure, Except.pure, Except.ok.injEq] at he; subst he
    rw [C13_leaf_classical ctx _ _ (Or.inr (Or.inl ⟨d, rfl⟩))] at hu; cases hu
    simp [Has, Mem, get]
  | const nm y =>
    simp only [Sem.evalArg, bind, Except.bind] at he
    cases hx : Sem.evalNum [] b (.const nm y) with
    | error e => simp [hx] at he
    | ok x =>
      simp only [hx, pure, Except.pure, Except.ok.injEq] at he; subst he
      rw [C13_leaf_classical ctx _ _ (Or.inr (Or.inr (Or.inl ⟨nm, y, rfl⟩)))] at hu; cases hu
      simp [Has, Mem, get]
  | none => exact absurd hg (by simp [GoodArg, NumShape])
  | str _ => exact absurd hg (by simp [GoodArg, NumShape])

theorem numShape_noParam {v : Val} (h : NumShape v) : ExpandMacros.noParam v = true := by
  cases v with
  | int _ => rfl
  | flt _ => rfl
  | const n y => cases y <;> first | rfl | exact absurd h (by simp [NumShape])
  | _ => exact absurd h (by simp [NumShape])

/-- **Leaf: binding an argument.** What `bind_argument` puts into the callee's context denotes what the specification
binds the parameter to. -/
theorem bind_den {ctx : Resolve.Ctx} {b : Sem.Bind} (hrel : CtxRel ctx b) {a : Val} (hg : GoodArg a)
    {v : Val} (hb : bindArgument ctx a = .ok v) {sa : Sem.SArg} (he : Sem.evalArg [] b a = .ok sa) : Den v sa := by
  cases a with
  | param p kd =>
    simp only [Sem.evalArg] at he
    cases hl : Sem.lookup b p with
    | none => simp [hl] at he
    | some sa' =>
      simp only [hl, pure, Except.pure, Except.ok.injEq] at he; subst he
      obtain ⟨v', hf, hden⟩ := hrel p _ hl
      simp only [bindArgument, hf, pure, Except.pure, Except.ok.injEq] at hb; subst hb
      exact hden
  | qubit nm s ix =>
    simp only [Sem.evalArg, bind, Except.bind] at he
    cases hq : Sem.evalQubit [] b (.qubit nm s ix) with
    | error e => simp [hq] at he
    | ok q =>
      simp only [hq, pure, Except.pure, Except.ok.injEq] at he; subst he
      obtain ⟨hr, rv, k, hrv, hv, hres⟩ := qubit_agree hrel hg.1 hg.2 hq
      obtain ⟨n, sz, hf, hn, hcase⟩ := resolveReg_in_range hres
      have hvr : ValidChain (.regF n sz) := fundOf_valid hv hf
      obtain ⟨K, hK, _⟩ := validChain_sizeI hvr
      have hK' : intOf sz = some K := by simpa [sizeI] using hK
      obtain ⟨qn, qk⟩ := q
      simp only [bindArgument, hr, hrv, hf, pure, Except.pure, Except.ok.injEq] at hb; subst hb
      rcases hcase with ⟨K2, hK2, h0, h1⟩ | hnone
      · rw [resolveAV_intOf hK' []] at hK2; cases hK2
        exact ⟨_, n, sz, qk, K, rfl, hK', h0, h1, by simp only [Prod.mk.injEq]; exact ⟨hn, trivial⟩⟩
      · rw [resolveAV_intOf hK' []] at hnone; cases hnone
  | regF n sz =>
    simp only [bindArgument, pure, Except.pure, Except.ok.injEq] at hb; subst hb
    simp only [Sem.evalArg, bind, Except.bind] at he
    cases hl : Sem.evalReg [] b (.regF n sz) with
    | error e => simp [hl] at he
    | ok l =>
      simp only [hl, pure, Except.pure, Except.ok.injEq] at he; subst he
      exact reg_closed (show RegT (.regF n sz) = true from hg) hl
  | regA n src =>
    simp only [bindArgument, pure, Except.pure, Except.ok.injEq] at hb; subst hb
    simp only [Sem.evalArg, bind, Except.bind] at he
    cases hl : Sem.evalReg [] b (.regA n src) with
    | error e => simp [hl] at he
    | ok l =>
      simp only [hl, pure, Except.pure, Except.ok.injEq] at he; subst he
      exact reg_closed (show RegT (.regA n src) = true from hg) hl
  | regS n src x y z =>
    simp only [bindArgument, pure, Except.pure, Except.ok.injEq] at hb; subst hb
    simp only [Sem.evalArg, bind, Except.bind] at he
    cases hl : Sem.evalReg [] b (.regS n src x y z) with
    | error e => simp [hl] at he
    | ok l =>
      simp only [hl, pure, Except.pure, Except.ok.injEq] at he; subst he
      exact reg_closed (show RegT (.regS n src x y z) = true from hg) hl
  | int k =>
    simp only [bindArgument, pure, Except.pure, Except.ok.injEq] at hb; subst hb
    simp only [Sem.evalArg, Sem.evalNum, bind, Except.bind, pure, Except.pure, Except.ok.injEq] at he; subst he
    exact ⟨trivial, rfl⟩
  | flt d =>
    simp only [bindArgument, pure, Except.pure, Except.ok.injEq] at hb; subst hb
    simp only [Sem.evalArg, Sem.evalNum, bind, Except.bind, pure, Except.pure, Except.ok.injEq] at he; subst he
    exact ⟨trivial, rfl⟩
  | const nm y =>
    have hs : NumShape (.const nm y) := hg
    simp only [bindArgument, pure, Except.pure, Except.ok.injEq] at hb; subst hb
    simp only [Sem.evalArg, bind, Except.bind] at he
    cases hx : Sem.evalNum [] b (.const nm y) with
    | error e => simp [hx] at he
    | ok x =>
      simp only [hx, pure, Except.pure, Except.ok.injEq] at he; subst he
      exact ⟨hs, by rw [ExpandMacros.evalNum_noParam [] [] b _ (numShape_noParam hs)]; exact hx⟩
  | none => exact absurd hg (by simp [GoodArg, NumShape])
  | str _ => exact absurd hg (by simp [GoodArg, NumShape])

/-! ### the arguments of a gate statement -/

theorem evalArgs_getElem {b : Sem.Bind} : ∀ {l : List (String × Val)} {vs : List Sem.SArg},
    ExpandMacros.evalArgs [] b l = .ok vs → ∀ (j : Nat) x, l[j]? = some x →
      ∃ sa, vs[j]? = some sa ∧ Sem.evalArg [] b x.2 = .ok sa := by
  intro l
  induction l with
  | nil => intro vs _ j x hx; simp at hx
  | cons a rest ih =>
    intro vs h j x hx
    simp only [ExpandMacros.evalArgs] at h
    obtain ⟨y, hy, h⟩ := bind_ok h
    obtain ⟨ys, hys, h⟩ := bind_ok h
    simp only [pure, Except.pure, Except.ok.injEq] at h; subst h
    cases j with
    | zero => simp only [List.getElem?_cons_zero, Option.some.injEq] at hx; subst hx; exact ⟨y, rfl, hy⟩
    | succ j => simpa using ih hys j x (by simpa using hx)

theorem lookup_of_getElem {l : List (String × Val)} (hn : (l.map (·.1)).Nodup) {j : Nat} {p : String} {a : Val}
    (h : l[j]? = some (p, a)) : l.lookup p = some a := by
  induction l generalizing j with
  | nil => simp at h
  | cons x t ih =>
    obtain ⟨p0, a0⟩ := x
    simp only [List.map_cons, List.nodup_cons] at hn
    cases j with
    | zero =>
      simp only [List.getElem?_cons_zero, Option.some.injEq, Prod.mk.injEq] at h
      obtain ⟨rfl, rfl⟩ := h
      simp [List.lookup]
    | succ j =>
      have ht : t[j]? = some (p, a) := by simpa using h
      have hp : p ∈ t.map (·.1) := List.mem_map.2 ⟨(p, a), List.mem_of_getElem? ht, rfl⟩
      have hne : (p == p0) = false := by
        simp only [beq_eq_false_iff_ne, ne_eq]
        rintro rfl
        exact hn.1 hp
      simp only [List.lookup, hne]
      exact ih hn.2 ht

theorem visitUsedParams_all_ok (vp : Bool) (ctx : Resolve.Ctx) (args : List (String × Val)) (acc : Used) (ps : List String)
    (u : Used) (h : visitUsedParams vp ctx args acc ps = .ok u) :
    ∀ p ∈ ps, ∃ a ua, args.lookup p = some a ∧ visitVal ctx (valFuel ctx) a = .ok ua := by
  induction ps generalizing acc with
  | nil => simp
  | cons p rest ih =>
    simp only [visitUsedParams] at h
    split at h
    · cases h
    · rename_i a ha
      simp only [bind, Except.bind] at h
      split at h
      · cases h
      · rename_i ua hua
        split at h
        · cases h
        · split at h
          · cases h
          · intro p' hp'
            rcases List.mem_cons.1 hp' with rfl | hp'
            · exact ⟨a, ua, ha, hua⟩
            · exact ih _ h p' hp'

/-- the callee's context and bindings are related when the caller's are -/
theorem ctxRel_call {ctx : Resolve.Ctx} {b : Sem.Bind} (hrel : CtxRel ctx b) :
    ∀ {args : List (String × Val)} {bs : List (String × Val)} {vs : List Sem.SArg}, (∀ a ∈ args, GoodArg a.2) →
      bindArguments ctx args = .ok bs → ExpandMacros.evalArgs [] b args = .ok vs →
      CtxRel (bs ++ ctx) ((args.map (·.1)).zip vs) := by
  intro args
  induction args with
  | nil =>
    intro bs vs _ hb he
    simp only [bindArguments, pure, Except.pure, Except.ok.injEq] at hb; subst hb
    intro n sa hl
    simp [Sem.lookup] at hl
  | cons x rest ih =>
    intro bs vs hg hb he
    obtain ⟨p, a⟩ := x
    simp only [bindArguments] at hb
    obtain ⟨v, hv, hb⟩ := bind_ok hb
    obtain ⟨bs', hbs', hb⟩ := bind_ok hb
    simp only [pure, Except.pure, Except.ok.injEq] at hb; subst hb
    simp only [ExpandMacros.evalArgs] at he
    obtain ⟨y, hy, he⟩ := bind_ok he
    obtain ⟨ys, hys, he⟩ := bind_ok he
    simp only [pure, Except.pure, Except.ok.injEq] at he; subst he
    have hden : Den v y := bind_den hrel (hg (p, a) List.mem_cons_self) hv hy
    have ih' := ih (fun a' ha' => hg a' (List.mem_cons_of_mem _ ha')) hbs' hys
    intro n sa hl
    simp only [List.map_cons, List.zip_cons_cons, Sem.lookup, List.find?] at hl
    by_cases hpn : (p == n) = true
    · simp only [hpn, Option.map, Option.some.injEq] at hl; subst hl
      exact ⟨v, by simp [Resolve.Ctx.find, hpn], hden⟩
    · simp only [hpn] at hl
      obtain ⟨v', hf, hd⟩ := ih' n sa hl
      refine ⟨v', ?_, hd⟩
      simpa [Resolve.Ctx.find, List.find?, hpn] using hf

theorem has_iff (sa : Sem.SArg) (r : String) (i : Int) :
    Has sa r i ↔ sa = .qubit (r, i) ∨ ∃ qs, sa = .reg qs ∧ (r, i) ∈ qs := by
  cases sa with
  | num x => simp [Has]
  | qubit q => simp only [Has, Sem.SArg.qubit.injEq]; constructor
               · intro h; exact Or.inl h.symm
               · rintro (h | ⟨qs, h, _⟩)
                 · exact h.symm
                 · cases h
  | reg qs => simp [Has]

end Jaqal.UsedQubits
