import JaqalProofs.Lemmas.RoundTripReorder
/-!
# C01, builder layer: two neighbouring statements of different sections can be exchanged

One iteration of the loop of `build_circuit` is: build the child to an object, then file the object
(`stepTail`).  `applyObj` says what filing does; `StepFacts` collects what is known about one iteration on a child of
the grammar; `replay_step` replays an iteration from another accumulator; `swap_step` exchanges two neighbours.
-/
set_option linter.unusedSimpArgs false
set_option linter.unusedVariables false
namespace Jaqal.RoundTrip
open Jaqal Jaqal.Builder Jaqal.Pipeline

/-! ## what filing an object does -/

/-- the name a value is filed under, and whether it goes to the constants -/
def varOf : Val → Option (String × Bool)
  | .const n _ => some (n, true)
  | .regF n _ => some (n, false)
  | .regA n _ => some (n, false)
  | .regS n _ _ _ _ => some (n, false)
  | .qubit n _ _ => some (n, false)
  | _ => none

/-- the section an object belongs to: usepulses, lets, registers and aliases, macros, statements -/
def okind : Obj → Nat
  | .usepulses _ => 0
  | .val v =>
    match varOf v with
    | some (_, true) => 1
    | some (_, false) => 2
    | none => 5
  | .macro _ => 3
  | .stmt _ => 4
  | .case => 5

/-- the section of a child, registers and aliases taken together -/
def cls (e : BSx) : Nat :=
  match rank e with
  | 0 => 0
  | 1 => 1
  | 2 => 2
  | 3 => 2
  | 4 => 3
  | _ => 4

def pushVar (acc : Acc) (st : St) (n : String) (v : Val) (isC : Bool) : Acc :=
  if isC then
    { acc with ctx := { acc.ctx with vars := (n, v) :: acc.ctx.vars }, st := st, constants := acc.constants ++ [v] }
  else
    { acc with ctx := { acc.ctx with vars := (n, v) :: acc.ctx.vars }, st := st, registers := acc.registers ++ [v] }

def applyObj (acc : Acc) (st : St) : Obj → Acc
  | .val v =>
    match varOf v with
    | some (n, c) => pushVar acc st n v c
    | none => acc
  | .macro m => { acc with st := { st with gctx := (m.name, .macro m) :: st.gctx }, macros := acc.macros ++ [m] }
  | .stmt s => { acc with st := st, stmts := acc.stmts ++ [s] }
  | .usepulses n => { acc with st := st, usepulses := acc.usepulses ++ [n] }
  | .case => acc

/-- when filing succeeds -/
def Guard (acc : Acc) (st : St) : Obj → Prop
  | .val v => ∃ n c, varOf v = some (n, c) ∧ acc.ctx.get n = none
  | .macro m => st.gctx.lookup m.name = none
  | .stmt _ => True
  | .usepulses _ => True
  | .case => False

theorem addVar_eq (ctx : Ctx) (n : String) (v : Val) :
    addVar ctx n v = if (ctx.get n).isSome then throw (.jaqal "already-exists-in-context")
      else pure { ctx with vars := (n, v) :: ctx.vars } := rfl

theorem stepTail_var {cfg : Config} {inject : Option (List (String × GateDef))} {acc : Acc} {v : Val} {st : St}
    {n : String} {c : Bool} (hv : varOf v = some (n, c)) (acc1 : Acc) :
    stepTail cfg .off inject acc (.val v) st = .ok acc1 ↔ acc.ctx.get n = none ∧ acc1 = pushVar acc st n v c := by
  have key : ∀ (k : Ctx → Acc), ((addVar acc.ctx n v >>= fun ctx => pure (k ctx)) = Except.ok acc1) ↔
      acc.ctx.get n = none ∧ acc1 = k { acc.ctx with vars := (n, v) :: acc.ctx.vars } := by
    intro k
    rw [addVar_eq]
    cases hg : acc.ctx.get n with
    | none =>
      simp only [Option.isSome_none, Bool.false_eq_true, if_false, pure, Except.pure, bind, Except.bind,
        Except.ok.injEq, true_and]
      exact eq_comm
    | some w => simp [throw_eq, bind, Except.bind]
  cases v <;> simp only [varOf, Option.some.injEq, Prod.mk.injEq, reduceCtorEq] at hv <;>
    obtain ⟨rfl, rfl⟩ := hv <;> simp only [stepTail, pushVar, Bool.false_eq_true, if_false, if_true] <;> exact key _

theorem stepTail_novar {cfg : Config} {inject : Option (List (String × GateDef))} {acc acc1 : Acc} {v : Val} {st : St}
    (hv : varOf v = none) : stepTail cfg .off inject acc (.val v) st ≠ .ok acc1 := by
  cases v <;> simp only [varOf, reduceCtorEq] at hv <;> simp [stepTail, throw_eq]

/-- **what filing does**, when pulse files are not loaded and `rebuild_macro_in_context` changes nothing -/
theorem stepTail_eq {cfg : Config} (ha : cfg.autoload = false) {inject : Option (List (String × GateDef))} {acc : Acc}
    {o : Obj} {st : St} (hm : ∀ m, o = .macro m → rebuildMacro st.gctx m = .ok m) (acc1 : Acc) :
    stepTail cfg .off inject acc o st = .ok acc1 ↔ Guard acc st o ∧ acc1 = applyObj acc st o := by
  cases o with
  | val v =>
    cases hv : varOf v with
    | none =>
      constructor
      · intro h; exact absurd h (stepTail_novar hv)
      · rintro ⟨⟨n, c, hv', _⟩, _⟩; rw [hv] at hv'; cases hv'
    | some p =>
      obtain ⟨n, c⟩ := p
      rw [stepTail_var hv]
      simp only [Guard, applyObj, hv]
      constructor
      · rintro ⟨h1, h2⟩; exact ⟨⟨n, c, rfl, h1⟩, h2⟩
      · rintro ⟨⟨n', c', h0, h1⟩, h2⟩
        cases h0
        exact ⟨h1, h2⟩
  | «macro» m =>
    simp only [stepTail, hm m rfl, bind, Except.bind, Guard, applyObj]
    cases hl : st.gctx.lookup m.name with
    | none =>
      simp only [Option.isSome_none, Bool.false_eq_true, if_false, pure, Except.pure, Except.ok.injEq, true_and]
      exact eq_comm
    | some w => simp [throw_eq]
  | stmt s =>
    simp only [stepTail, pure, Except.pure, Except.ok.injEq, Guard, applyObj, true_and]
    exact eq_comm
  | usepulses n =>
    simp only [stepTail, ha, Bool.false_eq_true, if_false, pure, Except.pure, Except.ok.injEq, Guard, applyObj, true_and]
    exact eq_comm
  | case => simp [stepTail, throw_eq, Guard]

/-! ## one iteration on a child of the grammar -/

structure StepFacts (cfg : Config) (F : Nat) (a : Acc) (x : BSx) (o : Obj) (st1 : St) : Prop where
  build : buildAny cfg .off F a.ctx x a.st = .ok (o, st1)
  kind : okind o = cls x
  /-- a macro's body calls gates under the names of their definitions; its name was not bound -/
  named : ∀ m, o = .macro m → gNamed m.body = true ∧ a.st.gctx.lookup m.name = none
  /-- header statements do not touch the gate table -/
  pure2 : okind o ≤ 2 → ∀ s, buildAny cfg .off F a.ctx x s = .ok (o, s)
  /-- `usepulses` and `let` do not read the context -/
  pure1 : okind o ≤ 1 → ∀ c s, buildAny cfg .off F c x s = .ok (o, s)
  /-- a `let` makes a constant, a `register` a fundamental register, a `map` something else -/
  vrank : ∀ v, o = .val v → valRank v = rank x
  /-- a `map` has a source in the context -/
  src : rank x = 3 → ∃ s w, a.ctx.get s = some w ∧ (isRegister w = true ∨ isParam w = true)

theorem valRank_kind {v : Val} {n : String} (hn : v.name? = some n) (hk : topKind v = true) (hp : isParam v = false) :
    ∃ c, varOf v = some (n, c) ∧ (valRank v = 1 → c = true) ∧ (valRank v ≠ 1 → c = false) := by
  cases v <;> simp [topKind, isParam] at hk hp <;> simp only [Val.name?, Option.some.injEq] at hn <;> subst hn <;>
    simp [varOf, valRank]

theorem buildAny_value_eq (cfg : Config) (f : Nat) (ctx : Ctx) (cmd : String) (args : List BSx) (st : St)
    (hcmd : cmd = "register" ∨ cmd = "map" ∨ cmd = "let") :
    buildAny cfg .off (f + 1) ctx (.list (.str cmd :: args)) st =
      (buildVal ctx (f + 1) (.list (.str cmd :: args)) >>= fun v => pure (Obj.val v, st)) := by
  rw [buildAny_list, anyStep_value _ _ _ _ _ _ _ _ hcmd, buildVal_list]

/-- a header value -/
theorem facts_val {cfg : Config} {inject : Option (List (String × GateDef))} {a a1 : Acc} {F : Nat} {cmd : String}
    {args : List BSx} (hcmd : cmd = "register" ∨ cmd = "map" ∨ cmd = "let")
    (h : circuitStep cfg .off inject F a (.list (.str cmd :: args)) = .ok a1) {k : Nat}
    (hp : ∀ f v, F = f + 1 → buildVal a.ctx (f + 1) (.list (.str cmd :: args)) = .ok v → HdrPost a.ctx v k)
    (hk : cls (.list (.str cmd :: args)) = if k = 1 then 1 else 2) (hrank : rank (.list (.str cmd :: args)) = k)
    (hsrc : k = 3 → ∀ f v, buildVal a.ctx (f + 1) (.list (.str cmd :: args)) = .ok v →
      ∃ s w, a.ctx.get s = some w ∧ (isRegister w = true ∨ isParam w = true))
    (hlet : k = 1 → ∀ f c, buildVal c (f + 1) (.list (.str cmd :: args)) = buildVal a.ctx (f + 1) (.list (.str cmd :: args))) :
    ∃ o st1, StepFacts cfg F a (.list (.str cmd :: args)) o st1 ∧ stepTail cfg .off inject a o st1 = .ok a1 := by
  obtain ⟨f, v, rfl, hv, ht⟩ := circuitStep_val hcmd h
  have hpost := hp f v rfl hv
  obtain ⟨n, hn⟩ := hpost.named
  obtain ⟨c, hvar, hc1, hc2⟩ := valRank_kind hn hpost.kind.1 hpost.kind.2
  have hb : ∀ s, buildAny cfg .off (f + 1) a.ctx (.list (.str cmd :: args)) s = .ok (.val v, s) := by
    intro s
    rw [buildAny_value_eq _ _ _ _ _ _ hcmd, hv]; rfl
  have hkind : okind (.val v) = if k = 1 then 1 else 2 := by
    simp only [okind, hvar]
    by_cases hk1 : k = 1
    · rw [hc1 (by rw [hpost.rk]; exact hk1)]; simp [hk1]
    · rw [hc2 (by rw [hpost.rk]; exact hk1)]; simp [hk1]
  refine ⟨.val v, a.st, ⟨hb a.st, (by rw [hkind, hk]), (fun m hm => by cases hm), fun _ => hb, ?_,
    (fun v' hv' => by cases hv'; rw [hpost.rk, hrank]), (fun h3 => hsrc (by rw [← hrank]; exact h3) f v hv)⟩, ht⟩
  intro h1 c s
  have hk1 : k = 1 := by
    rw [hkind] at h1
    by_contra hne
    simp [hne] at h1
  rw [buildAny_value_eq _ _ _ _ _ _ hcmd, hlet hk1 f c, hv]; rfl

theorem facts_stmt {cfg : Config} {inject : Option (List (String × GateDef))} {a a1 : Acc} {F : Nat} {x : BSx} {s : Stmt}
    {st1 : St} (hb : buildAny cfg .off F a.ctx x a.st = .ok (.stmt s, st1)) (hr : rank x = 5)
    (h : circuitStep cfg .off inject F a x = .ok a1) :
    ∃ o st1, StepFacts cfg F a x o st1 ∧ stepTail cfg .off inject a o st1 = .ok a1 := by
  refine ⟨.stmt s, st1, ⟨hb, (by simp [okind, cls, hr]), (fun m hm => by cases hm), (fun h2 => by simp [okind] at h2),
    (fun h2 => by simp [okind] at h2), (fun v hv => by cases hv), (fun h3 => by omega)⟩, ?_⟩
  unfold circuitStep at h
  rw [hb] at h
  exact h

/-- **Facts about one iteration** on a child of the grammar, from an accumulator with the invariants of the loop. -/
theorem step_facts {cfg : Config} {inject : Option (List (String × GateDef))} {a a1 : Acc} {F : Nat} {x : BSx}
    (hi : TopInv a) (hg : GChild x) (hb : noBr x = true) (h : circuitStep cfg .off inject F a x = .ok a1) :
    ∃ o st1, StepFacts cfg F a x o st1 ∧ stepTail cfg .off inject a o st1 = .ok a1 := by
  rcases hg with hg | hg
  · cases hg with
    | usepulses m =>
      cases F with
      | zero => simp [circuitStep, buildAny, throw_eq, bind, Except.bind] at h
      | succ f =>
        have hb' : ∀ c s, buildAny cfg .off (f + 1) c (.list [.str "usepulses", .str m, .str "*"]) s =
            .ok (.usepulses m, s) := fun c s => buildAny_usepulses_eq cfg .off f c m s
        refine ⟨.usepulses m, a.st, ⟨hb' _ _, rfl, (fun m hm => by cases hm), fun _ => hb' _, fun _ => hb',
          (fun v hv => by cases hv), (fun h3 => by simp [rank] at h3)⟩, ?_⟩
        unfold circuitStep at h
        rw [hb'] at h
        exact h
    | letInt n i =>
      exact facts_val (k := 1) (Or.inr (Or.inr rfl)) h (fun f v _ hv => hdr_let_int a.ctx hv) rfl rfl
        (fun h1 => by cases h1) (fun _ f c => by simp [buildVal_list, valStep])
    | letFlt n d =>
      exact facts_val (k := 1) (Or.inr (Or.inr rfl)) h (fun f v _ hv => hdr_let_flt a.ctx hv) rfl rfl
        (fun h1 => by cases h1) (fun _ f c => by simp [buildVal_list, valStep])
    | register n hs =>
      exact facts_val (k := 2) (Or.inl rfl) h (fun f v _ hv => hdr_register hi.ctxN hs hv) rfl rfl
        (fun h1 => by cases h1) (fun h1 => by cases h1)
    | mapWhole n s' =>
      exact facts_val (k := 3) (Or.inr (Or.inl rfl)) h (fun f v _ hv => hdr_map_whole hi.ctxN hi.sized hv) rfl rfl
        (fun _ f v hv => by
          rw [buildVal_list, map_reduce] at hv
          obtain ⟨src, hsrc, _⟩ := bind_ok hv
          exact ⟨_, _, mapSource_inv hsrc⟩)
        (fun h1 => by cases h1)
    | mapIndex n s' hidx =>
      exact facts_val (k := 3) (Or.inr (Or.inl rfl)) h (fun f v _ hv => hdr_map_idx hi.ctxN hidx hv) rfl rfl
        (fun _ f v hv => by
          rw [buildVal_list, map_reduce] at hv
          obtain ⟨src, hsrc, _⟩ := bind_ok hv
          exact ⟨_, _, mapSource_inv hsrc⟩)
        (fun h1 => by cases h1)
    | mapSlice n s' ha hb' hc =>
      exact facts_val (k := 3) (Or.inr (Or.inl rfl)) h (fun f v _ hv => hdr_map_slice hi.ctxN hi.sized ha hb' hc hv) rfl rfl
        (fun _ f v hv => by
          rw [buildVal_list, map_reduce] at hv
          obtain ⟨src, hsrc, _⟩ := bind_ok hv
          exact ⟨_, _, mapSource_inv hsrc⟩)
        (fun h1 => by cases h1)
  · cases hg with
    | stmt hs =>
      have h0 := h
      unfold circuitStep at h
      obtain ⟨⟨o, st'⟩, hbuild, _⟩ := bind_ok h
      obtain ⟨s, rfl, _⟩ := stmt_rebuild cfg F a.ctx false x a.st o st' hi.ctxN hi.k hs hb hbuild
      exact facts_stmt hbuild (rank_stmt hs) h0
    | seqB hitems =>
      rename_i items
      simp only [noBr, noBrList, Bool.and_eq_true] at hb
      have h0 := h
      unfold circuitStep at h
      obtain ⟨⟨o, st'⟩, hbuild, _⟩ := bind_ok h
      cases F with
      | zero => simp [buildAny, throw_eq] at hbuild
      | succ f =>
        obtain ⟨ss, rfl, _⟩ := block_post (p := false) (stmt_rebuild cfg f) hi.ctxN hi.k hitems hb.2 hbuild
        exact facts_stmt hbuild rfl h0
    | macroDef hitems =>
      rename_i name params par items
      simp only [noBr, noBrList, Bool.and_eq_true] at hb
      obtain ⟨_, hb2⟩ := noBrList_append hb.2.2
      simp only [noBrList, noBr, Bool.and_eq_true] at hb2
      have hlen : ¬ ((BSx.str name :: (params.map BSx.str ++ [BSx.list (.str (blockCmdB par) :: items)])).length < 2) := by
        simp
      unfold circuitStep at h
      obtain ⟨⟨o, st'⟩, hbuild, htail⟩ := bind_ok h
      cases F with
      | zero => simp [buildAny, throw_eq] at hbuild
      | succ f =>
        have hb0 := hbuild
        rw [buildAny_list, anyStep_macro _ _ _ _ _ _ _ _ hlen] at hbuild
        simp only [strOf, pure_bind] at hbuild
        by_cases hl : (a.st.gctx.lookup name).isSome = true
        · simp [hl, throw_eq, bind, Except.bind] at hbuild
        · simp only [hl, Bool.false_eq_true, if_false, pure_bind, List.dropLast_concat, mapM_macroParam_str,
            List.getLast?_concat] at hbuild
          simp only [bind, Except.bind] at hbuild
          cases f with
          | zero => simp [buildAny, throw_eq] at hbuild
          | succ f' =>
            cases hbody : buildAny cfg .off (f' + 1) (a.ctx.withParams (params.map (fun p => (p, Kind.none))))
                (.list (.str (blockCmdB par) :: items)) a.st with
            | error e => rw [hbody] at hbuild; cases hbuild
            | ok pr =>
              obtain ⟨ob, sb⟩ := pr
              obtain ⟨ss, rfl, _, _, hgns, _, _, _⟩ := block_post (stmt_rebuild cfg f')
                (ctxN_withParams hi.ctxN _) hi.k hitems hb2.1.2 hbody
              rw [hbody] at hbuild
              simp only [pure, Except.pure, Except.ok.injEq, Prod.mk.injEq] at hbuild
              obtain ⟨rfl, rfl⟩ := hbuild
              refine ⟨_, _, ⟨hb0, rfl, ?_, (fun h2 => by simp [okind] at h2), (fun h2 => by simp [okind] at h2),
                (fun v hv => by cases hv), (fun h3 => by simp [rank] at h3)⟩, htail⟩
              intro m hm
              cases hm
              refine ⟨by simpa [gNamed] using hgns, ?_⟩
              cases hx : a.st.gctx.lookup name with
              | none => rfl
              | some w => simp [hx] at hl
    | branch =>
      unfold circuitStep at h
      obtain ⟨pr, hbuild, _⟩ := bind_ok h
      exact absurd hbuild (branch_fails _ _ _ _ _ _ _)

/-! ## replaying an iteration from another accumulator -/

theorem cls_le (x : BSx) : cls x ≤ 4 := by
  unfold cls
  split <;> omega

theorem applyObj_val {a : Acc} {st : St} {v : Val} {n : String} {c : Bool} (hv : varOf v = some (n, c)) :
    applyObj a st (.val v) = pushVar a st n v c := by
  simp [applyObj, hv]

theorem okind_val_le {v : Val} (h : okind (.val v) ≤ 4) : ∃ n c, varOf v = some (n, c) := by
  cases hv : varOf v with
  | none => simp [okind, hv] at h
  | some p => exact ⟨p.1, p.2, rfl⟩

theorem tiCons {st : St} (hi : TI st) {m : Macro} (hfresh : st.gctx.lookup m.name = none) (hk : StmtKnown st.gctx m.body) :
    TI { st with gctx := (m.name, .macro m) :: st.gctx } :=
  ⟨kinv_cons_macro hi.k hfresh, hi.r.addMacro m hfresh hk⟩

theorem ti_applyObj {a : Acc} {st : St} {o : Obj} (hi : TI st) (hg : Guard a st o) (hk : ObjKnown st.gctx o) :
    TI (applyObj a st o).st := by
  cases o with
  | val v =>
    cases hv : varOf v with
    | none => simp only [applyObj, hv]; obtain ⟨n, c, h1, _⟩ := hg; rw [hv] at h1; cases h1
    | some p => obtain ⟨n, c⟩ := p; rw [applyObj_val hv]; cases c <;> exact hi
  | «macro» m => exact tiCons hi hg hk
  | stmt s => exact hi
  | usepulses n => exact hi
  | case => exact hg.elim

/-- **Replay of one iteration**: `x` was built from `a`; the same child is built from `b`, whose context binds at least
as much and whose gate table lies inside the reference table `G` lacking only anonymous definitions. -/
theorem replay_step {cfg : Config} (ha : cfg.autoload = false) {inject : Option (List (String × GateDef))} {F : Nat}
    {a b : Acc} {x : BSx} {o : Obj} {st1 : St} {G : GCtx} (hf : StepFacts cfg F a x o st1)
    (hia : TI a.st) (hib : TI b.st) (hc : CtxLe a.ctx b.ctx) (hG : GExt st1.gctx G) (hn : TRel cfg G b.st.gctx)
    (hfv : ∀ v n c, o = .val v → varOf v = some (n, c) → b.ctx.get n = none)
    (hfm : ∀ m, o = .macro m → G.lookup m.name = none) :
    ∃ sn', buildAny cfg .off F b.ctx x b.st = .ok (o, sn') ∧ GExt sn'.gctx G ∧ Cover a.st.gctx st1.gctx sn'.gctx ∧
      GExt b.st.gctx sn'.gctx ∧ TI (applyObj b sn' o).st ∧
      circuitStep cfg .off inject F b x = .ok (applyObj b sn' o) := by
  have hk : okind o ≤ 4 := by rw [hf.kind]; exact cls_le x
  have hgo : GoodObj b.st.gctx o := by
    cases o with
    | «macro» m =>
      show b.st.gctx.lookup m.name = none
      cases hl : b.st.gctx.lookup m.name with
      | none => rfl
      | some e => have := hn.sub _ e hl; rw [hfm m rfl] at this; cases this
    | case => simp [okind] at hk
    | _ => trivial
  obtain ⟨sn', hb, hsub, hcov⟩ := buildAny_transfer cfg G F a.ctx b.ctx x hc a.st st1 b.st o hf.build hgo hia hib hG hn
  have hpost := buildAny_known F b.ctx x b.st sn' o hib.k hb
  have hguard : Guard b sn' o := by
    cases o with
    | val v =>
      obtain ⟨n, c, hv⟩ := okind_val_le hk
      exact ⟨n, c, hv, hfv v n c rfl hv⟩
    | «macro» m =>
      show sn'.gctx.lookup m.name = none
      cases hl : sn'.gctx.lookup m.name with
      | none => rfl
      | some e => have := hsub _ e hl; rw [hfm m rfl] at this; cases this
    | case => simp [okind] at hk
    | _ => trivial
  have hti : TI (applyObj b sn' o).st := ti_applyObj (hib.post hpost) hguard hpost.obj
  refine ⟨sn', hb, hsub, hcov, hpost.ext, hti, ?_⟩
  unfold circuitStep
  rw [hb]
  show stepTail cfg .off inject b o sn' = _
  rw [stepTail_eq ha]
  · exact ⟨hguard, rfl⟩
  · intro m hm
    subst hm
    exact rebuildMacro_id hpost.inv.keys hpost.obj (hf.named m rfl).1

/-- the old iteration itself, in the same terms -/
theorem step_apply {cfg : Config} (ha : cfg.autoload = false) {inject : Option (List (String × GateDef))} {F : Nat}
    {a a1 : Acc} {x : BSx} {o : Obj} {st1 : St} (hf : StepFacts cfg F a x o st1) (hk : KInv a.st)
    (ht : stepTail cfg .off inject a o st1 = .ok a1) : Guard a st1 o ∧ a1 = applyObj a st1 o := by
  have hpost := buildAny_known F a.ctx x a.st st1 o hk hf.build
  rw [stepTail_eq ha] at ht
  · exact ht
  · intro m hm
    subst hm
    exact rebuildMacro_id hpost.inv.keys hpost.obj (hf.named m rfl).1

/-! ## accumulators that differ only in the order of insertion -/

structure AccEq (a b : Acc) : Prop where
  ctx : CtxEq a.ctx b.ctx
  tab1 : GExt a.st.gctx b.st.gctx
  tab2 : GExt b.st.gctx a.st.gctx
  registers : a.registers = b.registers
  constants : a.constants = b.constants
  macros : a.macros = b.macros
  stmts : a.stmts = b.stmts
  usepulses : a.usepulses = b.usepulses
  natives : a.natives = b.natives

theorem AccEq.refl (a : Acc) : AccEq a a := ⟨CtxEq.refl _, GExt.refl _, GExt.refl _, rfl, rfl, rfl, rfl, rfl, rfl⟩

theorem AccEq.trans {a b c : Acc} (h1 : AccEq a b) (h2 : AccEq b c) : AccEq a c :=
  ⟨h1.ctx.trans h2.ctx, h1.tab1.trans h2.tab1, h2.tab2.trans h1.tab2, h1.registers.trans h2.registers,
    h1.constants.trans h2.constants, h1.macros.trans h2.macros, h1.stmts.trans h2.stmts,
    h1.usepulses.trans h2.usepulses, h1.natives.trans h2.natives⟩

theorem AccEq.toCircuit {a b : Acc} (h : AccEq a b) : a.toCircuit = b.toCircuit := by
  simp only [Acc.toCircuit, h.registers, h.constants, h.macros, h.stmts, h.usepulses, h.natives]

theorem gext_of_cover {X T : GCtx} (h : GExt X T) (hc : ∀ n, (T.lookup n).isSome = true → (X.lookup n).isSome = true) :
    GExt T X := by
  intro n e he
  have := hc n (by rw [he]; rfl)
  cases hx : X.lookup n with
  | none => rw [hx] at this; cases this
  | some e' => have h2 := h n e' hx; rw [he] at h2; cases h2; rfl

theorem isSome_of_gext {g g' : GCtx} (h : GExt g g') {n : String} (hn : (g.lookup n).isSome = true) :
    (g'.lookup n).isSome = true := by
  cases hl : g.lookup n with
  | none => rw [hl] at hn; cases hn
  | some e => rw [h n e hl]; rfl

theorem gext_cons_cons {k : String} {e : GEntry} {g g' : GCtx} (h : GExt g g') : GExt ((k, e) :: g) ((k, e) :: g') := by
  intro n e' hn
  by_cases hk : n = k
  · subst hk; rw [lookup_cons_self] at hn ⊢; exact hn
  · rw [lookup_cons_ne hk] at hn ⊢; exact h n e' hn

theorem get_cons (ctx : Ctx) (n : String) (v : Val) (x : String) :
    Ctx.get { ctx with vars := (n, v) :: ctx.vars } x = if x = n then some v else ctx.get x := by
  simp only [Ctx.get, List.lookup]
  by_cases h : x = n
  · subst h; simp
  · have : (x == n) = false := by simpa using h
    simp [this, h]

theorem ctxEq_cons {a b : Ctx} (h : CtxEq a b) (n : String) (v : Val) :
    CtxEq { a with vars := (n, v) :: a.vars } { b with vars := (n, v) :: b.vars } := by
  refine ⟨?_, h.2.1, h.2.2.1, h.2.2.2⟩
  funext x
  rw [get_cons, get_cons, h.1]

theorem accEq_apply {a b : Acc} {s1 s2 : St} (h : AccEq a b) (h1 : GExt s1.gctx s2.gctx) (h2 : GExt s2.gctx s1.gctx)
    (o : Obj) : AccEq (applyObj a s1 o) (applyObj b s2 o) := by
  cases o with
  | val v =>
    cases hv : varOf v with
    | none => simp only [applyObj, hv]; exact h
    | some p =>
      obtain ⟨n, c⟩ := p
      rw [applyObj_val hv, applyObj_val hv]
      cases c
      · exact ⟨ctxEq_cons h.ctx n v, h1, h2, by simp [pushVar, h.registers], h.constants, h.macros, h.stmts, h.usepulses,
          h.natives⟩
      · exact ⟨ctxEq_cons h.ctx n v, h1, h2, h.registers, by simp [pushVar, h.constants], h.macros, h.stmts, h.usepulses,
          h.natives⟩
  | «macro» m =>
    exact ⟨h.ctx, gext_cons_cons h1, gext_cons_cons h2, h.registers, h.constants, by simp [applyObj, h.macros], h.stmts,
      h.usepulses, h.natives⟩
  | stmt s =>
    exact ⟨h.ctx, h1, h2, h.registers, h.constants, h.macros, by simp [applyObj, h.stmts], h.usepulses, h.natives⟩
  | usepulses n =>
    exact ⟨h.ctx, h1, h2, h.registers, h.constants, h.macros, h.stmts, by simp [applyObj, h.usepulses], h.natives⟩
  | case => exact h

/-- **Congruence of one iteration**: from an accumulator that differs only in the order of insertion the same child
is built to the same object. -/
theorem cong_step {cfg : Config} (ha : cfg.autoload = false) {inject : Option (List (String × GateDef))} {F : Nat}
    {a b a1 : Acc} {x : BSx} (hi : TopInv a) (hr : RInv a.st.gctx) (hib : TI b.st) (he : AccEq a b) (hg : GChild x)
    (hb : noBr x = true) (h : circuitStep cfg .off inject F a x = .ok a1) :
    ∃ b1, circuitStep cfg .off inject F b x = .ok b1 ∧ AccEq a1 b1 ∧ TI b1.st := by
  obtain ⟨o, st1, hf, ht⟩ := step_facts hi hg hb h
  obtain ⟨hguard, rfl⟩ := step_apply ha hf hi.k ht
  have hpost := buildAny_known F a.ctx x a.st st1 o hi.k hf.build
  have hn : TRel cfg st1.gctx b.st.gctx := by
    refine ⟨he.tab2.trans hpost.ext, ?_⟩
    intro n e hne
    rcases hpost.anon n e hne with h0 | h0
    · exact Or.inl (he.tab1 n e h0)
    · exact Or.inr h0
  obtain ⟨sn', _, hsub, hcov, hext, hti, hstep⟩ := replay_step (inject := inject) ha hf ⟨hi.k, hr⟩ hib
    ⟨fun x w hx => by rw [← he.ctx.1]; exact hx, he.ctx.2.1, he.ctx.2.2.1, he.ctx.2.2.2⟩ (GExt.refl _) hn
    (by
      intro v n c hv hvar
      subst hv
      obtain ⟨n', c', h1, h2⟩ := hguard
      rw [hvar] at h1
      cases h1
      rw [← he.ctx.1]; exact h2)
    (by intro m hm; subst hm; exact hguard)
  refine ⟨_, hstep, accEq_apply he ?_ hsub o, hti⟩
  apply gext_of_cover hsub
  intro n hn'
  rcases hcov n hn' with h0 | h0
  · exact isSome_of_gext hext (isSome_of_gext he.tab1 h0)
  · exact h0

/-! ## exchanging two neighbours -/

theorem rinv_step {cfg : Config} (ha : cfg.autoload = false) {inject : Option (List (String × GateDef))} {F : Nat}
    {a a1 : Acc} {x : BSx} (hi : TopInv a) (hr : RInv a.st.gctx) (hg : GChild x) (hb : noBr x = true)
    (h : circuitStep cfg .off inject F a x = .ok a1) : RInv a1.st.gctx := by
  obtain ⟨o, st1, hf, ht⟩ := step_facts hi hg hb h
  obtain ⟨hguard, rfl⟩ := step_apply ha hf hi.k ht
  have hpost := buildAny_known F a.ctx x a.st st1 o hi.k hf.build
  exact (ti_applyObj ((⟨hi.k, hr⟩ : TI a.st).post hpost) hguard hpost.obj).r

theorem get_applyObj_none {a : Acc} {st : St} {o : Obj} {n : String} (h : (applyObj a st o).ctx.get n = none) :
    a.ctx.get n = none := by
  cases o with
  | val v =>
    cases hv : varOf v with
    | none => simpa [applyObj, hv] using h
    | some p =>
      obtain ⟨m, c⟩ := p
      rw [applyObj_val hv] at h
      have h' : Ctx.get { a.ctx with vars := (m, v) :: a.ctx.vars } n = none := by cases c <;> exact h
      rw [get_cons] at h'
      by_cases hn : n = m
      · simp [hn] at h'
      · simpa [hn] using h'
  | _ => exact h

theorem ctxLe_applyObj {a : Acc} {st : St} {o : Obj} (hg : Guard a st o) : CtxLe a.ctx (applyObj a st o).ctx := by
  cases o with
  | val v =>
    obtain ⟨n, c, hv, hfresh⟩ := hg
    rw [applyObj_val hv]
    have : CtxLe a.ctx { a.ctx with vars := (n, v) :: a.ctx.vars } := by
      refine ⟨?_, rfl, rfl, rfl⟩
      intro x w hx
      rw [get_cons]
      by_cases hn : x = n
      · subst hn; rw [hfresh] at hx; cases hx
      · simpa [hn] using hx
    cases c <;> exact this
  | _ => exact CtxLe.refl _

theorem ctx_applyObj {a : Acc} {st : St} {o : Obj} (h : 3 ≤ okind o ∨ okind o = 0) : (applyObj a st o).ctx = a.ctx := by
  cases o with
  | val v =>
    cases hv : varOf v with
    | none => simp [applyObj, hv]
    | some p => obtain ⟨n, c⟩ := p; cases c <;> simp [okind, hv] at h
  | _ => rfl

theorem st_applyObj {a : Acc} {st : St} {o : Obj} (h : okind o ≤ 2) : (applyObj a st o).st = st := by
  cases o with
  | val v =>
    cases hv : varOf v with
    | none => simp [okind, hv] at h
    | some p => obtain ⟨n, c⟩ := p; rw [applyObj_val hv]; cases c <;> rfl
  | usepulses n => rfl
  | _ => simp [okind] at h

/-- the accumulators after `x; e` and after `e; x` for a header object `e` of an earlier section -/
theorem accEq_swap {a : Acc} {s1 s2 : St} {oe ox : Obj} (he : okind oe ≤ 2) (hlt : okind oe < okind ox) (hx : okind ox ≤ 4)
    (h1 : GExt s1.gctx s2.gctx) (h2 : GExt s2.gctx s1.gctx)
    (hne : ∀ v vx n c nx cx, oe = .val v → ox = .val vx → varOf v = some (n, c) → varOf vx = some (nx, cx) → n ≠ nx) :
    AccEq (applyObj (applyObj a s1 ox) (applyObj a s1 ox).st oe) (applyObj (applyObj a a.st oe) s2 ox) := by
  have hctx : ∀ (n nx : String) (v vx : Val), n ≠ nx →
      CtxEq { a.ctx with vars := (n, v) :: (nx, vx) :: a.ctx.vars } { a.ctx with vars := (nx, vx) :: (n, v) :: a.ctx.vars } := by
    intro n nx v vx hn
    refine ⟨?_, rfl, rfl, rfl⟩
    funext x
    simp only [Ctx.get, List.lookup]
    by_cases h1 : x = n
    · subst h1
      have : (x == nx) = false := by simpa using hn
      simp [this]
    · have e1 : (x == n) = false := by simpa using h1
      simp [e1]
  cases oe with
  | usepulses m =>
    cases ox with
    | val vx =>
      obtain ⟨nx, cx, hvx⟩ := okind_val_le hx
      rw [applyObj_val hvx, applyObj_val hvx]
      cases cx <;> exact ⟨CtxEq.refl _, h1, h2, rfl, rfl, rfl, rfl, rfl, rfl⟩
    | «macro» mx => exact ⟨CtxEq.refl _, gext_cons_cons h1, gext_cons_cons h2, rfl, rfl, rfl, rfl, rfl, rfl⟩
    | stmt sx => exact ⟨CtxEq.refl _, h1, h2, rfl, rfl, rfl, rfl, rfl, rfl⟩
    | usepulses _ => simp [okind] at hlt
    | case => simp [okind] at hx
  | val v =>
    obtain ⟨n, c, hv⟩ := okind_val_le (Nat.le_trans he (by omega))
    cases ox with
    | val vx =>
      obtain ⟨nx, cx, hvx⟩ := okind_val_le hx
      have hn := hne v vx n c nx cx rfl rfl hv hvx
      have hc : c = true ∧ cx = false := by
        cases c <;> cases cx <;> simp [okind, hv, hvx] at hlt he ⊢
      obtain ⟨rfl, rfl⟩ := hc
      rw [applyObj_val hvx, applyObj_val hvx, applyObj_val hv, applyObj_val hv]
      exact ⟨hctx n nx v vx hn, h1, h2, rfl, rfl, rfl, rfl, rfl, rfl⟩
    | «macro» mx =>
      rw [applyObj_val hv, applyObj_val hv]
      cases c <;> exact ⟨CtxEq.refl _, gext_cons_cons h1, gext_cons_cons h2, rfl, rfl, rfl, rfl, rfl, rfl⟩
    | stmt sx =>
      rw [applyObj_val hv, applyObj_val hv]
      cases c <;> exact ⟨CtxEq.refl _, h1, h2, rfl, rfl, rfl, rfl, rfl, rfl⟩
    | usepulses _ => simp [okind] at hlt
    | case => simp [okind] at hx
  | «macro» _ => simp [okind] at he
  | stmt _ => simp [okind] at he
  | case => simp [okind] at he

theorem gext_cons_fresh {k : String} {e : GEntry} {g : GCtx} (h : g.lookup k = none) : GExt g ((k, e) :: g) := by
  intro n e' hn
  have : n ≠ k := by rintro rfl; rw [h] at hn; cases hn
  rw [lookup_cons_ne this]; exact hn

/-- **Exchange**: `x; e` with `e` of an earlier section than `x` gives, up to the order of insertion, what `e; x` gives. -/
theorem swap_step {cfg : Config} (ha : cfg.autoload = false) {inject : Option (List (String × GateDef))} {F : Nat}
    {a a1 a2 : Acc} {x e : BSx} (hi : TopInv a) (hr : RInv a.st.gctx) (hgx : GChild x) (hbx : noBr x = true)
    (hge : GChild e) (hbe : noBr e = true) (hcls : cls e < cls x)
    (hx : circuitStep cfg .off inject F a x = .ok a1) (he : circuitStep cfg .off inject F a1 e = .ok a2) :
    ∃ b1 b2, circuitStep cfg .off inject F a e = .ok b1 ∧ circuitStep cfg .off inject F b1 x = .ok b2 ∧
      AccEq a2 b2 ∧ TI b2.st := by
  have hi1 : TopInv a1 := (step_child ha hi hgx hbx hx).inv
  have hr1 : RInv a1.st.gctx := rinv_step ha hi hr hgx hbx hx
  obtain ⟨ox, st1, hfx, htx⟩ := step_facts hi hgx hbx hx
  obtain ⟨hguardx, rfl⟩ := step_apply ha hfx hi.k htx
  obtain ⟨oe, st2, hfe, hte⟩ := step_facts hi1 hge hbe he
  obtain ⟨hguarde, rfl⟩ := step_apply ha hfe hi1.k hte
  have hpx := buildAny_known F a.ctx x a.st st1 ox hi.k hfx.build
  have hkx : okind ox ≤ 4 := by rw [hfx.kind]; exact cls_le x
  have hlt : okind oe < okind ox := by rw [hfx.kind, hfe.kind]; exact hcls
  have hia : TI a.st := ⟨hi.k, hr⟩
  by_cases hh : okind oe ≤ 2
  · -- `e` is a header statement
    have hst2 : st2 = (applyObj a st1 ox).st := by
      have := hfe.pure2 hh (applyObj a st1 ox).st
      rw [hfe.build] at this
      cases this; rfl
    subst hst2
    have hbe0 : buildAny cfg .off F a.ctx e a.st = .ok (oe, a.st) := by
      by_cases h1 : okind oe ≤ 1
      · exact hfe.pure1 h1 _ _
      · have hc : (applyObj a st1 ox).ctx = a.ctx := ctx_applyObj (Or.inl (by omega))
        have := hfe.pure2 hh a.st
        rw [hc] at this
        exact this
    have hguard0 : Guard a a.st oe := by
      cases oe with
      | val v =>
        obtain ⟨n, c, hv, hfresh⟩ := hguarde
        exact ⟨n, c, hv, get_applyObj_none hfresh⟩
      | usepulses _ => trivial
      | _ => simp [okind] at hh
    have hstep0 : circuitStep cfg .off inject F a e = .ok (applyObj a a.st oe) := by
      unfold circuitStep
      rw [hbe0]
      show stepTail cfg .off inject a oe a.st = _
      rw [stepTail_eq ha]
      · exact ⟨hguard0, rfl⟩
      · intro m hm; subst hm; simp [okind] at hh
    have hst0 : (applyObj a a.st oe).st = a.st := st_applyObj hh
    obtain ⟨sn', _, hsub, hcov, hext, hti, hstep1⟩ := replay_step (inject := inject) (b := applyObj a a.st oe) ha hfx hia
      (by rw [hst0]; exact hia) (ctxLe_applyObj hguard0) (GExt.refl _)
      (by rw [hst0]; exact ⟨hpx.ext, hpx.anon⟩)
      (by
        intro vx nx cx hvx hvar
        subst hvx
        obtain ⟨nx', cx', h1, hfreshx⟩ := hguardx
        rw [hvar] at h1; cases h1
        cases oe with
        | val v =>
          obtain ⟨n, c, hv, hfresh⟩ := hguarde
          rw [applyObj_val hvar] at hfresh
          have hfresh' : Ctx.get { a.ctx with vars := (nx, vx) :: a.ctx.vars } n = none := by cases cx <;> exact hfresh
          rw [get_cons] at hfresh'
          have hn : n ≠ nx := by intro h0; simp [h0] at hfresh'
          rw [applyObj_val hv]
          have : Ctx.get { a.ctx with vars := (n, v) :: a.ctx.vars } nx = none := by
            rw [get_cons]; simp [Ne.symm hn, hfreshx]
          cases c <;> exact this
        | usepulses _ => exact hfreshx
        | _ => simp [okind] at hh)
      (by intro m hm; subst hm; exact hguardx)
    rw [hst0] at hext
    have hback : GExt st1.gctx sn'.gctx := by
      apply gext_of_cover hsub
      intro n hn
      rcases hcov n hn with h0 | h0
      · exact isSome_of_gext hext h0
      · exact h0
    refine ⟨_, _, hstep0, hstep1, accEq_swap hh hlt hkx hback hsub ?_, hti⟩
    intro v vx n c nx cx hoe hox hv hvx
    subst hoe hox
    obtain ⟨n', c', h1, hfresh⟩ := hguarde
    rw [hv] at h1; cases h1
    rw [applyObj_val hvx] at hfresh
    have hfresh' : Ctx.get { a.ctx with vars := (nx, vx) :: a.ctx.vars } n = none := by cases cx <;> exact hfresh
    rw [get_cons] at hfresh'
    intro h0; simp [h0] at hfresh'
  · -- `e` defines a macro and `x` is a statement
    have hoe : ∃ m, oe = .macro m := by
      cases oe with
      | «macro» m => exact ⟨m, rfl⟩
      | val v => cases hv : varOf v with
        | none =>
          have h5 : okind (.val v) = 5 := by simp [okind, hv]
          rw [h5] at hlt; omega
        | some p => obtain ⟨n, c⟩ := p; cases c <;> simp [okind, hv] at hh
      | stmt s0 =>
        have h4 : okind (.stmt s0) = 4 := rfl
        rw [h4] at hlt; omega
      | usepulses _ => simp [okind] at hh
      | case =>
        have h5 : okind .case = 5 := rfl
        rw [h5] at hlt; omega
    obtain ⟨m, rfl⟩ := hoe
    have hox : ∃ s, ox = .stmt s := by
      cases ox with
      | stmt s => exact ⟨s, rfl⟩
      | val v => cases hv : varOf v with
        | none => simp [okind, hv] at hkx
        | some p => obtain ⟨n, c⟩ := p; cases c <;> simp [okind, hv] at hlt
      | «macro» _ => simp [okind] at hlt
      | usepulses _ => simp [okind] at hlt
      | case => simp [okind] at hkx
    obtain ⟨s, rfl⟩ := hox
    -- the accumulator after `x`
    have hctx1 : (applyObj a st1 (.stmt s)).ctx = a.ctx := rfl
    have hst1 : (applyObj a st1 (.stmt s)).st = st1 := rfl
    have hfresh2 : st2.gctx.lookup m.name = none := hguarde
    have hpe := buildAny_known F (applyObj a st1 (.stmt s)).ctx e (applyObj a st1 (.stmt s)).st st2 _ hi1.k hfe.build
    rw [hst1] at hpe
    -- the macro first
    obtain ⟨sn1, _, hsub1, hcov1, hext1, hti1, hstep0⟩ := replay_step (inject := inject) (b := a) (G := st2.gctx) ha hfe
      ⟨hi1.k, hr1⟩ hia (by rw [hctx1]; exact CtxLe.refl _) (GExt.refl _)
      ⟨hpx.ext.trans hpe.ext, hpx.anon.trans hpe.anon⟩ (by intro v n c hv; cases hv)
      (by intro m' hm; cases hm; exact hfresh2)
    -- then the statement, against the table at the end of the old run
    have hGo : GExt st1.gctx ((m.name, GEntry.macro m) :: st2.gctx) := hpe.ext.trans (gext_cons_fresh hfresh2)
    have hn2 : TRel cfg ((m.name, GEntry.macro m) :: st2.gctx) (applyObj a sn1 (.macro m)).st.gctx := by
      refine ⟨gext_cons_cons hsub1, ?_⟩
      intro n e' hne
      show List.lookup n ((m.name, GEntry.macro m) :: sn1.gctx) = some e' ∨ _
      by_cases hnm : n = m.name
      · subst hnm
        rw [lookup_cons_self] at hne ⊢
        exact Or.inl hne
      · rw [lookup_cons_ne hnm] at hne ⊢
        rcases (hpx.anon.trans hpe.anon) n e' hne with h0 | h0
        · exact Or.inl (hext1 n e' h0)
        · exact Or.inr h0
    obtain ⟨sn2, _, hsub2, hcov2, hext2, hti2, hstep1⟩ := replay_step (inject := inject) (b := applyObj a sn1 (.macro m))
      ha hfx hia hti1 (CtxLe.refl _) hGo hn2 (by intro v n c hv; cases hv) (by intro m' hm; cases hm)
    refine ⟨_, _, hstep0, hstep1, ?_, hti2⟩
    have hback : GExt ((m.name, GEntry.macro m) :: st2.gctx) sn2.gctx := by
      apply gext_of_cover hsub2
      intro n hn
      rcases lookup_isSome_cons.1 hn with rfl | hn
      · exact isSome_of_gext hext2 (by show (List.lookup m.name ((m.name, GEntry.macro m) :: sn1.gctx)).isSome = true
                                       rw [lookup_cons_self]; rfl)
      · have hsn1 : ∀ k, (sn1.gctx.lookup k).isSome = true → (sn2.gctx.lookup k).isSome = true := by
          intro k hk
          apply isSome_of_gext hext2
          show (List.lookup k ((m.name, GEntry.macro m) :: sn1.gctx)).isSome = true
          exact lookup_isSome_cons.2 (Or.inr hk)
        rcases hcov1 n hn with h0 | h0
        · rw [hst1] at h0
          rcases hcov2 n h0 with h3 | h3
          · exact hsn1 n (isSome_of_gext hext1 h3)
          · exact h3
        · exact hsn1 n h0
    exact ⟨CtxEq.refl _, hback, hsub2, rfl, rfl, rfl, rfl, rfl, rfl⟩

end Jaqal.RoundTrip
