import JaqalModel.Model.FillIn
import JaqalProofs.Lemmas.BuilderNames
import JaqalProofs.Props.C07
/-!
Lemmas for C05 / C06: what `Builder.build` makes of the S-expression the fill-in visitors hand to it.

`Rel F G s s'`: `s'` is `s` with every gate argument and loop count `v` replaced by the value `F v` visits it to, every
subcircuit count by `G`'s, with the same block kinds and subcircuit flags (gate definitions and argument NAMES are those
of the rebuild). `build_visitStmt`: the statement built from `visitStmt F G s` is related to `s`.
-/
namespace Jaqal.FillIn
open Jaqal Jaqal.Builder

/-! ### `AbstractGate.call`: the bound arguments are the arguments, in order -/

theorem odSet_length_le (k : String) (v : Val) : ∀ l : List (String × Val), (odSet k v l).length ≤ l.length + 1 := by
  intro l
  induction l with
  | nil => simp [odSet]
  | cons p l ih =>
    obtain ⟨k', v'⟩ := p
    simp only [odSet]
    split
    · simp
    · simp only [List.length_cons]; omega

theorem odSet_append (k : String) (v : Val) : ∀ l : List (String × Val), (odSet k v l).length = l.length + 1 →
    odSet k v l = l ++ [(k, v)] := by
  intro l
  induction l with
  | nil => intro _; rfl
  | cons p l ih =>
    obtain ⟨k', v'⟩ := p
    simp only [odSet]
    split
    · intro h; simp at h
    · intro h
      simp only [List.length_cons, Nat.add_right_cancel_iff] at h
      simp [ih h]

theorem foldl_odSet_length_le : ∀ (zs init : List (String × Val)),
    (zs.foldl (fun acc p => odSet p.1 p.2 acc) init).length ≤ init.length + zs.length := by
  intro zs
  induction zs with
  | nil => intro init; simp
  | cons z zs ih =>
    intro init
    simp only [List.foldl_cons, List.length_cons]
    have := ih (odSet z.1 z.2 init)
    have := odSet_length_le z.1 z.2 init
    omega

theorem foldl_odSet_append : ∀ (zs init : List (String × Val)),
    (zs.foldl (fun acc p => odSet p.1 p.2 acc) init).length = init.length + zs.length →
    zs.foldl (fun acc p => odSet p.1 p.2 acc) init = init ++ zs := by
  intro zs
  induction zs with
  | nil => intro init _; simp
  | cons z zs ih =>
    intro init h
    simp only [List.foldl_cons, List.length_cons] at h ⊢
    have h1 := foldl_odSet_length_le zs (odSet z.1 z.2 init)
    have h2 := odSet_length_le z.1 z.2 init
    have h3 : (odSet z.1 z.2 init).length = init.length + 1 := by omega
    rw [ih _ (by omega), odSet_append _ _ _ h3]
    simp

/-- a successful `gate_def(*args)` binds the arguments to the parameters in order: the statement's argument values are
exactly `vals` (in particular the parameter names are pairwise distinct and the arity is right) -/
theorem callDef_args {gd : GateDef} {vals : List Val} {s : Stmt} (h : callDef gd vals = .ok s) :
    ∃ args, s = .gate gd.name gd args ∧ args.map (·.2) = vals ∧ args.map (·.1) = gd.params.map (·.1) := by
  unfold callDef at h
  simp only [bind, Except.bind] at h
  split at h
  · simp [throw_eq] at h
  · rename_i hlen
    simp only [pure, Except.pure] at h
    split at h
    · simp [throw_eq] at h
    · rename_i hb
      split at h
      · simp at h
      · cases h
        have hlen' : vals.length ≤ gd.params.length := by omega
        have hz : ((gd.params.map (·.1)).zip vals).length = vals.length := by simp; omega
        have hle := foldl_odSet_length_le ((gd.params.map (·.1)).zip vals) []
        have hb' : gd.params.length = (((gd.params.map (·.1)).zip vals).foldl (fun acc p => odSet p.1 p.2 acc) []).length := by
          simpa using hb
        have heq : vals.length = gd.params.length := by simp only [List.length_nil, Nat.zero_add] at hle; omega
        have := foldl_odSet_append ((gd.params.map (·.1)).zip vals) [] (by simp only [List.length_nil, Nat.zero_add]; omega)
        refine ⟨_, rfl, ?_, ?_⟩
        · rw [this]; simp only [List.nil_append]
          rw [List.map_snd_zip]; simp; omega
        · rw [this]; simp only [List.nil_append]
          rw [List.map_fst_zip]; simp; omega

/-! ### Visited values inside the S-expression -/

theorem buildVal_ofVal {ctx : Builder.Ctx} {f : Nat} {v w : Val} (h : buildVal ctx f (ofVal v) = .ok w) : w = v := by
  cases v <;> simp only [ofVal] at h <;> first
    | (simp only [buildVal, pure, Except.pure] at h; cases h; rfl)
    | (simp [buildVal, throw_eq] at h)

theorem mapM_buildVal_visitArgs {F : Val → M Val} {ctx : Builder.Ctx} {f : Nat} :
    ∀ {args : List (String × Val)} {es : List BSx} {vals : List Val}, visitArgs F args = .ok es →
    es.mapM (buildVal ctx f) = .ok vals → List.Forall₂ (fun a v => F a.2 = .ok v) args vals := by
  intro args
  induction args with
  | nil =>
    intro es vals h1 h2
    simp only [visitArgs, pure, Except.pure] at h1; cases h1
    simp only [List.mapM_nil, pure, Except.pure] at h2; cases h2
    exact List.Forall₂.nil
  | cons a args ih =>
    intro es vals h1 h2
    obtain ⟨n, v⟩ := a
    simp only [visitArgs] at h1
    obtain ⟨v', hv', h1⟩ := bind_ok h1
    obtain ⟨rest, hrest, h1⟩ := bind_ok h1
    cases h1
    simp only [List.mapM_cons] at h2
    obtain ⟨w, hw, h2⟩ := bind_ok h2
    obtain ⟨ws, hws, h2⟩ := bind_ok h2
    cases h2
    have := buildVal_ofVal hw
    subst this
    exact List.Forall₂.cons hv' (ih hrest hws)

/-! ### The relation between a statement and its rebuild -/

/-- the iteration count the builder stores for a visited count: `None` means 1 -/
def normCount : Val → Val
  | .none => .int 1
  | v => v

mutual
def Rel (F G : Val → M Val) : Stmt → Stmt → Prop
  | .gate n _ args, .gate n' _ args' => n' = n ∧ List.Forall₂ (fun a a' => F a.2 = .ok a'.2) args args'
  | .block par sub it body, .block par' sub' it' body' =>
    sub' = sub ∧ par' = (par && !sub) ∧ (if sub then ∃ c, G it = .ok c ∧ it' = normCount c else it' = .int 1) ∧
      RelList F G body body'
  | .loop c b, .loop c' b' => F c = .ok c' ∧ Rel F G b b'
  | _, _ => False
def RelList (F G : Val → M Val) : List Stmt → List Stmt → Prop
  | [], [] => True
  | s :: ss, s' :: ss' => Rel F G s s' ∧ RelList F G ss ss'
  | _, _ => False
end

mutual
/-- every gate statement carries the definition the gate context binds under the statement's name -/
def Fresh (g : GCtx) : Stmt → Prop
  | .gate n gd _ => ∃ e, g.lookup n = some e ∧ e.toDef = gd
  | .block _ _ _ body => FreshList g body
  | .loop _ b => Fresh g b
def FreshList (g : GCtx) : List Stmt → Prop
  | [] => True
  | s :: ss => Fresh g s ∧ FreshList g ss
end

mutual
theorem Fresh.ext {g g' : GCtx} (hx : GExt g g') : ∀ {s : Stmt}, Fresh g s → Fresh g' s
  | .gate _ _ _, ⟨e, he, hd⟩ => ⟨e, hx _ _ he, hd⟩
  | .block _ _ _ body, h => by simp only [Fresh] at h ⊢; exact FreshList.ext hx h
  | .loop _ b, h => by simp only [Fresh] at h ⊢; exact Fresh.ext hx h
theorem FreshList.ext {g g' : GCtx} (hx : GExt g g') : ∀ {l : List Stmt}, FreshList g l → FreshList g' l
  | [], _ => trivial
  | _ :: _, ⟨h1, h2⟩ => ⟨Fresh.ext hx h1, FreshList.ext hx h2⟩
end

mutual
/-- `rebuild_macro_in_context` leaves a freshly built body alone -/
theorem rebuild_fresh (g : GCtx) : ∀ (s : Stmt), Fresh g s → rebuildStmt g s = .ok (false, s)
  | .gate n gd args, ⟨e, he, hd⟩ => by
    simp only [rebuildStmt, he]
    cases e
    · rfl
    · rename_i m
      simp only [GEntry.toDef] at hd
      subst hd
      simp
      rfl
  | .block par sub it body, h => by
    simp only [Fresh] at h
    simp only [rebuildStmt, rebuildList_fresh g body h, bind, Except.bind]
    rfl
  | .loop c b, h => by
    simp only [Fresh] at h
    simp only [rebuildStmt, rebuild_fresh g b h, bind, Except.bind]
    rfl
theorem rebuildList_fresh (g : GCtx) : ∀ (l : List Stmt), FreshList g l → rebuildList g l = .ok (false, l)
  | [], _ => rfl
  | s :: ss, ⟨h1, h2⟩ => by
    simp only [rebuildList, rebuild_fresh g s h1, rebuildList_fresh g ss h2, bind, Except.bind]
    rfl
end

/-! ### Building the visited statements -/

theorem mapMSt_cons_ok {fA : BSx → St → M (Obj × St)} {x : BSx} {xs : List BSx} {st st2 : St} {os : List Obj}
    (h : mapMSt fA (x :: xs) st = .ok (os, st2)) :
    ∃ o st1 os', fA x st = .ok (o, st1) ∧ mapMSt fA xs st1 = .ok (os', st2) ∧ os = o :: os' := by
  simp only [mapMSt] at h
  obtain ⟨p, hp, h⟩ := bind_ok h
  obtain ⟨o, st1⟩ := p
  obtain ⟨q, hq, h⟩ := bind_ok h
  obtain ⟨os', st2'⟩ := q
  cases h
  exact ⟨o, st1, os', hp, hq, rfl⟩

/-- the gate statement the builder makes of `["gate", name, *visited arguments]` (memo table off) -/
theorem build_gate {cfg : Config} {F : Val → M Val} {ctx : Builder.Ctx} {f : Nat} {name : String}
    {args : List (String × Val)} {es : List BSx} {st st1 : St} {s : Stmt} (hv : visitArgs F args = .ok es)
    (hk : GKeys st.gctx)
    (h : buildGate cfg .off ctx (buildVal ctx f) (.str name :: es) st = .ok (s, st1)) :
    ∃ gd args', s = .gate name gd args' ∧ List.Forall₂ (fun a a' => F a.2 = .ok a'.2) args args' ∧
      Fresh st1.gctx s ∧ GKeys st1.gctx ∧ GExt st.gctx st1.gctx ∧ st1.memo = st.memo := by
  simp only [buildGate, if_true] at h
  obtain ⟨p, hp, h⟩ := bind_ok h
  obtain ⟨s0, g'⟩ := p
  simp only [pure, Except.pure, Except.ok.injEq, Prod.mk.injEq] at h
  obtain ⟨rfl, rfl⟩ := h
  obtain ⟨hx, _, hk', _⟩ := buildGateFresh_known hk hp
  obtain ⟨e, he, _, hcall⟩ := buildGateFresh_ok hp
  obtain ⟨vals, hvals, hc⟩ := bind_ok hcall
  obtain ⟨args', rfl, ha, _⟩ := callDef_args hc
  have hname : e.toDef.name = name := hk' name e he
  have hf := mapM_buildVal_visitArgs hv hvals
  refine ⟨e.toDef, args', by rw [hname], ?_, ?_, hk', hx, rfl⟩
  · rw [← ha] at hf
    clear * - hf
    induction args generalizing args' with
    | nil => cases args' with
      | nil => exact List.Forall₂.nil
      | cons _ _ => cases hf
    | cons a as ih =>
      cases args' with
      | nil => cases hf
      | cons b bs =>
        simp only [List.map_cons, List.forall₂_cons] at hf
        exact List.Forall₂.cons hf.1 (ih _ hf.2)
  · simp only [Fresh]
    exact ⟨e, by rw [hname]; exact he, rfl⟩

theorem asStmts_map (ss : List Stmt) : asStmts (ss.map Obj.stmt) = .ok ss := by
  induction ss with
  | nil => rfl
  | cons s ss ih => simp [asStmts, ih, bind, Except.bind, pure, Except.pure]

mutual
theorem build_visitStmt (cfg : Config) (F G : Val → M Val) : ∀ (s : Stmt) (e : BSx) (f : Nat) (ctx : Builder.Ctx)
    (st st1 : St) (o : Obj), visitStmt F G s = .ok e → GKeys st.gctx → buildAny cfg .off f ctx e st = .ok (o, st1) →
    ∃ s', o = .stmt s' ∧ Rel F G s s' ∧ Fresh st1.gctx s' ∧ GKeys st1.gctx ∧ GExt st.gctx st1.gctx ∧ st1.memo = st.memo
  | .gate name gd args, e, f, ctx, st, st1, o, hv, hk, h => by
    simp only [visitStmt] at hv
    obtain ⟨es, hes, hv⟩ := bind_ok hv
    cases hv
    cases f with
    | zero => simp [buildAny, throw_eq] at h
    | succ f =>
      simp only [buildAny, anyStep, if_true] at h
      obtain ⟨p, hp, h⟩ := bind_ok h
      obtain ⟨s0, st'⟩ := p
      cases h
      obtain ⟨gd', args', rfl, hf, hfr, hk', hx, hm⟩ := build_gate hes hk hp
      exact ⟨_, rfl, ⟨rfl, hf⟩, hfr, hk', hx, hm⟩
  | .block par sub it body, e, f, ctx, st, st1, o, hv, hk, h => by
    simp only [visitStmt] at hv
    obtain ⟨es, hes, hv⟩ := bind_ok hv
    cases f with
    | zero =>
      cases sub
      · simp only [Bool.false_eq_true, if_false, pure, Except.pure] at hv; cases hv
        simp [buildAny, throw_eq] at h
      · simp only [if_true] at hv
        obtain ⟨c, _, hv⟩ := bind_ok hv
        cases hv
        simp [buildAny, throw_eq] at h
    | succ f =>
      cases sub with
      | false =>
        simp only [Bool.false_eq_true, if_false, pure, Except.pure] at hv; cases hv
        cases par with
        | false =>
          simp only [buildAny, anyStep, blockCmd, Bool.false_eq_true, if_false,
            show ("sequential_block" = "gate") = False by decide,
            true_or, if_true] at h
          obtain ⟨p, hp, h⟩ := bind_ok h
          obtain ⟨os, st'⟩ := p
          obtain ⟨ss, hss, hrel, hfr, hk', hx, hm⟩ := build_visitStmts cfg F G body es f _ st st' os hes hk hp
          subst hss
          simp only [asStmts_map, bind, Except.bind, pure, Except.pure] at h
          cases h
          exact ⟨_, rfl, ⟨rfl, rfl, by simp, hrel⟩, by simpa [Fresh] using hfr, hk', hx, hm⟩
        | true =>
          simp only [buildAny, anyStep, blockCmd, if_true,
            show ("parallel_block" = "gate") = False by decide, show ("parallel_block" = "sequential_block") = False by decide,
            show ("parallel_block" = "block") = False by decide,
            false_or, if_false] at h
          obtain ⟨p, hp, h⟩ := bind_ok h
          obtain ⟨os, st'⟩ := p
          obtain ⟨ss, hss, hrel, hfr, hk', hx, hm⟩ := build_visitStmts cfg F G body es f _ st st' os hes hk hp
          subst hss
          simp only [asStmts_map, bind, Except.bind, pure, Except.pure] at h
          cases h
          exact ⟨_, rfl, ⟨rfl, rfl, by simp, hrel⟩, by simpa [Fresh] using hfr, hk', hx, hm⟩
      | true =>
        simp only [if_true] at hv
        obtain ⟨c, hc, hv⟩ := bind_ok hv
        cases hv
        simp only [buildAny, anyStep,
          show ("subcircuit_block" = "gate") = False by decide, show ("subcircuit_block" = "sequential_block") = False by decide,
          show ("subcircuit_block" = "block") = False by decide, show ("subcircuit_block" = "parallel_block") = False by decide,
          show ("subcircuit_block" = "unscheduled_block") = False by decide,
          false_or, if_false, if_true] at h
        split at h
        · simp [throw_eq] at h
        · simp only [List.tail_cons] at h
          obtain ⟨p, hp, h⟩ := bind_ok h
          obtain ⟨os, st'⟩ := p
          obtain ⟨ss, hss, hrel, hfr, hk', hx, hm⟩ := build_visitStmts cfg F G body es f _ st st' os hes hk hp
          subst hss
          simp only [] at h
          obtain ⟨count, hcount, h⟩ := bind_ok h
          obtain ⟨_, _, h⟩ := bind_ok h
          simp only [asStmts_map, bind, Except.bind, pure, Except.pure] at h
          cases h
          have hcnt : count = normCount c := by
            cases c <;> first
              | (simp only [ofVal, buildVal, pure, Except.pure] at hcount; cases hcount; rfl)
              | (simp [ofVal, buildVal, throw_eq] at hcount)
          exact ⟨_, rfl, ⟨rfl, by simp, ⟨c, hc, hcnt⟩, hrel⟩, by simpa [Fresh] using hfr, hk', hx, hm⟩
  | .loop count body, e, f, ctx, st, st1, o, hv, hk, h => by
    simp only [visitStmt] at hv
    obtain ⟨c, hc, hv⟩ := bind_ok hv
    obtain ⟨b, hb, hv⟩ := bind_ok hv
    cases hv
    cases f with
    | zero => simp [buildAny, throw_eq] at h
    | succ f =>
      simp only [buildAny, anyStep,
        show ("loop" = "gate") = False by decide, show ("loop" = "sequential_block") = False by decide,
        show ("loop" = "block") = False by decide, show ("loop" = "parallel_block") = False by decide,
        show ("loop" = "unscheduled_block") = False by decide, show ("loop" = "subcircuit_block") = False by decide,
        false_or, if_false, if_true] at h
      obtain ⟨cv, hcv, h⟩ := bind_ok h
      obtain ⟨p, hp, h⟩ := bind_ok h
      obtain ⟨ob, st'⟩ := p
      obtain ⟨b', rfl, hrel, hfr, hk', hx, hm⟩ := build_visitStmt cfg F G body b f ctx st st' ob hb hk hp
      simp only [] at h
      obtain ⟨_, _, h⟩ := bind_ok h
      simp only [pure, Except.pure] at h
      cases h
      have := buildVal_ofVal hcv
      subst this
      exact ⟨_, rfl, ⟨hc, hrel⟩, by simpa [Fresh] using hfr, hk', hx, hm⟩
theorem build_visitStmts (cfg : Config) (F G : Val → M Val) : ∀ (l : List Stmt) (es : List BSx) (f : Nat) (ctx : Builder.Ctx)
    (st st1 : St) (os : List Obj), visitStmts F G l = .ok es → GKeys st.gctx →
    mapMSt (buildAny cfg .off f ctx) es st = .ok (os, st1) →
    ∃ ss, os = ss.map Obj.stmt ∧ RelList F G l ss ∧ FreshList st1.gctx ss ∧ GKeys st1.gctx ∧ GExt st.gctx st1.gctx ∧
      st1.memo = st.memo
  | [], es, f, ctx, st, st1, os, hv, hk, h => by
    simp only [visitStmts, pure, Except.pure] at hv; cases hv
    simp only [mapMSt, pure, Except.pure] at h; cases h
    exact ⟨[], rfl, trivial, trivial, hk, GExt.refl _, rfl⟩
  | s :: rest, es, f, ctx, st, st1, os, hv, hk, h => by
    simp only [visitStmts] at hv
    obtain ⟨x, hx, hv⟩ := bind_ok hv
    obtain ⟨xs, hxs, hv⟩ := bind_ok hv
    cases hv
    obtain ⟨o, st', os', ho, hos, rfl⟩ := mapMSt_cons_ok h
    obtain ⟨s', rfl, hrel, hfr, hk', hext, hm⟩ := build_visitStmt cfg F G s x f ctx st st' o hx hk ho
    obtain ⟨ss, rfl, hrels, hfrs, hk'', hext', hm'⟩ := build_visitStmts cfg F G rest xs f ctx st' st1 os' hxs hk' hos
    exact ⟨s' :: ss, rfl, ⟨hrel, hrels⟩, ⟨Fresh.ext hext' hfr, hfrs⟩, hk'', GExt.trans hext hext', by rw [hm', hm]⟩
end

end Jaqal.FillIn
