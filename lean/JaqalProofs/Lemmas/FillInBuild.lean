import JaqalModel.Model.FillIn
import JaqalProofs.Lemmas.BuilderNames
import JaqalProofs.Props.C07
/-!
Lemmas for C05 / C06: what `Builder.build` makes of the S-expression the fill-in visitors hand to it.

`Rel F G s s'`: `s'` is `s` with every gate argument and loop count `v` replaced by the value `F v` visits it to, every
subcircuit count by `G`'s, with the same block kinds and subcircuit flags (gate definitions and argument NAMES are those
of the rebuild). `build_visitStmt`: the statement built from `visitStmt F G s` is related to `s`.
-/
namespace Jaqal.FillIn
open Jaqal Jaqal.Builder

/-! ### `AbstractGate.call`: the bound arguments are the arguments, in order -/

theorem odSet_length_le (k : String) (v : Val) : ∀ l : List (String × Val), (odSet k v l).length ≤ l.length + 1 := by
  intro l
  induction l with
  | nil => simp [odSet]
  | cons p l ih =>
    obtain ⟨k', v'⟩ := p
    simp only [odSet]
    split
    · simp
    · simp only [List.length_cons]; omega

theorem odSet_append (k : String) (v : Val) : ∀ l : List (String × Val), (odSet k v l).length = l.length + 1 →
    odSet k v l = l ++ [(k, v)] := by
  intro l
  induction l with
  | nil => intro _; rfl
  | cons p l ih =>
    obtain ⟨k', v'⟩ := p
    simp only [odSet]
    split
    · intro h; simp at h
    · intro h
      simp only [List.length_cons, Nat.add_right_cancel_iff] at h
      simp [ih h]

theorem foldl_odSet_length_le : ∀ (zs init : List (String × Val)),
    (zs.foldl (fun acc p => odSet p.1 p.2 acc) init).length ≤ init.length + zs.length := by
  intro zs
  induction zs with
  | nil => intro init; simp
  | cons z zs ih =>
    intro init
    simp only [List.foldl_cons, List.length_cons]
    have := ih (odSet z.1 z.2 init)
    have := odSet_length_le z.1 z.2 init
    omega

theorem foldl_odSet_append : ∀ (zs init : List (String × Val)),
    (zs.foldl (fun acc p => odSet p.1 p.2 acc) init).length = init.length + zs.length →
    zs.foldl (fun acc p => odSet p.1 p.2 acc) init = init ++ zs := by
  intro zs
  induction zs with
  | nil => intro init _; simp
  | cons z zs ih =>
    intro init h
    simp only [List.foldl_cons, List.length_cons] at h ⊢
    have h1 := foldl_odSet_length_le zs (odSet z.1 z.2 init)
    have h2 := odSet_length_le z.1 z.2 init
    have h3 : (odSet z.1 z.2 init).length = init.length + 1 := by omega
    rw [ih _ (by omega), odSet_append _ _ _ h3]
    simp

/-- a successful `gate_def(*args)` binds the arguments to the parameters in order: the statement's argument values are
exactly `vals` (in particular the parameter names are pairwise distinct and the arity is right) -/
theorem callDef_args {gd : GateDef} {vals : List Val} {s : Stmt} (h : callDef gd vals = .ok s) :
    ∃ args, s = .gate gd.name gd args ∧ args.map (·.2) = vals ∧ args.map (·.1) = gd.params.map (·.1) := by
  unfold callDef at h
  simp only [bind, Except.bind] at h
  split at h
  · simp [throw_eq] at h
  · rename_i hlen
    simp only [pure, Except.pure] at h
    split at h
    · simp [throw_eq] at h
    · rename_i hb
      split at h
      · simp at h
      · cases h
        have hlen' : vals.length ≤ gd.params.length := by omega
        have hz : ((gd.params.map (·.1)).zip vals).length = vals.length := by simp; omega
        have hle := foldl_odSet_length_le ((gd.params.map (·.1)).zip vals) []
        have hb' : gd.params.length = (((gd.params.map (·.1)).zip vals).foldl (fun acc p => odSet p.1 p.2 acc) []).length := by
          simpa using hb
        have heq : vals.length = gd.params.length := by simp only [List.length_nil, Nat.zero_add] at hle; omega
        have := foldl_odSet_append ((gd.params.map (·.1)).zip vals) [] (by simp only [List.length_nil, Nat.zero_add]; omega)
        refine ⟨_, rfl, ?_, ?_⟩
        · rw [this]; simp only [List.nil_append]
          rw [List.map_snd_zip]; simp; omega
        · rw [this]; simp only [List.nil_append]
          rw [List.map_fst_zip]; simp; omega

/-! ### Visited values inside the S-expression -/

theorem buildVal_ofVal {ctx : Builder.Ctx} {f : Nat} {v w : Val} (h : buildVal ctx f (ofVal v) = .ok w) : w = v := by
  cases v <;> simp only [ofVal] at h <;> first
    | (simp only [buildVal, pure, Except.pure] at h; cases h; rfl)
    | (simp [buildVal, throw_eq] at h)

theorem mapM_buildVal_visitArgs {F : Val → M Val} {ctx : Builder.Ctx} {f : Nat} :
    ∀ {args : List (String × Val)} {es : List BSx} {vals : List Val}, visitArgs F args = .ok es →
    es.mapM (buildVal ctx f) = .ok vals → List.Forall₂ (fun a v => F a.2 = .ok v) args vals := by
  intro args
  induction args with
  | nil =>
    intro es vals h1 h2
    simp only [visitArgs, pure, Except.pure] at h1; cases h1
    simp only [List.mapM_nil, pure, Except.pure] at h2; cases h2
    exact List.Forall₂.nil
  | cons a args ih =>
    intro es vals h1 h2
    obtain ⟨n, v⟩ := a
    simp only [visitArgs] at h1
    obtain ⟨v', hv', h1⟩ := bind_ok h1
    obtain ⟨rest, hrest, h1⟩ := bind_ok h1
    cases h1
    simp only [List.mapM_cons] at h2
    obtain ⟨w, hw, h2⟩ := bind_ok h2
    obtain ⟨ws, hws, h2⟩ := bind_ok h2
    cases h2
    have := buildVal_ofVal hw
    subst this
    exact List.Forall₂.cons hv' (ih hrest hws)

/-! ### The relation between a statement and its rebuild -/

/-- the iteration count the builder stores for a visited count: `None` means 1 -/
def normCount : Val → Val
  | .none => .int 1
  | v => v

mutual
def Rel (F G : Val → M Val) : Stmt → Stmt → Prop
  | .gate n _ args, .gate n' _ args' => n' = n ∧ List.Forall₂ (fun a a' => F a.2 = .ok a'.2) args args'
  | .block par sub it body, .block par' sub' it' body' =>
    sub' = sub ∧ par' = (par && !sub) ∧ (if sub then ∃ c, G it = .ok c ∧ it' = normCount c else it' = .int 1) ∧
      RelList F G body body'
  | .loop c b, .loop c' b' => F c = .ok c' ∧ Rel F G b b'
  | _, _ => False
def RelList (F G : Val → M Val) : List Stmt → List Stmt → Prop
  | [], [] => True
  | s :: ss, s' :: ss' => Rel F G s s' ∧ RelList F G ss ss'
  | _, _ => False
end

mutual
/-- every gate statement carries the definition the gate context binds under the statement's name -/
def Fresh (g : GCtx) : Stmt → Prop
  | .gate n gd _ => ∃ e, g.lookup n = some e ∧ e.toDef = gd
  | .block _ _ _ body => FreshList g body
  | .loop _ b => Fresh g b
def FreshList (g : GCtx) : List Stmt → Prop
  | [] => True
  | s :: ss => Fresh g s ∧ FreshList g ss
end

mutual
theorem Fresh.ext {g g' : GCtx} (hx : GExt g g') : ∀ {s : Stmt}, Fresh g s → Fresh g' s
  | .gate _ _ _, ⟨e, he, hd⟩ => ⟨e, hx _ _ he, hd⟩
  | .block _ _ _ body, h => by simp only [Fresh] at h ⊢; exact FreshList.ext hx h
  | .loop _ b, h => by simp only [Fresh] at h ⊢; exact Fresh.ext hx h
theorem FreshList.ext {g g' : GCtx} (hx : GExt g g') : ∀ {l : List Stmt}, FreshList g l → FreshList g' l
  | [], _ => trivial
  | _ :: _, ⟨h1, h2⟩ => ⟨Fresh.ext hx h1, FreshList.ext hx h2⟩
end

mutual
/-- `rebuild_macro_in_context` leaves a freshly built body alone -/
theorem rebuild_fresh (g : GCtx) : ∀ (s : Stmt), Fresh g s → rebuildStmt g s = .ok (false, s)
  | .gate n gd args, ⟨e, he, hd⟩ => by
    simp only [rebuildStmt, he]
    cases e
    · rfl
    · rename_i m
      simp only [GEntry.toDef] at hd
      subst hd
      simp
      rfl
  | .block par sub it body, h => by
    simp only [Fresh] at h
    simp only [rebuildStmt, rebuildList_fresh g body h, bind, Except.bind]
    rfl
  | .loop c b, h => by
    simp only [Fresh] at h
    simp only [rebuildStmt, rebuild_fresh g b h, bind, Except.bind]
    rfl
theorem rebuildList_fresh (g : GCtx) : ∀ (l : List Stmt), FreshList g l → rebuildList g l = .ok (false, l)
  | [], _ => rfl
  | s :: ss, ⟨h1, h2⟩ => by
    simp only [rebuildList, rebuild_fresh g s h1, rebuildList_fresh g ss h2, bind, Except.bind]
    rfl
end

/-! ### Building the visited statements -/

theorem mapMSt_cons_ok {fA : BSx → St → M (Obj × St)} {x : BSx} {xs : List BSx} {st st2 : St} {os : List Obj}
    (h : mapMSt fA (x :: xs) st = .ok (os, st2)) :
    ∃ o st1 os', fA x st = .ok (o, st1) ∧ mapMSt fA xs st1 = .ok (os', st2) ∧ os = o :: os' := by
  simp only [mapMSt] at h
  obtain ⟨p, hp, h⟩ := bind_ok h
  obtain ⟨o, st1⟩ := p
  obtain ⟨q, hq, h⟩ := bind_ok h
  obtain ⟨os', st2'⟩ := q
  cases h
  exact ⟨o, st1, os', hp, hq, rfl⟩

/-- the gate statement the builder makes of `["gate", name, *visited arguments]` (memo table off) -/
theorem build_gate {cfg : Config} {F : Val → M Val} {ctx : Builder.Ctx} {f : Nat} {name : String}
    {args : List (String × Val)} {es : List BSx} {st st1 : St} {s : Stmt} (hv : visitArgs F args = .ok es)
    (hk : GKeys st.gctx)
    (h : buildGate cfg .off ctx (buildVal ctx f) (.str name :: es) st = .ok (s, st1)) :
    ∃ gd args', s = .gate name gd args' ∧ List.Forall₂ (fun a a' => F a.2 = .ok a'.2) args args' ∧
      Fresh st1.gctx s ∧ GKeys st1.gctx ∧ GExt st.gctx st1.gctx ∧ st1.memo = st.memo := by
  simp only [buildGate] at h
  obtain ⟨_, _, h⟩ := bind_ok h
  simp only [buildGateMemo, if_true] at h
  obtain ⟨p, hp, h⟩ := bind_ok h
  obtain ⟨s0, g'⟩ := p
  simp only [pure, Except.pure, Except.ok.injEq, Prod.mk.injEq] at h
  obtain ⟨rfl, rfl⟩ := h
  obtain ⟨hx, _, hk', _⟩ := buildGateFresh_known hk hp
  obtain ⟨e, he, _, hcall⟩ := buildGateFresh_ok hp
  obtain ⟨vals, hvals, hc⟩ := bind_ok hcall
  obtain ⟨args', rfl, ha, _⟩ := callDef_args hc
  have hname : e.toDef.name = name := hk' name e he
  have hf := mapM_buildVal_visitArgs hv hvals
  refine ⟨e.toDef, args', by rw [hname], ?_, ?_, hk', hx, rfl⟩
  · rw [← ha] at hf
    clear * - hf
    induction args generalizing args' with
    | nil => cases args' with
      | nil => exact List.Forall₂.nil
      | cons _ _ => cases hf
    | cons a as ih =>
      cases args' with
      | nil => cases hf
      | cons b bs =>
        simp only [List.map_cons, List.forall₂_cons] at hf
        exact List.Forall₂.cons hf.1 (ih _ hf.2)
  · simp only [Fresh]
    exact ⟨e, by rw [hname]; exact he, rfl⟩

theorem asStmts_map (ss : List Stmt) : asStmts (ss.map Obj.stmt) = .ok ss := by
  induction ss with
  | nil => rfl
  | cons s ss ih => simp [asStmts, ih, bind, Except.bind, pure, Except.pure]

mutual
theorem build_visitStmt (cfg : Config) (F G : Val → M Val) : ∀ (s : Stmt) (e : BSx) (f : Nat) (ctx : Builder.Ctx)
    (st st1 : St) (o : Obj), visitStmt F G s = .ok e → GKeys st.gctx → buildAny cfg .off f ctx e st = .ok (o, st1) →
    ∃ s', o = .stmt s' ∧ Rel F G s s' ∧ Fresh st1.gctx s' ∧ GKeys st1.gctx ∧ GExt st.gctx st1.gctx ∧ st1.memo = st.memo
  | .gate name gd args, e, f, ctx, st, st1, o, hv, hk, h => by
    simp only [visitStmt] at hv
    obtain ⟨es, hes, hv⟩ := bind_ok hv
    cases hv
    cases f with
    | zero => simp [buildAny, throw_eq] at h
    | succ f =>
      simp only [buildAny, anyStep, if_true] at h
      obtain ⟨p, hp, h⟩ := bind_ok h
      obtain ⟨s0, st'⟩ := p
      cases h
      obtain ⟨gd', args', rfl, hf, hfr, hk', hx, hm⟩ := build_gate hes hk hp
      exact ⟨_, rfl, ⟨rfl, hf⟩, hfr, hk', hx, hm⟩
  | .block par sub it body, e, f, ctx, st, st1, o, hv, hk, h => by
    simp only [visitStmt] at hv
    obtain ⟨es, hes, hv⟩ := bind_ok hv
    cases f with
    | zero =>
      cases sub
      · simp only [Bool.false_eq_true, if_false, pure, Except.pure] at hv; cases hv
        simp [buildAny, throw_eq] at h
      · simp only [if_true] at hv
        obtain ⟨c, _, hv⟩ := bind_ok hv
        cases hv
        simp [buildAny, throw_eq] at h
    | succ f =>
      cases sub with
      | false =>
        simp only [Bool.false_eq_true, if_false, pure, Except.pure] at hv; cases hv
        cases par with
        | false =>
          simp only [buildAny, anyStep, blockCmd, Bool.false_eq_true, if_false,
            show ("sequential_block" = "gate") = False by decide,
            true_or, if_true] at h
          obtain ⟨p, hp, h⟩ := bind_ok h
          obtain ⟨os, st'⟩ := p
          obtain ⟨ss, hss, hrel, hfr, hk', hx, hm⟩ := build_visitStmts cfg F G body es f _ st st' os hes hk hp
          subst hss
          simp only [asStmts_map, bind, Except.bind, pure, Except.pure] at h
          cases h
          exact ⟨_, rfl, ⟨rfl, rfl, by simp, hrel⟩, by simpa [Fresh] using hfr, hk', hx, hm⟩
        | true =>
          simp only [buildAny, anyStep, blockCmd, if_true,
            show ("parallel_block" = "gate") = False by decide, show ("parallel_block" = "sequential_block") = False by decide,
            show ("parallel_block" = "block") = False by decide,
            false_or, if_false] at h
          obtain ⟨p, hp, h⟩ := bind_ok h
          obtain ⟨os, st'⟩ := p
          obtain ⟨ss, hss, hrel, hfr, hk', hx, hm⟩ := build_visitStmts cfg F G body es f _ st st' os hes hk hp
          subst hss
          simp only [asStmts_map, bind, Except.bind, pure, Except.pure] at h
          cases h
          exact ⟨_, rfl, ⟨rfl, rfl, by simp, hrel⟩, by simpa [Fresh] using hfr, hk', hx, hm⟩
      | true =>
        simp only [if_true] at hv
        obtain ⟨c, hc, hv⟩ := bind_ok hv
        cases hv
        simp only [buildAny, anyStep,
          show ("subcircuit_block" = "gate") = False by decide, show ("subcircuit_block" = "sequential_block") = False by decide,
          show ("subcircuit_block" = "block") = False by decide, show ("subcircuit_block" = "parallel_block") = False by decide,
          show ("subcircuit_block" = "unscheduled_block") = False by decide,
          false_or, if_false, if_true] at h
        split at h
        · simp [throw_eq] at h
        · simp only [List.tail_cons] at h
          obtain ⟨p, hp, h⟩ := bind_ok h
          obtain ⟨os, st'⟩ := p
          obtain ⟨ss, hss, hrel, hfr, hk', hx, hm⟩ := build_visitStmts cfg F G body es f _ st st' os hes hk hp
          subst hss
          simp only [] at h
          obtain ⟨count, hcount, h⟩ := bind_ok h
          obtain ⟨_, _, h⟩ := bind_ok h
          simp only [asStmts_map, bind, Except.bind, pure, Except.pure] at h
          cases h
          have hcnt : count = normCount c := by
            cases c <;> first
              | (simp only [ofVal, subCount, buildVal, pure, Except.pure] at hcount; cases hcount; rfl)
              | (simp [ofVal, subCount, buildVal, throw_eq] at hcount)
          exact ⟨_, rfl, ⟨rfl, by simp, ⟨c, hc, hcnt⟩, hrel⟩, by simpa [Fresh] using hfr, hk', hx, hm⟩
  | .loop count body, e, f, ctx, st, st1, o, hv, hk, h => by
    simp only [visitStmt] at hv
    obtain ⟨c, hc, hv⟩ := bind_ok hv
    obtain ⟨b, hb, hv⟩ := bind_ok hv
    cases hv
    cases f with
    | zero => simp [buildAny, throw_eq] at h
    | succ f =>
      simp only [buildAny, anyStep,
        show ("loop" = "gate") = False by decide, show ("loop" = "sequential_block") = False by decide,
        show ("loop" = "block") = False by decide, show ("loop" = "parallel_block") = False by decide,
        show ("loop" = "unscheduled_block") = False by decide, show ("loop" = "subcircuit_block") = False by decide,
        false_or, if_false, if_true] at h
      obtain ⟨cv, hcv, h⟩ := bind_ok h
      obtain ⟨p, hp, h⟩ := bind_ok h
      obtain ⟨ob, st'⟩ := p
      obtain ⟨b', rfl, hrel, hfr, hk', hx, hm⟩ := build_visitStmt cfg F G body b f ctx st st' ob hb hk hp
      simp only [] at h
      obtain ⟨_, _, h⟩ := bind_ok h
      simp only [pure, Except.pure] at h
      cases h
      have := buildVal_ofVal hcv
      subst this
      exact ⟨_, rfl, ⟨hc, hrel⟩, by simpa [Fresh] using hfr, hk', hx, hm⟩
theorem build_visitStmts (cfg : Config) (F G : Val → M Val) : ∀ (l : List Stmt) (es : List BSx) (f : Nat) (ctx : Builder.Ctx)
    (st st1 : St) (os : List Obj), visitStmts F G l = .ok es → GKeys st.gctx →
    mapMSt (buildAny cfg .off f ctx) es st = .ok (os, st1) →
    ∃ ss, os = ss.map Obj.stmt ∧ RelList F G l ss ∧ FreshList st1.gctx ss ∧ GKeys st1.gctx ∧ GExt st.gctx st1.gctx ∧
      st1.memo = st.memo
  | [], es, f, ctx, st, st1, os, hv, hk, h => by
    simp only [visitStmts, pure, Except.pure] at hv; cases hv
    simp only [mapMSt, pure, Except.pure] at h; cases h
    exact ⟨[], rfl, trivial, trivial, hk, GExt.refl _, rfl⟩
  | s :: rest, es, f, ctx, st, st1, os, hv, hk, h => by
    simp only [visitStmts] at hv
    obtain ⟨x, hx, hv⟩ := bind_ok hv
    obtain ⟨xs, hxs, hv⟩ := bind_ok hv
    cases hv
    obtain ⟨o, st', os', ho, hos, rfl⟩ := mapMSt_cons_ok h
    obtain ⟨s', rfl, hrel, hfr, hk', hext, hm⟩ := build_visitStmt cfg F G s x f ctx st st' o hx hk ho
    obtain ⟨ss, rfl, hrels, hfrs, hk'', hext', hm'⟩ := build_visitStmts cfg F G rest xs f ctx st' st1 os' hxs hk' hos
    exact ⟨s' :: ss, rfl, ⟨hrel, hrels⟩, ⟨Fresh.ext hext' hfr, hfrs⟩, hk'', GExt.trans hext hext', by rw [hm', hm]⟩
end

/-! ### The circuit level -/

/-- registers, aliases and single-qubit aliases: what `circuit.registers` holds -/
def isRegLike : Val → Bool
  | .regF _ _ => true
  | .regA _ _ => true
  | .regS _ _ _ _ _ => true
  | .qubit _ _ _ => true
  | _ => false

/-- the fields of the accumulator `build_circuit` does not touch when it processes a header object -/
structure SameBut (a a' : Acc) : Prop where
  st : a'.st = a.st
  macros : a'.macros = a.macros
  stmts : a'.stmts = a.stmts
  natives : a'.natives = a.natives

theorem step_usepulses {cfg : Config} {inject : Option (List (String × GateDef))} {f : Nat} {acc acc' : Acc}
    {u : String × String} (ha : cfg.autoload = false)
    (h : circuitStep cfg .off inject f acc (useSx u) = .ok acc') :
    u.2 = "*" ∧ SameBut acc acc' ∧ acc'.usepulses = acc.usepulses ++ [u.1] ∧ acc'.constants = acc.constants ∧
      acc'.registers = acc.registers := by
  unfold circuitStep at h
  obtain ⟨p, hp, h⟩ := bind_ok h
  obtain ⟨o, st⟩ := p
  cases f with
  | zero => simp [useSx, buildAny, throw_eq] at hp
  | succ f =>
    simp only [useSx, buildAny, anyStep,
      show ("usepulses" = "gate") = False by decide, show ("usepulses" = "sequential_block") = False by decide,
      show ("usepulses" = "block") = False by decide, show ("usepulses" = "parallel_block") = False by decide,
      show ("usepulses" = "unscheduled_block") = False by decide, show ("usepulses" = "subcircuit_block") = False by decide,
      show ("usepulses" = "loop") = False by decide, show ("usepulses" = "case") = False by decide,
      show ("usepulses" = "branch") = False by decide, show ("usepulses" = "macro") = False by decide,
      false_or, if_false, if_true] at hp
    by_cases hstar : isStar (.str u.2) = true
    · simp only [hstar, Bool.not_true, Bool.false_eq_true, if_false, bind, Except.bind, pure, Except.pure] at hp
      cases hp
      simp only [stepTail, ha, Bool.false_eq_true, if_false, pure, Except.pure] at h
      cases h
      refine ⟨by simpa [isStar] using hstar, ⟨rfl, rfl, rfl, rfl⟩, rfl, rfl, rfl⟩
    · simp [hstar, throw_eq, bind, Except.bind] at hp

theorem step_val {cfg : Config} {inject : Option (List (String × GateDef))} {f : Nat} {acc acc' : Acc} {v : Val}
    (h : circuitStep cfg .off inject f acc (.val v) = .ok acc') :
    SameBut acc acc' ∧ acc'.usepulses = acc.usepulses ∧
      ((isConst v = true ∧ acc'.constants = acc.constants ++ [v] ∧ acc'.registers = acc.registers) ∨
       (isRegLike v = true ∧ acc'.registers = acc.registers ++ [v] ∧ acc'.constants = acc.constants)) := by
  unfold circuitStep at h
  obtain ⟨p, hp, hs⟩ := bind_ok h
  clear h
  obtain ⟨o, st⟩ := p
  have hp' : buildAny cfg .off f acc.ctx (.val v) acc.st = (do let w ← buildVal acc.ctx f (.val v); pure (.val w, acc.st)) := by
    cases f <;> rfl
  rw [hp'] at hp
  obtain ⟨w, hw, hp⟩ := bind_ok hp
  cases hp
  have hwv : w = v := by
    cases v <;> first | (simp only [buildVal, pure, Except.pure] at hw; cases hw; rfl) | (simp [buildVal, throw_eq] at hw)
  subst hwv
  cases w <;> simp only [stepTail, throw_eq] at hs <;> first
    | (cases hs)
    | (obtain ⟨ctx', _, hs⟩ := bind_ok hs
       simp only [pure, Except.pure] at hs
       cases hs
       first
        | exact ⟨⟨rfl, rfl, rfl, rfl⟩, rfl, Or.inl ⟨rfl, rfl, rfl⟩⟩
        | exact ⟨⟨rfl, rfl, rfl, rfl⟩, rfl, Or.inr ⟨rfl, rfl, rfl⟩⟩)

theorem SameBut.refl (a : Acc) : SameBut a a := ⟨rfl, rfl, rfl, rfl⟩
theorem SameBut.trans {a b c : Acc} (h1 : SameBut a b) (h2 : SameBut b c) : SameBut a c :=
  ⟨h2.st.trans h1.st, h2.macros.trans h1.macros, h2.stmts.trans h1.stmts, h2.natives.trans h1.natives⟩

theorem loop_usepulses {cfg : Config} {inject : Option (List (String × GateDef))} {f : Nat} (ha : cfg.autoload = false) :
    ∀ (us : List (String × String)) (acc acc' : Acc), circuitLoop cfg .off inject f acc (us.map useSx) = .ok acc' →
    (∀ u ∈ us, u.2 = "*") ∧ SameBut acc acc' ∧ acc'.usepulses = acc.usepulses ++ us.map (·.1) ∧
      acc'.constants = acc.constants ∧ acc'.registers = acc.registers := by
  intro us
  induction us with
  | nil =>
    intro acc acc' h
    simp only [List.map_nil, circuitLoop, pure, Except.pure] at h; cases h
    exact ⟨by simp, SameBut.refl _, by simp, rfl, rfl⟩
  | cons u us ih =>
    intro acc acc' h
    simp only [List.map_cons, circuitLoop] at h
    obtain ⟨a1, h1, h⟩ := bind_ok h
    obtain ⟨hu, hs, hup, hc, hr⟩ := step_usepulses ha h1
    obtain ⟨hus, hs', hup', hc', hr'⟩ := ih a1 acc' h
    refine ⟨?_, hs.trans hs', by rw [hup', hup]; simp, hc'.trans hc, hr'.trans hr⟩
    intro x hx
    rcases List.mem_cons.1 hx with rfl | hx
    · exact hu
    · exact hus x hx

theorem loop_consts {cfg : Config} {inject : Option (List (String × GateDef))} {f : Nat} :
    ∀ (vs : List Val) (acc acc' : Acc), (∀ v ∈ vs, isConst v = true) →
    circuitLoop cfg .off inject f acc (vs.map BSx.val) = .ok acc' →
    SameBut acc acc' ∧ acc'.usepulses = acc.usepulses ∧ acc'.constants = acc.constants ++ vs ∧
      acc'.registers = acc.registers := by
  intro vs
  induction vs with
  | nil =>
    intro acc acc' _ h
    simp only [List.map_nil, circuitLoop, pure, Except.pure] at h; cases h
    exact ⟨SameBut.refl _, rfl, by simp, rfl⟩
  | cons v vs ih =>
    intro acc acc' hc h
    simp only [List.map_cons, circuitLoop] at h
    obtain ⟨a1, h1, h⟩ := bind_ok h
    obtain ⟨hs, hup, hcase⟩ := step_val h1
    have hv := hc v (by simp)
    obtain ⟨hs', hup', hcs, hrs⟩ := ih a1 acc' (fun w hw => hc w (by simp [hw])) h
    rcases hcase with ⟨_, h2, h3⟩ | ⟨h2, _, _⟩
    · exact ⟨hs.trans hs', hup'.trans hup, by rw [hcs, h2]; simp, hrs.trans h3⟩
    · cases v <;> simp [isConst, isRegLike] at hv h2

theorem loop_regs {cfg : Config} {inject : Option (List (String × GateDef))} {f : Nat} :
    ∀ (vs : List Val) (acc acc' : Acc), (∀ v ∈ vs, isRegLike v = true) →
    circuitLoop cfg .off inject f acc (vs.map BSx.val) = .ok acc' →
    SameBut acc acc' ∧ acc'.usepulses = acc.usepulses ∧ acc'.registers = acc.registers ++ vs ∧
      acc'.constants = acc.constants := by
  intro vs
  induction vs with
  | nil =>
    intro acc acc' _ h
    simp only [List.map_nil, circuitLoop, pure, Except.pure] at h; cases h
    exact ⟨SameBut.refl _, rfl, by simp, rfl⟩
  | cons v vs ih =>
    intro acc acc' hc h
    simp only [List.map_cons, circuitLoop] at h
    obtain ⟨a1, h1, h⟩ := bind_ok h
    obtain ⟨hs, hup, hcase⟩ := step_val h1
    have hv := hc v (by simp)
    obtain ⟨hs', hup', hrs, hcs⟩ := ih a1 acc' (fun w hw => hc w (by simp [hw])) h
    rcases hcase with ⟨h2, _, _⟩ | ⟨_, h2, h3⟩
    · cases v <;> simp [isConst, isRegLike] at hv h2
    · exact ⟨hs.trans hs', hup'.trans hup, by rw [hrs, h2]; simp, hcs.trans h3⟩

/-! ### Macros and statements at circuit level -/

/-- `visit_Macro` of either visitor -/
def visitMacro (F G : Val → M Val) (m : Macro) : M BSx := do
  let b ← visitStmt F G m.body
  pure (macroSx m b)

def MacroRel (F G : Val → M Val) (m m' : Macro) : Prop :=
  m'.name = m.name ∧ m'.params = m.params.map (fun p => (p.1, Kind.none)) ∧ Rel F G m.body m'.body

theorem mapM_macroParam : ∀ (ps : List (String × Kind)),
    (ps.map (fun p => BSx.str p.1)).mapM macroParam = .ok (ps.map (fun p => (p.1, Kind.none))) := by
  intro ps
  induction ps with
  | nil => rfl
  | cons p ps ih => simp [List.mapM_cons, macroParam, ih, bind, Except.bind, pure, Except.pure]

/-- the fields of the accumulator the body phase does not touch -/
structure SameHdr (a a' : Acc) : Prop where
  constants : a'.constants = a.constants
  registers : a'.registers = a.registers
  usepulses : a'.usepulses = a.usepulses
  natives : a'.natives = a.natives

theorem SameHdr.refl (a : Acc) : SameHdr a a := ⟨rfl, rfl, rfl, rfl⟩
theorem SameHdr.trans {a b c : Acc} (h1 : SameHdr a b) (h2 : SameHdr b c) : SameHdr a c :=
  ⟨h2.constants.trans h1.constants, h2.registers.trans h1.registers, h2.usepulses.trans h1.usepulses,
    h2.natives.trans h1.natives⟩

theorem step_macro {cfg : Config} {inject : Option (List (String × GateDef))} {f : Nat} {acc acc' : Acc}
    {F G : Val → M Val} {m : Macro} {e : BSx} (hv : visitMacro F G m = .ok e) (hk : GKeys acc.st.gctx)
    (h : circuitStep cfg .off inject f acc e = .ok acc') :
    ∃ m', acc'.macros = acc.macros ++ [m'] ∧ MacroRel F G m m' ∧ GKeys acc'.st.gctx ∧
      GExt acc.st.gctx acc'.st.gctx ∧ acc'.stmts = acc.stmts ∧ SameHdr acc acc' := by
  unfold visitMacro at hv
  obtain ⟨b, hb, hv⟩ := bind_ok hv
  simp only [pure, Except.pure] at hv
  cases hv
  unfold circuitStep at h
  obtain ⟨p, hp, hs⟩ := bind_ok h
  clear h
  obtain ⟨o, st⟩ := p
  cases f with
  | zero => simp [macroSx, buildAny, throw_eq] at hp
  | succ f =>
    have hlen : ¬ (BSx.str m.name :: (m.params.map (fun p => BSx.str p.1) ++ [b])).length < 2 := by simp
    simp only [macroSx, buildAny, anyStep,
      show ("macro" = "gate") = False by decide, show ("macro" = "sequential_block") = False by decide,
      show ("macro" = "block") = False by decide, show ("macro" = "parallel_block") = False by decide,
      show ("macro" = "unscheduled_block") = False by decide, show ("macro" = "subcircuit_block") = False by decide,
      show ("macro" = "loop") = False by decide, show ("macro" = "case") = False by decide,
      show ("macro" = "branch") = False by decide, false_or, if_false, if_true, hlen, strOf, pure_bind,
      List.dropLast_concat, List.getLast?_concat] at hp
    by_cases hl : (List.lookup m.name acc.st.gctx).isSome = true
    · simp [hl, throw_eq, bind, Except.bind] at hp
    · simp only [hl, Bool.false_eq_true, if_false, mapM_macroParam, bind, Except.bind, pure, Except.pure] at hp
      cases hb' : buildAny cfg .off f (acc.ctx.withParams (m.params.map (fun p => (p.1, Kind.none)))) b acc.st with
      | error err => simp [hb'] at hp
      | ok q =>
        obtain ⟨ob, st'⟩ := q
        simp only [hb'] at hp
        obtain ⟨body', rfl, hrel, hfr, hk', hx, hm⟩ := build_visitStmt cfg F G m.body b f _ acc.st st' ob hb hk hb'
        cases body' with
        | block par sub it body =>
          simp only [Except.ok.injEq, Prod.mk.injEq] at hp
          obtain ⟨rfl, rfl⟩ := hp
          simp only [stepTail, rebuildMacro, rebuild_fresh _ _ hfr, bind, Except.bind, pure, Except.pure,
            Bool.false_eq_true, if_false] at hs
          have hl' : ¬ (List.lookup m.name st'.gctx).isSome = true := by
            intro hc
            simp only [throw_eq, hc, if_true] at hs
            cases hs
          simp only [hl', Bool.false_eq_true, if_false] at hs
          cases hs
          refine ⟨_, rfl, ⟨rfl, rfl, hrel⟩, ?_, ?_, rfl, ⟨rfl, rfl, rfl, rfl⟩⟩
          · intro n e he
            simp only [List.lookup] at he
            split at he
            · cases he
              rename_i heq
              simpa [GEntry.toDef] using (beq_iff_eq.1 heq).symm
            · exact hk' n e he
          · intro n e he
            have he' := hx n e he
            simp only [List.lookup]
            split
            · rename_i heq
              have : n = m.name := beq_iff_eq.1 heq
              subst this
              rw [he'] at hl'
              simp at hl'
            · exact he'
        | gate _ _ _ => simp [throw_eq] at hp
        | loop _ _ => simp [throw_eq] at hp

theorem step_stmt {cfg : Config} {inject : Option (List (String × GateDef))} {f : Nat} {acc acc' : Acc}
    {F G : Val → M Val} {s : Stmt} {e : BSx} (hv : visitStmt F G s = .ok e) (hk : GKeys acc.st.gctx)
    (h : circuitStep cfg .off inject f acc e = .ok acc') :
    ∃ s', acc'.stmts = acc.stmts ++ [s'] ∧ Rel F G s s' ∧ GKeys acc'.st.gctx ∧
      GExt acc.st.gctx acc'.st.gctx ∧ acc'.macros = acc.macros ∧ SameHdr acc acc' := by
  unfold circuitStep at h
  obtain ⟨p, hp, hs⟩ := bind_ok h
  clear h
  obtain ⟨o, st⟩ := p
  obtain ⟨s', rfl, hrel, _, hk', hx, _⟩ := build_visitStmt cfg F G s e f _ acc.st st o hv hk hp
  simp only [stepTail, pure, Except.pure] at hs
  cases hs
  exact ⟨s', rfl, hrel, hk', hx, rfl, ⟨rfl, rfl, rfl, rfl⟩⟩

theorem loop_macros {cfg : Config} {inject : Option (List (String × GateDef))} {f : Nat} {Fm : Macro → Val → M Val}
    {G : Val → M Val} :
    ∀ (ms : List Macro) (es : List BSx) (acc acc' : Acc), ms.mapM (fun m => visitMacro (Fm m) G m) = .ok es →
    GKeys acc.st.gctx → circuitLoop cfg .off inject f acc es = .ok acc' →
    ∃ ms', acc'.macros = acc.macros ++ ms' ∧ List.Forall₂ (fun m m' => MacroRel (Fm m) G m m') ms ms' ∧
      GKeys acc'.st.gctx ∧
      acc'.stmts = acc.stmts ∧ SameHdr acc acc' := by
  intro ms
  induction ms with
  | nil =>
    intro es acc acc' hv hk h
    simp only [List.mapM_nil, pure, Except.pure] at hv; cases hv
    simp only [circuitLoop, pure, Except.pure] at h; cases h
    exact ⟨[], by simp, List.Forall₂.nil, hk, rfl, SameHdr.refl _⟩
  | cons m ms ih =>
    intro es acc acc' hv hk h
    simp only [List.mapM_cons] at hv
    obtain ⟨e, he, hv⟩ := bind_ok hv
    obtain ⟨es', hes', hv⟩ := bind_ok hv
    cases hv
    simp only [circuitLoop] at h
    obtain ⟨a1, h1, h⟩ := bind_ok h
    obtain ⟨m', hm, hrel, hk1, _, hst, hh⟩ := step_macro he hk h1
    obtain ⟨ms', hms, hrels, hk2, hst', hh'⟩ := ih es' a1 acc' hes' hk1 h
    exact ⟨m' :: ms', by rw [hms, hm]; simp, List.Forall₂.cons hrel hrels, hk2, hst'.trans hst, hh.trans hh'⟩

theorem loop_stmts {cfg : Config} {inject : Option (List (String × GateDef))} {f : Nat} {F G : Val → M Val} :
    ∀ (l : List Stmt) (es : List BSx) (acc acc' : Acc), visitStmts F G l = .ok es → GKeys acc.st.gctx →
    circuitLoop cfg .off inject f acc es = .ok acc' →
    ∃ ss, acc'.stmts = acc.stmts ++ ss ∧ RelList F G l ss ∧ GKeys acc'.st.gctx ∧
      acc'.macros = acc.macros ∧ SameHdr acc acc' := by
  intro l
  induction l with
  | nil =>
    intro es acc acc' hv hk h
    simp only [visitStmts, pure, Except.pure] at hv; cases hv
    simp only [circuitLoop, pure, Except.pure] at h; cases h
    exact ⟨[], by simp, trivial, hk, rfl, SameHdr.refl _⟩
  | cons s l ih =>
    intro es acc acc' hv hk h
    simp only [visitStmts] at hv
    obtain ⟨e, he, hv⟩ := bind_ok hv
    obtain ⟨es', hes', hv⟩ := bind_ok hv
    cases hv
    simp only [circuitLoop] at h
    obtain ⟨a1, h1, h⟩ := bind_ok h
    obtain ⟨s', hs, hrel, hk1, _, hmac, hh⟩ := step_stmt he hk h1
    obtain ⟨ss, hss, hrels, hk2, hmac', hh'⟩ := ih es' a1 acc' hes' hk1 h
    exact ⟨s' :: ss, by rw [hss, hs]; simp, ⟨hrel, hrels⟩, hk2, hmac'.trans hmac, hh.trans hh'⟩

/-! ### The whole rebuild -/

/-- what the rebuild makes of the circuit-level S-expression of either visitor (`F`: the visitor on the values of the
body, `Fm m`: on those of the body of macro `m` — `MapFiller` knows the parameter names of the macro it visits) -/
structure Rebuilt (F : Val → M Val) (Fm : Macro → Val → M Val) (G : Val → M Val) (c : Circuit) (regs : List Val)
    (body : List Stmt) (c' : Circuit) : Prop where
  usepulses : c'.usepulses = c.usepulses
  constants : c'.constants = c.constants
  registers : c'.registers = regs
  macros : List.Forall₂ (fun m m' => MacroRel (Fm m) G m m') c.macros c'.macros
  body : ∃ ss, c'.body = .block false false (.int 1) ss ∧ RelList F G body ss
  natives : (c.natives = [] ∧ c'.natives = []) ∨
    (c.natives ≠ [] ∧ ∃ d, normNatives c.natives = .ok d ∧ c'.natives = d.map (·.2))

theorem build_circuitSx {F : Val → M Val} {Fm : Macro → Val → M Val} {G : Val → M Val} {c c' : Circuit}
    {regs : List Val} {body : List Stmt} {em es : List BSx}
    (hm : c.macros.mapM (fun m => visitMacro (Fm m) G m) = .ok em) (hs : visitStmts F G body = .ok es)
    (hc : ∀ v ∈ c.constants, isConst v = true) (hr : ∀ v ∈ regs, isRegLike v = true)
    (h : build (rebuildCfg c) (circuitSx c regs em es) = .ok c') : Rebuilt F Fm G c regs body c' := by
  rw [C07_memo_transparent] at h
  unfold buildNoMemo buildWith at h
  obtain ⟨inject, hinj, h⟩ := bind_ok h
  simp only [circuitSx, buildCore] at h
  obtain ⟨acc, hloop, h⟩ := bind_ok h
  simp only [pure, Except.pure] at h
  cases h
  -- the injected gate set
  have hnat : (c.natives = [] ∧ inject = none) ∨ (c.natives ≠ [] ∧ ∃ d, normNatives c.natives = .ok d ∧ inject = some d) := by
    unfold Config.inject rebuildCfg at hinj
    cases hn : c.natives with
    | nil => simp [hn, pure, Except.pure] at hinj; exact Or.inl ⟨rfl, hinj.symm⟩
    | cons g gs =>
      simp only [hn, List.isEmpty_cons, Bool.false_eq_true, if_false] at hinj
      obtain ⟨d, hd, hinj⟩ := bind_ok hinj
      simp only [pure, Except.pure] at hinj
      cases hinj
      exact Or.inr ⟨by simp, d, hd, rfl⟩
  have hk0 : GKeys ((inject.getD []).map (fun p => (p.1, GEntry.gdef p.2))) := by
    intro n e hl
    rcases hnat with ⟨_, rfl⟩ | ⟨_, d, hd, rfl⟩
    · simp at hl
    · obtain ⟨g, rfl, hmem⟩ := lookup_map_wrapG (l := d) hl
      exact (normNatives_natOK hd).keys _ hmem
  -- the five phases
  rw [circuitLoop_append] at hloop
  obtain ⟨a4, h4', h5⟩ := bind_ok hloop
  rw [circuitLoop_append] at h4'
  obtain ⟨a3, h3', h4⟩ := bind_ok h4'
  rw [circuitLoop_append] at h3'
  obtain ⟨a2, h2', h3⟩ := bind_ok h3'
  rw [circuitLoop_append] at h2'
  obtain ⟨a1, h1, h2⟩ := bind_ok h2'
  obtain ⟨hstar, s1, u1, c1, r1⟩ := loop_usepulses (by rfl) _ _ _ h1
  obtain ⟨s2, u2, c2, r2⟩ := loop_consts _ _ _ hc h2
  obtain ⟨s3, u3, r3, c3⟩ := loop_regs _ _ _ hr h3
  have hk3 : GKeys a3.st.gctx := by rw [s3.st, s2.st, s1.st]; exact hk0
  obtain ⟨ms', hms, hmrel, hk4, st4, hh4⟩ := loop_macros _ _ _ _ hm hk3 h4
  obtain ⟨ss, hss, hsrel, _, mac5, hh5⟩ := loop_stmts _ _ _ _ hs hk4 h5
  refine ⟨?_, ?_, ?_, ?_, ?_, ?_⟩
  · simp only [Acc.toCircuit]
    rw [hh5.usepulses, hh4.usepulses, u3, u2, u1]
    simp only [List.nil_append, List.map_map]
    conv => rhs; rw [← List.map_id c.usepulses]
    apply List.map_congr_left
    intro u hu
    have := hstar u hu
    obtain ⟨a, b⟩ := u
    simp only [] at this
    simp [this]
  · simp only [Acc.toCircuit]
    rw [hh5.constants, hh4.constants, c3, c2, c1]; simp
  · simp only [Acc.toCircuit]
    rw [hh5.registers, hh4.registers, r3, r2, r1]; simp
  · simp only [Acc.toCircuit]
    rw [mac5, hms, s3.macros, s2.macros, s1.macros]; simpa using hmrel
  · refine ⟨ss, ?_, hsrel⟩
    simp only [Acc.toCircuit]
    rw [hss, st4, s3.stmts, s2.stmts, s1.stmts]; simp
  · simp only [Acc.toCircuit]
    rw [hh5.natives, hh4.natives, s3.natives, s2.natives, s1.natives]
    rcases hnat with ⟨hn, rfl⟩ | ⟨hn, d, hd, rfl⟩
    · exact Or.inl ⟨hn, rfl⟩
    · exact Or.inr ⟨hn, d, hd, rfl⟩

end Jaqal.FillIn
