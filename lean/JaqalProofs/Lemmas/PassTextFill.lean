import JaqalProofs.Lemmas.PassTextMacros
/-!
# Text of a pass result, layer A — the two fill-in passes, through `FillIn.Rebuilt`

`fill_in_let` / `fill_in_map` rebuild the circuit through the builder; `FillIn.Rebuilt` (`Lemmas/FillInBuild.lean`) inverts
the rebuild: the statement tree is kept up to `par' = par && !sub`, the values are the visitors' images (`Rel F G`).

* `rel_okIn` / `rel_okItems` (generic in the visitors): `Rel F G` keeps `okItems`, if `F` keeps `okArg` of arguments and
  `okRef` of loop counts and `G` keeps `okRef` of subcircuit counts.
* `map_printable`: **`fill_in_map` keeps a legal printable circuit printable** (`MapFiller` leaves every int / let /
  parameter alone, does not visit subcircuit counts, and does not touch the registers).
* `rebuilt_printable` reduces layer A of `fill_in_let` to: the visited counts are still `okRef` and the visited registers
  still `okRegister` / `okMap`.  That is NOT a property of `letVal` alone: a let resolves to a NUMBER (`resolveConstant`), and
  that the rebuild refuses a non-integer count / size is a fact about the builder that `Rel` does not carry (open).
-/
set_option linter.unusedVariables false
set_option linter.unusedSimpArgs false
namespace Jaqal.PassText
open Jaqal Jaqal.Pipeline Jaqal.RoundTrip Jaqal.FillIn

section rel
variable {F G : Val → M Val}

theorem rel_okArgs (hF : ∀ v v', okArg v = true → F v = .ok v' → okArg v' = true) :
    ∀ (a a' : List (String × Val)), List.Forall₂ (fun a a' => F a.2 = .ok a'.2) a a' → okArgs a = true → okArgs a' = true
  | [], [], _, _ => rfl
  | x :: r, x' :: r', h, ho => by
    cases h with
    | cons h1 h2 =>
      simp only [okArgs, Bool.and_eq_true] at ho ⊢
      exact ⟨hF _ _ ho.1 h1, rel_okArgs hF r r' h2 ho.2⟩
  | [], _ :: _, h, _ => by cases h
  | _ :: _, [], h, _ => by cases h

mutual
theorem rel_okIn (hF : ∀ v v', okArg v = true → F v = .ok v' → okArg v' = true)
    (hFc : ∀ c c', okRef c = true → F c = .ok c' → okRef c' = true)
    (hG : ∀ it c, okRef it = true → G it = .ok c → okRef (normCount c) = true) :
    ∀ (s s' : Stmt) (par : Bool), Rel F G s s' → okIn par s = true → okIn par s' = true
  | .gate n gd a, .gate n' gd' a', par, h, ho => by
    simp only [Rel] at h
    rw [okIn_gate] at ho ⊢
    exact rel_okArgs hF a a' h.2 ho
  | .loop c b, .loop c' b', par, h, ho => by
    simp only [Rel] at h
    obtain ⟨hc, hb⟩ := h
    rw [okIn_loop] at ho
    cases b with
    | gate _ _ _ => simp at ho
    | loop _ _ => simp at ho
    | block q sub it bb =>
      simp only [Bool.and_eq_true, Bool.not_eq_true'] at ho
      obtain ⟨⟨⟨p1, p2⟩, p3⟩, p4⟩ := ho
      subst p3
      cases b' with
      | gate _ _ _ => simp [Rel] at hb
      | loop _ _ => simp [Rel] at hb
      | block q' sub' it' bb' =>
        have ih := rel_okIn hF hFc hG (.block q false it bb) (.block q' sub' it' bb') false hb
          (by rw [okIn_block_plain]; exact p4)
        simp only [Rel] at hb
        obtain ⟨hs, hq, _, _⟩ := hb
        subst hs
        rw [okIn_block_plain] at ih
        rw [okIn_loop]
        simp [p1, hFc _ _ p2 hc, ih]
  | .block q sub it bb, .block q' sub' it' bb', par, h, ho => by
    simp only [Rel] at h
    obtain ⟨hs, hq, hit, hbb⟩ := h
    cases sub with
    | true =>
      subst hs
      rw [okIn_block_sub] at ho
      simp only [Bool.and_eq_true, Bool.not_eq_true'] at ho
      obtain ⟨⟨⟨p1, p2⟩, p3⟩, p4⟩ := ho
      simp only [if_true] at hit
      obtain ⟨cc, hcc, rfl⟩ := hit
      have : q' = false := by simpa using hq
      subst this
      rw [okIn_block_sub]
      simp [p1, hG _ _ p3 hcc, rel_okItems hF hFc hG bb bb' false hbb p4]
    | false =>
      subst hs
      have : q' = q := by simpa using hq
      subst this
      rw [okIn_block_plain] at ho ⊢
      exact rel_okItems hF hFc hG bb bb' q' hbb ho
  | .gate _ _ _, .block _ _ _ _, _, h, _ | .gate _ _ _, .loop _ _, _, h, _
  | .block _ _ _ _, .gate _ _ _, _, h, _ | .block _ _ _ _, .loop _ _, _, h, _
  | .loop _ _, .gate _ _ _, _, h, _ | .loop _ _, .block _ _ _ _, _, h, _ => by simp [Rel] at h
theorem rel_okItems (hF : ∀ v v', okArg v = true → F v = .ok v' → okArg v' = true)
    (hFc : ∀ c c', okRef c = true → F c = .ok c' → okRef c' = true)
    (hG : ∀ it c, okRef it = true → G it = .ok c → okRef (normCount c) = true) :
    ∀ (l l' : List Stmt) (par : Bool), RelList F G l l' → okItems par l = true → okItems par l' = true
  | [], [], par, _, _ => okItems_nil par
  | s :: r, s' :: r', par, h, ho => by
    simp only [RelList] at h
    rw [okItems_cons, Bool.and_eq_true] at ho
    rw [okItems_cons, rel_okIn hF hFc hG s s' par h.1 ho.1, rel_okItems hF hFc hG r r' par h.2 ho.2]
    rfl
  | [], _ :: _, _, h, _ | _ :: _, [], _, h, _ => by simp [RelList] at h
end

theorem macroRel_ok (hF : ∀ v v', okArg v = true → F v = .ok v' → okArg v' = true)
    (hFc : ∀ c c', okRef c = true → F c = .ok c' → okRef c' = true)
    (hG : ∀ it c, okRef it = true → G it = .ok c → okRef (normCount c) = true) {m m' : Macro}
    (h : MacroRel F G m m') (ho : okMacro m = true) : okMacro m' = true := by
  obtain ⟨_, _, hb⟩ := h
  unfold okMacro at ho ⊢
  cases hm : m.body with
  | gate _ _ _ => simp [hm] at ho
  | loop _ _ => simp [hm] at ho
  | block q sub it bb =>
    simp only [hm, Bool.and_eq_true, Bool.not_eq_true'] at ho
    obtain ⟨h1, h2⟩ := ho
    subst h1
    rw [hm] at hb
    cases hm' : m'.body with
    | gate _ _ _ => simp [hm', Rel] at hb
    | loop _ _ => simp [hm', Rel] at hb
    | block q' sub' it' bb' =>
      rw [hm'] at hb
      have ih := rel_okIn hF hFc hG _ _ false hb (by rw [okIn_block_plain]; exact h2)
      simp only [Rel] at hb
      obtain ⟨hs, _, _, _⟩ := hb
      subst hs
      rw [okIn_block_plain] at ih
      simp [ih]

end rel

/-- **layer A through the rebuild**, generic in the visitors: if the visitors keep `okArg` / `okRef` and the rebuilt
registers are still declarable, the rebuilt circuit is printable -/
theorem rebuilt_printable {F G : Val → M Val} {Fm : Macro → Val → M Val} {c c' : Circuit} {regs : List Val}
    {body : List Stmt} (hr : Rebuilt F Fm G c regs body c') (hbody : c.body = .block false false (.int 1) body)
    (hF : ∀ v v', okArg v = true → F v = .ok v' → okArg v' = true)
    (hFc : ∀ c c', okRef c = true → F c = .ok c' → okRef c' = true)
    (hFm : ∀ m v v', okArg v = true → Fm m v = .ok v' → okArg v' = true)
    (hFmc : ∀ m c c', okRef c = true → Fm m c = .ok c' → okRef c' = true)
    (hG : ∀ it c, okRef it = true → G it = .ok c → okRef (normCount c) = true)
    (hregs : regs.all (fun r => if isFund r then okRegister r else okMap r) = true)
    (hp : printable c = true) : printable c' = true := by
  simp only [Pipeline.printable, Bool.and_eq_true] at hp ⊢
  obtain ⟨⟨⟨⟨h1, h2⟩, h3⟩, h4⟩, h5⟩ := hp
  obtain ⟨ss, hc', hrel⟩ := hr.body
  rw [hr.usepulses, hr.constants, hr.registers, hc']
  rw [hbody] at h5
  simp only [] at h5 ⊢
  rw [all_okTop] at h5 ⊢
  refine ⟨⟨⟨⟨h1, h2⟩, hregs⟩, ?_⟩, rel_okItems hF hFc hG body ss false hrel h5⟩
  simp only [List.all_eq_true] at h4 ⊢
  intro m' hm'
  obtain ⟨m, hm, hmr⟩ := forall₂_right hr.macros m' hm'
  exact macroRel_ok (hFm m) (hFmc m) hG hmr (h4 m hm)

/-! ## `fill_in_map` -/

theorem mapVal_okArg (mps : List String) {v v' : Val} (hv : okArg v = true) (h : mapVal mps v = .ok v') :
    okArg v' = true := by
  cases v with
  | qubit n src idx =>
    simp only [mapVal] at h
    obtain ⟨⟨reg, k⟩, _, h⟩ := bnd h
    split at h
    · cases h
    · unfold FillIn.getItem at h
      split at h
      · cases h
      · split at h
        · cases h
        · split at h
          · rename_i hq
            unfold Builder.mkQubit at h
            obtain ⟨_, _, h⟩ := bnd h
            simp only [pure, Except.pure, Except.ok.injEq] at h; subst h; rfl
          · obtain ⟨_, _, h⟩ := bnd h
            cases h
  | regA _ _ => cases h
  | regS _ _ _ _ _ => cases h
  | _ => simp only [mapVal, pure, Except.pure, Except.ok.injEq] at h; subst h; exact hv

theorem mapVal_okRef (mps : List String) {v v' : Val} (hv : okRef v = true) (h : mapVal mps v = .ok v') :
    okRef v' = true := by
  cases v <;> simp [okRef] at hv <;>
    (simp only [mapVal, pure, Except.pure, Except.ok.injEq] at h; subst h; rfl)

/-- **layer A for `fill_in_map`**: a legal printable circuit stays printable -/
theorem map_printable {c c' : Circuit} (hL : Passes.Legal c) (hp : printable c = true)
    (h : Passes.apply .map c = .ok c') : printable c' = true := by
  have h' : fillInMap c = .ok c' := h
  obtain ⟨bs, hbs, hr⟩ := fillInMap_rebuilt hL.wf2 h'
  refine rebuilt_printable hr hbs (fun v v' => mapVal_okArg []) (fun v v' => mapVal_okRef [])
    (fun m v v' => mapVal_okArg _) (fun m v v' => mapVal_okRef _) ?_ ?_ hp
  · intro it cc hit hcc
    simp only [pure, Except.pure, Except.ok.injEq] at hcc
    subst hcc
    cases it <;> simp [okRef] at hit <;> rfl
  · simp only [Pipeline.printable, Bool.and_eq_true] at hp
    exact hp.1.1.2

end Jaqal.PassText
