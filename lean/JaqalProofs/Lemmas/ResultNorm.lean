import Mathlib.Algebra.Order.Field.Rat
import Mathlib.Tactic.Linarith
import JaqalModel.Model.Result
/-! Lemmas about the clip / renormalise model (`normalize`) over `Rat`. -/
namespace Jaqal.Result

theorem cutoffWarn_nonneg : (0 : Rat) ≤ cutoffWarn := by unfold cutoffWarn; norm_num
theorem cutoffWarn_le_fail : cutoffWarn ≤ cutoffFail := by unfold cutoffWarn cutoffFail; norm_num
theorem cutoffFail_lt_one : cutoffFail < 1 := by unfold cutoffFail; norm_num

theorem clip01_nonneg (x : Rat) : 0 ≤ clip01 x := by
  unfold clip01; split_ifs <;> linarith
theorem clip01_le_one (x : Rat) : clip01 x ≤ 1 := by
  unfold clip01; split_ifs <;> linarith
theorem clip01_id {x : Rat} (h0 : 0 ≤ x) (h1 : x ≤ 1) : clip01 x = x := by
  unfold clip01; rw [if_neg (not_lt.mpr h0), if_neg (not_lt.mpr h1)]

theorem absR_eq_abs (x : Rat) : absR x = |x| := by
  unfold absR; split_ifs with h
  · exact (abs_of_neg h).symm
  · exact (abs_of_nonneg (not_lt.mp h)).symm
theorem absR_nonneg (x : Rat) : 0 ≤ absR x := by rw [absR_eq_abs]; exact abs_nonneg x

theorem pyMax_eq_max (a b : Rat) : pyMax a b = max a b := by
  unfold pyMax; split_ifs with h
  · exact (max_eq_right h.le).symm
  · exact (max_eq_left (not_lt.mp h)).symm

theorem foldl_max_ge (xs : List Rat) : ∀ x : Rat,
    x ≤ xs.foldl (fun m y => if m < y then y else m) x ∧
    (∀ y ∈ xs, y ≤ xs.foldl (fun m y => if m < y then y else m) x) ∧
    (xs.foldl (fun m y => if m < y then y else m) x = x ∨ xs.foldl (fun m y => if m < y then y else m) x ∈ xs) := by
  induction xs with
  | nil => intro x; simp
  | cons a xs ih =>
    intro x
    simp only [List.foldl_cons, List.mem_cons, forall_eq_or_imp]
    obtain ⟨h1, h2, h3⟩ := ih (if x < a then a else x)
    refine ⟨?_, ⟨?_, h2⟩, ?_⟩
    · refine le_trans ?_ h1; split_ifs with h <;> linarith
    · refine le_trans ?_ h1; split_ifs with h <;> linarith
    · rcases h3 with h3 | h3
      · rw [h3]; split_ifs <;> simp
      · exact Or.inr (Or.inr h3)

/-- `maxList` is the maximum: an element of the list that bounds every element. -/
theorem maxList_spec {l : List Rat} {m : Rat} (h : maxList l = some m) : m ∈ l ∧ ∀ y ∈ l, y ≤ m := by
  cases l with
  | nil => simp [maxList] at h
  | cons x xs =>
    simp only [maxList, Option.some.injEq] at h
    obtain ⟨h1, h2, h3⟩ := foldl_max_ge xs x
    rw [h] at h1 h2 h3
    refine ⟨?_, ?_⟩
    · rcases h3 with h3 | h3
      · rw [h3]; exact List.mem_cons_self ..
      · exact List.mem_cons_of_mem _ h3
    · intro y hy
      rcases List.mem_cons.mp hy with rfl | hy
      · exact h1
      · exact h2 y hy

theorem maxList_eq_none {l : List Rat} : maxList l = none ↔ l = [] := by
  cases l <;> simp [maxList]

theorem clipErr_eq_none {p : List Rat} : clipErr p = none ↔ p = [] := by
  unfold clipErr; rw [maxList_eq_none]; simp

theorem clipErr_nonneg {p : List Rat} {ce : Rat} (h : clipErr p = some ce) : 0 ≤ ce := by
  obtain ⟨hm, -⟩ := maxList_spec h
  obtain ⟨x, -, rfl⟩ := List.mem_map.mp hm
  exact absR_nonneg _

theorem clipErr_of_unit {p : List Rat} (hp : p ≠ []) (h : ∀ x ∈ p, 0 ≤ x ∧ x ≤ 1) : clipErr p = some 0 := by
  cases hc : clipErr p with
  | none => exact absurd (clipErr_eq_none.mp hc) hp
  | some ce =>
    obtain ⟨hm, -⟩ := maxList_spec hc
    obtain ⟨x, hx, rfl⟩ := List.mem_map.mp hm
    rw [clip01_id (h x hx).1 (h x hx).2]; simp [absR]

theorem clipped_of_unit {p : List Rat} (h : ∀ x ∈ p, 0 ≤ x ∧ x ≤ 1) : clipped p = p := by
  unfold clipped
  conv => rhs; rw [← List.map_id p]
  apply List.map_congr_left
  intro x hx; exact clip01_id (h x hx).1 (h x hx).2

theorem sum_nonneg_of {l : List Rat} (h : ∀ x ∈ l, 0 ≤ x) : 0 ≤ l.sum := by
  induction l with
  | nil => simp
  | cons a l ih =>
    rw [List.sum_cons]
    have := h a (List.mem_cons_self ..)
    have := ih (fun x hx => h x (List.mem_cons_of_mem _ hx))
    linarith

theorem sum_map_div (l : List Rat) (t : Rat) : (l.map (· / t)).sum = l.sum / t := by
  induction l with
  | nil => simp
  | cons a l ih => simp [List.sum_cons, ih, add_div]

theorem total_nonneg (p : List Rat) : 0 ≤ total p := by
  unfold total clipped
  apply sum_nonneg_of
  intro x hx
  obtain ⟨y, -, rfl⟩ := List.mem_map.mp hx
  exact clip01_nonneg y

/-- the stored vector, uniformly: the clipped vector divided by its sum
(when `total_err = 0` the sum is one and the code skips the division). -/
def renorm (p : List Rat) : List Rat := (clipped p).map (· / total p)

theorem renorm_of_total_one {p : List Rat} (h : total p = 1) : renorm p = clipped p := by
  unfold renorm; rw [h]; simp

theorem totalErr_eq_zero {p : List Rat} : ¬ 0 < totalErr p ↔ total p = 1 := by
  unfold totalErr; rw [absR_eq_abs, not_lt]
  constructor
  · intro h
    have := abs_nonneg (total p - 1)
    have h0 : |total p - 1| = 0 := le_antisymm h this
    have := abs_eq_zero.mp h0
    linarith
  · intro h; rw [h]; simp

/-- Full characterisation of the constructor on non-degenerate input. -/
theorem normalize_eq (p : List Rat) :
    normalize p =
      match normErr p with
      | none => .error "value"
      | some err =>
        if cutoffFail < err then .error "runtime"
        else .ok (renorm p, decide (cutoffWarn < err)) := by
  unfold normalize normErr
  cases hc : clipErr p with
  | none => rfl
  | some ce =>
    simp only [Option.map_some]
    have hce := clipErr_nonneg hc
    by_cases ht : total p = 0
    · rw [if_pos ht]
      have h1 : totalErr p = 1 := by unfold totalErr; rw [ht, absR_eq_abs]; norm_num
      have : cutoffFail < pyMax (totalErr p) ce := by
        rw [pyMax_eq_max, h1]
        exact lt_of_lt_of_le cutoffFail_lt_one (le_max_left _ _)
      rw [if_pos this]
    · rw [if_neg ht]
      have hq : (if 0 < totalErr p then (clipped p).map (· / total p) else clipped p) = renorm p := by
        split_ifs with h
        · rfl
        · exact (renorm_of_total_one (totalErr_eq_zero.mp h)).symm
      simp only [hq]
      by_cases hf : cutoffFail < pyMax (totalErr p) ce
      · have hw : cutoffWarn < pyMax (totalErr p) ce := lt_of_le_of_lt cutoffWarn_le_fail hf
        rw [if_pos hw, if_pos hf, if_pos hf]
      · rw [if_neg hf, if_neg hf]
        by_cases hw : cutoffWarn < pyMax (totalErr p) ce
        · rw [if_pos hw]; simp [hw]
        · rw [if_neg hw]; simp [hw]

theorem normErr_total_zero {p : List Rat} {e : Rat} (h : normErr p = some e) (ht : total p = 0) : 1 ≤ e := by
  unfold normErr at h
  cases hc : clipErr p with
  | none => rw [hc] at h; simp at h
  | some ce =>
    rw [hc] at h
    simp only [Option.map_some, Option.some.injEq] at h
    rw [← h, pyMax_eq_max]
    have h1 : totalErr p = 1 := by unfold totalErr; rw [ht, absR_eq_abs]; norm_num
    rw [h1]; exact le_max_left _ _

theorem renorm_spec {p : List Rat} (ht : total p ≠ 0) :
    (∀ x ∈ renorm p, 0 ≤ x) ∧ (renorm p).sum = 1 ∧ (renorm p).length = p.length := by
  have hpos : 0 < total p := lt_of_le_of_ne (total_nonneg p) (Ne.symm ht)
  refine ⟨?_, ?_, ?_⟩
  · intro x hx
    unfold renorm clipped at hx
    rw [List.map_map] at hx
    obtain ⟨y, -, rfl⟩ := List.mem_map.mp hx
    exact div_nonneg (clip01_nonneg y) hpos.le
  · unfold renorm; rw [sum_map_div]; exact div_self ht
  · simp [renorm, clipped]

end Jaqal.Result
