import JaqalProofs.Lemmas.LexerSpec
/-!
Locality of the lexer: a token (or comment) recognised in front of some following text is recognised in
the same way when that following text is replaced by text that starts with an "inert" character (blank,
tab, `/`, newline), i.e. one that cannot continue any token.
-/
namespace Jaqal.Lexer

/-- A character that continues no token rule (newline is treated separately for NL and `//`). -/
structure InertC (c : Char) : Prop where
  notAlnum : isAlnum_ c = false
  notDot : c ≠ '.'
  notSign : isSign c = false
  notQuote : c ≠ '\''

theorem InertC.notDigit {c} (h : InertC c) : isDigit c = false := by
  have := h.notAlnum
  simp only [isAlnum_, Bool.or_eq_false_iff] at this
  exact this.2

theorem InertC.notAlpha {c} (h : InertC c) : isAlpha_ c = false := by
  have := h.notAlnum
  simp only [isAlnum_, Bool.or_eq_false_iff] at this
  exact this.1

theorem InertC.notE {c} (h : InertC c) : (c = 'e' || c = 'E') = false := by
  have := h.notAlpha
  cases h1 : (c = 'e' || c = 'E') with
  | false => rfl
  | true =>
    simp only [Bool.or_eq_true, decide_eq_true_eq] at h1
    rcases h1 with rfl | rfl <;> simp [isAlpha_] at this

theorem InertC.notBit {c} (h : InertC c) : (c = '0' || c = '1') = false := by
  have := h.notDigit
  cases h1 : (c = '0' || c = '1') with
  | false => rfl
  | true =>
    simp only [Bool.or_eq_true, decide_eq_true_eq] at h1
    rcases h1 with rfl | rfl <;> simp [isDigit] at this

theorem inert_space : InertC ' ' := ⟨by decide, by decide, by decide, by decide⟩
theorem inert_tab : InertC '\t' := ⟨by decide, by decide, by decide, by decide⟩
theorem inert_slash : InertC '/' := ⟨by decide, by decide, by decide, by decide⟩
theorem inert_nl : InertC '\n' := ⟨by decide, by decide, by decide, by decide⟩

/-! ## The scanning primitives -/

theorem spanP_length (p : Char → Bool) (cs : List Char) : (spanP p cs).2.length ≤ cs.length := by
  have := congrArg List.length (spanP_append p cs)
  simp at this; omega

theorem spanP_stable {p : Char → Bool} {c : Char} (hc : p c = false) (y y' : List Char) :
    ∀ (x m r : List Char), spanP p (x ++ y) = (m, r) → y.length ≤ r.length →
      ∃ x1, x = m ++ x1 ∧ r = x1 ++ y ∧ spanP p (x ++ c :: y') = (m, x1 ++ c :: y') := by
  intro x
  induction x with
  | nil =>
    intro m r h hl
    have hr := spanP_eq h
    have : m = [] := by
      have := congrArg List.length hr
      simp at this
      exact List.eq_nil_of_length_eq_zero (by omega)
    subst this
    simp only [List.nil_append] at hr
    subst hr
    exact ⟨[], rfl, rfl, by simp [spanP, hc]⟩
  | cons d x ih =>
    intro m r h hl
    simp only [List.cons_append, spanP] at h ⊢
    split at h
    · rename_i hd
      simp only [Prod.mk.injEq] at h
      obtain ⟨rfl, hr⟩ := h
      subst hr
      obtain ⟨x1, h1, h2, h3⟩ := ih _ _ rfl hl
      refine ⟨x1, by simp only [List.cons_append]; exact congrArg _ h1, h2, ?_⟩
      simp only [hd, if_true, h3]
    · rename_i hd
      simp only [Prod.mk.injEq] at h
      obtain ⟨rfl, rfl⟩ := h
      exact ⟨d :: x, rfl, rfl, by simp [hd]⟩

/-- A scan that stops strictly before the boundary does not depend on what follows the boundary. -/
theorem spanP_stable_strict {p : Char → Bool} (y y' : List Char) :
    ∀ (x m r : List Char), spanP p (x ++ y) = (m, r) → y.length < r.length →
      ∃ x1, x = m ++ x1 ∧ r = x1 ++ y ∧ spanP p (x ++ y') = (m, x1 ++ y') := by
  intro x
  induction x with
  | nil =>
    intro m r h hl
    have := spanP_length p y
    simp only [List.nil_append] at h
    rw [h] at this
    simp at this; omega
  | cons d x ih =>
    intro m r h hl
    simp only [List.cons_append, spanP] at h ⊢
    split at h
    · rename_i hd
      simp only [Prod.mk.injEq] at h
      obtain ⟨rfl, hr⟩ := h
      subst hr
      obtain ⟨x1, h1, h2, h3⟩ := ih _ _ rfl hl
      refine ⟨x1, by simp only [List.cons_append]; exact congrArg _ h1, h2, ?_⟩
      simp only [hd, if_true, h3]
    · rename_i hd
      simp only [Prod.mk.injEq] at h
      obtain ⟨rfl, rfl⟩ := h
      exact ⟨d :: x, rfl, rfl, by simp [hd]⟩

/-- A scan that runs past the boundary takes everything before it. -/
theorem spanP_overrun {p : Char → Bool} {c : Char} (hc : p c = false) (y y' : List Char) :
    ∀ (x m r : List Char), spanP p (x ++ y) = (m, r) → r.length < y.length →
      spanP p (x ++ c :: y') = (x, c :: y') := by
  intro x
  induction x with
  | nil => intro m r h hl; simp [spanP, hc]
  | cons d x ih =>
    intro m r h hl
    simp only [List.cons_append, spanP] at h ⊢
    split at h
    · rename_i hd
      simp only [Prod.mk.injEq] at h
      obtain ⟨rfl, hr⟩ := h
      subst hr
      simp only [hd, if_true, ih _ _ rfl hl]
    · simp only [Prod.mk.injEq] at h
      obtain ⟨rfl, rfl⟩ := h
      simp at hl; omega

theorem optSign_stable {c : Char} (hc : isSign c = false) (y y' : List Char) (x m r : List Char)
    (h : optSign (x ++ y) = (m, r)) (hl : y.length ≤ r.length) :
    ∃ x1, x = m ++ x1 ∧ r = x1 ++ y ∧ optSign (x ++ c :: y') = (m, x1 ++ c :: y') := by
  cases x with
  | nil =>
    simp only [List.nil_append] at h ⊢
    cases y with
    | nil => simp only [optSign] at h; cases h; exact ⟨[], rfl, rfl, by simp [optSign, hc]⟩
    | cons d y =>
      simp only [optSign] at h
      split at h
      · cases h; simp at hl; omega
      · cases h; exact ⟨[], rfl, rfl, by simp [optSign, hc]⟩
  | cons d x =>
    simp only [List.cons_append, optSign] at h ⊢
    split at h
    · rename_i hd; cases h; exact ⟨x, rfl, rfl, by simp [hd]⟩
    · rename_i hd; cases h; exact ⟨d :: x, rfl, rfl, by simp [hd]⟩

theorem identTail_length (cs : List Char) : (identTail cs).2.length ≤ cs.length := by
  have := congrArg List.length (identTail_append cs)
  simp at this; omega

theorem identTail_stable {c : Char} (hc : InertC c) (y y' : List Char) :
    ∀ (n : Nat) (x m r : List Char), x.length ≤ n → identTail (x ++ y) = (m, r) → y.length ≤ r.length →
      ∃ x1, x = m ++ x1 ∧ r = x1 ++ y ∧ identTail (x ++ c :: y') = (m, x1 ++ c :: y') := by
  intro n
  induction n with
  | zero =>
    intro x m r hx h hl
    have : x = [] := List.eq_nil_of_length_eq_zero (by omega)
    subst this
    have hr := identTail_append y
    simp only [List.nil_append] at h
    rw [h] at hr
    have : m = [] := by
      have := congrArg List.length hr
      simp at this
      exact List.eq_nil_of_length_eq_zero (by omega)
    subst this
    simp only [List.nil_append] at hr
    subst hr
    refine ⟨[], rfl, rfl, ?_⟩
    rw [identTail.eq_def]
    simp [hc.notAlnum, hc.notDot]
  | succ n ih =>
    intro x m r hx h hl
    cases x with
    | nil => exact ih [] m r (by simp) h hl
    | cons d x =>
      simp only [List.cons_append] at h ⊢
      rw [identTail.eq_def] at h ⊢
      simp only at h ⊢
      split at h
      · rename_i hd
        simp only [Prod.mk.injEq] at h
        obtain ⟨rfl, hr⟩ := h
        subst hr
        obtain ⟨x1, h1, h2, h3⟩ := ih x _ _ (by simp at hx; omega) rfl hl
        refine ⟨x1, by simp only [List.cons_append]; exact congrArg _ h1, h2, ?_⟩
        simp only [hd, if_true, h3]
      · rename_i hd
        split at h
        · rename_i hdot
          subst hdot
          cases x with
          | nil =>
            simp only [List.nil_append] at h ⊢
            cases y with
            | nil =>
              simp only at h
              cases h
              exact ⟨['.'], rfl, rfl, by simp [hd, hc.notAlnum]⟩
            | cons e y =>
              simp only at h
              split at h
              · simp only [Prod.mk.injEq] at h
                obtain ⟨rfl, hr⟩ := h
                have := identTail_length y
                rw [hr] at this
                simp at hl; omega
              · cases h
                exact ⟨['.'], rfl, rfl, by simp [hd, hc.notAlnum]⟩
          | cons e x =>
            simp only [List.cons_append] at h ⊢
            split at h
            · rename_i he
              simp only [Prod.mk.injEq] at h
              obtain ⟨rfl, hr⟩ := h
              subst hr
              obtain ⟨x1, h1, h2, h3⟩ := ih x _ _ (by simp at hx; omega) rfl hl
              refine ⟨x1, by simp only [List.cons_append]; exact congrArg _ (congrArg _ h1), h2, ?_⟩
              simp only [hd, he, if_true, h3]
              simp
            · rename_i he
              cases h
              exact ⟨'.' :: e :: x, rfl, rfl, by simp [hd, he]⟩
        · rename_i hdot
          cases h
          exact ⟨d :: x, rfl, rfl, by simp [hd, hdot]⟩

/-! ## Failure decided by the first character -/

theorem mNL_none_of_head {d : Char} (cs : List Char) (h : d ≠ '\n') : mNL (d :: cs) = none := by
  simp [mNL, spanP, h]

theorem mNL_head {cs m r} (h : mNL cs = some (m, r)) : ∃ cs', cs = '\n' :: cs' := by
  cases cs with
  | nil => simp [mNL, spanP] at h
  | cons d cs =>
    by_cases hd : d = '\n'
    · exact ⟨cs, by rw [hd]⟩
    · rw [mNL_none_of_head cs hd] at h; cases h

theorem mIdent_none_of_head {d : Char} (cs : List Char) (h : isAlpha_ d = false) : mIdent (d :: cs) = none := by
  simp [mIdent, h]

theorem mDotIdent_none_of_head {d : Char} (cs : List Char) (h : d ≠ '.') : mDotIdent (d :: cs) = none := by
  simp [mDotIdent, h]

theorem mBinInt_none_of_head {d : Char} (cs : List Char) (h : d ≠ '\'') : mBinInt (d :: cs) = none := by
  simp [mBinInt, h]

theorem mNumber_none_of_head {d : Char} (cs : List Char) (h1 : isSign d = false) (h2 : isDigit d = false)
    (h3 : d ≠ '.') : mNumber (d :: cs) = none := by
  simp [mNumber, optSign, spanP, h1, h2, h3]

theorem mInt_none_of_head {d : Char} (cs : List Char) (h1 : isSign d = false) (h2 : isDigit d = false) :
    mInt (d :: cs) = none := by
  simp [mInt, optSign, spanP, h1, h2]

/-! ## Stability of the token rules -/

theorem mNL_stable {c : Char} {x y y' m r : List Char} (hc : c ≠ '\n' ∨ y.length < r.length)
    (h : mNL (x ++ y) = some (m, r)) (hl : y.length ≤ r.length) :
    ∃ x1, x = m ++ x1 ∧ r = x1 ++ y ∧ mNL (x ++ c :: y') = some (m, x1 ++ c :: y') := by
  unfold mNL at h ⊢
  split at h
  · cases h
  · rename_i rr hne
    simp only [Option.some.injEq] at h
    have key : ∃ x1, x = m ++ x1 ∧ r = x1 ++ y ∧ spanP (· = '\n') (x ++ c :: y') = (m, x1 ++ c :: y') := by
      rcases hc with hc | hc
      · exact spanP_stable (p := (· = '\n')) (c := c) (by simp [hc]) y y' x m r h hl
      · exact spanP_stable_strict (p := (· = '\n')) y (c :: y') x m r h hc
    obtain ⟨x1, h1, h2, h3⟩ := key
    refine ⟨x1, h1, h2, ?_⟩
    rw [h3]
    have : m ≠ [] := by
      intro hm; subst hm; exact hne r h
    cases m with
    | nil => exact absurd rfl this
    | cons a m => rfl

theorem mIdent_stable {c : Char} (hc : InertC c) {x y y' m r : List Char} (h : mIdent (x ++ y) = some (m, r))
    (hl : y.length ≤ r.length) :
    ∃ x1, x = m ++ x1 ∧ r = x1 ++ y ∧ mIdent (x ++ c :: y') = some (m, x1 ++ c :: y') := by
  cases x with
  | nil =>
    obtain ⟨hm, hcs⟩ := mIdent_consumes h
    have := congrArg List.length hcs
    have : 0 < m.length := List.length_pos_iff.2 hm
    simp at *; omega
  | cons d x =>
    simp only [List.cons_append, mIdent] at h ⊢
    split at h
    · rename_i hd
      simp only [Option.some.injEq, Prod.mk.injEq] at h
      obtain ⟨rfl, hr⟩ := h
      subst hr
      obtain ⟨x1, h1, h2, h3⟩ := identTail_stable hc y y' x.length x _ _ (Nat.le_refl _) rfl hl
      refine ⟨x1, by simp only [List.cons_append]; exact congrArg _ h1, h2, ?_⟩
      simp only [hd, if_true, h3]
    · cases h

theorem mDotIdent_stable {c : Char} (hc : InertC c) {x y y' m r : List Char}
    (h : mDotIdent (x ++ y) = some (m, r)) (hl : y.length ≤ r.length) :
    ∃ x1, x = m ++ x1 ∧ r = x1 ++ y ∧ mDotIdent (x ++ c :: y') = some (m, x1 ++ c :: y') := by
  cases x with
  | nil =>
    obtain ⟨hm, hcs⟩ := mDotIdent_consumes h
    have := congrArg List.length hcs
    have : 0 < m.length := List.length_pos_iff.2 hm
    simp at *; omega
  | cons d x =>
    simp only [List.cons_append, mDotIdent] at h ⊢
    split at h
    · rename_i hd
      split at h
      · rename_i rr hr
        simp only [Option.some.injEq, Prod.mk.injEq] at h
        obtain ⟨rfl, hr2⟩ := h
        obtain ⟨x1, h1, h2, h3⟩ := mIdent_stable hc (y' := y') (m := rr.1) (r := rr.2) hr (by rw [hr2]; exact hl)
        refine ⟨x1, by simp only [List.cons_append]; exact congrArg _ h1, by rw [← hr2]; exact h2, ?_⟩
        simp only [hd, if_true, h3]
      · rename_i hr
        simp only [Option.some.injEq, Prod.mk.injEq] at h
        obtain ⟨rfl, rfl⟩ := h
        refine ⟨x, rfl, rfl, ?_⟩
        simp only [hd, if_true]
        have : mIdent (x ++ c :: y') = none := by
          cases x with
          | nil => exact mIdent_none_of_head _ hc.notAlpha
          | cons e x =>
            simp only [List.cons_append, mIdent] at hr ⊢
            split at hr
            · cases hr
            · rename_i he; simp [he]
        rw [this]
    · cases h


theorem optSign_length (cs : List Char) : (optSign cs).2.length ≤ cs.length := by
  have := congrArg List.length (optSign_append cs)
  simp at this; omega

theorem mExponent_stable {c : Char} (hc : InertC c) {x y y' es ed r : List Char}
    (h : mExponent (x ++ y) = some (es, ed, r)) (hl : y.length ≤ r.length) :
    ∃ x1, r = x1 ++ y ∧ mExponent (x ++ c :: y') = some (es, ed, x1 ++ c :: y') := by
  cases x with
  | nil =>
    have := (mExponent_consumes h).length
    simp at this; omega
  | cons d x =>
    simp only [List.cons_append, mExponent] at h ⊢
    split at h
    · rename_i hd
      split at h
      · cases h
      · rename_i ds rr hne hsp
        simp only [Option.some.injEq, Prod.mk.injEq] at h
        obtain ⟨rfl, rfl, rfl⟩ := h
        have hl2 : y.length ≤ (optSign (x ++ y)).2.length := by
          have := spanP_length isDigit (optSign (x ++ y)).2
          rw [hsp] at this; simp at this; omega
        obtain ⟨x1, h1, h2, h3⟩ := optSign_stable hc.notSign y y' x (optSign (x ++ y)).1 (optSign (x ++ y)).2 rfl hl2
        rw [h2] at hsp
        obtain ⟨x2, h4, h5, h6⟩ := spanP_stable hc.notDigit y y' x1 _ _ hsp hl
        refine ⟨x2, h5, ?_⟩
        simp only [hd, if_true, h3, h6]
    · cases h

theorem mExponent_none_stable {c : Char} (hc : InertC c) {x y y' : List Char}
    (h : mExponent (x ++ y) = none) : mExponent (x ++ c :: y') = none := by
  cases x with
  | nil => simp [mExponent, hc.notE]
  | cons d x =>
    simp only [List.cons_append, mExponent] at h ⊢
    split at h
    · rename_i hd
      simp only [hd, if_true]
      split at h
      · rename_i rr hsp
        -- no digit after the optional sign
        by_cases hw : y.length ≤ (optSign (x ++ y)).2.length
        · obtain ⟨x1, h1, h2, h3⟩ := optSign_stable hc.notSign y y' x (optSign (x ++ y)).1 (optSign (x ++ y)).2 rfl hw
          rw [h2] at hsp
          have hl : y.length ≤ rr.length := by
            have := spanP_append isDigit (x1 ++ y)
            rw [hsp] at this
            simp only [List.nil_append] at this
            rw [← this]; simp
          obtain ⟨x2, h4, h5, h6⟩ := spanP_stable hc.notDigit y y' x1 _ _ hsp hl
          simp only [h3, h6]
        · -- the sign is the first character after the boundary
          have hx : x = [] := by
            cases x with
            | nil => rfl
            | cons e x =>
              exfalso; apply hw
              simp only [List.cons_append, optSign]
              split <;> simp <;> omega
          subst hx
          simp [optSign, hc.notSign, spanP, hc.notDigit]
      · cases h
    · rename_i hd
      simp [hd]


theorem mNumber_stable {c : Char} (hc : InertC c) {x y y' : List Char} {n : NumLit} {r : List Char}
    (h : mNumber (x ++ y) = some (n, r)) (hl : y.length ≤ r.length) :
    ∃ x1, r = x1 ++ y ∧ mNumber (x ++ c :: y') = some (n, x1 ++ c :: y') := by
  unfold mNumber at h ⊢
  simp only at h ⊢
  split at h
  · rename_i d r1 hi
    split at h
    · rename_i hd
      split at h
      · cases h
      · rename_i fd rest0 hne hsp
        -- lengths: every stage ends before the boundary
        have l0 := spanP_length isDigit r1
        rw [hsp] at l0; simp only at l0
        have l1 := spanP_length isDigit (optSign (x ++ y)).2
        rw [hi] at l1; simp only [List.length_cons] at l1
        have hrl : r.length ≤ rest0.length := by
          split at h
          · rename_i es ed rest' hex
            have := (mExponent_consumes hex).length
            simp only [Option.some.injEq, Prod.mk.injEq] at h
            rw [← h.2]; omega
          · simp only [Option.some.injEq, Prod.mk.injEq] at h
            rw [← h.2]; omega
        obtain ⟨x1, h1, h2, h3⟩ := optSign_stable hc.notSign y y' x (optSign (x ++ y)).1 (optSign (x ++ y)).2
          rfl (by omega)
        obtain ⟨x2, h4, h5, h6⟩ := spanP_stable hc.notDigit y y' x1
          (spanP isDigit (x1 ++ y)).1 (spanP isDigit (x1 ++ y)).2 rfl (by rw [← h2, hi]; simp; omega)
        rw [h2] at hi
        rw [hi] at h5
        -- the dot lies before the boundary
        cases x2 with
        | nil =>
          simp only [List.nil_append] at h5
          rw [← h5] at hl; simp at hl; omega
        | cons d' x3 =>
          simp only [List.cons_append, List.cons.injEq] at h5
          obtain ⟨rfl, rfl⟩ := h5
          obtain ⟨x4, h7, h8, h9⟩ := spanP_stable hc.notDigit y y' x3 fd rest0 hsp (by omega)
          subst h8
          simp only [h3, h6, List.cons_append, hd, if_true, h9]
          split at h
          · rename_i es ed rest' hex
            simp only [Option.some.injEq, Prod.mk.injEq] at h
            obtain ⟨rfl, rfl⟩ := h
            obtain ⟨x5, h10, h11⟩ := mExponent_stable hc (y' := y') hex hl
            refine ⟨x5, h10, ?_⟩
            cases fd with
            | nil => exact absurd rfl hne
            | cons a fd => simp only [h11, h2]
          · rename_i hex
            simp only [Option.some.injEq, Prod.mk.injEq] at h
            obtain ⟨rfl, rfl⟩ := h
            refine ⟨x4, rfl, ?_⟩
            cases fd with
            | nil => exact absurd rfl hne
            | cons a fd => simp only [mExponent_none_stable hc hex, h2]
    · cases h
  · cases h


/-- Either the optional sign is decided before the boundary, or nothing precedes the boundary. -/
theorem optSign_cases (x y : List Char) : y.length ≤ (optSign (x ++ y)).2.length ∨ x = [] := by
  cases x with
  | nil => exact Or.inr rfl
  | cons e x =>
    left
    simp only [List.cons_append, optSign]
    split <;> simp <;> omega

theorem mNumber_none_stable {c : Char} (hc : InertC c) {x y y' : List Char}
    (h : mNumber (x ++ y) = none) : mNumber (x ++ c :: y') = none := by
  rcases optSign_cases x y with hw | rfl
  · obtain ⟨x1, h1, h2, h3⟩ := optSign_stable hc.notSign y y' x (optSign (x ++ y)).1 (optSign (x ++ y)).2 rfl hw
    unfold mNumber at h ⊢
    simp only at h ⊢
    rw [h3]; rw [h2] at h
    simp only
    -- the integer digits
    by_cases hw2 : y.length ≤ (spanP isDigit (x1 ++ y)).2.length
    · obtain ⟨x2, h4, h5, h6⟩ := spanP_stable hc.notDigit y y' x1 _ _ rfl hw2
      rw [h6]; rw [h5] at h
      simp only
      cases x2 with
      | nil => simp [hc.notDot]
      | cons d x3 =>
        simp only [List.cons_append] at h ⊢
        split at h
        · rename_i hd
          simp only [hd, if_true]
          split at h
          · rename_i rr hsp
            have hl : y.length ≤ rr.length := by
              have := spanP_append isDigit (x3 ++ y)
              rw [hsp] at this
              simp only [List.nil_append] at this
              rw [← this]; simp
            obtain ⟨x4, h7, h8, h9⟩ := spanP_stable hc.notDigit y y' x3 _ _ hsp hl
            rw [h9]
          · split at h <;> cases h
        · rename_i hd
          simp [hd]
    · have := spanP_overrun hc.notDigit y y' x1 _ _ rfl (by omega)
      rw [this]
      simp [hc.notDot]
  · simp only [List.nil_append]
    exact mNumber_none_of_head _ hc.notSign hc.notDigit hc.notDot

theorem mInt_stable {c : Char} (hc : InertC c) {x y y' s ds r : List Char}
    (h : mInt (x ++ y) = some (s, ds, r)) (hl : y.length ≤ r.length) :
    ∃ x1, r = x1 ++ y ∧ mInt (x ++ c :: y') = some (s, ds, x1 ++ c :: y') := by
  unfold mInt at h ⊢
  simp only at h ⊢
  split at h
  · cases h
  · rename_i ds' rr hne hsp
    simp only [Option.some.injEq, Prod.mk.injEq] at h
    obtain ⟨rfl, rfl, rfl⟩ := h
    have l1 := spanP_length isDigit (optSign (x ++ y)).2
    rw [hsp] at l1; simp only at l1
    obtain ⟨x1, h1, h2, h3⟩ := optSign_stable hc.notSign y y' x (optSign (x ++ y)).1 (optSign (x ++ y)).2
      rfl (by omega)
    rw [h2] at hsp
    obtain ⟨x2, h4, h5, h6⟩ := spanP_stable hc.notDigit y y' x1 _ _ hsp hl
    refine ⟨x2, h5, ?_⟩
    rw [h3]; simp only [h6]

theorem mBinInt_stable {c : Char} (hc : InertC c) {x y y' ds r : List Char}
    (h : mBinInt (x ++ y) = some (ds, r)) (hl : y.length ≤ r.length) :
    ∃ x1, r = x1 ++ y ∧ mBinInt (x ++ c :: y') = some (ds, x1 ++ c :: y') := by
  cases x with
  | nil =>
    have := (mBinInt_consumes h).length
    simp at this; omega
  | cons d x =>
    simp only [List.cons_append, mBinInt] at h ⊢
    split at h
    · rename_i hd
      split at h
      · cases h
      · rename_i ds' q rest hne hsp
        split at h
        · rename_i hq
          simp only [Option.some.injEq, Prod.mk.injEq] at h
          obtain ⟨rfl, rfl⟩ := h
          obtain ⟨x1, h1, h2, h3⟩ := spanP_stable (p := fun d => d = '0' || d = '1') hc.notBit y y' x _ _ hsp
            (by simp; omega)
          cases x1 with
          | nil =>
            simp only [List.nil_append] at h2
            rw [← h2] at hl; simp at hl; omega
          | cons q' x2 =>
            simp only [List.cons_append, List.cons.injEq] at h2
            obtain ⟨rfl, rfl⟩ := h2
            refine ⟨x2, rfl, ?_⟩
            simp only [hd, if_true, h3, List.cons_append, hq]
        · cases h
      · cases h
    · cases h


theorem mComment_length {cs r} (h : mComment cs = some r) : r.length + 2 ≤ cs.length := by
  unfold mComment at h
  split at h
  · rename_i a b cs'
    split at h
    · cases h
      have := spanP_length (· ≠ '\n') cs'
      simp only [List.length_cons]; omega
    · cases h
  · cases h

/-- A `//` comment that ends strictly before the boundary does not depend on what follows; one that ends
at the boundary stays the same when a newline follows. -/
theorem mComment_stable {x y y' r : List Char} (h : mComment (x ++ y) = some r)
    (hl : y.length < r.length ∨ (y.length ≤ r.length ∧ ∃ y'', y' = '\n' :: y'')) :
    ∃ x1, r = x1 ++ y ∧ mComment (x ++ y') = some (x1 ++ y') := by
  have hlen := mComment_length h
  have hle : y.length ≤ r.length := by rcases hl with h1 | h1 <;> omega
  match x, h with
  | [], h => simp at hlen; omega
  | [a], h => simp at hlen; omega
  | a :: b :: x, h =>
    simp only [List.cons_append, mComment] at h ⊢
    split at h
    · rename_i hab
      simp only [Option.some.injEq] at h
      simp only [hab, if_true]
      rcases hl with h1 | ⟨h1, y'', rfl⟩
      · obtain ⟨x1, h2, h3, h4⟩ := spanP_stable_strict (p := (· ≠ '\n')) y y' x
          (spanP (· ≠ '\n') (x ++ y)).1 (spanP (· ≠ '\n') (x ++ y)).2 rfl (by rw [h]; exact h1)
        exact ⟨x1, by rw [← h, h3], by rw [h4]⟩
      · obtain ⟨x1, h2, h3, h4⟩ := spanP_stable (p := (· ≠ '\n')) (c := '\n') (by simp) y y'' x
          (spanP (· ≠ '\n') (x ++ y)).1 (spanP (· ≠ '\n') (x ++ y)).2 rfl (by rw [h]; exact h1)
        exact ⟨x1, by rw [← h, h3], by rw [h4]⟩
    · cases h

/-- A `//` comment that ends at the boundary swallows inserted text without a newline. -/
theorem mComment_absorb {x y r g : List Char} (h : mComment (x ++ y) = some r) (hr : r = y)
    (hy : y = [] ∨ ∃ y'', y = '\n' :: y'') (hg : ∀ c ∈ g, c ≠ '\n') :
    mComment (x ++ g ++ y) = some y := by
  have hlen := mComment_length h
  subst hr
  match x, h with
  | [], h => simp at hlen; omega
  | [a], h => simp at hlen
  | a :: b :: x, h =>
    simp only [List.cons_append, mComment] at h ⊢
    split at h
    · rename_i hab
      simp only [Option.some.injEq] at h
      simp only [hab, if_true, Option.some.injEq]
      -- everything before the boundary, and `g`, is free of newlines
      have key : ∀ (w : List Char), (∀ c ∈ w, c ≠ '\n') → (spanP (· ≠ '\n') (w ++ r)).2 = r := by
        intro w hw
        induction w with
        | nil =>
          rcases hy with rfl | ⟨y'', rfl⟩ <;> simp [spanP]
        | cons d w ih =>
          have hd : d ≠ '\n' := hw d (List.mem_cons_self ..)
          simp only [List.cons_append, spanP, hd, ne_eq, not_false_eq_true, decide_true, if_true]
          exact ih (fun c hc => hw c (List.mem_cons_of_mem _ hc))
      have hx : ∀ c ∈ x, c ≠ '\n' := by
        intro c hc
        have h1 := spanP_append (· ≠ '\n') (x ++ r)
        rw [h] at h1
        have h2 : x = (spanP (· ≠ '\n') (x ++ r)).1 := List.append_cancel_right h1
        have := spanP_all (· ≠ '\n') (x ++ r) c (h2 ▸ hc)
        simpa using this
      have := key (x ++ g) (fun c hc => by
        rcases List.mem_append.1 hc with h1 | h1
        · exact hx c h1
        · exact hg c h1)
      simpa [List.append_assoc] using this
    · cases h

theorem blockBody_length {cs body r} (h : blockBody cs = some (body, r)) : r.length + 2 ≤ cs.length := by
  obtain ⟨h1, b, h2⟩ := blockBody_spec cs h
  rw [h1, h2]; simp

/-- A block comment closed before the boundary does not depend on what follows. -/
theorem blockBody_stable (y y' : List Char) : ∀ (x body r : List Char), blockBody (x ++ y) = some (body, r) →
    y.length ≤ r.length → ∃ x1, r = x1 ++ y ∧ blockBody (x ++ y') = some (body, x1 ++ y') := by
  intro x
  induction x with
  | nil =>
    intro body r h hl
    have := blockBody_length h
    simp at this; omega
  | cons e x ih =>
    intro body r h hl
    cases x with
    | nil =>
      have hlen := blockBody_length h
      simp only [List.cons_append, List.nil_append] at h hlen
      cases y with
      | nil => rw [blockBody.eq_def] at h; cases h
      | cons d ds =>
        rw [blockBody.eq_def] at h
        simp only at h
        split at h
        · simp only [Option.some.injEq, Prod.mk.injEq] at h
          obtain ⟨-, rfl⟩ := h
          simp at hl; omega
        · split at h
          · rename_i rr hr
            simp only [Option.some.injEq, Prod.mk.injEq] at h
            have := blockBody_length (body := rr.1) (r := rr.2) hr
            rw [← h.2] at hl
            simp at hl this; omega
          · cases h
    | cons f x =>
      simp only [List.cons_append] at h ⊢
      rw [blockBody.eq_def] at h ⊢
      simp only at h ⊢
      split at h
      · rename_i hef
        simp only [Option.some.injEq, Prod.mk.injEq] at h
        obtain ⟨rfl, rfl⟩ := h
        exact ⟨x, rfl, by simp [hef]⟩
      · rename_i hef
        split at h
        · rename_i rr hr
          simp only [Option.some.injEq, Prod.mk.injEq] at h
          obtain ⟨rfl, rfl⟩ := h
          obtain ⟨x1, h1, h2⟩ := ih rr.1 rr.2 (by simpa using hr) hl
          refine ⟨x1, h1, ?_⟩
          simp only [List.cons_append] at h2
          simp [hef, h2]
        · cases h

theorem mBlockComment_length {cs body r : List Char} (h : mBlockComment cs = some (body, r)) :
    r.length + 2 ≤ cs.length := by
  obtain ⟨m, -, h2, h3⟩ := mBlockComment_spec h
  rw [h2, h3]; simp

theorem mBlockComment_stable {x y y' body r : List Char} (h : mBlockComment (x ++ y) = some (body, r))
    (hl : y.length ≤ r.length) : ∃ x1, r = x1 ++ y ∧ mBlockComment (x ++ y') = some (body, x1 ++ y') := by
  have hlen := mBlockComment_length h
  match x, h with
  | [], h => simp at hlen; omega
  | [a], h => simp at hlen; omega
  | a :: b :: x, h =>
    simp only [List.cons_append, mBlockComment] at h ⊢
    split at h
    · rename_i hab
      obtain ⟨x1, h1, h2⟩ := blockBody_stable y y' x body r h hl
      exact ⟨x1, h1, by simp only [hab, if_true, h2]⟩
    · cases h


/-! ## Failure of a rule is stable too -/

theorem mNL_none_stable {d : Char} {cs cs' : List Char} (h : mNL (d :: cs) = none) : mNL (d :: cs') = none := by
  by_cases hd : d = '\n'
  · subst hd; simp [mNL, spanP] at h
  · exact mNL_none_of_head _ hd

theorem mIdent_none_stable {d : Char} {cs cs' : List Char} (h : mIdent (d :: cs) = none) :
    mIdent (d :: cs') = none := by
  simp only [mIdent] at h ⊢
  split at h
  · cases h
  · rename_i hd; simp [hd]

theorem mDotIdent_none_stable {d : Char} {cs cs' : List Char} (h : mDotIdent (d :: cs) = none) :
    mDotIdent (d :: cs') = none := by
  simp only [mDotIdent] at h ⊢
  split at h
  · split at h <;> cases h
  · rename_i hd; simp [hd]

theorem mInt_none_stable {c : Char} (hc : InertC c) {x y y' : List Char}
    (h : mInt (x ++ y) = none) : mInt (x ++ c :: y') = none := by
  rcases optSign_cases x y with hw | rfl
  · obtain ⟨x1, h1, h2, h3⟩ := optSign_stable hc.notSign y y' x (optSign (x ++ y)).1 (optSign (x ++ y)).2 rfl hw
    unfold mInt at h ⊢
    simp only at h ⊢
    rw [h3]; rw [h2] at h
    simp only
    split at h
    · rename_i rr hsp
      have hl : y.length ≤ rr.length := by
        have := spanP_append isDigit (x1 ++ y)
        rw [hsp] at this
        simp only [List.nil_append] at this
        rw [← this]; simp
      obtain ⟨x2, h4, h5, h6⟩ := spanP_stable hc.notDigit y y' x1 _ _ hsp hl
      rw [h6]
    · cases h
  · simp only [List.nil_append]
    exact mInt_none_of_head _ hc.notSign hc.notDigit

theorem mBinInt_none_stable {c : Char} (hc : InertC c) {x y y' : List Char}
    (h : mBinInt (x ++ y) = none) : mBinInt (x ++ c :: y') = none := by
  cases x with
  | nil => exact mBinInt_none_of_head _ hc.notQuote
  | cons d x =>
    simp only [List.cons_append, mBinInt] at h ⊢
    split at h
    · rename_i hd
      simp only [hd, if_true]
      cases hsp : spanP (fun d => d = '0' || d = '1') (x ++ y) with
      | mk ds rr =>
      rw [hsp] at h
      by_cases hw : y.length ≤ rr.length
      · obtain ⟨x1, h1, h2, h3⟩ := spanP_stable (p := fun d => d = '0' || d = '1') hc.notBit y y' x ds rr hsp hw
        rw [h3]
        subst h2
        cases ds with
        | nil => rfl
        | cons a ds =>
          cases x1 with
          | nil => simp [hc.notQuote]
          | cons q x2 =>
            simp only [List.cons_append] at h ⊢
            split at h
            · cases h
            · rename_i hq; simp [hq]
      · have := spanP_overrun (p := fun d => d = '0' || d = '1') hc.notBit y y' x ds rr hsp (by omega)
        rw [this]
        cases x with
        | nil => rfl
        | cons a x => simp [hc.notQuote]
    · rename_i hd
      simp [hd]

theorem mComment_none_of_head {d : Char} (cs : List Char) (h : d ≠ '/') : mComment (d :: cs) = none := by
  cases cs with
  | nil => rfl
  | cons e cs => simp [mComment, h]

theorem mBlockComment_none_of_head {d : Char} (cs : List Char) (h : d ≠ '/') : mBlockComment (d :: cs) = none := by
  cases cs with
  | nil => rfl
  | cons e cs => simp [mBlockComment, h]

theorem mComment_none_stable2 {a b : Char} {cs cs' : List Char} (h : mComment (a :: b :: cs) = none) :
    mComment (a :: b :: cs') = none := by
  simp only [mComment] at h ⊢
  split at h
  · cases h
  · rename_i hab; simp [hab]


theorem literal_char {d : Char} {t : Tok} (h : literal? d = some t) :
    d = '<' ∨ d = '>' ∨ d = '|' ∨ d = '{' ∨ d = '}' ∨ d = ';' ∨ d = '[' ∨ d = ']' ∨ d = ',' ∨ d = '*' ∨ d = ':' := by
  unfold literal? at h
  by_cases h1 : d = '<'; · simp [h1]
  by_cases h2 : d = '>'; · simp [h2]
  by_cases h3 : d = '|'; · simp [h3]
  by_cases h4 : d = '{'; · simp [h4]
  by_cases h5 : d = '}'; · simp [h5]
  by_cases h6 : d = ';'; · simp [h6]
  by_cases h7 : d = '['; · simp [h7]
  by_cases h8 : d = ']'; · simp [h8]
  by_cases h9 : d = ','; · simp [h9]
  by_cases h10 : d = '*'; · simp [h10]
  by_cases h11 : d = ':'; · simp [h11]
  simp [h1, h2, h3, h4, h5, h6, h7, h8, h9, h10, h11] at h

theorem literal_facts {d : Char} {t : Tok} (h : literal? d = some t) :
    d ≠ '\n' ∧ isAlpha_ d = false ∧ d ≠ '.' ∧ isSign d = false ∧ isDigit d = false ∧ d ≠ '\'' ∧ d ≠ '/' := by
  rcases literal_char h with rfl | rfl | rfl | rfl | rfl | rfl | rfl | rfl | rfl | rfl | rfl <;> decide

theorem step_token_stable {c : Char} (hc : InertC c) {x y y' : List Char} {t : Tok} {r : List Char} {nl : Nat}
    (h : step (x ++ y) = .token t r nl) (hl : y.length ≤ r.length)
    (hnl : c ≠ '\n' ∨ t ≠ .NL ∨ y.length < r.length) :
    ∃ x1, r = x1 ++ y ∧ step (x ++ c :: y') = .token t (x1 ++ c :: y') nl := by
  have hcons := (step_token h).length
  cases x with
  | nil => simp at hcons; omega
  | cons d x =>
  simp only [List.cons_append] at h ⊢
  unfold step at h ⊢
  split at h
  · -- NL
    rename_i m rr hm
    cases h
    have hl' : c ≠ '\n' ∨ y.length < r.length := by
      rcases hnl with h1 | h1 | h1
      · exact Or.inl h1
      · exact absurd rfl h1
      · exact Or.inr h1
    obtain ⟨x1, h1, h2, h3⟩ := mNL_stable hl' (x := d :: x) (y' := y') hm hl
    simp only [List.cons_append] at h3
    exact ⟨x1, h2, by simp only [h3]⟩
  · rename_i h1
    rw [mNL_none_stable h1]
    simp only
    split at h
    · -- IDENTIFIER
      rename_i m rr hm
      cases h
      obtain ⟨x1, e1, e2, e3⟩ := mIdent_stable hc (x := d :: x) (y' := y') hm hl
      simp only [List.cons_append] at e3
      exact ⟨x1, e2, by simp only [e3]⟩
    · rename_i h2
      rw [mIdent_none_stable h2]
      simp only
      split at h
      · -- DOTIDENTIFIER
        rename_i m rr hm
        cases h
        obtain ⟨x1, e1, e2, e3⟩ := mDotIdent_stable hc (x := d :: x) (y' := y') hm hl
        simp only [List.cons_append] at e3
        exact ⟨x1, e2, by simp only [e3]⟩
      · rename_i h3
        rw [mDotIdent_none_stable h3]
        simp only
        split at h
        · -- NUMBER
          rename_i n rr hm
          simp only at h
          split at h
          · cases h
          · rename_i hov
            cases h
            obtain ⟨x1, e2, e3⟩ := mNumber_stable hc (x := d :: x) (y' := y') hm hl
            simp only [List.cons_append] at e3
            exact ⟨x1, e2, by simp only [e3, hov]; rfl⟩
        · rename_i h4
          have h4' := mNumber_none_stable hc (x := d :: x) (y' := y') h4
          simp only [List.cons_append] at h4'
          rw [h4']
          simp only
          split at h
          · -- INT
            rename_i s ds rr hm
            split at h
            · cases h
            · rename_i hlim
              cases h
              obtain ⟨x1, e2, e3⟩ := mInt_stable hc (x := d :: x) (y' := y') hm hl
              simp only [List.cons_append] at e3
              exact ⟨x1, e2, by simp only [e3, hlim]; rfl⟩
          · rename_i h5
            have h5' := mInt_none_stable hc (x := d :: x) (y' := y') h5
            simp only [List.cons_append] at h5'
            rw [h5']
            simp only
            split at h
            · -- BININT
              rename_i ds rr hm
              cases h
              obtain ⟨x1, e2, e3⟩ := mBinInt_stable hc (x := d :: x) (y' := y') hm hl
              simp only [List.cons_append] at e3
              exact ⟨x1, e2, by simp only [e3]⟩
            · rename_i h6
              split at h
              · cases h
              · split at h
                · cases h
                · -- literal
                  split at h
                  · rename_i d' rest' heq
                    simp only [List.cons.injEq] at heq
                    obtain ⟨rfl, rfl⟩ := heq
                    split at h
                    · rename_i t' hlit
                      cases h
                      obtain ⟨f1, f2, f3, f4, f5, f6, f7⟩ := literal_facts hlit
                      refine ⟨x, rfl, ?_⟩
                      rw [mBinInt_none_of_head _ f6, mComment_none_of_head _ f7,
                        mBlockComment_none_of_head _ f7]
                    all_goals (first | cases h | skip)
                  all_goals (first | cases h | skip)


/-- The rules before the comment rules fail in the same way after the change. -/
theorem rules16_none_stable {c : Char} (hc : InertC c) {d : Char} {x y y' : List Char}
    (h1 : mNL (d :: (x ++ y)) = none) (h2 : mIdent (d :: (x ++ y)) = none)
    (h3 : mDotIdent (d :: (x ++ y)) = none) (h4 : mNumber (d :: (x ++ y)) = none)
    (h5 : mInt (d :: (x ++ y)) = none) (h6 : mBinInt (d :: (x ++ y)) = none) :
    mNL (d :: (x ++ c :: y')) = none ∧ mIdent (d :: (x ++ c :: y')) = none ∧
    mDotIdent (d :: (x ++ c :: y')) = none ∧ mNumber (d :: (x ++ c :: y')) = none ∧
    mInt (d :: (x ++ c :: y')) = none ∧ mBinInt (d :: (x ++ c :: y')) = none :=
  ⟨mNL_none_stable h1, mIdent_none_stable h2, mDotIdent_none_stable h3,
   mNumber_none_stable hc (x := d :: x) h4, mInt_none_stable hc (x := d :: x) h5,
   mBinInt_none_stable hc (x := d :: x) h6⟩

/-- What a `skip` step is. -/
theorem step_skip_inv {cs r : List Char} {nl : Nat} (h : step cs = .skip r nl) :
    mNL cs = none ∧ mIdent cs = none ∧ mDotIdent cs = none ∧ mNumber cs = none ∧ mInt cs = none ∧
    mBinInt cs = none ∧
    ((mComment cs = some r ∧ nl = 0) ∨
     (mComment cs = none ∧ ∃ body, mBlockComment cs = some (body, r) ∧ nl = countNL body)) := by
  unfold step at h
  split at h
  · cases h
  · rename_i h1
    split at h
    · cases h
    · rename_i h2
      split at h
      · cases h
      · rename_i h3
        split at h
        · simp only at h
          split at h <;> cases h
        · rename_i h4
          split at h
          · split at h <;> cases h
          · rename_i h5
            split at h
            · cases h
            · rename_i h6
              split at h
              · rename_i rr hm
                cases h
                exact ⟨h1, h2, h3, h4, h5, h6, Or.inl ⟨hm, rfl⟩⟩
              · rename_i h7
                split at h
                · rename_i body rr hm
                  cases h
                  exact ⟨h1, h2, h3, h4, h5, h6, Or.inr ⟨h7, body, hm, rfl⟩⟩
                · split at h
                  · split at h <;> cases h
                  · cases h

theorem step_of_comment {cs r : List Char} (h1 : mNL cs = none) (h2 : mIdent cs = none)
    (h3 : mDotIdent cs = none) (h4 : mNumber cs = none) (h5 : mInt cs = none) (h6 : mBinInt cs = none)
    (h7 : mComment cs = some r) : step cs = .skip r 0 := by
  unfold step; simp only [h1, h2, h3, h4, h5, h6, h7]

theorem step_of_block {cs body r : List Char} (h1 : mNL cs = none) (h2 : mIdent cs = none)
    (h3 : mDotIdent cs = none) (h4 : mNumber cs = none) (h5 : mInt cs = none) (h6 : mBinInt cs = none)
    (h7 : mComment cs = none) (h8 : mBlockComment cs = some (body, r)) : step cs = .skip r (countNL body) := by
  unfold step; simp only [h1, h2, h3, h4, h5, h6, h7, h8]

theorem step_skip_stable {c : Char} (hc : InertC c) {x y y' r : List Char} {nl : Nat}
    (h : step (x ++ y) = .skip r nl) (hl : y.length ≤ r.length)
    (hline : mComment (x ++ y) = none ∨ y.length < r.length ∨ c = '\n') :
    ∃ x1, r = x1 ++ y ∧ step (x ++ c :: y') = .skip (x1 ++ c :: y') nl := by
  obtain ⟨h1, h2, h3, h4, h5, h6, h78⟩ := step_skip_inv h
  rcases h78 with ⟨h7, rfl⟩ | ⟨h7, body, h8, rfl⟩
  · have hlen := mComment_length h7
    cases x with
    | nil => simp at hlen; omega
    | cons d x =>
      simp only [List.cons_append] at *
      obtain ⟨g1, g2, g3, g4, g5, g6⟩ := rules16_none_stable hc (y' := y') h1 h2 h3 h4 h5 h6
      have hl' : y.length < r.length ∨ (y.length ≤ r.length ∧ ∃ y'', c :: y' = '\n' :: y'') := by
        rcases hline with h | h | h
        · rw [h7] at h; cases h
        · exact Or.inl h
        · exact Or.inr ⟨hl, y', by rw [h]⟩
      obtain ⟨x1, e1, e2⟩ := mComment_stable (x := d :: x) (y' := c :: y') h7 hl'
      simp only [List.cons_append] at e2
      exact ⟨x1, e1, step_of_comment g1 g2 g3 g4 g5 g6 e2⟩
  · have hlen := mBlockComment_length h8
    match x, h1, h2, h3, h4, h5, h6, h7, h8, hlen with
    | [], _, _, _, _, _, _, _, _, hlen => simp at hlen; omega
    | [a], _, _, _, _, _, _, _, _, hlen => simp at hlen; omega
    | a :: b :: x, h1, h2, h3, h4, h5, h6, h7, h8, _ =>
      simp only [List.cons_append] at *
      obtain ⟨g1, g2, g3, g4, g5, g6⟩ := rules16_none_stable hc (x := b :: x) (y' := y') h1 h2 h3 h4 h5 h6
      obtain ⟨x1, e1, e2⟩ := mBlockComment_stable (x := a :: b :: x) (y' := c :: y') h8 hl
      simp only [List.cons_append] at e2 g1 g2 g3 g4 g5 g6
      exact ⟨x1, e1, step_of_block g1 g2 g3 g4 g5 g6 (mComment_none_stable2 h7) e2⟩

/-- A `//` comment that ends at the boundary (before a newline or the end of the text) swallows inserted
text that contains no newline. -/
theorem step_comment_absorb {c : Char} (hc : InertC c) {x y g : List Char} {nl : Nat}
    (h : step (x ++ y) = .skip y nl) (hm : mComment (x ++ y) ≠ none)
    (hy : y = [] ∨ ∃ y'', y = '\n' :: y'') (hg : ∀ e ∈ c :: g, e ≠ '\n') :
    step (x ++ (c :: g) ++ y) = .skip y 0 := by
  obtain ⟨h1, h2, h3, h4, h5, h6, h78⟩ := step_skip_inv h
  rcases h78 with ⟨h7, rfl⟩ | ⟨h7, -⟩
  · have hlen := mComment_length h7
    cases x with
    | nil => simp at hlen; omega
    | cons d x =>
      simp only [List.cons_append, List.append_assoc] at *
      obtain ⟨g1, g2, g3, g4, g5, g6⟩ := rules16_none_stable hc (y' := g ++ y) h1 h2 h3 h4 h5 h6
      have := mComment_absorb (x := d :: x) (g := c :: g) h7 rfl hy hg
      simp only [List.cons_append, List.append_assoc] at this
      exact step_of_comment g1 g2 g3 g4 g5 g6 this
  · exact absurd h7 hm


end Jaqal.Lexer
