import JaqalProofs.Lemmas.RebuildTotal
import JaqalProofs.Lemmas.BuiltScope
import JaqalProofs.Props.C04
/-!
# The circuit `fill_in_let` returns is well formed in the sense of `expand_macros`

`filled_wellFormed : TypedC c → c.body = .block false false (.int 1) bs → fillInLet ov c = .ok c' → ExpandMacros.WellFormed c' = true`.

`c'` is an output of `Builder.build` (the rebuild), so
* its gate statements match their definitions (`built_gateShape`, any S-expression) — `wfGate` without `okVal`;
* its macro bodies use earlier macros only (`built_scope`, any S-expression) — `inScope`;
* its body is a plain sequential block (`build_body`);
and its values are the visitors' images of typed values (`fillInLet_rebuilt'` + `letVal_typed`): constant-free, registers sized
and sliced by ints, qubits of such registers or of parameters with int or parameter index, counts ints / non-integral floats /
parameters (`StmtOut`) — which gives `okVal`, `goodVal`, `isIndexLike` and `isParam ∨ noParam` of every count.
-/
namespace Jaqal.FillIn
open Jaqal Jaqal.Builder Jaqal.ExpandMacros

/-! ### The typing of the filled circuit -/

/-- a count after `fill_in_let`: an int, a float (an overriding non-integral value; the rebuild refuses it, which is not
needed here) or a parameter -/
def CntOut : Val → Bool
  | .int _ => true
  | .flt _ => true
  | .param _ _ => true
  | _ => false

mutual
  def StmtOut : Stmt → Prop
    | .gate _ _ args => ∀ a ∈ args, OutT a.2 = true
    | .block _ _ it body => CntOut it = true ∧ StmtsOut body
    | .loop c b => CntOut c = true ∧ StmtOut b
  def StmtsOut : List Stmt → Prop
    | [] => True
    | s :: r => StmtOut s ∧ StmtsOut r
end

theorem letVal_cnt {ov : List (String × Num)} {c c' : Val} (hc : CntIn c = true) (h : letVal ov false c = .ok c') :
    CntOut c' = true := by
  simp only [CntIn, Bool.or_eq_true] at hc
  rcases hc with hc | hc
  · have := (letVal_intC (ov := ov) (rv := false) hc).2 c' h
    cases c' <;> simp [NumI] at this <;> rfl
  · cases c <;> simp [Builder.isParam] at hc
    simp only [letVal, pure, Except.pure] at h
    cases h; rfl

theorem CntOut_normCount {c : Val} (h : CntOut c = true) : CntOut (normCount c) = true := by
  cases c <;> simp [CntOut] at h <;> rfl

mutual
  theorem Rel_typedOut {ov : List (String × Num)} : ∀ (s s' : Stmt), StmtIn s →
      Rel (letVal ov false) (letVal ov false) s s' → StmtOut s'
    | .gate n gd args, .gate n' gd' args', ht, h => by
      simp only [Rel] at h
      intro a' ha'
      obtain ⟨a, ha, hab⟩ := forall₂_right h.2 a' ha'
      exact (letVal_typed a.2 (ht a ha)).2 a'.2 hab
    | .block par sub it body, .block par' sub' it' body', ht, h => by
      simp only [StmtIn] at ht
      simp only [Rel] at h
      obtain ⟨_, _, hit, hbody⟩ := h
      refine ⟨?_, RelList_typedOut body body' ht.2 hbody⟩
      split at hit
      · obtain ⟨c, hc, rfl⟩ := hit
        exact CntOut_normCount (letVal_cnt ht.1 hc)
      · subst hit; rfl
    | .loop c b, .loop c' b', ht, h => by
      simp only [StmtIn] at ht
      simp only [Rel] at h
      exact ⟨letVal_cnt ht.1 h.1, Rel_typedOut b b' ht.2 h.2⟩
    | .gate _ _ _, .block _ _ _ _, _, h | .gate _ _ _, .loop _ _, _, h
    | .block _ _ _ _, .gate _ _ _, _, h | .block _ _ _ _, .loop _ _, _, h
    | .loop _ _, .gate _ _ _, _, h | .loop _ _, .block _ _ _ _, _, h => by simp [Rel] at h
  theorem RelList_typedOut {ov : List (String × Num)} : ∀ (l l' : List Stmt), StmtsIn l →
      RelList (letVal ov false) (letVal ov false) l l' → StmtsOut l'
    | [], [], _, _ => trivial
    | s :: ss, s' :: ss', ht, h => by
      simp only [RelList] at h
      exact ⟨Rel_typedOut s s' ht.1 h.1, RelList_typedOut ss ss' ht.2 h.2⟩
    | [], _ :: _, _, h | _ :: _, [], _, h => by simp [RelList] at h
end

/-- `fillInLet_rebuilt` (C05) needs of its circuit only that the body is a plain block, constants are constants and
registers register-like -/
theorem fillInLet_rebuilt' {ov : List (String × Num)} {c c' : Circuit} {bs : List Stmt}
    (hbs : c.body = .block false false (.int 1) bs) (hconsts : ∀ v ∈ c.constants, isConst v = true)
    (hregs : ∀ v ∈ c.registers, isRegLike v = true) (h : fillInLet ov c = .ok c') :
    ∃ regs, c.registers.mapM (letVal ov true) = .ok regs ∧
      Rebuilt (letVal ov false) (fun _ => letVal ov false) (letVal ov false) c regs bs c' := by
  unfold fillInLet letSx at h
  obtain ⟨sx, hsx, h⟩ := bind_ok h
  obtain ⟨body, hbody, hsx⟩ := bind_ok hsx
  obtain ⟨stmts, hstmts, hsx⟩ := bind_ok hsx
  obtain ⟨regs, hregs', hsx⟩ := bind_ok hsx
  obtain ⟨macros, hmacros, hsx⟩ := bind_ok hsx
  simp only [pure, Except.pure] at hsx
  cases hsx
  rw [hbs] at hbody
  simp only [letStmt, visitStmt, Bool.false_eq_true, if_false] at hbody
  obtain ⟨es, hes, hbody⟩ := bind_ok hbody
  simp only [pure, Except.pure] at hbody
  cases hbody
  simp only [tailOf, pure, Except.pure] at hstmts
  cases hstmts
  refine ⟨regs, hregs', ?_⟩
  exact build_circuitSx (F := letVal ov false) (Fm := fun _ => letVal ov false) (G := letVal ov false) hmacros hes hconsts
    (mapM_all (fun a b ha hab => letVal_regLike ha hab) hregs' hregs) h

/-- **the filled circuit is typed and constant-free** -/
theorem filled_typed {ov : List (String × Num)} {c c' : Circuit} {bs : List Stmt} (ht : TypedC c)
    (hbs : c.body = .block false false (.int 1) bs) (h : fillInLet ov c = .ok c') :
    (∃ ss, c'.body = .block false false (.int 1) ss ∧ StmtsOut ss) ∧ (∀ m ∈ c'.macros, StmtOut m.body) ∧
    (∀ v ∈ c'.registers, OutT v = true) := by
  obtain ⟨regs, hregs, hr⟩ := fillInLet_rebuilt' hbs ht.constants ht.regLike h
  have htb : StmtsIn bs := by have := ht.body; rw [hbs] at this; exact this.2
  refine ⟨?_, ?_, ?_⟩
  · obtain ⟨ss, hss, hrel⟩ := hr.body
    exact ⟨ss, hss, RelList_typedOut bs ss htb hrel⟩
  · intro m' hm'
    obtain ⟨m, hm, _, _, hrel⟩ := forall₂_right hr.macros m' hm'
    exact Rel_typedOut m.body m'.body (ht.macros m hm) hrel
  · intro v hv
    rw [hr.registers] at hv
    obtain ⟨v0, hv0, hlv⟩ := mapM_ok hregs v hv
    exact (letVal_typed v0 (ht.registers v0 hv0)).2 v hlv

/-! ### From typed values to `okVal`, `goodVal`, `isIndexLike` -/

theorem RegL_noParam : ∀ v : Val, RegL v = true → noParam v = true
  | .regF _ size, h => by
    simp only [RegL] at h
    cases size <;> simp [isIntL] at h
    rfl
  | .regA _ src, h => by simp only [RegL] at h; simpa [noParam] using RegL_noParam src h
  | .regS _ src a b s, h => by
    simp only [RegL, Bool.and_eq_true] at h
    obtain ⟨⟨⟨h1, h2⟩, h3⟩, h4⟩ := h
    cases a <;> simp [isIntL] at h2
    cases b <;> simp [isIntL] at h3
    cases s <;> simp [isIntL] at h4
    simp [noParam, RegL_noParam src h1]
  | .int _, h | .flt _, h | .const _ _, h | .param _ _, h | .qubit _ _ _, h | .none, h | .str _, h => by simp [RegL] at h

theorem RegL_isReg {v : Val} (h : RegL v = true) : ExpandMacros.isReg v = true := by
  cases v <;> simp [RegL] at h <;> rfl

theorem RegL_regBuilt : ∀ v : Val, RegL v = true → regBuilt v = true
  | .regF _ size, h => by
    simp only [RegL] at h
    cases size <;> simp [isIntL] at h
    rfl
  | .regA _ src, h => by
    simp only [RegL] at h
    simp [regBuilt, RegL_isReg h, RegL_regBuilt src h]
  | .regS _ src a b s, h => by
    simp only [RegL, Bool.and_eq_true] at h
    obtain ⟨⟨⟨h1, h2⟩, h3⟩, h4⟩ := h
    cases a <;> simp [isIntL] at h2
    cases b <;> simp [isIntL] at h3
    cases s <;> simp [isIntL] at h4
    simp [regBuilt, RegL_isReg h1, intLike]
  | .int _, h | .flt _, h | .const _ _, h | .param _ _, h | .qubit _ _ _, h | .none, h | .str _, h => by simp [RegL] at h

theorem OutT_okVal {v : Val} (h : OutT v = true) : okVal v = true := by
  cases v with
  | int _ => rfl
  | flt _ => rfl
  | none => rfl
  | str _ => simp [OutT, RegL] at h
  | const _ _ => simp [OutT, RegL] at h
  | param _ _ => rfl
  | qubit n s i =>
    simp only [OutT, Bool.and_eq_true, Bool.or_eq_true] at h
    simp only [okVal, Bool.and_eq_true, Bool.or_eq_true]
    refine ⟨?_, ?_⟩
    · rcases h.1 with h1 | h1
      · exact Or.inr (RegL_noParam s h1)
      · left; cases s <;> simp [Builder.isParam] at h1; rfl
    · rcases h.2 with h1 | h1
      · right; cases i <;> simp [isIntL] at h1; rfl
      · left; cases i <;> simp [Builder.isParam] at h1; rfl
  | regF n s => exact RegL_noParam _ (by simpa [OutT] using h)
  | regA n s => exact RegL_noParam _ (by simpa [OutT] using h)
  | regS n s a b c => exact RegL_noParam _ (by simpa [OutT] using h)

theorem OutT_goodVal {v : Val} (h : OutT v = true) : goodVal v = true := by
  cases v with
  | int _ => rfl
  | flt _ => rfl
  | none => rfl
  | str _ => rfl
  | const _ _ => rfl
  | param _ _ => rfl
  | qubit n s i =>
    simp only [OutT, Bool.and_eq_true, Bool.or_eq_true] at h
    simp only [goodVal, Bool.and_eq_true, Bool.or_eq_true, Bool.not_eq_true']
    refine ⟨⟨?_, ?_⟩, ?_⟩
    · rcases h.1 with h1 | h1
      · cases s <;> simp [RegL] at h1 <;> rfl
      · cases s <;> simp [Builder.isParam] at h1; rfl
    · rcases h.1 with h1 | h1
      · exact Or.inr (RegL_regBuilt s h1)
      · left; cases s <;> simp [Builder.isParam] at h1; rfl
    · rcases h.2 with h1 | h1
      · cases i <;> simp [isIntL] at h1; rfl
      · cases i <;> simp [Builder.isParam] at h1; rfl
  | regF n s => simp [goodVal, RegL_regBuilt _ (by simpa [OutT] using h : RegL (.regF n s) = true)]
  | regA n s => simp [goodVal, RegL_regBuilt _ (by simpa [OutT] using h : RegL (.regA n s) = true)]
  | regS n s a b c => simp [goodVal, RegL_regBuilt _ (by simpa [OutT] using h : RegL (.regS n s a b c) = true)]

theorem CntOut_wf {c : Val} (h : CntOut c = true) :
    (ExpandMacros.isParam c || noParam c) = true ∧ isIndexLike c = true := by
  cases c <;> simp [CntOut] at h <;> exact ⟨rfl, rfl⟩

mutual
  theorem wfStmt_of (ms : List Macro) : ∀ (s : Stmt), gateWF ms s → StmtOut s → wfStmt ms s = true ∧ wfT s = true
    | .gate n gd args, hg, ho => by
      obtain ⟨h1, h2, h3, h4⟩ := hg
      constructor
      · simp only [wfStmt, wfGate, Bool.and_eq_true, beq_iff_eq, decide_eq_true_eq, List.all_eq_true]
        refine ⟨⟨⟨⟨h1, h2⟩, h3⟩, fun a ha => OutT_okVal (ho a ha)⟩, ?_⟩
        cases hf : findMacro ms n with
        | none => rfl
        | some m => simpa using h4 m hf
      · simp only [wfT, List.all_eq_true]
        exact fun a ha => OutT_goodVal (ho a ha)
    | .block par sub it body, hg, ho => by
      simp only [gateWF] at hg
      simp only [StmtOut] at ho
      obtain ⟨h1, h2⟩ := wfStmtList_of ms body hg ho.2
      obtain ⟨c1, c2⟩ := CntOut_wf ho.1
      exact ⟨by simp only [wfStmt, Bool.and_eq_true]; exact ⟨c1, h1⟩, by simp only [wfT, Bool.and_eq_true]; exact ⟨c2, h2⟩⟩
    | .loop c b, hg, ho => by
      simp only [gateWF] at hg
      simp only [StmtOut] at ho
      obtain ⟨h1, h2⟩ := wfStmt_of ms b hg ho.2
      obtain ⟨c1, c2⟩ := CntOut_wf ho.1
      exact ⟨by simp only [wfStmt, Bool.and_eq_true]; exact ⟨c1, h1⟩, by simp only [wfT, Bool.and_eq_true]; exact ⟨c2, h2⟩⟩
  theorem wfStmtList_of (ms : List Macro) : ∀ (l : List Stmt), gateWFL ms l → StmtsOut l →
      wfStmtList ms l = true ∧ wfTList l = true
    | [], _, _ => ⟨rfl, rfl⟩
    | s :: r, hg, ho => by
      obtain ⟨h1, h2⟩ := wfStmt_of ms s hg.1 ho.1
      obtain ⟨h3, h4⟩ := wfStmtList_of ms r hg.2 ho.2
      exact ⟨by simp only [wfStmtList, Bool.and_eq_true]; exact ⟨h1, h3⟩,
        by simp only [wfTList, Bool.and_eq_true]; exact ⟨h2, h4⟩⟩
end

/-! ### `inScope` from `ScopeOK` -/

mutual
  theorem inScope_of (ms : List Macro) (avail all : List String) : ∀ (s : Stmt), gateWF ms s → ScopeOK avail all s →
      inScope avail all s = true
    | .gate n gd args, hg, hs => by
      have := hs gd (by simp [gateDefsOf])
      rw [← hg.1] at this
      simp only [inScope, Bool.or_eq_true, decide_eq_true_eq, Bool.not_eq_true', decide_eq_false_iff_not]
      exact this
    | .block par sub it body, hg, hs => by
      simp only [gateWF] at hg
      simp only [inScope]
      exact inScopeList_of ms avail all body hg (fun gd hgd => hs gd (by simpa [gateDefsOf] using hgd))
    | .loop c b, hg, hs => by
      simp only [gateWF] at hg
      simp only [inScope]
      exact inScope_of ms avail all b hg (fun gd hgd => hs gd (by simpa [gateDefsOf] using hgd))
  theorem inScopeList_of (ms : List Macro) (avail all : List String) : ∀ (l : List Stmt), gateWFL ms l →
      (∀ gd ∈ gateDefsOfList l, gd.name ∈ avail ∨ gd.name ∉ all) → inScopeList avail all l = true
    | [], _, _ => rfl
    | s :: r, hg, hs => by
      simp only [inScopeList, Bool.and_eq_true]
      exact ⟨inScope_of ms avail all s hg.1 (fun gd hgd => hs gd (by simp [gateDefsOfList, hgd])),
        inScopeList_of ms avail all r hg.2 (fun gd hgd => hs gd (by simp [gateDefsOfList, hgd]))⟩
end

theorem wfMacrosFrom_of (ms : List Macro) (hw : ∀ m ∈ ms, wfStmt ms m.body = true) (hg : ∀ m ∈ ms, gateWF ms m.body)
    (hsc : ScopeAll ms) : ∀ (pre post : List Macro), ms = pre ++ post →
    wfMacrosFrom ms (pre.map (·.name)) post = true
  | pre, [], _ => rfl
  | pre, m :: post, h => by
    have hm : m ∈ ms := by rw [h]; simp
    simp only [wfMacrosFrom, Bool.and_eq_true]
    refine ⟨⟨hw m hm, inScope_of ms _ _ m.body (hg m hm) (hsc pre m post h)⟩, ?_⟩
    have := wfMacrosFrom_of ms hw hg hsc (pre ++ [m]) post (by simp [h])
    simpa using this

/-! ### The theorem -/

/-- **`filled_wellFormed`.** What `fill_in_let` returns for a typed circuit whose body is a plain sequential block is
`ExpandMacros.WellFormed`. -/
theorem filled_wellFormed {ov : List (String × Num)} {c c' : Circuit} {bs : List Stmt} (ht : TypedC c)
    (hbs : c.body = .block false false (.int 1) bs) (h : fillInLet ov c = .ok c') : ExpandMacros.WellFormed c' = true := by
  obtain ⟨⟨ss, hss, hbody⟩, hmac, _⟩ := filled_typed ht hbs h
  -- `c'` is an output of `build`
  have hbuild : ∃ sx, build (rebuildCfg c) sx = .ok c' := by
    unfold fillInLet at h
    obtain ⟨sx, _, h⟩ := bind_ok h
    exact ⟨sx, h⟩
  obtain ⟨sx, hb⟩ := hbuild
  obtain ⟨hgb, hgm⟩ := built_gateShape _ _ _ hb
  have hsc := built_scope _ _ _ hb
  have hbodyOut : StmtOut c'.body := by rw [hss]; exact ⟨rfl, hbody⟩
  obtain ⟨hw1, hw2⟩ := wfStmt_of c'.macros c'.body hgb hbodyOut
  have hwm : ∀ m ∈ c'.macros, wfStmt c'.macros m.body = true ∧ wfT m.body = true :=
    fun m hm => wfStmt_of c'.macros m.body (hgm m hm) (hmac m hm)
  have hfrom := wfMacrosFrom_of c'.macros (fun m hm => (hwm m hm).1) hgm hsc [] c'.macros rfl
  simp only [ExpandMacros.WellFormed, Bool.and_eq_true, List.all_eq_true]
  refine ⟨⟨⟨⟨by simpa using hfrom, hw1⟩, by rw [hss]⟩, hw2⟩, fun m hm => (hwm m hm).2⟩

end Jaqal.FillIn

#print axioms Jaqal.FillIn.filled_wellFormed
