import JaqalModel.Model.Emulator
import JaqalProofs.Lemmas.Bits
/-!
Link between the executable array form of the emulator step (`applyGateVec`, `runGates`) and the
function form (`applyGate`, `runGatesFn`) used in the C03 theorems (core Lean only).

Under the size conditions that hold for every well-formed gate (square matrix of size `2^|qs|`,
qubits inside the register, state of size `2^n`) no index is ever out of range, the array functions
return `some`, and the entries are those of the function form.  No distinctness of the qubit
arguments is needed for this link.
-/
namespace Jaqal.Emulator
open Jaqal.Bits

variable {K : Type}

/-! ### generic monadic folds that never fail -/

theorem foldlM_eq_some_foldl {α β : Type} (f : β → α → Option β) (g : β → α → β) (l : List α)
    (h : ∀ b, ∀ a ∈ l, f b a = some (g b a)) (b : β) : l.foldlM f b = some (l.foldl g b) := by
  induction l generalizing b with
  | nil => rfl
  | cons a l ih =>
    rw [List.foldlM_cons, h b a List.mem_cons_self]
    exact ih (fun b' a' ha' => h b' a' (List.mem_cons_of_mem _ ha')) (g b a)

theorem mapM_eq_some_map {α β : Type} (f : α → Option β) (g : α → β) (l : List α)
    (h : ∀ a ∈ l, f a = some (g a)) : l.mapM f = some (l.map g) := by
  induction l with
  | nil => rfl
  | cons a l ih =>
    rw [List.mapM_cons, h a List.mem_cons_self, ih (fun a' ha' => h a' (List.mem_cons_of_mem _ ha'))]
    rfl

theorem foldl_congr_mem {α β : Type} (f g : β → α → β) (l : List α)
    (h : ∀ b, ∀ a ∈ l, f b a = g b a) (b : β) : l.foldl f b = l.foldl g b := by
  induction l generalizing b with
  | nil => rfl
  | cons a l ih =>
    rw [List.foldl_cons, List.foldl_cons, h b a List.mem_cons_self]
    exact ih (fun b' a' ha' => h b' a' (List.mem_cons_of_mem _ ha')) _

/-! ### the first loop without the distinctness assumption -/

theorem foldl_rowStep_fst (qs : List Nat) (st : Nat × Nat × Nat) :
    (qs.foldl rowStep st).1 = clear qs st.1 := by
  induction qs generalizing st with
  | nil => rfl
  | cons q qs ih => rw [List.foldl_cons, ih]; rfl

theorem foldl_rowStep_row_lt (qs : List Nat) (m r k : Nat) (hr : r < 2 ^ k) :
    (qs.foldl rowStep (m, r, 2 ^ k)).2.1 < 2 ^ (k + qs.length) := by
  induction qs generalizing m r k with
  | nil => simpa using hr
  | cons q qs ih =>
    rw [List.foldl_cons]
    have hstep : rowStep (m, r, 2 ^ k) q =
        (m ^^^ (m &&& (1 <<< q)), (if m &&& (1 <<< q) ≠ 0 then r ||| 2 ^ k else r), 2 ^ (k + 1)) := by
      simp only [rowStep]
      congr 2
      simp [Nat.shiftLeft_eq, Nat.pow_succ]
    rw [hstep]
    have : k + (q :: qs).length = (k + 1) + qs.length := by simp; omega
    rw [this]
    apply ih
    have h1 : r < 2 ^ (k + 1) := by rw [Nat.pow_succ]; omega
    split
    · exact Nat.or_lt_two_pow h1 (Nat.pow_lt_pow_right (by omega) (by omega))
    · exact h1

theorem rowMask_fst (qs : List Nat) (i : Nat) : (rowMask qs i).1 = clear qs i := by
  simp [rowMask, foldl_rowStep_fst]

theorem rowMask_snd_lt (qs : List Nat) (i : Nat) : (rowMask qs i).2 < 2 ^ qs.length := by
  have := foldl_rowStep_row_lt qs i 0 0 (by simp)
  simpa [rowMask] using this

theorem colIndex_lt (qs : List Nat) (n i c : Nat) (hi : i < 2 ^ n) (hb : ∀ q ∈ qs, q < n) :
    colIndex qs (rowMask qs i).1 c < 2 ^ n := by
  rw [colIndex_eq, rowMask_fst]
  exact scatter_lt qs c _ n (clear_lt qs i n hi) hb

/-! ### one gate -/

/-- A square matrix of the size the number of qubit arguments calls for. -/
def MatOK (U : Array (Array K)) (m : Nat) : Prop :=
  U.size = 2 ^ m ∧ ∀ r, (h : r < U.size) → U[r].size = 2 ^ m

instance (U : Array (Array K)) (m : Nat) : Decidable (MatOK U m) := by unfold MatOK; infer_instance

theorem matGet?_eq [Zero K] (U : Array (Array K)) (m r c : Nat) (hU : MatOK U m)
    (hr : r < 2 ^ m) (hc : c < 2 ^ m) : matGet? U r c = some (matFn U r c) := by
  have hr' : r < U.size := by rw [hU.1]; exact hr
  have hc' : c < U[r].size := by rw [hU.2 r hr']; exact hc
  simp [matFn, matGet?, hr', hc']

theorem getElem?_eq_vecFn [Zero K] (v : Array K) (j : Nat) (hj : j < v.size) : v[j]? = some (vecFn v j) := by
  simp [vecFn, hj]

theorem applyGateAt_eq [Add K] [Mul K] [Zero K] (U : Array (Array K)) (qs : List Nat) (n : Nat)
    (v : Array K) (i : Nat) (hU : MatOK U qs.length) (hb : ∀ q ∈ qs, q < n) (hv : v.size = 2 ^ n)
    (hi : i < 2 ^ n) : applyGateAt U qs v i = some (applyGate (matFn U) qs (vecFn v) i) := by
  unfold applyGateAt applyGate
  rw [hU.1]
  apply foldlM_eq_some_foldl
  intro acc c hc
  have hc' : c < 2 ^ qs.length := by simpa using hc
  rw [getElem?_eq_vecFn v _ (by rw [hv]; exact colIndex_lt qs n i c hi hb),
    matGet?_eq U qs.length _ c hU (rowMask_snd_lt qs i) hc']

/-- The array step never fails on well-formed input and its entries are those of the loop nest. -/
theorem applyGateVec_eq [Add K] [Mul K] [Zero K] (U : Array (Array K)) (qs : List Nat) (n : Nat)
    (v : Array K) (hU : MatOK U qs.length) (hb : ∀ q ∈ qs, q < n) (hv : v.size = 2 ^ n) :
    applyGateVec U qs n v
      = some ((List.range (2 ^ n)).map (applyGate (matFn U) qs (vecFn v))).toArray := by
  unfold applyGateVec
  rw [mapM_eq_some_map _ (applyGate (matFn U) qs (vecFn v))]
  · rfl
  · intro i hi
    exact applyGateAt_eq U qs n v i hU hb hv (by simpa using hi)

theorem vecFn_map_range [Zero K] (f : Nat → K) (k i : Nat) (hi : i < k) :
    vecFn ((List.range k).map f).toArray i = f i := by
  simp [vecFn, hi]

/-- `getElem` form of `applyGateVec_eq`. -/
theorem applyGateVec_getElem [Add K] [Mul K] [Zero K] (U : Array (Array K)) (qs : List Nat) (n : Nat)
    (v : Array K) (hU : MatOK U qs.length) (hb : ∀ q ∈ qs, q < n) (hv : v.size = 2 ^ n) :
    ∃ w, applyGateVec U qs n v = some w ∧ w.size = 2 ^ n ∧
      ∀ i, (h : i < w.size) → w[i] = applyGate (matFn U) qs (vecFn v) i := by
  refine ⟨_, applyGateVec_eq U qs n v hU hb hv, by simp, ?_⟩
  intro i h
  simp

/-- The loop nest reads the old vector below `2^n` only (no distinctness needed). -/
theorem applyGate_congr' [Add K] [Mul K] [Zero K] (U : Nat → Nat → K) (qs : List Nat) (n : Nat)
    (v v' : Nat → K) (hb : ∀ q ∈ qs, q < n) (h : ∀ j < 2 ^ n, v j = v' j) (i : Nat) (hi : i < 2 ^ n) :
    applyGate U qs v i = applyGate U qs v' i := by
  unfold applyGate
  apply foldl_congr_mem
  intro acc c _
  rw [h _ (colIndex_lt qs n i c hi hb)]

/-! ### all gates of a subcircuit -/

theorem vecFn_e0Vec [Zero K] [One K] (n i : Nat) (hi : i < 2 ^ n) : vecFn (e0Vec n : Array K) i = e0 i := by
  unfold e0Vec
  rw [vecFn_map_range _ _ _ hi]
  rfl

/-- Well-formed gate list (array form): square matrices of the right size, qubits in the register. -/
def GatesVecOK (n : Nat) (gates : List (Option (Array (Array K)) × List Nat)) : Prop :=
  ∀ g ∈ gates, ∀ U, g.1 = some U → MatOK U g.2.length ∧ ∀ q ∈ g.2, q < n

/-- The gate list in function form. -/
def gatesFn [Zero K] (gates : List (Option (Array (Array K)) × List Nat)) :
    List (Option (Nat → Nat → K) × List Nat) :=
  gates.map (fun g => (g.1.map matFn, g.2))

theorem foldlM_gates_eq [Add K] [Mul K] [Zero K] (n : Nat)
    (gates : List (Option (Array (Array K)) × List Nat)) (hok : GatesVecOK n gates)
    (v : Array K) (vf : Nat → K) (hv : v.size = 2 ^ n) (hvf : ∀ i < 2 ^ n, vecFn v i = vf i) :
    ∃ w, gates.foldlM (fun v g => match g.1 with
          | none => some v
          | some U => applyGateVec U g.2 n v) v = some w ∧ w.size = 2 ^ n ∧
      ∀ i < 2 ^ n, vecFn w i = (gatesFn gates).foldl (fun v g => match g.1 with
          | none => v
          | some U => applyGate U g.2 v) vf i := by
  induction gates generalizing v vf with
  | nil => exact ⟨v, rfl, hv, hvf⟩
  | cons g gs ih =>
    have hgs : GatesVecOK n gs := fun g' hg' => hok g' (List.mem_cons_of_mem _ hg')
    obtain ⟨U?, qs⟩ := g
    cases U? with
    | none =>
      simp only [List.foldlM_cons, gatesFn, List.map_cons, Option.map_none, List.foldl_cons]
      exact ih hgs v vf hv hvf
    | some U =>
      have hg := hok (some U, qs) List.mem_cons_self U rfl
      simp only [List.foldlM_cons, gatesFn, List.map_cons, Option.map_some, List.foldl_cons]
      rw [applyGateVec_eq U qs n v hg.1 hg.2 hv]
      apply ih hgs
      · simp
      · intro i hi
        rw [vecFn_map_range _ _ _ hi]
        exact applyGate_congr' (matFn U) qs n _ _ hg.2 hvf i hi

/-- `runGates` never fails on a well-formed gate list and agrees with the function form. -/
theorem runGates_eq_fn [Add K] [Mul K] [Zero K] [One K] (n : Nat)
    (gates : List (Option (Array (Array K)) × List Nat)) (hok : GatesVecOK n gates) :
    ∃ w, runGates n gates = some w ∧ w.size = 2 ^ n ∧
      ∀ i < 2 ^ n, vecFn w i = runGatesFn (gatesFn gates) i := by
  unfold runGates runGatesFn
  exact foldlM_gates_eq n gates hok (e0Vec n) e0 (by simp [e0Vec]) (fun i hi => vecFn_e0Vec n i hi)

end Jaqal.Emulator
