import JaqalProofs.Lemmas.PassesLegalRebuild
/-!
The invariant `Deep`: every qubit reference, and every register passed as an argument, goes through a chain that ends in
a fundamental register sized by a number or a let (`deepVal`).  It is what `fill_in_map` needs to keep
`ExpandMacros.WellFormed` (`fillInMap_wellFormed`), and all four passes keep it.
-/
namespace Jaqal.Passes
open Jaqal Jaqal.ExpandMacros Jaqal.FillIn Jaqal.Builder

/-- the invariant on a circuit -/
def Deep (c : Circuit) : Prop := ArgsAll deepVal c.body ∧ ∀ m ∈ c.macros, ArgsAll deepVal m.body

theorem argsAllList_append {Q : Val → Prop} : ∀ (a b : List Stmt), ArgsAllList Q a → ArgsAllList Q b → ArgsAllList Q (a ++ b)
  | [], _, _, hb => hb
  | _ :: r, b, ha, hb => ⟨ha.1, argsAllList_append r b ha.2 hb⟩

/-! ### values -/

theorem deepVal_of_base {v : Val} (hnq : ∀ n s i, v ≠ .qubit n s i) (h : baseBuilt v = true) : deepVal v := by
  cases v <;> first | exact h | exact absurd rfl (hnq _ _ _)

theorem isReg_not_qubit {v : Val} (h : isReg v = true) : ∀ n s i, v ≠ .qubit n s i := by
  intro n s i he; subst he; simp [isReg] at h

theorem letVal_baseBuilt {ov : List (String × Num)} : ∀ (v : Val) (rv : Bool) (v' : Val), letVal ov rv v = .ok v' →
    baseBuilt v = true → baseBuilt v' = true := by
  intro v
  induction v with
  | const n d =>
    intro rv v' h _
    rcases resolveConstant_numeric (v := .const n d) h with ⟨k, rfl⟩ | ⟨d', rfl⟩ <;> rfl
  | qubit n src idx _ _ =>
    intro rv v' h _
    simp only [letVal] at h
    obtain ⟨nf, _, h⟩ := bind_ok h
    split at h
    · obtain ⟨ni, _, h⟩ := bind_ok h
      obtain ⟨_, hq⟩ := constIndexQubit_mk h
      rw [mkQubit_eq hq]; rfl
    · rw [mkQubit_eq h]; rfl
  | regF n size _ =>
    intro rv v' h hb
    simp only [letVal] at h
    split at h
    · obtain ⟨ns, hns, h⟩ := bind_ok h
      rw [mkRegister_eq h]
      rcases resolveConstant_numeric hns with ⟨k, rfl⟩ | ⟨d', rfl⟩ <;> rfl
    · cases h; exact hb
  | regA n src ih =>
    intro rv v' h hb
    simp only [letVal] at h
    obtain ⟨nf, hnf, h⟩ := bind_ok h
    cases h
    simpa [baseBuilt] using ih rv nf hnf (by simpa [baseBuilt] using hb)
  | regS n src a b s ihs _ _ _ =>
    intro rv v' h hb
    simp only [letVal] at h
    obtain ⟨nf, hnf, h⟩ := bind_ok h
    obtain ⟨a', _, h⟩ := bind_ok h
    obtain ⟨b', _, h⟩ := bind_ok h
    obtain ⟨s', _, h⟩ := bind_ok h
    obtain ⟨rfl, _⟩ := mkSliceN_eq h
    simpa [baseBuilt] using ihs rv nf hnf (by simpa [baseBuilt] using hb)
  | int _ => intro rv v' h hb; cases h; exact hb
  | flt _ => intro rv v' h hb; cases h; exact hb
  | param _ _ => intro rv v' h hb; cases h; exact hb
  | none => intro rv v' h hb; cases h; exact hb
  | str _ => intro rv v' h hb; cases h; exact hb

theorem letVal_deep {ov : List (String × Num)} {v v' : Val} (hd : deepVal v) (h : letVal ov false v = .ok v') : deepVal v' := by
  cases v with
  | qubit n src idx =>
    simp only [letVal] at h
    obtain ⟨nf, hnf, h⟩ := bind_ok h
    have hb := letVal_baseBuilt src false nf hnf hd
    split at h
    · obtain ⟨ni, _, h⟩ := bind_ok h
      obtain ⟨_, hq⟩ := constIndexQubit_mk h
      rw [mkQubit_eq hq]; exact hb
    · rw [mkQubit_eq h]; exact hb
  | const n d =>
    rcases resolveConstant_numeric (v := .const n d) h with ⟨k, rfl⟩ | ⟨d', rfl⟩ <;> rfl
  | regF n sz => exact deepVal_of_base (isReg_not_qubit ((letVal_keeps _ false v' h).2.1 rfl)) (letVal_baseBuilt _ false v' h hd)
  | regA n src => exact deepVal_of_base (isReg_not_qubit ((letVal_keeps _ false v' h).2.1 rfl)) (letVal_baseBuilt _ false v' h hd)
  | regS n src a b s => exact deepVal_of_base (isReg_not_qubit ((letVal_keeps _ false v' h).2.1 rfl)) (letVal_baseBuilt _ false v' h hd)
  | int _ => cases h; exact hd
  | flt _ => cases h; exact hd
  | param _ _ => cases h; exact hd
  | none => cases h; exact hd
  | str _ => cases h; exact hd

theorem mapVal_deep {mps : List String} {v v' : Val} (hv : vOK v = true) (hd : deepVal v) (h : mapVal mps v = .ok v') :
    deepVal v' := by
  cases v with
  | qubit n src idx =>
    obtain ⟨nm, r, sz, k, rfl, hb', _⟩ := mapVal_qubit_shape hd hv h
    exact hb'
  | regF n sz => simp only [mapVal, pure, Except.pure] at h; cases h; exact hd
  | regA _ _ => simp [mapVal, Builder.throw_eq] at h
  | regS _ _ _ _ _ => simp [mapVal, Builder.throw_eq] at h
  | int _ => cases h; exact hd
  | flt _ => cases h; exact hd
  | const _ _ => cases h; exact hd
  | param _ _ => cases h; exact hd
  | none => cases h; exact hd
  | str _ => cases h; exact hd

theorem substVal_deep (args : List (String × Val)) (hargs : ∀ a ∈ args, deepVal a.2) {v v' : Val} (hd : deepVal v)
    (h : substVal args v = .ok v') : deepVal v' := by
  cases v with
  | param n k =>
    rcases substVal_param h with hl | ⟨_, rfl⟩
    · obtain ⟨e, he, rfl⟩ := lookupArg_mem hl; exact hargs e he
    · exact hd
  | qubit n s i =>
    obtain ⟨s', i', nm, hs, ha, _, _, rfl⟩ := substVal_qubit_inv h
    show baseBuilt s' = true
    cases s with
    | param sn sk =>
      rcases substVal_param hs with hl | ⟨_, rfl⟩
      · obtain ⟨e, he, rfl⟩ := lookupArg_mem hl
        have := hargs e he
        cases hv2 : e.2 <;> rw [hv2] at ha this <;> first | exact this | simp [isArrayLike] at ha
      · rfl
    | qubit _ _ _ =>
      obtain ⟨_, _, _, _, _, _, _, rfl⟩ := substVal_qubit_inv hs
      simp [isArrayLike] at ha
    | regF _ _ => rw [substVal_reg (by rfl)] at hs; cases hs; exact hd
    | regA _ _ => rw [substVal_reg (by rfl)] at hs; cases hs; exact hd
    | regS _ _ _ _ _ => rw [substVal_reg (by rfl)] at hs; cases hs; exact hd
    | _ => simp only [substVal, pure, Except.pure, Except.ok.injEq] at hs; subst hs; simp [isArrayLike] at ha
  | _ => simp only [substVal, pure, Except.pure, Except.ok.injEq] at h; subst h; exact hd

/-! ### statements: the rebuilding passes -/

mutual
theorem Rel_argsAll {F G : Val → M Val} {P Q : Val → Prop} (hF : ∀ v v', P v → F v = .ok v' → Q v') :
    ∀ (s s' : Stmt), Rel F G s s' → ArgsAll P s → ArgsAll Q s'
  | .gate n gd args, .gate n' gd' args', h, hP => by
    simp only [Rel] at h
    simp only [ArgsAll] at hP ⊢
    intro a' ha'
    obtain ⟨a, ha, hab⟩ := forall₂_right h.2 a' ha'
    exact hF _ _ (hP a ha) hab
  | .block par sub it body, .block par' sub' it' body', h, hP => by
    simp only [Rel] at h
    simp only [ArgsAll] at hP ⊢
    exact Rel_argsAlls hF body body' h.2.2.2 hP
  | .loop c b, .loop c' b', h, hP => by
    simp only [Rel] at h
    simp only [ArgsAll] at hP ⊢
    exact Rel_argsAll hF b b' h.2 hP
  | .gate _ _ _, .block _ _ _ _, h, _ | .gate _ _ _, .loop _ _, h, _
  | .block _ _ _ _, .gate _ _ _, h, _ | .block _ _ _ _, .loop _ _, h, _
  | .loop _ _, .gate _ _ _, h, _ | .loop _ _, .block _ _ _ _, h, _ => by simp [Rel] at h
theorem Rel_argsAlls {F G : Val → M Val} {P Q : Val → Prop} (hF : ∀ v v', P v → F v = .ok v' → Q v') :
    ∀ (l l' : List Stmt), RelList F G l l' → ArgsAllList P l → ArgsAllList Q l'
  | [], [], _, _ => trivial
  | s :: ss, s' :: ss', h, hP => by
    simp only [RelList] at h
    exact ⟨Rel_argsAll hF s s' h.1 hP.1, Rel_argsAlls hF ss ss' h.2 hP.2⟩
  | [], _ :: _, h, _ | _ :: _, [], h, _ => by simp [RelList] at h
end

mutual
theorem argsAll_vOK (ms : List Macro) : ∀ (s : Stmt), wfStmt ms s = true → wfT s = true → ArgsAll (fun v => vOK v = true) s
  | .gate n gd a, hw, hT => by
    simp only [wfStmt] at hw
    simp only [wfT] at hT
    simp only [ArgsAll]
    exact wfGate_args ms hw hT
  | .loop c b, hw, hT => by
    simp only [wfStmt, Bool.and_eq_true] at hw
    simp only [wfT, Bool.and_eq_true] at hT
    simp only [ArgsAll]
    exact argsAll_vOK ms b hw.2 hT.2
  | .block _ _ _ body, hw, hT => by
    simp only [wfStmt, Bool.and_eq_true] at hw
    simp only [wfT, Bool.and_eq_true] at hT
    simp only [ArgsAll]
    exact argsAllList_vOK ms body hw.2 hT.2
theorem argsAllList_vOK (ms : List Macro) : ∀ (l : List Stmt), wfStmtList ms l = true → wfTList l = true →
    ArgsAllList (fun v => vOK v = true) l
  | [], _, _ => trivial
  | s :: r, hw, hT => by
    simp only [wfStmtList, Bool.and_eq_true] at hw
    simp only [wfTList, Bool.and_eq_true] at hT
    exact ⟨argsAll_vOK ms s hw.1 hT.1, argsAllList_vOK ms r hw.2 hT.2⟩
end

mutual
theorem argsAll_and {P Q : Val → Prop} : ∀ (s : Stmt), ArgsAll P s → ArgsAll Q s → ArgsAll (fun v => P v ∧ Q v) s
  | .gate _ _ _, h1, h2 => by simp only [ArgsAll] at *; exact fun a ha => ⟨h1 a ha, h2 a ha⟩
  | .loop _ b, h1, h2 => by simp only [ArgsAll] at *; exact argsAll_and b h1 h2
  | .block _ _ _ body, h1, h2 => by simp only [ArgsAll] at *; exact argsAllList_and body h1 h2
theorem argsAllList_and {P Q : Val → Prop} : ∀ (l : List Stmt), ArgsAllList P l → ArgsAllList Q l →
    ArgsAllList (fun v => P v ∧ Q v) l
  | [], _, _ => trivial
  | s :: r, h1, h2 => ⟨argsAll_and s h1.1 h2.1, argsAllList_and r h1.2 h2.2⟩
end

theorem rebuilt_deep {F G : Val → M Val} {Fm : Macro → Val → M Val} {P : Val → Prop}
    (hF : ∀ v v', P v → F v = .ok v' → deepVal v') (hFm : ∀ m v v', P v → Fm m v = .ok v' → deepVal v')
    {c c' : Circuit} {regs : List Val} {bs : List Stmt} (hbs : c.body = .block false false (.int 1) bs)
    (hP : ArgsAll P c.body ∧ ∀ m ∈ c.macros, ArgsAll P m.body) (hr : Rebuilt F Fm G c regs bs c') : Deep c' := by
  obtain ⟨ss, hc', hrel⟩ := hr.body
  have hPb := hP.1
  rw [hbs] at hPb
  simp only [ArgsAll] at hPb
  refine ⟨?_, ?_⟩
  · rw [hc']; simp only [ArgsAll]; exact Rel_argsAlls hF bs ss hrel hPb
  · intro m' hm'
    obtain ⟨m, hm, hmm⟩ := forall₂_right hr.macros m' hm'
    exact Rel_argsAll (hFm m) _ _ hmm.2.2 (hP.2 m hm)

/-- `fill_in_let` keeps `Deep` -/
theorem fillInLet_deep (ov : List (String × Num)) (c c' : Circuit) (hw2 : FillIn.WellFormed c) (hd : Deep c)
    (h : fillInLet ov c = .ok c') : Deep c' := by
  obtain ⟨bs, regs, hbs, _, hr⟩ := fillInLet_rebuilt hw2 h
  exact rebuilt_deep (P := deepVal) (fun _ _ hv hf => letVal_deep hv hf) (fun _ _ _ hv hf => letVal_deep hv hf) hbs hd hr

/-- `fill_in_map` keeps `Deep` -/
theorem fillInMap_deep (c c' : Circuit) (hw1 : ExpandMacros.WellFormed c = true) (hw2 : FillIn.WellFormed c) (hd : Deep c)
    (h : fillInMap c = .ok c') : Deep c' := by
  obtain ⟨bs, hbs, hr⟩ := fillInMap_rebuilt hw2 h
  simp only [ExpandMacros.WellFormed, Bool.and_eq_true] at hw1
  obtain ⟨⟨⟨⟨hwm, hwb⟩, _⟩, hTb⟩, hTm⟩ := hw1
  have hTm' : ∀ x ∈ c.macros, wfT x.body = true := by simpa [List.all_eq_true] using hTm
  refine rebuilt_deep (P := fun v => vOK v = true ∧ deepVal v) (fun _ _ hv hf => mapVal_deep hv.1 hv.2 hf)
    (fun _ _ _ hv hf => mapVal_deep hv.1 hv.2 hf) hbs ⟨?_, ?_⟩ hr
  · exact argsAll_and _ (argsAll_vOK c.macros _ hwb hTb) hd.1
  · intro m hm
    exact argsAll_and _ (argsAll_vOK c.macros _ (wfMacrosFrom_mem c.macros [] c.macros hwm m hm) (hTm' m hm)) (hd.2 m hm)

/-! ### statements: `expand_subcircuits` -/

mutual
theorem argsAll_spell {Q : Val → Prop} (p m : Stmt) (hp : ArgsAll Q p) (hm : ArgsAll Q m) : ∀ (s : Stmt),
    ArgsAll Q s → ArgsAll Q (ExpandSubcircuits.spell p m s)
  | .gate n gd a, h => by simpa [ExpandSubcircuits.spell] using h
  | .loop c b, h => by
    simp only [ExpandSubcircuits.spell, ArgsAll] at h ⊢
    exact argsAll_spell p m hp hm b h
  | .block par sub it body, h => by
    simp only [ArgsAll] at h
    have ih := argsAllList_spell p m hp hm body h
    cases sub with
    | false => simpa [ExpandSubcircuits.spell, ArgsAll] using ih
    | true =>
      simp only [ExpandSubcircuits.spell, if_true, ArgsAll]
      exact ⟨hp, argsAllList_append _ _ ih ⟨hm, trivial⟩⟩
theorem argsAllList_spell {Q : Val → Prop} (p m : Stmt) (hp : ArgsAll Q p) (hm : ArgsAll Q m) : ∀ (l : List Stmt),
    ArgsAllList Q l → ArgsAllList Q (ExpandSubcircuits.spellList p m l)
  | [], _ => trivial
  | s :: r, h => ⟨argsAll_spell p m hp hm s h.1, argsAllList_spell p m hp hm r h.2⟩
end

/-- `expand_subcircuits` keeps `Deep` -/
theorem expandSubcircuits_deep (c c' : Circuit) (hw1 : ExpandMacros.WellFormed c = true) (hd : Deep c)
    (h : ExpandSubcircuits.expandSubcircuits none none c = .ok c') : Deep c' := by
  obtain ⟨it, b0, hb0⟩ := WellFormed_body_block hw1
  have hbody := ExpandSubcircuits.C09_shape_body hb0 h
  have hmac := (ExpandSubcircuits.C09_shape h).1
  have hp : ArgsAll deepVal (ExpandSubcircuits.prepStmt none c) := by
    simp [ExpandSubcircuits.prepStmt, ExpandSubcircuits.boundGate, ArgsAll]
  have hm : ArgsAll deepVal (ExpandSubcircuits.measStmt none c) := by
    simp [ExpandSubcircuits.measStmt, ExpandSubcircuits.boundGate, ArgsAll]
  refine ⟨?_, ?_⟩
  · rw [hbody]; exact argsAll_spell _ _ hp hm _ hd.1
  · intro m' hm'
    rw [hmac] at hm'
    obtain ⟨m0, hm0, rfl⟩ := List.mem_map.1 hm'
    exact argsAll_spell _ _ hp hm _ (hd.2 m0 hm0)

/-! ### statements: `expand_macros` -/

section mac
variable (ms : List Macro)

/-- what `call` is given (as in `CallOut`, plus `deepVal` arguments), and what it must return -/
def CallD (call : Stmt → M Stmt) : Prop :=
  ∀ (n : String) (gd : GateDef) (a : List (String × Val)) (g' : Stmt), wfGate ms n gd a = true →
    (∀ e ∈ a, vOK e.2 = true) → (∀ e ∈ a, deepVal e.2) → call (.gate n gd a) = .ok g' → ArgsAll deepVal g'

theorem substArgs_deep (args : List (String × Val)) (hargs : ∀ a ∈ args, deepVal a.2) :
    ∀ (gargs new : List (String × Val)), (∀ a ∈ gargs, deepVal a.2) → substArgs args gargs = .ok new →
      ∀ a ∈ new, deepVal a.2
  | [], new, _, h => by simp only [substArgs, pure, Except.pure, Except.ok.injEq] at h; subst h; simp
  | (n, v) :: rest, new, hg, h => by
    simp only [substArgs, bind, Except.bind] at h
    cases h1 : substVal args v with
    | error e => rw [h1] at h; cases h
    | ok v' =>
      rw [h1] at h; simp only at h
      cases h2 : substArgs args rest with
      | error e => rw [h2] at h; cases h
      | ok rest' =>
        rw [h2] at h; simp only [pure, Except.pure, Except.ok.injEq] at h; subst h
        intro a ha
        rcases List.mem_cons.1 ha with rfl | ha
        · exact substVal_deep args hargs (hg (n, v) (by simp)) h1
        · exact substArgs_deep args hargs rest rest' (fun a ha => hg a (by simp [ha])) h2 a ha

theorem argsAll_spliceInto {Q : Val → Prop} (par : Bool) (s : Stmt) (r : List Stmt) (hs : ArgsAll Q s) (hr : ArgsAllList Q r) :
    ArgsAllList Q (spliceInto par s r) := by
  unfold spliceInto
  split
  · next p it b =>
    split
    · simp only [ArgsAll] at hs
      exact argsAllList_append _ _ hs hr
    · exact ⟨hs, hr⟩
  · exact ⟨hs, hr⟩

mutual
  theorem replStmt_deep (call : Stmt → M Stmt) (hc : CallD ms call) (args : List (String × Val))
      (hargs : ∀ a ∈ args, vOK a.2 = true) (hargsD : ∀ a ∈ args, deepVal a.2) :
      ∀ (s s' : Stmt), wfStmt ms s = true → wfT s = true → ArgsAll deepVal s → replStmt call args s = .ok s' →
        ArgsAll deepVal s'
    | .gate n gd gargs, s', hw, hT, hd, h => by
      simp only [replStmt, bind, Except.bind] at h
      cases h1 : substArgs args gargs with
      | error e => rw [h1] at h; cases h
      | ok new =>
        rw [h1] at h; simp only at h
        cases h2 : GateDef.callKw gd new with
        | error e => rw [h2] at h; cases h
        | ok g =>
          rw [h2] at h; simp only at h
          simp only [wfStmt] at hw
          simp only [wfT] at hT
          simp only [ArgsAll] at hd
          obtain ⟨hn, hnew⟩ := substArgs_ok args hargs gargs new (wfGate_args ms hw hT) h1
          have hnewD := substArgs_deep args hargsD gargs new hd h1
          have hw' := hw
          simp only [wfGate, Bool.and_eq_true, beq_iff_eq, decide_eq_true_eq] at hw'
          obtain ⟨⟨⟨⟨hname, hnames⟩, hnd⟩, _⟩, hfm⟩ := hw'
          have hg := callKw_ok h2 (by rw [hn]; exact hnames) hnd
          subst hg
          refine hc _ _ _ _ ?_ hnew hnewD h
          simp only [wfGate, Bool.and_eq_true, beq_iff_eq, decide_eq_true_eq, List.all_eq_true]
          refine ⟨⟨⟨⟨trivial, by rw [hn]; exact hnames⟩, hnd⟩, fun e he => ?_⟩, by rw [← hname]; exact hfm⟩
          have := hnew e he
          simp only [vOK, Bool.and_eq_true] at this
          exact this.1
    | .loop c body, s', hw, hT, hd, h => by
      simp only [replStmt, bind, Except.bind] at h
      cases h1 : substVal args c with
      | error e => rw [h1] at h; cases h
      | ok c' =>
        rw [h1] at h; simp only at h
        cases h2 : replStmt call args body with
        | error e => rw [h2] at h; cases h
        | ok b' =>
          rw [h2] at h; simp only at h
          obtain ⟨rfl, _⟩ := mkLoop_ok h
          simp only [wfStmt, Bool.and_eq_true] at hw
          simp only [wfT, Bool.and_eq_true] at hT
          simp only [ArgsAll] at hd ⊢
          exact replStmt_deep call hc args hargs hargsD body b' hw.2 hT.2 hd h2
    | .block par sub it body, s', hw, hT, hd, h => by
      simp only [replStmt, bind, Except.bind] at h
      cases h1 : replList call args par body with
      | error e => rw [h1] at h; cases h
      | ok stmts =>
        rw [h1] at h; simp only at h
        cases h2 : substVal args it with
        | error e => rw [h2] at h; cases h
        | ok it' =>
          rw [h2] at h; simp only at h
          simp only [wfStmt, Bool.and_eq_true] at hw
          simp only [wfT, Bool.and_eq_true] at hT
          simp only [ArgsAll] at hd
          rw [mkBlock_ok h]
          simp only [ArgsAll]
          exact replList_deep call hc args hargs hargsD par body stmts hw.2 hT.2 hd h1
  theorem replList_deep (call : Stmt → M Stmt) (hc : CallD ms call) (args : List (String × Val))
      (hargs : ∀ a ∈ args, vOK a.2 = true) (hargsD : ∀ a ∈ args, deepVal a.2) (par : Bool) :
      ∀ (l l' : List Stmt), wfStmtList ms l = true → wfTList l = true → ArgsAllList deepVal l →
        replList call args par l = .ok l' → ArgsAllList deepVal l'
    | [], l', _, _, _, h => by
      simp only [replList, pure, Except.pure, Except.ok.injEq] at h; subst h; trivial
    | s :: r, l', hw, hT, hd, h => by
      simp only [replList, bind, Except.bind] at h
      cases h1 : replStmt call args s with
      | error e => rw [h1] at h; cases h
      | ok s' =>
        rw [h1] at h; simp only at h
        cases h2 : replList call args par r with
        | error e => rw [h2] at h; cases h
        | ok r' =>
          rw [h2] at h; simp only [pure, Except.pure, Except.ok.injEq] at h; subst h
          simp only [wfStmtList, Bool.and_eq_true] at hw
          simp only [wfTList, Bool.and_eq_true] at hT
          exact argsAll_spliceInto par s' r' (replStmt_deep call hc args hargs hargsD s s' hw.1 hT.1 hd.1 h1)
            (replList_deep call hc args hargs hargsD par r r' hw.2 hT.2 hd.2 h2)
end

theorem replaceGate_deep (hwf : wfMacrosFrom ms [] ms = true) (hT : ∀ m ∈ ms, wfT m.body = true)
    (hD : ∀ m ∈ ms, ArgsAll deepVal m.body) : ∀ (fuel : Nat), CallD ms (replaceGate ms fuel) := by
  intro fuel
  induction fuel with
  | zero =>
    intro n gd a g' hw ha haD h
    simp only [replaceGate] at h
    cases hf : findMacro ms n with
    | none =>
      rw [hf] at h; simp only [pure, Except.pure, Except.ok.injEq] at h; subst h
      simpa [ArgsAll] using haD
    | some m => rw [hf] at h; simp only at h; split at h <;> cases h
  | succ f ih =>
    intro n gd a g' hw ha haD h
    simp only [replaceGate] at h
    cases hf : findMacro ms n with
    | none =>
      rw [hf] at h; simp only [pure, Except.pure, Except.ok.injEq] at h; subst h
      simpa [ArgsAll] using haD
    | some m =>
      rw [hf] at h; simp only at h
      split at h
      · cases h
      · have hmem : m ∈ ms := by
          obtain ⟨_, pre, post, hsp, _⟩ := findMacro_some_split hf
          rw [hsp]; simp
        exact replStmt_deep ms (replaceGate ms f) ih a ha haD m.body g' (wfMacrosFrom_mem ms [] ms hwf m hmem)
          (hT m hmem) (hD m hmem) h

mutual
  theorem expStmt_deep (call : Stmt → M Stmt) (hc : CallD ms call) :
      ∀ (s s' : Stmt), wfStmt ms s = true → wfT s = true → ArgsAll deepVal s → expStmt call s = .ok s' →
        ArgsAll deepVal s'
    | .gate n gd gargs, s', hw, hT, hd, h => by
      simp only [expStmt] at h
      simp only [wfStmt] at hw
      simp only [wfT] at hT
      simp only [ArgsAll] at hd
      exact hc _ _ _ _ hw (wfGate_args ms hw hT) hd h
    | .loop c body, s', hw, hT, hd, h => by
      simp only [expStmt, bind, Except.bind] at h
      cases h2 : expStmt call body with
      | error e => rw [h2] at h; cases h
      | ok b' =>
        rw [h2] at h; simp only at h
        obtain ⟨rfl, _⟩ := mkLoop_ok h
        simp only [wfStmt, Bool.and_eq_true] at hw
        simp only [wfT, Bool.and_eq_true] at hT
        simp only [ArgsAll] at hd ⊢
        exact expStmt_deep call hc body b' hw.2 hT.2 hd h2
    | .block par sub it body, s', hw, hT, hd, h => by
      simp only [expStmt, bind, Except.bind] at h
      cases h1 : expList call par body with
      | error e => rw [h1] at h; cases h
      | ok stmts =>
        rw [h1] at h; simp only at h
        simp only [wfStmt, Bool.and_eq_true] at hw
        simp only [wfT, Bool.and_eq_true] at hT
        simp only [ArgsAll] at hd
        rw [mkBlock_ok h]
        simp only [ArgsAll]
        exact expList_deep call hc par body stmts hw.2 hT.2 hd h1
  theorem expList_deep (call : Stmt → M Stmt) (hc : CallD ms call) (par : Bool) :
      ∀ (l l' : List Stmt), wfStmtList ms l = true → wfTList l = true → ArgsAllList deepVal l →
        expList call par l = .ok l' → ArgsAllList deepVal l'
    | [], l', _, _, _, h => by
      simp only [expList, pure, Except.pure, Except.ok.injEq] at h; subst h; trivial
    | s :: r, l', hw, hT, hd, h => by
      simp only [expList, bind, Except.bind] at h
      cases h1 : expStmt call s with
      | error e => rw [h1] at h; cases h
      | ok s' =>
        rw [h1] at h; simp only at h
        cases h2 : expList call par r with
        | error e => rw [h2] at h; cases h
        | ok r' =>
          rw [h2] at h; simp only [pure, Except.pure, Except.ok.injEq] at h; subst h
          simp only [wfStmtList, Bool.and_eq_true] at hw
          simp only [wfTList, Bool.and_eq_true] at hT
          exact argsAll_spliceInto par s' r' (expStmt_deep call hc s s' hw.1 hT.1 hd.1 h1)
            (expList_deep call hc par r r' hw.2 hT.2 hd.2 h2)
end

end mac

/-- `expand_macros` keeps `Deep` -/
theorem expandMacros_deep (p : Bool) (c c' : Circuit) (hw : ExpandMacros.WellFormed c = true) (hd : Deep c)
    (h : expandMacros p c = .ok c') : Deep c' := by
  obtain ⟨it, b0, hb0⟩ := WellFormed_body_block hw
  obtain ⟨body, stmts, hexp, hs, rfl⟩ := expand_ok h
  simp only [ExpandMacros.WellFormed, Bool.and_eq_true] at hw
  obtain ⟨⟨⟨⟨hwm, hwb⟩, _⟩, hTb⟩, hTm⟩ := hw
  have hTm' : ∀ x ∈ c.macros, wfT x.body = true := by simpa [List.all_eq_true] using hTm
  have hcall := replaceGate_deep c.macros hwm hTm' hd.2 c.macros.length
  have hout := expStmt_deep c.macros _ hcall c.body body hwb hTb hd.1 hexp
  rw [hb0] at hexp
  simp only [expStmt, bind, Except.bind] at hexp
  cases hl : expList (replaceGate c.macros c.macros.length) false b0 with
  | error e => rw [hl] at hexp; cases hexp
  | ok l =>
    rw [hl] at hexp; simp only at hexp
    have := mkBlock_ok hexp; subst this
    simp only [statementsOf, pure, Except.pure, Except.ok.injEq] at hs; subst hs
    simp only [ArgsAll] at hout
    refine ⟨by simpa [ArgsAll] using hout, ?_⟩
    intro m hm
    cases p with
    | true => exact hd.2 m hm
    | false => cases hm

end Jaqal.Passes

#print axioms Jaqal.Passes.expandMacros_deep
#print axioms Jaqal.Passes.expandSubcircuits_deep
#print axioms Jaqal.Passes.fillInLet_deep
#print axioms Jaqal.Passes.fillInMap_deep
