import JaqalProofs.Lemmas.LetTextSem
import JaqalProofs.Lemmas.RoundTripRebuild
import JaqalProofs.Props.C07
/-!
# The builder on a program and on the program with its lets rewritten: two runs in lockstep

`reval ov` (`Lemmas/LetTextSem.lean`) lifted to contexts, gate tables, built objects and accumulators.  The builder stores
every reference to a let-constant SYMBOLICALLY (the `Constant` object) — except in one place: `build_map` stores a defaulted
slice stop as `src.size`, which for a slice alias `src` is a NUMBER computed from the declared values.  Everywhere else, when
the builder (memo switched off: `C07_memo_transparent`) succeeds on a statement in a context and also in the re-valued context,
the second result is the re-valued first result.
-/
set_option linter.unusedVariables false
set_option linter.unusedSimpArgs false
namespace Jaqal.FillIn
open Jaqal Jaqal.Builder Jaqal.RoundTrip

variable (ov : List (String × Num))

def revalEntry : GEntry → GEntry
  | .gdef g => .gdef g
  | .macro m => .macro (revalMacro ov m)

def revalG (g : GCtx) : GCtx := g.map (fun p => (p.1, revalEntry ov p.2))

def revalCtx (ctx : Ctx) : Ctx := { ctx with vars := ctx.vars.map (fun p => (p.1, reval ov p.2)) }

/-- memo switched off: the table is never written -/
def revalSt (st : St) : St := { memo := st.memo, gctx := revalG ov st.gctx }

def revalObj : Obj → Obj
  | .val v => .val (reval ov v)
  | .stmt s => .stmt (revalStmt ov s)
  | .macro m => .macro (revalMacro ov m)
  | o => o

/-! ### dictionaries -/

theorem lookup_map {α β : Type} (f : α → β) (n : String) : ∀ l : List (String × α),
    (l.map (fun p => (p.1, f p.2))).lookup n = (l.lookup n).map f
  | [] => rfl
  | (k, v) :: r => by
    simp only [List.map_cons, List.lookup]
    cases h : (n == k)
    · exact lookup_map f n r
    · rfl

theorem ctx_get_reval (ctx : Ctx) (s : String) : (revalCtx ov ctx).get s = (ctx.get s).map (reval ov) := by
  simp only [Ctx.get, revalCtx]
  exact lookup_map (reval ov) s ctx.vars

theorem g_lookup_reval (g : GCtx) (n : String) : (revalG ov g).lookup n = (g.lookup n).map (revalEntry ov) :=
  lookup_map (revalEntry ov) n g

theorem toDef_reval (e : GEntry) : (revalEntry ov e).toDef = e.toDef := by
  cases e <;> rfl

/-! ### `reval` and the small functions of the builder -/

theorem reval_ofNum (x : Num) : reval ov (Val.ofNum x) = Val.ofNum x := by
  cases x <;> rfl

theorem asIntegerV_reval (v : Val) : asIntegerV (reval ov v) = reval ov (asIntegerV v) := by
  cases v with
  | flt d => simp only [reval, asIntegerV, reval_ofNum]
  | const n d => obtain ⟨y, hy⟩ := reval_const ov n d; simp only [hy, asIntegerV]
  | _ => rfl

theorem name_reval (v : Val) : (reval ov v).name? = v.name? := by
  cases v with
  | const n d => obtain ⟨y, hy⟩ := reval_const ov n d; rw [hy]; rfl
  | _ => rfl

theorem itemName_reval (an : String) (v : Val) : Builder.itemName an (reval ov v) = Builder.itemName an v := by
  cases v with
  | const n d => obtain ⟨y, hy⟩ := reval_const ov n d; rw [hy]; rfl
  | _ => rfl

theorem isRegister_reval (v : Val) : Builder.isRegister (reval ov v) = Builder.isRegister v := by
  cases v with
  | const n d => obtain ⟨y, hy⟩ := reval_const ov n d; rw [hy]; rfl
  | _ => rfl

theorem isParam_reval (v : Val) : isParam (reval ov v) = isParam v := by
  cases v with
  | const n d => obtain ⟨y, hy⟩ := reval_const ov n d; rw [hy]; rfl
  | _ => rfl

theorem reval_beq_none (v : Val) : (reval ov v == Val.none) = (v == Val.none) := by
  by_cases h : v = .none
  · subst h; rfl
  · have h' : reval ov v ≠ .none := fun hh => h (reval_eq_none.1 hh)
    simp [h, h']

/-! ### values -/

theorem buildVal_atom_reval (ctx : Ctx) (f : Nat) (e : BSx) (h1 : ∀ l, e ≠ .list l) (h2 : ∀ v, e ≠ .val v) :
    buildVal (revalCtx ov ctx) f e = (buildVal ctx f e).map (reval ov) := by
  cases e with
  | str s =>
    rw [buildVal_str, buildVal_str]
    unfold lookupId
    rw [ctx_get_reval]
    cases ctx.get s <;> rfl
  | int i => rw [buildVal_int, buildVal_int]; rfl
  | flt d => rw [buildVal_flt, buildVal_flt]; rfl
  | none => rw [buildVal_none, buildVal_none]; rfl
  | list l => exact absurd rfl (h1 l)
  | val v => exact absurd rfl (h2 v)

theorem atom_rel {ctx : Ctx} {f : Nat} {e : BSx} {v v' : Val} (h1 : ∀ l, e ≠ .list l) (h2 : ∀ v, e ≠ .val v)
    (h : buildVal ctx f e = .ok v) (h' : buildVal (revalCtx ov ctx) f e = .ok v') : v' = reval ov v := by
  rw [buildVal_atom_reval ov ctx f e h1 h2, h] at h'
  cases h'; rfl

theorem intOrId_rel {ctx : Ctx} {f : Nat} {e : BSx} {v v' : Val} (he : isIntOrId e = true)
    (h : buildVal ctx f e = .ok v) (h' : buildVal (revalCtx ov ctx) f e = .ok v') : v' = reval ov v := by
  refine atom_rel ov ?_ ?_ h h' <;> intro x hx <;> subst hx <;> simp [isIntOrId] at he

theorem bound_rel {ctx : Ctx} {f : Nat} {e : BSx} {v v' : Val} (he : isBound e = true)
    (h : buildVal ctx f e = .ok v) (h' : buildVal (revalCtx ov ctx) f e = .ok v') : v' = reval ov v := by
  refine atom_rel ov ?_ ?_ h h' <;> intro x hx <;> subst hx <;> simp [isBound, isIntOrId] at he

theorem valStep_arrayItem (get : String → Option Val) (rec : BSx → M Val) (a idx : BSx) :
    valStep get rec [.str "array_item", a, idx] = (rec a >>= fun arr => rec idx >>= fun i0 =>
      if !(Builder.isRegister arr || isParam arr) then throw (.jaqal "not-a-register")
      else Builder.getItem arr (asIntegerV i0)) := by
  simp only [valStep, String.reduceEq, if_false, if_true]
  congr 1

theorem getItem_rel {arr idx v v' : Val} (h : Builder.getItem arr idx = .ok v)
    (h' : Builder.getItem (reval ov arr) (reval ov idx) = .ok v') : v' = reval ov v := by
  unfold Builder.getItem at h h'
  rw [name_reval] at h'
  cases han : arr.name? with
  | none => simp [han, throw_eq] at h
  | some an =>
    simp only [han, itemName_reval] at h h'
    cases hin : Builder.itemName an idx with
    | none =>
      simp only [hin] at h
      obtain ⟨_, _, h⟩ := bind_ok h
      simp [throw_eq] at h
    | some nm =>
      simp only [hin] at h h'
      rw [mkQubit_eq h, mkQubit_eq h']
      rfl

theorem gateArg_rel {ctx : Ctx} {f : Nat} {a : BSx} {v v' : Val} (ha : isGateArg a = true)
    (h : buildVal ctx f a = .ok v) (h' : buildVal (revalCtx ov ctx) f a = .ok v') : v' = reval ov v := by
  unfold isGateArg at ha
  split at ha
  · exact atom_rel ov (fun _ hx => by cases hx) (fun _ hx => by cases hx) h h'
  · exact atom_rel ov (fun _ hx => by cases hx) (fun _ hx => by cases hx) h h'
  · exact atom_rel ov (fun _ hx => by cases hx) (fun _ hx => by cases hx) h h'
  · rename_i an idx
    cases f with
    | zero => simp [buildVal, throw_eq] at h
    | succ f =>
      have e1 : ∀ c : Ctx, buildVal c (f + 1) (.list [.str "array_item", .str an, idx]) =
          valStep c.get (buildVal c f) [.str "array_item", .str an, idx] := fun _ => rfl
      rw [e1, valStep_arrayItem] at h h'
      obtain ⟨arr, harr, h⟩ := bind_ok h
      obtain ⟨i0, hi0, h⟩ := bind_ok h
      obtain ⟨arr', harr', h'⟩ := bind_ok h'
      obtain ⟨i0', hi0', h'⟩ := bind_ok h'
      split at h
      · simp [throw_eq] at h
      split at h'
      · simp [throw_eq] at h'
      have ea := atom_rel ov (fun _ hx => by cases hx) (fun _ hx => by cases hx) harr harr'
      have ei := intOrId_rel ov ha hi0 hi0'
      subst ea ei
      simp only [asIntegerV_reval] at h'
      exact getItem_rel ov h h'
  · cases ha

theorem args_rel {ctx : Ctx} {f : Nat} : ∀ {args : List BSx} {vals vals' : List Val}, args.all isGateArg = true →
    args.mapM (buildVal ctx f) = .ok vals → args.mapM (buildVal (revalCtx ov ctx) f) = .ok vals' →
    vals' = vals.map (reval ov)
  | [], vals, vals', _, h, h' => by
    simp only [List.mapM_nil, pure, Except.pure, Except.ok.injEq] at h h'
    subst h h'; rfl
  | a :: as, vals, vals', ha, h, h' => by
    simp only [List.all_cons, Bool.and_eq_true] at ha
    simp only [List.mapM_cons] at h h'
    obtain ⟨v, hv, h⟩ := bind_ok h
    obtain ⟨vs, hvs, h⟩ := bind_ok h
    obtain ⟨v', hv', h'⟩ := bind_ok h'
    obtain ⟨vs', hvs', h'⟩ := bind_ok h'
    simp only [pure, Except.pure, Except.ok.injEq] at h h'
    subst h h'
    rw [gateArg_rel ov ha.1 hv hv', args_rel ha.2 hvs hvs']
    rfl

/-! ### gate statements -/

theorem pairs_eq {α β : Type} : ∀ {l l' : List (α × β)}, l.map (·.1) = l'.map (·.1) → l.map (·.2) = l'.map (·.2) → l = l'
  | [], [], _, _ => rfl
  | [], _ :: _, h, _ => by simp at h
  | _ :: _, [], h, _ => by simp at h
  | (a, b) :: l, (a', b') :: l', h1, h2 => by
    simp only [List.map_cons, List.cons.injEq] at h1 h2
    obtain ⟨rfl, h1⟩ := h1
    obtain ⟨rfl, h2⟩ := h2
    rw [pairs_eq h1 h2]

theorem callDef_rel {gd : GateDef} {vals : List Val} {s s' : Stmt} (h : callDef gd vals = .ok s)
    (h' : callDef gd (vals.map (reval ov)) = .ok s') : s' = revalStmt ov s := by
  obtain ⟨args, rfl, hv, hn⟩ := callDef_args h
  obtain ⟨args', rfl, hv', hn'⟩ := callDef_args h'
  simp only [revalStmt]
  congr 1
  apply pairs_eq
  · rw [hn']; simp only [revalArgs, List.map_map]; exact hn.symm
  · rw [hv', ← hv]; simp only [revalArgs, List.map_map]; rfl

theorem getGateDef_rel {cfg : Config} {name : String} {n : Nat} {g g1 g1' : GCtx} {gd gd' : GateDef}
    (h : getGateDef cfg name n g = .ok (gd, g1)) (h' : getGateDef cfg name n (revalG ov g) = .ok (gd', g1')) :
    gd' = gd ∧ g1' = revalG ov g1 := by
  unfold getGateDef at h h'
  rw [g_lookup_reval] at h'
  cases hl : g.lookup name with
  | some e =>
    rw [hl] at h h'
    simp only [Option.map_some, pure, Except.pure, Except.ok.injEq, Prod.mk.injEq] at h h'
    obtain ⟨rfl, rfl⟩ := h
    obtain ⟨rfl, rfl⟩ := h'
    exact ⟨toDef_reval ov e, rfl⟩
  | none =>
    rw [hl] at h h'
    simp only [Option.map_none] at h h'
    by_cases ha : cfg.anonymousAllowed = true
    · simp only [ha, if_true, pure, Except.pure, Except.ok.injEq, Prod.mk.injEq] at h h'
      obtain ⟨rfl, rfl⟩ := h
      obtain ⟨rfl, rfl⟩ := h'
      exact ⟨rfl, rfl⟩
    · simp [ha, throw_eq] at h

/-- `build_gate`, memo off -/
theorem buildGate_rel {cfg : Config} {ctx : Ctx} {f : Nat} {args : List BSx} {g : String} {st st1 st1' : St} {s s' : Stmt}
    (ha : args.all isGateArg = true)
    (h : buildGate cfg .off ctx (buildVal ctx f) (.str g :: args) st = .ok (s, st1))
    (h' : buildGate cfg .off (revalCtx ov ctx) (buildVal (revalCtx ov ctx) f) (.str g :: args) (revalSt ov st) = .ok (s', st1')) :
    s' = revalStmt ov s ∧ st1' = revalSt ov st1 := by
  simp only [buildGate] at h h'
  obtain ⟨_, _, h⟩ := bind_ok h
  obtain ⟨_, _, h'⟩ := bind_ok h'
  simp only [buildGateMemo, if_true] at h h'
  obtain ⟨⟨s0, g0⟩, hfresh, h⟩ := bind_ok h
  obtain ⟨⟨s0', g0'⟩, hfresh', h'⟩ := bind_ok h'
  simp only [pure, Except.pure, Except.ok.injEq, Prod.mk.injEq] at h h'
  obtain ⟨rfl, rfl⟩ := h
  obtain ⟨rfl, rfl⟩ := h'
  unfold buildGateFresh at hfresh hfresh'
  obtain ⟨⟨gd, g1⟩, hgd, h4⟩ := bind_ok hfresh
  obtain ⟨vals, hvals, h5⟩ := bind_ok h4
  obtain ⟨s2, hcall, h6⟩ := bind_ok h5
  obtain ⟨⟨gd', g1'⟩, hgd', h4'⟩ := bind_ok hfresh'
  obtain ⟨vals', hvals', h5'⟩ := bind_ok h4'
  obtain ⟨s2', hcall', h6'⟩ := bind_ok h5'
  simp only [pure, Except.pure, Except.ok.injEq, Prod.mk.injEq] at h6 h6'
  obtain ⟨rfl, rfl⟩ := h6
  obtain ⟨rfl, rfl⟩ := h6'
  simp only [revalSt] at hgd'
  obtain ⟨rfl, rfl⟩ := getGateDef_rel ov hgd hgd'
  have := args_rel ov ha hvals hvals'
  subst this
  exact ⟨callDef_rel ov hcall hcall', rfl⟩

/-! ### statements -/

/-- the claim for fuel `f`: a statement of the grammar built in a context and in the re-valued context (memo off) -/
def StmtRel (cfg : Config) (f : Nat) : Prop :=
  ∀ (ctx : Ctx) (par : Bool) (e : BSx) (st st1 st1' : St) (o o' : Obj), GStmt par e →
    buildAny cfg .off f ctx e st = .ok (o, st1) →
    buildAny cfg .off f (revalCtx ov ctx) e (revalSt ov st) = .ok (o', st1') →
    o' = revalObj ov o ∧ st1' = revalSt ov st1 ∧ ∃ s, o = .stmt s

theorem asStmts_rel : ∀ {os : List Obj} {ss ss' : List Stmt}, asStmts os = .ok ss →
    asStmts (os.map (revalObj ov)) = .ok ss' → ss' = revalStmts ov ss
  | [], ss, ss', h, h' => by
    simp only [asStmts, List.map_nil, pure, Except.pure, Except.ok.injEq] at h h'
    subst h h'; rfl
  | o :: os, ss, ss', h, h' => by
    cases o with
    | stmt s =>
      simp only [List.map_cons, revalObj, asStmts] at h h'
      obtain ⟨r, hr, h⟩ := bind_ok h
      obtain ⟨r', hr', h'⟩ := bind_ok h'
      simp only [pure, Except.pure, Except.ok.injEq] at h h'
      subst h h'
      rw [asStmts_rel hr hr']; rfl
    | _ => simp [asStmts, throw_eq] at h

theorem mapMSt_rel {cfg : Config} {f : Nat} (IH : StmtRel ov cfg f) {par : Bool} (ctx : Ctx) :
    ∀ {items : List BSx} {st st1 st1' : St} {os os' : List Obj}, (∀ x ∈ items, GStmt par x) →
    mapMSt (buildAny cfg .off f ctx) items st = .ok (os, st1) →
    mapMSt (buildAny cfg .off f (revalCtx ov ctx)) items (revalSt ov st) = .ok (os', st1') →
    os' = os.map (revalObj ov) ∧ st1' = revalSt ov st1
  | [], st, st1, st1', os, os', _, h, h' => by
    simp only [mapMSt, pure, Except.pure, Except.ok.injEq, Prod.mk.injEq] at h h'
    obtain ⟨rfl, rfl⟩ := h
    obtain ⟨rfl, rfl⟩ := h'
    exact ⟨rfl, rfl⟩
  | x :: xs, st, st1, st1', os, os', hg, h, h' => by
    simp only [mapMSt] at h h'
    obtain ⟨⟨o, s1⟩, hx, h1⟩ := bind_ok h
    obtain ⟨⟨os0, s2⟩, hxs, h2⟩ := bind_ok h1
    obtain ⟨⟨o', s1'⟩, hx', h1'⟩ := bind_ok h'
    obtain ⟨⟨os0', s2'⟩, hxs', h2'⟩ := bind_ok h1'
    simp only [pure, Except.pure, Except.ok.injEq, Prod.mk.injEq] at h2 h2'
    obtain ⟨rfl, rfl⟩ := h2
    obtain ⟨rfl, rfl⟩ := h2'
    obtain ⟨rfl, rfl, _⟩ := IH ctx par x st s1 s1' o o' (hg x (by simp)) hx hx'
    obtain ⟨rfl, rfl⟩ := mapMSt_rel IH ctx (fun y hy => hg y (by simp [hy])) hxs hxs'
    exact ⟨rfl, rfl⟩

theorem gate_rel {cfg : Config} {ctx : Ctx} {f : Nat} {g : String} {args : List BSx} {st st1 st1' : St} {o o' : Obj}
    (ha : args.all isGateArg = true)
    (h : buildAny cfg .off (f + 1) ctx (.list (.str "gate" :: .str g :: args)) st = .ok (o, st1))
    (h' : buildAny cfg .off (f + 1) (revalCtx ov ctx) (.list (.str "gate" :: .str g :: args)) (revalSt ov st) = .ok (o', st1')) :
    o' = revalObj ov o ∧ st1' = revalSt ov st1 ∧ ∃ s, o = .stmt s := by
  rw [buildAny_list, anyStep_gate] at h h'
  obtain ⟨⟨s, s1⟩, hbg, h1⟩ := bind_ok h
  obtain ⟨⟨s', s1'⟩, hbg', h1'⟩ := bind_ok h'
  simp only [pure, Except.pure, Except.ok.injEq, Prod.mk.injEq] at h1 h1'
  obtain ⟨rfl, rfl⟩ := h1
  obtain ⟨rfl, rfl⟩ := h1'
  obtain ⟨rfl, rfl⟩ := buildGate_rel ov ha hbg hbg'
  exact ⟨rfl, rfl, _, rfl⟩

theorem block_rel {cfg : Config} {f : Nat} (IH : StmtRel ov cfg f) {ctx : Ctx} {p : Bool}
    {items : List BSx} {st st1 st1' : St} {o o' : Obj} (hg : ∀ x ∈ items, GStmt p x)
    (h : buildAny cfg .off (f + 1) ctx (.list (.str (blockCmdB p) :: items)) st = .ok (o, st1))
    (h' : buildAny cfg .off (f + 1) (revalCtx ov ctx) (.list (.str (blockCmdB p) :: items)) (revalSt ov st) = .ok (o', st1')) :
    o' = revalObj ov o ∧ st1' = revalSt ov st1 ∧ ∃ s, o = .stmt s := by
  cases p with
  | false =>
    simp only [blockCmdB, Bool.false_eq_true, if_false] at h h'
    rw [buildAny_list, anyStep_seq] at h h'
    obtain ⟨⟨os, s1⟩, hm, h1⟩ := bind_ok h
    obtain ⟨ss0, has, h2⟩ := bind_ok h1
    obtain ⟨⟨os', s1'⟩, hm', h1'⟩ := bind_ok h'
    obtain ⟨ss0', has', h2'⟩ := bind_ok h1'
    simp only [pure, Except.pure, Except.ok.injEq, Prod.mk.injEq] at h2 h2'
    obtain ⟨rfl, rfl⟩ := h2
    obtain ⟨rfl, rfl⟩ := h2'
    obtain ⟨rfl, rfl⟩ := mapMSt_rel ov IH { ctx with inSeq := true } hg hm hm'
    rw [asStmts_rel ov has has']
    exact ⟨rfl, rfl, _, rfl⟩
  | true =>
    simp only [blockCmdB, if_true] at h h'
    rw [buildAny_list, anyStep_par] at h h'
    obtain ⟨⟨os, s1⟩, hm, h1⟩ := bind_ok h
    obtain ⟨ss0, has, h2⟩ := bind_ok h1
    obtain ⟨⟨os', s1'⟩, hm', h1'⟩ := bind_ok h'
    obtain ⟨ss0', has', h2'⟩ := bind_ok h1'
    simp only [pure, Except.pure, Except.ok.injEq, Prod.mk.injEq] at h2 h2'
    obtain ⟨rfl, rfl⟩ := h2
    obtain ⟨rfl, rfl⟩ := h2'
    obtain ⟨rfl, rfl⟩ := mapMSt_rel ov IH { ctx with inPar := true } hg hm hm'
    rw [asStmts_rel ov has has']
    exact ⟨rfl, rfl, _, rfl⟩

theorem subCount_rel {ctx : Ctx} {f : Nat} {c : BSx} {v v' : Val} (hc : isIntOrId c = true)
    (h : subCount (buildVal ctx f) c = .ok v) (h' : subCount (buildVal (revalCtx ov ctx) f) c = .ok v') :
    v' = reval ov v := by
  cases c with
  | int i => rw [subCount_int] at h h'; exact intOrId_rel ov hc h h'
  | str n =>
    by_cases hn : n = ""
    · subst hn
      rw [subCount_empty] at h h'
      cases h; cases h'; rfl
    · rw [subCount_str_ne _ hn] at h h'
      exact intOrId_rel ov hc h h'
  | _ => simp [isIntOrId] at hc

theorem sub_rel {cfg : Config} {f : Nat} (IH : StmtRel ov cfg f) {ctx : Ctx} {c : BSx}
    {items : List BSx} {st st1 st1' : St} {o o' : Obj} (hcnt : isIntOrId c = true) (hg : ∀ x ∈ items, GStmt false x)
    (h : buildAny cfg .off (f + 1) ctx (.list (.str "subcircuit_block" :: c :: items)) st = .ok (o, st1))
    (h' : buildAny cfg .off (f + 1) (revalCtx ov ctx) (.list (.str "subcircuit_block" :: c :: items)) (revalSt ov st) =
      .ok (o', st1')) :
    o' = revalObj ov o ∧ st1' = revalSt ov st1 ∧ ∃ s, o = .stmt s := by
  rw [buildAny_list, anyStep_sub] at h h'
  by_cases hflag : (ctx.inSub || ctx.inPar) = true
  · simp [hflag, throw_eq] at h
  · have hflag' : ((revalCtx ov ctx).inSub || (revalCtx ov ctx).inPar) = (ctx.inSub || ctx.inPar) := rfl
    simp only [hflag', hflag, Bool.false_eq_true, if_false] at h h'
    obtain ⟨⟨os, s1⟩, hm, h1⟩ := bind_ok h
    obtain ⟨count, hcount, h2⟩ := bind_ok h1
    obtain ⟨_, hval, h3⟩ := bind_ok h2
    obtain ⟨ss0, has, h4⟩ := bind_ok h3
    obtain ⟨⟨os', s1'⟩, hm', h1'⟩ := bind_ok h'
    obtain ⟨count', hcount', h2'⟩ := bind_ok h1'
    obtain ⟨_, hval', h3'⟩ := bind_ok h2'
    obtain ⟨ss0', has', h4'⟩ := bind_ok h3'
    simp only [pure, Except.pure, Except.ok.injEq, Prod.mk.injEq] at h4 h4'
    obtain ⟨rfl, rfl⟩ := h4
    obtain ⟨rfl, rfl⟩ := h4'
    obtain ⟨rfl, rfl⟩ := mapMSt_rel ov IH { ctx with inSub := true } hg hm hm'
    rw [asStmts_rel ov has has', subCount_rel ov hcnt hcount hcount']
    exact ⟨rfl, rfl, _, rfl⟩

theorem loop_rel {cfg : Config} {f : Nat} (IH : StmtRel ov cfg f) {ctx : Ctx} {c : BSx} {p : Bool}
    {items : List BSx} {st st1 st1' : St} {o o' : Obj} (hcnt : isIntOrId c = true) (hg : ∀ x ∈ items, GStmt p x)
    (h : buildAny cfg .off (f + 1) ctx (.list [.str "loop", c, .list (.str (blockCmdB p) :: items)]) st = .ok (o, st1))
    (h' : buildAny cfg .off (f + 1) (revalCtx ov ctx) (.list [.str "loop", c, .list (.str (blockCmdB p) :: items)])
      (revalSt ov st) = .ok (o', st1')) :
    o' = revalObj ov o ∧ st1' = revalSt ov st1 ∧ ∃ s, o = .stmt s := by
  rw [buildAny_list, anyStep_loop] at h h'
  obtain ⟨count, hcount, h1⟩ := bind_ok h
  obtain ⟨⟨ob, s1⟩, hbody, h2⟩ := bind_ok h1
  obtain ⟨count', hcount', h1'⟩ := bind_ok h'
  obtain ⟨⟨ob', s1'⟩, hbody', h2'⟩ := bind_ok h1'
  have hgb : GStmt (!p) (.list (.str (blockCmdB p) :: items)) := by
    cases p
    · exact GStmt.seqB hg
    · exact GStmt.parB hg
  obtain ⟨rfl, rfl, _⟩ := IH ctx (!p) _ st s1 s1' ob ob' hgb hbody hbody'
  have ec := intOrId_rel ov hcnt hcount hcount'
  subst ec
  cases ob with
  | stmt s =>
    simp only [revalObj] at h2 h2'
    obtain ⟨_, _, h3⟩ := bind_ok h2
    obtain ⟨_, _, h3'⟩ := bind_ok h2'
    simp only [pure, Except.pure, Except.ok.injEq, Prod.mk.injEq] at h3 h3'
    obtain ⟨rfl, rfl⟩ := h3
    obtain ⟨rfl, rfl⟩ := h3'
    exact ⟨rfl, rfl, _, rfl⟩
  | val v =>
    cases v with
    | none =>
      simp only [revalObj, reval] at h2 h2'
      obtain ⟨_, _, h3⟩ := bind_ok h2
      obtain ⟨_, _, h3'⟩ := bind_ok h2'
      simp only [pure, Except.pure, Except.ok.injEq, Prod.mk.injEq] at h3 h3'
      obtain ⟨rfl, rfl⟩ := h3
      obtain ⟨rfl, rfl⟩ := h3'
      exact ⟨rfl, rfl, _, rfl⟩
    | _ => simp [throw_eq] at h2
  | _ => simp [throw_eq] at h2

/-- **every statement of the grammar is built to the re-valued statement in the re-valued context** -/
theorem stmt_rel (cfg : Config) : ∀ f, StmtRel ov cfg f := by
  intro f
  induction f with
  | zero =>
    intro ctx par e st st1 st1' o o' hg h _
    cases hg <;> simp [buildAny, throw_eq] at h
  | succ f IH =>
    intro ctx par e st st1 st1' o o' hg h h'
    cases hg with
    | gate ha => exact gate_rel ov ha h h'
    | parB hitems => exact block_rel ov (p := true) IH hitems h h'
    | seqB hitems => exact block_rel ov (p := false) IH hitems h h'
    | loopSeq hcnt hitems => exact loop_rel ov (p := false) IH hcnt hitems h h'
    | loopPar hcnt hitems => exact loop_rel ov (p := true) IH hcnt hitems h h'
    | sub hcnt hitems => exact sub_rel ov IH hcnt hitems h h'

end Jaqal.FillIn
