import JaqalModel.Model.Walk
import JaqalModel.Model.WalkSpec
/-!
# Addresses: lexicographic order (`lexLt` = Python's list `<`), prefixes, addresses of the flat token list
-/
namespace Jaqal.Walk

theorem lexLt_irrefl : ∀ x : List Nat, lexLt x x = false
  | [] => rfl
  | a :: r => by simp [lexLt, lexLt_irrefl r]

theorem lexLt_trans : ∀ {x y z : List Nat}, lexLt x y = true → lexLt y z = true → lexLt x z = true
  | [], [], _, h, _ => by simp [lexLt] at h
  | [], _ :: _, [], _, h => by simp [lexLt] at h
  | [], _ :: _, _ :: _, _, _ => by simp [lexLt]
  | _ :: _, [], _, h, _ => by simp [lexLt] at h
  | _ :: _, _ :: _, [], _, h => by simp [lexLt] at h
  | a :: x, b :: y, c :: z, h1, h2 => by
    simp only [lexLt, Bool.or_eq_true, decide_eq_true_eq, Bool.and_eq_true, beq_iff_eq] at h1 h2 ⊢
    rcases h1 with h1 | ⟨rfl, h1⟩
    · rcases h2 with h2 | ⟨rfl, _⟩
      · left; omega
      · left; exact h1
    · rcases h2 with h2 | ⟨rfl, h2⟩
      · left; exact h2
      · right; exact ⟨rfl, lexLt_trans h1 h2⟩

theorem lexLt_asymm {x y : List Nat} (h : lexLt x y = true) : lexLt y x = false := by
  cases h2 : lexLt y x with
  | false => rfl
  | true => have := lexLt_trans h h2; rw [lexLt_irrefl] at this; cases this

theorem lexLt_total : ∀ (x y : List Nat), lexLt x y = false → x ≠ y → lexLt y x = true
  | [], [], _, h => absurd rfl h
  | [], _ :: _, h, _ => by simp [lexLt] at h
  | _ :: _, [], _, _ => by simp [lexLt]
  | a :: x, b :: y, h, hne => by
    simp only [lexLt, Bool.or_eq_false_iff, decide_eq_false_iff_not, Bool.and_eq_false_iff] at h
    simp only [lexLt, Bool.or_eq_true, decide_eq_true_eq, Bool.and_eq_true, beq_iff_eq]
    by_cases hab : b < a
    · left; exact hab
    · right
      have : a = b := by omega
      subst this
      refine ⟨rfl, lexLt_total x y ?_ (fun h => hne (by rw [h]))⟩
      rcases h.2 with h | h
      · simp at h
      · exact h

theorem lexLt_append_left : ∀ (a x y : List Nat), lexLt (a ++ x) (a ++ y) = lexLt x y
  | [], _, _ => rfl
  | h :: t, x, y => by simp [lexLt, lexLt_append_left t x y]

/-- a proper prefix is smaller -/
theorem lexLt_prefix (p : List Nat) (m : Nat) (r : List Nat) : lexLt p (p ++ m :: r) = true := by
  have := lexLt_append_left p [] (m :: r)
  simpa [lexLt] using this

/-- comparison with a sibling position -/
theorem lexLt_sibling (a : List Nat) (m : Nat) (r : List Nat) (l : Nat) :
    lexLt (a ++ m :: r) (a ++ [l]) = decide (m < l) := by
  rw [lexLt_append_left]
  cases r <;> simp [lexLt]

theorem lexLt_sibling' (a : List Nat) (m : Nat) (r : List Nat) (l : Nat) (r' : List Nat) (h : m < l) :
    lexLt (a ++ m :: r) (a ++ l :: r') = true := by
  rw [lexLt_append_left]; simp [lexLt, h]

/-- what lies in `[a ++ [i], a ++ [i+1])` is below `a ++ [i]` -/
theorem between_siblings : ∀ (a : List Nat) (i : Nat) (x : List Nat),
    lexLt x (a ++ [i]) = false → lexLt x (a ++ [i + 1]) = true → ∃ r, x = a ++ i :: r
  | [], i, [], h, _ => by simp [lexLt] at h
  | [], i, m :: r, h1, h2 => by
    simp only [List.nil_append, lexLt, Bool.or_eq_false_iff, decide_eq_false_iff_not,
      Bool.and_eq_false_iff] at h1
    simp only [List.nil_append, lexLt, Bool.or_eq_true, decide_eq_true_eq, Bool.and_eq_true] at h2
    have : m = i := by
      rcases h2 with h2 | ⟨h2, h3⟩
      · omega
      · cases r <;> simp [lexLt] at h3
    exact ⟨r, by simp [this]⟩
  | h :: t, i, [], h1, _ => by simp [lexLt] at h1
  | h :: t, i, m :: r, h1, h2 => by
    simp only [List.cons_append, lexLt, Bool.or_eq_false_iff, decide_eq_false_iff_not,
      Bool.and_eq_false_iff] at h1
    simp only [List.cons_append, lexLt, Bool.or_eq_true, decide_eq_true_eq, Bool.and_eq_true,
      beq_iff_eq] at h2
    rcases h2 with h2 | ⟨rfl, h2⟩
    · omega
    · have h1' : lexLt r (t ++ [i]) = false := by
        rcases h1.2 with h | h
        · simp at h
        · exact h
      obtain ⟨r', hr⟩ := between_siblings t i r h1' h2
      exact ⟨r', by simp [hr]⟩

/-- what lies in `[p, p ++ [0])` is `p` -/
theorem between_first : ∀ (p x : List Nat), lexLt x p = false → lexLt x (p ++ [0]) = true → x = p
  | [], [], _, _ => rfl
  | [], m :: r, _, h => by
    simp only [List.nil_append, lexLt, Bool.or_eq_true, decide_eq_true_eq, Bool.and_eq_true] at h
    rcases h with h | ⟨_, h⟩
    · omega
    · cases r <;> simp [lexLt] at h
  | h :: t, [], h1, _ => by simp [lexLt] at h1
  | h :: t, m :: r, h1, h2 => by
    simp only [lexLt, Bool.or_eq_false_iff, decide_eq_false_iff_not, Bool.and_eq_false_iff] at h1
    simp only [List.cons_append, lexLt, Bool.or_eq_true, decide_eq_true_eq, Bool.and_eq_true,
      beq_iff_eq] at h2
    rcases h2 with h2 | ⟨rfl, h2⟩
    · omega
    · have h1' : lexLt r t = false := by
        rcases h1.2 with h | h
        · simp at h
        · exact h
      rw [between_first t r h1' h2]

theorem take_eq_iff_prefix (a x : List Nat) : x.take a.length = a ↔ a <+: x := by
  constructor
  · intro h; rw [← h]; exact List.take_prefix _ _
  · rintro ⟨t, rfl⟩; simp

/-- the `assert address < self.objective[:len(address)]` of `TraceVisitor.visit_BlockStatement` -/
theorem lexLt_take_of_ge : ∀ (a x : List Nat), lexLt x a = false → ¬ a <+: x →
    lexLt a (x.take a.length) = true
  | [], x, _, h => absurd (List.nil_prefix) h
  | h :: t, [], h1, _ => by simp [lexLt] at h1
  | h :: t, m :: r, h1, hp => by
    simp only [lexLt, Bool.or_eq_false_iff, decide_eq_false_iff_not, Bool.and_eq_false_iff] at h1
    simp only [List.length_cons, List.take_succ_cons, lexLt, Bool.or_eq_true, decide_eq_true_eq,
      Bool.and_eq_true, beq_iff_eq]
    by_cases hlt : h < m
    · left; exact hlt
    · right
      have : h = m := by omega
      subst this
      refine ⟨rfl, lexLt_take_of_ge t r ?_ ?_⟩
      · rcases h1.2 with h | h
        · simp at h
        · exact h
      · intro hp'; exact hp (by obtain ⟨u, hu⟩ := hp'; exact ⟨u, by simp [hu]⟩)

/-! ### Paths to gates -/

/-- `path` leads from a statement list down to a gate statement. -/
def ValidAt : List Stmt → List Nat → Prop
  | _, [] => False
  | body, [n] => ∃ k, body[n]? = some (.gate k)
  | body, n :: m :: r =>
    (∃ p b, body[n]? = some (.block p b) ∧ ValidAt b (m :: r)) ∨
    (∃ c p b, body[n]? = some (.loop c p b) ∧ ValidAt b (m :: r))

theorem validAt_cons_succ (s : Stmt) (l : List Stmt) (j : Nat) (r : List Nat) :
    ValidAt (s :: l) ((j + 1) :: r) ↔ ValidAt l (j :: r) := by
  cases r <;> simp [ValidAt]

/-- gate addresses of a token list -/
def gaddrs : List Tok → List Addr
  | [] => []
  | .g _ a :: r => a :: gaddrs r
  | _ :: r => gaddrs r

theorem gaddrs_append (l₁ l₂ : List Tok) : gaddrs (l₁ ++ l₂) = gaddrs l₁ ++ gaddrs l₂ := by
  induction l₁ with
  | nil => rfl
  | cons t r ih => cases t <;> simp [gaddrs, ih]

mutual
  theorem flat_addr_stmt : ∀ (s : Stmt) (a : Addr), ∀ x ∈ gaddrs (flatStmt s a),
      (∃ k, s = .gate k ∧ x = a) ∨ (∃ p b r, s = .block p b ∧ x = a ++ r ∧ ValidAt b r) ∨
      (∃ c p b r, s = .loop c p b ∧ x = a ++ r ∧ ValidAt b r)
    | .gate k, a, x, hx => by simp [flatStmt, gaddrs] at hx; exact Or.inl ⟨k, rfl, hx⟩
    | .block p b, a, x, hx => by
      simp only [flatStmt] at hx
      obtain ⟨j, r, rfl, _, hv⟩ := flat_addr_list b a 0 x hx
      exact Or.inr (Or.inl ⟨p, b, j :: r, rfl, by simp, hv⟩)
    | .loop c p b, a, x, hx => by
      simp only [flatStmt, gaddrs, gaddrs_append, List.append_nil] at hx
      obtain ⟨j, r, rfl, _, hv⟩ := flat_addr_list b a 0 x hx
      exact Or.inr (Or.inr ⟨c, p, b, j :: r, rfl, by simp, hv⟩)
  theorem flat_addr_list : ∀ (l : List Stmt) (a : Addr) (i : Nat), ∀ x ∈ gaddrs (flatList l a i),
      ∃ j r, x = a ++ (i + j) :: r ∧ j < l.length ∧ ValidAt l (j :: r)
    | [], a, i, x, hx => by simp [flatList, gaddrs] at hx
    | s :: l, a, i, x, hx => by
      simp only [flatList, gaddrs_append, List.mem_append] at hx
      rcases hx with hx | hx
      · rcases flat_addr_stmt s (a ++ [i]) x hx with ⟨k, rfl, rfl⟩ | ⟨p, b, r, rfl, rfl, hv⟩ | ⟨c, p, b, r, rfl, rfl, hv⟩
        · exact ⟨0, [], by simp, by simp, ⟨k, by simp⟩⟩
        · cases r with
          | nil => simp [ValidAt] at hv
          | cons m r => exact ⟨0, m :: r, by simp, by simp, Or.inl ⟨p, b, by simp, hv⟩⟩
        · cases r with
          | nil => simp [ValidAt] at hv
          | cons m r => exact ⟨0, m :: r, by simp, by simp, Or.inr ⟨c, p, b, by simp, hv⟩⟩
      · obtain ⟨j, r, rfl, hj, hv⟩ := flat_addr_list l a (i + 1) x hx
        exact ⟨j + 1, r, by simp; omega, by simp; omega, (validAt_cons_succ s l j r).mpr hv⟩
end

mutual
  theorem flat_sorted_stmt : ∀ (s : Stmt) (a : Addr), (gaddrs (flatStmt s a)).Pairwise (fun x y => lexLt x y = true)
    | .gate k, a => by simp [flatStmt, gaddrs]
    | .block p b, a => by simpa [flatStmt] using flat_sorted_list b a 0
    | .loop c p b, a => by
      simpa [flatStmt, gaddrs, gaddrs_append] using flat_sorted_list b a 0
  theorem flat_sorted_list : ∀ (l : List Stmt) (a : Addr) (i : Nat),
      (gaddrs (flatList l a i)).Pairwise (fun x y => lexLt x y = true)
    | [], a, i => by simp [flatList, gaddrs]
    | s :: l, a, i => by
      simp only [flatList, gaddrs_append]
      refine List.pairwise_append.mpr ⟨flat_sorted_stmt s (a ++ [i]), flat_sorted_list l a (i + 1), ?_⟩
      intro x hx y hy
      obtain ⟨j, r, rfl, _, _⟩ := flat_addr_list l a (i + 1) y hy
      have hx' : ∃ r', x = a ++ i :: r' := by
        rcases flat_addr_stmt s (a ++ [i]) x hx with ⟨k, _, rfl⟩ | ⟨p, b, r, _, rfl, _⟩ | ⟨c, p, b, r, _, rfl, _⟩
        · exact ⟨[], by simp⟩
        · exact ⟨r, by simp⟩
        · exact ⟨r, by simp⟩
      obtain ⟨r', rfl⟩ := hx'
      exact lexLt_sibling' a i r' _ r (by omega)
end

theorem pairwise_lexLt_nodup {l : List Addr} (h : l.Pairwise (fun x y => lexLt x y = true)) : l.Nodup := by
  refine List.Pairwise.imp ?_ h
  intro x y hxy heq
  subst heq
  rw [lexLt_irrefl] at hxy; cases hxy

end Jaqal.Walk
